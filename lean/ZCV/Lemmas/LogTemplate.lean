import ZCV.Model.LogTemplate
import ZCV.Spec.LogTemplate
import ZCV.Lemmas.LogFormat
import ZCV.Lemmas.LogFormatParse
/-!
Lemmas for the `template` / `safe-template` log format model (C20): the scanner gives the source text back,
running `substitute` over the pieces, the sample record and the known names, acceptance and safety.
-/
namespace ZCV.LogTemplateLemmas
open ZCV ZCV.LogFormat ZCV.LogTemplate ZCV.LogTemplateSpec ZCV.LogFormatLemmas

/-! ## `scanDollar` / `scanAux`: text and length -/

theorem lt_takeDrop (p : Char → Bool) (s : Str) : s.takeWhile p ++ s.dropWhile p = s := List.takeWhile_append_dropWhile

theorem lt_dropWhile_length_le (p : Char → Bool) (s : Str) : (s.dropWhile p).length ≤ s.length := by
  have h := congrArg List.length (lt_takeDrop p s)
  rw [List.length_append] at h
  omega

/-- the match at a `$` and the text after it make up the text from that `$` on -/
theorem lt_scanDollar_text (t : Str) : (scanDollar t).1.text ++ (scanDollar t).2 = '$' :: t := by
  unfold scanDollar
  split
  · rfl
  · rename_i c t'
    split
    · rename_i hc
      simp only [beq_iff_eq] at hc
      subst hc; rfl
    · split
      · simp only [Piece.text, List.cons_append, lt_takeDrop]
      · split
        · rename_i hb
          simp only [beq_iff_eq] at hb
          subst hb
          split
          · rfl
          · rename_i c2 t2
            split
            · split
              · rename_i c3 t3 hd
                split
                · rename_i h3
                  simp only [beq_iff_eq] at h3
                  subst h3
                  simp only [Piece.text, List.cons_append, List.append_assoc, List.nil_append]
                  rw [← hd, lt_takeDrop]
                · rfl
              · rfl
            · rfl
        · rfl

theorem lt_scanDollar_ne_lit (t : Str) (s : Str) : (scanDollar t).1 ≠ .lit s := by
  unfold scanDollar
  repeat' split
  all_goals simp

/-- every match takes the `$` at least -/
theorem lt_scanDollar_length (t : Str) : (scanDollar t).2.length ≤ t.length := by
  have h := congrArg List.length (lt_scanDollar_text t)
  rw [List.length_append, List.length_cons] at h
  have h1 : 1 ≤ (scanDollar t).1.text.length := by
    cases hp : (scanDollar t).1 with
    | lit s => exact absurd hp (lt_scanDollar_ne_lit t s)
    | _ => simp [Piece.text]
  omega

theorem lt_dropWhile_cons_pos (p : Char → Bool) (c : Char) (t : Str) (h : p c = true) :
    (c :: t).dropWhile p = t.dropWhile p := by
  simp only [List.dropWhile_cons, h, if_true]

theorem lt_takeWhile_cons_pos (p : Char → Bool) (c : Char) (t : Str) (h : p c = true) :
    (c :: t).takeWhile p = c :: t.takeWhile p := by
  simp only [List.takeWhile_cons, h, if_true]

theorem lt_ne_dollar {c : Char} (h : ¬ (c == '$') = true) : (c != '$') = true := by
  simp only [bne, Bool.not_eq_true'] at *
  simp [h]

/-- the pieces concatenate back to the text, whatever fuel is enough -/
theorem lt_scanAux_text : ∀ (fuel : Nat) (s : Str), s.length ≤ fuel → (scanAux fuel s).flatMap Piece.text = s := by
  intro fuel
  induction fuel with
  | zero =>
    intro s hs
    have : s = [] := List.eq_nil_of_length_eq_zero (by omega)
    subst this; rfl
  | succ fuel ih =>
    intro s hs
    cases s with
    | nil => rfl
    | cons c t =>
      simp only [List.length_cons] at hs
      unfold scanAux
      split
      · rename_i hc
        simp only [beq_iff_eq] at hc
        subst hc
        rw [List.flatMap_cons, ih _ (by have := lt_scanDollar_length t; omega)]
        exact lt_scanDollar_text t
      · rename_i hc
        have hp := lt_ne_dollar hc
        rw [List.flatMap_cons, ih _ (by
          rw [lt_dropWhile_cons_pos (· != '$') c t hp]
          have := lt_dropWhile_length_le (· != '$') t; omega)]
        exact lt_takeDrop _ _

/-- more fuel than characters changes nothing -/
theorem lt_scanAux_fuel : ∀ (f1 f2 : Nat) (s : Str), s.length ≤ f1 → s.length ≤ f2 → scanAux f1 s = scanAux f2 s := by
  intro f1
  induction f1 with
  | zero =>
    intro f2 s h1 _
    have : s = [] := List.eq_nil_of_length_eq_zero (by omega)
    subst this
    cases f2 <;> rfl
  | succ f1 ih =>
    intro f2 s h1 h2
    cases s with
    | nil => cases f2 <;> rfl
    | cons c t =>
      simp only [List.length_cons] at h1 h2
      cases f2 with
      | zero => omega
      | succ f2 =>
        unfold scanAux
        split
        · have := lt_scanDollar_length t
          rw [ih f2 _ (by omega) (by omega)]
        · rename_i hc
          have hp := lt_ne_dollar hc
          have hl : ((c :: t).dropWhile (· != '$')).length ≤ t.length := by
            rw [lt_dropWhile_cons_pos (· != '$') c t hp]; exact lt_dropWhile_length_le _ t
          rw [ih f2 _ (by omega) (by omega)]

theorem lt_scan_nil : scan [] = [] := rfl

theorem lt_scan_dollar (t : Str) : scan ('$' :: t) = (scanDollar t).1 :: scan (scanDollar t).2 := by
  have hl := lt_scanDollar_length t
  show scanAux (t.length + 1) ('$' :: t) = _
  unfold scanAux
  simp only [beq_self_eq_true, if_true]
  unfold scan
  rw [lt_scanAux_fuel t.length (scanDollar t).2.length _ hl (Nat.le_refl _)]

theorem lt_scan_lit (c : Char) (t : Str) (hc : c ≠ '$') :
    scan (c :: t) = .lit (c :: t.takeWhile (· != '$')) :: scan (t.dropWhile (· != '$')) := by
  have hp : (c != '$') = true := by simp [bne, hc]
  have hb : ¬ (c == '$') = true := by simp [hc]
  show scanAux (t.length + 1) (c :: t) = _
  unfold scanAux
  simp only [hb, Bool.false_eq_true, if_false]
  rw [lt_takeWhile_cons_pos (· != '$') c t hp, lt_dropWhile_cons_pos (· != '$') c t hp]
  unfold scan
  rw [lt_scanAux_fuel t.length (t.dropWhile (· != '$')).length _ (lt_dropWhile_length_le _ t) (Nat.le_refl _)]

theorem lt_scan_text (s : Str) : (scan s).flatMap Piece.text = s := lt_scanAux_text _ s (Nat.le_refl _)

/-- the source text of every piece occurs in the format -/
theorem lt_mem_scan_infix {s : Str} {p : Piece} (h : p ∈ scan s) : ∃ pre post, s = pre ++ (p.text ++ post) := by
  obtain ⟨a, b, hab⟩ := List.append_of_mem h
  refine ⟨a.flatMap Piece.text, b.flatMap Piece.text, ?_⟩
  have := lt_scan_text s
  rw [hab, List.flatMap_append, List.flatMap_cons] at this
  exact this.symm

end ZCV.LogTemplateLemmas
