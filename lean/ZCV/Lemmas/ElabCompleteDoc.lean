import ZCV.Lemmas.ElabCompleteType
/-!
C10, completeness, step 5: a whole `<sectiontype>` element, `<import>`, the children of `<schema>` / `<component>`, the
document element, the nesting of components, and the theorem: a schema document that satisfies `DocRulesN` (with the
components it imports) is accepted by the loader model.
-/
namespace ZCV.SchemaRules
open ZCV ZCV.Elab
open ZCV.Cfg (VI SectInfo Default)

/-- **a rule-abiding `<sectiontype>` element is accepted** and appends the concrete entry the specification predicts -/
theorem sectiontypeElem_ok {env : Env} {h : Hooks} {d : DocKind} {parent outer : Str} {ps : List Str} {st : PSt}
    {Γ : Ctx} {a : Attrs} {c : List Node} (hrel : TypesRel Γ st.es.types) (hp : st.prefixes = outer :: ps)
    (hn : nestingOK parent "sectiontype".toList = true) (hok : sectiontypeOK env (!isComp d) outer Γ a c = true) :
    ∃ pre e, visitElem env h d (some parent) st (.elem "sectiontype".toList a c) =
        .ok { st with es := { st.es with types := pre ++ [(typeNameOf a, e)] } } ∧
      TypesRel Γ pre ∧ EntryRel (sectiontypeSig env outer Γ a c) e := by
  unfold sectiontypeOK at hok
  simp only [Bool.and_eq_true] at hok
  obtain ⟨⟨⟨⟨⟨⟨⟨⟨⟨r1, r2⟩, r3⟩, r4⟩, r5⟩, r6⟩, r7⟩, r8⟩, rbody⟩, ronce⟩ := hok
  obtain ⟨pre, t, hstart, hpre, htk, htc, htd, hte⟩ := startSectiontype_of_rules hrel hp r1 r2 r3 r4 r5 r6 r7 r8
  have hfresh : typeNameOf a ∉ ({ st.es with types := pre } : ES).typeNames := by
    show typeNameOf a ∉ pre.map (·.1)
    rw [← hpre.names]
    intro hc
    unfold typeNameOK at r1
    simp only [Bool.and_eq_true, Bool.not_eq_true'] at r1
    have := List.contains_iff_mem.mpr hc
    rw [this] at r1
    cases r1.2
  have hnames : ({ st.es with types := pre } : ES).typeNames ++ [typeNameOf a] = Γ.names ++ [typeNameOf a] := by
    show pre.map (·.1) ++ _ = _
    rw [← hpre.names]
  obtain ⟨ho1, ho2⟩ := onceOK_split ronce
  obtain ⟨t', hbody, hk', hc'⟩ := typeBody_ok (env := env) (h := h) (d := d) (parent := "sectiontype".toList)
    (pfx := prefixOf (some outer) a) (ps := st.prefixes) (rest := st.stack) { st.es with types := pre } hfresh hnames
    c (inheritedOf Γ a) t
    { st with es := { st.es with types := pre ++ [(typeNameOf a, .concrete t)] },
              prefixes := prefixOf (some outer) a :: st.prefixes,
              stack := .stype (typeNameOf a) :: st.stack }
    rfl rfl rfl htk htc (by rw [htd]; exact ho1) (by rw [hte]; exact ho2) rbody
  rw [visitElem_handled hn (by decide +kernel), startHandled_sectiontype, hstart]
  simp only [bind, Except.bind]
  rw [hbody]
  have hend : endHandled env "sectiontype".toList = endSectiontype := by funext s; rfl
  rw [hend]
  refine ⟨pre, .concrete t', rfl, hpre, ?_⟩
  exact ⟨hk', hc'⟩

/-! ### `<import>` -/

/-- the hooks of the loader do what the rules expect of the components one level down -/
def HookOK (below : Below) (h : Hooks) : Prop :=
  ∀ (Γ : Ctx) (comps : List Str) (tree : Node) (es : ES), TypesRel Γ es.types → es.components = comps →
    below.ok Γ comps tree = true →
    ∃ es', h.loadComponent es tree = .ok es' ∧ TypesRel (below.after Γ comps tree).1 es'.types ∧
      es'.components = (below.after Γ comps tree).2 ∧ es'.top = es.top ∧ es'.handler = es.handler

theorem importFileOf_eq (a : Attrs) : importFileOf a = importFile a := rfl
theorem importSrc_eq (pfx : Str) (a : Attrs) : importSrc pfx a = importSource (importPkg pfx a) (importFile a) := rfl

theorem visitChildren_blank {env : Env} {h : Hooks} {d : DocKind} {parent : Str} (st : PSt) :
    ∀ c : List Node, (c.all fun n => match n with | .text s => blank s | .elem _ _ _ => false) = true →
      visitChildren env h d parent st c = .ok st
  | [], _ => visitChildren_nil' ..
  | .text s :: r, hc => by
    simp only [List.all_cons, Bool.and_eq_true] at hc
    have hb : (strip s).isEmpty = true := hc.1
    rw [visitChildren_text, if_pos hb]
    exact visitChildren_blank st r hc.2
  | .elem t a c :: r, hc => by simp at hc

/-- **a rule-abiding `<import>` element is accepted**: the component is merged (once), nothing else changes -/
theorem importElem_ok {env : Env} {h : Hooks} {d : DocKind} {below : Below} {parent pfx : Str} {ps : List Str}
    {st : PSt} {Γ : Ctx} {comps : List Str} {a : Attrs} {c : List Node} (hh : HookOK below h)
    (hrel : TypesRel Γ st.es.types) (hcomps : st.es.components = comps) (hp : st.prefixes = pfx :: ps)
    (hn : nestingOK parent "import".toList = true) (hok : importOK env below pfx Γ comps a c = true) :
    ∃ es', visitElem env h d (some parent) st (.elem "import".toList a c) = .ok { st with es := es' } ∧
      TypesRel (importAfter env below pfx Γ comps a).1 es'.types ∧
      es'.components = (importAfter env below pfx Γ comps a).2 ∧ es'.top = st.es.top ∧
      es'.handler = st.es.handler := by
  unfold importOK importWF at hok
  simp only [Bool.and_eq_true, Bool.not_eq_true', List.isEmpty_iff] at hok
  obtain ⟨⟨⟨⟨⟨hsrc, hpkg⟩, hfile⟩, hsplit⟩, hblank⟩, hres⟩ := hok
  have hpkg' : attrStrip a "package" ≠ [] := by
    intro e; rw [e] at hpkg; cases hpkg
  have hcls : getClassname st (attrStrip a "package") = .ok (importPkg pfx a) := getClassname_eq hp _
  have hstart := startImport_package env h st a (importPkg pfx a) hsrc hpkg' hfile hcls hsplit
  have hend : endHandled env "import".toList = fun s => .ok s := by funext s; rfl
  rw [visitElem_handled hn (by decide +kernel), startHandled_import, hstart]
  rw [← importSrc_eq pfx a, ← importFileOf_eq a, hcomps]
  unfold importAfter
  cases hx : env.comps (importPkg pfx a) (importFileOf a) with
  | notImportable => rw [hx] at hres; cases hres
  | notPackage => rw [hx] at hres; cases hres
  | noFile =>
    rw [hx] at hres
    simp only at hres
    simp only [hres, ↓reduceIte, bind, Except.bind]
    rw [visitChildren_blank st c hblank, hend]
    exact ⟨st.es, rfl, hrel, hcomps, rfl, rfl⟩
  | doc tree =>
    rw [hx] at hres
    simp only at hres
    by_cases hin : comps.contains (importSrc pfx a) = true
    · simp only [hin, ↓reduceIte, bind, Except.bind]
      rw [visitChildren_blank st c hblank, hend]
      exact ⟨st.es, rfl, hrel, hcomps, rfl, rfl⟩
    · have hin' : comps.contains (importSrc pfx a) = false := by simpa using hin
      rw [hin', Bool.false_or] at hres
      simp only [hin', Bool.false_eq_true, ↓reduceIte]
      obtain ⟨es', h1, h2, h3, h4, h5⟩ := hh Γ (comps ++ [importSrc pfx a]) tree
        { st.es with components := st.es.components ++ [importSrc pfx a] } hrel (by rw [← hcomps]) hres
      rw [hcomps] at h1
      rw [h1]
      simp only [Except.map, bind, Except.bind]
      rw [visitChildren_blank _ c hblank, hend]
      exact ⟨es', rfl, h2, h3, h4, h5⟩

/-! ### the children of `<schema>` / `<component>` -/

/-- below `parent` the table allows type declarations, `<import>` and `<description>` only -/
def compParent (parent : Str) : Bool :=
  Gen.allowedParents.all fun e => !e.2.contains parent || e.1 == "abstracttype".toList || e.1 == "sectiontype".toList ||
    e.1 == "import".toList || e.1 == "description".toList

theorem compParent_component : compParent "component".toList = true := by decide +kernel

theorem compParent_cases {parent t : Str} (hl : compParent parent = true) (hn : nestingOK parent t = true) :
    t = "abstracttype".toList ∨ t = "sectiontype".toList ∨ t = "import".toList ∨ t = "description".toList := by
  unfold nestingOK at hn
  rw [List.any_eq_true] at hn
  obtain ⟨e, he, hc⟩ := hn
  simp only [Bool.and_eq_true, beq_iff_eq] at hc
  have := List.all_eq_true.1 hl e he
  rw [hc.2, hc.1] at this
  simp only [Bool.not_true, Bool.false_or, Bool.or_eq_true, beq_iff_eq] at this
  rcases this with ((h | h) | h) | h
  · exact Or.inl h
  · exact Or.inr (Or.inl h)
  · exact Or.inr (Or.inr (Or.inl h))
  · exact Or.inr (Or.inr (Or.inr h))

/-- the loader state between two children of the document element -/
structure TopInv (d : DocKind) (pfx kt : Str) (Γ : Ctx) (comps : List Str) (ms : List Member) (st : PSt) : Prop where
  prefixes : st.prefixes = [pfx]
  types : TypesRel Γ st.es.types
  comps : st.es.components = comps
  schema : isComp d = false →
    st.stack = [.schema] ∧ st.es.top.keytype = kt ∧ Pointwise MemberRel ms st.es.top.children
  component : isComp d = true → st.stack = [] ∧ compParent "component".toList = true

theorem markDesc_top {isC : Bool} {st : PSt} (hs : st.stack = [.schema]) (hd : (st.es.top.hasDesc && !isC) = false) :
    markDesc isC st = .ok { st with es := { st.es with top := { st.es.top with hasDesc := true } } } := by
  unfold markDesc
  rw [hs]
  simp only [hd, Bool.false_eq_true, ↓reduceIte]

theorem markExample_top {st : PSt} (hs : st.stack = [.schema]) (hd : st.es.top.hasEx = false) :
    markExample st = .ok { st with es := { st.es with top := { st.es.top with hasEx := true } } } := by
  unfold markExample
  rw [hs]
  simp only [hd, Bool.false_eq_true, ↓reduceIte]

/-- what the children of the document element leave unchanged -/
structure TopKeeps (d : DocKind) (st st' : PSt) : Prop where
  stack : st'.stack = st.stack
  handler : st'.es.handler = st.es.handler
  top : isComp d = true → st'.es.top = st.es.top

theorem TopKeeps.refl (d : DocKind) (st : PSt) : TopKeeps d st st := ⟨rfl, rfl, fun _ => rfl⟩

theorem TopKeeps.of_step {d : DocKind} {st st1 st' : PSt} (g : TopKeeps d st1 st') (h1 : st1.stack = st.stack)
    (h2 : st1.es.handler = st.es.handler) (h3 : isComp d = true → st1.es.top = st.es.top) :
    TopKeeps d st st' :=
  ⟨g.stack.trans h1, g.handler.trans h2, fun hc => (g.top hc).trans (h3 hc)⟩

/-- **the children of the document element**: all accepted; signature and merged components end up as the
specification predicts -/
theorem topItems_ok {env : Env} {h : Hooks} {d : DocKind} {below : Below} {parent pfx kt : Str} (hh : HookOK below h)
    (hpar : isComp d = true → compParent parent = true) :
    ∀ (c : List Node) (Γ : Ctx) (comps : List Str) (ms : List Member) (st : PSt), TopInv d pfx kt Γ comps ms st →
      OnceIf (isComp d) st.es.top.hasDesc "description".toList c →
      OnceIf (isComp d) st.es.top.hasEx "example".toList c →
      topItemsOK env below (!isComp d) parent pfx kt Γ comps ms c = true →
      ∃ st' ms', visitChildren env h d parent st c = .ok st' ∧
        TopInv d pfx kt (topAfter env below pfx Γ comps c).1 (topAfter env below pfx Γ comps c).2 ms' st' ∧
        TopKeeps d st st'
  | [], Γ, comps, ms, st, inv, _, _, _ => ⟨st, ms, visitChildren_nil' .., by rw [topAfter]; exact inv, TopKeeps.refl d st⟩
  | .text s :: r, Γ, comps, ms, st, inv, hd, he, hok => by
    rw [topItemsOK] at hok
    simp only [Bool.and_eq_true] at hok
    have hbl : (strip s).isEmpty = true := hok.1
    obtain ⟨st', ms', h1, h2, h3⟩ := topItems_ok hh hpar r Γ comps ms st inv hd.text he.text hok.2
    exact ⟨st', ms', by rw [visitChildren_text, if_pos hbl]; exact h1, by rw [topAfter]; exact h2, h3⟩
  | .elem tg a c0 :: r, Γ, comps, ms, st, inv, hd, he, hok => by
    rw [topItemsOK] at hok
    rw [visitChildren_elem, topAfter]
    by_cases hab : (tg == "abstracttype".toList) = true
    · rw [if_pos hab] at hok ⊢
      have : tg = "abstracttype".toList := by simpa using hab
      subst this
      simp only [Bool.and_eq_true] at hok
      obtain ⟨⟨hn, hok1⟩, hokr⟩ := hok
      obtain ⟨e, h1, h2⟩ := abstracttypeElem_ok (env := env) (h := h) (d := d) (st := st) inv.types hn hok1
      rw [h1]
      simp only [bind, Except.bind]
      obtain ⟨st', ms', g1, g2, g3⟩ := topItems_ok hh hpar r _ comps ms
        { st with es := { st.es with types := st.es.types ++ [(typeNameOf a, e)] } }
        ⟨inv.prefixes, inv.types.snoc h2, inv.comps, inv.schema, inv.component⟩
        (hd.other (by decide +kernel)) (he.other (by decide +kernel)) hokr
      exact ⟨st', ms', g1, g2, g3.of_step rfl rfl (fun _ => rfl)⟩
    · rw [if_neg hab] at hok ⊢
      by_cases hst : (tg == "sectiontype".toList) = true
      · rw [if_pos hst] at hok ⊢
        have : tg = "sectiontype".toList := by simpa using hst
        subst this
        simp only [Bool.and_eq_true] at hok
        obtain ⟨⟨hn, hok1⟩, hokr⟩ := hok
        obtain ⟨pre, e, h1, h2, h3⟩ := sectiontypeElem_ok (env := env) (h := h) (d := d) (st := st)
          inv.types inv.prefixes hn hok1
        rw [h1]
        simp only [bind, Except.bind]
        obtain ⟨st', ms', g1, g2, g3⟩ := topItems_ok hh hpar r _ comps ms
          { st with es := { st.es with types := pre ++ [(typeNameOf a, e)] } }
          ⟨inv.prefixes, h2.snoc h3, inv.comps, inv.schema, inv.component⟩
          (hd.other (by decide +kernel)) (he.other (by decide +kernel)) hokr
        exact ⟨st', ms', g1, g2, g3.of_step rfl rfl (fun _ => rfl)⟩
      · rw [if_neg hst] at hok ⊢
        by_cases him : (tg == "import".toList) = true
        · rw [if_pos him] at hok ⊢
          have : tg = "import".toList := by simpa using him
          subst this
          simp only [Bool.and_eq_true] at hok
          obtain ⟨⟨hn, hok1⟩, hokr⟩ := hok
          obtain ⟨es', h1, h2, h3, h4, h5⟩ := importElem_ok (env := env) (d := d) (st := st) hh inv.types inv.comps
            inv.prefixes hn hok1
          rw [h1]
          simp only [bind, Except.bind]
          obtain ⟨st', ms', g1, g2, g3⟩ := topItems_ok hh hpar r _ _ ms { st with es := es' }
            ⟨inv.prefixes, h2, h3, fun hc => by rw [show ({ st with es := es' } : PSt).es.top = st.es.top from h4]; exact inv.schema hc,
              inv.component⟩
            (by rw [show ({ st with es := es' } : PSt).es.top = st.es.top from h4]; exact hd.other (by decide +kernel))
            (by rw [show ({ st with es := es' } : PSt).es.top = st.es.top from h4]; exact he.other (by decide +kernel))
            hokr
          exact ⟨st', ms', g1, g2, g3.of_step rfl h5 (fun _ => h4)⟩
        · rw [if_neg him] at hok ⊢
          simp only [Bool.and_eq_true] at hok
          obtain ⟨hok1, hokr⟩ := hok
          have hn : nestingOK parent tg = true := by
            unfold memberElemOK at hok1
            simp only [Bool.and_eq_true] at hok1
            exact hok1.1
          cases hcomp : isComp d with
          | true =>
            -- in a component only `<description>` is left, and it changes nothing
            have htag : tg = "description".toList := by
              rcases compParent_cases (hpar hcomp) hn with h' | h' | h' | h'
              · rw [h'] at hab; exact absurd hab (by decide +kernel)
              · rw [h'] at hst; exact absurd hst (by decide +kernel)
              · rw [h'] at him; exact absurd him (by decide +kernel)
              · exact h'
            subst htag
            obtain ⟨_, htxt⟩ := memberElemOK_note (by decide +kernel) hok1
            rw [memberElemAdds_note (by decide +kernel), List.append_nil] at hokr
            have hmark : markDesc true st = .ok st := by
              unfold markDesc
              rw [(inv.component hcomp).1]
              rfl
            rw [visitElem_note hn cdata_description htxt, charactersTag_description, hcomp, hmark]
            simp only [bind, Except.bind]
            obtain ⟨st', ms', g1, g2, g3⟩ := topItems_ok hh hpar r Γ comps ms st inv
              (fun hc => (by rw [hcomp] at hc; cases hc)) (fun hc => (by rw [hcomp] at hc; cases hc)) hokr
            exact ⟨st', ms', g1, g2, g3⟩
          | false =>
            obtain ⟨hstack, hkt, hmem⟩ := inv.schema hcomp
            by_cases hnote : isNoteTag tg = true
            · obtain ⟨_, htxt⟩ := memberElemOK_note hnote hok1
              rw [memberElemAdds_note hnote, List.append_nil] at hokr
              rcases isNoteTag_cases hnote with rfl | rfl
              · obtain ⟨hf, hd1⟩ := hd.same
                rw [visitElem_note hn cdata_description htxt, charactersTag_description, markDesc_top hstack hf]
                simp only [bind, Except.bind]
                obtain ⟨st', ms', g1, g2, g3⟩ := topItems_ok hh hpar r Γ comps ms
                  { st with es := { st.es with top := { st.es.top with hasDesc := true } } }
                  ⟨inv.prefixes, inv.types, inv.comps, fun _ => ⟨hstack, hkt, hmem⟩,
                    fun hc => (by rw [hcomp] at hc; cases hc)⟩ hd1 (he.other (by decide +kernel)) hokr
                exact ⟨st', ms', g1, g2, g3.of_step rfl rfl (fun hc => (by rw [hcomp] at hc; cases hc))⟩
              · obtain ⟨hf, he1⟩ := onceLeft_same (he hcomp)
                rw [visitElem_note hn cdata_example htxt, charactersTag_example, markExample_top hstack hf]
                simp only [bind, Except.bind]
                obtain ⟨st', ms', g1, g2, g3⟩ := topItems_ok hh hpar r Γ comps ms
                  { st with es := { st.es with top := { st.es.top with hasEx := true } } }
                  ⟨inv.prefixes, inv.types, inv.comps, fun _ => ⟨hstack, hkt, hmem⟩,
                    fun hc => (by rw [hcomp] at hc; cases hc)⟩ (hd.other (by decide +kernel)) (fun _ => he1) hokr
                exact ⟨st', ms', g1, g2, g3.of_step rfl rfl (fun hc => (by rw [hcomp] at hc; cases hc))⟩
            · have hnote' : isNoteTag tg = false := by simpa using hnote
              have htop : topOf st.es st.stack = .ok st.es.top.children := by rw [hstack]; rfl
              have hktop : ktOf st.es st.stack = .ok kt := by rw [hstack, ← hkt]; rfl
              have hnm : st.es.typeNames = Γ.names := inv.types.names.symm
              obtain ⟨xs, h1, h2⟩ := memberElem_ok (h := h) (d := d) htop hktop inv.prefixes hnm hmem hnote' hok1
              rw [h1]
              simp only [bind, Except.bind]
              have hset : setTopOf st.es st.stack (st.es.top.children ++ xs) =
                  { st.es with top := { st.es.top with children := st.es.top.children ++ xs } } := by
                rw [hstack]; rfl
              have hd' : OnceIf (isComp d) st.es.top.hasDesc "description".toList r := by
                apply OnceIf.other _ hd
                intro e; rw [e] at hnote'; exact absurd hnote' (by decide +kernel)
              have he' : OnceIf (isComp d) st.es.top.hasEx "example".toList r := by
                apply OnceIf.other _ he
                intro e; rw [e] at hnote'; exact absurd hnote' (by decide +kernel)
              rw [hset]
              obtain ⟨st', ms', g1, g2, g3⟩ := topItems_ok hh hpar r Γ comps _
                { st with es := { st.es with top := { st.es.top with children := st.es.top.children ++ xs } } }
                ⟨inv.prefixes, inv.types, inv.comps, fun _ => ⟨hstack, hkt, Pointwise.append hmem h2⟩,
                  fun hc => (by rw [hcomp] at hc; cases hc)⟩ hd' he' hokr
              exact ⟨st', ms', g1, g2, g3.of_step rfl rfl (fun hc => (by rw [hcomp] at hc; cases hc))⟩

/-! ### component documents, and their nesting -/

/-- **a rule-abiding component document is merged successfully** -/
theorem componentRoot_ok {env : Env} {h : Hooks} {below : Below} (hh : HookOK below h) {Γ : Ctx} {comps : List Str}
    {tree : Node} {es : ES} (hrel : TypesRel Γ es.types) (hc : es.components = comps)
    (hok : componentOK env below Γ comps tree = true) :
    ∃ es', (visitElem env h .component none { es := es } tree).map (·.es) = .ok es' ∧
      TypesRel (componentAfter env below Γ comps tree).1 es'.types ∧
      es'.components = (componentAfter env below Γ comps tree).2 ∧ es'.top = es.top ∧ es'.handler = es.handler := by
  cases tree with
  | text s =>
    refine ⟨es, ?_, hrel, hc, rfl, rfl⟩
    unfold visitElem
    rfl
  | elem t a c =>
    unfold componentOK at hok
    simp only [Bool.and_eq_true, beq_iff_eq] at hok
    obtain ⟨⟨ht, r1⟩, ritems⟩ := hok
    have ht' : t = DocKind.component.topLevel := ht
    have hpush := pushPrefix_of_rules_top (st := { ({ es := es } : PSt) with stack := [] }) (a := a) rfl r1
    have hpar : "component".toList = t := by rw [ht]; decide +kernel
    rw [hpar] at ritems
    obtain ⟨st2, ms', hs2, inv2, keeps⟩ := topItems_ok (env := env) (h := h) (d := .component) (parent := t)
      (kt := []) hh (fun _ => by rw [← hpar]; exact compParent_component) c Γ comps []
      { es := es, prefixes := [prefixOf none a], stack := [] }
      ⟨rfl, hrel, hc, fun hc => (by cases hc), fun _ => ⟨rfl, compParent_component⟩⟩
      (fun hc => (by cases hc)) (fun hc => (by cases hc)) ritems
    rw [visitElem_root_eq ht']
    simp only [hpush, bind, Except.bind]
    rw [hs2]
    exact ⟨st2.es, rfl, inv2.types, inv2.comps, keeps.top rfl, keeps.handler⟩

/-- with enough fuel the hooks of the loader do what the rules expect at every level of nesting -/
theorem hookOK_level (env : Env) : ∀ n m : Nat, n ≤ m → HookOK (level env n) (hooks env m)
  | 0, _, _ => by
    intro Γ comps tree es _ _ hok
    cases hok
  | n + 1, 0, hle => by omega
  | n + 1, m + 1, hle => by
    intro Γ comps tree es hrel hc hok
    exact componentRoot_ok (h := hooks env m) (hookOK_level env n m (by omega)) hrel hc hok

/-! ### the document element -/

theorem startSchema_of_rules {env : Env} {h : Hooks} {a : Attrs} (hx : attr a "extends" = none)
    (r1 : prefixOK none a = true) (r2 : handlerOK a = true)
    (r3 : dtAttrOK env (prefixOf none a) a "keytype" = true) (r4 : dtAttrOK env (prefixOf none a) a "valuetype" = true)
    (r5 : dtAttrOK env (prefixOf none a) a "datatype" = true) :
    ∃ st1, startSchema env h none { es := emptyES } a = .ok st1 ∧
      TopInv (.schema none) (prefixOf none a) (keytypeOf env (prefixOf none a) a none) [] [] [] st1 ∧
      st1.es.top.hasDesc = false ∧ st1.es.top.hasEx = false := by
  obtain ⟨hd, hhd⟩ := getHandler_of_rules r2
  have hpush := pushPrefix_of_rules_top (st := { es := emptyES }) (a := a) rfl r1
  obtain ⟨dt, hti⟩ := getSectTypeinfo_of_rules (env := env)
    (st := { ({ es := emptyES } : PSt) with prefixes := [prefixOf none a] }) (a := a) none rfl r3 r4 r5
  unfold startSchema
  rw [hpush]
  simp only [bind, Except.bind, hhd, hti, hx, pure, Except.pure]
  exact ⟨_, rfl, ⟨rfl, .nil, rfl, fun _ => ⟨rfl, rfl, .nil⟩, fun hc => (by cases hc)⟩, rfl, rfl⟩

/-- **completeness on the level of the parser state**: a schema document without `extends` that obeys the rules,
together with the components it imports, is read successfully by a loader whose hooks do what the rules expect -/
theorem docRules_visit {env : Env} {h : Hooks} {below : Below} (hh : HookOK below h) {t : Str} {a : Attrs}
    {c : List Node} (hx : attr a "extends" = none) (ht : t = Gen.schemaTopLevel)
    (hr : schemaRootOK env below a c = true) :
    ∃ st', visitElem env h (.schema none) none { es := emptyES } (.elem t a c) = .ok st' := by
  unfold schemaRootOK at hr
  simp only [Bool.and_eq_true] at hr
  obtain ⟨⟨⟨⟨⟨⟨r1, r2⟩, r3⟩, r4⟩, r5⟩, ritems⟩, ronce⟩ := hr
  obtain ⟨st1, hs1, inv, hd1, he1⟩ := startSchema_of_rules (env := env) (h := h) hx r1 r2 r3 r4 r5
  obtain ⟨ho1, ho2⟩ := onceOK_split (isC := false) ronce
  have ht' : t = (DocKind.schema none).topLevel := ht
  have hpar : "schema".toList = t := by rw [ht]; decide +kernel
  rw [hpar] at ritems
  obtain ⟨st2, ms', hs2, inv2, keeps⟩ := topItems_ok (env := env) (h := h) (d := .schema none) hh
    (fun hc => (by cases hc)) c [] [] [] st1 inv
    (by rw [hd1]; exact ho1) (by rw [he1]; exact fun _ => ho2) ritems
  have hstack : st2.stack = [.schema] := (inv2.schema rfl).1
  rw [visitElem_root_eq ht']
  simp only [hs1, bind, Except.bind, hs2]
  unfold endSchema
  simp only [hstack, popPrefix, inv2.prefixes, List.drop_one, List.tail_cons, Option.isSome_none, Bool.false_eq_true,
    ↓reduceIte]
  exact ⟨_, rfl⟩

/-- **Every document that satisfies the rules is accepted** — with the components it imports, nested at most `n` deep,
given fuel for `n` levels -/
theorem rules_accepted_imports (env : Env) (n fuel : Nat) (root : Node) (hx : noExtends root = true)
    (hr : DocRulesN env n .schema root) (hfuel : n ≤ fuel) : ∃ S, elabSchema env fuel root = .ok S := by
  cases root with
  | text s => cases hx
  | elem t a c =>
    unfold DocRulesN docRulesN at hr
    simp only [Bool.and_eq_true, beq_iff_eq] at hr
    have hx' : attr a "extends" = none := by
      unfold noExtends at hx
      simpa using hx
    obtain ⟨st', hv⟩ := docRules_visit (h := hooks env fuel) (hookOK_level env n fuel hfuel) hx' hr.1 hr.2
    unfold elabSchema elabES
    rw [hv]
    exact ⟨_, rfl⟩

theorem standalone_noExtends {root : Node} (h : standalone root = true) : noExtends root = true := by
  cases root with
  | text s => cases h
  | elem t a c =>
    unfold standalone at h
    simp only [Bool.and_eq_true] at h
    exact h.1

/-- **Every document that satisfies the rules is accepted** (one document, any fuel) -/
theorem rules_accepted (env : Env) (fuel : Nat) (root : Node) (hst : standalone root = true)
    (hr : DocRules env .schema root) : ∃ S, elabSchema env fuel root = .ok S :=
  rules_accepted_imports env 0 fuel root (standalone_noExtends hst) hr (Nat.zero_le _)

end ZCV.SchemaRules
