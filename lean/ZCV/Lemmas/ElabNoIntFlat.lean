import ZCV.Lemmas.ElabNoInt
/-!
C10, no internal errors, continued: documents that pull in no other document (no `<import>`, no `extends` on the root)
never use the hooks, so they cannot run out of fuel (closed instances: `ElabNoIntEx.lean`).
-/
namespace ZCV.Elab
open ZCV ZCV.Cfg

/-! ### documents without `<import>` / `extends` -/

mutual
def noImportElem : Node → Bool
  | .text _ => true
  | .elem t _ c => t != "import".toList && noImportElemL c
def noImportElemL : List Node → Bool
  | [] => true
  | n :: r => noImportElem n && noImportElemL r
end

/-- a schema document that pulls in no other document: no `<import>` anywhere, no `extends` on the root element -/
def flatDoc : Node → Bool
  | .text _ => true
  | .elem t a c => (attr a "extends").isNone && noImportElem (.elem t a c)

mutual
theorem noImportElem_noSrc : ∀ n : Node, noImportElem n = true → noImportSrc n = true
  | .text _, _ => by rw [noImportSrc]
  | .elem t a c, h => by
    rw [noImportElem] at h
    rw [noImportSrc]
    simp only [Bool.and_eq_true] at h ⊢
    exact ⟨by rw [h.1, Bool.true_or], noImportElemL_noSrc c h.2⟩
theorem noImportElemL_noSrc : ∀ l : List Node, noImportElemL l = true → noImportSrcL l = true
  | [], _ => by rw [noImportSrcL]
  | n :: r, h => by
    rw [noImportElemL] at h
    rw [noImportSrcL]
    simp only [Bool.and_eq_true] at h ⊢
    exact ⟨noImportElem_noSrc n h.1, noImportElemL_noSrc r h.2⟩
end

/-- fact about the generated nesting table: a top-level element is never allowed inside another element -/
theorem topNestingTable2 :
    Gen.allowedParents.all (fun e => e.1 != Gen.schemaTopLevel && e.1 != Gen.componentTopLevel) = true := by decide

theorem nesting_not_top {d : DocKind} {p t : Str} (h : nestingCheck p t = .ok ()) : (t == d.topLevel) = false := by
  unfold nestingCheck at h
  split at h
  · cases h
  · rename_i n ps hf
    have hmem := List.mem_of_find?_eq_some hf
    have hn : n = t := by simpa using List.find?_some hf
    subst hn
    have := List.all_eq_true.mp topNestingTable2 _ hmem
    simp only [Bool.and_eq_true, bne_iff_ne, ne_eq] at this
    cases d with
    | schema ext => simpa [DocKind.topLevel] using this.1
    | component => simpa [DocKind.topLevel] using this.2

theorem startHandled_hooks_indep {env : Env} (h h' : Hooks) {t : Str} (a : Attrs) (st : PSt)
    (ht : (t != "import".toList) = true) : startHandled env h t a st = startHandled env h' t a st := by
  unfold startHandled
  have : (t == "import".toList) = false := by simpa using ht
  simp only [this, Bool.false_eq_true, ↓reduceIte]

mutual
/-- the hooks are only used by `<import>` -/
theorem visitElem_hooks_indep {env : Env} (h h' : Hooks) {d : DocKind} :
    ∀ (n : Node) (p : Str) (st : PSt), noImportElem n = true →
      visitElem env h d (some p) st n = visitElem env h' d (some p) st n
  | .text _, p, st, _ => by unfold visitElem; rfl
  | .elem t a c, p, st, hn => by
    rw [noImportElem] at hn
    simp only [Bool.and_eq_true] at hn
    cases hchk : nestingCheck p t with
    | error e => rw [visitElem_nest_err hchk, visitElem_nest_err hchk]
    | ok u =>
      have htop := nesting_not_top (d := d) hchk
      unfold visitElem
      simp only [hchk, htop, Bool.false_eq_true, ↓reduceIte]
      by_cases hh : d.handled.contains t = true
      · simp only [hh, ↓reduceIte]
        rw [startHandled_hooks_indep h h' a st hn.1]
        cases startHandled env h' t a st with
        | error e => rfl
        | ok st1 =>
          simp only
          rw [visitChildren_hooks_indep h h' c t st1 hn.2]
      · simp only [hh, Bool.false_eq_true, ↓reduceIte]
theorem visitChildren_hooks_indep {env : Env} (h h' : Hooks) {d : DocKind} :
    ∀ (l : List Node) (p : Str) (st : PSt), noImportElemL l = true →
      visitChildren env h d p st l = visitChildren env h' d p st l
  | [], p, st, _ => by unfold visitChildren; rfl
  | .text s :: r, p, st, hn => by
    rw [noImportElemL] at hn
    simp only [Bool.and_eq_true] at hn
    unfold visitChildren
    rw [visitChildren_hooks_indep h h' r p st hn.2]
  | .elem t a c :: r, p, st, hn => by
    rw [noImportElemL] at hn
    simp only [Bool.and_eq_true] at hn
    unfold visitChildren
    rw [visitElem_hooks_indep h h' (.elem t a c) p st hn.1]
    cases visitElem env h' d (some p) st (.elem t a c) with
    | error e => rfl
    | ok st1 =>
      simp only
      rw [visitChildren_hooks_indep h h' r p st1 hn.2]
end

theorem startSchema_hooks_indep {env : Env} (h h' : Hooks) (ext : Option ES) (st : PSt) {a : Attrs}
    (ha : attr a "extends" = none) : startSchema env h ext st a = startSchema env h' ext st a := by
  unfold startSchema
  simp only [ha]

/-- a flat document is read the same way whatever the hooks -/
theorem visitRoot_hooks_indep {env : Env} (h h' : Hooks) (ext : Option ES) (st : PSt) (n : Node) (hn : flatDoc n = true) :
    visitElem env h (.schema ext) none st n = visitElem env h' (.schema ext) none st n := by
  cases n with
  | text s => unfold visitElem; rfl
  | elem t a c =>
    simp only [flatDoc, noImportElem, Bool.and_eq_true, Option.isNone_iff_eq_none] at hn
    obtain ⟨hn1, _, hn2⟩ := hn
    have hn : attr a "extends" = none ∧ noImportElemL c = true := ⟨hn1, hn2⟩
    by_cases ht : t = (DocKind.schema ext).topLevel
    · rw [visitElem_root_eq ht, visitElem_root_eq ht]
      dsimp only
      rw [startSchema_hooks_indep h h' ext st hn.1]
      cases startSchema env h' ext st a with
      | error e => rfl
      | ok st1 =>
        simp only [bind, Except.bind]
        rw [visitChildren_hooks_indep h h' c t st1 hn.2]
    · rw [visitElem_root_other ht, visitElem_root_other ht]

/-- hooks that refuse every nested document with a schema error -/
def refusingHooks : Hooks :=
  { loadComponent := fun _ _ => .error (.schema "refused"), extendSchema := fun _ _ => .error (.schema "refused") }

theorem refusingHooks_ni : HooksNI (fun _ => False) (fun _ => True) refusingHooks :=
  ⟨fun _ _ _ _ => NIx.schema _, fun _ _ _ _ _ h => (by cases h), fun _ _ _ _ => NIx.schema _, fun _ _ _ _ _ h => (by cases h)⟩

/-- **No internal errors, whatever the fuel, for documents that pull in no other document**: if the datatype registry
    never raises for dotted names and the key types reject with ValueError only and never turn a fixed name into
    `*` / `+`, then a schema document without `<import>` elements and without `extends` on its root element never makes
    the loader fail internally. -/
theorem elab_no_internal_flat (env : Env) (fuel : Nat) (t : Node) (e : String)
    (he : EnvNI env) (hflat : flatDoc t = true) : elabSchema env fuel t ≠ .error (.internal e) := by
  intro h
  have hsrc : noImportSrc t = true := by
    cases t with
    | text s => rw [noImportSrc]
    | elem tg a c =>
      simp only [flatDoc, Bool.and_eq_true] at hflat
      exact noImportElem_noSrc _ hflat.2
  unfold elabSchema elabES at h
  rw [visitRoot_hooks_indep (hooks env fuel) refusingHooks none _ t hflat] at h
  have := (visitRoot_ni_keys (P := fun _ => False) (T := fun _ => True) (d := .schema none) he refusingHooks_ni
    ⟨fun _ _ _ _ => trivial, fun _ _ _ => trivial⟩ (by intro es h; cases h) (st := { es := emptyES }) rfl KeysOK.emptyES t hsrc).1
  exact (NIx.map (f := ES.toSchema) (NIx.map (f := fun st : PSt => st.es) this)).out e h

end ZCV.Elab
