import ZCV.Lemmas.Datatypes2Float
/-!
The white space `int(str)` / `float(str)` skip (`intSpace`: `str.isspace` minus the generated table
`Gen.intSpaceExcluded`, U+001C–U+001F on CPython) against `str.isspace` (`pySpace`): the excluded characters are
rejected at either end of a text, and the skipped characters are exactly the ones that may be added at either end
without changing the outcome.
-/
namespace ZCV.DT
open ZCV ZCV.DTSpec

/-! ### the generated table -/

/-- every excluded code point is a `str.isspace` code point (checked on the tables) -/
theorem dt2_tbl_excluded_space : Gen.intSpaceExcluded.all (fun x => Gen.spaceTbl.contains x) = true := by decide

theorem dt2_excluded_space (c : Char) (hc : c.toNat ∈ Gen.intSpaceExcluded) : pySpace c = true ∧ intSpace c = false := by
  have h1 : pySpace c = true := List.all_eq_true.mp dt2_tbl_excluded_space _ hc
  refine ⟨h1, ?_⟩
  cases hi : intSpace c with
  | false => rfl
  | true => exact absurd hc ((dt2_intSpace_iff c).mp hi).2

/-- the four separator controls are in the table -/
theorem dt2_separator_controls_excluded (c : Char) (h : c = '\x1c' ∨ c = '\x1d' ∨ c = '\x1e' ∨ c = '\x1f') :
    c.toNat ∈ Gen.intSpaceExcluded := by
  rcases h with rfl | rfl | rfl | rfl <;> decide

/-! ### stripping one more character -/

theorem dt2_stripP_cons (p : Char → Bool) (c : Char) (s : Str) (h : p c = true) : dt2StripP p (c :: s) = dt2StripP p s := by
  unfold dt2StripP
  rw [List.dropWhile_cons, if_pos h]

theorem dt2_dropWhile_snoc (p : Char → Bool) (c : Char) (s : Str) (h : p c = true) :
    (s ++ [c]).dropWhile p = if s.dropWhile p = [] then [] else s.dropWhile p ++ [c] := by
  induction s with
  | nil => simp [h]
  | cons a t ih =>
    rw [List.cons_append, List.dropWhile_cons, List.dropWhile_cons]
    by_cases ha : p a = true
    · rw [if_pos ha, if_pos ha]; exact ih
    · rw [if_neg ha, if_neg ha]; simp

theorem dt2_stripP_snoc (p : Char → Bool) (c : Char) (s : Str) (h : p c = true) :
    dt2StripP p (s ++ [c]) = dt2StripP p s := by
  unfold dt2StripP
  rw [dt2_dropWhile_snoc p c s h]
  split
  · rename_i h0; rw [h0]
  · rw [List.reverse_append, List.reverse_singleton, List.singleton_append, List.dropWhile_cons, if_pos h]

theorem dt2_stripInt_cons (c : Char) (s : Str) (h : intSpace c = true) : stripInt (c :: s) = stripInt s :=
  dt2_stripP_cons intSpace c s h
theorem dt2_stripInt_snoc (c : Char) (s : Str) (h : intSpace c = true) : stripInt (s ++ [c]) = stripInt s :=
  dt2_stripP_snoc intSpace c s h

/-- `int` and `float` look at `stripInt s` only -/
theorem dt2_pyInt_stripInt (s t : Str) (h : stripInt s = stripInt t) : pyInt s = pyInt t := by
  unfold pyInt; rw [h]
theorem dt2_floatConv_stripInt (s t : Str) (h : stripInt s = stripInt t) : floatConv s = floatConv t := by
  unfold floatConv floatOk; rw [h]

/-! ### an excluded character at either end: no literal -/

/-- skipped white space, a text that neither starts nor ends with `str.isspace` white space, skipped white space:
    such a text neither starts nor ends with an excluded character -/
theorem dt2_sandwich_excluded (pre mid post : Str) (hpre : AllIntSpace pre) (hpost : AllIntSpace post)
    (hm : (∃ c t, mid = c :: t ∧ pySpace c = false) ∧ ∃ l, mid.getLast? = some l ∧ pySpace l = false)
    (c : Char) (hc : c.toNat ∈ Gen.intSpaceExcluded) (s : Str) :
    c :: s ≠ pre ++ mid ++ post ∧ s ++ [c] ≠ pre ++ mid ++ post := by
  obtain ⟨hsp, hni⟩ := dt2_excluded_space c hc
  obtain ⟨⟨a, t, rfl, ha⟩, l, hl, hl2⟩ := hm
  constructor
  · intro e
    cases pre with
    | nil =>
      rw [List.nil_append, List.cons_append] at e
      injection e with e1 _
      rw [e1, ha] at hsp; cases hsp
    | cons b pre' =>
      rw [List.cons_append, List.cons_append] at e
      injection e with e1 _
      have := hpre b (by simp)
      rw [← e1, hni] at this; cases this
  · intro e
    have hlast := congrArg List.getLast? e
    rw [dt2_getLast?_append_cons] at hlast
    cases post with
    | nil =>
      rw [List.append_nil, dt2_getLast?_append_cons, hl] at hlast
      have e1 : c = l := by simpa using hlast
      rw [e1, hl2] at hsp; cases hsp
    | cons b post' =>
      rw [dt2_getLast?_append_cons] at hlast
      obtain ⟨ys, hys⟩ := List.getLast?_eq_some_iff.mp hlast.symm
      have hmem : c ∈ b :: post' := by rw [hys]; simp
      have := hpost c hmem
      rw [hni] at this; cases this

/-- no integer literal starts or ends with an excluded character -/
theorem dt2_intLit_excluded (c : Char) (hc : c.toNat ∈ Gen.intSpaceExcluded) (s : Str) (n : Int) :
    ¬ IntLit (c :: s) n ∧ ¬ IntLit (s ++ [c]) n := by
  constructor
  · rintro ⟨pre, sg, body, post, ds, e, hpre, hpost, hb, hn⟩
    have hsg : IsSign sg := by
      rcases hn with ⟨h | h, _⟩ | ⟨h, _⟩
      · exact Or.inl h
      · exact Or.inr (Or.inl h)
      · exact Or.inr (Or.inr h)
    rw [List.append_assoc pre sg body] at e
    exact (dt2_sandwich_excluded pre (sg ++ body) post hpre hpost (dt2_signed_body_ends sg body ds hsg hb) c hc s).1 e
  · rintro ⟨pre, sg, body, post, ds, e, hpre, hpost, hb, hn⟩
    have hsg : IsSign sg := by
      rcases hn with ⟨h | h, _⟩ | ⟨h, _⟩
      · exact Or.inl h
      · exact Or.inr (Or.inl h)
      · exact Or.inr (Or.inr h)
    rw [List.append_assoc pre sg body] at e
    exact (dt2_sandwich_excluded pre (sg ++ body) post hpre hpost (dt2_signed_body_ends sg body ds hsg hb) c hc s).2 e

/-- no float literal starts or ends with an excluded character -/
theorem dt2_floatLit_excluded (c : Char) (hc : c.toNat ∈ Gen.intSpaceExcluded) (s : Str) :
    ¬ FloatLit (c :: s) ∧ ¬ FloatLit (s ++ [c]) := by
  have key : ∀ pre sg t post, AllIntSpace pre → AllIntSpace post → IsSign sg → (FloatWord t ∨ FloatNum t) →
      ∀ x : Str, c :: x ≠ pre ++ sg ++ t ++ post ∧ x ++ [c] ≠ pre ++ sg ++ t ++ post := by
    intro pre sg t post hpre hpost hsg ht x
    have hsolid : dt2Solid t := by
      rcases ht with h | h
      · exact dt2_floatWord_solid t h
      · exact dt2_floatNum_solid t h
    rw [List.append_assoc pre sg t]
    exact dt2_sandwich_excluded pre (sg ++ t) post hpre hpost (dt2_signed_solid_ends sg t hsg hsolid) c hc x
  constructor
  · rintro ⟨pre, sg, t, post, e, hpre, hpost, hsg, ht⟩
    exact (key pre sg t post hpre hpost hsg ht s).1 e
  · rintro ⟨pre, sg, t, post, e, hpre, hpost, hsg, ht⟩
    exact (key pre sg t post hpre hpost hsg ht s).2 e

/-! ### a character that is not skipped, after a literal -/

theorem dt2_one_not_intSpace : intSpace '1' = false := by decide

/-- `int('1' + c)` is not 1 unless `c` is skipped -/
theorem dt2_pyInt_one_snoc (c : Char) (h : intSpace c = false) : pyInt ['1', c] ≠ some 1 := by
  have hs : stripInt ['1', c] = ['1', c] := by
    simp [stripInt, lstripInt, rstripInt, h, dt2_one_not_intSpace]
  unfold pyInt
  rw [hs]
  show (pyNat ['1', c]).map Int.ofNat ≠ some 1
  unfold pyNat
  simp only [(by decide : pyDigit '1' = true), ↓reduceIte]
  rw [pyDigits, if_neg (by decide)]
  simp only [(by decide : pyDigitVal '1' = some 1)]
  rw [pyDigits]
  split
  · simp
  · rw [pyDigits]
    cases hv : pyDigitVal c with
    | none => simp
    | some v =>
      simp only [Option.map_some, digitsVal, List.foldl_cons, List.foldl_nil]
      intro e
      injection e with e
      have : (0 * 10 + 1) * 10 + v = 1 := by exact Int.ofNat.inj e
      omega

/-- `float('inf' + c)` is refused unless `c` is skipped -/
theorem dt2_floatOk_inf_snoc (c : Char) (h : intSpace c = false) : floatOk ['i', 'n', 'f', c] = false := by
  have hs : stripInt ['i', 'n', 'f', c] = ['i', 'n', 'f', c] := by
    simp [stripInt, lstripInt, rstripInt, h, (by decide : intSpace 'i' = false)]
  unfold floatOk
  rw [hs]
  simp [asciiLower, floatBody, digitPart, (by decide : pyDigit 'i' = false)]

end ZCV.DT
