import ZCV.Lemmas.LoadSpec
import ZCV.Spec.Handlers
/-!
C16, loader side: the shared handler list after a load is `docHandlers`, the post-order of the statement.

* `finish_handlers`   — `finishMatcher` on a matcher satisfying the invariant appends the container's `ownHandlers`;
* `runItems_H`        — the frame lemma of `LoadEval` with the handler list computed (`handlersOfItems`);
* `loadTreeH`         — `loadTree` returning the handler list as well (as `load` does), `loadTreeH_eq`.
-/
namespace ZCV.Conf
open ZCV ZCV.Cfg

/-! ### the tree-driven loader with its handler list -/

/-- `ConfigLoader.loadResource` on a tree (no overrides, no `%import`): the configuration AND the handler list, exactly
    as `Cfg.load` assembles it (`ps.ctx.handlers ++ hs ++ hs'`) -/
def loadTreeH (conv : Conv) (schema : Schema) (items : List Item) : M (Val × List (Str × Val)) :=
  let st0 : LS := { schema := schema, privateSchema := false, handlers := [], stack := [newMatcher schema.top none none],
                    pkgs := fun _ => .notImportable, conv := conv }
  match runItems st0 items with
  | .error e => .error e
  | .ok st =>
    match st.stack with
    | [top] =>
      match finishMatcher conv st.schema top with
      | .error e => .error e
      | .ok (v, hs) =>
        match conv.sect schema.top.datatype v with
        | .ok r => .ok (r, st.handlers ++ hs ++ (match schema.handler with | some h => [(h, r)] | none => []))
        | .error e => .error (convFail e none { line := -1, url := none } "schema datatype")
    | _ => .error (.internal "IndexError")

/-- forgetting the handler list gives `loadTree` -/
theorem loadTreeH_value (conv : Conv) (s : Schema) (items : List Item) :
    (loadTreeH conv s items).map (·.1) = loadTree conv s items := by
  unfold loadTreeH loadTree
  simp only
  cases runItems _ items with
  | error e => rfl
  | ok st =>
    simp only
    rcases st.stack with _ | ⟨top, _ | ⟨x, rest⟩⟩
    · rfl
    · simp only
      cases finishMatcher conv st.schema top with
      | error e => rfl
      | ok vh =>
        obtain ⟨v, hs⟩ := vh
        simp only
        cases conv.sect s.top.datatype v <;> rfl
    · rfl

/-! ### `filterMap` after `omap` -/

theorem omap_filterMap {α β γ} (F : α → Option β) (k : β → Option γ) :
    ∀ (l : List α) (r : List β), omap F l = some r → r.filterMap k = l.filterMap (fun a => (F a).bind k) := by
  intro l
  induction l with
  | nil =>
    intro r h
    rw [omap] at h
    cases h
    rfl
  | cons a l ih =>
    intro r h
    rw [omap] at h
    cases hfa : F a with
    | none => rw [hfa] at h; cases h
    | some b =>
      rw [hfa] at h
      simp only at h
      cases hl : omap F l with
      | none => rw [hl] at h; cases h
      | some bs =>
        rw [hl] at h
        simp only [Option.some.injEq] at h
        subst h
        rw [List.filterMap_cons, List.filterMap_cons, hfa, Option.bind_some, ih bs hl]

theorem filterMap_congr' {α β} (f g : α → Option β) : ∀ (l : List α), (∀ a ∈ l, f a = g a) →
    l.filterMap f = l.filterMap g := by
  intro l
  induction l with
  | nil => intro _; rfl
  | cons a l ih =>
    intro h
    rw [List.filterMap_cons, List.filterMap_cons, h a List.mem_cons_self,
      ih (fun b hb => h b (List.mem_cons_of_mem _ hb))]

/-! ### one container -/

/-- own entries from key lines and sub-section values -/
def ownH (conv : Conv) (s : Schema) (t : SType) (kl : List (Option Str × VI)) (subs : List Sub) : List (Str × Val) :=
  t.children.filterMap fun c =>
    match c.2.handler, childVal conv s t kl subs c with
    | some h, some v => some (h, v)
    | _, _ => none

theorem ownHandlers_eq (conv : Conv) (s : Schema) (t : SType) (items : List Item) :
    ownHandlers conv s t items = ownH conv s t (keyLines conv t items) (subsI conv s items) := rfl

theorem finishMatcher'_ok (conv : Conv) (s : Schema) (m : Matcher) (v : Val) (hs : List (Str × Val))
    (h : finishMatcher' conv s m = .ok (v, hs)) :
    ∃ vals, (m.ty.children.mapM (fin1 m) >>= fun slots => slots.mapM (fin2 conv s)) = .ok vals ∧
      v = .sect (m.ty.name.getD []) m.name (vals.map fun p => (p.1.attr, p.2)) ∧
      hs = vals.filterMap fun p => p.1.handler.map fun h => (h, p.2) := by
  unfold finishMatcher' at h
  simp only [bind, Except.bind] at h ⊢
  cases h1 : m.ty.children.mapM (fin1 m) with
  | error e => rw [h1] at h; cases h
  | ok slots =>
    rw [h1] at h
    simp only at h ⊢
    cases h2 : slots.mapM (fin2 conv s) with
    | error e => rw [h2] at h; cases h
    | ok vals =>
      rw [h2] at h
      simp only [pure, Except.pure, Except.ok.injEq, Prod.mk.injEq] at h
      exact ⟨vals, rfl, h.1.symm, h.2.symm⟩

/-- what `finishMatcher` returns on a matcher satisfying the invariant, in terms of the spec: the values are `childVal`,
    attribute by attribute -/
theorem finish_vals (conv : Conv) (s : Schema) (t : SType) (nm : Option Str) (kl : List (Option Str × VI))
    (secs : List SecR) (hT : STypeOK s t) (hg : Good s t kl (secs.map (toSub conv s))) (v : Val) (hs : List (Str × Val))
    (h : finishMatcher conv s (mk s t nm kl secs) = .ok (v, hs)) :
    ∃ vals : List (Info × Val),
      omap (fun c => (childVal conv s t kl (secs.map (toSub conv s)) c).map fun v => (c.2, v)) t.children = some vals ∧
      v = .sect (t.name.getD []) nm (vals.map fun p => (p.1.attr, p.2)) ∧
      hs = vals.filterMap fun p => p.1.handler.map fun h => (h, p.2) := by
  rw [finishMatcher_eq' conv s _ rfl] at h
  obtain ⟨vals, h1, h2, h3⟩ := finishMatcher'_ok conv s _ v hs h
  refine ⟨vals, ?_, h2, h3⟩
  have := mapM_mapM_toOption (fin1 (mk s t nm kl secs)) (fin2 conv s) (mk s t nm kl secs).ty.children
  rw [h1] at this
  have hty : (mk s t nm kl secs).ty = t := rfl
  rw [hty] at this
  rw [omap_congr _ _ _ (fun c hc => child_finish conv s t nm kl secs hT c hc (hg.over c hc))] at this
  exact this.symm

/-- **closing a section whose matcher satisfies the invariant appends exactly the section's own entries** -/
theorem finish_handlers (conv : Conv) (s : Schema) (t : SType) (nm : Option Str) (kl : List (Option Str × VI))
    (secs : List SecR) (hT : STypeOK s t) (hg : Good s t kl (secs.map (toSub conv s))) (v : Val) (hs : List (Str × Val))
    (h : finishMatcher conv s (mk s t nm kl secs) = .ok (v, hs)) :
    hs = ownH conv s t kl (secs.map (toSub conv s)) := by
  obtain ⟨vals, h1, _, h3⟩ := finish_vals conv s t nm kl secs hT hg v hs h
  rw [h3, omap_filterMap _ _ _ _ h1]
  unfold ownH
  apply filterMap_congr'
  intro c _
  cases childVal conv s t kl (secs.map (toSub conv s)) c with
  | none => cases c.2.handler <;> rfl
  | some v =>
    simp only [Option.map_some, Option.bind_some]
    cases c.2.handler <;> rfl

/-- the loader on one container (fresh matcher, items, finish) appends the container's `ownHandlers` -/
theorem container_handlers (conv : Conv) (s : Schema) (hs : schemaOK s = true) (t : SType) (nm : Option Str)
    (hT : STypeOK s t) (items : List Item) (hcan : tyCanon s items = true) (child : Matcher)
    (hev : evalItems conv s (newMatcher t nm none) items = .ok child) (v : Val) (hh : List (Str × Val))
    (hfin : finishMatcher conv s child = .ok (v, hh)) :
    hh = ownHandlers conv s t items := by
  have inv := evalItems_inv conv s hs t nm hT items hcan (pItems_all conv s hs items) [] []
    (by simpa using good_nil s t)
  rw [← newMatcher_eq_mk s, hev] at inv
  simp only [List.nil_append] at inv
  obtain ⟨secs', h1, h2, h3⟩ := inv
  rw [h1] at hfin
  rw [finish_handlers conv s t nm _ secs' hT h3 v hh hfin, h2, ownHandlers_eq]

/-! ### the frame lemma with the handler list computed -/

theorem tyCanon_sect_inv (s : Schema) (ty : Str) (nm : Option Str) (sub rest : List Item)
    (hcan : tyCanon s (.sect ty nm sub :: rest) = true) :
    (∀ tc, s.gettype ty = some (.concrete tc) → tc.name = some ty) ∧ tyCanon s sub = true ∧ tyCanon s rest = true := by
  unfold tyCanon at hcan
  simp only [Bool.and_eq_true] at hcan
  obtain ⟨⟨h1, h2⟩, h3⟩ := hcan
  refine ⟨?_, h2, h3⟩
  intro tc htc
  rw [htc] at h1
  simpa using h1

theorem tyCanon_single (s : Schema) (i : Item) (rest : List Item) (hcan : tyCanon s (i :: rest) = true) :
    tyCanon s [i] = true ∧ tyCanon s rest = true := by
  cases i with
  | kv k v p =>
    rw [tyCanon] at hcan
    exact ⟨by simp [tyCanon], hcan⟩
  | sect ty nm sub =>
    obtain ⟨h1, h2, h3⟩ := tyCanon_sect_inv s ty nm sub rest hcan
    refine ⟨?_, h3⟩
    unfold tyCanon at hcan ⊢
    simp only [Bool.and_eq_true] at hcan ⊢
    exact ⟨hcan.1, by simp [tyCanon]⟩

mutual
theorem runItem_H (conv : Conv) (s : Schema) (hs : schemaOK s = true) :
    ∀ (i : Item) (st : LS) (m m' : Matcher) (below : List Matcher),
      tyCanon s [i] = true →
      st.stack = m :: below → st.schema = s → st.conv = conv → m.bag = none →
      evalItem conv s m i = .ok m' →
      runItem st i = .ok (withTop st m' below (st.handlers ++ handlersOfItem conv s i))
  | .kv k v p, st, m, m', below, _, hst, hsch, hconv, hb, hev => by
    obtain ⟨sch, priv, hd, stk, pk, cv, bs⟩ := st
    simp only at hst hsch hconv
    subst hst hsch hconv
    rw [evalItem] at hev
    rw [runItem, handlersOfItem]
    unfold lsValue
    simp only [hev, Except.map, withTop, List.append_nil]
  | .sect ty nm items, st, m, m', below, hcan, hst, hsch, hconv, hb, hev => by
    obtain ⟨sch, priv, hd, stk, pk, cv, bs⟩ := st
    simp only at hst hsch hconv
    subst hst hsch hconv
    obtain ⟨hname, hcsub, _⟩ := tyCanon_sect_inv sch ty nm items [] hcan
    rw [evalItem] at hev
    rw [runItem, handlersOfItem]
    unfold lsStart
    simp only
    cases hg : sch.gettype ty with
    | none => rw [hg] at hev; cases hev
    | some te =>
      cases te with
      | abstract_ n subs => rw [hg] at hev; cases hev
      | concrete t =>
        rw [hg] at hev
        simp only at hev ⊢
        have hT : STypeOK sch t := schemaOK_gettype sch hs ty t hg
        simp only [bind, Except.bind, pure, Except.pure, throw, throwThe, MonadExceptOf.throw]
        cases hgi : getsectioninfo sch m.ty (t.name.getD []) nm with
        | error e => rw [hgi] at hev; cases hev
        | ok ci =>
          rw [hgi] at hev
          simp only at hev ⊢
          by_cases h1 : (!isAllowedName ci nm) = true
          · simp only [h1, if_true] at hev; cases hev
          · simp only [h1, if_false, Bool.false_eq_true] at hev ⊢
            by_cases h2 : (!(nm.isSome || allowUnnamed ci)) = true
            · simp only [h2, if_true] at hev; cases hev
            · simp only [h2, if_false, Bool.false_eq_true, hb] at hev ⊢
              cases he : evalItems cv sch (newMatcher t nm none) items with
              | error e => rw [he] at hev; cases hev
              | ok child =>
                rw [he] at hev
                simp only at hev
                have ih := runItems_H cv sch hs items
                  { schema := sch, privateSchema := priv, handlers := hd, stack := newMatcher t nm none :: m :: below,
                    pkgs := pk, conv := cv, bagSchema := bs } (newMatcher t nm none) child (m :: below)
                  hcsub rfl rfl rfl rfl he
                rw [ih]
                simp only
                unfold lsStop
                simp only [withTop, bind, Except.bind, pure, Except.pure]
                cases hf : finishMatcher cv sch child with
                | error e => rw [hf] at hev; cases hev
                | ok vh =>
                  obtain ⟨v, hs2⟩ := vh
                  rw [hf] at hev
                  simp only at hev ⊢
                  rw [hev]
                  simp only
                  rw [container_handlers cv sch hs t nm hT items hcsub child he v hs2 hf, List.append_assoc]
theorem runItems_H (conv : Conv) (s : Schema) (hs : schemaOK s = true) :
    ∀ (l : List Item) (st : LS) (m m' : Matcher) (below : List Matcher),
      tyCanon s l = true →
      st.stack = m :: below → st.schema = s → st.conv = conv → m.bag = none →
      evalItems conv s m l = .ok m' →
      runItems st l = .ok (withTop st m' below (st.handlers ++ handlersOfItems conv s l))
  | [], st, m, m', below, _, hst, hsch, hconv, hb, hev => by
    rw [evalItems] at hev
    cases hev
    rw [runItems, handlersOfItems]
    simp [withTop, ← hst]
  | i :: r, st, m, m', below, hcan, hst, hsch, hconv, hb, hev => by
    obtain ⟨hc1, hc2⟩ := tyCanon_single s i r hcan
    rw [evalItems] at hev
    rw [runItems, handlersOfItems]
    cases he : evalItem conv s m i with
    | error e => rw [he] at hev; cases hev
    | ok m1 =>
      rw [he] at hev
      simp only at hev
      have hb1 : m1.bag = none := by
        have := runItem_eval conv s i st m below hst hsch hconv hb
        rw [he] at this
        exact this.1
      rw [runItem_H conv s hs i st m m1 below hc1 hst hsch hconv hb he]
      simp only
      rw [runItems_H conv s hs r (withTop st m1 below (st.handlers ++ handlersOfItem conv s i)) m1 m' below hc2 rfl
        hsch hconv hb1 hev]
      simp only [withTop, List.append_assoc]
end

/-! ### the whole load -/

theorem toOption_map_fst {ε α β} (x : Except ε (α × β)) : (x.map (·.1)).toOption = x.toOption.map (·.1) := by
  cases x <;> rfl

/-- the handler list of an accepted tree is `docHandlers` -/
theorem loadTreeH_handlers (conv : Conv) (s : Schema) (items : List Item)
    (hs : schemaOK s = true) (ht : tyCanon s items = true) (v : Val) (hh : List (Str × Val))
    (h : loadTreeH conv s items = .ok (v, hh)) : denote conv s items = some v ∧ hh = docHandlers conv s items := by
  have hden : denote conv s items = some v := by
    rw [← loadTree_eq_denote conv s items hs ht, ← loadTreeH_value, toOption_map_fst, h]
    rfl
  refine ⟨hden, ?_⟩
  have hTop : STypeOK s s.top := by
    unfold schemaOK at hs
    simp only [Bool.and_eq_true] at hs
    exact stypeOK_prop s s.top hs.1.1
  unfold loadTreeH at h
  simp only at h
  have hrun := runItems_eval conv s items
    { schema := s, privateSchema := false, handlers := [], stack := [newMatcher s.top none none],
      pkgs := fun _ => .notImportable, conv := conv } (newMatcher s.top none none) [] rfl rfl rfl rfl
  cases hev : evalItems conv s (newMatcher s.top none none) items with
  | error e =>
    rw [hev] at hrun
    obtain ⟨e', he'⟩ := hrun
    rw [he'] at h
    cases h
  | ok m' =>
    have hr := runItems_H conv s hs items
      { schema := s, privateSchema := false, handlers := [], stack := [newMatcher s.top none none],
        pkgs := fun _ => .notImportable, conv := conv } (newMatcher s.top none none) m' [] ht rfl rfl rfl rfl hev
    rw [hr] at h
    simp only [withTop, List.nil_append] at h
    cases hfin : finishMatcher conv s m' with
    | error e => rw [hfin] at h; cases h
    | ok vh =>
      obtain ⟨v0, hs0⟩ := vh
      rw [hfin] at h
      simp only at h
      have hown := container_handlers conv s hs s.top none hTop items ht m' hev v0 hs0 hfin
      cases hc : conv.sect s.top.datatype v0 with
      | error e => rw [hc] at h; cases h
      | ok r =>
        rw [hc] at h
        simp only [Except.ok.injEq, Prod.mk.injEq] at h
        obtain ⟨h1, h2⟩ := h
        subst h1
        rw [← h2, hown]
        unfold docHandlers handlersOf
        rw [hden]
        cases s.handler <;> rfl

/-- **the loader's result with its handler list, in one equation**: a tree is accepted iff it conforms, and then the
    configuration is `denote` and the handler list is `docHandlers` -/
theorem loadTreeH_eq (conv : Conv) (s : Schema) (items : List Item)
    (hs : schemaOK s = true) (ht : tyCanon s items = true) :
    (loadTreeH conv s items).toOption = (denote conv s items).map fun v => (v, docHandlers conv s items) := by
  cases h : loadTreeH conv s items with
  | error e =>
    have := loadTree_eq_denote conv s items hs ht
    rw [← loadTreeH_value, toOption_map_fst, h] at this
    rw [← this]
    rfl
  | ok vh =>
    obtain ⟨v, hh⟩ := vh
    obtain ⟨h1, h2⟩ := loadTreeH_handlers conv s items hs ht v hh h
    rw [h1, h2]
    rfl

end ZCV.Conf
