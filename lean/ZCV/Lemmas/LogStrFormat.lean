import ZCV.Model.LogStrFormat
import ZCV.Spec.LogStrFormat
import ZCV.Lemmas.LogFormat
import ZCV.Lemmas.LogFormatParse
/-!
Lemmas for the `format`-style log format model (C20): the item loop, the load-time check as a conjunction, the sample
record and the kind table, the plain fragment (bare keys, brace-free specs), transfer of `format()` from the sample value
to the values of an ordinary record.
-/
namespace ZCV.LogStrFormatLemmas
open ZCV ZCV.LogFormatSpec ZCV.LogStrFormat ZCV.LogStrFormatSpec ZCV.LogFormatLemmas
open ZCV.LogFormat (Value Dict FloatKind PyErr strCheck floatLimit maxUnicode hasInfix lookup sampleVars sampleDict
  intMaxStrDigits ctrlCharInsert isWord)

/-! ## The item loop -/

theorem sf_runItems_ok (ev : Str → Option Char → Str → Except SErr (Option Str)) (items : List Item) :
    (∃ t, runItems ev items = .ok t) ↔
      (Item.bad ∉ items ∧ ∀ n c s, Item.field n c s ∈ items → ∃ t, ev n c s = .ok t) := by
  induction items with
  | nil => simp [runItems]
  | cons it rest ih =>
    cases it with
    | lit s =>
      simp only [runItems, List.mem_cons, reduceCtorEq, false_or]
      constructor
      · rintro ⟨t, ht⟩
        cases hr : runItems ev rest with
        | error e => simp [hr] at ht
        | ok t' => exact ih.mp ⟨t', hr⟩
      · intro h
        obtain ⟨t', ht'⟩ := ih.mpr h
        exact ⟨_, by rw [ht']⟩
    | bad => simp [runItems]
    | field n c s =>
      simp only [runItems, List.mem_cons, reduceCtorEq, false_or, Item.field.injEq]
      constructor
      · rintro ⟨t, ht⟩
        cases he : ev n c s with
        | error e => simp [he] at ht
        | ok t1 =>
          cases hr : runItems ev rest with
          | error e => simp [he, hr] at ht
          | ok t' =>
            obtain ⟨h1, h2⟩ := ih.mp ⟨t', hr⟩
            refine ⟨h1, fun n' c' s' h => ?_⟩
            rcases h with ⟨rfl, rfl, rfl⟩ | h
            · exact ⟨t1, he⟩
            · exact h2 _ _ _ h
      · rintro ⟨h1, h2⟩
        obtain ⟨t1, he⟩ := h2 n c s (Or.inl ⟨rfl, rfl, rfl⟩)
        obtain ⟨t', hr⟩ := ih.mpr ⟨h1, fun n' c' s' h => h2 _ _ _ (Or.inr h)⟩
        exact ⟨_, by rw [he, hr]⟩

theorem sf_toUnit_ok {α : Type} (x : Except SErr α) : toUnit x = .ok () ↔ ∃ t, x = .ok t := by
  cases x <;> simp [toUnit]

theorem sf_toUnit_error {α : Type} (x : Except SErr α) (e : SErr) : toUnit x = .error e ↔ x = .error e := by
  cases x <;> simp [toUnit]

/-! ## The load-time check as a conjunction -/

theorem sf_validate_ok (fmt : Str) :
    validateStr fmt = .ok () ↔
      (parse (effectiveStr fmt)).all itemValid = true ∧ (parse (effectiveStr fmt)).any isNamedField = true := by
  unfold validateStr
  split
  · rename_i h; simp only [Bool.and_eq_true] at h; simp only [true_iff]; exact h
  · rename_i h
    simp only [Bool.and_eq_true] at h
    exact ⟨fun h' => (by cases h'), fun h' => absurd h' h⟩

theorem sf_validate_error (fmt : Str) (e : SErr) (h : validateStr fmt = .error e) : e = .valueError := by
  unfold validateStr at h
  split at h
  · cases h
  · injection h with h; exact h.symm

theorem sf_accepts_iff (fmt : Str) :
    acceptsStrFormat fmt = true ↔
      vformatRun (effectiveStr fmt) sampleSDict = .ok () ∧ validateStr fmt = .ok () := by
  unfold acceptsStrFormat loadCheckStrFormat buildStrFormatter
  cases hv : vformatRun (effectiveStr fmt) sampleSDict with
  | error e => cases e <;> simp
  | ok u =>
    cases hb : validateStr fmt with
    | error e => simp
    | ok u' => simp

theorem sf_evalField_vformat_ok (d : SDict) (expand : Str → Except SErr (Option Str)) (name : Str) (conv : Option Char)
    (spec : Str) :
    (∃ t, evalField .vformat d expand name conv spec = .ok t) ↔
      ∃ v o st t, getField .vformat d name = .ok v ∧ convert v conv = .ok o ∧ expand spec = .ok (some st) ∧
        formatObj o st = .ok t := by
  unfold evalField
  have hm : (Mode.vformat == Mode.cformat) = false := rfl
  simp only [hm, Bool.false_and, Bool.false_eq_true, if_false]
  constructor
  · rintro ⟨t, ht⟩
    cases hg : getField .vformat d name with
    | error e => simp [hg] at ht
    | ok v =>
      cases hc : convert v conv with
      | error e => simp [hg, hc] at ht
      | ok o =>
        cases hx : expand spec with
        | error e => simp [hg, hc, hx] at ht
        | ok ot =>
          cases ot with
          | none => simp [hg, hc, hx] at ht
          | some st =>
            simp only [hg, hc, hx] at ht
            exact ⟨v, o, st, t, by first | rfl | assumption, by first | rfl | assumption, by first | rfl | assumption, ht⟩
  · rintro ⟨v, o, st, t, hg, hc, hx, hf⟩
    exact ⟨t, by simp only [hg, hc, hx, hf]⟩


/-! ## The sample record and the kind table -/

theorem sf_sample_erase : sampleVals.map (fun p => (p.1, p.2.toValue)) = sampleVars := by decide +kernel

theorem sf_lookupS_map (tbl : List (Str × Val)) (k : Str) :
    lookup (tbl.map (fun p => (p.1, p.2.toValue))) k = (lookupS tbl k).map Val.toValue := by
  induction tbl with
  | nil => rfl
  | cons a t ih =>
    simp only [lookup, lookupS, List.map_cons, List.find?_cons] at ih ⊢
    by_cases h : (a.1 == k) = true
    · simp [h]
    · simp only [h]
      exact ih

theorem sf_sample_toValue (k : Str) : sampleDict k = (sampleSDict k).map Val.toValue := by
  unfold sampleDict sampleSDict
  rw [← sf_sample_erase]
  exact sf_lookupS_map _ _

/-- a sample value is representative of its kind -/
theorem sf_sample_kind (k : Str) (v : Val) (h : sampleSDict k = some v) :
    (k, kindOfValue v.toValue) ∈ fieldKinds ∧ goodSample v.toValue = true := by
  have hs : sampleDict k = some v.toValue := by rw [sf_sample_toValue, h]; rfl
  exact ⟨(lf_fieldKinds_mem _ _).mpr ⟨_, hs, rfl⟩, lf_sample_good_of _ _ hs⟩

theorem sf_sample_of_kind (k : Str) (kind : Kind) (h : (k, kind) ∈ fieldKinds) :
    ∃ v, sampleSDict k = some v ∧ kindOfValue v.toValue = kind ∧ goodSample v.toValue = true := by
  obtain ⟨w, hw, hk⟩ := (lf_fieldKinds_mem _ _).mp h
  rw [sf_sample_toValue] at hw
  cases hv : sampleSDict k with
  | none => simp [hv] at hw
  | some v =>
    simp only [hv, Option.map_some, Option.some.injEq] at hw
    subst hw
    exact ⟨v, rfl, hk, (sf_sample_kind k v hv).2⟩

/-! ## What `admitsStr` gives -/

theorem sf_admitsStr_prints (kind : Kind) (v : Val) (h : kind.admitsStr v) : strCheck v.toValue = .ok () := by
  cases kind with
  | text => obtain ⟨s, rfl⟩ := h; rfl
  | object => exact (lf_strCheck_ok _).mpr h
  | smallInt =>
    obtain ⟨n, rfl, h0, h1⟩ := h
    apply lf_strCheck_of_float
    have := lf_floatLimit_big
    generalize floatLimit = F at this ⊢
    omega
  | bigInt => obtain ⟨n, rfl, h0, h1⟩ := h; exact lf_strCheck_of_float n ⟨h0, h1⟩
  | real => obtain ⟨k, r, rfl⟩ := h; rfl

theorem sf_admits_admitsStr (kind : Kind) (v : Val) (h : kind.admits v.toValue) : kind.admitsStr v := by
  cases kind with
  | text => obtain ⟨s, hs⟩ := h; cases v <;> simp [Val.toValue] at hs; exact ⟨_, rfl⟩
  | object => exact h
  | smallInt =>
    obtain ⟨n, hn, h0, h1⟩ := h
    cases v <;> simp [Val.toValue] at hn
    subst hn; exact ⟨_, rfl, h0, h1⟩
  | bigInt =>
    obtain ⟨n, hn, h0, h1⟩ := h
    cases v <;> simp [Val.toValue] at hn
    subst hn
    refine ⟨_, rfl, ?_, ?_⟩
    · have := lf_floatLimit_big; generalize floatLimit = F at this ⊢; omega
    · have := lf_floatLimit_big; generalize floatLimit = F at this ⊢; omega
  | real =>
    have h' : v.toValue = .float .finite := h
    cases v <;> simp [Val.toValue] at h'
    exact ⟨_, _, rfl⟩


/-! ## Transfer of `format()` from the sample value to the value of a record -/

theorem sf_sizeCheck_cases (w p : Option Nat) : sizeCheck w p = .ok () ∨ sizeCheck w p = .error .unmodelled := by
  unfold sizeCheck; split <;> simp

/-- `int.__format__` depends on the number only through three tests; if `n'` passes those `n` passes, it is formatted
    whenever `n` is -/
theorem sf_intFormat_mono (spec : Str) (n n' : Int) (h : intFormat spec n = .ok ())
    (hc : (0 ≤ n ∧ n ≤ maxUnicode) → (0 ≤ n' ∧ n' ≤ maxUnicode)) (hs : strCheck (.int n') = .ok ())
    (hf : -floatLimit < n' ∧ n' < floatLimit) : intFormat spec n' = .ok () := by
  unfold intFormat at h ⊢
  cases hp : parseFSpec (some 'd') spec with
  | none => simp [hp] at h
  | some f =>
    simp only [hp] at h ⊢
    split
    · rename_i hty
      simp only [hty, ↓reduceIte] at h
      split
      · rename_i h1; simp only [h1, ↓reduceIte] at h; cases h
      · rename_i h1
        simp only [h1, Bool.false_eq_true, ↓reduceIte] at h
        split
        · rename_i h2
          simp only [h2, ↓reduceIte] at h
          split
          · rename_i h3; simp only [h3, ↓reduceIte] at h; cases h
          · rename_i h3
            simp only [h3, Bool.false_eq_true, ↓reduceIte] at h
            by_cases hr : (0 ≤ n ∧ n ≤ maxUnicode)
            · rw [if_pos hr] at h; rw [if_pos (hc hr)]; exact h
            · rw [if_neg hr] at h; cases h
        · rename_i h2
          simp only [h2, Bool.false_eq_true, ↓reduceIte] at h
          split
          · rename_i h3
            simp only [h3, ↓reduceIte] at h
            rw [hs]
            cases hx : strCheck (.int n) with
            | error e => simp [hx] at h
            | ok u => simpa [hx] using h
          · rename_i h3; simp only [h3, Bool.false_eq_true, ↓reduceIte] at h; exact h
    · rename_i hty
      simp only [hty, Bool.false_eq_true, ↓reduceIte] at h
      split
      · rename_i h1
        simp only [h1, ↓reduceIte] at h
        first | rw [if_pos hf] | skip
        by_cases hr : (-floatLimit < n ∧ n < floatLimit)
        · rw [if_pos hr] at h; exact h
        · rw [if_neg hr] at h; cases h
      · rename_i h1; simp only [h1, Bool.false_eq_true, ↓reduceIte] at h; cases h

theorem sf_map_ok {α β : Type} (x : Except SErr α) (f : α → β) : (∃ t, x.map f = .ok t) ↔ ∃ u, x = .ok u := by
  cases x <;> simp [Except.map]

/-- `format(v', spec)` works whenever `format(sample value, spec)` does, for a value `v'` the kind of the sample admits -/
theorem sf_formatObj_transfer (vs v' : Val) (hg : goodSample vs.toValue = true)
    (ha : (kindOfValue vs.toValue).admitsStr v') (spec : Str) (t : Option Str)
    (h : formatObj (.val vs) spec = .ok t) : ∃ t', formatObj (.val v') spec = .ok t' := by
  have hp := sf_admitsStr_prints _ _ ha
  unfold formatObj at h ⊢
  simp only at h ⊢
  by_cases he : spec.isEmpty = true
  · simp only [he, if_true, hp]
    exact ⟨_, rfl⟩
  · simp only [he, if_false, Bool.false_eq_true] at h ⊢
    cases vs with
    | str s =>
      obtain ⟨s', rfl⟩ : ∃ s', v' = .str s' := ha
      exact ⟨t, h⟩
    | int n =>
      simp only [Val.toValue, kindOfValue] at ha
      simp only [Val.toValue, goodSample, decide_eq_true_eq] at hg
      have hi : intFormat spec n = .ok () := by
        cases hx : intFormat spec n with
        | error e => simp [hx, Except.map] at h
        | ok u => rfl
      split at ha
      · rename_i hr
        obtain ⟨n', rfl, h0, h1⟩ := ha
        have hs' : strCheck (.int n') = .ok () := hp
        have hf' : -floatLimit < n' ∧ n' < floatLimit := by
          have := lf_floatLimit_big; generalize floatLimit = F at this ⊢; omega
        have := sf_intFormat_mono spec n n' hi (fun _ => ⟨h0, by simp only [maxUnicode]; omega⟩) hs' hf'
        exact ⟨none, by simp only [this, Except.map]⟩
      · rename_i hr
        obtain ⟨n', rfl, h0, h1⟩ := ha
        have := sf_intFormat_mono spec n n' hi (fun hx => absurd hx hr) hp ⟨h0, h1⟩
        exact ⟨none, by simp only [this, Except.map]⟩
    | float k r =>
      obtain ⟨k', r', rfl⟩ : ∃ k' r', v' = .float k' r' := ha
      exact ⟨t, h⟩
    | none => cases h
    | other => cases h

/-- after a conversion the object is a `str`, whose `format()` depends on the spec only -/
theorem sf_formatObj_text (t1 t2 : Option Str) (spec : Str) (t : Option Str) (h : formatObj (.text t1) spec = .ok t) :
    ∃ t', formatObj (.text t2) spec = .ok t' := by
  unfold formatObj at h ⊢
  simp only at h ⊢
  by_cases he : spec.isEmpty = true
  · simp only [he, if_true]; exact ⟨_, rfl⟩
  · simp only [he, if_false, Bool.false_eq_true] at h ⊢
    exact ⟨t, h⟩

/-- `convert_field` on the sample value and on a printable value of a record: the same conversion works, and gives a
    `str` in both cases (or leaves the value alone) -/
theorem sf_convert_transfer (vs v' : Val) (conv : Option Char) (o : Obj) (h : convert vs conv = .ok o)
    (hp : strCheck v'.toValue = .ok ()) :
    (conv = none ∧ o = .val vs ∧ convert v' conv = .ok (.val v')) ∨
    (∃ t t', o = .text t ∧ convert v' conv = .ok (.text t')) := by
  cases conv with
  | none => left; simp only [convert, Except.ok.injEq] at h; exact ⟨rfl, h.symm, rfl⟩
  | some c =>
    right
    simp only [convert] at h ⊢
    split at h
    · rename_i h1
      simp only [h1, if_true, hp]
      cases hx : strCheck vs.toValue with
      | error e => simp [hx] at h
      | ok u => simp only [hx, Except.ok.injEq] at h; exact ⟨_, _, h.symm, rfl⟩
    · rename_i h1
      split at h
      · rename_i h2
        simp only [h1, h2, if_true, hp]
        cases hx : strCheck vs.toValue with
        | error e => simp [hx] at h
        | ok u => simp only [hx, Except.ok.injEq] at h; exact ⟨_, _, h.symm, rfl⟩
      · cases h


/-! ## The plain fragment: bare keys and brace-free specs -/

theorem sf_takeWhile_all (p : Char → Bool) (l : Str) (h : l.all p = true) : l.takeWhile p = l := by
  induction l with
  | nil => rfl
  | cons c t ih =>
    simp only [List.all_cons, Bool.and_eq_true] at h
    simp only [List.takeWhile_cons, h.1, if_true, ih h.2]

theorem sf_dropWhile_all (p : Char → Bool) (l : Str) (h : l.all p = true) : l.dropWhile p = [] := by
  induction l with
  | nil => rfl
  | cons c t ih =>
    simp only [List.all_cons, Bool.and_eq_true] at h
    simp only [List.dropWhile_cons, h.1, if_true, ih h.2]

theorem sf_firstOf_plain (name : Str) (h : name.all notDotBracket = true) : firstOf name = name := by
  unfold firstOf
  exact sf_takeWhile_all _ _ h

theorem sf_pathAux_nil (fuel : Nat) : pathAux fuel [] = [] := by
  cases fuel <;> rfl

theorem sf_pathOf_plain (name : Str) (h : name.all notDotBracket = true) : pathOf name = [] := by
  unfold pathOf
  have : name.dropWhile notDotBracket = [] := sf_dropWhile_all _ _ h
  rw [this]
  exact sf_pathAux_nil _

theorem sf_getField_plain (m : Mode) (d : SDict) (name : Str) (h : name.all notDotBracket = true) :
    getField m d name = lookupFirst m d name := by
  unfold getField
  rw [sf_pathOf_plain name h]
  cases lookupFirst m d name <;> rfl

/-- looking up a bare key in a mapping: it works exactly when the key is not empty, not a number, and present -/
theorem sf_lookupFirst_plain (m : Mode) (d : SDict) (name : Str) (h : name.all notDotBracket = true) (v : Val) :
    lookupFirst m d name = .ok v ↔ getInteger name = .notInt ∧ name ≠ [] ∧ d name = some v := by
  unfold lookupFirst
  rw [sf_firstOf_plain name h]
  cases hg : getInteger name with
  | overflow => simp
  | idx i => simp
  | notInt =>
    cases name with
    | nil => simp
    | cons c t =>
      simp only [List.isEmpty_cons, Bool.false_and, Bool.false_eq_true, if_false, ne_eq, reduceCtorEq, not_false_eq_true,
        true_and]
      cases d (c :: t) <;> simp

theorem sf_parse_plain (spec : Str) (h : spec.all notBrace = true) :
    parse spec = if spec.isEmpty then [] else [.lit spec] := by
  cases spec with
  | nil => rfl
  | cons c t =>
    have h1 : (c :: t).takeWhile notBrace = c :: t := sf_takeWhile_all _ _ h
    have h2 : (c :: t).dropWhile notBrace = [] := sf_dropWhile_all _ _ h
    simp only [parse, List.length_cons, parseAux, h1, h2, List.isEmpty_cons, Bool.false_eq_true, if_false]

/-- a spec without braces expands to itself, in both implementations, at every level but the forbidden one -/
theorem sf_evalStr_plain (m : Mode) (d : SDict) (level : Nat) (spec : Str) (h : spec.all notBrace = true) :
    evalStr m d (level + 1) spec = .ok (some spec) := by
  unfold evalStr
  rw [sf_parse_plain spec h]
  cases spec with
  | nil => rfl
  | cons c t => simp [runItems, catText]

theorem sf_no_open_plain (spec : Str) (h : spec.all notBrace = true) : spec.contains '{' = false := by
  apply Bool.eq_false_iff.mpr
  intro hc
  have hm : '{' ∈ spec := by simpa using hc
  have := List.all_eq_true.mp h _ hm
  simp [notBrace] at this


/-! ## Where a field of the parse sits in the format string -/

theorem sf_scanName_eq : ∀ (s : Str) (b : Bool) (name : Str) (term : Char) (rest : Str),
    scanName b s = some (name, term, rest) → s = name ++ term :: rest := by
  intro s
  induction s with
  | nil => intro b name term rest h; cases b <;> simp [scanName] at h
  | cons c t ih =>
    intro b name term rest h
    cases b with
    | true =>
      simp only [scanName] at h
      split at h
      · cases hr : scanName false t with
        | none => simp [hr] at h
        | some r =>
          obtain ⟨n', term', rest'⟩ := r
          simp only [hr, Option.map_some, Option.some.injEq, Prod.mk.injEq] at h
          obtain ⟨rfl, rfl, rfl⟩ := h
          rw [ih _ _ _ _ hr]; rfl
      · cases hr : scanName true t with
        | none => simp [hr] at h
        | some r =>
          obtain ⟨n', term', rest'⟩ := r
          simp only [hr, Option.map_some, Option.some.injEq, Prod.mk.injEq] at h
          obtain ⟨rfl, rfl, rfl⟩ := h
          rw [ih _ _ _ _ hr]; rfl
    | false =>
      simp only [scanName] at h
      split at h
      · cases h
      · split at h
        · simp only [Option.some.injEq, Prod.mk.injEq] at h
          obtain ⟨rfl, rfl, rfl⟩ := h
          rfl
        · split at h
          · cases hr : scanName true t with
            | none => simp [hr] at h
            | some r =>
              obtain ⟨n', term', rest'⟩ := r
              simp only [hr, Option.map_some, Option.some.injEq, Prod.mk.injEq] at h
              obtain ⟨rfl, rfl, rfl⟩ := h
              rw [ih _ _ _ _ hr]; rfl
          · cases hr : scanName false t with
            | none => simp [hr] at h
            | some r =>
              obtain ⟨n', term', rest'⟩ := r
              simp only [hr, Option.map_some, Option.some.injEq, Prod.mk.injEq] at h
              obtain ⟨rfl, rfl, rfl⟩ := h
              rw [ih _ _ _ _ hr]; rfl

theorem sf_scanSpec_eq : ∀ (s : Str) (d : Nat) (sp rest : Str),
    scanSpec d s = some (sp, rest) → s = sp ++ '}' :: rest := by
  intro s
  induction s with
  | nil => intro d sp rest h; simp [scanSpec] at h
  | cons c t ih =>
    intro d sp rest h
    simp only [scanSpec] at h
    split at h
    · rename_i hc
      have hc' : c = '}' := by simpa using hc
      cases d with
      | zero =>
        simp only [Option.some.injEq, Prod.mk.injEq] at h
        obtain ⟨rfl, rfl⟩ := h
        rw [hc']; rfl
      | succ d' =>
        simp only at h
        cases hr : scanSpec d' t with
        | none => simp [hr] at h
        | some r =>
          simp only [hr, Option.map_some, Option.some.injEq, Prod.mk.injEq] at h
          obtain ⟨rfl, rfl⟩ := h
          rw [ih _ _ _ hr]; rfl
    · split at h
      · cases hr : scanSpec (d + 1) t with
        | none => simp [hr] at h
        | some r =>
          simp only [hr, Option.map_some, Option.some.injEq, Prod.mk.injEq] at h
          obtain ⟨rfl, rfl⟩ := h
          rw [ih _ _ _ hr]; rfl
      · cases hr : scanSpec d t with
        | none => simp [hr] at h
        | some r =>
          simp only [hr, Option.map_some, Option.some.injEq, Prod.mk.injEq] at h
          obtain ⟨rfl, rfl⟩ := h
          rw [ih _ _ _ hr]; rfl

/-- a field parsed at the beginning of `s`: its name is a prefix of `s`, and what is left is a suffix of `s` -/
theorem sf_parseField_shape (s : Str) (f : Item) (rest : Str) (h : parseField s = some (f, rest)) :
    ∃ name conv spec post pre, f = .field name conv spec ∧ s = name ++ post ∧ s = pre ++ rest := by
  unfold parseField at h
  cases hn : scanName false s with
  | none => simp [hn] at h
  | some r =>
    obtain ⟨name, term, r1⟩ := r
    have hs := sf_scanName_eq _ _ _ _ _ hn
    simp only [hn] at h
    split at h
    · simp only [Option.some.injEq, Prod.mk.injEq] at h
      obtain ⟨rfl, rfl⟩ := h
      exact ⟨name, none, [], term :: r1, name ++ [term], rfl, hs, by rw [hs]; simp⟩
    · split at h
      · cases hp : scanSpec 0 r1 with
        | none => simp [hp] at h
        | some q =>
          simp only [hp, Option.map_some, Option.some.injEq, Prod.mk.injEq] at h
          obtain ⟨rfl, rfl⟩ := h
          have h2 := sf_scanSpec_eq _ _ _ _ hp
          exact ⟨name, none, q.1, term :: r1, name ++ term :: (q.1 ++ ['}']), rfl, hs, by rw [hs, h2]; simp⟩
      · cases r1 with
        | nil => simp at h
        | cons cv r2 =>
          cases r2 with
          | nil => simp at h
          | cons c2 r3 =>
            simp only at h
            split at h
            · simp only [Option.some.injEq, Prod.mk.injEq] at h
              obtain ⟨rfl, rfl⟩ := h
              exact ⟨name, convOf cv, [], term :: cv :: c2 :: r3, name ++ [term, cv, c2], rfl, hs, by rw [hs]; simp⟩
            · split at h
              · cases hp : scanSpec 0 r3 with
                | none => simp [hp] at h
                | some q =>
                  simp only [hp, Option.map_some, Option.some.injEq, Prod.mk.injEq] at h
                  obtain ⟨rfl, rfl⟩ := h
                  have h2 := sf_scanSpec_eq _ _ _ _ hp
                  exact ⟨name, convOf cv, q.1, term :: cv :: c2 :: r3, name ++ term :: cv :: c2 :: (q.1 ++ ['}']), rfl, hs,
                    by rw [hs, h2]; simp⟩
              · cases h

theorem sf_dropWhile_head (p : Char → Bool) : ∀ (l : Str) (a : Char) (r : Str), l.dropWhile p = a :: r → p a = false := by
  intro l
  induction l with
  | nil => intro a r h; cases h
  | cons c t ih =>
    intro a r h
    simp only [List.dropWhile_cons] at h
    split at h
    · exact ih a r h
    · rename_i hc
      injection h with h1 h2
      subst h1
      simpa using hc

theorem sf_mem_litCons (l : Str) (rest : List Item) (it : Item) (h : it ∈ litCons l rest) : it = .lit l ∨ it ∈ rest := by
  unfold litCons at h
  split at h
  · exact Or.inr h
  · exact List.mem_cons.mp h

/-- a field of the parse is written in the format string: `{` followed by its name -/
theorem sf_parseAux_field (name : Str) (conv : Option Char) (spec : Str) : ∀ (fuel : Nat) (s : Str),
    Item.field name conv spec ∈ parseAux fuel s → ∃ pre post, s = pre ++ '{' :: (name ++ post) := by
  intro fuel
  induction fuel with
  | zero => intro s h; simp [parseAux] at h
  | succ fuel ih =>
    intro s h
    cases s with
    | nil => simp [parseAux] at h
    | cons c t =>
      have hsplit : (c :: t).takeWhile notBrace ++ (c :: t).dropWhile notBrace = c :: t := List.takeWhile_append_dropWhile
      simp only [parseAux] at h
      generalize (c :: t).takeWhile notBrace = l at hsplit h
      cases hd : (c :: t).dropWhile notBrace with
      | nil => simp [hd] at h
      | cons b r =>
        cases r with
        | nil => simp [hd] at h
        | cons b2 t2 =>
          rw [hd] at hsplit
          simp only [hd] at h
          split at h
          · -- escaped brace
            rcases List.mem_cons.mp h with h | h
            · cases h
            · obtain ⟨pre, post, ht⟩ := ih t2 h
              refine ⟨l ++ b :: b2 :: pre, post, ?_⟩
              rw [← hsplit, ht]; simp
          · rename_i hne
            split at h
            · simp at h
            · rename_i hb
              have hbrace : notBrace b = false := sf_dropWhile_head _ _ _ _ hd
              have hb' : b = '{' := by
                simp only [notBrace, Bool.and_eq_false_iff, bne_eq_false_iff_eq] at hbrace
                rcases hbrace with h1 | h1
                · exact h1
                · exact absurd (by simpa using h1) hb
              cases hp : parseField (b2 :: t2) with
              | none => simp [hp] at h
              | some q =>
                obtain ⟨f, rest⟩ := q
                simp only [hp] at h
                obtain ⟨n', c', s', post, pre, hf, hs1, hs2⟩ := sf_parseField_shape _ _ _ hp
                rcases sf_mem_litCons _ _ _ h with h | h
                · cases h
                · rcases List.mem_cons.mp h with h | h
                  · rw [hf] at h
                    injection h with h1 h2 h3
                    subst h1
                    refine ⟨l, post, ?_⟩
                    rw [← hsplit, hb', hs1]
                  · obtain ⟨pre', post', ht⟩ := ih rest h
                    refine ⟨l ++ b :: pre ++ pre', post', ?_⟩
                    rw [← hsplit, hs2, ht]; simp

theorem sf_field_infix (fmt name : Str) (conv : Option Char) (spec : Str) (h : Item.field name conv spec ∈ parse fmt) :
    hasInfix ('{' :: name) fmt = true := by
  obtain ⟨pre, post, hs⟩ := sf_parseAux_field name conv spec _ _ h
  rw [hs]
  exact lf_hasInfix_append ('{' :: name) pre post

/-- a format that has a field `{asctime…}` uses the time, so the formatter sets `record.asctime` -/
theorem sf_usesTime_of_field (fmt : Str) (conv : Option Char) (spec : Str)
    (h : Item.field "asctime".toList conv spec ∈ parse (effectiveStr fmt)) : usesTimeStr fmt = true :=
  sf_field_infix _ _ _ _ h


/-! ## Acceptance, item by item -/

theorem sf_vformatRun_ok (fmt : Str) (d : SDict) :
    vformatRun fmt d = .ok () ↔
      (Item.bad ∉ parse fmt ∧ ∀ n c s, Item.field n c s ∈ parse fmt →
        ∃ v o st t, getField .vformat d n = .ok v ∧ convert v c = .ok o ∧
          evalStr .vformat d 2 s = .ok (some st) ∧ formatObj o st = .ok t) := by
  unfold vformatRun
  rw [sf_toUnit_ok]
  unfold evalStr
  rw [sf_runItems_ok]
  constructor
  · rintro ⟨h1, h2⟩
    exact ⟨h1, fun n c s hm => (sf_evalField_vformat_ok _ _ _ _ _).mp (h2 n c s hm)⟩
  · rintro ⟨h1, h2⟩
    exact ⟨h1, fun n c s hm => (sf_evalField_vformat_ok _ _ _ _ _).mpr (h2 n c s hm)⟩

theorem sf_accepts_items (fmt : Str) :
    acceptsStrFormat fmt = true ↔
      (∀ it ∈ parse (effectiveStr fmt), ItemAcceptedS it) ∧ ∃ it ∈ parse (effectiveStr fmt), isNamedField it = true := by
  rw [sf_accepts_iff, sf_vformatRun_ok, sf_validate_ok, List.all_eq_true, List.any_eq_true]
  constructor
  · rintro ⟨⟨hb, hf⟩, hv, hn⟩
    refine ⟨fun it hm => ?_, hn⟩
    cases it with
    | lit s => trivial
    | bad => exact absurd hm hb
    | field n c s => exact ⟨hv _ hm, hf n c s hm⟩
  · rintro ⟨hi, hn⟩
    refine ⟨⟨fun hm => hi _ hm, fun n c s hm => (hi _ hm).2⟩, fun it hm => ?_, hn⟩
    cases it with
    | lit s => rfl
    | bad => exact absurd (hi _ hm) id
    | field n c s => exact (hi _ hm).1

/-! ## The keys of the kind table -/

theorem sf_fieldKinds_names : ∀ p ∈ fieldKinds,
    fieldSpecMatch p.1 = true ∧ getInteger p.1 = .notInt ∧ p.1 ≠ [] ∧ p.1.all notDotBracket = true := by
  decide +kernel

theorem sf_kind_text (v : Val) (h : kindOfValue v.toValue = .text) : ∃ s, v = .str s := by
  cases v with
  | str s => exact ⟨s, rfl⟩
  | int n => simp only [Val.toValue, kindOfValue] at h; split at h <;> cases h
  | float k r => cases h
  | none => cases h
  | other => cases h

theorem sf_kind_real (v : Val) (h : kindOfValue v.toValue = .real) : ∃ k r, v = .float k r := by
  cases v with
  | float k r => exact ⟨k, r, rfl⟩
  | int n => simp only [Val.toValue, kindOfValue] at h; split at h <;> cases h
  | str s => cases h
  | none => cases h
  | other => cases h

theorem sf_kind_small (v : Val) (h : kindOfValue v.toValue = .smallInt) : ∃ n, v = .int n ∧ 0 ≤ n ∧ n ≤ maxUnicode := by
  cases v with
  | int n =>
    simp only [Val.toValue, kindOfValue] at h
    split at h
    · rename_i hr; exact ⟨n, rfl, hr⟩
    · cases h
  | float k r => cases h
  | str s => cases h
  | none => cases h
  | other => cases h

theorem sf_kind_big (v : Val) (h : kindOfValue v.toValue = .bigInt) : ∃ n, v = .int n ∧ ¬ (0 ≤ n ∧ n ≤ maxUnicode) := by
  cases v with
  | int n =>
    simp only [Val.toValue, kindOfValue] at h
    split at h
    · cases h
    · rename_i hr; exact ⟨n, rfl, hr⟩
  | float k r => cases h
  | str s => cases h
  | none => cases h
  | other => cases h

theorem sf_kind_object (v : Val) (h : kindOfValue v.toValue = .object) : v = .none ∨ v = .other := by
  cases v with
  | int n => simp only [Val.toValue, kindOfValue] at h; split at h <;> cases h
  | float k r => cases h
  | str s => cases h
  | none => exact .inl rfl
  | other => exact .inr rfl

theorem sf_convOk_of_convert (v : Val) (conv : Option Char) (o : Obj) (h : convert v conv = .ok o) : convOk conv = true := by
  cases conv with
  | none => rfl
  | some c =>
    simp only [convert] at h
    simp only [convOk]
    split at h
    · rename_i h1; simp [h1]
    · split at h
      · rename_i h1 h2
        simp only [Bool.or_eq_true, beq_iff_eq] at h2 ⊢
        rcases h2 with h2 | h2
        · exact .inl (.inl h2)
        · exact .inr h2
      · cases h

theorem sf_formatObj_val_nonempty (v : Val) (spec : Str) (hne : spec ≠ []) :
    formatObj (.val v) spec =
      match v with
      | .str _ => (strFormat spec).map (fun _ => none)
      | .int n => (intFormat spec n).map (fun _ => none)
      | .float _ _ => (floatFormat spec).map (fun _ => none)
      | .none => .error .typeError
      | .other => .error .typeError := by
  unfold formatObj
  have : spec.isEmpty = false := by cases spec <;> simp_all
  simp only [this, Bool.false_eq_true, if_false]
  cases v <;> rfl

theorem sf_formatObj_text_nonempty (t : Option Str) (spec : Str) (hne : spec ≠ []) :
    formatObj (.text t) spec = (strFormat spec).map (fun _ => none) := by
  unfold formatObj
  have : spec.isEmpty = false := by cases spec <;> simp_all
  simp only [this, Bool.false_eq_true, if_false]
  cases strFormat spec <;> rfl

theorem sf_map_ok_unit (x : Except SErr Unit) (f : Unit → Option Str) : (∃ t, x.map f = .ok t) ↔ x = .ok () := by
  cases x <;> simp [Except.map]

end ZCV.LogStrFormatLemmas
