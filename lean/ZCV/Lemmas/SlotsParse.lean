import ZCV.Lemmas.SlotsImport
import ZCV.Lemmas.Include
/-!
A generic invariant principle for the parser: a reflexive, transitive relation on the context's state that every
context operation respects is respected by a whole parse (any fuel, any include depth), and by every PREFIX of a
parse (`runLines`).  Which lines are allowed (`okLine`) is a parameter, so that `%import` can be excluded (C13) or
allowed (components only grow: C12).
-/
namespace ZCV.Cfg
open ZCV

structure OpsRel {σ : Type} (c : PCtx σ) (R : σ → σ → Prop) : Prop where
  refl : ∀ a, R a a
  trans : ∀ a b d, R a b → R b d → R a d
  start : ∀ s ty nm s', c.start s ty nm = .ok s' → R s s'
  stop : ∀ s ty nm s', c.stop s ty nm = .ok s' → R s s'
  value : ∀ s k v p s', c.value s k v p = .ok s' → R s s'

section
variable {σ : Type} {c : PCtx σ} {R : σ → σ → Prop}

theorem openSection_rel (H : OpsRel c R) (url : Option Str) (line : Nat) (ty : Str) (nm : Option Str) (e : Bool)
    (st st' : PS σ) (h : openSection c url line ty nm e st = .ok st') : R st.ctx st'.ctx := by
  unfold openSection at h
  split at h
  · cases h
  · cases h
  · rename_i ctx1 h1
    have e1 := H.start _ _ _ _ h1
    split at h
    · obtain ⟨c2, hc2, rfl⟩ := map_ok_inv h
      rw [closeFixup_ok_iff] at hc2
      exact H.trans _ _ _ e1 (H.stop _ _ _ _ hc2)
    · cases h; exact e1

theorem closeSection_rel (H : OpsRel c R) (url : Option Str) (line : Nat) (ty : Str)
    (st st' : PS σ) (h : closeSection c url line ty st = .ok st') : R st.ctx st'.ctx := by
  unfold closeSection at h
  split at h
  · cases h
  · split at h
    · cases h
    · obtain ⟨c2, hc2, rfl⟩ := map_ok_inv h
      rw [closeFixup_ok_iff] at hc2
      exact H.stop _ _ _ _ hc2

theorem keyValue_rel (H : OpsRel c R) (env : Env) (url : Option Str) (line : Nat) (k raw : Str)
    (st st' : PS σ) (h : keyValue env c url line k raw st = .ok st') : R st.ctx st'.ctx := by
  rw [keyValue_eq] at h
  obtain ⟨v, _, h⟩ := bind_ok_inv h
  unfold kvCore at h
  split at h
  · rename_i ctx1 h1
    cases h
    exact H.value _ _ _ _ _ h1
  · cases h
  · cases h

/-- one line; the `%include` arm needs the statement for the included resource, at smaller fuel -/
theorem stepLine_rel (H : OpsRel c R) (env : Env) (okLine : Str → Prop)
    (himp : ∀ l a, okLine l → lineShape (strip l) = .import_ a → ∀ s pkg s', c.imp s pkg = .ok s' → R s s')
    (hinc : ∀ l a, okLine l → lineShape (strip l) = .include_ a →
      ∀ u ls, env.res u = some ls → ∀ l' ∈ ls, okLine l')
    (fuel : Nat)
    (ih : ∀ f, fuel = f + 1 → ∀ (active : List Str) (url : Option Str) (lines : List Str) (n : Nat) (st st' : PS σ),
      (∀ l ∈ lines, okLine l) → parseLines f env c active url lines n st = .ok st' → R st.ctx st'.ctx)
    (active : List Str) (url : Option Str) (line : Nat) (l : Str) (st st' : PS σ) (hl : okLine l)
    (h : stepLine fuel env c active url line (strip l) st = .ok st') : R st.ctx st'.ctx := by
  cases hs : lineShape (strip l) with
  | skip => rw [stepLine] at h; simp only [hs] at h; cases h; exact H.refl _
  | bad t => rw [stepLine] at h; simp only [hs] at h; cases h
  | internal t => rw [stepLine] at h; simp only [hs] at h; cases h
  | close ty => rw [stepLine] at h; simp only [hs] at h; exact closeSection_rel H _ _ _ _ _ h
  | open_ ty nm e => rw [stepLine] at h; simp only [hs] at h; exact openSection_rel H _ _ _ _ _ _ _ h
  | kv k v => rw [stepLine] at h; simp only [hs] at h; exact keyValue_rel H _ _ _ _ _ _ _ h
  | import_ a =>
    rw [stepLine_import _ _ _ _ _ _ _ _ _ hs] at h
    unfold impStep at h
    obtain ⟨pkg, _, h⟩ := bind_ok_inv h
    obtain ⟨ctx', hi, rfl⟩ := map_ok_inv h
    exact himp l a hl hs _ _ _ hi
  | define a =>
    rw [stepLine_define _ _ _ _ _ _ _ _ _ hs] at h
    unfold defStep at h
    split at h
    · cases h
    · obtain ⟨d, _, rfl⟩ := map_ok_inv h
      exact H.refl _
  | include_ a =>
    rw [stepLine_include _ _ _ _ _ _ _ _ _ hs] at h
    unfold incStep at h
    obtain ⟨a', _, h⟩ := bind_ok_inv h
    split at h
    · cases h
    · split at h
      · cases h
      · cases h
      · split at h
        · cases h
        · rename_i u _ lines hlines
          split at h
          · cases h
          · split at h
            · cases h
            · obtain ⟨sub, hsub, h⟩ := bind_ok_inv h
              cases h
              have := ih _ rfl _ _ _ _ _ _ (hinc l a hl hs _ _ hlines) hsub
              exact this

theorem finish_ok {url : Option Str} {k : Nat} {st st' : PS σ} (h : finish url k st = .ok st') : st' = st := by
  unfold finish at h
  split at h
  · cases h
  · cases h; rfl

theorem runLines_rel_of_step (H : OpsRel c R) (env : Env) (okLine : Str → Prop) (fuel : Nat)
    (hstep : ∀ (active : List Str) (url : Option Str) (line : Nat) (l : Str) (st st' : PS σ), okLine l →
      stepLine fuel env c active url line (strip l) st = .ok st' → R st.ctx st'.ctx)
    (active : List Str) (url : Option Str) :
    ∀ (lines : List Str) (n : Nat) (st st' : PS σ), (∀ l ∈ lines, okLine l) →
      runLines fuel env c active url lines n st = .ok st' → R st.ctx st'.ctx := by
  intro lines
  induction lines with
  | nil => intro n st st' _ h; cases h; exact H.refl _
  | cons l rest ihl =>
    intro n st st' hl h
    simp only [runLines] at h
    obtain ⟨s1, h1, h2⟩ := bind_ok_inv h
    exact H.trans _ _ _ (hstep _ _ _ _ _ _ (hl l List.mem_cons_self) h1)
      (ihl _ _ _ (fun x hx => hl x (List.mem_cons_of_mem _ hx)) h2)

theorem parseLines_rel_of_step (H : OpsRel c R) (env : Env) (okLine : Str → Prop) (fuel : Nat)
    (hstep : ∀ (active : List Str) (url : Option Str) (line : Nat) (l : Str) (st st' : PS σ), okLine l →
      stepLine fuel env c active url line (strip l) st = .ok st' → R st.ctx st'.ctx)
    (active : List Str) (url : Option Str) (lines : List Str) (n : Nat) (st st' : PS σ) (hl : ∀ l ∈ lines, okLine l)
    (h : parseLines fuel env c active url lines n st = .ok st') : R st.ctx st'.ctx := by
  rw [parseLines_eq_run] at h
  obtain ⟨s1, h1, h2⟩ := bind_ok_inv h
  rw [finish_ok h2]
  exact runLines_rel_of_step H env okLine fuel hstep active url lines n st s1 hl h1

/-- every line of the text, at any include depth, respects `R` -/
theorem step_rel (H : OpsRel c R) (env : Env) (okLine : Str → Prop)
    (himp : ∀ l a, okLine l → lineShape (strip l) = .import_ a → ∀ s pkg s', c.imp s pkg = .ok s' → R s s')
    (hinc : ∀ l a, okLine l → lineShape (strip l) = .include_ a →
      ∀ u ls, env.res u = some ls → ∀ l' ∈ ls, okLine l') :
    ∀ (fuel : Nat) (active : List Str) (url : Option Str) (line : Nat) (l : Str) (st st' : PS σ), okLine l →
      stepLine fuel env c active url line (strip l) st = .ok st' → R st.ctx st'.ctx := by
  intro fuel
  induction fuel with
  | zero =>
    intro active url line l st st' hl h
    exact stepLine_rel H env okLine himp hinc 0 (fun f hf => by omega) active url line l st st' hl h
  | succ f ihf =>
    intro active url line l st st' hl h
    refine stepLine_rel H env okLine himp hinc (f + 1) ?_ active url line l st st' hl h
    intro f' hf active url lines n st st' hls hp
    have : f = f' := by omega
    subst this
    exact parseLines_rel_of_step H env okLine f ihf active url lines n st st' hls hp

/-- **a whole parse respects `R`** -/
theorem parse_rel (H : OpsRel c R) (env : Env) (okLine : Str → Prop)
    (himp : ∀ l a, okLine l → lineShape (strip l) = .import_ a → ∀ s pkg s', c.imp s pkg = .ok s' → R s s')
    (hinc : ∀ l a, okLine l → lineShape (strip l) = .include_ a →
      ∀ u ls, env.res u = some ls → ∀ l' ∈ ls, okLine l')
    (fuel : Nat) (active : List Str) (url : Option Str) (lines : List Str) (n : Nat) (st st' : PS σ)
    (hl : ∀ l ∈ lines, okLine l) (h : parseLines fuel env c active url lines n st = .ok st') : R st.ctx st'.ctx :=
  parseLines_rel_of_step H env okLine fuel (step_rel H env okLine himp hinc fuel) active url lines n st st' hl h

/-- **so does every prefix of a parse** (in particular the part of a failing load that went through) -/
theorem run_rel (H : OpsRel c R) (env : Env) (okLine : Str → Prop)
    (himp : ∀ l a, okLine l → lineShape (strip l) = .import_ a → ∀ s pkg s', c.imp s pkg = .ok s' → R s s')
    (hinc : ∀ l a, okLine l → lineShape (strip l) = .include_ a →
      ∀ u ls, env.res u = some ls → ∀ l' ∈ ls, okLine l')
    (fuel : Nat) (active : List Str) (url : Option Str) (lines : List Str) (n : Nat) (st st' : PS σ)
    (hl : ∀ l ∈ lines, okLine l) (h : runLines fuel env c active url lines n st = .ok st') : R st.ctx st'.ctx :=
  runLines_rel_of_step H env okLine fuel (step_rel H env okLine himp hinc fuel) active url lines n st st' hl h

end

/-! ### instances for the loader context -/

/-- the schema is the same -/
theorem opsRel_schema : OpsRel loaderCtx (fun a b : LS => b.schema = a.schema) :=
  ⟨fun _ => rfl, fun _ _ _ h1 h2 => h2.trans h1, fun _ _ _ _ h => lsStart_schema _ _ _ _ h,
   fun _ _ _ _ h => lsStop_schema _ _ _ _ h, fun _ _ _ _ _ h => lsValue_schema _ _ _ _ _ h⟩

theorem lsStart_pkgs (st st' : LS) (ty : Str) (nm : Option Str) (h : lsStart st ty nm = .ok st') : st'.pkgs = st.pkgs := by
  unfold lsStart at h
  split at h
  · cases h
  · split at h
    · cases h
    · cases h
    · simp only [bind, Except.bind, pure, Except.pure] at h
      split at h
      · cases h
      · split at h
        · cases h
        · split at h
          · cases h
          · split at h
            · cases h; rfl
            · split at h
              · cases h
              · cases h; rfl

theorem lsStop_pkgs (st st' : LS) (ty : Str) (nm : Option Str) (h : lsStop st ty nm = .ok st') : st'.pkgs = st.pkgs := by
  unfold lsStop at h
  split at h
  · simp only [bind, Except.bind, pure, Except.pure] at h
    split at h
    · cases h
    · split at h
      · cases h
      · cases h; rfl
  · cases h

theorem lsValue_pkgs (st st' : LS) (k v : Str) (p : Pos) (h : lsValue st k v p = .ok st') : st'.pkgs = st.pkgs := by
  unfold lsValue at h
  split at h
  · cases ha : addValue st.conv _ k v p with
    | error e => rw [ha] at h; cases h
    | ok m => rw [ha] at h; cases h; rfl
  · cases h

/-- the packages are the same and the list of components read so far only grows -/
def Grows (a b : LS) : Prop := b.pkgs = a.pkgs ∧ ∀ u, a.schema.components.contains u = true → b.schema.components.contains u = true

theorem opsRel_grows : OpsRel loaderCtx Grows := by
  refine ⟨fun _ => ⟨rfl, fun _ h => h⟩, fun _ _ _ h1 h2 => ⟨h2.1.trans h1.1, fun u h => h2.2 u (h1.2 u h)⟩, ?_, ?_, ?_⟩
  · intro s ty nm s' h
    exact ⟨lsStart_pkgs _ _ _ _ h, fun u hu => by rw [lsStart_schema _ _ _ _ h]; exact hu⟩
  · intro s ty nm s' h
    exact ⟨lsStop_pkgs _ _ _ _ h, fun u hu => by rw [lsStop_schema _ _ _ _ h]; exact hu⟩
  · intro s k v p s' h
    exact ⟨lsValue_pkgs _ _ _ _ _ h, fun u hu => by rw [lsValue_schema _ _ _ _ _ h]; exact hu⟩

theorem lsImport_grows (st st' : LS) (pkg : Str) (h : lsImport st pkg = .ok st') : Grows st st' := by
  refine ⟨(lsImport_frame st st' pkg h).2.2.1, ?_⟩
  intro u hu
  cases hp : st.pkgs pkg with
  | component url types impls =>
    rw [lsImport_components st st' pkg url types impls hp h]
    split
    · exact hu
    · simp only [List.contains_iff_mem, List.mem_append] at hu ⊢
      exact .inl hu
  | notImportable => unfold lsImport at h; rw [hp] at h; cases h
  | notPackage => unfold lsImport at h; rw [hp] at h; cases h
  | noComponent => unfold lsImport at h; rw [hp] at h; cases h
  | illegalName => unfold lsImport at h; rw [hp] at h; cases h

end ZCV.Cfg
