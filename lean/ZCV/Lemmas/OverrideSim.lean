import ZCV.Lemmas.OverrideBag
import ZCV.Lemmas.TextLoad
/-!
The simulation behind C14: evaluating a tree with a bag of overrides = evaluating the edited tree without one.
-/
namespace ZCV.Conf
open ZCV ZCV.Cfg

/-- every path component that has to select a section is a basic key (an identifier-like word) -/
def OvsOK (ovs : List OptItem) : Prop := ∀ o ∈ ovs, ∀ c ∈ o.path.dropLast, ∃ r, DT.basicKey c = .ok r

/-- normalising a normalised key changes nothing -/
def KeyIdem (conv : Conv) : Prop := ∀ kt k r, conv.key kt k = .ok r → conv.key kt r = .ok r

/-- `t` is the type of the document or a concrete section type of the schema -/
def InSchema (s : Schema) (t : SType) : Prop := t = s.top ∨ ∃ ty, s.gettype ty = some (.concrete t)

/-- the key types the schema uses are idempotent -/
def KeyIdemOn (conv : Conv) (s : Schema) : Prop :=
  ∀ t, InSchema s t → ∀ k r, conv.key t.keytype k = .ok r → conv.key t.keytype r = .ok r

theorem KeyIdem.on {conv : Conv} (h : KeyIdem conv) (s : Schema) : KeyIdemOn conv s :=
  fun t _ k r hk => h t.keytype k r hk

/-- supplied lines may carry the key as given only when the key types in use are idempotent -/
def SpellOK (conv : Conv) (s : Schema) (asGiven : Bool) : Prop := asGiven = true → KeyIdemOn conv s

/-! ### small facts -/

theorem contains_keys (kp : List (Str × List Str)) (rk : Str) :
    (kp.map (·.1)).contains rk = kp.any (·.1 == rk) := by
  induction kp with
  | nil => rfl
  | cons p kp ih =>
    rw [List.map_cons, List.contains_cons, List.any_cons, ih]
    congr 1
    rw [Bool.eq_iff_iff, beq_iff_eq, beq_iff_eq]
    exact eq_comm

theorem sectCheck_ok (s : Schema) (pty : SType) (ty : Str) (nm : Option Str) (t : SType)
    (h : sectCheck s pty ty nm = .ok t) : s.gettype ty = some (.concrete t) := by
  unfold sectCheck at h
  split at h
  · cases h
  · cases h
  · rename_i t' hg
    split at h
    · cases h
    · split at h
      · cases h
      · split at h
        · cases h
        · cases h; exact hg

theorem hdrOK_name (s : Schema) (ty : Str) (t : SType) (hh : hdrOK s ty = true) (hg : s.gettype ty = some (.concrete t)) :
    t.name.getD [] = ty := by
  unfold hdrOK at hh
  rw [hg] at hh
  simp only [beq_iff_eq] at hh
  rw [hh]
  rfl

theorem tyCanon_single_sect (s : Schema) (ty : Str) (nm : Option Str) (sub : List Item)
    (h : tyCanon s [.sect ty nm sub] = true) : hdrOK s ty = true ∧ tyCanon s sub = true := by
  rw [tyCanon_sect] at h
  simp only [Bool.and_eq_true] at h
  exact ⟨h.1.1, h.1.2⟩

theorem bagStep_nobag (conv : Conv) (s : Schema) (m : Matcher) (hb : m.bag = none) (ty : Str) (nm : Option Str) :
    bagStep conv s m ty nm = .ok (m, none) := by
  unfold bagStep
  rw [hb]

theorem bagStep_withBag (conv : Conv) (s : Schema) (m : Matcher) (b : Bag) (ty : Str) (nm : Option Str) :
    bagStep conv s (withBag m (some b)) ty nm =
      match bagSectionInfo conv s b ty nm with
      | .error e => .error e
      | .ok bc => .ok (withBag m (some bc.1), bc.2) := by
  unfold bagStep
  show (match bagSectionInfo conv s b ty nm with
    | .error e => _
    | .ok (b', cb) => _) = _
  cases bagSectionInfo conv s b ty nm <;> rfl

theorem newMatcher_withBag (t : SType) (nm : Option Str) (cb : Option Bag) :
    newMatcher t nm cb = withBag (newMatcher t nm none) cb := rfl

/-- a section on a matcher without bag -/
theorem sect_plain (conv : Conv) (s : Schema) (m : Matcher) (hb : m.bag = none) (ty : Str) (nm : Option Str)
    (sub : List Item) :
    evalItemB conv s m (.sect ty nm sub) =
      sectCheck s m.ty ty nm >>= fun t =>
      (evalItemsB conv s (newMatcher t nm none) sub >>= finishMatcher conv s) >>= fun r =>
      addSection s m ty nm r.1 := by
  rw [evalItemB_sect]
  congr 1
  funext t
  rw [bagStep_nobag conv s m hb]
  rfl

/-- a section on a matcher with a bag -/
theorem sect_bag (conv : Conv) (s : Schema) (m : Matcher) (kp : List (Str × List Str)) (pend : List OptItem)
    (hp : PendOK pend) (ty : Str) (nm : Option Str) (sub : List Item) (hh : hdrOK s ty = true) :
    evalItemB conv s (withBag m (some { keypairs := kp, sectitems := pend })) (.sect ty nm sub) =
      sectCheck s m.ty ty nm >>= fun t =>
        if (pend.filter (addresses · ty nm)).isEmpty then
          (evalItemsB conv s (newMatcher t nm none) sub >>= finishMatcher conv s) >>= fun r =>
            (addSection s m ty nm r.1).map (withBag · (some { keypairs := kp, sectitems := pend }))
        else
          (mkBag conv t ((pend.filter (addresses · ty nm)).map dropHead) >>= fun child =>
            evalItemsB conv s (withBag (newMatcher t nm none) (some child)) sub >>= finishMatcher conv s) >>= fun r =>
            (addSection s m ty nm r.1).map
              (withBag · (some { keypairs := kp, sectitems := pend.filter (fun o => !addresses o ty nm) })) := by
  rw [evalItemB_sect]
  show (sectCheck s m.ty ty nm >>= _) = _
  cases hsc : sectCheck s m.ty ty nm with
  | error e => rfl
  | ok t =>
    have hg := sectCheck_ok s m.ty ty nm t hsc
    have hn := hdrOK_name s ty t hh hg
    show (bagStep conv s (withBag m (some { keypairs := kp, sectitems := pend })) (t.name.getD []) nm >>= _) = _
    rw [hn, bagStep_withBag, bagSectionInfo_spec conv s _ ty nm hp]
    simp only
    by_cases he : (pend.filter (addresses · ty nm)).isEmpty = true
    · rw [if_pos he]
      show _ = (if _ then _ else _)
      rw [if_pos he]
      show ((evalItemsB conv s (newMatcher t nm none) sub >>= finishMatcher conv s) >>= fun r =>
        addSection s (withBag m (some { keypairs := kp, sectitems := pend })) ty nm r.1) = _
      congr 1
      funext r
      exact addSection_withBag s m _ ty nm r.1
    · rw [if_neg he]
      show _ = (if _ then _ else _)
      rw [if_neg he, hg]
      simp only
      cases mkBag conv t ((pend.filter (addresses · ty nm)).map dropHead) with
      | error e => rfl
      | ok child =>
        show ((evalItemsB conv s (newMatcher t nm (some child)) sub >>= finishMatcher conv s) >>= fun r =>
          addSection s (withBag m (some { keypairs := kp, sectitems := pend.filter (fun o => !addresses o ty nm) })) ty nm r.1) = _
        rw [newMatcher_withBag]
        show _ = ((evalItemsB conv s (withBag (newMatcher t nm none) (some child)) sub >>= finishMatcher conv s) >>= _)
        congr 1
        funext r
        exact addSection_withBag s m _ ty nm r.1

/-- `editItem` on a section, through `editBody` -/
theorem editItem_sect (conv : Conv) (s : Schema) (asGiven : Bool) (norm : Str → Except ConvErr Str) (keys : List Str)
    (ty : Str) (nm : Option Str) (sub : List Item) (pend : List OptItem) :
    editItem conv s asGiven norm keys (.sect ty nm sub) pend =
      if (pend.filter (addresses · ty nm)).isEmpty then .ok ([.sect ty nm sub], pend)
      else
        match s.gettype ty with
        | some (.concrete t) =>
          match editBody conv s asGiven t.keytype sub ((pend.filter (addresses · ty nm)).map dropHead) with
          | .error e => .error e
          | .ok sub' => .ok ([.sect ty nm sub'], pend.filter (fun o => !addresses o ty nm))
        | _ => .error (.unknownType ty) := by
  rw [editItem]
  unfold editBody
  by_cases he : (pend.filter (addresses · ty nm)).isEmpty = true
  · rw [if_pos he, if_pos he]
  · rw [if_neg he, if_neg he]
    cases s.gettype ty with
    | none => rfl
    | some te =>
      cases te with
      | abstract_ n subs => rfl
      | concrete t =>
        dsimp only
        cases splitOvs (conv.key t.keytype) ((pend.filter (addresses · ty nm)).map dropHead) with
        | error e => rfl
        | ok p => rfl

/-! ### the statements -/

def SimItem (conv : Conv) (s : Schema) (asGiven : Bool) (i : Item) : Prop :=
  ∀ (m : Matcher) (kp : List (Str × List Str)) (pend : List OptItem), m.bag = none → PendOK pend →
    match editItem conv s asGiven (conv.key m.ty.keytype) (kp.map (·.1)) i pend with
    | .error _ => ∃ e, evalItemB conv s (withBag m (some { keypairs := kp, sectitems := pend })) i = .error e
    | .ok (is, pend') =>
      evalItemB conv s (withBag m (some { keypairs := kp, sectitems := pend })) i =
        (evalItemsB conv s m is).map (withBag · (some { keypairs := kp, sectitems := pend' })) ∧
      ∀ o ∈ pend', o ∈ pend

def SimItems (conv : Conv) (s : Schema) (asGiven : Bool) (l : List Item) : Prop :=
  ∀ (m : Matcher) (kp : List (Str × List Str)) (pend : List OptItem), m.bag = none → PendOK pend →
    match editItems conv s asGiven (conv.key m.ty.keytype) (kp.map (·.1)) l pend with
    | .error _ => ∃ e, evalItemsB conv s (withBag m (some { keypairs := kp, sectitems := pend })) l = .error e
    | .ok (is, pend') =>
      evalItemsB conv s (withBag m (some { keypairs := kp, sectitems := pend })) l =
        (evalItemsB conv s m is).map (withBag · (some { keypairs := kp, sectitems := pend' })) ∧
      ∀ o ∈ pend', o ∈ pend

/-- the body of a section (or of the document): bag made of `ovs`, items, `finishMatcher` -/
def bodyOv (conv : Conv) (s : Schema) (m : Matcher) (items : List Item) (ovs : List OptItem) : M (Val × List (Str × Val)) :=
  mkBag conv m.ty ovs >>= fun child =>
    evalItemsB conv s (withBag m (some child)) items >>= finishMatcher conv s

def BodyStmt (conv : Conv) (s : Schema) (asGiven : Bool) (items : List Item) : Prop :=
  ∀ (m : Matcher) (ovs : List OptItem), m.bag = none → InSchema s m.ty → OvsOK ovs →
    match editBody conv s asGiven m.ty.keytype items ovs with
    | .error _ => ∃ e, bodyOv conv s m items ovs = .error e
    | .ok items' => bodyOv conv s m items ovs = evalItemsB conv s m items' >>= finishMatcher conv s

theorem pendOK_of_ovsOK (ovs ss : List OptItem) (h : OvsOK ovs) (hss : ∀ o ∈ ss, o ∈ ovs ∧ 2 ≤ o.path.length) :
    PendOK ss := fun o ho => ⟨(hss o ho).2, h o (hss o ho).1⟩

theorem groupsOK_of (conv : Conv) (s : Schema) (asGiven : Bool) (hsp : SpellOK conv s asGiven) (t : SType)
    (hin : InSchema s t) (ks : List KeyOv)
    (hks : ∀ x ∈ ks, conv.key t.keytype x.key = .ok x.norm) : GroupsOK conv asGiven t.keytype (groupsOf ks) := by
  intro ha g hg kv hkv
  have h1 := groupsOf_norm (conv.key t.keytype) ks hks g hg kv hkv
  exact ⟨h1, hsp ha t hin kv.1 g.1 h1⟩

theorem body_of_sim (conv : Conv) (s : Schema) (asGiven : Bool) (hsp : SpellOK conv s asGiven) (items : List Item)
    (hsim : SimItems conv s asGiven items) : BodyStmt conv s asGiven items := by
  intro m ovs hb hin hovs
  unfold editBody bodyOv
  have hmk := mkBag_spec conv m.ty ovs
  cases hsp' : splitOvs (conv.key m.ty.keytype) ovs with
  | error r =>
    rw [hsp'] at hmk
    obtain ⟨e, he⟩ := hmk
    exact ⟨e, by rw [he]; rfl⟩
  | ok p =>
    obtain ⟨ks, ss⟩ := p
    rw [hsp'] at hmk
    simp only at hmk ⊢
    rw [hmk]
    have hinv := splitOvs_inv _ ovs ks ss hsp'
    have hpend := pendOK_of_ovsOK ovs ss hovs hinv.2
    have hG := groupsOK_of conv s asGiven hsp m.ty hin ks hinv.1
    have h := hsim m (strip (groupsOf ks)) ss hb hpend
    rw [strip_keys] at h
    show (match closeBody asGiven (groupsOf ks) _ with
      | .error _ => ∃ e, (evalItemsB conv s (withBag m (some { keypairs := strip (groupsOf ks), sectitems := ss })) items
          >>= finishMatcher conv s) = .error e
      | .ok items' => (evalItemsB conv s (withBag m (some { keypairs := strip (groupsOf ks), sectitems := ss })) items
          >>= finishMatcher conv s) = evalItemsB conv s m items' >>= finishMatcher conv s)
    cases hed : editItems conv s asGiven (conv.key m.ty.keytype) ((groupsOf ks).map (·.1)) items ss with
    | error r =>
      rw [hed] at h
      obtain ⟨e, he⟩ := h
      exact ⟨e, by rw [he]; rfl⟩
    | ok p =>
      obtain ⟨is, left⟩ := p
      rw [hed] at h
      obtain ⟨h, _⟩ := h
      rw [h]
      cases hev : evalItemsB conv s m is with
      | error e =>
        cases left with
        | nil =>
          show _ = evalItemsB conv s m (is ++ newLines asGiven (groupsOf ks)) >>= finishMatcher conv s
          rw [evalItemsB_append, hev]
          rfl
        | cons o left => exact ⟨e, rfl⟩
      | ok m2 =>
        have hp := evalItemsB_pres conv s is m m2 hev
        have hG2 : GroupsOK conv asGiven m2.ty.keytype (groupsOf ks) := by rw [hp.1]; exact hG
        have hfin := finishBag_groups conv s asGiven (groupsOf ks) left m2 (hp.2 hb) hG2
        show (match closeBody asGiven (groupsOf ks) (.ok (is, left)) with
          | .error _ => ∃ e, finishMatcher conv s (withBag m2 (some { keypairs := strip (groupsOf ks), sectitems := left })) = .error e
          | .ok items' => finishMatcher conv s (withBag m2 (some { keypairs := strip (groupsOf ks), sectitems := left })) =
              evalItemsB conv s m items' >>= finishMatcher conv s)
        rw [finishMatcher_split, hfin]
        cases left with
        | nil =>
          show _ = evalItemsB conv s m (is ++ newLines asGiven (groupsOf ks)) >>= finishMatcher conv s
          rw [evalItemsB_append, hev]
          show _ = evalItemsB conv s m2 (newLines asGiven (groupsOf ks)) >>= finishMatcher conv s
          cases hnl : evalItemsB conv s m2 (newLines asGiven (groupsOf ks)) with
          | error e => rfl
          | ok m3 =>
            have hp3 := evalItemsB_pres conv s _ m2 m3 hnl
            show finishRest conv s m3 = finishMatcher conv s m3
            rw [finishMatcher_nobag conv s m3 (hp3.2 (hp.2 hb))]
        | cons o left =>
          cases evalItemsB conv s m2 (newLines asGiven (groupsOf ks)) with
          | error e => exact ⟨e, rfl⟩
          | ok m3 => exact ⟨_, rfl⟩

/-! ### the mutual induction -/

mutual
theorem simItem (conv : Conv) (s : Schema) (asGiven : Bool) (hsp : SpellOK conv s asGiven) :
    ∀ (i : Item), tyCanon s [i] = true → SimItem conv s asGiven i
  | .kv k v p, _ => by
    intro m kp pend hb _
    rw [editItem]
    simp only
    refine ⟨?_, fun o ho => ho⟩
    rw [evalItemB, addValue_bag_eq]
    unfold overridden
    cases hk : conv.key m.ty.keytype k with
    | error e =>
      simp only [Bool.false_eq_true, if_false]
      rw [evalItemsB_single, evalItemB, addValue_nobag conv m hb, hk]
      rfl
    | ok rk =>
      simp only [contains_keys]
      by_cases ho : kp.any (·.1 == rk) = true
      · rw [if_pos ho, if_pos ho, evalItemsB_nil]
        rfl
      · rw [if_neg ho, if_neg ho, evalItemsB_single, evalItemB, addValue_nobag conv m hb, hk]
  | .sect ty nm sub, hcan => by
    intro m kp pend hb hpend
    obtain ⟨hh, hcsub⟩ := tyCanon_single_sect s ty nm sub hcan
    have hbody := body_of_sim conv s asGiven hsp sub (simItems conv s asGiven hsp sub hcsub)
    rw [editItem_sect, sect_bag conv s m kp pend hpend ty nm sub hh]
    by_cases he : (pend.filter (addresses · ty nm)).isEmpty = true
    · rw [if_pos he]
      simp only
      refine ⟨?_, fun o ho => ho⟩
      rw [evalItemsB_single, sect_plain conv s m hb]
      cases sectCheck s m.ty ty nm with
      | error e => rfl
      | ok t =>
        show (if _ then _ else _) = _
        rw [if_pos he]
        show _ = Except.map _ ((evalItemsB conv s (newMatcher t nm none) sub >>= finishMatcher conv s) >>= _)
        cases (evalItemsB conv s (newMatcher t nm none) sub >>= finishMatcher conv s) with
        | error e => rfl
        | ok r => rfl
    · rw [if_neg he]
      cases hg : s.gettype ty with
      | none =>
        simp only
        cases hsc : sectCheck s m.ty ty nm with
        | error e => exact ⟨e, rfl⟩
        | ok t => rw [sectCheck_ok s m.ty ty nm t hsc] at hg; cases hg
      | some te =>
        cases te with
        | abstract_ n subs =>
          simp only
          cases hsc : sectCheck s m.ty ty nm with
          | error e => exact ⟨e, rfl⟩
          | ok t => rw [sectCheck_ok s m.ty ty nm t hsc] at hg; cases hg
        | concrete t =>
          simp only
          have hpm : OvsOK ((pend.filter (addresses · ty nm)).map dropHead) := by
            intro o ho c hc
            rw [List.mem_map] at ho
            obtain ⟨o0, ho0, rfl⟩ := ho
            have h0 := hpend o0 (List.mem_filter.mp ho0).1
            apply h0.2 c
            unfold dropHead at hc
            simp only at hc
            cases hp0 : o0.path with
            | nil => rw [hp0] at hc; simp at hc
            | cons c0 rest =>
              rw [hp0] at hc
              simp only [List.drop_one, List.tail_cons] at hc
              cases rest with
              | nil => simp at hc
              | cons c1 rest => rw [List.dropLast_cons_cons]; exact List.mem_cons_of_mem _ hc
          have hb2 := hbody (newMatcher t nm none) _ rfl (Or.inr ⟨ty, hg⟩) hpm
          unfold bodyOv at hb2
          cases hed : editBody conv s asGiven t.keytype sub ((pend.filter (addresses · ty nm)).map dropHead) with
          | error r =>
            simp only
            cases hsc : sectCheck s m.ty ty nm with
            | error e => exact ⟨e, rfl⟩
            | ok t' =>
              have hg' := sectCheck_ok s m.ty ty nm t' hsc
              rw [hg] at hg'
              cases hg'
              rw [show (newMatcher t nm none).ty.keytype = t.keytype from rfl, hed] at hb2
              obtain ⟨e, he2⟩ := hb2
              refine ⟨e, ?_⟩
              show (if _ then _ else _) = _
              rw [if_neg he]
              show (Except.bind _ _) = _
              show ((mkBag conv (newMatcher t nm none).ty _ >>= _) >>= _) = _
              rw [he2]
              rfl
          | ok sub' =>
            simp only
            refine ⟨?_, fun o ho => (List.mem_filter.mp ho).1⟩
            rw [evalItemsB_single, sect_plain conv s m hb]
            cases hsc : sectCheck s m.ty ty nm with
            | error e => rfl
            | ok t' =>
              have hg' := sectCheck_ok s m.ty ty nm t' hsc
              rw [hg] at hg'
              cases hg'
              rw [show (newMatcher t nm none).ty.keytype = t.keytype from rfl, hed] at hb2
              show (if _ then _ else _) = _
              rw [if_neg he]
              show ((mkBag conv (newMatcher t nm none).ty _ >>= _) >>= _) = _
              rw [hb2]
              show _ = Except.map _ ((evalItemsB conv s (newMatcher t nm none) sub' >>= finishMatcher conv s) >>= _)
              cases (evalItemsB conv s (newMatcher t nm none) sub' >>= finishMatcher conv s) with
              | error e => rfl
              | ok r => rfl
theorem simItems (conv : Conv) (s : Schema) (asGiven : Bool) (hsp : SpellOK conv s asGiven) :
    ∀ (l : List Item), tyCanon s l = true → SimItems conv s asGiven l
  | [], _ => by
    intro m kp pend _ _
    rw [editItems]
    simp only
    refine ⟨?_, fun o ho => ho⟩
    rw [evalItemsB_nil, evalItemsB_nil]
    rfl
  | i :: r, hcan => by
    intro m kp pend hb hpend
    rw [tyCanon_cons, Bool.and_eq_true] at hcan
    have h1 := simItem conv s asGiven hsp i hcan.1 m kp pend hb hpend
    rw [editItems]
    cases hed : editItem conv s asGiven (conv.key m.ty.keytype) (kp.map (·.1)) i pend with
    | error e =>
      rw [hed] at h1
      obtain ⟨e1, he1⟩ := h1
      exact ⟨e1, by rw [evalItemsB_cons, he1]; rfl⟩
    | ok p =>
      obtain ⟨is, pend1⟩ := p
      rw [hed] at h1
      obtain ⟨h1, hsub1⟩ := h1
      simp only
      rw [evalItemsB_cons, h1]
      cases hev : evalItemsB conv s m is with
      | error e =>
        cases hed2 : editItems conv s asGiven (conv.key m.ty.keytype) (kp.map (·.1)) r pend1 with
        | error e2 => exact ⟨e, rfl⟩
        | ok p2 =>
          obtain ⟨rs, pend2⟩ := p2
          simp only
          have hp1 : PendOK pend1 := fun o ho => hpend o (hsub1 o ho)
          have h2 := simItems conv s asGiven hsp r hcan.2 m kp pend1 hb hp1
          rw [hed2] at h2
          refine ⟨?_, fun o ho => hsub1 o (h2.2 o ho)⟩
          rw [evalItemsB_append, hev]
          rfl
      | ok m1 =>
        have hp := evalItemsB_pres conv s is m m1 hev
        have hp1 : PendOK pend1 := fun o ho => hpend o (hsub1 o ho)
        have h2 := simItems conv s asGiven hsp r hcan.2 m1 kp pend1 (hp.2 hb) hp1
        rw [hp.1] at h2
        cases hed2 : editItems conv s asGiven (conv.key m.ty.keytype) (kp.map (·.1)) r pend1 with
        | error e2 =>
          rw [hed2] at h2
          obtain ⟨e, he⟩ := h2
          exact ⟨e, he⟩
        | ok p2 =>
          obtain ⟨rs, pend2⟩ := p2
          rw [hed2] at h2
          simp only
          refine ⟨?_, fun o ho => hsub1 o (h2.2 o ho)⟩
          rw [evalItemsB_append, hev]
          exact h2.1
end

end ZCV.Conf
