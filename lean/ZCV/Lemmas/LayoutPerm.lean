import ZCV.Lemmas.TextLoad
/-!
C15: the value the schema defines for a text (`Conf.denote`) does not depend on the order of the lines of different
keys within one section, nor on the order of a key line relative to a neighbouring sub-section.
-/
namespace ZCV.Conf
open ZCV ZCV.Cfg

/-! ### `containerVal` through the two lists it really reads -/

/-- the body of `containerVal`, as a function of the key lines and the sub-sections -/
def containerCore (conv : Conv) (s : Schema) (t : SType) (nm : Option Str)
    (kl : List (Option Str × VI)) (subs : List Sub) : Option Val :=
  if !(kl.all fun (rk?, _) => match rk? with
        | some rk => (match route t.children rk with | some c => !c.2.isSection | none => false)
        | none => false) then none
  else if !nodupB (subs.filterMap fun sb => match sb.nm with | some n => if n.isEmpty then none else some n | none => none) then none
  else if !(subs.all fun sb => match slotOf s t sb.ty sb.nm with
        | some si => nameOK si sb.nm && (sb.nm.isSome || si.name == ['*']) && sb.val.isSome && !isAbs s sb.ty
        | none => false) then none
  else
    (t.children.mapM fun c => (childVal conv s t kl subs c).map fun v => (c.2.attr, v)).map fun attrs =>
      Val.sect (t.name.getD []) nm attrs

theorem containerVal_eq_core (conv : Conv) (s : Schema) (t : SType) (nm : Option Str) (items : List Item)
    (subvals : List (Option Val)) :
    containerVal conv s t nm items subvals =
      containerCore conv s t nm (keyLines conv t items) (subsOf items subvals) := rfl

/-- the sub-sections of a container with their values, without the positional zip -/
def subsOf' (conv : Conv) (s : Schema) (items : List Item) : List Sub :=
  items.filterMap fun
    | .sect ty nm its => some { ty := ty, nm := nm, val := itemVal conv s (.sect ty nm its) }
    | .kv _ _ _ => none

theorem subsOf_itemVals (conv : Conv) (s : Schema) (items : List Item) :
    subsOf items (itemVals conv s items) = subsOf' conv s items := by
  induction items with
  | nil => simp [subsOf, subsOf']
  | cons i r ih =>
    cases i with
    | kv k v p =>
      rw [itemVals, subsOf]
      simp only [subsOf', List.filterMap_cons]
      exact ih
    | sect ty nm its =>
      rw [itemVals, subsOf]
      simp only [subsOf', List.filterMap_cons]
      rw [ih]; rfl

theorem subsOf'_append (conv : Conv) (s : Schema) (a b : List Item) :
    subsOf' conv s (a ++ b) = subsOf' conv s a ++ subsOf' conv s b := by
  unfold subsOf'; rw [List.filterMap_append]

theorem keyLines_append (conv : Conv) (t : SType) (a b : List Item) :
    keyLines conv t (a ++ b) = keyLines conv t a ++ keyLines conv t b := by
  unfold keyLines; rw [List.filterMap_append]

theorem subsOf'_kv (conv : Conv) (s : Schema) (k v : Str) (p : Pos) (r : List Item) :
    subsOf' conv s (.kv k v p :: r) = subsOf' conv s r := by
  simp only [subsOf', List.filterMap_cons]

theorem subsOf'_sect (conv : Conv) (s : Schema) (ty : Str) (nm : Option Str) (its r : List Item) :
    subsOf' conv s (.sect ty nm its :: r) =
      { ty := ty, nm := nm, val := itemVal conv s (.sect ty nm its) } :: subsOf' conv s r := by
  simp only [subsOf', List.filterMap_cons]

/-- the container value as a function of `keyLines` and `subsOf'` -/
theorem containerVal_eq_core' (conv : Conv) (s : Schema) (t : SType) (nm : Option Str) (items : List Item) :
    containerVal conv s t nm items (itemVals conv s items) =
      containerCore conv s t nm (keyLines conv t items) (subsOf' conv s items) := by
  rw [containerVal_eq_core, subsOf_itemVals]

/-! ### two adjacent key lines going to different attributes -/

/-- the attribute a key line ends up in: its key normalised by the container's key type, then routed
    (`none`: the key type rejects the key, or no declared key and no `+` key takes it) -/
def target (conv : Conv) (t : SType) (k : Str) : Option Str :=
  match (conv.key t.keytype k).toOption with
  | some rk => (route t.children rk).map (·.2.attr)
  | none => none

/-- the routing target of an already normalised key-line entry -/
def targetE (t : SType) (e : Option Str × VI) : Option Str :=
  match e.1 with
  | some rk => (route t.children rk).map (·.2.attr)
  | none => none

theorem routed_swap (t : SType) (c : Option Str × Info) (KA KB : List (Option Str × VI)) (a b : Option Str × VI)
    (h : targetE t a ≠ targetE t b) :
    routed t.children c (KA ++ a :: b :: KB) = routed t.children c (KA ++ b :: a :: KB) := by
  unfold routed
  rw [List.filterMap_append, List.filterMap_append]
  congr 1
  -- not both entries are routed to `c`
  let f : Option Str × VI → Option (Str × VI) := fun x =>
    match x.1 with
    | some rk => (match route t.children rk with
                  | some c' => if c'.2.attr == c.2.attr then some (rk, x.2) else none
                  | none => none)
    | none => none
  have hf : ∀ x, f x ≠ none → targetE t x = some c.2.attr := by
    intro x hx
    obtain ⟨rk?, vi⟩ := x
    cases rk? with
    | none => exact absurd rfl hx
    | some rk =>
      simp only [f] at hx
      simp only [targetE]
      cases hr : route t.children rk with
      | none => rw [hr] at hx; exact absurd rfl hx
      | some c' =>
        rw [hr] at hx
        simp only at hx
        by_cases hc : (c'.2.attr == c.2.attr) = true
        · simp only [Option.map_some]
          rw [beq_iff_eq.mp hc]
        · simp only [hc, Bool.false_eq_true, ↓reduceIte] at hx
          exact absurd rfl hx
  show List.filterMap f (a :: b :: KB) = List.filterMap f (b :: a :: KB)
  by_cases ha : f a = none
  · simp only [List.filterMap_cons, ha]
  · by_cases hb : f b = none
    · simp only [List.filterMap_cons, hb]
    · exact absurd ((hf a ha).trans (hf b hb).symm) h

theorem childVal_routed (conv : Conv) (s : Schema) (t : SType) (kl kl' : List (Option Str × VI)) (subs : List Sub)
    (c : Option Str × Info) (h : routed t.children c kl = routed t.children c kl') :
    childVal conv s t kl subs c = childVal conv s t kl' subs c := by
  unfold childVal
  rw [h]

theorem containerCore_swap (conv : Conv) (s : Schema) (t : SType) (nm : Option Str)
    (KA KB : List (Option Str × VI)) (a b : Option Str × VI) (subs : List Sub)
    (h : targetE t a ≠ targetE t b) :
    containerCore conv s t nm (KA ++ a :: b :: KB) subs = containerCore conv s t nm (KA ++ b :: a :: KB) subs := by
  have hch : ∀ c, childVal conv s t (KA ++ a :: b :: KB) subs c = childVal conv s t (KA ++ b :: a :: KB) subs c :=
    fun c => childVal_routed conv s t _ _ subs c (routed_swap t c KA KB a b h)
  have hall : ∀ P : Option Str × VI → Bool, (KA ++ a :: b :: KB).all P = (KA ++ b :: a :: KB).all P := by
    intro P
    simp only [List.all_append, List.all_cons]
    cases P a <;> cases P b <;> rfl
  unfold containerCore
  simp only [hch]
  rw [hall]

/-! ### adjacent swaps -/

/-- two neighbouring lines of one container that may change places: key lines going to DIFFERENT attributes (in
    particular: differently named declared keys), or a key line and a sub-section.  Two sub-sections may not (their
    order is the order of a multisection's values), nor two lines of the same key (ditto for a multikey). -/
def Indep (conv : Conv) (t : SType) : Item → Item → Prop
  | .kv k1 _ _, .kv k2 _ _ => target conv t k1 ≠ target conv t k2
  | .kv _ _ _, .sect _ _ _ => True
  | .sect _ _ _, .kv _ _ _ => True
  | .sect _ _ _, .sect _ _ _ => False

theorem containerVal_swap (conv : Conv) (s : Schema) (t : SType) (nm : Option Str) (A B : List Item) (x y : Item)
    (h : Indep conv t x y) :
    containerVal conv s t nm (A ++ x :: y :: B) (itemVals conv s (A ++ x :: y :: B)) =
      containerVal conv s t nm (A ++ y :: x :: B) (itemVals conv s (A ++ y :: x :: B)) := by
  rw [containerVal_eq_core', containerVal_eq_core']
  cases x with
  | kv k1 v1 p1 =>
    cases y with
    | kv k2 v2 p2 =>
      have hs : subsOf' conv s (A ++ .kv k1 v1 p1 :: .kv k2 v2 p2 :: B) = subsOf' conv s (A ++ .kv k2 v2 p2 :: .kv k1 v1 p1 :: B) := by
        simp only [subsOf'_append, subsOf'_kv]
      rw [hs]
      simp only [keyLines_append, keyLines_kv]
      exact containerCore_swap conv s t nm _ _ _ _ _ h
    | sect ty nm' its =>
      have hs : subsOf' conv s (A ++ .kv k1 v1 p1 :: .sect ty nm' its :: B) = subsOf' conv s (A ++ .sect ty nm' its :: .kv k1 v1 p1 :: B) := by
        simp only [subsOf'_append, subsOf'_kv, subsOf'_sect]
      have hk : keyLines conv t (A ++ .kv k1 v1 p1 :: .sect ty nm' its :: B) = keyLines conv t (A ++ .sect ty nm' its :: .kv k1 v1 p1 :: B) := by
        simp only [keyLines_append, keyLines_kv, keyLines_sect]
      rw [hs, hk]
  | sect ty nm' its =>
    cases y with
    | kv k2 v2 p2 =>
      have hs : subsOf' conv s (A ++ .sect ty nm' its :: .kv k2 v2 p2 :: B) = subsOf' conv s (A ++ .kv k2 v2 p2 :: .sect ty nm' its :: B) := by
        simp only [subsOf'_append, subsOf'_kv, subsOf'_sect]
      have hk : keyLines conv t (A ++ .sect ty nm' its :: .kv k2 v2 p2 :: B) = keyLines conv t (A ++ .kv k2 v2 p2 :: .sect ty nm' its :: B) := by
        simp only [keyLines_append, keyLines_kv, keyLines_sect]
      rw [hs, hk]
    | sect ty2 nm2 its2 => exact absurd h (by simp [Indep])

/-- one adjacent swap somewhere in the tree: at this level, or inside a sub-section (whose items are read against
    the sub-section's own type) -/
inductive SwapIn (conv : Conv) (s : Schema) : SType → List Item → List Item → Prop
  | here {t : SType} (A B : List Item) (x y : Item) : Indep conv t x y →
      SwapIn conv s t (A ++ x :: y :: B) (A ++ y :: x :: B)
  | inside {t t' : SType} (A B : List Item) (ty : Str) (nm : Option Str) (items items' : List Item) :
      s.gettype ty = some (.concrete t') → SwapIn conv s t' items items' →
      SwapIn conv s t (A ++ .sect ty nm items :: B) (A ++ .sect ty nm items' :: B)

theorem itemVal_sect_congr (conv : Conv) (s : Schema) (ty : Str) (nm : Option Str) (items items' : List Item) (t' : SType)
    (hty : s.gettype ty = some (.concrete t'))
    (h : containerVal conv s t' nm items (itemVals conv s items) = containerVal conv s t' nm items' (itemVals conv s items')) :
    itemVal conv s (.sect ty nm items) = itemVal conv s (.sect ty nm items') := by
  rw [itemVal, itemVal]
  simp only [hty, h]

theorem containerVal_swapIn (conv : Conv) (s : Schema) {t : SType} {items items' : List Item}
    (h : SwapIn conv s t items items') :
    ∀ nm, containerVal conv s t nm items (itemVals conv s items) = containerVal conv s t nm items' (itemVals conv s items') := by
  induction h with
  | here A B x y hi => intro nm; exact containerVal_swap conv s _ nm A B x y hi
  | @inside t t' A B ty nm' its its' hty _ ih =>
    intro nm
    rw [containerVal_eq_core', containerVal_eq_core']
    have hv := itemVal_sect_congr conv s ty nm' its its' t' hty (ih nm')
    have hs : subsOf' conv s (A ++ .sect ty nm' its :: B) = subsOf' conv s (A ++ .sect ty nm' its' :: B) := by
      simp only [subsOf'_append, subsOf'_sect, hv]
    have hk : keyLines conv t (A ++ .sect ty nm' its :: B) = keyLines conv t (A ++ .sect ty nm' its' :: B) := by
      simp only [keyLines_append, keyLines_sect]
    rw [hs, hk]

theorem denote_swapIn (conv : Conv) (s : Schema) {items items' : List Item} (h : SwapIn conv s s.top items items') :
    denote conv s items = denote conv s items' := by
  unfold denote
  rw [containerVal_swapIn conv s h none]

/-- any number of such swaps, one after the other -/
inductive Reorder (conv : Conv) (s : Schema) : List Item → List Item → Prop
  | refl (items : List Item) : Reorder conv s items items
  | step {a b c : List Item} : Reorder conv s a b → SwapIn conv s s.top b c → Reorder conv s a c

theorem denote_reorder (conv : Conv) (s : Schema) {items items' : List Item} (h : Reorder conv s items items') :
    denote conv s items = denote conv s items' := by
  induction h with
  | refl => rfl
  | step _ hs ih => rw [ih, denote_swapIn conv s hs]

/-! ### the loader -/

theorem tyCanon_swap2 (s : Schema) (A B : List Item) (x y : Item) :
    tyCanon s (A ++ x :: y :: B) = tyCanon s (A ++ y :: x :: B) := by
  rw [tyCanon_append, tyCanon_append, tyCanon_cons s x, tyCanon_cons s y B, tyCanon_cons s y (x :: B), tyCanon_cons s x B]
  cases tyCanon s [x] <;> cases tyCanon s [y] <;> cases tyCanon s A <;> cases tyCanon s B <;> rfl

theorem tyCanon_swapIn (conv : Conv) (s : Schema) {t : SType} {items items' : List Item}
    (h : SwapIn conv s t items items') : tyCanon s items = tyCanon s items' := by
  induction h with
  | here A B x y _ => exact tyCanon_swap2 s A B x y
  | inside A B ty nm its its' _ _ ih =>
    rw [tyCanon_append, tyCanon_append, tyCanon_sect, tyCanon_sect, ih]

theorem tyCanon_reorder (conv : Conv) (s : Schema) {items items' : List Item}
    (h : Reorder conv s items items') : tyCanon s items = tyCanon s items' := by
  induction h with
  | refl => rfl
  | step _ hs ih => rw [ih, tyCanon_swapIn conv s hs]

theorem loadTree_reorder (conv : Conv) (s : Schema) {items items' : List Item}
    (hs : schemaOK s = true) (ht : tyCanon s items = true) (h : Reorder conv s items items') :
    (loadTree conv s items).toOption = (loadTree conv s items').toOption := by
  rw [loadTree_eq_denote conv s items hs ht,
    loadTree_eq_denote conv s items' hs (by rw [← tyCanon_reorder conv s h]; exact ht), denote_reorder conv s h]

/-! ### respelling a key -/

/-- one key line, somewhere in the tree, gets a key that the container's key type normalises to the same thing
    (e.g. another letter case under `basic-key`) -/
inductive RekeyIn (conv : Conv) (s : Schema) : SType → List Item → List Item → Prop
  | here {t : SType} (A B : List Item) (k k' v : Str) (p : Pos) :
      (conv.key t.keytype k').toOption = (conv.key t.keytype k).toOption →
      RekeyIn conv s t (A ++ .kv k v p :: B) (A ++ .kv k' v p :: B)
  | inside {t t' : SType} (A B : List Item) (ty : Str) (nm : Option Str) (items items' : List Item) :
      s.gettype ty = some (.concrete t') → RekeyIn conv s t' items items' →
      RekeyIn conv s t (A ++ .sect ty nm items :: B) (A ++ .sect ty nm items' :: B)

theorem containerVal_rekeyIn (conv : Conv) (s : Schema) {t : SType} {items items' : List Item}
    (h : RekeyIn conv s t items items') :
    ∀ nm, containerVal conv s t nm items (itemVals conv s items) = containerVal conv s t nm items' (itemVals conv s items') := by
  induction h with
  | @here t A B k k' v p hk =>
    intro nm
    rw [containerVal_eq_core', containerVal_eq_core']
    have hs : subsOf' conv s (A ++ .kv k v p :: B) = subsOf' conv s (A ++ .kv k' v p :: B) := by
      simp only [subsOf'_append, subsOf'_kv]
    have hkl : keyLines conv t (A ++ .kv k v p :: B) = keyLines conv t (A ++ .kv k' v p :: B) := by
      simp only [keyLines_append, keyLines_kv, hk]
    rw [hs, hkl]
  | @inside t t' A B ty nm' its its' hty _ ih =>
    intro nm
    rw [containerVal_eq_core', containerVal_eq_core']
    have hv := itemVal_sect_congr conv s ty nm' its its' t' hty (ih nm')
    have hs : subsOf' conv s (A ++ .sect ty nm' its :: B) = subsOf' conv s (A ++ .sect ty nm' its' :: B) := by
      simp only [subsOf'_append, subsOf'_sect, hv]
    have hk : keyLines conv t (A ++ .sect ty nm' its :: B) = keyLines conv t (A ++ .sect ty nm' its' :: B) := by
      simp only [keyLines_append, keyLines_sect]
    rw [hs, hk]

theorem denote_rekeyIn (conv : Conv) (s : Schema) {items items' : List Item} (h : RekeyIn conv s s.top items items') :
    denote conv s items = denote conv s items' := by
  unfold denote
  rw [containerVal_rekeyIn conv s h none]

end ZCV.Conf
