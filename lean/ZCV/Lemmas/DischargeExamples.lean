import ZCV.Lemmas.SlotsEx
import ZCV.Lemmas.DischargeExDoc
import ZCV.Lemmas.TextLoad
import ZCV.Spec.Conforms
/-!
Closed instances used by the `example`s next to the end-to-end theorems (C01, C02, C14, C15, C16): an accepted schema
document (the one of `ZCV/Lemmas/ElabInv.lean`, which extends a base schema and imports a component, read with the
stock key types), an import-free configuration text, and a resource table without includable resources.
-/
namespace ZCV.DischargeEx
open ZCV ZCV.Cfg ZCV.Conf

/-- a comment, a key line, a section -/
def lines : List Str := ["# c".toList, "k v".toList, "<leak x>".toList, "</leak>".toList]

theorem dis_ex_lines_noImport : ∀ l ∈ lines, NoImportLine l := by
  intro l hl a
  simp only [lines, List.mem_cons, List.mem_nil_iff, or_false] at hl
  rcases hl with rfl | rfl | rfl | rfl
  · rw [shape_of_classify "# c".toList (by decide) .skip (by simp) (by decide)]; simp
  · rw [shape_of_classify "k v".toList (by decide) (.kv "k".toList "v".toList) (by simp) (by decide)]; simp
  · rw [shape_of_classify "<leak x>".toList (by decide) (.open_ "leak".toList (some "x".toList) false) (by simp) (by decide)]
    simp
  · rw [shape_of_classify "</leak>".toList (by decide) (.close "leak".toList) (by simp) (by decide)]; simp

theorem dis_ex_res : ∀ u ls, Ex.env.res u = some ls → ∀ l ∈ ls, NoImportLine l := by
  intro u ls h; cases h

/-- the one-line text `# c` denotes the empty tree -/
theorem dis_ex_comment_tree : treeOf Ex.env none ["# c".toList] = .ok [] := by
  have hs : lineShape (strip "# c".toList) = .skip := shape_of_classify _ (by decide) .skip (by simp) (by decide)
  rw [treeOf_eq, parseLines, stepLine]
  simp only [hs, bind, Except.bind]
  rw [parseLines]
  simp only [bne_self_eq_false, Bool.false_eq_true, if_false]
  rfl

theorem dis_ex_comment_noImport : ∀ l ∈ ["# c".toList], NoImportLine l := by
  intro l hl a
  simp only [List.mem_cons, List.mem_nil_iff, or_false] at hl
  subst hl
  rw [shape_of_classify "# c".toList (by decide) .skip (by simp) (by decide)]; simp

/-- the empty tree conforms to a schema that declares nothing at top level (datatypes that accept everything) -/
theorem dis_ex_conforms_nil (S : Schema) (h : S.top.children = []) : Conf.conforms Ex.conv S [] = true := by
  simp [Conf.conforms, Conf.denote, Conf.containerVal, h, Ex.conv, Conf.keyLines, Conf.subsOf, Conf.nodupB]

end ZCV.DischargeEx
