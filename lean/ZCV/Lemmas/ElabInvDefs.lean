import ZCV.Model.Elab
import ZCV.Model.TreeLoad
import ZCV.Lemmas.Datatypes
/-!
The invariant of the schema loader state (`ES`) behind `elab_schemaOK`: what `Conf.stypeOK` says of the top type and of
every concrete entry of the type table after `toSchema`, stated on the E-level objects, plus generic list lemmas.
-/
namespace ZCV.Elab
open ZCV ZCV.Cfg

/-! ### generic -/

theorem foldlM_inv {ε α β} (P : β → Prop) (f : β → α → Except ε β)
    (hf : ∀ b a b', P b → f b a = .ok b' → P b') :
    ∀ (l : List α) (b b' : β), P b → l.foldlM f b = .ok b' → P b' := by
  intro l
  induction l with
  | nil => intro b b' hb h; simp only [List.foldlM_nil, pure, Except.pure, Except.ok.injEq] at h; subst h; exact hb
  | cons a l ih =>
    intro b b' hb h
    rw [List.foldlM_cons] at h
    cases hfa : f b a with
    | error e => simp [hfa, bind, Except.bind] at h
    | ok b1 =>
      simp only [hfa, bind, Except.bind] at h
      exact ih b1 b' (hf b a b1 hb hfa) h

theorem mapM_ok_cons' {ε α β} (f : α → Except ε β) (a : α) (l : List α) (r : List β)
    (h : (a :: l).mapM f = .ok r) : ∃ b bs, f a = .ok b ∧ l.mapM f = .ok bs ∧ r = b :: bs := by
  rw [List.mapM_cons] at h
  cases hfa : f a with
  | error e => simp [hfa, bind, Except.bind] at h
  | ok b =>
    cases hl : l.mapM f with
    | error e => simp [hfa, hl, bind, Except.bind] at h
    | ok bs =>
      simp [hfa, hl, bind, Except.bind, pure, Except.pure] at h
      exact ⟨b, bs, rfl, rfl, h.symm⟩

theorem mapM_ok_mem {ε α β} (f : α → Except ε β) :
    ∀ (l : List α) (r : List β), l.mapM f = .ok r → ∀ b ∈ r, ∃ a ∈ l, f a = .ok b := by
  intro l
  induction l with
  | nil => intro r h; simp [pure, Except.pure] at h; subst h; intro b hb; cases hb
  | cons a l ih =>
    intro r h
    obtain ⟨b, bs, h1, h2, h3⟩ := mapM_ok_cons' f a l r h
    subst h3
    intro b' hb'
    rcases List.mem_cons.mp hb' with rfl | hb'
    · exact ⟨a, List.mem_cons_self, h1⟩
    · obtain ⟨a', ha', hf⟩ := ih bs h2 b' hb'
      exact ⟨a', List.mem_cons_of_mem _ ha', hf⟩

theorem mapM_ok_map' {ε α β γ} (f : α → Except ε β) (p : β → γ) (g : α → γ)
    (hf : ∀ a b, f a = .ok b → p b = g a) :
    ∀ (l : List α) (r : List β), l.mapM f = .ok r → r.map p = l.map g := by
  intro l
  induction l with
  | nil => intro r h; simp [pure, Except.pure] at h; subst h; rfl
  | cons a l ih =>
    intro r h
    obtain ⟨b, bs, h1, h2, h3⟩ := mapM_ok_cons' f a l r h
    subst h3
    simp [hf a b h1, ih bs h2]

theorem nodupB_iff' (l : List Str) : Conf.nodupB l = true ↔ l.Nodup := by
  induction l with
  | nil => simp [Conf.nodupB]
  | cons a t ih => simp [Conf.nodupB, ih]

/-! ### the invariant -/

/-- the default of a `name="+"` key is a mapping of the right kind -/
def plusShape (multi : Bool) : Default → Prop
  | .keyed _ => multi = false
  | .keyedMany _ => multi = true
  | _ => False

/-- what `stypeOK` asks of a key (and, for `+` keys, of the raw defaults `computedefault` starts from) -/
def KeyShape (k : EKey) : Prop :=
  k.name ≠ [] ∧
  (if k.name = ['+'] then plusShape k.multi k.dflt ∧ (∀ r, k.raw = some r → plusShape k.multi r)
   else if k.multi = true then (∃ l, k.dflt = .many l)
   else (k.dflt = .none ∨ ∃ v, k.dflt = .one v ∧ k.minOccurs = 0))

/-- is `x` a key of the type table? -/
def knownIn (tys : List (Str × EEntry)) (x : Str) : Bool := tys.any (·.1 == x)

def ChildOK (tys : List (Str × EEntry)) (c : Option Str × EInfo) : Prop :=
  match c.2 with
  | .key k => c.1 = some k.name ∧ KeyShape k
  | .sect si =>
    (if si.name = ['*'] ∨ si.name = ['+'] then c.1 = none else c.1 = some si.name ∧ si.name ≠ []) ∧
    (si.multi = true → si.name = ['*'] ∨ si.name = ['+']) ∧
    knownIn tys (lower si.ty) = true

structure ChildrenOK (tys : List (Str × EEntry)) (ch : List (Option Str × EInfo)) : Prop where
  attrs : (ch.map (·.2.attr)).Nodup
  keys : (ch.filterMap (·.1)).Nodup
  child : ∀ c ∈ ch, ChildOK tys c

def EntryOK (tys : List (Str × EEntry)) (n : Str) : EEntry → Prop
  | .concrete t => t.name = some n ∧ ChildrenOK tys t.children
  | .abstract_ n' _ _ => n' = n

structure ESInv (es : ES) : Prop where
  topName : es.top.name = none
  top : ChildrenOK es.types es.top.children
  keys : (es.types.map (·.1)).Nodup
  entries : ∀ p ∈ es.types, EntryOK es.types p.1 p.2

/-! ### monotonicity in the type table -/

theorem ChildOK.mono {tys tys' : List (Str × EEntry)} (hm : ∀ x, knownIn tys x = true → knownIn tys' x = true)
    {c : Option Str × EInfo} (h : ChildOK tys c) : ChildOK tys' c := by
  unfold ChildOK at h ⊢
  split
  · rename_i k hk; simp only [hk] at h; exact h
  · rename_i si hs; simp only [hs] at h; exact ⟨h.1, h.2.1, hm _ h.2.2⟩

theorem ChildrenOK.mono {tys tys' : List (Str × EEntry)} (hm : ∀ x, knownIn tys x = true → knownIn tys' x = true)
    {ch : List (Option Str × EInfo)} (h : ChildrenOK tys ch) : ChildrenOK tys' ch :=
  ⟨h.attrs, h.keys, fun c hc => (h.child c hc).mono hm⟩

theorem EntryOK.mono {tys tys' : List (Str × EEntry)} (hm : ∀ x, knownIn tys x = true → knownIn tys' x = true)
    {n : Str} {e : EEntry} (h : EntryOK tys n e) : EntryOK tys' n e := by
  cases e with
  | concrete t => exact ⟨h.1, h.2.mono hm⟩
  | abstract_ n' s d => exact h

theorem ChildrenOK.nil (tys : List (Str × EEntry)) : ChildrenOK tys [] :=
  ⟨by simp, by simp, by intro c hc; cases hc⟩

theorem knownIn_map (tys : List (Str × EEntry)) (g : Str × EEntry → Str × EEntry) (hk : ∀ p, (g p).1 = p.1) (x : Str) :
    knownIn (tys.map g) x = knownIn tys x := by
  unfold knownIn
  rw [List.any_map]
  congr 1
  funext p
  simp only [Function.comp, hk]

theorem knownIn_append (tys tys2 : List (Str × EEntry)) (x : Str) :
    knownIn (tys ++ tys2) x = (knownIn tys x || knownIn tys2 x) := by
  unfold knownIn; rw [List.any_append]

/-- a key-preserving rewrite of the entries that keeps each entry well-formed keeps the invariant -/
theorem ESInv.map {es : ES} (hinv : ESInv es) (g : Str × EEntry → Str × EEntry) (hk : ∀ p, (g p).1 = p.1)
    (he : ∀ p ∈ es.types, EntryOK es.types p.1 p.2 → EntryOK es.types p.1 (g p).2) :
    ESInv { es with types := es.types.map g } := by
  have hm : ∀ x, knownIn es.types x = true → knownIn (es.types.map g) x = true := by
    intro x hx; rw [knownIn_map _ _ hk]; exact hx
  refine ⟨hinv.topName, hinv.top.mono hm, ?_, ?_⟩
  · show ((es.types.map g).map (·.1)).Nodup
    rw [List.map_map]
    have : ((fun x : Str × EEntry => x.1) ∘ g) = (fun x => x.1) := by funext p; exact hk p
    rw [this]; exact hinv.keys
  · intro q hq
    simp only [List.mem_map] at hq
    obtain ⟨p, hp, rfl⟩ := hq
    rw [hk p]
    exact (he p hp (hinv.entries p hp)).mono hm

/-- changing only fields of the top type that the invariant does not mention -/
theorem ESInv.top_congr {es : ES} (hinv : ESInv es) (t : EType) (hn : t.name = es.top.name) (hc : t.children = es.top.children) :
    ESInv { es with top := t } :=
  ⟨by show t.name = none; rw [hn]; exact hinv.topName, by show ChildrenOK es.types t.children; rw [hc]; exact hinv.top,
   hinv.keys, hinv.entries⟩

theorem ESInv.set_top_children {es : ES} (hinv : ESInv es) (ch : List (Option Str × EInfo)) (hc : ChildrenOK es.types ch) :
    ESInv { es with top := { es.top with children := ch } } :=
  ⟨hinv.topName, hc, hinv.keys, hinv.entries⟩

theorem ESInv.emptyES : ESInv emptyES :=
  ⟨rfl, ChildrenOK.nil _, by simp [Elab.emptyES], by intro p hp; simp [Elab.emptyES] at hp⟩

/-- an entry found by key is a member, with that key -/
theorem find_key_mem {tys : List (Str × EEntry)} {n : Str} {p : Str × EEntry}
    (h : tys.find? (·.1 == n) = some p) : p ∈ tys ∧ p.1 = n := by
  have h1 := List.mem_of_find?_eq_some h
  have h2 := List.find?_some h
  exact ⟨h1, by simpa using h2⟩

/-- with distinct keys, the entry found by key is the only one with that key -/
theorem find_key_unique {tys : List (Str × EEntry)} (hn : (tys.map (·.1)).Nodup) {n : Str} {p q : Str × EEntry}
    (h : tys.find? (·.1 == n) = some p) (hq : q ∈ tys) (hqn : q.1 = n) : q = p := by
  induction tys with
  | nil => cases hq
  | cons a t ih =>
    simp only [List.map_cons, List.nodup_cons, List.mem_map, not_exists, not_and] at hn
    rw [List.find?_cons] at h
    by_cases ha : a.1 = n
    · simp only [ha, beq_self_eq_true, Option.some.injEq] at h
      subst h
      rcases List.mem_cons.mp hq with rfl | hq'
      · rfl
      · exact absurd (hqn.trans ha.symm) (hn.1 q hq')
    · have : (a.1 == n) = false := by simpa using ha
      simp only [this] at h
      rcases List.mem_cons.mp hq with rfl | hq'
      · exact absurd hqn ha
      · exact ih hn.2 h hq'

theorem knownIn_of_mem {tys : List (Str × EEntry)} {p : Str × EEntry} (h : p ∈ tys) : knownIn tys p.1 = true := by
  unfold knownIn
  rw [List.any_eq_true]
  exact ⟨p, h, by simp⟩

/-! ### the type table only grows -/

/-- the keys of the type table of `a` are an initial segment of those of `b`: types are never removed or renamed -/
def Grows (a b : ES) : Prop := a.types.map (·.1) <+: b.types.map (·.1)

theorem Grows.refl (a : ES) : Grows a a := List.prefix_refl _
theorem Grows.trans {a b c : ES} (h1 : Grows a b) (h2 : Grows b c) : Grows a c := List.IsPrefix.trans h1 h2
theorem Grows.of_keys_eq {a b : ES} (h : b.types.map (·.1) = a.types.map (·.1)) : Grows a b := by
  unfold Grows; rw [h]; exact List.prefix_refl _
theorem Grows.of_types_eq {a b : ES} (h : b.types = a.types) : Grows a b := Grows.of_keys_eq (by rw [h])

theorem Grows.of_nil {a b : ES} (h : a.types = []) : Grows a b := by
  unfold Grows; rw [h]; exact List.nil_prefix

theorem Grows.map (es : ES) (g : Str × EEntry → Str × EEntry) (hk : ∀ p, (g p).1 = p.1) :
    Grows es { es with types := es.types.map g } := by
  apply Grows.of_keys_eq
  show (es.types.map g).map (·.1) = es.types.map (·.1)
  rw [List.map_map]
  congr 1
  funext p
  exact hk p

theorem Grows.updType (es : ES) (n : Str) (f : EType → EType) : Grows es (es.updType n f) := by
  unfold ES.updType
  refine Grows.map es _ ?_
  intro ⟨k, e⟩; dsimp only; split <;> rfl

theorem Grows.known {a b : ES} (h : Grows a b) {x : Str} (hx : knownIn a.types x = true) : knownIn b.types x = true := by
  obtain ⟨more, hm⟩ := h
  unfold knownIn at hx ⊢
  rw [List.any_eq_true] at hx ⊢
  obtain ⟨p, hp, hpx⟩ := hx
  have : p.1 ∈ b.types.map (·.1) := by
    rw [← hm]; exact List.mem_append_left _ (List.mem_map.mpr ⟨p, hp, rfl⟩)
  obtain ⟨q, hq, hqp⟩ := List.mem_map.mp this
  exact ⟨q, hq, by rw [hqp]; exact hpx⟩

end ZCV.Elab
