import ZCV.Lemmas.Resources2State
/-!
Lemmas about `ZCV/Model/Resources2.lean`, part 3 (after the repair of `importSchemaComponent`): which component marks a load
leaves; what a successful load adds.
-/
namespace ZCV.Res2
open ZCV.Res (Pt)

theorem mem_dictSet_self (l : List Nat) (x : Nat) : x ∈ dictSet l x := by
  unfold dictSet; split
  · rename_i h; exact List.contains_iff_mem.mp h
  · simp

theorem mem_dictSet {l : List Nat} {x y : Nat} (h : y ∈ dictSet l x) : y ∈ l ∨ y = x := by
  unfold dictSet at h; split at h
  · exact Or.inl h
  · simpa using h

/-! ## a failing `%import` leaves the marks as they were -/

/-- the `try … except BaseException: self.schema = saved; raise` of `importSchemaComponent`, whatever the nested calls do -/
theorem cfgLine_imp_failed (rec : Rec) (c : Nat) (st : LState) (h : (cfgLine rec (.imp c) st).ok = false) :
    (cfgLine rec (.imp c) st).st.comps = st.comps := by
  simp only [cfgLine] at h ⊢
  split
  · rfl
  · rename_i hc
    simp only [hc, Bool.false_eq_true, if_false] at h
    split
    · rename_i hok; simp [hok] at h
    · rfl

/-! ## every mark that is left belongs to a component whose load returned -/

section marks
variable (f : Pt → Bool) (docs : List (Nat × Doc))

/-- the component `c` was loaded to the end (under this fault oracle, at some nesting depth, from some loader state) -/
def Good (c : Nat) : Prop := ∃ n st0, (runRes f docs n .comp c st0).ok = true

/-- every mark in `b` was in `a` or belongs to a completely loaded component -/
def J (a b : List Nat) : Prop := ∀ c ∈ b, c ∈ a ∨ Good f docs c

theorem J.refl (a : List Nat) : J f docs a a := fun _ h => Or.inl h
theorem J.trans {a b c : List Nat} (h1 : J f docs a b) (h2 : J f docs b c) : J f docs a c := by
  intro x hx
  rcases h2 x hx with h | h
  · exact h1 x h
  · exact Or.inr h
theorem J.mark {a : List Nat} {c : Nat} (hc : Good f docs c) : J f docs a (dictSet a c) := by
  intro x hx
  rcases mem_dictSet hx with h | h
  · exact Or.inl h
  · exact Or.inr (h ▸ hc)

/-- on return -/
def JOk (g : LState → Out) : Prop := ∀ st, (g st).ok = true → J f docs st.comps (g st).st.comps
/-- on return and on exception -/
def JAll (g : LState → Out) : Prop := ∀ st, J f docs st.comps (g st).st.comps

theorem JAll.jok {g : LState → Out} (h : JAll f docs g) : JOk f docs g := fun st _ => h st

theorem withResource_jok (o : Opener) (r : Nat) (ex : Bool) (body : LState → Out) (hb : JOk f docs body) :
    JOk f docs (withResource f o r ex body) := by
  intro st
  unfold withResource
  cases o with
  | url =>
    simp only
    split
    · exact fun _ => J.refl f docs _
    · split
      · exact fun _ => J.refl f docs _
      · split
        · exact fun _ => J.refl f docs _
        · exact hb st
  | pkg =>
    simp only
    split
    · exact fun _ => J.refl f docs _
    · exact hb st
  | file => exact hb st

theorem withResource_jall (o : Opener) (r : Nat) (ex : Bool) (body : LState → Out) (hb : JAll f docs body) :
    JAll f docs (withResource f o r ex body) := by
  intro st
  unfold withResource
  cases o with
  | url =>
    simp only
    split
    · exact J.refl f docs _
    · split
      · exact J.refl f docs _
      · split
        · exact J.refl f docs _
        · exact hb st
  | pkg =>
    simp only
    split
    · exact J.refl f docs _
    · exact hb st
  | file => exact hb st

theorem stepLoop_jok {α : Type} (r : Nat) (act : α → LState → Out) (ha : ∀ s, JOk f docs (act s)) :
    ∀ (steps : List α) (k : Nat), JOk f docs (stepLoop f r act k steps)
  | [], k => fun st _ => by simp only [stepLoop]; exact J.refl f docs _
  | s :: rest, k => fun st => by
    simp only [stepLoop]
    split
    · exact fun _ => J.refl f docs _
    · split
      · rename_i hok
        intro h
        exact (ha s st hok).trans f docs (stepLoop_jok r act ha rest (k + 1) _ h)
      · intro h; simp at h

theorem stepLoop_jall {α : Type} (r : Nat) (act : α → LState → Out) (ha : ∀ s, JAll f docs (act s)) :
    ∀ (steps : List α) (k : Nat), JAll f docs (stepLoop f r act k steps)
  | [], k => fun st => by simp only [stepLoop]; exact J.refl f docs _
  | s :: rest, k => fun st => by
    simp only [stepLoop]
    split
    · exact J.refl f docs _
    · split
      · exact (ha s st).trans f docs (stepLoop_jall r act ha rest (k + 1) _)
      · exact ha s st

/-- what the induction over the nesting depth provides about the recursive call -/
structure RecJ (rec : Rec) : Prop where
  ok : ∀ m c, JOk f docs (rec m c)
  incl : ∀ c, JAll f docs (rec .incl c)
  load : ∀ b c, JAll f docs (rec (.load b) c)
  good : ∀ c st, (rec .comp c st).ok = true → Good f docs c

/-- `<import package>` inside a schema or a component: the mark is made before the component is read and is NOT taken back by
    schema.py when reading fails — on return it is justified -/
theorem schLine_jok (rec : Rec) (hr : RecJ f docs rec) (s : SStep) : JOk f docs (schLine rec s) := by
  intro st
  cases s with
  | work => exact fun _ => J.refl f docs _
  | ext b => exact hr.ok _ _ st
  | importSrc c => exact hr.ok _ _ st
  | importPkg c =>
    simp only [schLine]
    split
    · exact fun _ => J.refl f docs _
    · intro h
      exact (J.mark f docs (hr.good c _ h)).trans f docs (hr.ok .comp c _ h)

/-- a line of a configuration resource: `%import` takes its marks back when it fails -/
theorem cfgLine_jall (rec : Rec) (hr : RecJ f docs rec) (s : CStep) : JAll f docs (cfgLine rec s) := by
  intro st
  cases s with
  | work => exact J.refl f docs _
  | incl c => exact hr.incl c st
  | imp c =>
    simp only [cfgLine]
    split
    · exact J.refl f docs _
    · split
      · rename_i h
        exact (J.mark f docs (hr.good c _ h)).trans f docs (hr.ok .comp c _ h)
      · exact J.refl f docs _

theorem parseCfg_jall (rec : Rec) (hr : RecJ f docs rec) (r : Nat) (doc : Option Doc) : JAll f docs (parseCfg f rec r doc) := by
  intro st
  unfold parseCfg
  split
  · exact J.refl f docs _
  · simp only
    split
    · exact stepLoop_jall f docs r _ (cfgLine_jall f docs rec hr) _ 0 { st with active := st.active ++ [r] }
    · exact J.refl f docs _

theorem loadCfg_jall (rec : Rec) (hr : RecJ f docs rec) (r : Nat) (doc : Option Doc) : JAll f docs (loadCfg f rec r doc) := by
  intro st
  unfold loadCfg
  simp only
  split <;> exact parseCfg_jall f docs rec hr r doc st

theorem schemaBody_jok (rec : Rec) (hr : RecJ f docs rec) (r : Nat) (doc : Option Doc) : JOk f docs (schemaBody f rec r doc) := by
  intro st
  unfold schemaBody
  split
  · exact stepLoop_jok f docs r _ (schLine_jok f docs rec hr) _ _ _
  · exact fun _ => J.refl f docs _

theorem compBody_jok (rec : Rec) (hr : RecJ f docs rec) (r : Nat) (doc : Option Doc) : JOk f docs (compBody f rec r doc) := by
  intro st
  unfold compBody
  split
  · exact stepLoop_jok f docs r _ (schLine_jok f docs rec hr) _ _ _
  · exact fun _ => J.refl f docs _

theorem loadSchemaRes_jall (rec : Rec) (r : Nat) (doc : Option Doc) : JAll f docs (loadSchemaRes f rec r doc) := by
  intro st
  unfold loadSchemaRes
  split
  · exact J.refl f docs _
  · simp only
    split <;> exact J.refl f docs _

theorem runRes_recJ : ∀ (fuel : Nat), RecJ f docs (runRes f docs fuel)
  | 0 => ⟨fun _ _ _ _ => J.refl f docs _, fun _ _ => J.refl f docs _, fun _ _ _ => J.refl f docs _, fun c st h => ⟨0, st, h⟩⟩
  | fuel + 1 => by
    have ih := runRes_recJ fuel
    have hincl : ∀ c, JAll f docs (runRes f docs (fuel + 1) .incl c) :=
      fun c => withResource_jall f docs _ c _ _ (parseCfg_jall f docs _ ih c _)
    have hload : ∀ b c, JAll f docs (runRes f docs (fuel + 1) (.load b) c) :=
      fun b c => withResource_jall f docs _ c _ _ (loadSchemaRes_jall f docs _ c _)
    refine ⟨?_, hincl, hload, fun c st h => ⟨fuel + 1, st, h⟩⟩
    intro m r
    cases m with
    | top file => exact (withResource_jall f docs _ r _ _ (loadCfg_jall f docs _ ih r _)).jok
    | incl => exact (hincl r).jok
    | load file => exact (hload file r).jok
    | extend => exact withResource_jok f docs _ r _ _ (schemaBody_jok f docs _ ih r _)
    | comp => exact withResource_jok f docs _ r _ _ (compBody_jok f docs _ ih r _)

theorem runRes_top_jall (fuel : Nat) (file : Bool) (r : Nat) : JAll f docs (runRes f docs fuel (.top file) r) := by
  cases fuel with
  | zero => exact fun _ => J.refl f docs _
  | succ fuel => exact withResource_jall f docs _ r _ _ (loadCfg_jall f docs _ (runRes_recJ f docs fuel) r _)

end marks

/-- however the public call ends, every component mark it leaves was there before or belongs to a component read to the end -/
theorem run_marks_justified (faults : List Pt) (sc : Scenario) (st : LState) :
    J (fun p => faults.contains p) sc.docs st.comps (run faults sc st).st.comps := by
  unfold run
  cases h : sc.entry.mode with
  | top file => exact runRes_top_jall _ sc.docs sc.limit file _ st
  | load file => exact (runRes_recJ _ sc.docs sc.limit).load file _ st
  | incl => cases he : sc.entry <;> simp [he, Entry.mode] at h
  | extend => cases he : sc.entry <;> simp [he, Entry.mode] at h
  | comp => cases he : sc.entry <;> simp [he, Entry.mode] at h

/-! ## what a load that returns has added -/

theorem withResource_ok_true (f : Pt → Bool) (o : Opener) (r : Nat) (ex : Bool) (body : LState → Out) (st : LState)
    (h : (withResource f o r ex body st).ok = true) :
    (body st).ok = true ∧ (withResource f o r ex body st).st = (body st).st := by
  unfold withResource at h ⊢
  cases o with
  | url =>
    simp only at h ⊢
    split at h
    · simp at h
    · split at h
      · simp at h
      · split at h
        · simp at h
        · rename_i h1 h2 h3
          simp only [h1, h2, h3]
          exact ⟨h, rfl⟩
  | pkg =>
    simp only at h ⊢
    split at h
    · simp at h
    · rename_i h1
      simp only [h1]
      exact ⟨h, rfl⟩
  | file => exact ⟨h, rfl⟩

/-- a `%import c` that returns leaves `c` marked -/
theorem cfgLine_imp_marks (rec : Rec) (hr : ∀ m c, Keeps (rec m c)) (c : Nat) (st : LState)
    (h : (cfgLine rec (.imp c) st).ok = true) : c ∈ (cfgLine rec (.imp c) st).st.comps := by
  simp only [cfgLine] at h ⊢
  split
  · rename_i hc; exact List.contains_iff_mem.mp hc
  · rename_i hc
    simp only [hc, Bool.false_eq_true, if_false] at h
    split
    · exact (hr .comp c _).comps.subset (mem_dictSet_self _ _)
    · rename_i hok; simp [hok] at h

theorem stepLoop_cfg_marks (f : Pt → Bool) (rec : Rec) (hr : ∀ m c, Keeps (rec m c)) (r : Nat) (c : Nat) :
    ∀ (lines : List CStep) (k : Nat) (st : LState), (stepLoop f r (cfgLine rec) k lines st).ok = true → CStep.imp c ∈ lines →
      c ∈ (stepLoop f r (cfgLine rec) k lines st).st.comps
  | [], _, _, _, hm => by simp at hm
  | s :: rest, k, st, h, hm => by
    simp only [stepLoop] at h ⊢
    split
    · rename_i hf; simp [hf] at h
    · rename_i hf
      simp only [hf, Bool.false_eq_true, if_false] at h
      split
      · rename_i hok
        simp only [hok, if_true] at h
        rcases List.mem_cons.mp hm with he | hrest
        · subst he
          have h1 := cfgLine_imp_marks rec hr c st hok
          exact (stepLoop_keeps f r _ (cfgLine_keeps rec hr) rest (k + 1) _).comps.subset h1
        · exact stepLoop_cfg_marks f rec hr r c rest (k + 1) _ h hrest
      · rename_i hok; simp [hok] at h

theorem runRes_top_marks (f : Pt → Bool) (docs : List (Nat × Doc)) (fuel : Nat) (file : Bool) (r : Nat) (st : LState)
    (lines : List CStep) (hd : lookup docs r = some (.cfg lines)) (c : Nat) (hc : CStep.imp c ∈ lines)
    (h : (runRes f docs fuel (.top file) r st).ok = true) : c ∈ (runRes f docs fuel (.top file) r st).st.comps := by
  cases fuel with
  | zero => simp [runRes] at h
  | succ fuel =>
    simp only [runRes, hd] at h ⊢
    obtain ⟨hb, hst⟩ := withResource_ok_true f _ r _ _ st h
    rw [hst]
    simp only [loadCfg] at hb ⊢
    split
    · rename_i hp
      simp only [parseCfg] at hp ⊢
      split
      · rename_i ha; simp [List.contains_iff_mem.mp ha] at hp
      · rename_i ha
        simp only [ha, Bool.false_eq_true, if_false] at hp
        exact stepLoop_cfg_marks f _ (runRes_keeps f docs fuel) r c lines 0 _ hp hc
    · rename_i hp; simp [hp] at hb

theorem runRes_load_cached (f : Pt → Bool) (docs : List (Nat × Doc)) (fuel : Nat) (file : Bool) (r : Nat) (st : LState)
    (h : (runRes f docs fuel (.load file) r st).ok = true) : r ∈ (runRes f docs fuel (.load file) r st).st.cache := by
  cases fuel with
  | zero => simp [runRes] at h
  | succ fuel =>
    simp only [runRes] at h ⊢
    obtain ⟨hb, hst⟩ := withResource_ok_true f _ r _ _ st h
    rw [hst]
    simp only [loadSchemaRes] at hb ⊢
    split
    · rename_i hc; exact List.contains_iff_mem.mp hc
    · split
      · exact mem_dictSet_self _ _
      · rename_i hc hok
        have hc' : r ∉ st.cache := fun hm => hc (List.contains_iff_mem.mpr hm)
        simp [hc', hok] at hb

end ZCV.Res2
