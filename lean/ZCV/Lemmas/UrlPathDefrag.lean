import ZCV.Lemmas.UrlPathFinal
/-! `urldefrag`: a quoted path has no fragment; whatever follows the first `#` of any string is the fragment. -/
namespace ZCV.UrlPath
open ZCV

theorem up_pathToUrl_nohash (p : Str) : '#' ∉ pathToUrl p := by
  unfold pathToUrl
  intro hm
  simp only [List.mem_append] at hm
  rcases hm with hm | hm
  · exact absurd hm (by decide)
  · exact up_clean_ne_hash _ (up_quote_chars_clean p _ hm) rfl

/-- `urldefrag("file://" + quote(p))` returns the URL unchanged and an empty fragment -/
theorem up_defrag_pathToUrl (p : Str) : defrag (pathToUrl p) = (pathToUrl p, []) := by
  unfold defrag
  rw [up_contains_false _ _ (up_pathToUrl_nohash p)]
  simp only [Bool.false_eq_true, ↓reduceIte]

/-! ## the fragment of an arbitrary string -/

/-- `s` is `v#f` with no `#` in `v` -/
def FragShape (s f : Str) : Prop := ∃ v, s = v ++ '#' :: f ∧ '#' ∉ v

theorem up_fragShape_clean (u frag : Str) (h : '#' ∉ u) :
    FragShape (cleanUrl (u ++ '#' :: frag)) (frag.filter (fun c => !tabCrLf c)) := by
  unfold cleanUrl
  have e : List.dropWhile c0OrSpace (u ++ '#' :: frag) = List.dropWhile c0OrSpace u ++ '#' :: frag := by
    rw [List.dropWhile_append]
    split
    · rename_i hh
      rw [List.isEmpty_iff] at hh
      rw [hh, List.dropWhile_cons_of_neg (by decide)]
      rfl
    · rfl
  rw [e, List.filter_append, List.filter_cons_of_pos (by decide)]
  refine ⟨_, rfl, ?_⟩
  intro hm
  exact h ((List.dropWhile_sublist _).subset (List.mem_filter.1 hm).1)

theorem up_fragShape_scheme (s f dflt : Str) (h : FragShape s f) : FragShape (splitScheme s dflt).2 f := by
  obtain ⟨v, rfl, hv⟩ := h
  unfold splitScheme
  simp only
  by_cases hcond : ((v ++ '#' :: f).contains ':' &&
      (List.takeWhile (fun x => x != ':') (v ++ '#' :: f)).head?.any isAsciiLetter &&
      (List.takeWhile (fun x => x != ':') (v ++ '#' :: f)).all schemeChar) = true
  · rw [if_pos hcond]
    simp only [Bool.and_eq_true] at hcond
    obtain ⟨⟨_, _⟩, hall⟩ := hcond
    rw [List.takeWhile_append] at hall ⊢
    split at hall
    · exfalso
      rw [List.takeWhile_cons_of_pos (by decide)] at hall
      simp only [List.all_append, List.all_cons, Bool.and_eq_true] at hall
      exact absurd hall.2.1 (by decide)
    · rename_i hlen
      rw [if_neg hlen]
      have hle : (List.takeWhile (fun x => x != ':') v).length + 1 ≤ v.length := by
        have := (List.takeWhile_sublist (l := v) (fun x => x != ':')).length_le
        omega
      refine ⟨v.drop ((List.takeWhile (fun x => x != ':') v).length + 1), ?_, ?_⟩
      · show List.drop _ (v ++ '#' :: f) = _
        rw [List.drop_append_of_le_length hle]
      · exact fun hm => hv (List.mem_of_mem_drop hm)
  · rw [if_neg hcond]
    exact ⟨v, rfl, hv⟩

theorem up_fragShape_netloc (s f : Str) (h : FragShape s f) : FragShape (splitNetloc s).2 f := by
  obtain ⟨v, rfl, hv⟩ := h
  unfold splitNetloc
  split
  · rename_i hcond
    simp only [beq_iff_eq] at hcond
    obtain ⟨v', rfl⟩ : ∃ v', v = '/' :: '/' :: v' := by
      cases v with
      | nil => simp at hcond
      | cons a v1 =>
        cases v1 with
        | nil => simp at hcond
        | cons b v2 =>
          simp only [List.cons_append, List.take_succ_cons, List.take_zero, List.cons.injEq, and_true] at hcond
          exact ⟨v2, by rw [hcond.1, hcond.2]⟩
    have hv' : '#' ∉ v' := fun hm => hv (by simp [hm])
    show FragShape (List.dropWhile (fun c => !isDelim c) (v' ++ '#' :: f)) f
    rw [List.dropWhile_append]
    split
    · rw [List.dropWhile_cons_of_neg (by decide)]
      exact ⟨[], rfl, by simp⟩
    · exact ⟨_, rfl, fun hm => hv' ((List.dropWhile_sublist _).subset hm)⟩
  · exact ⟨v, rfl, hv⟩

theorem up_fragShape_split (s f : Str) (h : FragShape s f) : (splitAt1 '#' s).2 = f := by
  obtain ⟨v, rfl, hv⟩ := h
  unfold splitAt1
  rw [up_contains_true _ _ (by simp)]
  simp only [↓reduceIte, cut]
  rw [List.dropWhile_append_of_pos (by intro a ha; simp only [bne_iff_ne, ne_eq]; intro e; subst e; exact hv ha),
    List.dropWhile_cons_of_neg (by decide)]
  rfl

theorem up_urlsplit_fragment (u frag dflt : Str) (h : '#' ∉ u) :
    (urlsplit (u ++ '#' :: frag) dflt).fragment = frag.filter (fun c => !tabCrLf c) := by
  unfold urlsplit
  simp only
  exact up_fragShape_split _ _ (up_fragShape_netloc _ _ (up_fragShape_scheme _ _ _ (up_fragShape_clean u frag h)))

theorem up_urlparse_fragment (u dflt : Str) : (urlparse u dflt).fragment = (urlsplit u dflt).fragment := by
  unfold urlparse
  simp only
  by_cases hc : (usesParams.contains (urlsplit u dflt).scheme && (urlsplit u dflt).path.contains ';') = true
  · rw [if_pos hc]
  · rw [if_neg hc]

/-- `urldefrag(u + "#" + frag)[1]` is `frag` (tab, CR, LF removed) when `u` has no `#` — for every `u` -/
theorem up_defrag_fragment (u frag : Str) (h : '#' ∉ u) :
    defragFrag (u ++ '#' :: frag) = frag.filter (fun c => !tabCrLf c) := by
  unfold defragFrag defrag
  rw [up_contains_true _ _ (by simp)]
  simp only [↓reduceIte]
  rw [up_urlparse_fragment, up_urlsplit_fragment u frag [] h]

end ZCV.UrlPath
