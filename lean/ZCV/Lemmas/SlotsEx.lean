import ZCV.Lemmas.SlotsLoad
/-!
A small closed world for the examples of C12 / C13: a schema with one abstract type and a `*` slot for it, a second
schema with an implementer and a type that merely extends it, and a package whose component adds an implementer.
-/
namespace ZCV.Cfg.Ex
open ZCV ZCV.Cfg ZCV.Conf

/-- datatypes that accept everything -/
def conv : Conv := { key := fun _ k => .ok k, val := fun _ v => .ok (.str v), sect := fun _ v => .ok v }
/-- no includable resource -/
def env : Env := { res := fun _ => none, resolve := fun _ _ => .unknown, getenv := fun _ => none }
/-- `<multisection type="ab" name="*" attribute="s"/>` -/
def slot : SectInfo :=
  { name := ['*'], attr := "s".toList, multi := true, minOccurs := 0, ty := "ab".toList, handler := none }
/-- `<section type="ab" name="fx" attribute="f"/>` -/
def fixedSlot : SectInfo :=
  { name := "fx".toList, attr := "f".toList, multi := false, minOccurs := 0, ty := "ab".toList, handler := none }
def top : SType :=
  { name := none, keytype := "basic-key".toList, datatype := "null".toList, children := [(none, .sect slot)] }
/-- `<schema> <abstracttype name="ab"/> <multisection type="ab" name="*" attribute="s"/> </schema>` -/
def schema : Schema :=
  { types := [("ab".toList, .abstract_ "ab".toList [])], top := top, handler := none, components := [] }
/-- `<sectiontype name="leak" implements="ab"/>` -/
def leak : SType := { name := some "leak".toList, keytype := "basic-key".toList, datatype := "null".toList, children := [] }
/-- package `p` holds a component with that one type -/
def pkgs : Str → Pkg := fun n =>
  if n == "p".toList then .component "u".toList [("leak".toList, .concrete leak)] [("leak".toList, "ab".toList)]
  else if n == "bad name".toList then .illegalName
  else if n == "os".toList then .noComponent
  else if n == "os.path".toList then .notPackage
  else .notImportable
/-- the schema the load holds after `%import p` -/
def schema' : Schema :=
  { types := [("ab".toList, .abstract_ "ab".toList ["leak".toList]), ("leak".toList, .concrete leak)],
    top := top, handler := none, components := ["u".toList] }
def st0 : LS := { schema := schema, privateSchema := false, handlers := [],
                  stack := [newMatcher top none none], pkgs := pkgs, conv := conv }
def st1 : LS := { st0 with schema := schema', privateSchema := true }

theorem import_p : lsImport st0 "p".toList = .ok st1 := rfl

/-- loading the one-line text `%import p` against `schema` succeeds and reports `schema'` as the schema afterwards -/
theorem load_import_p : ∃ r, load conv env pkgs schema none ["%import p".toList] [] = .ok r ∧ r.schemaAfter = schema' := by
  have hs : lineShape (strip "%import p".toList) = .import_ "p".toList :=
    shape_of_classify _ (by decide) (.import_ "p".toList) (by simp) (by decide)
  have hstrip : strip "p".toList = "p".toList := by decide
  unfold load
  simp only [List.mapM_nil, pure, Except.pure, bind, Except.bind, List.isEmpty_nil, if_true, Option.map_none]
  rw [parseLines, stepLine_import _ _ _ _ _ _ _ _ _ hs]
  unfold impStep
  rw [replace_nodollar _ _ _ _ _ (by decide), hstrip]
  simp only [bind, Except.bind, loaderCtx]
  rw [show lsImport { schema := schema, privateSchema := false, handlers := [], stack := [newMatcher schema.top none none], pkgs := pkgs, conv := conv } "p".toList = _ from import_p]
  simp only [Except.map]
  rw [parseLines]
  simp only [bne_self_eq_false, Bool.false_eq_true, if_false, st1, st0]
  exact ⟨⟨_, _, schema'⟩, rfl, rfl⟩

/-- loading the one-line text `# c` (a comment) against `schema` succeeds -/
theorem load_comment : ∃ r, load conv env pkgs schema none ["# c".toList] [] = .ok r := by
  have hs : lineShape (strip "# c".toList) = .skip := shape_of_classify _ (by decide) .skip (by simp) (by decide)
  unfold load
  simp only [List.mapM_nil, pure, Except.pure, bind, Except.bind, List.isEmpty_nil, if_true, Option.map_none]
  rw [parseLines, stepLine]
  simp only [hs, bind, Except.bind]
  rw [parseLines]
  simp only [bne_self_eq_false, Bool.false_eq_true, if_false]
  exact ⟨⟨_, _, _⟩, rfl⟩

/-- `impl` implements `ab`; `ext` extends `impl` (same content) and declares nothing -/
def impl : SType := { name := some "impl".toList, keytype := "basic-key".toList, datatype := "null".toList, children := [] }
def ext : SType := { name := some "ext".toList, keytype := "basic-key".toList, datatype := "null".toList, children := [] }
/-- a `*` slot of the abstract type, then a fixed-name slot `fx` of the abstract type -/
def top2 : SType :=
  { name := none, keytype := "basic-key".toList, datatype := "null".toList,
    children := [(none, .sect slot), (some "fx".toList, .sect fixedSlot)] }
/-- only the fixed-name slot -/
def top3 : SType :=
  { name := none, keytype := "basic-key".toList, datatype := "null".toList, children := [(some "fx".toList, .sect fixedSlot)] }
def schema2 : Schema :=
  { types := [("ab".toList, .abstract_ "ab".toList ["impl".toList]), ("impl".toList, .concrete impl),
              ("ext".toList, .concrete ext)],
    top := top2, handler := none, components := [] }
def schema3 : Schema := { schema2 with top := top3 }

/-! ### whole loads: `%import p` before / after the use of `leak` -/

def vLeak : Val := .sect "leak".toList none []
def mTop' : Matcher := setSlot (newMatcher top none none) "s".toList (.sects [vLeak])
def st2 : LS := { st1 with stack := newMatcher leak none none :: newMatcher top none none :: [] }
def st3 : LS := { st1 with stack := [mTop'] }

theorem gsi_leak : getsectioninfo schema' top "leak".toList none = .ok slot := by
  unfold getsectioninfo
  rw [show top.children = [] ++ (none, .sect slot) :: [] from rfl, go_skip _ _ _ _ _ (fun _ h => by cases h) (fun _ h => by cases h),
    go_at_unnamed_abstract _ _ _ _ _ (by decide) (by decide)]
  rw [show isSubtype schema' slot.ty "leak".toList = true by decide, if_pos rfl]

theorem start_leak : lsStart st1 "leak".toList none = .ok st2 :=
  lsStart_admitted_unnamed st1 "leak".toList none (newMatcher top none none) [] leak slot [] [] rfl rfl rfl rfl rfl
    (fun _ h => by cases h) (fun _ h => by cases h) (by decide) (by decide) (by decide)

theorem fin_leak : finishMatcher conv schema' (newMatcher leak none none) = .ok (vLeak, []) := rfl

theorem stop_leak : lsStop st2 "leak".toList none = .ok st3 := by
  unfold lsStop
  simp only [st2, st1, st0, bind, Except.bind, fin_leak]
  rw [addSection_eq]
  simp only [newName, List.any_nil, Bool.false_eq_true, if_false]
  rw [show (newMatcher top none none).ty = top from rfl, gsi_leak]
  rfl

theorem fin_top : finishMatcher conv schema' mTop' = .ok (.sect [] none [("s".toList, .list [vLeak])], []) := rfl

/-- `%import p` then `<leak/>`: accepted -/
theorem load_import_then_use :
    ∃ r, load conv env pkgs schema none ["%import p".toList, "<leak/>".toList] [] = .ok r ∧
      r.value = .sect [] none [("s".toList, .list [vLeak])] := by
  have hs1 : lineShape (strip "%import p".toList) = .import_ "p".toList :=
    shape_of_classify _ (by decide) (.import_ "p".toList) (by simp) (by decide)
  have hs2 : lineShape (strip "<leak/>".toList) = .open_ "leak".toList none true :=
    shape_of_classify _ (by decide) (.open_ "leak".toList none true) (by simp) (by decide)
  have hstrip : strip "p".toList = "p".toList := by decide
  unfold load
  simp only [List.mapM_nil, pure, Except.pure, bind, Except.bind, List.isEmpty_nil, if_true, Option.map_none]
  rw [parseLines, stepLine_import _ _ _ _ _ _ _ _ _ hs1]
  unfold impStep
  rw [replace_nodollar _ _ _ _ _ (by decide), hstrip]
  simp only [bind, Except.bind, loaderCtx]
  rw [show lsImport { schema := schema, privateSchema := false, handlers := [], stack := [newMatcher schema.top none none], pkgs := pkgs, conv := conv } "p".toList = _ from import_p]
  simp only [Except.map]
  rw [parseLines, stepLine]
  simp only [hs2, openSection, start_leak, stop_leak, closeFixup, Except.map, if_true, bind, Except.bind]
  rw [parseLines]
  simp only [bne_self_eq_false, Bool.false_eq_true, if_false, st3, st1, st0]
  rw [fin_top]
  exact ⟨⟨_, _, _⟩, rfl, rfl⟩


/-- `<leak/>` then `%import p`: rejected at line 1, the type is not known yet -/
theorem load_use_then_import :
    load conv env pkgs schema none ["<leak/>".toList, "%import p".toList] [] =
      .error (synErr none 1 "start:unknown type name") := by
  have hs2 : lineShape (strip "<leak/>".toList) = .open_ "leak".toList none true :=
    shape_of_classify _ (by decide) (.open_ "leak".toList none true) (by simp) (by decide)
  have hstart : lsStart st0 "leak".toList none = .error (.cfg { kind := .schema, tag := "unknown type name" }) := rfl
  unfold load
  simp only [List.mapM_nil, pure, Except.pure, bind, Except.bind, List.isEmpty_nil, if_true, Option.map_none]
  rw [parseLines, stepLine]
  simp only [hs2, openSection, loaderCtx]
  rw [show lsStart { schema := schema, privateSchema := false, handlers := [], stack := [newMatcher schema.top none none], pkgs := pkgs, conv := conv } "leak".toList none = _ from hstart]
  rfl

end ZCV.Cfg.Ex
