import ZCV.Lemmas.ElabNoIntHandlers
/-!
No internal errors, continued: `<abstracttype>`, `<sectiontype>` (with `extends` / `implements`), `<import>`, `<schema>`.
-/
namespace ZCV.Elab
open ZCV ZCV.Cfg

variable {P : String → Prop}

/-! ### the type table -/

theorem addType_eff {es es' : ES} {n : Str} {e : EEntry} (h : addType es n e = .ok es') :
    es.types.any (·.1 == n) = false ∧ es' = { es with types := es.types ++ [(n, e)] } := by
  unfold addType at h
  split at h
  · cases h
  · rename_i hn
    injection h with h
    exact ⟨(Bool.not_eq_true _).mp hn, h.symm⟩

theorem addType_ni (es : ES) (n : Str) (e : EEntry) : NIx P (addType es n e) := by
  unfold addType
  repeat' ni_step

theorem kindAt_snoc {es : ES} {n : Str} {e : EEntry} (h : es.types.any (·.1 == n) = false) :
    kindAt { es with types := es.types ++ [(n, e)] } n = some (entryKind e) := by
  rw [kindAt_eq]
  show Option.map _ ((es.types ++ [(n, e)]).find? (·.1 == n)) = _
  have hnone : es.types.find? (·.1 == n) = none := by
    rw [List.find?_eq_none]
    intro p hp
    rw [List.any_eq_false] at h
    exact h p hp
  rw [List.find?_append, hnone]
  simp

theorem startAbstracttype_ni (st : PSt) (attrs : Attrs) : NIx P (startAbstracttype st attrs) := by
  unfold startAbstracttype
  ni_steps [exact addType_ni _ _ _]

theorem startAbstracttype_post {st st' : PSt} {attrs : Attrs} (hks : KeysOK st.es)
    (h : startAbstracttype st attrs = .ok st') :
    ∃ n, st'.stack = .atype n :: st.stack ∧ st'.prefixes = st.prefixes ∧ kindAt st'.es n = some false ∧ KeysOK st'.es := by
  unfold startAbstracttype at h
  split at h
  · rw [bind_ok] at h
    obtain ⟨n, _, h⟩ := h
    rw [bind_ok] at h
    obtain ⟨es, hadd, h⟩ := h
    simp only [pure, Except.pure, Except.ok.injEq] at h
    subst h
    obtain ⟨hnew, hes⟩ := addType_eff hadd
    refine ⟨n, rfl, rfl, ?_, hks.addType hadd (by intro t ht; cases ht)⟩
    show kindAt es n = some false
    rw [hes]; exact kindAt_snoc hnew
  · cases h

/-! ### `<sectiontype>` -/

theorem deriveChildren_ni {env : Env} (hke : ∀ kt s e, env.conv.key kt s = .error e → e = .valueError) (kt : Str)
    {ch : List (Option Str × EInfo)} (hch : ChKeys ch) : NIx P (deriveChildren env kt ch) := by
  unfold deriveChildren
  refine mapM_ni _ ch ?_
  intro ⟨key, info⟩ hmem
  dsimp only
  cases info with
  | sect si => exact NIx.pure _
  | key k =>
    dsimp only
    have hk := hch _ hmem k rfl
    ni_steps [exact computeDefault_ni' hke _ hk (by assumption)]

theorem x3_deriveChildren_keys {env : Env} {kt : Str} {ch0 ch : List (Option Str × EInfo)} (h0 : ChKeys ch0)
    (h : deriveChildren env kt ch0 = .ok ch) : ChKeys ch := by
  unfold deriveChildren at h
  intro c hc k' hk'
  obtain ⟨⟨key, info⟩, ha, hf⟩ := mapM_ok_mem _ ch0 ch h c hc
  dsimp only at hf
  cases info with
  | sect si =>
    simp only [pure, Except.pure, Except.ok.injEq] at hf
    subst hf
    cases hk'
  | key k =>
    dsimp only at hf
    have hk := h0 _ ha k rfl
    rcases ite_ok hf with ⟨_, hf⟩ | ⟨_, hf⟩
    · rw [bind_ok] at hf
      obtain ⟨k1, hc1, hf⟩ := hf
      simp only [pure, Except.pure, Except.ok.injEq] at hf
      subst hf
      have hkk : k1 = k' := by simpa using hk'
      subst hkk
      exact (computeDefault_shape env kt k k1 hk hc1).1
    · simp only [pure, Except.pure, Except.ok.injEq] at hf
      subst hf
      have hkk : k = k' := by simpa using hk'
      subst hkk
      exact hk

theorem startSectiontype_ni {env : Env} {st : PSt} (he : EnvNI env) (hks : KeysOK st.es) (attrs : Attrs) :
    NIx P (startSectiontype env st attrs) := by
  unfold startSectiontype
  split
  · refine NIx.bind (basicKeyE_ni _) (fun name _ => ?_)
    refine NIx.bind (pushPrefix_ni _ _) (fun st1 hst1 => ?_)
    obtain ⟨x, rfl⟩ := pushPrefix_eff hst1
    have hp1 : (x :: st.prefixes) ≠ [] := by simp
    have hder : ∀ bn q base kt, ES.gettype st.es bn = some (q, EEntry.concrete base) → NIx P (deriveChildren env kt base.children) := by
      intro bn q base kt hg
      exact deriveChildren_ni he.keyErr kt (hks.types _ (gettype_mem hg) _ rfl)
    dsimp only
    ni_steps [first
      | exact getSectTypeinfo_ni he.dotted hp1 _ _
      | exact addType_ni _ _ _
      | exact hder _ _ _ _ (by assumption)]
  · exact NIx.serr _

/-- what `start_sectiontype` leaves behind: one more prefix, a frame for the new (concrete) type -/
theorem startSectiontype_post {env : Env} {st st' : PSt} {attrs : Attrs} (hks : KeysOK st.es)
    (h : startSectiontype env st attrs = .ok st') :
    ∃ name x, st'.stack = .stype name :: st.stack ∧ st'.prefixes = x :: st.prefixes ∧
      kindAt st'.es name = some true ∧ KeysOK st'.es := by
  unfold startSectiontype at h
  split at h
  · rw [bind_ok] at h
    obtain ⟨name, _, h⟩ := h
    rw [bind_ok] at h
    obtain ⟨st1, hpp, h⟩ := h
    obtain ⟨x, rfl⟩ := pushPrefix_eff hpp
    extract_lets jpPure jpImpl at h
    have hPure : ∀ es3, kindAt es3 name = some true → KeysOK es3 → jpPure es3 = .ok st' →
        ∃ name x, st'.stack = .stype name :: st.stack ∧ st'.prefixes = x :: st.prefixes ∧
          kindAt st'.es name = some true ∧ KeysOK st'.es := by
      intro es3 h3 k3 hj
      simp only [jpPure, pure, Except.pure, Except.ok.injEq] at hj
      subst hj; exact ⟨name, x, rfl, rfl, h3, k3⟩
    have hImpl : ∀ es2, kindAt es2 name = some true → KeysOK es2 → jpImpl es2 = .ok st' →
        ∃ name x, st'.stack = .stype name :: st.stack ∧ st'.prefixes = x :: st.prefixes ∧
          kindAt st'.es name = some true ∧ KeysOK st'.es := by
      intro es2 h2 k2 hj
      simp only [jpImpl] at hj
      split at hj
      · rw [bind_ok] at hj
        obtain ⟨ifname, _, hj⟩ := hj
        split at hj
        · exact (err_bind_ok hj).elim
        · exact (err_bind_ok hj).elim
        · refine hPure _ ?_ ?_ (pure_bind_ok hj)
          · rw [kindAt_congr (kinds_map es2 _ ?_)]; exact h2
            intro ⟨k, e⟩; dsimp only; split
            · cases e <;> exact ⟨rfl, rfl⟩
            · exact ⟨rfl, rfl⟩
          · refine k2.map _ ?_
            intro ⟨k, e⟩ t ht
            dsimp only at ht
            split at ht
            · cases e with
              | concrete t0 => exact ⟨t0, rfl, by cases ht; exact id⟩
              | abstract_ a b c => cases ht
            · exact ⟨t, ht, id⟩
      · exact hPure _ h2 k2 (pure_bind_ok hj)
    split at h
    · rw [bind_ok] at h
      obtain ⟨basename, _, h⟩ := h
      split at h
      · exact (err_bind_ok h).elim
      · exact (err_bind_ok h).elim
      · rename_i bn base hg
        rw [bind_ok] at h
        obtain ⟨⟨kt, dt⟩, _, h⟩ := h
        dsimp only at h
        rw [bind_ok] at h
        obtain ⟨es', hadd, h⟩ := h
        rw [bind_ok] at h
        obtain ⟨ch, hder, h⟩ := h
        obtain ⟨hnew, hes'⟩ := addType_eff hadd
        have hbase : ChKeys base.children := hks.types _ (gettype_mem hg) _ rfl
        refine hImpl _ ?_ ?_ (pure_bind_ok h)
        · rw [kindAt_congr (kinds_updType _ _ _), hes']
          exact kindAt_snoc hnew
        · exact (hks.addType hadd (by intro t ht; cases ht; exact ChKeys.nil)).updType _ _
            (fun _ _ => x3_deriveChildren_keys hbase hder)
    · rw [bind_ok] at h
      obtain ⟨⟨kt, dt⟩, _, h⟩ := h
      dsimp only at h
      rw [bind_ok] at h
      obtain ⟨es2, hadd, h⟩ := h
      obtain ⟨hnew, hes'⟩ := addType_eff hadd
      refine hImpl _ ?_ (hks.addType hadd (by intro t ht; cases ht; exact ChKeys.nil)) h
      rw [hes']
      exact kindAt_snoc hnew
  · cases h

/-! ### `<import>` -/

/-- nested documents: no internal error (other than `P`) on well-formed trees, and the light invariant is kept -/
structure HooksNI (P : String → Prop) (T : Node → Prop) (h : Hooks) : Prop where
  load_ni : ∀ es tree, KeysOK es → T tree → NIx P (h.loadComponent es tree)
  load_keys : ∀ es tree es', KeysOK es → T tree → h.loadComponent es tree = .ok es' → KeysOK es'
  ext_ni : ∀ es tree, KeysOK es → T tree → NIx P (h.extendSchema es tree)
  ext_keys : ∀ es tree es', KeysOK es → T tree → h.extendSchema es tree = .ok es' → KeysOK es'

/-- every document the environment can hand out satisfies `T` -/
structure EnvTrees (T : Node → Prop) (env : Env) : Prop where
  comps : ∀ p f t, env.comps p f = .doc t → T t
  bases : ∀ s t, env.bases s = some t → T t

theorem KeysOK.set_components {es : ES} (h : KeysOK es) (c : List Str) : KeysOK { es with components := c } :=
  ⟨h.top, h.types⟩

theorem startImport_ni {env : Env} {hk : Hooks} {T : Node → Prop} {st : PSt} {attrs : Attrs}
    (hh : HooksNI P T hk) (ht : EnvTrees T env) (hks : KeysOK st.es) (hp : st.prefixes ≠ [])
    (hsrc : (attrStrip attrs "src").isEmpty = true) : NIx P (startImport env hk st attrs) := by
  unfold startImport
  dsimp only
  have hsrc' : ¬ ((!(attrStrip attrs "src").isEmpty) = true) := by simp [hsrc]
  refine NIx.guard (by intro e h; cases h) (fun _ => ?_)
  refine NIx.guard (by intro e h; cases h) (fun _ => ?_)
  rw [if_neg hsrc']
  refine NIx.guard (by intro e h; cases h) (fun _ => ?_)
  refine NIx.bind (getClassname_ni hp _) (fun pkg' _ => ?_)
  refine NIx.guard (by intro e h; cases h) (fun _ => ?_)
  cases hres : env.comps pkg' (if (attrStrip attrs "file").isEmpty = true then "component.xml".toList else attrStrip attrs "file") with
  | notImportable => exact NIx.schemaResource _
  | notPackage => exact NIx.schemaResource _
  | noFile => dsimp only; repeat' ni_step
  | doc tree =>
    dsimp only
    ni_steps [exact hh.load_ni _ _ (hks.set_components _) (ht.comps _ _ _ hres)]

theorem startImport_post {env : Env} {hk : Hooks} {T : Node → Prop} {st st' : PSt} {attrs : Attrs}
    (hh : HooksNI P T hk) (ht : EnvTrees T env) (hks : KeysOK st.es)
    (h : startImport env hk st attrs = .ok st') :
    st'.stack = st.stack ∧ st'.prefixes = st.prefixes ∧ KeysOK st'.es := by
  unfold startImport at h
  simp only [bind, Except.bind, serr, pure, Except.pure] at h
  rcases ite_ok h with ⟨_, h⟩ | ⟨_, h⟩
  · cases h
  rcases ite_ok h with ⟨_, h⟩ | ⟨_, h⟩
  · cases h
  rcases ite_ok h with ⟨_, h⟩ | ⟨_, h⟩
  · rcases ite_ok h with ⟨_, h⟩ | ⟨_, h⟩ <;> cases h
  rcases ite_ok h with ⟨_, h⟩ | ⟨_, h⟩
  · cases h
  cases hg : getClassname st (attrStrip attrs "package") with
  | error e => simp only [hg] at h; cases h
  | ok v =>
    simp only [hg] at h
    rcases ite_ok h with ⟨_, h⟩ | ⟨_, h⟩
    · cases h
    cases hres : env.comps v (if (attrStrip attrs "file").isEmpty = true then "component.xml".toList else attrStrip attrs "file") with
    | notImportable => simp only [hres] at h; cases h
    | notPackage => simp only [hres] at h; cases h
    | noFile =>
      simp only [hres] at h
      rcases ite_ok h with ⟨_, h⟩ | ⟨_, h⟩
      · injection h with h; subst h; exact ⟨rfl, rfl, hks⟩
      · cases h
    | doc tree =>
      simp only [hres] at h
      rcases ite_ok h with ⟨_, h⟩ | ⟨_, h⟩
      · injection h with h; subst h; exact ⟨rfl, rfl, hks⟩
      · split at h
        · cases h
        · rename_i es2 hl
          injection h with h; subst h
          exact ⟨rfl, rfl, hh.load_keys _ _ _ (hks.set_components _) (ht.comps _ _ _ hres) hl⟩

/-! ### `<schema>` -/

theorem inheritType_ni (bases : List Str) (own : Str) (given : Bool) : NIx P (inheritType bases own given) := by
  unfold inheritType
  repeat' ni_step

theorem KeysOK.fresh (kt dt : Str) (handler : Option Str) :
    KeysOK { types := [], top := { name := none, keytype := kt, datatype := dt }, handler := handler, components := [] } :=
  ⟨ChKeys.nil, by intro p hp; cases hp⟩

theorem startSchema_ni {env : Env} {hk : Hooks} {T : Node → Prop} {ext : Option ES} {st : PSt} {attrs : Attrs}
    (he : EnvNI env) (hh : HooksNI P T hk) (ht : EnvTrees T env) (hext : ∀ es, ext = some es → KeysOK es) :
    NIx P (startSchema env hk ext st attrs) := by
  unfold startSchema
  refine NIx.bind (pushPrefix_ni _ _) (fun st1 hst1 => ?_)
  obtain ⟨x, rfl⟩ := pushPrefix_eff hst1
  have hp1 : (x :: st.prefixes) ≠ [] := by simp
  refine NIx.bind (getHandler_ni _) (fun handler _ => ?_)
  refine NIx.bind (getSectTypeinfo_ni he.dotted hp1 _ _) (fun r _ => ?_)
  obtain ⟨kt, dt⟩ := r
  dsimp -zeta only
  extract_lets es0 st2 jp
  have h0 : KeysOK es0 := by
    simp only [es0]
    split
    · exact hext _ rfl
    · exact KeysOK.fresh _ _ _
  have hjp : ∀ y, NIx P (jp y) := fun y => NIx.pure _
  split
  · refine NIx.bind ?_ (fun st' _ => ?_)
    · refine foldlM_ni (fun acc : PSt => KeysOK acc.es) _ ?_ ?_ _ st2 h0
      · intro acc src hacc
        dsimp only
        ni_steps [exact hh.ext_ni _ _ hacc (ht.bases _ _ (by assumption))]
      · intro acc src acc' hacc hstep
        extract_lets jp2 at hstep
        obtain ⟨_, hstep⟩ := guard_jp hstep
        simp only [jp2] at hstep
        split at hstep
        · cases hstep
        · rename_i tree htree
          rw [bind_ok] at hstep
          obtain ⟨es', hes', hstep⟩ := hstep
          simp only [pure, Except.pure, Except.ok.injEq] at hstep
          subst hstep
          exact hh.ext_keys _ _ _ hacc (ht.bases _ _ htree) hes'
    · ni_steps [first | exact inheritType_ni _ _ _ | exact hjp _]
  · ni_steps [exact hjp _]

theorem startSchema_post {env : Env} {hk : Hooks} {T : Node → Prop} {ext : Option ES} {st st' : PSt} {attrs : Attrs}
    (hh : HooksNI P T hk) (ht : EnvTrees T env) (hext : ∀ es, ext = some es → KeysOK es)
    (h : startSchema env hk ext st attrs = .ok st') :
    st'.stack = [.schema] ∧ (∃ x, st'.prefixes = x :: st.prefixes) ∧ KeysOK st'.es := by
  unfold startSchema at h
  rw [bind_ok] at h
  obtain ⟨st1, hpp, h⟩ := h
  obtain ⟨x, rfl⟩ := pushPrefix_eff hpp
  rw [bind_ok] at h
  obtain ⟨handler, _, h⟩ := h
  rw [bind_ok] at h
  obtain ⟨⟨kt, dt⟩, _, h⟩ := h
  dsimp -zeta only at h
  extract_lets es0 st2 jp at h
  have h0 : KeysOK es0 := by
    simp only [es0]
    split
    · exact hext _ rfl
    · exact KeysOK.fresh _ _ _
  have hjp : ∀ st3 kt' dt', (st3.stack = [.schema] ∧ st3.prefixes = x :: st.prefixes ∧ KeysOK st3.es) →
      jp (st3, kt', dt') = .ok st' → st'.stack = [.schema] ∧ (∃ x, st'.prefixes = x :: st.prefixes) ∧ KeysOK st'.es := by
    intro st3 kt' dt' h3 hj
    simp only [jp, pure, Except.pure, Except.ok.injEq] at hj
    subst hj
    exact ⟨h3.1, ⟨x, h3.2.1⟩, h3.2.2.top_congr _ rfl⟩
  split at h
  · rw [bind_ok] at h
    obtain ⟨st3, hfold, h⟩ := h
    rw [bind_ok] at h
    obtain ⟨k, _, h⟩ := h
    rw [bind_ok] at h
    obtain ⟨d, _, h⟩ := h
    refine hjp st3 k d ?_ (pure_bind_ok h)
    refine foldlM_inv (fun acc : PSt => acc.stack = [.schema] ∧ acc.prefixes = x :: st.prefixes ∧ KeysOK acc.es) _ ?_ _ _ st3
      (by exact ⟨rfl, rfl, h0⟩) hfold
    intro acc src acc' hacc hstep
    extract_lets jp2 at hstep
    obtain ⟨_, hstep⟩ := guard_jp hstep
    simp only [jp2] at hstep
    split at hstep
    · cases hstep
    · rename_i tree htree
      rw [bind_ok] at hstep
      obtain ⟨es', hes', hstep⟩ := hstep
      simp only [pure, Except.pure, Except.ok.injEq] at hstep
      subst hstep
      exact ⟨hacc.1, hacc.2.1, hh.ext_keys _ _ _ hacc.2.2 (ht.bases _ _ htree) hes'⟩
  · exact hjp st2 kt dt ⟨rfl, rfl, h0⟩ (pure_bind_ok h)

theorem endSchema_ni {b : Bool} {st : PSt} {f : Frame} {x : Str} (hs : st.stack = [f]) (hp : st.prefixes = [x]) :
    NIx P (endSchema b st) := by
  unfold endSchema
  rw [hs]
  dsimp only
  have : (popPrefix st).prefixes = [] := by simp [popPrefix, hp]
  rw [this]
  exact NIx.ok _

end ZCV.Elab
