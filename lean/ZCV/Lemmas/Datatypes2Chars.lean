import ZCV.Lemmas.Datatypes
/-!
Facts about the generated Unicode tables (`\d` ranges, `isspace` code points, one-to-one `lower` table), each checked
once by evaluation over the tables and then used as an ordinary lemma about every character.
-/
namespace ZCV.DT
open ZCV

theorem dt2_pyDigit_iff (c : Char) :
    pyDigit c = true ↔ ∃ r ∈ Gen.digitRanges, r.1 ≤ c.toNat ∧ c.toNat ≤ r.2 := by
  unfold pyDigit pyDigitVal
  rw [Option.isSome_map, List.find?_isSome]
  simp only [Bool.and_eq_true, decide_eq_true_eq]

theorem dt2_pySpace_iff (c : Char) : pySpace c = true ↔ c.toNat ∈ Gen.spaceTbl := by
  unfold pySpace
  rw [List.contains_iff_mem]

/-! ### the three table checks -/

theorem dt2_tbl_lower_gt : Gen.lowerTbl.all (fun e => decide ((58 : Int) < (e.1 : Int) + e.2.2.2)) = true := by
  decide +kernel
theorem dt2_tbl_digit_lower : Gen.digitRanges.all (fun r => Gen.lowerTbl.all (fun e =>
    decide (r.2 < e.1) || decide (e.1 + e.2.1 * e.2.2.1 ≤ r.1))) = true := by
  decide +kernel
theorem dt2_tbl_digit_upper : Gen.digitRanges.all (fun r => decide (r.1 ≤ 90 → r.2 < 65)) = true := by
  decide +kernel
theorem dt2_tbl_digit_space : Gen.digitRanges.all (fun r => Gen.spaceTbl.all (fun x =>
    decide (x < r.1) || decide (r.2 < x))) = true := by
  decide +kernel

/-- a `\d` character is not whitespace -/
theorem dt2_digit_not_space (c : Char) (h : pyDigit c = true) : pySpace c = false := by
  cases hs : pySpace c with
  | false => rfl
  | true =>
    obtain ⟨r, hr, h1, h2⟩ := (dt2_pyDigit_iff c).mp h
    have hx := (dt2_pySpace_iff c).mp hs
    have := List.all_eq_true.mp (List.all_eq_true.mp dt2_tbl_digit_space r hr) _ hx
    simp only [Bool.or_eq_true, decide_eq_true_eq] at this
    omega

theorem dt2_toNat_ofNat (k : Nat) : (Char.ofNat k).toNat = k ∨ (Char.ofNat k).toNat = 0 := by
  unfold Char.ofNat
  split
  · left; simp [Char.ofNatAux, Char.toNat]
  · right; rfl

theorem dt2_lowerChar_ascii (c : Char) (h : c.toNat < 128) : lowerChar c = asciiLowerChar c := by
  simp [lowerChar, h]

/-- `lower` neither creates nor destroys a colon -/
theorem dt2_lowerChar_colon (c : Char) : lowerChar c = ':' ↔ c = ':' := by
  by_cases h : c.toNat < 128
  · rw [dt2_lowerChar_ascii c h]
    constructor
    · intro e
      have := congrArg Char.toNat e
      rw [asciiLowerChar_toNat] at this
      apply char_ext
      simp only [Char.reduceToNat] at this ⊢
      split at this <;> omega
    · rintro rfl; decide
  · constructor
    · intro e
      exfalso
      unfold lowerChar at e
      rw [if_neg h] at e
      have e' := congrArg Char.toNat e
      simp only [Char.reduceToNat] at e'
      have hk : uniLowerNat c.toNat = 58 := by
        rcases dt2_toNat_ofNat (uniLowerNat c.toNat) with h1 | h1 <;> omega
      unfold uniLowerNat at hk
      split at hk
      · rename_i e0 hf
        have hmem := List.mem_of_find?_eq_some hf
        have hp := List.find?_some hf
        simp only [Bool.and_eq_true, decide_eq_true_eq] at hp
        have := List.all_eq_true.mp dt2_tbl_lower_gt e0 hmem
        simp only [decide_eq_true_eq] at this
        rw [Int.ofNat_eq_natCast] at hk
        omega
      · omega
    · rintro rfl; exact absurd (by decide) h

theorem dt2_lower_contains_colon (s : Str) : (lower s).contains ':' = s.contains ':' := by
  rw [Bool.eq_iff_iff, List.contains_iff_mem, List.contains_iff_mem]
  unfold lower
  simp only [List.mem_map]
  constructor
  · rintro ⟨c, hc, e⟩; rw [(dt2_lowerChar_colon c).mp e] at hc; exact hc
  · intro h; exact ⟨':', h, by decide⟩

/-- a `\d` character is its own lower case -/
theorem dt2_lowerChar_digit (c : Char) (h : pyDigit c = true) : lowerChar c = c := by
  obtain ⟨r, hr, h1, h2⟩ := (dt2_pyDigit_iff c).mp h
  by_cases hn : c.toNat < 128
  · rw [dt2_lowerChar_ascii c hn]
    apply char_ext
    rw [asciiLowerChar_toNat]
    have := List.all_eq_true.mp dt2_tbl_digit_upper r hr
    simp only [decide_eq_true_eq] at this
    split
    · omega
    · rfl
  · unfold lowerChar
    rw [if_neg hn]
    have hu : uniLowerNat c.toNat = c.toNat := by
      unfold uniLowerNat
      split
      · rename_i e0 hf
        exfalso
        have hmem := List.mem_of_find?_eq_some hf
        have hp := List.find?_some hf
        simp only [Bool.and_eq_true, decide_eq_true_eq] at hp
        have := List.all_eq_true.mp (List.all_eq_true.mp dt2_tbl_digit_lower r hr) e0 hmem
        simp only [Bool.or_eq_true, decide_eq_true_eq] at this
        omega
      · rfl
    rw [hu, Char.ofNat_toNat]

theorem dt2_asciiDigit_pyDigit (c : Char) (h : isAsciiDigit c = true) : pyDigit c = true := by
  rw [dt2_pyDigit_iff]
  refine ⟨(48, 57), by decide, ?_⟩
  simpa [isAsciiDigit, inRange] using h

end ZCV.DT
