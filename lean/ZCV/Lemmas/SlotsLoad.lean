import ZCV.Lemmas.SlotsParse
import ZCV.Lemmas.Grammar
/-!
C13: `load` seen through its parse, and histories of loads against one schema object.
-/
namespace ZCV.Cfg
open ZCV

/-- `_active_urls` at the start of a load -/
def activeOf (url : Option Str) : List Str := match url with | some u => if u == [] then [] else [u] | none => []

/-- a successful load went through a successful parse that started on the given schema, and the schema it reports is the
    one that parse ended with -/
theorem load_ok_inv (conv : Conv) (env : Env) (pkgs : Str → Pkg) (schema : Schema) (url : Option Str)
    (lines specs : List Str) (r : LoadResult) (h : load conv env pkgs schema url lines specs = .ok r) :
    ∃ (st0 : LS) (ps : PS LS), st0.schema = schema ∧ st0.pkgs = pkgs ∧ st0.conv = conv ∧ st0.privateSchema = false ∧
      parseLines 64 env loaderCtx (activeOf url) url lines 0 { ctx := st0, stack := [], defs := [] } = .ok ps ∧
      r.schemaAfter = ps.ctx.schema := by
  unfold load at h
  obtain ⟨overrides, _, h⟩ := bind_ok_inv h
  dsimp only at h
  split at h <;>
  · obtain ⟨bag, _, h⟩ := bind_ok_inv h
    obtain ⟨ps, hps, h⟩ := bind_ok_inv h
    refine ⟨_, ps, rfl, rfl, rfl, rfl, hps, ?_⟩
    split at h
    · obtain ⟨vh, _, h⟩ := bind_ok_inv h
      obtain ⟨v, hs⟩ := vh
      dsimp only at h
      split at h
      · obtain ⟨v', _, h⟩ := bind_ok_inv h
        cases h
        rfl
      · obtain ⟨v', hv, _⟩ := bind_ok_inv h
        cases hv
    · cases h

/-- one load request of a history -/
structure LoadReq where
  url : Option Str
  lines : List Str
  specs : List Str

/-- loads one after the other against ONE schema object: each load sees the schema the previous one left behind
    (`schemaAfter`; a failed load reports none in the model and the schema is kept).  Returns the outcomes in order and
    the schema at the end. -/
def runHistory (conv : Conv) (env : Env) (pkgs : Str → Pkg) : Schema → List LoadReq → List (M LoadResult) × Schema
  | s, [] => ([], s)
  | s, q :: rest =>
    let r := load conv env pkgs s q.url q.lines q.specs
    let s' := match r with | .ok x => x.schemaAfter | .error _ => s
    let out := runHistory conv env pkgs s' rest
    (r :: out.1, out.2)

/-! ### import-free loads -/

/-- neither an `%import` nor an `%include` line -/
def PlainLine (l : Str) : Prop := NoImportLine l ∧ ∀ a, lineShape (strip l) ≠ .include_ a

/-- every prefix of an import-free text leaves the schema alone (the resources it can include are import-free too) -/
theorem run_without_import_keeps_schema (env : Env)
    (hres : ∀ u ls, env.res u = some ls → ∀ l ∈ ls, NoImportLine l)
    (fuel : Nat) (active : List Str) (url : Option Str) (lines : List Str) (n : Nat) (st st' : PS LS)
    (hl : ∀ l ∈ lines, NoImportLine l)
    (h : runLines fuel env loaderCtx active url lines n st = .ok st') : st'.ctx.schema = st.ctx.schema :=
  run_rel opsRel_schema env NoImportLine (fun _ a hl hs => absurd hs (hl a)) (fun _ _ _ _ u ls hu => hres u ls hu)
    fuel active url lines n st st' hl h

/-- a text with neither `%import` nor `%include` lines leaves the schema alone, whatever the includable resources hold -/
theorem parse_plain_keeps_schema (env : Env)
    (fuel : Nat) (active : List Str) (url : Option Str) (lines : List Str) (n : Nat) (st st' : PS LS)
    (hl : ∀ l ∈ lines, PlainLine l)
    (h : parseLines fuel env loaderCtx active url lines n st = .ok st') : st'.ctx.schema = st.ctx.schema :=
  parse_rel opsRel_schema env PlainLine (fun _ a hl hs => absurd hs (hl.1 a)) (fun _ a hl hs => absurd hs (hl.2 a))
    fuel active url lines n st st' hl h

theorem load_without_import_keeps_schema (conv : Conv) (env : Env) (pkgs : Str → Pkg) (s : Schema) (url : Option Str)
    (lines specs : List Str) (r : LoadResult)
    (hres : ∀ u ls, env.res u = some ls → ∀ l ∈ ls, NoImportLine l) (hl : ∀ l ∈ lines, NoImportLine l)
    (h : load conv env pkgs s url lines specs = .ok r) : r.schemaAfter = s := by
  obtain ⟨st0, ps, hs, _, _, _, hp, hr⟩ := load_ok_inv conv env pkgs s url lines specs r h
  rw [hr, parse_without_import_keeps_schema env hres _ _ _ _ _ _ _ hl hp, hs]

theorem load_plain_keeps_schema (conv : Conv) (env : Env) (pkgs : Str → Pkg) (s : Schema) (url : Option Str)
    (lines specs : List Str) (r : LoadResult) (hl : ∀ l ∈ lines, PlainLine l)
    (h : load conv env pkgs s url lines specs = .ok r) : r.schemaAfter = s := by
  obtain ⟨st0, ps, hs, _, _, _, hp, hr⟩ := load_ok_inv conv env pkgs s url lines specs r h
  rw [hr, parse_plain_keeps_schema env _ _ _ _ _ _ _ hl hp, hs]

/-- the schema a history step leaves behind -/
theorem runHistory_cons (conv : Conv) (env : Env) (pkgs : Str → Pkg) (s : Schema) (q : LoadReq) (rest : List LoadReq) :
    runHistory conv env pkgs s (q :: rest) =
      (load conv env pkgs s q.url q.lines q.specs ::
        (runHistory conv env pkgs (match load conv env pkgs s q.url q.lines q.specs with
          | .ok x => x.schemaAfter | .error _ => s) rest).1,
       (runHistory conv env pkgs (match load conv env pkgs s q.url q.lines q.specs with
          | .ok x => x.schemaAfter | .error _ => s) rest).2) := rfl

/-- **history independence for import-free histories**: every load of the history gives what it gives on the fresh
    schema, and the schema at the end is the schema at the start -/
theorem runHistory_without_import (conv : Conv) (env : Env) (pkgs : Str → Pkg)
    (hres : ∀ u ls, env.res u = some ls → ∀ l ∈ ls, NoImportLine l) (s : Schema) :
    ∀ (hist : List LoadReq), (∀ q ∈ hist, ∀ l ∈ q.lines, NoImportLine l) →
      runHistory conv env pkgs s hist = (hist.map fun q => load conv env pkgs s q.url q.lines q.specs, s) := by
  intro hist
  induction hist with
  | nil => intro _; rfl
  | cons q rest ih =>
    intro hq
    have hs' : (match load conv env pkgs s q.url q.lines q.specs with
        | .ok x => x.schemaAfter | .error _ => s) = s := by
      cases hr : load conv env pkgs s q.url q.lines q.specs with
      | error e => rfl
      | ok r => exact load_without_import_keeps_schema conv env pkgs s _ _ _ r hres (hq q List.mem_cons_self) hr
    rw [runHistory_cons, hs', ih (fun q' h' => hq q' (List.mem_cons_of_mem _ h'))]
    rfl

/-! ### closed examples: lines as the parser classifies them -/

theorem shape_of_classify (line : Str) (hn : '\n' ∉ line) (sh : LineShape)
    (hsh : (∀ t, sh ≠ .bad t) ∧ (∀ t, sh ≠ .internal t)) (h : Grammar.classify line = toSpec sh) :
    lineShape (strip line) = sh := by
  have := lineShape_eq_classify line hn
  rw [h] at this
  cases hs : lineShape (strip line) <;> rw [hs] at this <;> cases sh <;> simp only [toSpec] at this <;>
    first
    | (cases this; rfl)
    | exact absurd rfl (hsh.1 _)
    | exact absurd rfl (hsh.2 _)
    | cases this

/-! ### C12: `%import` within a load -/

theorem LS_eta_private (st : LS) (h : st.privateSchema = true) : { st with privateSchema := true } = st := by
  cases st
  simp only at h
  subst h
  rfl

/-- importing the same package again, at once, changes nothing -/
theorem lsImport_again (st st1 : LS) (pkg : Str) (h : lsImport st pkg = .ok st1) : lsImport st1 pkg = .ok st1 := by
  obtain ⟨_, _, hpk, _, hpriv⟩ := lsImport_frame st st1 pkg h
  cases hp : st.pkgs pkg with
  | component url types impls =>
    have hp1 : st1.pkgs pkg = .component url types impls := by rw [hpk, hp]
    have hc := lsImport_components st st1 pkg url types impls hp h
    have hin : st1.schema.components.contains url = true := by
      rw [hc]
      split
      · assumption
      · simp
    rw [lsImport_component st1 pkg url types impls hp1, hin, if_pos rfl, LS_eta_private st1 hpriv]
  | notImportable => unfold lsImport at h; rw [hp] at h; cases h
  | notPackage => unfold lsImport at h; rw [hp] at h; cases h
  | noComponent => unfold lsImport at h; rw [hp] at h; cases h
  | illegalName => unfold lsImport at h; rw [hp] at h; cases h

/-- … and so does importing it again later in the same load, whatever lines (sections, keys, other `%import`s,
    `%include`s) were read in between -/
theorem lsImport_again_later (env : Env) (fuel : Nat) (active : List Str) (url : Option Str) (lines : List Str) (n : Nat)
    (st : LS) (ps0 ps : PS LS) (pkg : Str) (h : lsImport st pkg = .ok ps0.ctx)
    (hrun : runLines fuel env loaderCtx active url lines n ps0 = .ok ps) :
    lsImport ps.ctx pkg = .ok { ps.ctx with privateSchema := true } := by
  have hg : Grows ps0.ctx ps.ctx :=
    run_rel opsRel_grows env (fun _ => True) (fun _ _ _ _ s pkg s' hi => lsImport_grows s s' pkg hi)
      (fun _ _ _ _ _ _ _ _ _ => trivial) fuel active url lines n ps0 ps (fun _ _ => trivial) hrun
  obtain ⟨_, _, hpk, _, _⟩ := lsImport_frame st ps0.ctx pkg h
  cases hp : st.pkgs pkg with
  | component u types impls =>
    have hp1 : ps.ctx.pkgs pkg = .component u types impls := by rw [hg.1, hpk, hp]
    have hc := lsImport_components st ps0.ctx pkg u types impls hp h
    have hin0 : ps0.ctx.schema.components.contains u = true := by
      rw [hc]
      split
      · assumption
      · simp
    rw [lsImport_component ps.ctx pkg u types impls hp1, hg.2 u hin0, if_pos rfl]
  | notImportable => unfold lsImport at h; rw [hp] at h; cases h
  | notPackage => unfold lsImport at h; rw [hp] at h; cases h
  | noComponent => unfold lsImport at h; rw [hp] at h; cases h
  | illegalName => unfold lsImport at h; rw [hp] at h; cases h

/-- what a successful `%import` of a new component does for a type `c` it defines with `implements="a"` -/
theorem lsImport_defines_and_registers (st st1 : LS) (pkg url : Str) (types : List (Str × TypeEntry))
    (impls : List (Str × Str)) (hp : st.pkgs pkg = .component url types impls)
    (hnew : st.schema.components.contains url = false) (himp : lsImport st pkg = .ok st1)
    (c a : Str) (e : TypeEntry) (hmem : (c, a) ∈ impls) (hc : (c, e) ∈ types)
    (hla : lower a = a) (habs : isAbstract st.schema a = true) :
    isSubtype st1.schema a c = true ∧
      (∀ tc, e = .concrete tc → lower c = c → st1.schema.gettype c = some (.concrete tc)) := by
  obtain ⟨sch, hfold, rfl⟩ := lsImport_ok_new st st1 pkg url types impls hp hnew himp
  obtain ⟨pre, post, rfl⟩ := List.append_of_mem hc
  constructor
  · rw [isSubtype_iff_mem]
    refine fold_registers impls c a hla hmem pre post e _ sch hfold ?_
    intro sc1 h1
    exact (Ext_fold impls pre _ _ h1).abs a habs
  · intro tc he hlc
    subst he
    exact fold_defines impls c tc hlc pre post _ sch hfold

/-- the schema after a successful `%import` of a new component, compared with the one before -/
theorem lsImport_ext (st st1 : LS) (pkg url : Str) (types : List (Str × TypeEntry))
    (impls : List (Str × Str)) (hp : st.pkgs pkg = .component url types impls)
    (hnew : st.schema.components.contains url = false) (himp : lsImport st pkg = .ok st1) :
    Ext impls (types.map (·.1)) { st.schema with components := st.schema.components ++ [url] } st1.schema := by
  obtain ⟨sch, hfold, rfl⟩ := lsImport_ok_new st st1 pkg url types impls hp hnew himp
  exact Ext_fold impls types _ sch hfold

/-- a header line standing BEFORE any `%import` line is judged by the schema the load started with: if the whole text
    is accepted, the header's type was a known concrete type of that schema and one of that schema's slots took it -/
theorem header_before_import (env : Env)
    (hres : ∀ u ls, env.res u = some ls → ∀ l ∈ ls, NoImportLine l)
    (fuel : Nat) (active : List Str) (url : Option Str) (A B : List Str) (l : Str) (n : Nat) (st st' : PS LS)
    (hA : ∀ x ∈ A, NoImportLine x) (ty : Str) (nm : Option Str) (e : Bool)
    (hs : lineShape (strip l) = .open_ ty nm e)
    (h : parseLines fuel env loaderCtx active url (A ++ l :: B) n st = .ok st') :
    ∃ st1 parent below t ci, runLines fuel env loaderCtx active url A n st = .ok st1 ∧
      st1.ctx.stack = parent :: below ∧ st.ctx.schema.gettype ty = some (.concrete t) ∧
      getsectioninfo st.ctx.schema parent.ty (t.name.getD []) nm = .ok ci ∧
      isAllowedName ci nm = true := by
  rw [parseLines_append] at h
  obtain ⟨st1, h1, h2⟩ := bind_ok_inv h
  rw [parseLines] at h2
  obtain ⟨s2, hstep, _⟩ := bind_ok_inv h2
  rw [stepLine] at hstep
  simp only [hs] at hstep
  have hsch := run_without_import_keeps_schema env hres fuel active url A n st st1 hA h1
  unfold openSection at hstep
  split at hstep
  · cases hstep
  · cases hstep
  · rename_i ctx1 hstart
    obtain ⟨parent, below, t, ci, hst, hg, hgi, hal, _⟩ := lsStart_ok_inv _ _ _ _ hstart
    rw [hsch] at hg hgi
    exact ⟨st1, parent, below, t, ci, h1, hst, hg, hgi, hal⟩

end ZCV.Cfg
