import ZCV.Lemmas.LoadStep
/-!
Step 3 of `loadTree_eq_denote`: `finishMatcher` on a matcher that satisfies the invariant computes `attrsVal`.
-/
namespace ZCV.Conf
open ZCV ZCV.Cfg

theorem toOption_map {ε α β} (x : Except ε α) (f : α → β) : (x.map f).toOption = x.toOption.map f := by
  cases x <;> rfl

/-- pass 1 of `finishMatcher` for one child -/
def fin1 (m : Matcher) (c : Option Str × Info) : M (Info × Slot) :=
  match getSlot m c.2.attr with
  | some sl => (finishChild c.2 sl).map fun r => (c.2, r)
  | Option.none => .error (.internal "KeyError")

/-- pass 2 of `finishMatcher` for one child -/
def fin2 (conv : Conv) (s : Schema) (p : Info × Slot) : M (Info × Val) :=
  (constructChild conv s p.1 p.2).map fun v => (p.1, v)

def finishMatcher' (conv : Conv) (s : Schema) (m : Matcher) : M (Val × List (Str × Val)) := do
  let slots ← m.ty.children.mapM (fin1 m)
  let vals ← slots.mapM (fin2 conv s)
  pure (.sect (m.ty.name.getD []) m.name (vals.map fun p => (p.1.attr, p.2)),
        vals.filterMap fun p => p.1.handler.map fun h => (h, p.2))

theorem finishMatcher_eq' (conv : Conv) (s : Schema) (m : Matcher) (hb : m.bag = none) :
    finishMatcher conv s m = finishMatcher' conv s m := by
  unfold finishMatcher
  have hfb : finishBag conv m = .ok m := by unfold finishBag; rw [hb]
  rw [hfb]
  rfl

theorem finishMatcher_eq (conv : Conv) (s : Schema) (m : Matcher) (hb : m.bag = none) :
    (finishMatcher conv s m).map (·.1) =
      ((m.ty.children.mapM (fin1 m) >>= fun slots => slots.mapM (fin2 conv s)).map fun vals =>
        Val.sect (m.ty.name.getD []) m.name (vals.map fun p => (p.1.attr, p.2))) := by
  rw [finishMatcher_eq' conv s m hb]
  unfold finishMatcher'
  simp only [bind, Except.bind]
  cases m.ty.children.mapM (fin1 m) with
  | error e => rfl
  | ok slots =>
    simp only
    cases slots.mapM (fin2 conv s) with
    | error e => rfl
    | ok vals => rfl

/-! ### key children -/

theorem convVI_toOption (conv : Conv) (dt : Str) (vi : VI) :
    (convVI conv dt vi).toOption = (conv.val dt vi.value).toOption := by
  unfold convVI
  cases conv.val dt vi.value <;> rfl

theorem convAll_eq (conv : Conv) (dt : Str) (vs : List VI) :
    (vs.mapM (convVI conv dt)).toOption = convAll conv dt vs := by
  unfold convAll
  rw [mapM_toOption, mapM_eq_omap]
  apply omap_congr
  intro a _
  exact convVI_toOption conv dt a

theorem beq_nil_isEmpty {α} [BEq α] (l : List α) : (l == []) = l.isEmpty := by
  cases l <;> rfl

theorem convAll_eq' (conv : Conv) (dt : Str) (vs : List VI) :
    omap (fun a => (convVI conv dt a).toOption) vs = convAll conv dt vs := by
  rw [← convAll_eq, mapM_toOption]

theorem key_finish (conv : Conv) (s : Schema) (ki : KeyInfo) (rs : List (Str × VI)) (hov : keyOver ki rs = true) :
    ((finishChild (.key ki) (keySlot ki rs)) >>= fun sl => constructChild conv s (.key ki) sl).toOption =
      keyVal conv ki rs := by
  unfold keySlot keyVal finishChild
  unfold keyOver at hov
  by_cases hp : (ki.name == ['+']) = true
  · by_cases hm : ki.multi = true
    · simp only [hp, hm, if_true]
      by_cases h1 : ki.minOccurs > (groupKeys rs).length
      · simp only [h1, if_true]; rfl
      · simp only [h1, if_false, beq_nil_isEmpty]
        generalize (if (groupKeys rs).isEmpty = true then (match ki.dflt with | .keyedMany d => d | _ => []) else groupKeys rs) = mp
        by_cases h2 : mp.length < ki.minOccurs
        · simp only [h2, if_true]; rfl
        · simp only [h2, if_false, bind, Except.bind, constructChild, toOption_map, mapM_toOption, mapM_eq_omap, convAll_eq']
    · simp only [hp, hm, if_true, if_false, Bool.false_eq_true] at hov ⊢
      simp only [hov, Bool.not_true, Bool.false_eq_true, if_false]
      by_cases h1 : ki.minOccurs > rs.length
      · simp only [h1, if_true]; rfl
      · simp only [h1, if_false, bind, Except.bind, constructChild, toOption_map, mapM_toOption, mapM_eq_omap,
          convVI_toOption, beq_nil_isEmpty]
        rfl
  · by_cases hm : ki.multi = true
    · simp only [hp, hm, if_true, if_false, Bool.false_eq_true, beq_nil_isEmpty]
      generalize (if (rs.map (·.2)).isEmpty = true then (match ki.dflt with | .many d => d | _ => []) else rs.map (·.2)) = vs
      by_cases h2 : vs.length < ki.minOccurs
      · simp only [h2, if_true]; rfl
      · simp only [h2, if_false, bind, Except.bind, constructChild, toOption_map, convAll_eq]
    · simp only [hp, hm, if_false, Bool.false_eq_true, decide_eq_true_eq] at hov ⊢
      match rs, hov with
      | [], _ =>
        simp only
        by_cases h0 : ki.minOccurs > 0
        · simp only [h0, if_true]
          cases ki.dflt <;> rfl
        · simp only [h0, if_false]
          cases ki.dflt <;> simp [bind, Except.bind, constructChild, convVI_toOption]
      | [x], _ => simp [bind, Except.bind, constructChild, convVI_toOption]
      | x :: y :: l, h => simp at h

/-! ### section children -/

def sectConvF (conv : Conv) (s : Schema) (v : Val) : M Val :=
  match v with
  | .sect ty _ _ =>
    match s.gettype ty with
    | some (.concrete t) =>
      match conv.sect t.datatype v with
      | .ok r => .ok r
      | .error e => .error (convFail e none { line := -1, url := none } "section datatype")
    | _ => .error (.internal "AttributeError")
  | other => .ok other

theorem constructChild_sects (conv : Conv) (s : Schema) (si : SectInfo) (vs : List Val) :
    constructChild conv s (.sect si) (.sects vs) = (vs.mapM (sectConvF conv s)).map Val.list := rfl

theorem constructChild_sect (conv : Conv) (s : Schema) (si : SectInfo) (v : Val) :
    constructChild conv s (.sect si) (.sect v) = sectConvF conv s v := rfl

theorem constructChild_sect_none (conv : Conv) (s : Schema) (si : SectInfo) :
    constructChild conv s (.sect si) .none = .ok .none := rfl

theorem sectConvF_raw (conv : Conv) (s : Schema) (r : SecR) :
    (sectConvF conv s r.raw).toOption = sectVal conv s r := by
  unfold sectConvF sectVal SecR.raw
  simp only
  cases s.gettype r.ty with
  | none => rfl
  | some te =>
    cases te with
    | abstract_ n subs => rfl
    | concrete tc =>
      simp only
      cases conv.sect tc.datatype (Val.sect r.ty r.nm r.attrs) <;> rfl

theorem sect_finish (conv : Conv) (s : Schema) (si : SectInfo) (mine : List SecR)
    (hov : sectOver si mine.length = true) :
    ((finishChild (.sect si) (sectSlot si mine)) >>= fun sl => constructChild conv s (.sect si) sl).toOption =
      slotVal si (mine.map (toSub conv s)) := by
  unfold sectSlot slotVal finishChild
  unfold sectOver at hov
  by_cases hm : si.multi = true
  · simp only [hm, if_true, List.length_map]
    by_cases h1 : mine.length < si.minOccurs
    · simp only [h1, if_true]; rfl
    · simp only [h1, if_false, bind, Except.bind, constructChild_sects, toOption_map, mapM_toOption, mapM_eq_omap,
        omap_map_list, sectConvF_raw]
      rfl
  · simp only [hm, if_false, Bool.false_eq_true, Bool.false_or, decide_eq_true_eq] at hov ⊢
    match mine, hov with
    | [], _ =>
      simp only [List.map_nil]
      by_cases h0 : si.minOccurs > 0
      · simp only [h0, if_true]; rfl
      · simp only [h0, if_false]; rfl
    | [r], _ =>
      simp only [List.map_cons, List.map_nil, bind, Except.bind, constructChild_sect, sectConvF_raw]
      rfl
    | x :: y :: l, h => simp at h

/-! ### the whole matcher -/

theorem child_finish (conv : Conv) (s : Schema) (t : SType) (nm : Option Str) (kl : List (Option Str × VI))
    (secs : List SecR) (hT : STypeOK s t) (c : Option Str × Info) (hc : c ∈ t.children)
    (hov : noOver s t c kl (secs.map (toSub conv s)) = true) :
    (fin1 (mk s t nm kl secs) c >>= fin2 conv s).toOption =
      (childVal conv s t kl (secs.map (toSub conv s)) c).map fun v => (c.2, v) := by
  unfold fin1
  rw [getSlot_mk s t nm kl secs hT c hc]
  simp only
  have e : ((finishChild c.2 (slotFn s t c kl secs)).map (fun r => (c.2, r)) >>= fin2 conv s) =
      ((finishChild c.2 (slotFn s t c kl secs)) >>= fun sl => constructChild conv s c.2 sl).map (fun v => (c.2, v)) := by
    cases finishChild c.2 (slotFn s t c kl secs) with
    | error e => rfl
    | ok sl => rfl
  rw [e, toOption_map]
  congr 1
  unfold noOver at hov
  unfold slotFn
  cases hc2 : c.2 with
  | key ki =>
    rw [hc2] at hov
    simp only
    rw [key_finish conv s ki _ hov, childVal_key _ _ _ _ _ _ _ hc2]
  | sect si =>
    rw [hc2] at hov
    simp only [filter_toSub, List.length_map] at hov ⊢
    rw [sect_finish conv s si _ hov, childVal_sect _ _ _ _ _ _ _ hc2, filter_toSub]

/-- **finish**: a matcher that satisfies the invariant produces the attributes the schema defines -/
theorem finish_mk (conv : Conv) (s : Schema) (t : SType) (nm : Option Str) (kl : List (Option Str × VI))
    (secs : List SecR) (hT : STypeOK s t) (hg : Good s t kl (secs.map (toSub conv s))) :
    ((finishMatcher conv s (mk s t nm kl secs)).map (·.1)).toOption =
      (attrsVal conv s t kl (secs.map (toSub conv s))).map fun attrs => Val.sect (t.name.getD []) nm attrs := by
  rw [finishMatcher_eq conv s _ rfl, toOption_map, mapM_mapM_toOption]
  have hty : (mk s t nm kl secs).ty = t := rfl
  have hname : (mk s t nm kl secs).name = nm := rfl
  rw [hty, hname]
  rw [omap_congr _ _ _ (fun c hc => child_finish conv s t nm kl secs hT c hc (hg.over c hc))]
  unfold attrsVal
  rw [mapM_eq_omap]
  have := omap_map (fun c => (childVal conv s t kl (secs.map (toSub conv s)) c).map fun v => (c.2, v))
    (fun (p : Info × Val) => (p.1.attr, p.2)) t.children
  simp only [Option.map_map, Function.comp_def] at this
  rw [← this, Option.map_map]
  rfl

end ZCV.Conf
