import ZCV.Lemmas.ParseGen
import ZCV.Lemmas.NoInternalRx
/-!
C07, parser part (generic in the context): if the four callbacks of a context never answer `.internal` on states
satisfying an invariant `Inv n` (`n` = number of sections that may still be closed) and preserve it, then
`stepLine` / `parseLines` never end in `.internal` — except for the deliberate `NotImplementedError` of a context that
refuses `%define` / `%include` — provided the include environment is total (`resolve` never `.unknown`) and finite
(the resources that can be opened are among `urls`, none of them under the empty URL) and the fuel is at least the
number of resources not yet being read.
-/
namespace ZCV.Cfg
open ZCV

/-! ### the hypotheses -/

/-- the include environment: `resolve` always answers (`.unknown` is a harness artefact), and what it resolves to and
    can be opened has a non-empty URL (an empty URL escapes the "resource includes itself" test) out of the list `urls` -/
structure EnvOK (env : Env) (urls : List Str) : Prop where
  resolved : ∀ b a, env.resolve b a ≠ .unknown
  bounded : ∀ b a u, env.resolve b a = .url u → (env.res u).isSome = true → u ≠ [] ∧ u ∈ urls

/-- what is asked of the four callbacks; `Inv n a`: state `a` is fine and `n` sections may be closed -/
structure CtxOK {σ} (c : PCtx σ) (Inv : Nat → σ → Prop) : Prop where
  start : ∀ n a ty nm, Inv n a →
    (∀ e, c.start a ty nm ≠ .error (.internal e)) ∧ (∀ a', c.start a ty nm = .ok a' → Inv (n + 1) a')
  stop : ∀ n a ty nm, Inv (n + 1) a →
    (∀ e, c.stop a ty nm ≠ .error (.internal e)) ∧ (∀ a', c.stop a ty nm = .ok a' → Inv n a')
  value : ∀ n a k v p, Inv n a →
    (∀ e, c.value a k v p ≠ .error (.internal e)) ∧ (∀ a', c.value a k v p = .ok a' → Inv n a')
  imp : ∀ n a pkg, Inv n a →
    (∀ e, c.imp a pkg ≠ .error (.internal e)) ∧ (∀ a', c.imp a pkg = .ok a' → Inv n a')

/-- the only internal outcome left: the deliberate refusal of `%define` / `%include` -/
def NI {σ} (c : PCtx σ) (e : String) : Prop :=
  e = "NotImplementedError" ∧ (c.canDefine = false ∨ c.canInclude = false)

/-- the line is a `%define` or an `%include` -/
def Directive (l : Str) : Prop := ∃ a, lineShape l = .define a ∨ lineShape l = .include_ a

/-- number of resources of `urls` not being read at the moment -/
def remaining (urls active : List Str) : Nat := (urls.filter (fun u => !active.contains u)).length

/-! ### counting -/

theorem filter_length_le_of_imp {α} (p q : α → Bool) : ∀ (l : List α), (∀ x ∈ l, p x = true → q x = true) →
    (l.filter p).length ≤ (l.filter q).length := by
  intro l
  induction l with
  | nil => intro _; exact Nat.le_refl _
  | cons a l ih =>
    intro h
    have ih' := ih (fun x hx => h x (List.mem_cons_of_mem _ hx))
    simp only [List.filter_cons]
    by_cases hp : p a = true
    · have hq := h a List.mem_cons_self hp
      simp only [hp, hq, if_true, List.length_cons]
      omega
    · simp only [hp, if_false, Bool.false_eq_true]
      split
      · simp only [List.length_cons]; omega
      · exact ih'

theorem filter_length_lt_of_imp {α} (p q : α → Bool) : ∀ (l : List α), (∀ x ∈ l, p x = true → q x = true) →
    (∃ x ∈ l, q x = true ∧ p x = false) → (l.filter p).length < (l.filter q).length := by
  intro l
  induction l with
  | nil => intro _ ⟨x, hx, _⟩; cases hx
  | cons a l ih =>
    intro h ⟨x, hx, hqx, hpx⟩
    have himp : ∀ x ∈ l, p x = true → q x = true := fun x hx => h x (List.mem_cons_of_mem _ hx)
    simp only [List.filter_cons]
    rcases List.mem_cons.mp hx with rfl | hx'
    · simp only [hpx, hqx, if_true, if_false, Bool.false_eq_true, List.length_cons]
      have := filter_length_le_of_imp p q l himp
      omega
    · have ih' := ih himp ⟨x, hx', hqx, hpx⟩
      by_cases hp : p a = true
      · have hq := h a List.mem_cons_self hp
        simp only [hp, hq, if_true, List.length_cons]
        omega
      · simp only [hp, if_false, Bool.false_eq_true]
        split
        · simp only [List.length_cons]; omega
        · exact ih'

theorem remaining_pos (urls active : List Str) (u : Str) (hu : u ∈ urls) (ha : active.contains u = false) :
    0 < remaining urls active := by
  unfold remaining
  apply List.length_pos_of_mem (a := u)
  rw [List.mem_filter]
  exact ⟨hu, by simpa using ha⟩

theorem remaining_lt (urls active : List Str) (u : Str) (hu : u ∈ urls) (ha : active.contains u = false) :
    remaining urls (u :: active) < remaining urls active := by
  unfold remaining
  apply filter_length_lt_of_imp
  · intro x _ hx
    simp only [List.contains_cons, Bool.not_eq_true', Bool.or_eq_false_iff] at hx
    simpa using hx.2
  · exact ⟨u, hu, by simpa using ha, by simp⟩

/-! ### pieces that never end in `.internal` -/

theorem replace_no_internal (env : Env) (defs) (url : Option Str) (line : Nat) (t : Str) (e : String) :
    replace env defs url line t ≠ .error (.internal e) := by
  unfold replace
  split <;> intro h <;> cases h

theorem closeFixup_internal {σ} (url : Option Str) (line : Nat) (r : M σ) (e : String)
    (h : closeFixup url line r = .error (.internal e)) : r = .error (.internal e) := by
  unfold closeFixup at h
  split at h
  · cases h
  · split at h <;> cases h
  · exact h

theorem define_no_internal (env : Env) (url : Option Str) (line : Nat) (rest : Str) (defs : List (Str × Str))
    (hrest : splitWS1 rest ≠ []) (e : String) : define env url line rest defs ≠ .error (.internal e) := by
  unfold define
  split
  · rename_i h; exact absurd h hrest
  · intro h
    simp only [bind, Except.bind, pure, Except.pure, throw, throwThe, MonadExceptOf.throw] at h
    have hr := replace_no_internal env defs url line
    repeat' split at h
    all_goals first | (cases h; done) | skip
    all_goals (rename_i heq; cases h; first | exact hr _ _ heq | cases heq)

/-! ### one line, then a whole resource -/

/-- the statement proved about `parseLines` at a given fuel -/
def ParseGoal {σ} (c : PCtx σ) (Inv : Nat → σ → Prop) (env : Env) (urls : List Str) (fuel : Nat) : Prop :=
  ∀ (active : List Str) (url : Option Str) (lines : List Str) (n : Nat) (st : PS σ) (base : Nat),
    remaining urls active ≤ fuel → Inv (base + st.stack.length) st.ctx →
    (∀ e, parseLines fuel env c active url lines n st = .error (.internal e) →
      NI c e ∧ (c.canInclude = false → ∃ l ∈ lines, Directive (strip l))) ∧
    (∀ st', parseLines fuel env c active url lines n st = .ok st' → st'.stack = [] ∧ Inv base st'.ctx)

theorem stepLine_no_internal {σ} (c : PCtx σ) (Inv : Nat → σ → Prop) (hc : CtxOK c Inv) (env : Env) (urls : List Str)
    (henv : c.canInclude = true → EnvOK env urls) (fuel : Nat)
    (ih : ∀ f, fuel = f + 1 → ParseGoal c Inv env urls f)
    (active : List Str) (url : Option Str) (line : Nat) (l : Str) (st : PS σ) (base : Nat)
    (hfuel : remaining urls active ≤ fuel) (hinv : Inv (base + st.stack.length) st.ctx) :
    (∀ e, stepLine fuel env c active url line l st = .error (.internal e) →
      NI c e ∧ (c.canInclude = false → Directive l)) ∧
    (∀ st', stepLine fuel env c active url line l st = .ok st' → Inv (base + st'.stack.length) st'.ctx) := by
  cases hs : lineShape l with
  | skip =>
    rw [stepLine]; simp only [hs]
    exact ⟨fun e h => (by cases h), fun st' h => (by cases h; exact hinv)⟩
  | bad t =>
    rw [stepLine]; simp only [hs]
    exact ⟨fun e h => (by cases h), fun st' h => (by cases h)⟩
  | internal t => exact absurd hs (lineShape_no_internal l t)
  | close ty =>
    rw [stepLine]; simp only [hs]
    unfold closeSection
    split
    · exact ⟨fun e h => (by cases h), fun st' h => (by cases h)⟩
    · rename_i ot name T hst
      split
      · exact ⟨fun e h => (by cases h), fun st' h => (by cases h)⟩
      · rw [hst, List.length_cons, ← Nat.add_assoc] at hinv
        obtain ⟨h1, h2⟩ := hc.stop _ _ ty name hinv
        constructor
        · intro e h
          cases hr : closeFixup url line (c.stop st.ctx ty name) with
          | ok a => rw [hr] at h; cases h
          | error f =>
            rw [hr] at h
            simp only [Except.map] at h
            cases h
            exact absurd (closeFixup_internal _ _ _ _ hr) (h1 e)
        · intro st' h
          obtain ⟨c2, hc2, rfl⟩ := map_ok_inv h
          rw [closeFixup_ok_iff] at hc2
          exact h2 _ hc2
  | open_ ty nm isempty =>
    rw [stepLine]; simp only [hs]
    unfold openSection
    obtain ⟨h1, h2⟩ := hc.start _ _ ty nm hinv
    split
    · exact ⟨fun e h => (by cases h), fun st' h => (by cases h)⟩
    · rename_i f hne hf
      constructor
      · intro e h
        cases h
        exact absurd hf (h1 e)
      · intro st' h; cases h
    · rename_i ctx1 hstart
      have hinv1 := h2 _ hstart
      split
      · obtain ⟨h3, h4⟩ := hc.stop _ _ ty nm hinv1
        constructor
        · intro e h
          cases hr : closeFixup url line (c.stop ctx1 ty nm) with
          | ok a => rw [hr] at h; cases h
          | error f =>
            rw [hr] at h
            simp only [Except.map] at h
            cases h
            exact absurd (closeFixup_internal _ _ _ _ hr) (h3 e)
        · intro st' h
          obtain ⟨c2, hc2, rfl⟩ := map_ok_inv h
          rw [closeFixup_ok_iff] at hc2
          exact h4 _ hc2
      · constructor
        · intro e h; cases h
        · intro st' h
          cases h
          simp only [List.length_cons]
          rw [← Nat.add_assoc]
          exact hinv1
  | kv key raw =>
    rw [stepLine]; simp only [hs]
    rw [keyValue_eq]
    have hrep : ∀ e, (if raw == [] then (pure [] : M Str) else replace env st.defs url line raw) ≠ .error (.internal e) := by
      intro e
      split
      · intro h; cases h
      · exact replace_no_internal _ _ _ _ _ _
    cases hv : (if raw == [] then (pure [] : M Str) else replace env st.defs url line raw) with
    | error f =>
      constructor
      · intro e h
        cases h
        exact absurd hv (hrep e)
      · intro st' h; cases h
    | ok v =>
      simp only [bind, Except.bind]
      unfold kvCore
      obtain ⟨h1, h2⟩ := hc.value _ _ key v { line := line, url := url } hinv
      split
      · rename_i ctx1 hval
        exact ⟨fun e h => (by cases h), fun st' h => (by cases h; exact h2 _ hval)⟩
      · exact ⟨fun e h => (by cases h), fun st' h => (by cases h)⟩
      · rename_i f hne hf
        constructor
        · intro e h
          cases h
          exact absurd hf (h1 e)
        · intro st' h; cases h
  | define arg =>
    rw [stepLine_define _ _ _ _ _ _ _ _ _ hs]
    unfold defStep
    split
    · rename_i hcd
      constructor
      · intro e h
        cases h
        exact ⟨⟨rfl, .inl (by simpa using hcd)⟩, fun _ => ⟨arg, .inl hs⟩⟩
      · intro st' h; cases h
    · constructor
      · intro e h
        cases hd : define env url line arg st.defs with
        | ok d => rw [hd] at h; cases h
        | error f =>
          rw [hd] at h
          simp only [Except.map] at h
          cases h
          exact absurd hd (define_no_internal _ _ _ _ _ (lineShape_define_arg l arg hs) e)
      · intro st' h
        obtain ⟨d, _, rfl⟩ := map_ok_inv h
        exact hinv
  | import_ arg =>
    rw [stepLine_import _ _ _ _ _ _ _ _ _ hs]
    unfold impStep
    cases hr : replace env st.defs url line (strip arg) with
    | error f =>
      constructor
      · intro e h
        cases h
        exact absurd hr (replace_no_internal _ _ _ _ _ e)
      · intro st' h; cases h
    | ok pkg =>
      simp only [bind, Except.bind]
      obtain ⟨h1, h2⟩ := hc.imp _ _ pkg hinv
      constructor
      · intro e h
        cases hi : c.imp st.ctx pkg with
        | ok a => rw [hi] at h; cases h
        | error f =>
          rw [hi] at h
          simp only [Except.map] at h
          cases h
          exact absurd hi (h1 e)
      · intro st' h
        obtain ⟨a, ha, rfl⟩ := map_ok_inv h
        exact h2 _ ha
  | include_ arg =>
    rw [stepLine_include _ _ _ _ _ _ _ _ _ hs]
    unfold incStep
    cases hr : replace env st.defs url line (strip arg) with
    | error f =>
      constructor
      · intro e h
        cases h
        exact absurd hr (replace_no_internal _ _ _ _ _ e)
      · intro st' h; cases h
    | ok a =>
      simp only [bind, Except.bind]
      split
      · rename_i hci
        constructor
        · intro e h
          cases h
          exact ⟨⟨rfl, .inr (by simpa using hci)⟩, fun _ => ⟨arg, .inr hs⟩⟩
        · intro st' h; cases h
      · rename_i hci
        have hci' : c.canInclude = true := by simpa using hci
        have he := henv hci'
        split
        · exact ⟨fun e h => (by cases h), fun st' h => (by cases h)⟩
        · rename_i hres
          exact absurd hres (he.resolved _ _)
        · rename_i u hres
          split
          · exact ⟨fun e h => (by cases h), fun st' h => (by cases h)⟩
          · rename_i lines hlines
            obtain ⟨hu1, hu2⟩ := he.bounded _ _ u hres (by rw [hlines]; rfl)
            split
            · exact ⟨fun e h => (by cases h), fun st' h => (by cases h)⟩
            · rename_i hact
              have hact' : active.contains u = false := by
                have : (u != []) = true := by simpa using hu1
                simpa [this] using hact
              split
              · have := remaining_pos urls active u hu2 hact'
                omega
              · rename_i fuel'
                have hlt := remaining_lt urls active u hu2 hact'
                obtain ⟨g1, g2⟩ := ih fuel' rfl (u :: active) (some u) lines 0
                  { ctx := st.ctx, stack := [], defs := st.defs } (base + st.stack.length) (by omega) hinv
                constructor
                · intro e h
                  cases hp : parseLines fuel' env c (u :: active) (some u) lines 0
                      { ctx := st.ctx, stack := [], defs := st.defs } with
                  | ok sub => rw [hp] at h; cases h
                  | error f =>
                    rw [hp] at h
                    cases h
                    exact ⟨(g1 e hp).1, fun hcf => by rw [hci'] at hcf; cases hcf⟩
                · intro st' h
                  cases hp : parseLines fuel' env c (u :: active) (some u) lines 0
                      { ctx := st.ctx, stack := [], defs := st.defs } with
                  | error f => rw [hp] at h; cases h
                  | ok sub =>
                    rw [hp] at h
                    cases h
                    exact (g2 sub hp).2

theorem parseLines_no_internal_of_step {σ} (c : PCtx σ) (Inv : Nat → σ → Prop) (env : Env) (urls : List Str) (fuel : Nat)
    (hstep : ∀ (active : List Str) (url : Option Str) (line : Nat) (l : Str) (st : PS σ) (base : Nat),
      remaining urls active ≤ fuel → Inv (base + st.stack.length) st.ctx →
      (∀ e, stepLine fuel env c active url line l st = .error (.internal e) →
        NI c e ∧ (c.canInclude = false → Directive l)) ∧
      (∀ st', stepLine fuel env c active url line l st = .ok st' → Inv (base + st'.stack.length) st'.ctx)) :
    ParseGoal c Inv env urls fuel := by
  intro active url lines
  induction lines with
  | nil =>
    intro n st base _ hinv
    rw [parseLines]
    split
    · exact ⟨fun e h => (by cases h), fun st' h => (by cases h)⟩
    · rename_i hne
      have hnil : st.stack = [] := by simpa using hne
      constructor
      · intro e h; cases h
      · intro st' h
        cases h
        rw [hnil] at hinv
        exact ⟨hnil, hinv⟩
  | cons l rest ihl =>
    intro n st base hfuel hinv
    rw [parseLines]
    obtain ⟨h1, h2⟩ := hstep active url (n + 1) (strip l) st base hfuel hinv
    cases hs : stepLine fuel env c active url (n + 1) (strip l) st with
    | error f =>
      constructor
      · intro e h
        cases h
        exact ⟨(h1 e hs).1, fun hcf => ⟨l, List.mem_cons_self, (h1 e hs).2 hcf⟩⟩
      · intro st' h; cases h
    | ok s1 =>
      simp only [bind, Except.bind]
      obtain ⟨k1, k2⟩ := ihl (n + 1) s1 base hfuel (h2 s1 hs)
      refine ⟨fun e h => ?_, k2⟩
      obtain ⟨m1, m2⟩ := k1 e h
      refine ⟨m1, fun hcf => ?_⟩
      obtain ⟨l', hl', hd⟩ := m2 hcf
      exact ⟨l', List.mem_cons_of_mem _ hl', hd⟩

/-- **generic no-internal theorem for the parser** -/
theorem parseLines_no_internal {σ} (c : PCtx σ) (Inv : Nat → σ → Prop) (hc : CtxOK c Inv) (env : Env) (urls : List Str)
    (henv : c.canInclude = true → EnvOK env urls) : ∀ fuel, ParseGoal c Inv env urls fuel := by
  intro fuel
  induction fuel with
  | zero =>
    apply parseLines_no_internal_of_step
    intro active url line l st base hf hi
    exact stepLine_no_internal c Inv hc env urls henv 0 (fun f hf => by omega) active url line l st base hf hi
  | succ f ihf =>
    apply parseLines_no_internal_of_step
    intro active url line l st base hf hi
    exact stepLine_no_internal c Inv hc env urls henv (f + 1) (fun f' hf' => by
      have : f = f' := by omega
      subst this; exact ihf) active url line l st base hf hi

end ZCV.Cfg
