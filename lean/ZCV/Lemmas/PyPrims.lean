import ZCV.Py
import ZCV.Lemmas.Regex
/-!
Lemmas about the Python primitives of `ZCV/Py.lean` (used by the code-equality proofs `CodeEq*.lean`):
how `Py.slice`, `Py.find1`, `Py.rsplit1`, `Py.startsWithAt`, `Py.reMatchAt` relate to the `List.take/drop`
arithmetic the hand-written models use.
-/
namespace ZCV.Py
open ZCV ZCV.Rx

/-- every way a pattern can match leaves a remainder no longer than what it started from -/
theorem m_length_le (w : Nat) (r : RE) (f : Nat) (st : St) : ∀ st' ∈ m w r f st, st'.1.length ≤ st.1.length := by
  induction r, f, st using m.induct w with
  | case1 f st => intro st' h; simp [m] at h; subst h; exact Nat.le_refl _
  | case2 k f cs c t hk => intro st' h; simp [m, hk] at h; subst h; simp
  | case3 k f cs c t hk => intro st' h; simp [m, hk] at h
  | case4 k f cs => intro st' h; simp [m] at h
  | case5 f cs c t hc => intro st' h; simp [m, hc] at h; subst h; simp
  | case6 f cs c t hc => intro st' h; simp [m, hc] at h
  | case7 f cs => intro st' h; simp [m] at h
  | case8 a b f s ihb iha =>
    intro st' h
    rw [m, List.mem_flatMap] at h
    obtain ⟨mid, h1, h2⟩ := h
    exact Nat.le_trans (ihb mid st' h2) (iha mid h1)
  | case9 a b f s iha ihb =>
    intro st' h
    rw [m, List.mem_append] at h
    cases h with
    | inl h => exact iha st' h
    | inr h => exact ihb st' h
  | case10 a f s iha =>
    intro st' h
    rw [m, List.mem_append] at h
    cases h with
    | inl h => exact iha st' h
    | inr h => simp at h; subst h; exact Nat.le_refl _
  | case11 a s => intro st' h; simp [m] at h; subst h; exact Nat.le_refl _
  | case12 a f s ihs iha =>
    intro st' h
    rw [m, List.mem_append] at h
    cases h with
    | inl h =>
      rw [List.mem_flatMap] at h
      obtain ⟨mid, h1, h2⟩ := h
      rw [List.mem_filter] at h1
      exact Nat.le_trans (ihs mid st' h2) (iha mid h1.1)
    | inr h => simp at h; subst h; exact Nat.le_refl _
  | case13 f s hb => intro st' h; simp [m, hb] at h; subst h; exact Nat.le_refl _
  | case14 f s hb => intro st' h; simp [m, hb] at h
  | case15 f s hb => intro st' h; simp [m] at h; rw [h.2]; exact Nat.le_refl _
  | case16 f s hb => intro st' h; simp [m] at h; rw [h.2]; exact Nat.le_refl _
  | case17 i a f s iha =>
    intro st' h
    rw [m, List.mem_map] at h
    obtain ⟨x, h1, h2⟩ := h
    subst h2
    exact iha x h1

theorem pyMatchAt_length_le (r : RE) (s : Str) (p : Nat) (st : St) (h : pyMatchAt r s p = some st) :
    st.1.length ≤ (s.drop p).length := by
  unfold pyMatchAt at h
  exact m_length_le _ _ _ _ st (List.mem_of_head? h)

/-! ## slices -/

theorem sliceIdx_ofNat (n a : Nat) : sliceIdx n (a : Int) = min a n := by
  unfold sliceIdx
  have : ¬ ((a : Int) < 0) := by omega
  simp [this]

theorem sliceIdx_neg (n k : Nat) (hk : 0 < k) : sliceIdx n (-(k : Int)) = n - k := by
  unfold sliceIdx
  have : (-(k : Int) < 0) := by omega
  simp only [this, ↓reduceIte]
  omega

theorem take_nil' {α} (n : Nat) : List.take n ([] : List α) = [] := by simp

/-- `s[a:b]` for non-negative `a`, `b` -/
theorem slice_nat (s : Str) (a b : Nat) : slice s (some (a : Int)) (some (b : Int)) = (s.drop a).take (b - a) := by
  unfold slice
  simp only [sliceIdx_ofNat]
  rw [List.drop_take]
  by_cases hb : b ≤ s.length
  · by_cases ha : a ≤ s.length
    · rw [Nat.min_eq_left hb, Nat.min_eq_left ha]
    · have ha' : s.length ≤ a := by omega
      rw [Nat.min_eq_left hb, Nat.min_eq_right ha']
      rw [List.drop_eq_nil_of_le (Nat.le_refl _), List.drop_eq_nil_of_le ha', take_nil', take_nil']
  · have hb' : s.length ≤ b := by omega
    rw [Nat.min_eq_right hb']
    by_cases ha : a ≤ s.length
    · rw [Nat.min_eq_left ha]
      rw [List.take_of_length_le (by simp), List.take_of_length_le (by simp; omega)]
    · have ha' : s.length ≤ a := by omega
      rw [Nat.min_eq_right ha', List.drop_eq_nil_of_le (Nat.le_refl _), List.drop_eq_nil_of_le ha', take_nil', take_nil']

/-- `s[a:]` for non-negative `a` -/
theorem slice_from_nat (s : Str) (a : Nat) : slice s (some (a : Int)) none = s.drop a := by
  unfold slice
  simp only [sliceIdx_ofNat, List.take_length]
  by_cases ha : a ≤ s.length
  · rw [Nat.min_eq_left ha]
  · have ha' : s.length ≤ a := by omega
    rw [Nat.min_eq_right ha', List.drop_eq_nil_of_le (Nat.le_refl _), List.drop_eq_nil_of_le ha']

/-- `s[:b]` for non-negative `b` -/
theorem slice_to_nat (s : Str) (b : Nat) : slice s none (some (b : Int)) = s.take b := by
  unfold slice
  simp only [sliceIdx_ofNat, List.drop_zero]
  by_cases hb : b ≤ s.length
  · rw [Nat.min_eq_left hb]
  · have hb' : s.length ≤ b := by omega
    rw [Nat.min_eq_right hb', List.take_of_length_le (Nat.le_refl _), List.take_of_length_le hb']

/-- `s[-k:]` for `k > 0` -/
theorem slice_last (s : Str) (k : Nat) (hk : 0 < k) : slice s (some (-(k : Int))) none = lastN s k := by
  unfold slice lastN
  simp only [sliceIdx_neg _ _ hk, List.take_length]

/-- `s[:-k]` for `k > 0` -/
theorem slice_dropLast (s : Str) (k : Nat) (hk : 0 < k) : slice s none (some (-(k : Int))) = dropLastN s k := by
  unfold slice dropLastN
  simp only [sliceIdx_neg _ _ hk, List.drop_zero]

/-- `s[-0:]` is `s[0:]` -/
theorem slice_last_zero (s : Str) : slice s (some (-((0 : Nat) : Int))) none = s := by
  have : -((0 : Nat) : Int) = ((0 : Nat) : Int) := by simp
  rw [this, slice_from_nat, List.drop_zero]

/-- `s[:-0]` is `s[:0]` -/
theorem slice_dropLast_zero (s : Str) : slice s none (some (-((0 : Nat) : Int))) = [] := by
  have : -((0 : Nat) : Int) = ((0 : Nat) : Int) := by simp
  rw [this, slice_to_nat, List.take_zero]

/-- `s[a:-k]` for `a ≥ 0`, `k > 0` -/
theorem slice_nat_neg (s : Str) (a k : Nat) (hk : 0 < k) :
    slice s (some (a : Int)) (some (-(k : Int))) = (s.drop a).take (s.length - k - a) := by
  unfold slice
  simp only [sliceIdx_ofNat, sliceIdx_neg _ _ hk]
  rw [List.drop_take]
  by_cases ha : a ≤ s.length
  · rw [Nat.min_eq_left ha]
  · have ha' : s.length ≤ a := by omega
    rw [Nat.min_eq_right ha', List.drop_eq_nil_of_le (Nat.le_refl _), List.drop_eq_nil_of_le ha', take_nil', take_nil']

theorem rsplit1_of_contains (s : Str) (c : Char) (h : s.contains c = true) :
    Py.rsplit1 s c = [(ZCV.rsplit1 s c).1, (ZCV.rsplit1 s c).2] := by
  unfold Py.rsplit1; simp only [h, ↓reduceIte]

theorem len_ne_one {α} (xs : List α) : (Py.len xs != (1 : Int)) = (xs.length != 1) := by
  unfold Py.len
  rw [Bool.eq_iff_iff]; simp only [bne_iff_ne, ne_eq]
  omega

/-- `s[-1]` -/
theorem index_neg_one (s : Str) :
    Py.index s (-1 : Int) = match s.getLast? with | some c => .ok [c] | none => .error .IndexError := by
  unfold Py.index
  cases s with
  | nil => rfl
  | cons a t =>
    have hk : ¬ (((a :: t).length : Int) + -1 < 0) := by simp only [List.length_cons]; omega
    have hn : (((a :: t).length : Int) + -1).toNat = (a :: t).length - 1 := by simp only [List.length_cons]; omega
    simp only [show ((-1 : Int) < 0) from by decide, ↓reduceIte, hk, hn, ← List.getLast?_eq_getElem?]
    cases (a :: t).getLast? <;> rfl

/-- `s[:-1]` -/
theorem slice_dropLast_one (s : Str) : Py.slice s none (some (-(1 : Int))) = s.dropLast := by
  have := slice_dropLast s 1 (by decide)
  rw [List.dropLast_eq_take]
  simpa [dropLastN] using this

/-! ## match objects -/

theorem take_beq_self (s : Str) (n : Nat) : (s.take n == s) = decide (s.length ≤ n) := by
  by_cases h : s.length ≤ n
  · simp [List.take_of_length_le h, h]
  · have : s.take n ≠ s := by
      intro e
      have := congrArg List.length e
      simp at this; omega
    simp [h, this]

theorem reMatch_eq (r : RE) (s : Str) :
    reMatch r s = (pyMatch r s).map fun st => { subject := s, start := 0, stop := s.length - st.1.length, caps := st.2 } := by
  unfold reMatch reMatchAt pyMatch pyMatchAt
  simp

/-- `m = rx.match(v)`; `m and m.group() == v` is the model's `matchesWhole` -/
theorem reMatch_whole (r : RE) (s : Str) :
    (match reMatch r s with | none => false | some m => m.group == s) = matchesWhole r s := by
  rw [reMatch_eq]
  unfold matchesWhole
  cases h : pyMatch r s with
  | none => rfl
  | some st =>
    have hl : st.1.length ≤ s.length := by
      have := pyMatchAt_length_le r s 0 st (by unfold pyMatchAt; unfold pyMatch at h; simpa using h)
      simpa using this
    simp only [Option.map_some, Match.group, List.drop_zero, Nat.sub_zero, take_beq_self]
    by_cases h0 : st.1 = []
    · simp [h0]
    · have : st.1.length ≠ 0 := by simpa using h0
      have h1 : ¬ (s.length ≤ s.length - st.1.length) := by omega
      simp [h0, h1]

/-! ## the same facts for index EXPRESSIONS (`i + 1`, `m.end() + 1 - 1` …): the side condition is closed by `omega` -/

theorem slice_nat' (s : Str) (x y : Int) (a b : Nat) (hx : x = a) (hy : y = b) :
    slice s (some x) (some y) = (s.drop a).take (b - a) := by subst hx hy; exact slice_nat s a b
theorem slice_from_nat' (s : Str) (x : Int) (a : Nat) (hx : x = a) : slice s (some x) none = s.drop a := by
  subst hx; exact slice_from_nat s a
theorem slice_to_nat' (s : Str) (y : Int) (b : Nat) (hy : y = b) : slice s none (some y) = s.take b := by
  subst hy; exact slice_to_nat s b

theorem find1_of_contains (s : Str) (c : Char) (h : s.contains c = true) : find1 s c = ((s.findIdx (· == c) : Nat) : Int) := by
  unfold find1; simp only [h, ↓reduceIte]

/-- `s.startswith(c, k)` for a one-character `c` and `k ≥ 0` -/
theorem startsWithAt_one (s : Str) (c : Char) (x : Int) (k : Nat) (hx : x = k) :
    startsWithAt s [c] x = ((s.drop k).take 1 == [c]) := by
  subst hx
  unfold startsWithAt
  have h0 : ¬ ((k : Int) < 0) := by omega
  simp only [h0, ↓reduceIte, Int.toNat_natCast, List.length_cons, List.length_nil, Nat.zero_add]
  by_cases hk : k + 1 ≤ s.length
  · simp only [hk, ↓reduceIte]
  · simp only [hk, ↓reduceIte]
    have : s.drop k = [] := List.drop_eq_nil_of_le (by omega)
    rw [this]; rfl

/-- `rx.match(s, pos)` for `pos ≥ 0`, as the pair (matched text, end) the models work with -/
theorem reMatchAt_pair (r : RE) (s : Str) (x : Int) (pos : Nat) (hx : x = pos) :
    (reMatchAt r s x).map (fun m => (m.group, m.stop)) =
      (pyMatchAt r s pos).map fun st => ((s.drop pos).take (s.length - st.1.length - pos), s.length - st.1.length) := by
  subst hx
  unfold reMatchAt
  have h0 : ¬ ((pos : Int) < 0) := by omega
  simp only [h0, ↓reduceIte, Int.toNat_natCast, Option.map_map]
  by_cases hp : pos ≤ s.length
  · rw [Nat.min_eq_left hp]; rfl
  · have hp' : s.length ≤ pos := by omega
    rw [Nat.min_eq_right hp']
    have e1 : pyMatchAt r s s.length = pyMatchAt r s pos := by
      unfold pyMatchAt
      rw [List.drop_eq_nil_of_le (Nat.le_refl _), List.drop_eq_nil_of_le hp']
    rw [e1]
    cases pyMatchAt r s pos with
    | none => rfl
    | some st =>
      simp only [Option.map_some, Function.comp, Match.group, Option.some.injEq, Prod.mk.injEq, and_true]
      rw [List.drop_eq_nil_of_le (Nat.le_refl _), List.drop_eq_nil_of_le hp', take_nil', take_nil']

end ZCV.Py
