import ZCV.Lemmas.ImportOvEval
import ZCV.Lemmas.ImportLoadText
/-!
From TEXT with `%import` lines and command-line overrides to top-level items: `Cfg.load` with specifiers = splitting the
specifiers, cooking the option bag, building the top-level items of the text (`treeOfI`) and running them from the state
the load starts with (`stOv`, with the bag).  Compared: acceptance, the configuration, the handler list and the schema
the load ends with.  (`load_eq_loadTops` of `ImportLoadReplay` is the case without specifiers and without the handler
list.)
-/
namespace ZCV.Conf
open ZCV ZCV.Cfg

/-- what the load reports: the configuration, the handler list, the schema the load ended with -/
def topsFinH (conv : Conv) (schema : Schema) (st : LS) : M (Val × List (Str × Val) × Schema) :=
  match st.stack with
  | [top] =>
    match finishMatcher conv st.schema top with
    | .error e => .error e
    | .ok (v, hs) =>
      match conv.sect schema.top.datatype v with
      | .ok r => .ok (r, st.handlers ++ hs ++ (match schema.handler with | some h => [(h, r)] | none => []), st.schema)
      | .error e => .error (convFail e none { line := -1, url := none } "schema datatype")
  | _ => .error (.internal "IndexError")

theorem loadFin_eq_topsFinH (conv : Conv) (s : Schema) (ps : PS LS) :
    (loadFin conv s ps).toOption.map (fun r => (r.value, r.handlers, r.schemaAfter)) = (topsFinH conv s ps.ctx).toOption := by
  unfold loadFin topsFinH
  cases hst : ps.ctx.stack with
  | nil => rfl
  | cons m r =>
    cases r with
    | cons m2 r2 => rfl
    | nil =>
      simp only [bind, Except.bind, pure, Except.pure, throw, throwThe, MonadExceptOf.throw]
      cases finishMatcher conv ps.ctx.schema m with
      | error e => rfl
      | ok vh =>
        obtain ⟨v, hs⟩ := vh
        simp only
        cases conv.sect s.top.datatype v <;> rfl

/-- **Context genericity, from any initial loader state** (one matcher on the stack): for a text that meets no `%import`
    inside a section, parsing the lines with the loader context = building the top-level items, then running them. -/
theorem parse_eq_runTops (conv : Conv) (env : Env) (s : Schema) (url : Option Str) (lines : List Str) (st0 : LS)
    (hlen : st0.stack.length = 1) (htop : importsAtTop env url lines) :
    (parseLines 64 env loaderCtx (activeOf url) url lines 0 { ctx := st0, stack := [], defs := [] } >>=
        loadFin conv s).toOption.map (fun r => (r.value, r.handlers, r.schemaAfter)) =
      (treeOfI env url lines).toOption.bind (fun tops => (runTops st0 tops >>= topsFinH conv s).toOption) := by
  have hsim := parse_simI loaderCtx treeCtxI (RI st0) (DI st0)
    (loaderSimI st0) env 64 (activeOf url) url lines 0
    { ctx := st0, stack := [], defs := [] }
    { ctx := { tops := [], stack := [], nested := false }, stack := [], defs := [] } []
    ⟨rfl, rfl, rfl, hlen, fun _ => rfl⟩
  unfold importsAtTop at htop
  unfold treeOfI
  rw [parseI_eq] at htop ⊢
  rw [toOption_bind, toOption_map]
  cases hL : parseLines 64 env loaderCtx (activeOf url) url lines 0 { ctx := st0, stack := [], defs := [] } with
  | ok psL =>
    rw [hL] at hsim
    obtain ⟨psT, hT, ⟨hstk, _, hshape, _, hrep⟩, hnil⟩ := hsim
    rw [toOption_eq_some] at hT
    rw [hT]
    have hn := htop psT hT
    have hrep := hrep hn
    have hts : psT.ctx.stack = [] := by
      rw [hnil] at hshape
      simpa using hshape
    unfold replayI at hrep
    rw [hts] at hrep
    simp only [toOption_ok, Option.bind_some, Option.map_some]
    rw [loadFin_eq_topsFinH]
    have : runTops st0 psT.ctx.tops.reverse = .ok psL.ctx := by
      cases hr : runTops st0 psT.ctx.tops.reverse with
      | error e => rw [hr] at hrep; cases hrep
      | ok x => rw [hr] at hrep; exact hrep
    rw [this]
    rfl
  | error e =>
    rw [hL] at hsim
    simp only [toOption_error, Option.bind_none, Option.map_none]
    cases hT : parseLines 64 env treeCtxI (activeOf url) url lines 0
        { ctx := { tops := [], stack := [], nested := false }, stack := [], defs := [] } with
    | error e' => rfl
    | ok psT =>
      have hd : DI st0 psT.ctx := hsim psT (by rw [hT]; rfl)
      obtain ⟨e1, he1⟩ := hd (htop psT hT)
      have hnil := parseLines_ok_stack_nil _ _ _ _ _ _ _ _ _ hT
      simp only [toOption_ok, Option.map_some, Option.bind_some]
      have hinv := parse_inv treeCtxI (fun F tb => tb.stack.map hdr = F) (shapeInvI st0) env 64 (activeOf url) url lines 0 _ psT [] rfl hT
      rw [hnil] at hinv
      have hts : psT.ctx.stack = [] := by simpa using hinv
      unfold replayI at he1
      rw [hts] at he1
      cases hr : runTops st0 psT.ctx.tops.reverse with
      | error e => rfl
      | ok x => rw [hr] at he1; cases he1

/-- **Text with `%import` lines and overrides = its top-level items run from the state the load starts with.** -/
theorem load_eq_runTopsOv (conv : Conv) (env : Env) (pkgs : Str → Pkg) (s : Schema) (url : Option Str) (lines : List Str)
    (specs : List Str) (htop : importsAtTop env url lines) :
    (load conv env pkgs s url lines specs).toOption.map (fun r => (r.value, r.handlers, r.schemaAfter)) =
      (specs.mapM addOption).toOption.bind fun ovs =>
        (bagOf conv s ovs).toOption.bind fun bag =>
          (treeOfI env url lines).toOption.bind fun tops =>
            (runTops (stOv conv pkgs s bag) tops >>= topsFinH conv s).toOption := by
  rw [load_ov_eq]
  cases hsp : specs.mapM addOption with
  | error e => rfl
  | ok ovs =>
    simp only [toOption_ok, Option.bind_some]
    show ((bagOf conv s ovs >>= fun bag =>
      parseLines 64 env loaderCtx (activeOf url) url lines 0 { ctx := stOv conv pkgs s bag, stack := [], defs := [] } >>=
        loadFin conv s).toOption.map (fun r => (r.value, r.handlers, r.schemaAfter))) = _
    cases hb : bagOf conv s ovs with
    | error e => rfl
    | ok bag =>
      simp only [toOption_ok, Option.bind_some]
      exact parse_eq_runTops conv env s url lines (stOv conv pkgs s bag) rfl htop

end ZCV.Conf
