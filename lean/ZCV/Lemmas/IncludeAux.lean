import ZCV.Model.Schemaless
import ZCV.Lemmas.Misc
/-! Generic (context-independent) auxiliary lemmas about `stepLine` / `parseLines`, used by `ZCV.Lemmas.Include`. -/
namespace ZCV.Cfg
open ZCV

/-! ### `Except` plumbing -/

theorem bind_ok_inv {ε α β} {x : Except ε α} {f : α → Except ε β} {b : β}
    (h : (x >>= f) = .ok b) : ∃ a, x = .ok a ∧ f a = .ok b := by
  cases x with
  | error e => cases h
  | ok a => exact ⟨a, rfl, h⟩

theorem map_ok_inv {ε α β} {x : Except ε α} {f : α → β} {b : β}
    (h : x.map f = .ok b) : ∃ a, x = .ok a ∧ f a = b := by
  cases x with
  | error e => cases h
  | ok a => simp [Except.map] at h; exact ⟨a, rfl, h⟩

@[simp] theorem toOption_ok {ε α} (a : α) : (Except.ok a : Except ε α).toOption = some a := rfl
@[simp] theorem toOption_error {ε α} (e : ε) : (Except.error e : Except ε α).toOption = none := rfl

theorem toOption_bind {ε α β} (x : Except ε α) (f : α → Except ε β) :
    (x >>= f).toOption = x.toOption.bind (fun a => (f a).toOption) := by
  cases x <;> rfl

theorem toOption_map {ε α β} (x : Except ε α) (f : α → β) :
    (x.map f).toOption = x.toOption.map f := by
  cases x <;> rfl

theorem toOption_eq_some {ε α} {x : Except ε α} {a : α} : x.toOption = some a ↔ x = .ok a := by
  cases x <;> simp

theorem option_bind_congr {α β} {x : Option α} {f g : α → Option β} (h : ∀ a, x = some a → f a = g a) :
    x.bind f = x.bind g := by
  cases x with
  | none => rfl
  | some a => exact h a rfl

/-! ### the arms of `stepLine` without `do` join points -/

/-- the part of `keyValue` after the value has been computed -/
def kvCore {σ} (c : PCtx σ) (url : Option Str) (line : Nat) (key value : Str) (st : PS σ) : M (PS σ) :=
  match c.value st.ctx key value { line := line, url := url } with
  | .ok ctx1 => .ok { st with ctx := ctx1 }
  | .error (.cfg e) =>
    .error (.cfg { e with line := (match e.line with | some l => if l < 0 then some (line : Int) else some l | none => some (line : Int)),
                          url := (match e.url with | some u => if u == [] then url else some u | none => url) })
  | .error f => .error f

theorem keyValue_eq {σ} (env : Env) (c : PCtx σ) (url : Option Str) (line : Nat) (key raw : Str) (st : PS σ) :
    keyValue env c url line key raw st =
      ((if raw == [] then pure [] else replace env st.defs url line raw) >>= fun v => kvCore c url line key v st) := by
  unfold keyValue
  split <;> rfl

/-- the `%include` arm of `stepLine` -/
def incStep {σ} (fuel : Nat) (env : Env) (c : PCtx σ) (active : List Str) (url : Option Str) (line : Nat) (arg : Str)
    (st : PS σ) : M (PS σ) :=
  replace env st.defs url line (strip arg) >>= fun a =>
    if !c.canInclude then .error (.internal "NotImplementedError") else
    match env.resolve url a with
    | .fragment => .error (.cfg { kind := .plain, url := none, tag := "fragment" })
    | .unknown => .error (.internal "unresolved-by-harness")
    | .url u =>
      match env.res u with
      | none => .error (.cfg { kind := .plain, url := some u, tag := "error opening" })
      | some lines =>
        if u != [] && active.contains u then .error (.cfg { kind := .plain, url := some u, tag := "resource includes itself" })
        else match fuel with
        | 0 => .error (.internal "RecursionError")
        | fuel' + 1 =>
          parseLines fuel' env c (u :: active) (some u) lines 0 { ctx := st.ctx, stack := [], defs := st.defs } >>= fun sub =>
            .ok { st with ctx := sub.ctx, defs := sub.defs }

theorem stepLine_include {σ} (fuel : Nat) (env : Env) (c : PCtx σ) (active : List Str) (url : Option Str) (line : Nat)
    (l arg : Str) (st : PS σ) (h : lineShape l = .include_ arg) :
    stepLine fuel env c active url line l st = incStep fuel env c active url line arg st := by
  rw [stepLine]
  simp only [h]
  unfold incStep
  cases replace env st.defs url line (strip arg) with
  | error e => rfl
  | ok a =>
    generalize c.canInclude = ci
    cases ci
    · rfl
    · generalize env.resolve url a = r
      cases r with
      | fragment => rfl
      | unknown => rfl
      | url u =>
        generalize env.res u = o
        cases o with
        | none => rfl
        | some lines =>
          generalize (u != [] && active.contains u) = b
          cases b
          · cases fuel <;> rfl
          · rfl

/-- the `%define` arm of `stepLine` -/
def defStep {σ} (env : Env) (c : PCtx σ) (url : Option Str) (line : Nat) (arg : Str) (st : PS σ) : M (PS σ) :=
  if !c.canDefine then .error (.internal "NotImplementedError")
  else (define env url line arg st.defs).map fun d => { st with defs := d }

theorem stepLine_define {σ} (fuel : Nat) (env : Env) (c : PCtx σ) (active : List Str) (url : Option Str) (line : Nat)
    (l arg : Str) (st : PS σ) (h : lineShape l = .define arg) :
    stepLine fuel env c active url line l st = defStep env c url line arg st := by
  rw [stepLine]
  simp only [h]
  unfold defStep
  show (if (!c.canDefine) = true then _ else _) = _
  split
  · rfl
  · cases define env url line arg st.defs <;> rfl

/-- the `%import` arm of `stepLine` -/
def impStep {σ} (env : Env) (c : PCtx σ) (url : Option Str) (line : Nat) (arg : Str) (st : PS σ) : M (PS σ) :=
  replace env st.defs url line (strip arg) >>= fun pkg => (c.imp st.ctx pkg).map fun ctx' => { st with ctx := ctx' }

theorem stepLine_import {σ} (fuel : Nat) (env : Env) (c : PCtx σ) (active : List Str) (url : Option Str) (line : Nat)
    (l arg : Str) (st : PS σ) (h : lineShape l = .import_ arg) :
    stepLine fuel env c active url line l st = impStep env c url line arg st := by
  rw [stepLine]
  simp only [h]
  unfold impStep
  cases replace env st.defs url line (strip arg) with
  | error e => rfl
  | ok a => generalize c.imp st.ctx a = r; cases r <;> rfl

/-! ### `parseLines` = fold of `stepLine`, then the "unclosed sections" check -/

/-- the check at the end of a resource -/
def finish {σ} (url : Option Str) (k : Nat) (st : PS σ) : M (PS σ) :=
  if st.stack != [] then .error (synErr url k "unclosed sections") else .ok st

/-- the loop of `parseLines` without the final check -/
def runLines {σ} (fuel : Nat) (env : Env) (c : PCtx σ) (active : List Str) (url : Option Str) :
    List Str → Nat → PS σ → M (PS σ)
  | [], _, st => .ok st
  | l :: rest, n, st =>
    stepLine fuel env c active url (n + 1) (strip l) st >>= fun s => runLines fuel env c active url rest (n + 1) s

theorem parseLines_eq_run {σ} (fuel : Nat) (env : Env) (c : PCtx σ) (active : List Str) (url : Option Str) :
    ∀ (lines : List Str) (n : Nat) (st : PS σ),
      parseLines fuel env c active url lines n st =
        runLines fuel env c active url lines n st >>= finish url (n + lines.length) := by
  intro lines
  induction lines with
  | nil => intro n st; rw [parseLines]; rfl
  | cons l rest ih =>
    intro n st
    rw [parseLines]
    simp only [runLines, bind_assoc]
    congr 1
    funext s
    rw [ih]
    have : n + 1 + rest.length = n + (l :: rest).length := by simp only [List.length_cons]; omega
    rw [this]

theorem runLines_append {σ} (fuel : Nat) (env : Env) (c : PCtx σ) (active : List Str) (url : Option Str) :
    ∀ (xs ys : List Str) (n : Nat) (st : PS σ),
      runLines fuel env c active url (xs ++ ys) n st =
        runLines fuel env c active url xs n st >>= runLines fuel env c active url ys (n + xs.length) := by
  intro xs
  induction xs with
  | nil => intro ys n st; rfl
  | cons l rest ih =>
    intro ys n st
    simp only [List.cons_append, runLines, bind_assoc]
    congr 1
    funext s
    rw [ih]
    have : n + 1 + rest.length = n + (l :: rest).length := by simp only [List.length_cons]; omega
    rw [this]

theorem parseLines_append {σ} (fuel : Nat) (env : Env) (c : PCtx σ) (active : List Str) (url : Option Str) :
    ∀ (xs ys : List Str) (n : Nat) (st : PS σ),
      parseLines fuel env c active url (xs ++ ys) n st =
        runLines fuel env c active url xs n st >>= parseLines fuel env c active url ys (n + xs.length) := by
  intro xs
  induction xs with
  | nil => intro ys n st; rfl
  | cons l rest ih =>
    intro ys n st
    rw [List.cons_append, parseLines]
    simp only [runLines, bind_assoc]
    congr 1
    funext s
    rw [ih]
    have : n + 1 + rest.length = n + (l :: rest).length := by simp only [List.length_cons]; omega
    rw [this]

/-! ### the loader context: section and key operations keep the schema -/

theorem openSection_schema (url : Option Str) (line : Nat) (ty : Str) (nm : Option Str) (e : Bool) (st st' : PS LS)
    (h : openSection loaderCtx url line ty nm e st = .ok st') : st'.ctx.schema = st.ctx.schema := by
  unfold openSection at h
  split at h
  · cases h
  · cases h
  · rename_i ctx1 h1
    have e1 := lsStart_schema _ _ _ _ h1
    split at h
    · obtain ⟨c2, hc2, rfl⟩ := map_ok_inv h
      rw [closeFixup_ok_iff] at hc2
      have e2 := lsStop_schema _ _ _ _ hc2
      simp [e2, e1]
    · cases h; simp [e1]

theorem closeSection_schema (url : Option Str) (line : Nat) (ty : Str) (st st' : PS LS)
    (h : closeSection loaderCtx url line ty st = .ok st') : st'.ctx.schema = st.ctx.schema := by
  unfold closeSection at h
  split at h
  · cases h
  · split at h
    · cases h
    · obtain ⟨c2, hc2, rfl⟩ := map_ok_inv h
      rw [closeFixup_ok_iff] at hc2
      exact lsStop_schema _ _ _ _ hc2

theorem keyValue_schema (env : Env) (url : Option Str) (line : Nat) (k raw : Str) (st st' : PS LS)
    (h : keyValue env loaderCtx url line k raw st = .ok st') : st'.ctx.schema = st.ctx.schema := by
  rw [keyValue_eq] at h
  obtain ⟨v, _, h⟩ := bind_ok_inv h
  unfold kvCore at h
  split at h
  · rename_i ctx1 h1
    cases h
    exact lsValue_schema _ _ _ _ _ h1
  · cases h
  · cases h

end ZCV.Cfg
