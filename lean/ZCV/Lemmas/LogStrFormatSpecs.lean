import ZCV.Lemmas.LogStrFormatPlain
/-!
The format specs `str`, `int` and `float` take (`strFormat`, `intFormat`, `floatFormat` of the model), spelled out on the
parsed spec.
-/
namespace ZCV.LogStrFormatLemmas
open ZCV ZCV.LogFormatSpec ZCV.LogStrFormat ZCV.LogStrFormatSpec ZCV.LogFormatLemmas
open ZCV.LogFormat (Value Dict FloatKind PyErr strCheck floatLimit maxUnicode hasInfix lookup sampleVars sampleDict
  intMaxStrDigits ctrlCharInsert isWord)

theorem sf_sizeCheck_ok (w p : Option Nat) : sizeCheck w p = .ok () ↔ w.getD 0 ≤ sizeLimit ∧ p.getD 0 ≤ sizeLimit := by
  unfold sizeCheck
  split
  · rename_i h
    simp only [Bool.or_eq_true, decide_eq_true_eq] at h
    constructor
    · intro h'; cases h'
    · intro h'; omega
  · rename_i h
    simp only [Bool.or_eq_true, decide_eq_true_eq, not_or, Nat.not_lt] at h
    simp [h]

/-- the `str` specs: `[[fill]align][0][width][.precision][s]` with an alignment other than `=` -/
theorem sf_strFormat_ok (spec : Str) :
    strFormat spec = .ok () ↔
      ∃ f, parseFSpec (some 's') spec = some f ∧ (f.type = none ∨ f.type = some 's') ∧ f.sign = none ∧ f.z = false ∧
        f.alt = false ∧ f.align ≠ some '=' ∧ f.width.getD 0 ≤ sizeLimit := by
  unfold strFormat
  cases hp : parseFSpec (some 's') spec with
  | none => simp
  | some f =>
    simp only [Option.some.injEq, exists_eq_left']
    split
    · rename_i h1
      have : ¬ (f.type = none ∨ f.type = some 's') := by
        rintro (h | h) <;> simp [h] at h1
      simp [this]
    · rename_i h1
      have ht : f.type = none ∨ f.type = some 's' := by
        cases hty : f.type with
        | none => exact .inl rfl
        | some c => simp [hty] at h1; exact .inr (by rw [h1])
      split
      · rename_i h2
        simp only [Bool.or_eq_true, Option.isSome_iff_ne_none, ne_eq, beq_iff_eq] at h2
        constructor
        · intro h; cases h
        · rintro ⟨_, h3, h4, h5, h6, _⟩
          rcases h2 with ((h2 | h2) | h2) | h2
          · exact absurd h3 h2
          · rw [h4] at h2; cases h2
          · rw [h5] at h2; cases h2
          · exact absurd h2 h6
      · rename_i h2
        simp only [Bool.or_eq_true, Option.isSome_iff_ne_none, ne_eq, beq_iff_eq, not_or, Decidable.not_not, Bool.not_eq_true] at h2
        rw [sf_sizeCheck_ok]
        simp [ht, h2]

theorem sf_sizeLimit_le : sizeLimit ≤ intMaxS := by decide

/-- the `float` specs: no type or one of `e E f F g G % n` -/
theorem sf_floatFormat_ok (spec : Str) :
    floatFormat spec = .ok () ↔
      ∃ f, parseFSpec none spec = some f ∧
        (f.type = none ∨ ∃ c, f.type = some c ∧ (isFloatType c = true ∨ c = 'n')) ∧
        f.width.getD 0 ≤ sizeLimit ∧ f.prec.getD 0 ≤ sizeLimit := by
  unfold floatFormat
  have hL := sf_sizeLimit_le
  cases hp : parseFSpec none spec with
  | none => simp
  | some f =>
    simp only [Option.some.injEq, exists_eq_left']
    cases hty : f.type with
    | none =>
      simp only [true_or, true_and]
      split
      · constructor
        · intro h; cases h
        · rintro ⟨_, h⟩; omega
      · exact sf_sizeCheck_ok _ _
    | some c =>
      simp only [reduceCtorEq, Option.some.injEq, exists_eq_left', false_or]
      split
      · rename_i h1
        have h1' : isFloatType c = true ∨ c = 'n' := by simpa using h1
        simp only [h1', true_and]
        split
        · constructor
          · intro h; cases h
          · rintro ⟨_, h⟩; omega
        · exact sf_sizeCheck_ok _ _
      · rename_i h1
        have h1' : ¬ (isFloatType c = true ∨ c = 'n') := by simpa using h1
        simp [h1']

/-- the `int` specs, for a number that prints and converts to `float`: the integer presentation types `b c d o x X n`
    (or none) without precision and without `z` — `c` moreover without sign and `#`, and only for a code point —, or the
    float presentation types `e E f F g G %` -/
theorem sf_intFormat_ok (spec : Str) (n : Int) (hs : strCheck (.int n) = .ok ())
    (hf : -floatLimit < n ∧ n < floatLimit) :
    intFormat spec n = .ok () ↔
      ∃ f, parseFSpec (some 'd') spec = some f ∧ f.width.getD 0 ≤ sizeLimit ∧
        ((isIntType (f.type.getD 'd') = true ∧ f.prec = none ∧ f.z = false ∧
            (f.type.getD 'd' = 'c' → f.sign = none ∧ f.alt = false ∧ 0 ≤ n ∧ n ≤ maxUnicode)) ∨
         (isFloatType (f.type.getD 'd') = true ∧ f.prec.getD 0 ≤ sizeLimit)) := by
  unfold intFormat
  have hL := sf_sizeLimit_le
  cases hp : parseFSpec (some 'd') spec with
  | none => simp
  | some f =>
    simp only [Option.some.injEq, exists_eq_left']
    generalize hty : f.type.getD 'd' = ty
    by_cases hi : isIntType ty = true
    · have hnf : isFloatType ty = false := by
        simp only [isIntType, Bool.or_eq_true, beq_iff_eq] at hi
        rcases hi with (((((h | h) | h) | h) | h) | h) | h <;> subst h <;> decide
      have hi' : (ty == 'b' || ty == 'c' || ty == 'd' || ty == 'o' || ty == 'x' || ty == 'X' || ty == 'n') = true := hi
      simp only [hi', if_true, hi, hnf, Bool.false_eq_true, false_and, or_false, true_and]
      by_cases hpz : (f.prec.isSome || f.z) = true
      · simp only [hpz, if_true]
        constructor
        · intro h; cases h
        · rintro ⟨_, h1, h2, _⟩
          simp [h1, h2] at hpz
      · have hpz' : f.prec = none ∧ f.z = false := by
          simp only [Bool.or_eq_true, not_or, Bool.not_eq_true, Option.isSome_eq_false_iff, Option.isNone_iff_eq_none] at hpz
          exact hpz
        rw [if_neg hpz]
        by_cases hc : ty = 'c'
        · subst hc
          have hcc : ('c' == 'c') = true := rfl
          rw [if_pos hcc]
          by_cases hsa : (f.sign.isSome || f.alt) = true
          · rw [if_pos hsa]
            constructor
            · intro h; cases h
            · rintro ⟨_, _, _, h⟩
              obtain ⟨h1, h2, _⟩ := h rfl
              simp [h1, h2] at hsa
          · have hsa' : f.sign = none ∧ f.alt = false := by
              simp only [Bool.or_eq_true, not_or, Bool.not_eq_true, Option.isSome_eq_false_iff, Option.isNone_iff_eq_none] at hsa
              exact hsa
            rw [if_neg hsa]
            by_cases hr : (0 ≤ n ∧ n ≤ maxUnicode)
            · rw [if_pos hr, sf_sizeCheck_ok]
              constructor
              · rintro ⟨h, _⟩; exact ⟨h, hpz'.1, hpz'.2, fun _ => ⟨hsa'.1, hsa'.2, hr.1, hr.2⟩⟩
              · rintro ⟨h, _⟩; exact ⟨h, Nat.zero_le _⟩
            · rw [if_neg hr]
              constructor
              · intro h; cases h
              · rintro ⟨_, _, _, h⟩
                obtain ⟨_, _, h3⟩ := h rfl
                exact absurd h3 hr
        · have hc' : (ty == 'c') = false := by simpa using hc
          have hcn : ¬ (ty == 'c') = true := by simp [hc']
          rw [if_neg hcn]
          have hsz : (f.width.getD 0 ≤ sizeLimit ∧ f.prec = none ∧ f.z = false ∧ (ty = 'c' → f.sign = none ∧ f.alt = false ∧ 0 ≤ n ∧ n ≤ maxUnicode))
              ↔ sizeCheck f.width none = .ok () := by
            rw [sf_sizeCheck_ok]
            constructor
            · rintro ⟨h, _⟩; exact ⟨h, Nat.zero_le _⟩
            · rintro ⟨h, _⟩; exact ⟨h, hpz'.1, hpz'.2, fun h' => absurd h' hc⟩
          rw [hsz]
          split
          · simp only [hs]
          · exact Iff.rfl
    · have hi' : (ty == 'b' || ty == 'c' || ty == 'd' || ty == 'o' || ty == 'x' || ty == 'X' || ty == 'n') = false := by
        simpa [isIntType] using hi
      simp only [hi', Bool.false_eq_true, if_false, hi, false_and, false_or]
      by_cases hfl : isFloatType ty = true
      · simp only [hfl, if_true, hf, and_self, true_and]
        split
        · constructor
          · intro h; cases h
          · rintro ⟨_, h⟩; omega
        · rw [sf_sizeCheck_ok]
      · simp only [hfl, Bool.false_eq_true, if_false, false_and, and_false]
        constructor
        · intro h; cases h
        · intro h; exact h.elim

/-- level and line numbers: `intFormat · 0` -/
theorem sf_intFormat_small (spec : Str) :
    intFormat spec 0 = .ok () ↔
      ∃ f, parseFSpec (some 'd') spec = some f ∧ f.width.getD 0 ≤ sizeLimit ∧
        ((isIntType (f.type.getD 'd') = true ∧ f.prec = none ∧ f.z = false ∧
            (f.type.getD 'd' = 'c' → f.sign = none ∧ f.alt = false)) ∨
         (isFloatType (f.type.getD 'd') = true ∧ f.prec.getD 0 ≤ sizeLimit)) := by
  have hL := sf_floatLimit_gt
  have h0 : -floatLimit < (0 : Int) ∧ (0 : Int) < floatLimit := by generalize floatLimit = F at hL ⊢; omega
  rw [sf_intFormat_ok spec 0 (lf_strCheck_of_float 0 h0) h0]
  have hm : (0 : Int) ≤ maxUnicode := by decide
  simp only [Int.le_refl, hm, and_true]

/-- thread and process ids: `intFormat · 0x110000` — the same without `c` -/
theorem sf_intFormat_big (spec : Str) :
    intFormat spec 0x110000 = .ok () ↔
      ∃ f, parseFSpec (some 'd') spec = some f ∧ f.width.getD 0 ≤ sizeLimit ∧
        ((isIntType (f.type.getD 'd') = true ∧ f.prec = none ∧ f.z = false ∧ f.type.getD 'd' ≠ 'c') ∨
         (isFloatType (f.type.getD 'd') = true ∧ f.prec.getD 0 ≤ sizeLimit)) := by
  have hL := sf_floatLimit_gt
  have h0 : -floatLimit < (0x110000 : Int) ∧ (0x110000 : Int) < floatLimit := by
    generalize floatLimit = F at hL ⊢; omega
  rw [sf_intFormat_ok spec 0x110000 (lf_strCheck_of_float _ h0) h0]
  have hm : ¬ ((0x110000 : Int) ≤ maxUnicode) := by decide
  simp only [hm, and_false, imp_false, ne_eq]

end ZCV.LogStrFormatLemmas
