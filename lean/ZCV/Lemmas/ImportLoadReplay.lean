import ZCV.Lemmas.ImportLoadSim
import ZCV.Lemmas.TextLoad
import ZCV.Lemmas.SlotsImport
import ZCV.Spec.ConformsImport
/-!
From TEXT with `%import` lines to top-level items: the loader reading lines (`Cfg.load`) does what the tree-driven
loader does on the `TopItem`s that the same parser builds with the structure-recording context `treeCtxI`
(`Conf.treeOfI`) — sections and keys through `runItem`, `%import`s through `lsImport` — provided no `%import` is met
inside a section.
-/
namespace ZCV.Conf
open ZCV ZCV.Cfg

/-! ### the loader driven by top-level items -/

def runTop (st : LS) : TopItem → M LS
  | .item i => runItem st i
  | .imp p => lsImport st p

def runTops (st : LS) : List TopItem → M LS
  | [] => .ok st
  | t :: r => runTop st t >>= fun s => runTops s r

theorem runTops_append : ∀ (l r : List TopItem) (st : LS),
    runTops st (l ++ r) = runTops st l >>= fun s => runTops s r
  | [], r, st => rfl
  | t :: l, r, st => by
    rw [List.cons_append, runTops, runTops, bind_assoc]
    congr 1
    funext s
    exact runTops_append l r s

theorem runTops_snoc (st : LS) (l : List TopItem) (t : TopItem) :
    runTops st (l ++ [t]) = runTops st l >>= fun s => runTop s t := by
  rw [runTops_append]
  congr 1
  funext s
  show (runTop s t >>= fun s' => Except.ok s') = _
  cases runTop s t <;> rfl

theorem bind_ok_right {α} (x : M α) : (x >>= fun s => Except.ok s) = x := by cases x <;> rfl

/-- the open sections (innermost first) replayed on top of the state `s` reached at top level -/
def replayOpen (s : LS) : List (Str × Option Str × List Item) → M LS
  | [] => .ok s
  | (ty, nm, items) :: rest =>
    replayOpen s rest >>= fun s' => lsStart s' ty nm >>= fun s1 => runItems s1 items.reverse

/-- the loader state after the calls recorded in a `TBI` -/
def replayI (st0 : LS) (tb : TBI) : M LS := runTops st0 tb.tops.reverse >>= fun s => replayOpen s tb.stack

theorem replayOpen_start (s : LS) (ty : Str) (nm : Option Str) (stk : List (Str × Option Str × List Item)) :
    replayOpen s ((ty, nm, []) :: stk) = replayOpen s stk >>= fun s' => lsStart s' ty nm := by
  rw [replayOpen]
  congr 1
  funext s'
  cases lsStart s' ty nm with
  | error e => rfl
  | ok s1 => simp [runItems, bind, Except.bind]

theorem replayOpen_value (s : LS) (ty : Str) (nm : Option Str) (k v : Str) (p : Pos) (items : List Item)
    (rest : List (Str × Option Str × List Item)) :
    replayOpen s ((ty, nm, Item.kv k v p :: items) :: rest) =
      replayOpen s ((ty, nm, items) :: rest) >>= fun s' => lsValue s' k v p := by
  rw [replayOpen, replayOpen, List.reverse_cons, bind_assoc]
  congr 1
  funext s'
  rw [bind_assoc]
  congr 1
  funext s1
  rw [runItems_snoc]
  congr 1

theorem runItems_sect_snoc (s : LS) (ty : Str) (nm : Option Str) (items pitems : List Item) :
    runItems s (Item.sect ty nm items.reverse :: pitems).reverse =
      runItems s pitems.reverse >>= fun s0 => lsStart s0 ty nm >>= fun s1 => runItems s1 items.reverse >>= fun s2 =>
        lsStop s2 ty nm := by
  rw [List.reverse_cons, runItems_snoc]
  congr 1
  funext s0
  exact runItem_sect _ _ _ _

theorem replayOpen_stop (s : LS) (ty pty : Str) (nm pnm : Option Str) (items pitems : List Item)
    (rest : List (Str × Option Str × List Item)) :
    replayOpen s ((pty, pnm, Item.sect ty nm items.reverse :: pitems) :: rest) =
      replayOpen s ((ty, nm, items) :: (pty, pnm, pitems) :: rest) >>= fun s' => lsStop s' ty nm := by
  rw [replayOpen, replayOpen, replayOpen]
  simp only [bind_assoc]
  congr 1
  funext s'
  congr 1
  funext s1
  rw [runItems_sect_snoc]

/-! ### each recording operation corresponds to the loader operation of the same name -/

def hdr (x : Str × Option Str × List Item) : Str × Option Str := (x.1, x.2.1)

theorem start_replay (st0 : LS) (tb tb' : TBI) (ty : Str) (nm : Option Str) (h : tbiStart tb ty nm = .ok tb') :
    replayI st0 tb' = (replayI st0 tb >>= fun s => lsStart s ty nm) ∧ tb'.nested = tb.nested ∧
      tb'.stack = (ty, nm, []) :: tb.stack := by
  cases h
  refine ⟨?_, rfl, rfl⟩
  unfold replayI
  simp only [bind_assoc]
  congr 1
  funext s
  exact replayOpen_start s ty nm tb.stack

theorem value_replay (st0 : LS) (tb tb' : TBI) (k v : Str) (p : Pos) (h : tbiValue tb k v p = .ok tb') :
    replayI st0 tb' = (replayI st0 tb >>= fun s => lsValue s k v p) ∧ tb'.nested = tb.nested ∧
      tb'.stack.map hdr = tb.stack.map hdr := by
  unfold tbiValue at h
  split at h
  · rename_i hst
    cases h
    refine ⟨?_, rfl, rfl⟩
    unfold replayI
    simp only [hst, replayOpen, List.reverse_cons]
    rw [runTops_snoc]
    simp only [bind_assoc]
    congr 1
    funext x
    simp only [runTop, ok_bind, bind_ok_right]
    rw [runItem]
  · rename_i ty nm items rest hst
    cases h
    refine ⟨?_, rfl, by simp [hst, hdr]⟩
    unfold replayI
    simp only [hst, bind_assoc]
    congr 1
    funext s
    exact replayOpen_value s ty nm k v p items rest

theorem stop_replay (st0 : LS) (tb tb' : TBI) (ty : Str) (nm : Option Str) (h : tbiStop tb ty nm = .ok tb') :
    ∃ ty1 nm1 items rest, tb.stack = (ty1, nm1, items) :: rest ∧
      replayI st0 tb' = (replayI st0 tb >>= fun s => lsStop s ty1 nm1) ∧ tb'.nested = tb.nested ∧
      tb'.stack.map hdr = rest.map hdr := by
  unfold tbiStop at h
  split at h
  · cases h
  · rename_i ty1 nm1 items hst
    cases h
    refine ⟨ty1, nm1, items, [], hst, ?_, rfl, rfl⟩
    unfold replayI
    simp only [hst, replayOpen, List.reverse_cons]
    rw [runTops_snoc]
    simp only [bind_assoc]
    congr 1
    funext s
    simp only [runTop]
    rw [runItem_sect]
    simp only [ok_bind, bind_ok_right]
  · rename_i ty1 nm1 items pty pnm pitems rest hst
    cases h
    refine ⟨ty1, nm1, items, _, hst, ?_, rfl, by simp [hdr]⟩
    unfold replayI
    simp only [hst, bind_assoc]
    congr 1
    funext s
    exact replayOpen_stop s ty1 pty nm1 pnm items pitems rest

theorem imp_replay (st0 : LS) (tb tb' : TBI) (pkg : Str) (h : tbiImport tb pkg = .ok tb') :
    tb'.stack = tb.stack ∧ (tb.nested = true → tb'.nested = true) ∧
      (tb'.nested = false → tb.nested = false ∧ replayI st0 tb' = (replayI st0 tb >>= fun s => lsImport s pkg)) := by
  unfold tbiImport at h
  split at h
  · rename_i hst
    cases h
    refine ⟨rfl, fun h => h, fun h => ⟨h, ?_⟩⟩
    unfold replayI
    simp only [hst, replayOpen, List.reverse_cons]
    rw [runTops_snoc]
    simp only [bind_assoc]
    congr 1
    funext x
    simp only [runTop, ok_bind, bind_ok_right]
  · cases h
    exact ⟨rfl, fun _ => rfl, fun h => by cases h⟩

/-! ### the simulation -/

/-- `tb` has the open sections `F`; the loader's matcher stack is one higher (the top level); and unless an `%import`
    was met inside a section, `tb` records exactly the calls that led to the loader state `ls` -/
def RI (st0 : LS) (F : List (Str × Option Str)) (ls : LS) (tb : TBI) : Prop :=
  tb.stack.map hdr = F ∧ ls.stack.length = tb.stack.length + 1 ∧ (tb.nested = false → replayI st0 tb = .ok ls)

/-- replaying what `tb` records fails (or `tb` met an `%import` inside a section) -/
def DI (st0 : LS) (tb : TBI) : Prop := tb.nested = false → ∃ e, replayI st0 tb = .error e

theorem deadInvI (st0 : LS) : CtxInv treeCtxI (fun _ b => DI st0 b) where
  start := by
    intro _ a ty0 nm a' hd h
    obtain ⟨h1, h2, _⟩ := start_replay st0 a a' (lower ty0) nm h
    intro hn
    obtain ⟨e, he⟩ := hd (by rw [← h2]; exact hn)
    exact ⟨e, by rw [h1, he]; rfl⟩
  stop := by
    intro _ a ty nm a' hd h
    obtain ⟨_, _, _, _, _, h1, h2, _⟩ := stop_replay st0 a a' ty nm h
    intro hn
    obtain ⟨e, he⟩ := hd (by rw [← h2]; exact hn)
    exact ⟨e, by rw [h1, he]; rfl⟩
  value := by
    intro _ a k v p a' hd h
    obtain ⟨h1, h2, _⟩ := value_replay st0 a a' k v p h
    intro hn
    obtain ⟨e, he⟩ := hd (by rw [← h2]; exact hn)
    exact ⟨e, by rw [h1, he]; rfl⟩
  imp := by
    intro _ a pkg a' hd h
    obtain ⟨_, _, h3⟩ := imp_replay st0 a a' pkg h
    intro hn
    obtain ⟨hn0, h1⟩ := h3 hn
    obtain ⟨e, he⟩ := hd hn0
    exact ⟨e, by rw [h1, he]; rfl⟩

theorem lsImport_len (st st' : LS) (pkg : Str) (h : lsImport st pkg = .ok st') : st'.stack.length = st.stack.length := by
  rw [(lsImport_frame st st' pkg h).1]

theorem loaderSimI (st0 : LS) : CtxSimI loaderCtx treeCtxI (RI st0) (DI st0) where
  canInc := rfl
  canDef := rfl
  dead := deadInvI st0
  start := by
    intro F ls tb ty nm hR
    obtain ⟨hshape, hlen, hrep⟩ := hR
    show SimO _ _ (lsStart ls ty nm).toOption (tbiStart tb ty nm).toOption
    obtain ⟨h1, h2, h3⟩ := start_replay st0 tb _ ty nm rfl
    cases hs : lsStart ls ty nm with
    | ok ls' =>
      refine ⟨_, rfl, ?_, ?_, ?_⟩
      · rw [h3]; simp [hdr, ← hshape]
      · rw [h3, lsStart_len _ _ _ _ hs, hlen]; simp
      · intro hn
        rw [h1, hrep (by rw [← h2]; exact hn)]
        exact hs
    | error e =>
      intro b hb
      cases hb
      intro hn
      refine ⟨e, ?_⟩
      rw [h1, hrep (by rw [← h2]; exact hn)]
      exact hs
  stop := by
    intro F ls tb ty nm hR
    obtain ⟨hshape, hlen, hrep⟩ := hR
    show SimO _ _ (lsStop ls ty nm).toOption (tbiStop tb ty nm).toOption
    cases hst : tb.stack with
    | nil => rw [hst] at hshape; simp at hshape
    | cons x ts =>
      obtain ⟨ty1, nm1, items⟩ := x
      have hx : ty1 = ty ∧ nm1 = nm ∧ ts.map hdr = F := by
        rw [hst] at hshape
        simp only [List.map_cons, hdr, List.cons.injEq, Prod.mk.injEq] at hshape
        exact ⟨hshape.1.1, hshape.1.2, hshape.2⟩
      obtain ⟨rfl, rfl, hF⟩ := hx
      have hok : ∃ tb', tbiStop tb ty1 nm1 = .ok tb' := by
        unfold tbiStop
        rw [hst]
        cases ts with
        | nil => exact ⟨_, rfl⟩
        | cons y r => obtain ⟨a, b, c⟩ := y; exact ⟨_, rfl⟩
      obtain ⟨tb', htb'⟩ := hok
      obtain ⟨ty2, nm2, items2, rest2, hst2, h1, h2, h3⟩ := stop_replay st0 tb tb' _ _ htb'
      rw [hst] at hst2
      cases hst2
      rw [htb']
      cases hs : lsStop ls ty1 nm1 with
      | ok ls' =>
        refine ⟨_, rfl, ?_, ?_, ?_⟩
        · rw [h3, hF]
        · have := (lsStop_len _ _ _ _ hs).1
          have hl : tb'.stack.length = ts.length := by
            have := congrArg List.length h3
            simpa using this
          rw [hst] at hlen
          simp only [List.length_cons] at hlen
          omega
        · intro hn
          rw [h1, hrep (by rw [← h2]; exact hn)]
          exact hs
      | error e =>
        intro b hb
        cases hb
        intro hn
        refine ⟨e, ?_⟩
        rw [h1, hrep (by rw [← h2]; exact hn)]
        exact hs
  value := by
    intro F ls tb k v p hR
    obtain ⟨hshape, hlen, hrep⟩ := hR
    show SimO _ _ (lsValue ls k v p).toOption (tbiValue tb k v p).toOption
    have hok : ∃ tb', tbiValue tb k v p = .ok tb' := by
      unfold tbiValue
      cases tb.stack with
      | nil => exact ⟨_, rfl⟩
      | cons y r => obtain ⟨a, b, c⟩ := y; exact ⟨_, rfl⟩
    obtain ⟨tb', htb'⟩ := hok
    obtain ⟨h1, h2, h3⟩ := value_replay st0 tb tb' _ _ _ htb'
    rw [htb']
    cases hs : lsValue ls k v p with
    | ok ls' =>
      refine ⟨_, rfl, ?_, ?_, ?_⟩
      · rw [h3, hshape]
      · have hl : tb'.stack.length = tb.stack.length := by
          have := congrArg List.length h3
          simpa using this
        rw [lsValue_len _ _ _ _ _ hs, hlen, hl]
      · intro hn
        rw [h1, hrep (by rw [← h2]; exact hn)]
        exact hs
    | error e =>
      intro b hb
      cases hb
      intro hn
      refine ⟨e, ?_⟩
      rw [h1, hrep (by rw [← h2]; exact hn)]
      exact hs
  imp := by
    intro F ls tb pkg hR
    obtain ⟨hshape, hlen, hrep⟩ := hR
    show SimO _ _ (lsImport ls pkg).toOption (tbiImport tb pkg).toOption
    have hok : ∃ tb', tbiImport tb pkg = .ok tb' := by
      unfold tbiImport
      cases tb.stack with
      | nil => exact ⟨_, rfl⟩
      | cons y r => exact ⟨_, rfl⟩
    obtain ⟨tb', htb'⟩ := hok
    obtain ⟨h1, _, h3⟩ := imp_replay st0 tb tb' _ htb'
    rw [htb']
    cases hs : lsImport ls pkg with
    | ok ls' =>
      refine ⟨_, rfl, ?_, ?_, ?_⟩
      · rw [h1, hshape]
      · rw [lsImport_len _ _ _ hs, hlen, h1]
      · intro hn
        obtain ⟨hn0, h4⟩ := h3 hn
        rw [h4, hrep hn0]
        exact hs
    | error e =>
      intro b hb
      cases hb
      intro hn
      obtain ⟨hn0, h4⟩ := h3 hn
      refine ⟨e, ?_⟩
      rw [h4, hrep hn0]
      exact hs

/-! ### the whole load -/

/-- what the loads below report: the configuration and the schema the load ended with -/
def topsFin (conv : Conv) (schema : Schema) (st : LS) : M (Val × Schema) :=
  match st.stack with
  | [top] =>
    match finishMatcher conv st.schema top with
    | .error e => .error e
    | .ok (v, _) =>
      match conv.sect schema.top.datatype v with
      | .ok r => .ok (r, st.schema)
      | .error e => .error (convFail e none { line := -1, url := none } "schema datatype")
  | _ => .error (.internal "IndexError")

/-- `ConfigLoader.loadResource` on top-level items (no overrides) -/
def loadTops (conv : Conv) (pkgs : Str → Pkg) (schema : Schema) (tops : List TopItem) : M (Val × Schema) :=
  runTops (loadSt0 conv pkgs schema) tops >>= topsFin conv schema

theorem loadFin_eq_topsFin (conv : Conv) (s : Schema) (ps : PS LS) :
    (loadFin conv s ps).toOption.map (fun r => (r.value, r.schemaAfter)) = (topsFin conv s ps.ctx).toOption := by
  unfold loadFin topsFin
  cases hst : ps.ctx.stack with
  | nil => rfl
  | cons m r =>
    cases r with
    | cons m2 r2 => rfl
    | nil =>
      simp only [bind, Except.bind, pure, Except.pure, throw, throwThe, MonadExceptOf.throw]
      cases finishMatcher conv ps.ctx.schema m with
      | error e => rfl
      | ok vh =>
        obtain ⟨v, hs⟩ := vh
        simp only
        cases conv.sect s.top.datatype v <;> rfl

/-- the recorded open sections are the parser's open sections -/
theorem shapeInvI (st0 : LS) : CtxInv treeCtxI (fun F tb => tb.stack.map hdr = F) where
  start := by
    intro F a ty0 nm a' hj h
    cases h
    simp [hdr, hj]
  stop := by
    intro F a ty nm a' hj h
    obtain ⟨_, _, _, _, hst, _, _, h3⟩ := stop_replay st0 a a' ty nm h
    rw [hst] at hj
    rw [h3]
    simp only [List.map_cons, List.cons.injEq] at hj
    exact hj.2
  value := by
    intro F a k v p a' hj h
    rw [(value_replay st0 a a' k v p h).2.2]; exact hj
  imp := by
    intro F a pkg a' hj h
    rw [(imp_replay st0 a a' pkg h).1]; exact hj

theorem parseI_eq (env : Env) (url : Option Str) (lines : List Str) :
    parseI env url lines = parseLines 64 env treeCtxI (activeOf url) url lines 0
      { ctx := { tops := [], stack := [], nested := false }, stack := [], defs := [] } := rfl

/-- **Context genericity, with `%import`.**  For a text (lines, `%define`s, `%include`s of any depth, `%import`s) that
    meets no `%import` inside a section, loaded without overrides: loading the lines = building the top-level items
    of the lines, then loading those.  Compared: acceptance, the configuration, and the schema the load ends with. -/
theorem load_eq_loadTops (conv : Conv) (env : Env) (pkgs : Str → Pkg) (s : Schema) (url : Option Str) (lines : List Str)
    (htop : importsAtTop env url lines) :
    (load conv env pkgs s url lines []).toOption.map (fun r => (r.value, r.schemaAfter)) =
      (treeOfI env url lines).toOption.bind (fun tops => (loadTops conv pkgs s tops).toOption) := by
  have hsim := parse_simI loaderCtx treeCtxI (RI (loadSt0 conv pkgs s)) (DI (loadSt0 conv pkgs s))
    (loaderSimI (loadSt0 conv pkgs s)) env 64 (activeOf url) url lines 0
    { ctx := loadSt0 conv pkgs s, stack := [], defs := [] }
    { ctx := { tops := [], stack := [], nested := false }, stack := [], defs := [] } []
    ⟨rfl, rfl, rfl, rfl, fun _ => rfl⟩
  unfold importsAtTop at htop
  unfold treeOfI
  rw [parseI_eq] at htop ⊢
  rw [load_nil_eq, toOption_bind, toOption_map]
  cases hL : parseLines 64 env loaderCtx (activeOf url) url lines 0 { ctx := loadSt0 conv pkgs s, stack := [], defs := [] } with
  | ok psL =>
    rw [hL] at hsim
    obtain ⟨psT, hT, ⟨hstk, _, hshape, _, hrep⟩, hnil⟩ := hsim
    rw [toOption_eq_some] at hT
    rw [hT]
    have hn := htop psT hT
    have hrep := hrep hn
    have hts : psT.ctx.stack = [] := by
      rw [hnil] at hshape
      simpa using hshape
    unfold replayI at hrep
    rw [hts] at hrep
    simp only [toOption_ok, Option.bind_some, Option.map_some]
    rw [loadFin_eq_topsFin]
    unfold loadTops
    have : runTops (loadSt0 conv pkgs s) psT.ctx.tops.reverse = .ok psL.ctx := by
      cases hr : runTops (loadSt0 conv pkgs s) psT.ctx.tops.reverse with
      | error e => rw [hr] at hrep; cases hrep
      | ok x => rw [hr] at hrep; exact hrep
    rw [this]
    rfl
  | error e =>
    rw [hL] at hsim
    simp only [toOption_error, Option.bind_none, Option.map_none]
    cases hT : parseLines 64 env treeCtxI (activeOf url) url lines 0
        { ctx := { tops := [], stack := [], nested := false }, stack := [], defs := [] } with
    | error e' => rfl
    | ok psT =>
      have hd : DI (loadSt0 conv pkgs s) psT.ctx := hsim psT (by rw [hT]; rfl)
      obtain ⟨e1, he1⟩ := hd (htop psT hT)
      have hnil := parseLines_ok_stack_nil _ _ _ _ _ _ _ _ _ hT
      simp only [toOption_ok, Option.map_some, Option.bind_some]
      -- the recorded stack is empty at the end: both stacks have moved together
      have hinv := parse_inv treeCtxI (fun F tb => tb.stack.map hdr = F) (shapeInvI (loadSt0 conv pkgs s)) env 64 (activeOf url) url lines 0 _ psT [] rfl hT
      rw [hnil] at hinv
      have hts : psT.ctx.stack = [] := by simpa using hinv
      unfold replayI at he1
      rw [hts] at he1
      unfold loadTops
      cases hr : runTops (loadSt0 conv pkgs s) psT.ctx.tops.reverse with
      | error e => rfl
      | ok x => rw [hr] at he1; cases he1

end ZCV.Conf
