import ZCV.Lemmas.Regex
/-! Lemmas describing ALL results (not just the first) of greedy repetition over a one-character class,
    used where a pattern has to FAIL after backtracking through every shorter repetition. -/
namespace ZCV.Rx

/-- every way `[k]*` can stop inside `s`, longest first: the suffix after the maximal run, then one character
    less, …, finally `s` itself -/
def runs (p : Char → Bool) : Str → List Str
  | [] => [[]]
  | c :: t => if p c then runs p t ++ [c :: t] else [c :: t]

theorem star_cls_all (w : Nat) (k : Cls) (cs : Caps) : ∀ (f : Nat) (s : Str), s.length ≤ f →
    m w (.star (.cls k)) f (s, cs) = (runs k.test s).map (fun r => (r, cs)) := by
  intro f
  induction f with
  | zero => intro s h; cases s <;> simp_all [m, runs]
  | succ f ih =>
    intro s h
    cases s with
    | nil => simp [m, runs]
    | cons c t =>
      simp only [m, runs]
      by_cases hc : k.test c
      · simp only [hc, ↓reduceIte, List.filter_cons, List.length_cons, Nat.lt_add_one, decide_true,
          List.filter_nil, List.flatMap_cons, List.flatMap_nil, List.append_nil, List.map_append,
          List.map_cons, List.map_nil]
        rw [ih t (by simp at h; omega)]
      · simp [hc]

/-- the first stop is after the maximal run; every other stop is in front of a character of the class -/
theorem runs_spec (p : Char → Bool) (s : Str) :
    ∃ rest, runs p s = s.dropWhile p :: rest ∧ ∀ r ∈ rest, ∃ c t, r = c :: t ∧ p c = true := by
  induction s with
  | nil => exact ⟨[], by simp [runs]⟩
  | cons c t ih =>
    obtain ⟨rest, h1, h2⟩ := ih
    by_cases hc : p c
    · refine ⟨rest ++ [c :: t], by simp [runs, hc, h1], ?_⟩
      intro r hr
      simp only [List.mem_append, List.mem_singleton] at hr
      rcases hr with hr | hr
      · exact h2 r hr
      · exact ⟨c, t, hr, hc⟩
    · exact ⟨[], by simp [runs, hc], by simp⟩

theorem runs_length (p : Char → Bool) (s : Str) : ∀ r ∈ runs p s, r.length ≤ s.length := by
  induction s with
  | nil => simp [runs]
  | cons c t ih =>
    intro r hr
    simp only [runs] at hr
    split at hr
    · simp only [List.mem_append, List.mem_singleton] at hr
      rcases hr with hr | hr
      · have := ih r hr; simp; omega
      · subst hr; simp
    · simp only [List.mem_singleton] at hr; subst hr; simp

theorem flatMap_head_only {α β} {l : List α} {x : α} {rest : List α} (g : α → List β)
    (h : l = x :: rest) (h0 : ∀ y ∈ rest, g y = []) : l.flatMap g = g x := by
  subst h
  simp only [List.flatMap_cons]
  have : rest.flatMap g = [] := by
    simp only [List.flatMap_eq_nil_iff]; exact h0
  rw [this, List.append_nil]

/-- `[k]*` followed by anything that cannot start in front of a `k` character: only the maximal run counts -/
theorem star_flatMap {β} (w : Nat) (k : Cls) (cs : Caps) (f : Nat) (s : Str) (hf : s.length ≤ f)
    (g : St → List β) (hg : ∀ c t, k.test c = true → (c :: t).length ≤ s.length → g (c :: t, cs) = []) :
    (m w (.star (.cls k)) f (s, cs)).flatMap g = g (s.dropWhile k.test, cs) := by
  rw [star_cls_all w k cs f s hf]
  obtain ⟨rest, h1, h2⟩ := runs_spec k.test s
  have hlen := runs_length k.test s
  rw [h1] at hlen ⊢
  simp only [List.map_cons, List.flatMap_cons]
  have : (rest.map (fun r => (r, cs))).flatMap g = [] := by
    simp only [List.flatMap_eq_nil_iff, List.mem_map]
    rintro _ ⟨r, hr, rfl⟩
    obtain ⟨c, t, rfl, hc⟩ := h2 r hr
    exact hg c t hc (hlen _ (List.mem_cons_of_mem _ hr))
  rw [this, List.append_nil]

/-- `[k]+` followed by anything that cannot start in front of a `k` character -/
theorem plus_flatMap {β} (w : Nat) (k : Cls) (cs : Caps) (f : Nat) (s : Str) (hf : s.length ≤ f)
    (g : St → List β) (hg : ∀ c t, k.test c = true → (c :: t).length ≤ s.length → g (c :: t, cs) = []) :
    (m w (.seq (.cls k) (.star (.cls k))) f (s, cs)).flatMap g =
      if s.takeWhile k.test = [] then [] else g (s.dropWhile k.test, cs) := by
  cases s with
  | nil => simp [m]
  | cons c t =>
    by_cases hc : k.test c
    · simp only [m, hc, ↓reduceIte, List.flatMap_cons, List.flatMap_nil, List.append_nil,
        List.takeWhile_cons, List.dropWhile_cons, reduceCtorEq]
      exact star_flatMap w k cs f t (by simp at hf; omega) g
        (fun c' t' h1 h2 => hg c' t' h1 (by simp at h2 ⊢; omega))
    · simp [m, hc]

theorem take_sub_dropWhile (p : Char → Bool) (s : Str) :
    s.take (s.length - (s.dropWhile p).length) = s.takeWhile p := by
  have := len_take_drop p s
  have e : s.length - (s.dropWhile p).length = (s.takeWhile p).length := by omega
  rw [e, take_len_takeWhile]

/-- `(?P<i>[k]+)` followed by anything that cannot start in front of a `k` character (whatever was captured) -/
theorem capplus_flatMap {β} (w i : Nat) (k : Cls) (cs : Caps) (f : Nat) (s : Str) (hf : s.length ≤ f)
    (g : St → List β)
    (hg : ∀ c t cs', k.test c = true → (c :: t).length ≤ s.length → g (c :: t, cs') = []) :
    (m w (.cap i (.seq (.cls k) (.star (.cls k)))) f (s, cs)).flatMap g =
      if s.takeWhile k.test = [] then [] else g (s.dropWhile k.test, (i, s.takeWhile k.test) :: cs) := by
  rw [m, List.flatMap_map]
  have := plus_flatMap w k cs f s hf
    (fun a : St => g (a.1, (i, s.take (s.length - a.1.length)) :: a.2))
    (fun c t h1 h2 => hg c t _ h1 h2)
  simp only [take_sub_dropWhile] at this
  exact this

/-- first match of `(?P<i>[k]+)` -/
theorem capplus_head (w i : Nat) (k : Cls) (cs : Caps) (f : Nat) (s : Str) (hf : s.length ≤ f) :
    (m w (.cap i (.seq (.cls k) (.star (.cls k)))) f (s, cs)).head? =
      if s.takeWhile k.test = [] then none
      else some (s.dropWhile k.test, (i, s.takeWhile k.test) :: cs) := by
  rw [m, List.head?_map, cls_star_head w k k cs f s hf]
  cases s with
  | nil => simp
  | cons c t =>
    by_cases hc : k.test c
    · have := take_sub_dropWhile k.test (c :: t)
      simp only [List.takeWhile_cons, List.dropWhile_cons, hc, ↓reduceIte] at this
      simp only [hc, ↓reduceIte, Option.map_some, List.takeWhile_cons, List.dropWhile_cons,
        reduceCtorEq, this]
    · simp [hc]

end ZCV.Rx
