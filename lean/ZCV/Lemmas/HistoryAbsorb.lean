import ZCV.Lemmas.HistorySim
import ZCV.Lemmas.DefinesLoad
/-!
C13 (faithful histories), part 5: a later load that imports the leaking components itself is not influenced by the leak.

Two loads of the same text are compared: one on the fresh schema `s`, one on the used schema object
`s.withImplementers regs`.  The private schemas of the two loads are related by `SLe n P`: same top, handler,
components; the first `n` entries of the type tables (the application's own types) pairwise of the same kind and name,
the table of the used side ⊇ the table of the fresh side, every extra name `c` of the used side justified by `P key c`
("the history registered it"); the entries after them (types the load imported) identical.

  * `%import`, `%define` and comment lines keep `SLe n P` and behave identically on both sides (`header_simE`);
  * when the fresh side has itself registered every extra name, the relation collapses to `SLe n ⊥` – the two schemas
    differ in the ORDER of implementer tables at most;
  * schemas so related are indistinguishable for every loader operation (`opsSimE_tabEq`), hence for the rest of the load
    (`parse_simE`).
-/
namespace ZCV.Cfg
open ZCV ZCV.Conf

/-! ### entries -/

/-- entry `q` (used side) against entry `p` (fresh side) -/
def EntLe (P : Str → Str → Prop) (p q : Str × TypeEntry) : Prop :=
  q.1 = p.1 ∧
    match p.2, q.2 with
    | .concrete t, .concrete t' => t' = t
    | .abstract_ n subs, .abstract_ n' subs' =>
      n' = n ∧ (∀ c, c ∈ subs → c ∈ subs') ∧ (∀ c, c ∈ subs' → c ∈ subs ∨ P p.1 c)
    | _, _ => False

theorem EntLe.refl (P : Str → Str → Prop) (p : Str × TypeEntry) : EntLe P p p := by
  obtain ⟨k, te⟩ := p
  cases te with
  | concrete t => exact ⟨rfl, rfl⟩
  | abstract_ n subs => exact ⟨rfl, rfl, fun _ h => h, fun _ h => .inl h⟩

theorem EntLe.mono {P P' : Str → Str → Prop} (hp : ∀ k c, P k c → P' k c) {p q : Str × TypeEntry} (h : EntLe P p q) :
    EntLe P' p q := by
  obtain ⟨k, te⟩ := p
  obtain ⟨k', te'⟩ := q
  obtain ⟨hk, h⟩ := h
  refine ⟨hk, ?_⟩
  cases te <;> cases te' <;> simp only at h ⊢
  · exact h
  · obtain ⟨h1, h2, h3⟩ := h
    exact ⟨h1, h2, fun c hc => (h3 c hc).imp id (hp _ _)⟩

/-- the same `addsubtype` call on both sides keeps the relation -/
theorem EntLe.regEntry {P : Str → Str → Prop} (ia : Str × Str) {p q : Str × TypeEntry} (h : EntLe P p q) :
    EntLe P (regEntry ia p) (regEntry ia q) := by
  obtain ⟨k, te⟩ := p
  obtain ⟨k', te'⟩ := q
  obtain ⟨hk, h⟩ := h
  simp only at hk
  subst hk
  cases te with
  | concrete t =>
    cases te' with
    | concrete t' => exact ⟨rfl, h⟩
    | abstract_ n' subs' => exact h.elim
  | abstract_ n subs =>
    cases te' with
    | concrete t' => exact h.elim
    | abstract_ n' subs' =>
      simp only at h
      obtain ⟨hn, h1, h2⟩ := h
      subst hn
      rw [regEntry_abstract, regEntry_abstract]
      by_cases hkk : (k' == ia.2) = true
      · by_cases hs : ia.1 ∈ subs
        · have hs' : ia.1 ∈ subs' := h1 _ hs
          simp only [hkk, List.contains_eq_mem, hs, hs', decide_true, Bool.not_true, Bool.and_false, Bool.false_eq_true, if_false]
          exact ⟨rfl, rfl, h1, h2⟩
        · by_cases hs' : ia.1 ∈ subs'
          · simp only [hkk, List.contains_eq_mem, hs, hs', decide_true, decide_false, Bool.not_true, Bool.not_false,
              Bool.and_false, Bool.and_true, Bool.false_eq_true, if_false, if_true]
            refine ⟨rfl, rfl, ?_, ?_⟩
            · intro c hc
              rcases List.mem_append.mp hc with hc | hc
              · exact h1 c hc
              · simp only [List.mem_singleton] at hc; subst hc; exact hs'
            · intro c hc
              exact (h2 c hc).imp (fun h => List.mem_append_left _ h) id
          · simp only [hkk, List.contains_eq_mem, hs, hs', decide_false, Bool.not_false, Bool.and_true, if_true]
            refine ⟨rfl, rfl, ?_, ?_⟩
            · intro c hc
              rcases List.mem_append.mp hc with hc | hc
              · exact List.mem_append_left _ (h1 c hc)
              · exact List.mem_append_right _ hc
            · intro c hc
              rcases List.mem_append.mp hc with hc | hc
              · exact (h2 c hc).imp (fun h => List.mem_append_left _ h) id
              · exact .inl (List.mem_append_right _ hc)
      · simp only [hkk, Bool.false_and, Bool.false_eq_true, if_false]
        exact ⟨rfl, rfl, h1, h2⟩

/-- an entry against the same entry with calls applied: the extra names are names the calls asked for -/
theorem EntLe.regEntries (regs : List (Str × Str)) (p : Str × TypeEntry) :
    EntLe (fun k c => (c, k) ∈ regs) p (regEntries regs p) := by
  obtain ⟨k, te⟩ := p
  cases te with
  | concrete t => rw [regEntries_concrete]; exact ⟨rfl, rfl⟩
  | abstract_ n subs =>
    obtain ⟨add, he, h1, _, _⟩ := regEntries_abstract regs k n subs
    rw [he]
    refine ⟨rfl, rfl, fun c hc => List.mem_append_left _ hc, ?_⟩
    intro c hc
    rcases List.mem_append.mp hc with hc | hc
    · exact .inl hc
    · exact .inr (h1 c hc).2

/-! ### lists of entries -/

/-- two lists of the same length whose elements are pairwise related -/
inductive Rel2 {α β : Type} (R : α → β → Prop) : List α → List β → Prop
  | nil : Rel2 R [] []
  | cons {a : α} {b : β} {l : List α} {l' : List β} : R a b → Rel2 R l l' → Rel2 R (a :: l) (b :: l')

theorem forall₂_map {α β α' β' : Type} {R : α → β → Prop} {R' : α' → β' → Prop} {f : α → α'} {g : β → β'}
    (hf : ∀ a b, R a b → R' (f a) (g b)) : ∀ {l : List α} {l' : List β}, Rel2 R l l' →
      Rel2 R' (l.map f) (l'.map g) := by
  intro l l' h
  induction h with
  | nil => exact .nil
  | cons hab _ ih => exact .cons (hf _ _ hab) ih

theorem forall₂_refl {α : Type} {R : α → α → Prop} (hr : ∀ a, R a a) : ∀ (l : List α), Rel2 R l l := by
  intro l
  induction l with
  | nil => exact .nil
  | cons a t ih => exact .cons (hr a) ih

theorem forall₂_self_map {α : Type} {R : α → α → Prop} {f : α → α} (hr : ∀ a, R a (f a)) :
    ∀ (l : List α), Rel2 R l (l.map f) := by
  intro l
  induction l with
  | nil => exact .nil
  | cons a t ih => exact .cons (hr a) ih

theorem forall₂_append {α β : Type} {R : α → β → Prop} {l1 : List α} {l1' : List β} (h1 : Rel2 R l1 l1')
    {l2 : List α} {l2' : List β} (h2 : Rel2 R l2 l2') : Rel2 R (l1 ++ l2) (l1' ++ l2') := by
  induction h1 with
  | nil => exact h2
  | cons hab _ ih => exact .cons hab ih

theorem forall₂_keys {P : Str → Str → Prop} {L L' : List (Str × TypeEntry)} (h : Rel2 (EntLe P) L L') :
    L'.map (·.1) = L.map (·.1) := by
  induction h with
  | nil => rfl
  | cons hab _ ih => simp only [List.map_cons, ih, hab.1]

/-- both absent, or both present and related -/
def OptRel {α β : Type} (R : α → β → Prop) : Option α → Option β → Prop
  | none, none => True
  | some a, some b => R a b
  | _, _ => False

theorem forall₂_find {P : Str → Str → Prop} {L L' : List (Str × TypeEntry)} (h : Rel2 (EntLe P) L L') (k : Str) :
    OptRel (EntLe P) (L.find? (·.1 == k)) (L'.find? (·.1 == k)) := by
  induction h with
  | nil => exact True.intro
  | @cons a b l l' hab _ ih =>
    simp only [List.find?_cons, hab.1]
    by_cases hk : (a.1 == k) = true
    · simp only [hk]; exact hab
    · have hk' : (a.1 == k) = false := by simpa using hk
      simp only [hk']; exact ih

theorem forall₂_mono {α β : Type} {R R' : α → β → Prop} (hr : ∀ a b, R a b → R' a b) {l : List α} {l' : List β}
    (h : Rel2 R l l') : Rel2 R' l l' := by
  induction h with
  | nil => exact .nil
  | cons hab _ ih => exact .cons (hr _ _ hab) ih

/-! ### schemas -/

/-- the private schemas of the two loads (fresh side `S`, used side `S'`) -/
structure SLe (n : Nat) (P : Str → Str → Prop) (S S' : Schema) : Prop where
  top : S'.top = S.top
  handler : S'.handler = S.handler
  components : S'.components = S.components
  types : ∃ A A' B, S.types = A ++ B ∧ S'.types = A' ++ B ∧ A.length = n ∧ Rel2 (EntLe P) A A'

theorem SLe.all {n : Nat} {P : Str → Str → Prop} {S S' : Schema} (h : SLe n P S S') :
    Rel2 (EntLe P) S.types S'.types := by
  obtain ⟨A, A', B, h1, h2, _, h4⟩ := h.types
  rw [h1, h2]
  exact forall₂_append h4 (forall₂_refl (EntLe.refl P) B)

theorem SLe.keys {n : Nat} {P : Str → Str → Prop} {S S' : Schema} (h : SLe n P S S') :
    S'.types.map (·.1) = S.types.map (·.1) := forall₂_keys h.all

theorem SLe.regImpl {n : Nat} {P : Str → Str → Prop} {S S' : Schema} (h : SLe n P S S') (ia : Str × Str) :
    SLe n P (regImpl S ia) (regImpl S' ia) := by
  obtain ⟨A, A', B, h1, h2, h3, h4⟩ := h.types
  refine ⟨h.top, h.handler, h.components, A.map (regEntry ia), A'.map (regEntry ia), B.map (regEntry ia), ?_, ?_, ?_, ?_⟩
  · simp only [Cfg.regImpl, h1, List.map_append]
  · simp only [Cfg.regImpl, h2, List.map_append]
  · simpa using h3
  · exact forall₂_map (fun a b hab => hab.regEntry ia) h4

theorem SLe.withImplementers {n : Nat} {P : Str → Str → Prop} (regs : List (Str × Str)) :
    ∀ {S S' : Schema}, SLe n P S S' → SLe n P (S.withImplementers regs) (S'.withImplementers regs) := by
  induction regs with
  | nil => intro S S' h; exact h
  | cons ia rest ih => intro S S' h; rw [withImplementers_cons, withImplementers_cons]; exact ih (h.regImpl ia)

theorem SLe.addEntry {n : Nat} {P : Str → Str → Prop} {S S' : Schema} (h : SLe n P S S') (te : Str × TypeEntry) :
    SLe n P (addEntry S te) (addEntry S' te) := by
  obtain ⟨A, A', B, h1, h2, h3, h4⟩ := h.types
  refine ⟨h.top, h.handler, h.components, A, A', B ++ [te], ?_, ?_, h3, h4⟩
  · simp only [Cfg.addEntry, h1, List.append_assoc]
  · simp only [Cfg.addEntry, h2, List.append_assoc]

theorem SLe.withComponents {n : Nat} {P : Str → Str → Prop} {S S' : Schema} (h : SLe n P S S') (cs : List Str) :
    SLe n P { S with components := S.components ++ cs } { S' with components := S'.components ++ cs } :=
  ⟨h.top, h.handler, by simp only [h.components], h.types⟩

theorem SLe.mono {n : Nat} {P P' : Str → Str → Prop} (hp : ∀ k c, P k c → P' k c) {S S' : Schema} (h : SLe n P S S') :
    SLe n P' S S' := by
  obtain ⟨A, A', B, h1, h2, h3, h4⟩ := h.types
  exact ⟨h.top, h.handler, h.components, A, A', B, h1, h2, h3, forall₂_mono (fun _ _ hab => hab.mono hp) h4⟩

/-- the fresh schema against the used schema object -/
theorem SLe.start (s : Schema) (regs : List (Str × Str)) :
    SLe s.types.length (fun k c => (c, k) ∈ regs) s (s.withImplementers regs) := by
  refine ⟨withImplementers_top _ _, withImplementers_handler _ _, withImplementers_components _ _,
    s.types, s.types.map (regEntries regs), [], by simp, by simp [withImplementers_types], rfl, ?_⟩
  exact forall₂_self_map (EntLe.regEntries regs) s.types

theorem addStep_sle {n : Nat} {P : Str → Str → Prop} (impls : List (Str × Str)) {S S' : Schema} (h : SLe n P S S')
    (te : Str × TypeEntry) : ExRel (SLe n P) (addStep impls S te) (addStep impls S' te) := by
  unfold addStep
  have hany : S'.types.any (·.1 == te.1) = S.types.any (·.1 == te.1) := by
    have hk := h.keys
    have e1 : S'.types.any (·.1 == te.1) = (S'.types.map (·.1)).any (· == te.1) := by rw [List.any_map]; rfl
    have e2 : S.types.any (·.1 == te.1) = (S.types.map (·.1)).any (· == te.1) := by rw [List.any_map]; rfl
    rw [e1, e2, hk]
  rw [hany]
  split
  · rfl
  · rw [regAll_eq, regAll_eq]
    exact ExRel.ok ((h.addEntry te).withImplementers _)

theorem fold_sle {n : Nat} {P : Str → Str → Prop} (impls : List (Str × Str)) : ∀ (types : List (Str × TypeEntry))
    {S S' : Schema}, SLe n P S S' → ExRel (SLe n P) (types.foldlM (addStep impls) S) (types.foldlM (addStep impls) S') := by
  intro types
  induction types with
  | nil => intro S S' h; exact ExRel.ok h
  | cons te rest ih =>
    intro S S' h
    rw [List.foldlM_cons, List.foldlM_cons]
    exact (addStep_sle impls h te).bind (fun a b hab => ih hab)

/-! ### loader states -/

/-- two loader states that differ in their schemas only, and those are related by `Q` -/
def gtClass : Option TypeEntry → Option (Option SType)
  | none => none
  | some (.concrete t) => some (some t)
  | some (.abstract_ _ _) => some none

/-- two schemas that answer "concrete (which)? abstract? unknown?" alike for every type name -/
def GtEq (x y : Schema) : Prop := ∀ ty, gtClass (y.gettype ty) = gtClass (x.gettype ty)

/-- the schemas the override bags are sorted by (`LS.bagSchema`: none without overrides) on the two sides -/
def BagRel (o o' : Option Schema) : Prop := (o = none ∧ o' = none) ∨ ∃ x y, o = some x ∧ o' = some y ∧ GtEq x y

def LSRel (Q : Schema → Schema → Prop) (a b : LS) : Prop :=
  b.privateSchema = a.privateSchema ∧ b.handlers = a.handlers ∧ b.stack = a.stack ∧ b.pkgs = a.pkgs ∧ b.conv = a.conv ∧
    BagRel a.bagSchema b.bagSchema ∧ Q a.schema b.schema

theorem LSRel.eq {Q : Schema → Schema → Prop} {a b : LS} (h : LSRel Q a b) :
    b = { a with schema := b.schema, bagSchema := b.bagSchema } := by
  obtain ⟨h1, h2, h3, h4, h5, _⟩ := h
  cases a; cases b
  simp only at h1 h2 h3 h4 h5
  subst h1 h2 h3 h4 h5
  rfl

theorem lsStart_bagSchema (st st' : LS) (ty : Str) (nm : Option Str) (h : lsStart st ty nm = .ok st') : st'.bagSchema = st.bagSchema := by
  unfold lsStart at h
  split at h
  · cases h
  · split at h
    · cases h
    · cases h
    · simp only [bind, Except.bind, pure, Except.pure] at h
      split at h
      · cases h
      · split at h
        · cases h
        · split at h
          · cases h
          · split at h
            · cases h; rfl
            · split at h
              · cases h
              · cases h; rfl

theorem lsStop_bagSchema (st st' : LS) (ty : Str) (nm : Option Str) (h : lsStop st ty nm = .ok st') : st'.bagSchema = st.bagSchema := by
  unfold lsStop at h
  split at h
  · simp only [bind, Except.bind, pure, Except.pure] at h
    split at h
    · cases h
    · split at h
      · cases h
      · cases h; rfl
  · cases h

theorem lsValue_bagSchema (st st' : LS) (k v : Str) (p : Pos) (h : lsValue st k v p = .ok st') : st'.bagSchema = st.bagSchema := by
  unfold lsValue at h
  split at h
  · cases ha : addValue st.conv _ k v p with
    | error e => rw [ha] at h; cases h
    | ok m => rw [ha] at h; cases h; rfl
  · cases h


/-- `%import` on both sides -/
theorem lsImport_sle {n : Nat} {P : Str → Str → Prop} (a b : LS) (pkg : Str) (h : LSRel (SLe n P) a b) :
    ExRel (LSRel (SLe n P)) (lsImport a pkg) (lsImport b pkg) := by
  obtain ⟨h1, h2, h3, h4, h5, hB, hQ⟩ := h
  have hpb : b.pkgs pkg = a.pkgs pkg := by rw [h4]
  cases hp : a.pkgs pkg with
  | component url types impls =>
    have hp' : b.pkgs pkg = .component url types impls := by rw [h4, hp]
    rw [lsImport_component a pkg url types impls hp, lsImport_component b pkg url types impls hp', hQ.components]
    split
    · exact ExRel.ok ⟨rfl, h2, h3, h4, h5, hB, hQ⟩
    · have := hQ.withComponents [url]
      rw [hQ.components] at this
      exact (fold_sle impls types this).map (fun sa sb hab => ⟨rfl, h2, h3, h4, h5, hB, hab⟩)
  | notImportable => rw [hp] at hpb; unfold lsImport; rw [hp, hpb]; rfl
  | notPackage => rw [hp] at hpb; unfold lsImport; rw [hp, hpb]; rfl
  | noComponent => rw [hp] at hpb; unfold lsImport; rw [hp, hpb]; rfl
  | illegalName => rw [hp] at hpb; unfold lsImport; rw [hp, hpb]; rfl

/-! ### the head of the text: `%import`, `%define`, comments -/

/-- a line that neither opens nor closes a section, sets no key and includes nothing -/
def HeaderLine (l : Str) : Prop :=
  lineShape (strip l) = .skip ∨ (∃ a, lineShape (strip l) = .define a) ∨ (∃ a, lineShape (strip l) = .import_ a)

theorem header_step_simE {n : Nat} {P : Str → Str → Prop} (fuel : Nat) (env : Env) (active : List Str) (url : Option Str)
    (line : Nat) (l : Str) (hl : HeaderLine l) (st st' : PS LS) (h : PSR (LSRel (SLe n P)) st st') :
    ExRel (PSR (LSRel (SLe n P))) (stepLine fuel env loaderCtx active url line (strip l) st)
      (stepLine fuel env loaderCtx active url line (strip l) st') := by
  have ⟨hstk, hdefs, hR⟩ := h
  rcases hl with hs | ⟨a, hs⟩ | ⟨a, hs⟩
  · rw [stepLine, stepLine]; simp only [hs]; exact ExRel.ok h
  · rw [stepLine_define _ _ _ _ _ _ _ _ _ hs, stepLine_define _ _ _ _ _ _ _ _ _ hs]
    unfold defStep
    rw [hdefs]
    split
    · rfl
    · exact (ExRel.same _).map (fun d d' hd => by subst hd; exact ⟨hstk, rfl, hR⟩)
  · rw [stepLine_import _ _ _ _ _ _ _ _ _ hs, stepLine_import _ _ _ _ _ _ _ _ _ hs]
    unfold impStep
    rw [hdefs]
    exact ExRel.bind_same _ (fun pkg => (lsImport_sle _ _ pkg hR).map (fun a b hab => ⟨hstk, rfl, hab⟩))

/-- **the head of the text behaves the same on the fresh and on the used schema object**, and keeps the two private
    schemas related -/
theorem header_simE {n : Nat} {P : Str → Str → Prop} (fuel : Nat) (env : Env) (active : List Str) (url : Option Str) :
    ∀ (pre : List Str) (k : Nat) (st st' : PS LS), (∀ l ∈ pre, HeaderLine l) → PSR (LSRel (SLe n P)) st st' →
      ExRel (PSR (LSRel (SLe n P))) (runLines fuel env loaderCtx active url pre k st)
        (runLines fuel env loaderCtx active url pre k st') := by
  intro pre
  induction pre with
  | nil => intro k st st' _ h; exact ExRel.ok h
  | cons l rest ih =>
    intro k st st' hl h
    simp only [runLines]
    exact (header_step_simE fuel env active url (k + 1) l (hl l List.mem_cons_self) st st' h).bind
      (fun a b hab => ih _ _ _ (fun x hx => hl x (List.mem_cons_of_mem _ hx)) hab)

/-! ### schemas that differ in the order of implementer tables at most -/

/-- no extra names -/
abbrev TabEq (n : Nat) : Schema → Schema → Prop := SLe n (fun _ _ => False)

theorem TabEq.find {n : Nat} {S S' : Schema} (h : TabEq n S S') (x : Str) :
    OptRel (fun e e' => match e, e' with
      | .concrete t, .concrete t' => t' = t
      | .abstract_ n subs, .abstract_ n' subs' => n' = n ∧ ∀ c, c ∈ subs' ↔ c ∈ subs
      | _, _ => False) (S.gettype x) (S'.gettype x) := by
  have := forall₂_find h.all (lower x)
  unfold Schema.gettype
  cases h1 : S.types.find? (·.1 == lower x) with
  | none =>
    cases h2 : S'.types.find? (·.1 == lower x) with
    | none => exact True.intro
    | some q => rw [h1, h2] at this; exact this.elim
  | some p =>
    cases h2 : S'.types.find? (·.1 == lower x) with
    | none => rw [h1, h2] at this; exact this.elim
    | some q =>
      rw [h1, h2] at this
      obtain ⟨k, te⟩ := p
      obtain ⟨k', te'⟩ := q
      obtain ⟨_, hm⟩ := this
      simp only [Option.map_some]
      cases te with
      | concrete t =>
        cases te' with
        | concrete t' => exact hm
        | abstract_ n' subs' => exact hm.elim
      | abstract_ n subs =>
        cases te' with
        | concrete t' => exact hm.elim
        | abstract_ n' subs' =>
          simp only at hm
          obtain ⟨hn, h1, h2⟩ := hm
          exact ⟨hn, fun c => ⟨fun hc => (h2 c hc).elim id False.elim, h1 c⟩⟩

theorem TabEq.gtClass {n : Nat} {S S' : Schema} (h : TabEq n S S') (x : Str) :
    gtClass (S'.gettype x) = gtClass (S.gettype x) := by
  have := h.find x
  cases h1 : S.gettype x with
  | none =>
    cases h2 : S'.gettype x with
    | none => rfl
    | some e' => rw [h1, h2] at this; exact this.elim
  | some e =>
    cases h2 : S'.gettype x with
    | none => rw [h1, h2] at this; exact this.elim
    | some e' =>
      rw [h1, h2] at this
      cases e with
      | concrete t =>
        cases e' with
        | concrete t' => have : t' = t := this
                         subst this; rfl
        | abstract_ n' subs' => exact this.elim
      | abstract_ n subs =>
        cases e' with
        | concrete t' => exact this.elim
        | abstract_ n' subs' => rfl

theorem TabEq.isAbstract {n : Nat} {S S' : Schema} (h : TabEq n S S') (x : Str) : isAbstract S' x = isAbstract S x := by
  have := h.gtClass x
  unfold Cfg.isAbstract
  cases h1 : S.gettype x with
  | none =>
    cases h2 : S'.gettype x with
    | none => rfl
    | some e' => rw [h1, h2] at this; cases e' <;> cases this
  | some e =>
    cases h2 : S'.gettype x with
    | none => rw [h1, h2] at this; cases e <;> cases this
    | some e' =>
      rw [h1, h2] at this
      cases e <;> cases e' <;> first | rfl | cases this

theorem TabEq.isSubtype {n : Nat} {S S' : Schema} (h : TabEq n S S') (a x : Str) : isSubtype S' a x = isSubtype S a x := by
  have := h.find a
  unfold Cfg.isSubtype
  cases h1 : S.gettype a with
  | none =>
    cases h2 : S'.gettype a with
    | none => rfl
    | some e' => rw [h1, h2] at this; exact this.elim
  | some e =>
    cases h2 : S'.gettype a with
    | none => rw [h1, h2] at this; exact this.elim
    | some e' =>
      rw [h1, h2] at this
      cases e with
      | concrete t =>
        cases e' with
        | concrete t' => rfl
        | abstract_ n' subs' => exact this.elim
      | abstract_ n subs =>
        cases e' with
        | concrete t' => exact this.elim
        | abstract_ n' subs' =>
          obtain ⟨_, hm⟩ : n' = n ∧ ∀ c, c ∈ subs' ↔ c ∈ subs := this
          simp only
          cases hc : subs.contains x with
          | true => exact List.contains_iff_mem.mpr ((hm x).mpr (List.contains_iff_mem.mp hc))
          | false =>
            cases hc' : subs'.contains x with
            | false => rfl
            | true =>
              have := List.contains_iff_mem.mpr ((hm x).mp (List.contains_iff_mem.mp hc'))
              rw [hc] at this
              cases this

/-! ### loader operations cannot tell such schemas apart -/

theorem go_congr (s s' : Schema) (ha : ∀ x, Cfg.isAbstract s x = Cfg.isAbstract s' x)
    (hs : ∀ a x, Cfg.isSubtype s a x = Cfg.isSubtype s' a x) (ty : Str) (nm : Option Str) :
    ∀ l, getsectioninfo.go s ty nm l = getsectioninfo.go s' ty nm l := by
  intro l
  induction l with
  | nil => rw [getsectioninfo.go.eq_def]; conv => rhs; rw [getsectioninfo.go.eq_def]
  | cons c rest ih =>
    rw [getsectioninfo.go.eq_def]
    conv => rhs; rw [getsectioninfo.go.eq_def]
    unfold getsectioninfo.goUnkeyed
    simp only [ha, hs, ih]

theorem getsectioninfo_tabEq {n : Nat} {S S' : Schema} (h : TabEq n S S') : getsectioninfo S' = getsectioninfo S := by
  funext t ty nm
  unfold getsectioninfo
  exact go_congr S' S h.isAbstract h.isSubtype ty nm _

/-- a match on `gettype` that only asks "concrete (which)? abstract? unknown?" -/
theorem gtEq_cases {S S' : Schema} (h : GtEq S S') (ty : Str) :
    (S.gettype ty = none ∧ S'.gettype ty = none) ∨
    (∃ t, S.gettype ty = some (.concrete t) ∧ S'.gettype ty = some (.concrete t)) ∨
    (∃ a subs a' subs', S.gettype ty = some (.abstract_ a subs) ∧ S'.gettype ty = some (.abstract_ a' subs')) := by
  have hc := h ty
  cases h1 : S.gettype ty with
  | none =>
    cases h2 : S'.gettype ty with
    | none => exact .inl ⟨rfl, rfl⟩
    | some e' => rw [h1, h2] at hc; cases e' <;> cases hc
  | some e =>
    cases h2 : S'.gettype ty with
    | none => rw [h1, h2] at hc; cases e <;> cases hc
    | some e' =>
      rw [h1, h2] at hc
      cases e with
      | concrete t =>
        cases e' with
        | concrete t' => simp only [gtClass, Option.some.injEq] at hc; subst hc; exact .inr (.inl ⟨_, rfl, rfl⟩)
        | abstract_ n' subs' => cases hc
      | abstract_ n subs =>
        cases e' with
        | concrete t' => cases hc
        | abstract_ n' subs' => exact .inr (.inr ⟨_, _, _, _, rfl, rfl⟩)

theorem TabEq.gtEq {n : Nat} {S S' : Schema} (h : TabEq n S S') : GtEq S S' := fun ty => h.gtClass ty

theorem bagSectionInfo_gtEq {S S' : Schema} (h : GtEq S S') (conv : Conv) :
    bagSectionInfo conv S' = bagSectionInfo conv S := by
  funext b ty name
  unfold bagSectionInfo
  rcases gtEq_cases h ty with ⟨h1, h2⟩ | ⟨t, h1, h2⟩ | ⟨a, subs, a', subs', h1, h2⟩ <;> rw [h1, h2]

theorem gtClass_cases {n : Nat} {S S' : Schema} (h : TabEq n S S') (ty : Str) :
    (S.gettype ty = none ∧ S'.gettype ty = none) ∨
    (∃ t, S.gettype ty = some (.concrete t) ∧ S'.gettype ty = some (.concrete t)) ∨
    (∃ a subs a' subs', S.gettype ty = some (.abstract_ a subs) ∧ S'.gettype ty = some (.abstract_ a' subs')) := by
  have hc := h.gtClass ty
  cases h1 : S.gettype ty with
  | none =>
    cases h2 : S'.gettype ty with
    | none => exact .inl ⟨rfl, rfl⟩
    | some e' => rw [h1, h2] at hc; cases e' <;> cases hc
  | some e =>
    cases h2 : S'.gettype ty with
    | none => rw [h1, h2] at hc; cases e <;> cases hc
    | some e' =>
      rw [h1, h2] at hc
      cases e with
      | concrete t =>
        cases e' with
        | concrete t' => simp only [gtClass, Option.some.injEq] at hc; subst hc; exact .inr (.inl ⟨_, rfl, rfl⟩)
        | abstract_ n' subs' => cases hc
      | abstract_ n subs =>
        cases e' with
        | concrete t' => cases hc
        | abstract_ n' subs' => exact .inr (.inr ⟨_, _, _, _, rfl, rfl⟩)

theorem bagSectionInfo_tabEq {n : Nat} {S S' : Schema} (h : TabEq n S S') (conv : Conv) :
    bagSectionInfo conv S' = bagSectionInfo conv S := by
  funext b ty name
  unfold bagSectionInfo
  rcases gtClass_cases h ty with ⟨h1, h2⟩ | ⟨t, h1, h2⟩ | ⟨a, subs, a', subs', h1, h2⟩ <;> rw [h1, h2]

theorem constructChild_sects (conv : Conv) (S : Schema) (si : SectInfo) (vs : List Val) :
    constructChild conv S (.sect si) (.sects vs) =
      Except.map Val.list (vs.mapM fun v => constructChild conv S (.sect si) (.sect v)) := rfl

theorem constructChild_sect_tabEq {n : Nat} {S S' : Schema} (h : TabEq n S S') (conv : Conv) (si : SectInfo) (v : Val) :
    constructChild conv S' (.sect si) (.sect v) = constructChild conv S (.sect si) (.sect v) := by
  unfold constructChild
  simp only
  cases v with
  | sect ty nm attrs =>
    simp only
    rcases gtClass_cases h ty with ⟨h1, h2⟩ | ⟨t, h1, h2⟩ | ⟨a, subs, a', subs', h1, h2⟩ <;> rw [h1, h2]
  | _ => rfl

theorem constructChild_tabEq {n : Nat} {S S' : Schema} (h : TabEq n S S') (conv : Conv) :
    constructChild conv S' = constructChild conv S := by
  funext ci slot
  cases ci with
  | key ki => cases slot <;> rfl
  | sect si =>
    cases slot with
    | sect v => exact constructChild_sect_tabEq h conv si v
    | sects vs =>
      rw [constructChild_sects, constructChild_sects]
      congr 2
      funext v
      exact constructChild_sect_tabEq h conv si v
    | _ => rfl

theorem finishMatcher_tabEq {n : Nat} {S S' : Schema} (h : TabEq n S S') (conv : Conv) :
    finishMatcher conv S' = finishMatcher conv S := by
  funext m
  unfold finishMatcher
  rw [constructChild_tabEq h conv]

theorem addSection_tabEq {n : Nat} {S S' : Schema} (h : TabEq n S S') : addSection S' = addSection S := by
  funext m ty nm v
  unfold addSection
  rw [getsectioninfo_tabEq h]

/-- the same loader state on another schema (and another schema for the override bags) -/
def LS.onSchema (S' : Schema) (B' : Option Schema) (a : LS) : LS := { a with schema := S', bagSchema := B' }

theorem lsStart_onSchema {n : Nat} (a : LS) (S' : Schema) (B' : Option Schema) (h : TabEq n a.schema S')
    (hB : BagRel a.bagSchema B') (ty : Str) (nm : Option Str) :
    lsStart (a.onSchema S' B') ty nm = (lsStart a ty nm).map (LS.onSchema S' B') := by
  have hbs : bagSectionInfo a.conv (B'.getD S') = bagSectionInfo a.conv (a.bagSchema.getD a.schema) := by
    rcases hB with ⟨h1, h2⟩ | ⟨x, y, h1, h2, hg⟩
    · rw [h1, h2]; exact bagSectionInfo_gtEq h.gtEq a.conv
    · rw [h1, h2]; exact bagSectionInfo_gtEq hg a.conv
  unfold lsStart LS.onSchema
  simp only
  cases a.stack with
  | nil => rfl
  | cons parent below =>
    simp only
    rcases gtClass_cases h ty with ⟨h1, h2⟩ | ⟨t, h1, h2⟩ | ⟨x, subs, x', subs', h1, h2⟩ <;> rw [h1, h2]
    · rfl
    · simp only [getsectioninfo_tabEq h, hbs]
      cases getsectioninfo a.schema parent.ty (t.name.getD []) nm with
      | error e => rfl
      | ok ci =>
        simp only [bind, Except.bind, pure, Except.pure, throw, throwThe, MonadExceptOf.throw, Except.map]
        split
        · rfl
        · split
          · rfl
          · cases parent.bag with
            | none => rfl
            | some b =>
              simp only
              cases bagSectionInfo a.conv (a.bagSchema.getD a.schema) b (t.name.getD []) nm <;> rfl
    · rfl

theorem lsStop_onSchema {n : Nat} (a : LS) (S' : Schema) (B' : Option Schema) (h : TabEq n a.schema S') (ty : Str)
    (nm : Option Str) : lsStop (a.onSchema S' B') ty nm = (lsStop a ty nm).map (LS.onSchema S' B') := by
  unfold lsStop LS.onSchema
  simp only [finishMatcher_tabEq h, addSection_tabEq h]
  cases a.stack with
  | nil => rfl
  | cons child rest =>
    cases rest with
    | nil => rfl
    | cons parent below =>
      simp only
      cases finishMatcher a.conv a.schema child with
      | error e => rfl
      | ok vh =>
        obtain ⟨v, hs⟩ := vh
        simp only [bind, Except.bind, pure, Except.pure, Except.map]
        cases addSection a.schema parent ty nm v <;> rfl

theorem lsValue_onSchema (a : LS) (S' : Schema) (B' : Option Schema) (k v : Str) (p : Pos) :
    lsValue (a.onSchema S' B') k v p = (lsValue a k v p).map (LS.onSchema S' B') := by
  unfold lsValue LS.onSchema
  simp only
  cases a.stack with
  | nil => rfl
  | cons cur below =>
    simp only
    cases addValue a.conv cur k v p <;> rfl

theorem LSRel.onSchema {n : Nat} {r : LS} {S S' : Schema} {B B' : Option Schema} (hs : r.schema = S) (hb : r.bagSchema = B)
    (h : TabEq n S S') (hB : BagRel B B') : LSRel (TabEq n) r (r.onSchema S' B') :=
  ⟨rfl, rfl, rfl, rfl, rfl, by rw [hb]; exact hB, by rw [hs]; exact h⟩

/-- **every loader operation behaves the same on two schemas that differ in the order of implementer tables at most** -/
theorem opsSimE_tabEq (n : Nat) : OpsSimE loaderCtx (LSRel (TabEq n)) where
  start := by
    intro a b ty nm h
    have hb : b = a.onSchema b.schema b.bagSchema := h.eq
    rw [hb]
    show ExRel _ (lsStart a ty nm) (lsStart (a.onSchema b.schema b.bagSchema) ty nm)
    rw [lsStart_onSchema a b.schema b.bagSchema h.2.2.2.2.2.2 h.2.2.2.2.2.1 ty nm]
    exact ExRel.map_right _ _ (fun r hr => LSRel.onSchema (lsStart_schema a r ty nm hr) (lsStart_bagSchema a r ty nm hr)
      h.2.2.2.2.2.2 h.2.2.2.2.2.1)
  stop := by
    intro a b ty nm h
    have hb : b = a.onSchema b.schema b.bagSchema := h.eq
    rw [hb]
    show ExRel _ (lsStop a ty nm) (lsStop (a.onSchema b.schema b.bagSchema) ty nm)
    rw [lsStop_onSchema a b.schema b.bagSchema h.2.2.2.2.2.2 ty nm]
    exact ExRel.map_right _ _ (fun r hr => LSRel.onSchema (lsStop_schema a r ty nm hr) (lsStop_bagSchema a r ty nm hr)
      h.2.2.2.2.2.2 h.2.2.2.2.2.1)
  value := by
    intro a b k v p h
    have hb : b = a.onSchema b.schema b.bagSchema := h.eq
    rw [hb]
    show ExRel _ (lsValue a k v p) (lsValue (a.onSchema b.schema b.bagSchema) k v p)
    rw [lsValue_onSchema a b.schema b.bagSchema k v p]
    exact ExRel.map_right _ _ (fun r hr => LSRel.onSchema (lsValue_schema a r k v p hr) (lsValue_bagSchema a r k v p hr)
      h.2.2.2.2.2.2 h.2.2.2.2.2.1)
  imp := fun a b pkg h => lsImport_sle a b pkg h

/-! ### the relation collapses when the fresh side has registered every extra name itself -/

theorem rel2_strengthen {α β : Type} {R R' : α → β → Prop} : ∀ {l : List α} {l' : List β}, Rel2 R l l' →
    (∀ a ∈ l, ∀ b, R a b → R' a b) → Rel2 R' l l' := by
  intro l l' h
  induction h with
  | nil => intro _; exact .nil
  | cons hab _ ih =>
    intro hr
    exact .cons (hr _ List.mem_cons_self _ hab) (ih (fun a ha b hab => hr a (List.mem_cons_of_mem _ ha) b hab))

theorem SLe.collapse {n : Nat} {regs : List (Str × Str)} {S S' : Schema}
    (h : SLe n (fun k c => (c, k) ∈ regs) S S')
    (hcov : ∀ ia ∈ regs, ∀ a subs, (ia.2, TypeEntry.abstract_ a subs) ∈ S.types.take n → ia.1 ∈ subs) : TabEq n S S' := by
  obtain ⟨A, A', B, h1, h2, h3, h4⟩ := h.types
  refine ⟨h.top, h.handler, h.components, A, A', B, h1, h2, h3, ?_⟩
  have hA : S.types.take n = A := by rw [h1, ← h3, List.take_left']; rfl
  refine rel2_strengthen h4 ?_
  intro p hp q hpq
  obtain ⟨k, te⟩ := p
  obtain ⟨k', te'⟩ := q
  obtain ⟨hk, hm⟩ := hpq
  refine ⟨hk, ?_⟩
  cases te with
  | concrete t => cases te' <;> exact hm
  | abstract_ a subs =>
    cases te' with
    | concrete t' => exact hm
    | abstract_ a' subs' =>
      simp only at hm ⊢
      obtain ⟨ha, m1, m2⟩ := hm
      refine ⟨ha, m1, ?_⟩
      intro c hc
      rcases m2 c hc with hcs | hcr
      · exact .inl hcs
      · exact .inl (hcov (c, k) hcr a subs (by rw [hA]; exact hp))

/-! ### whole loads -/

theorem load_eq_init (conv : Conv) (env : Env) (pkgs : Str → Pkg) (s : Schema) (url : Option Str) (lines specs : List Str) :
    load conv env pkgs s url lines specs =
      loadInit conv pkgs s specs >>= fun ps0 =>
        parseLines 64 env loaderCtx (activeOf url) url lines 0 ps0 >>= loadFin conv s := by
  rw [load_eq_gen]
  unfold loadInit loadBag
  cases specs.mapM addOption with
  | error e => rfl
  | ok ov =>
    rw [ok_bind, ok_bind]
    cases (if ov.isEmpty = true then pure none else Except.map some (mkBag conv s.top ov) : M (Option Bag)) with
    | error e => rfl
    | ok bag => rfl

/-- same error, or same value and handler entries and schemas that differ in the order of implementer tables at most -/
def LoadEquiv (n : Nat) : M LoadResult → M LoadResult → Prop :=
  ExRel fun r r' => r'.value = r.value ∧ r'.handlers = r.handlers ∧ TabEq n r.schemaAfter r'.schemaAfter

theorem gtEq_withImplementers (s : Schema) (regs : List (Str × Str)) : GtEq s (s.withImplementers regs) := by
  intro ty
  cases h1 : s.gettype ty with
  | none =>
    have : (s.withImplementers regs).gettype ty = none := by
      rw [gettype_none_iff_keys, withImplementers_keys, ← gettype_none_iff_keys]; exact h1
    rw [this]
  | some e =>
    cases e with
    | concrete t => rw [(gettype_concrete_withImplementers s regs ty t).mpr h1]
    | abstract_ a subs =>
      have ha : isAbstract (s.withImplementers regs) ty = true := by
        rw [isAbstract_withImplementers]; unfold Cfg.isAbstract; rw [h1]
      unfold Cfg.isAbstract at ha
      split at ha
      · rename_i heq; rw [heq]; rfl
      · cases ha

theorem loadInit_sle (conv : Conv) (pkgs : Str → Pkg) (s : Schema) (regs : List (Str × Str)) (specs : List Str) :
    ExRel (PSR (LSRel (SLe s.types.length fun k c => (c, k) ∈ regs)))
      (loadInit conv pkgs s specs) (loadInit conv pkgs (s.withImplementers regs) specs) := by
  unfold loadInit loadBag
  rw [withImplementers_top]
  cases specs.mapM addOption with
  | error e => rfl
  | ok ov =>
    rw [ok_bind, ok_bind]
    cases (if ov.isEmpty = true then pure none else Except.map some (mkBag conv s.top ov) : M (Option Bag)) with
    | error e => rfl
    | ok bag =>
      refine ExRel.ok ⟨rfl, rfl, rfl, rfl, rfl, rfl, rfl, ?_, SLe.start s regs⟩
      cases bag with
      | none => exact .inl ⟨rfl, rfl⟩
      | some b => exact .inr ⟨_, _, rfl, rfl, gtEq_withImplementers s regs⟩

theorem loadFin_tabEq {n : Nat} (conv : Conv) (s s' : Schema) (htop : s'.top = s.top) (hh : s'.handler = s.handler)
    (ps ps' : PS LS) (h : PSR (LSRel (TabEq n)) ps ps') : LoadEquiv n (loadFin conv s ps) (loadFin conv s' ps') := by
  obtain ⟨_, _, h1, h2, h3, h4, h5, _, hQ⟩ := h
  unfold loadFin LoadEquiv
  rw [h3, h2, htop, hh, finishMatcher_tabEq hQ]
  cases ps.ctx.stack with
  | nil => rfl
  | cons top rest =>
    cases rest with
    | cons x y => rfl
    | nil =>
      simp only
      cases finishMatcher conv ps.ctx.schema top with
      | error e => rfl
      | ok vh =>
        obtain ⟨v, hs⟩ := vh
        simp only [bind, Except.bind]
        cases conv.sect s.top.datatype v with
        | error e => rfl
        | ok v' => exact ⟨rfl, rfl, hQ⟩

/-- **A load whose head imports the leaking components itself is not influenced by the leak.**  `s` is the fresh
    schema, `regs` any list of `addsubtype` calls (the leak of a history), the text is `pre ++ rest` where `pre` consists
    of `%import`, `%define` and comment lines only.  If – when `pre` goes through on the fresh schema – the calls `pre`
    makes itself absorb `regs` (applying `regs` after them changes nothing), then the load on the used schema object
    `s.withImplementers regs` and the load on the fresh schema `s` end in the same way: same error, or same value tree and
    handler entries. -/
theorem load_absorbs (conv : Conv) (env : Env) (pkgs : Str → Pkg) (s : Schema) (regs : List (Str × Str))
    (url : Option Str) (pre rest specs : List Str) (hpre : ∀ l ∈ pre, HeaderLine l)
    (hcov : ∀ ps0 st1, loadInit conv pkgs s specs = .ok ps0 →
      runLines 64 env loaderCtx (activeOf url) url pre 0 ps0 = .ok st1 →
      (s.withImplementers (linesStop 64 env (activeOf url) url pre 0 ps0).regs).withImplementers regs =
        s.withImplementers (linesStop 64 env (activeOf url) url pre 0 ps0).regs) :
    LoadEquiv s.types.length (load conv env pkgs s url (pre ++ rest) specs)
      (load conv env pkgs (s.withImplementers regs) url (pre ++ rest) specs) := by
  rw [load_eq_init, load_eq_init]
  refine (loadInit_sle conv pkgs s regs specs).bind' ?_
  intro ps0 ps0' hi0 _ h0
  rw [parseLines_append, parseLines_append]
  refine ExRel.bind (R := PSR (LSRel (TabEq s.types.length))) ?_ ?_
  · refine (header_simE 64 env (activeOf url) url pre 0 ps0 ps0' hpre h0).bind' ?_
    intro st1 st1' hr1 _ h1
    refine parse_simE (opsSimE_tabEq _) env 64 _ _ _ _ _ _ ⟨h1.1, h1.2.1, ?_⟩
    obtain ⟨e1, e2, e3, e4, e5, eB, hQ⟩ := h1.2.2
    refine ⟨e1, e2, e3, e4, e5, eB, hQ.collapse ?_⟩
    -- the first `n` entries of the fresh side's private schema are the application's entries after `pre`'s own calls
    obtain ⟨hs0, hp0⟩ := loadInit_ok conv pkgs s specs ps0 hi0
    have htr : Traced ps0.ctx.schema (linesStop 64 env (activeOf url) url pre 0 ps0) :=
      linesStop_inv (stopInv_traced pkgs) env 64 _ _ _ _ ps0 hp0
    have hsch := (linesStop_run_ok env 64 _ _ _ _ ps0 st1 hr1).1
    obtain ⟨⟨new, hn⟩, _, _⟩ := htr
    rw [hs0, hsch] at hn
    have htake : st1.ctx.schema.types.take s.types.length =
        (s.withImplementers (linesStop 64 env (activeOf url) url pre 0 ps0).regs).types := by
      rw [hn, withImplementers_types, List.take_left']
      simp
    have hc := (withImplementers_eq_self_iff _ _).mp (hcov ps0 st1 hi0 hr1)
    intro ia hia a subs hm
    rw [htake] at hm
    exact (regImpl_eq_self_iff _ ia).mp (hc ia hia) a subs hm
  · intro ps ps' hps
    exact loadFin_tabEq conv s _ (withImplementers_top _ _) (withImplementers_handler _ _) ps ps' hps

/-! ### when the head of the text makes the leaked calls again -/

/-- calls that are made again change nothing -/
theorem withImplementers_absorb (s : Schema) (R regs : List (Str × Str)) (h : ∀ ia ∈ regs, ia ∈ R) :
    (s.withImplementers R).withImplementers regs = s.withImplementers R := by
  rw [withImplementers_eq_self_iff]
  intro ia hia
  rw [regImpl_eq_self_iff]
  intro a subs hm
  rw [withImplementers_types] at hm
  obtain ⟨p, _, hpe⟩ := List.mem_map.mp hm
  obtain ⟨k, te⟩ := p
  cases te with
  | concrete t => rw [regEntries_concrete] at hpe; cases hpe
  | abstract_ a0 subs0 =>
    obtain ⟨add, he, _, h2, _⟩ := regEntries_abstract R k a0 subs0
    rw [he] at hpe
    simp only [Prod.mk.injEq, TypeEntry.abstract_.injEq] at hpe
    obtain ⟨hk, _, hsubs⟩ := hpe
    rw [← hsubs]
    apply h2
    rw [hk]
    exact h ia hia

/-- every call of a history is a call of a component some load of it read (completely or in part) -/
theorem historyRegs_pkg (conv : Conv) (env : Env) (pkgs : Str → Pkg) (s : Schema) (hist : List LoadReq)
    (ia : Str × Str) (hia : ia ∈ historyRegs conv env pkgs s hist) :
    ∃ p ∈ historyImports conv env pkgs s hist ++ historyBroken conv env pkgs s hist, ia ∈ pkgRegs (pkgs p) := by
  unfold historyRegs at hia
  obtain ⟨x, hx, hxi⟩ := List.mem_flatMap.mp hia
  obtain ⟨p, hp, hpi⟩ := (historyStops_sourced conv env pkgs hist s x hx).source ia hxi
  refine ⟨p, ?_, hpi⟩
  rcases List.mem_append.mp hp with h | h
  · exact List.mem_append_left _ (List.mem_flatMap.mpr ⟨x, hx, h⟩)
  · exact List.mem_append_right _ (List.mem_flatMap.mpr ⟨x, hx, h⟩)

/-- the calls of a component read to its end are among the calls recorded -/
theorem Sourced.complete {pkgs : Str → Pkg} {x : Stop} (h : Sourced pkgs x) (p : Str) (hp : p ∈ x.imports)
    (ia : Str × Str) (hia : ia ∈ pkgRegs (pkgs p)) : ia ∈ x.regs := by
  obtain ⟨part, hr, _⟩ := h
  rw [hr]
  exact List.mem_append_left _ (List.mem_flatMap.mpr ⟨p, hp, hia⟩)

end ZCV.Cfg
