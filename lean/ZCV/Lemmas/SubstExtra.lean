import ZCV.Lemmas.Subst
namespace ZCV.Subst
open ZCV ZCV.SubstSpec

theorem takeWhile_eq_self_iff (p : Char → Bool) (t : Str) : (t.takeWhile p == t) = t.all p := by
  induction t with
  | nil => simp
  | cons a l ih =>
    simp only [List.takeWhile_cons, List.all_cons]
    by_cases ha : p a
    · simp only [ha, ↓reduceIte, Bool.true_and, ← ih]
      rw [Bool.eq_iff_iff]; simp
    · simp [ha]

theorem map_error_inv {α β ε} {f : α → β} {x : Except ε α} {e : ε}
    (h : x.map f = .error e) : x = .error e := by
  cases x with
  | ok v => simp at h
  | error e' => simpa using h

/-- the replacement error always carries the *whole* source text -/
theorem spec_missing_source (defs env : Str → Option Str) (src : Str) :
    ∀ (n : Nat) (t a b : Str), t.length ≤ n → spec defs env src t = .error (.missing a b) → a = src := by
  intro n
  induction n with
  | zero =>
    intro t a b hl h
    have : t = [] := by cases t <;> simp_all
    subst this; simp [spec_nil] at h
  | succ n ih =>
    intro t a b hl h
    cases t with
    | nil => simp [spec_nil] at h
    | cons c r =>
      by_cases hc : c = '$'
      · subst hc
        cases r with
        | nil => rw [spec] at h; simp at h
        | cons d r2 =>
          have hr2 : r2.length ≤ n := by simp at hl; omega
          by_cases h1 : d = '$'
          · subst h1
            rw [spec] at h
            exact ih r2 a b hr2 (map_error_inv h)
          · by_cases h2 : d = '{'
            · subst h2
              rw [spec] at h
              split at h
              · simp at h
              · rename_i name r' hn
                have hlen := nameSplit_len _ _ _ hn
                split at h
                · simp at h; exact h.1.symm
                · exact ih r' a b (by simp at hlen; omega) (map_error_inv h)
              · simp at h
            · by_cases h3 : d = '('
              · subst h3
                rw [spec] at h
                split at h
                · simp at h
                · rename_i name r' hn
                  have hlen := nameSplit_len _ _ _ hn
                  split at h
                  · simp at h; exact h.1.symm
                  · exact ih r' a b (by simp at hlen; omega) (map_error_inv h)
                · simp at h
              · rw [spec] at h
                · split at h
                  · simp at h
                  · rename_i name r' hn
                    have hlen := nameSplit_len _ _ _ hn
                    split at h
                    · simp at h; exact h.1.symm
                    · exact ih r' a b (by simp at hlen; omega) (map_error_inv h)
                all_goals (intros; simp_all)
      · rw [spec_lit _ _ _ _ _ hc] at h
        exact ih r a b (by simp at hl; omega) (map_error_inv h)

end ZCV.Subst
