import ZCV.Spec.Defines
import ZCV.Lemmas.SubstExtra
/-!
Equations of the substitution spec (`SubstSpec.spec`) one reference at a time, and: the result depends on the
letter case of `$name` / `${name}` references only through `lower` (C05, C15).
-/
namespace ZCV.SubstSpec
open ZCV

theorem spec_esc (defs env : Str → Option Str) (src r : Str) :
    spec defs env src ('$' :: '$' :: r) = (spec defs env src r).map ('$' :: ·) := by
  rw [spec]

theorem spec_dollar_end (defs env : Str → Option Str) (src : Str) :
    spec defs env src ['$'] = .error (.syntax 0) := by
  rw [spec]

/-- `$name…` -/
theorem spec_bare (defs env : Str → Option Str) (src : Str) (c : Char) (r name r' : Str)
    (h1 : c ≠ '$') (h2 : c ≠ '{') (h3 : c ≠ '(') (hn : nameSplit (c :: r) = some (name, r')) :
    spec defs env src ('$' :: c :: r) =
      match defs (lower name) with
      | none => .error (.missing src name)
      | some v => (spec defs env src r').map (v ++ ·) := by
  rw [spec]
  · split
    · rename_i h; rw [hn] at h; cases h
    · rename_i name' r'' h
      rw [hn] at h; cases h
      rfl
  all_goals (intros; simp_all)

/-- `${name}…` -/
theorem spec_brace (defs env : Str → Option Str) (src : Str) (r name r' : Str)
    (hn : nameSplit r = some (name, '}' :: r')) :
    spec defs env src ('$' :: '{' :: r) =
      match defs (lower name) with
      | none => .error (.missing src name)
      | some v => (spec defs env src r').map (v ++ ·) := by
  rw [spec]
  split
  · rename_i h; rw [hn] at h; cases h
  · rename_i name' r'' h
    rw [hn] at h; cases h
    rfl
  · rename_i name' r'' hne h
    rw [hn] at h; cases h
    exact absurd rfl (hne _)

/-- `$(NAME)…` -/
theorem spec_paren (defs env : Str → Option Str) (src : Str) (r name r' : Str)
    (hn : nameSplit r = some (name, ')' :: r')) :
    spec defs env src ('$' :: '(' :: r) =
      match env name with
      | none => .error (.missing src name)
      | some v => (spec defs env src r').map (v ++ ·) := by
  rw [spec]
  split
  · rename_i h; rw [hn] at h; cases h
  · rename_i name' r'' h
    rw [hn] at h; cases h
    rfl
  · rename_i name' r'' hne h
    rw [hn] at h; cases h
    exact absurd rfl (hne _)

/-! ### letter case of references -/

theorem toOption_map' {ε α β} (x : Except ε α) (f : α → β) : (x.map f).toOption = x.toOption.map f := by
  cases x <;> rfl

theorem takeWhile_all' {α} (p : α → Bool) (t : List α) (h : t.all p = true) (u : List α)
    (hu : ∀ c ∈ u.head?, p c = false) : (t ++ u).takeWhile p = t ∧ (t ++ u).dropWhile p = u := by
  induction t with
  | nil =>
    cases u with
    | nil => simp
    | cons a l =>
      have := hu a (by simp)
      simp [this]
  | cons a l ih =>
    simp only [List.all_cons, Bool.and_eq_true] at h
    have := ih h.2
    simp only [List.cons_append, List.takeWhile_cons, List.dropWhile_cons, h.1, ↓reduceIte, this.1, this.2, and_self]

/-- a legal name followed by something that is not a name character is split off whole -/
theorem nameSplit_append (n t : Str) (hn : isnameSpec n = true) (ht : DefSpec.endsName t) :
    nameSplit (n ++ t) = some (n, t) := by
  cases n with
  | nil => simp [isnameSpec] at hn
  | cons c r =>
    simp only [isnameSpec, Bool.and_eq_true] at hn
    have := takeWhile_all' isNameChar r hn.2 t ht
    simp only [List.cons_append, nameSplit, hn.1, ↓reduceIte, this.1, this.2]

theorem isNameStart_ne {c : Char} (hc : isNameStart c = true) : c ≠ '$' ∧ c ≠ '{' ∧ c ≠ '(' := by
  refine ⟨?_, ?_, ?_⟩ <;> (intro h; subst h; revert hc; decide)

theorem refCase_head {s s' : Str} (h : DefSpec.RefCase s s') : s.head? = s'.head? := by
  cases h <;> rfl

/-- changing the letter case of references changes neither the expansion nor whether there is one (the error
    value itself quotes the source text and the name as written) -/
theorem spec_refCase (defs env : Str → Option Str) {s s' : Str} (h : DefSpec.RefCase s s') :
    ∀ src src', (spec defs env src s).toOption = (spec defs env src' s').toOption := by
  induction h with
  | nil => intro src src'; rw [spec_nil, spec_nil]
  | lit c hc _ ih =>
    intro src src'
    rw [spec_lit _ _ _ _ _ hc, spec_lit _ _ _ _ _ hc, toOption_map', toOption_map', ih src src']
  | esc _ ih =>
    intro src src'
    rw [spec_esc, spec_esc, toOption_map', toOption_map', ih src src']
  | @brace n n' t t' hn hn' hl _ ih =>
    intro src src'
    have e : DefSpec.endsName ('}' :: t) := by intro c hc; simp at hc; subst hc; decide
    have e' : DefSpec.endsName ('}' :: t') := by intro c hc; simp at hc; subst hc; decide
    rw [spec_brace _ _ _ _ n t (nameSplit_append n _ hn e), spec_brace _ _ _ _ n' t' (nameSplit_append n' _ hn' e'), hl]
    cases defs (lower n) with
    | none => rfl
    | some v => simp only [toOption_map', ih src src']
  | @bare n n' t t' hn hn' hl ht hr ih =>
    intro src src'
    have ht' : DefSpec.endsName t' := by
      intro c hc; rw [← refCase_head hr] at hc; exact ht c hc
    cases n with
    | nil => simp [isnameSpec] at hn
    | cons c r =>
      cases n' with
      | nil => simp [isnameSpec] at hn'
      | cons c' r' =>
        have hc : isNameStart c = true := by simp only [isnameSpec, Bool.and_eq_true] at hn; exact hn.1
        have hc' : isNameStart c' = true := by simp only [isnameSpec, Bool.and_eq_true] at hn'; exact hn'.1
        obtain ⟨a1, a2, a3⟩ := isNameStart_ne hc
        obtain ⟨b1, b2, b3⟩ := isNameStart_ne hc'
        have s1 := nameSplit_append (c :: r) t hn ht
        have s2 := nameSplit_append (c' :: r') t' hn' ht'
        rw [List.cons_append] at s1 s2
        rw [List.cons_append, List.cons_append, spec_bare _ _ _ c (r ++ t) (c :: r) t a1 a2 a3 s1,
          spec_bare _ _ _ c' (r' ++ t') (c' :: r') t' b1 b2 b3 s2, hl]
        cases defs (lower (c :: r)) with
        | none => rfl
        | some v => simp only [toOption_map', ih src src']
  | @env n t t' hn _ ih =>
    intro src src'
    have e : DefSpec.endsName (')' :: t) := by intro c hc; simp at hc; subst hc; decide
    have e' : DefSpec.endsName (')' :: t') := by intro c hc; simp at hc; subst hc; decide
    rw [spec_paren _ _ _ _ n t (nameSplit_append n _ hn e), spec_paren _ _ _ _ n t' (nameSplit_append n _ hn e')]
    cases env n with
    | none => rfl
    | some v => simp only [toOption_map', ih src src']

end ZCV.SubstSpec
