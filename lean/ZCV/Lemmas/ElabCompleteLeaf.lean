import ZCV.Lemmas.ElabCompleteBase
/-!
C10, completeness, step 2: the children of `<key>`, `<multikey>`, `<section>`, `<multisection>` (character-data
elements and blank text).  A rule-abiding body is read successfully, and only changes the frame on top of the stack, in
the way the specification predicts (the keys of the `<default>` elements are collected as written).
-/
namespace ZCV.SchemaRules
open ZCV ZCV.Elab
open ZCV.Cfg (VI SectInfo Default)

/-! ### the nesting table, character-data elements -/

theorem nestingOK_check {parent t : Str} (h : nestingOK parent t = true) : nestingCheck parent t = .ok () := by
  unfold nestingOK at h
  rw [List.any_eq_true] at h
  obtain ⟨e, he, hc⟩ := h
  simp only [Bool.and_eq_true, beq_iff_eq] at hc
  obtain ⟨h1, h2⟩ := hc
  obtain ⟨n, ps⟩ := e
  simp only at h1 h2
  subst h1
  exact (nestingCheck_ok_iff parent n).2 ⟨ps, he, List.contains_iff_mem.mp h2⟩

theorem check_nestingOK {parent t : Str} (h : nestingCheck parent t = .ok ()) : nestingOK parent t = true := by
  obtain ⟨ps, h1, h2⟩ := (nestingCheck_ok_iff parent t).1 h
  unfold nestingOK
  rw [List.any_eq_true]
  exact ⟨(t, ps), h1, by simp [h2]⟩

theorem cdataTags_eq :
    Gen.cdataTags = ["description".toList, "metadefault".toList, "example".toList, "default".toList] := by
  decide +kernel

theorem cdataTag_cases {t : Str} (h : Gen.cdataTags.contains t = true) :
    t = "description".toList ∨ t = "metadefault".toList ∨ t = "example".toList ∨ t = "default".toList := by
  rw [cdataTags_eq] at h
  simpa using h

theorem cdataTag_dispatch (d : DocKind) {t : Str} (h : Gen.cdataTags.contains t = true) :
    t ≠ d.topLevel ∧ d.handled.contains t = false := by
  cases d with
  | schema ext =>
    show t ≠ Gen.schemaTopLevel ∧ Gen.schemaHandledTags.contains t = false
    rcases cdataTag_cases h with rfl | rfl | rfl | rfl <;> exact ⟨by decide +kernel, by decide +kernel⟩
  | component =>
    show t ≠ Gen.componentTopLevel ∧ Gen.componentHandledTags.contains t = false
    rcases cdataTag_cases h with rfl | rfl | rfl | rfl <;> exact ⟨by decide +kernel, by decide +kernel⟩

/-- the character data of an element that holds text only -/
def textOf : List Node → Str
  | [] => []
  | .text s :: r => s ++ textOf r
  | .elem _ _ _ :: r => textOf r

theorem collectText_of_text (parent : Str) : ∀ c : List Node, c.all isText = true → collectText parent c = .ok (textOf c)
  | [], _ => rfl
  | .text s :: r, h => by
    simp only [List.all_cons, isText, Bool.true_and] at h
    rw [collectText, collectText_of_text parent r h]
    rfl
  | .elem t a c :: r, h => by simp [isText] at h

/-- a character-data element below a key or section element acts on the frame on top of the stack only -/
theorem visitElem_cdata_local {env : Env} {h : Hooks} {d : DocKind} {parent : Str} {st : PSt} {t : Str} {a : Attrs}
    {c : List Node} {f : Frame} {rest : List Frame} (hn : nestingOK parent t = true)
    (hc : Gen.cdataTags.contains t = true) (htxt : c.all isText = true) (hs : st.stack = f :: rest)
    (hf : f.isLocal = true) :
    visitElem env h d (some parent) st (.elem t a c) =
      (localStep (isComp d) t a (strip (textOf c)) f).map fun f' => { st with stack := f' :: rest } := by
  obtain ⟨h1, h2⟩ := cdataTag_dispatch d hc
  rw [visitElem_cdata_eq (nestingOK_check hn) h1 h2 hc, collectText_of_text t c htxt]
  simp only [bind, Except.bind]
  exact charactersTag_eq_local hs hf

/-! ### counting `<description>` / `<example>` -/

/-- the rule "at most one" seen from the middle of a body: `flag` says one has been read already -/
def onceLeft (flag : Bool) (tag : Str) (c : List Node) : Prop :=
  if flag then countTag tag c = 0 else countTag tag c ≤ 1

theorem countTag_text (tag s : Str) (r : List Node) : countTag tag (.text s :: r) = countTag tag r := by
  simp [countTag]

theorem countTag_elem (tag t : Str) (a : Attrs) (c r : List Node) :
    countTag tag (.elem t a c :: r) = countTag tag r + if t == tag then 1 else 0 := by
  simp [countTag, List.countP_cons]

theorem onceLeft_text {flag : Bool} {tag s : Str} {r : List Node} (h : onceLeft flag tag (.text s :: r)) :
    onceLeft flag tag r := by
  unfold onceLeft at h ⊢
  rw [countTag_text] at h
  exact h

theorem onceLeft_other {flag : Bool} {tag t : Str} {a : Attrs} {c r : List Node} (ht : t ≠ tag)
    (h : onceLeft flag tag (.elem t a c :: r)) : onceLeft flag tag r := by
  unfold onceLeft at h ⊢
  rw [countTag_elem] at h
  have : (t == tag) = false := by simpa using ht
  simpa [this] using h

theorem onceLeft_same {flag : Bool} {tag : Str} {a : Attrs} {c r : List Node}
    (h : onceLeft flag tag (.elem tag a c :: r)) : flag = false ∧ onceLeft true tag r := by
  unfold onceLeft at h ⊢
  rw [countTag_elem] at h
  simp only [beq_self_eq_true, ↓reduceIte] at h
  cases flag with
  | true => simp at h
  | false =>
    simp only [Bool.false_eq_true, ↓reduceIte] at h
    exact ⟨rfl, by simp only [↓reduceIte]; omega⟩

/-- "at most one `<description>`", which the loader enforces in schema documents only (`isC`: reading a component) -/
def OnceIf (isC flag : Bool) (tag : Str) (c : List Node) : Prop := isC = false → onceLeft flag tag c

theorem OnceIf.text {isC flag : Bool} {tag s : Str} {r : List Node} (h : OnceIf isC flag tag (.text s :: r)) :
    OnceIf isC flag tag r := fun hc => onceLeft_text (h hc)

theorem OnceIf.other {isC flag : Bool} {tag t : Str} {a : Attrs} {c r : List Node} (ht : t ≠ tag)
    (h : OnceIf isC flag tag (.elem t a c :: r)) : OnceIf isC flag tag r := fun hc => onceLeft_other ht (h hc)

theorem OnceIf.same {isC flag : Bool} {tag : Str} {a : Attrs} {c r : List Node}
    (h : OnceIf isC flag tag (.elem tag a c :: r)) : (flag && !isC) = false ∧ OnceIf isC true tag r := by
  cases isC with
  | true => exact ⟨by simp, fun hc => by cases hc⟩
  | false =>
    obtain ⟨h1, h2⟩ := onceLeft_same (h rfl)
    exact ⟨by simp [h1], fun _ => h2⟩

/-! ### `<default>` children -/

theorem defaultElems_text (s : Str) (r : List Node) : defaultElems (.text s :: r) = defaultElems r := by
  unfold defaultElems
  rw [List.filterMap_cons]

theorem defaultElems_default (a : Attrs) (c r : List Node) :
    defaultElems (.elem "default".toList a c :: r) = a :: defaultElems r := by
  unfold defaultElems
  rw [List.filterMap_cons]
  simp only [beq_self_eq_true, ↓reduceIte]

theorem defaultElems_other {t : Str} (a : Attrs) (c r : List Node) (ht : t ≠ "default".toList) :
    defaultElems (.elem t a c :: r) = defaultElems r := by
  have : (t == "default".toList) = false := by simpa using ht
  unfold defaultElems
  rw [List.filterMap_cons]
  simp only [this, Bool.false_eq_true, ↓reduceIte]

theorem defaultKeys_eq (c : List Node) : defaultKeys c = (defaultElems c).map fun a => attr a "key" := rfl

theorem plusKeys_eq (c : List Node) : plusKeys c = ((defaultElems c).map fun a => attr a "key").filterMap id := rfl

theorem plusKeys_nil : plusKeys [] = [] := rfl

theorem plusKeys_congr {c c' : List Node} (h : defaultElems c = defaultElems c') : plusKeys c = plusKeys c' := by
  rw [plusKeys_eq, plusKeys_eq, h]

theorem defaultKeys_congr {c c' : List Node} (h : defaultElems c = defaultElems c') : defaultKeys c = defaultKeys c' := by
  rw [defaultKeys_eq, defaultKeys_eq, h]

/-- one more default of a multi-valued `+` key: the set of keys grows by the new key -/
theorem addValueInfo_multi_keys (k : EKey) (vi : VI) (kk : Str) (m : List (Str × List VI)) (hm : k.multi = true)
    (hn : k.name = ['+']) (hd : k.dflt = .keyedMany m) :
    ∃ m', addValueInfo k vi (some kk) = .ok { k with dflt := .keyedMany m' } ∧
      ∀ x, x ∈ m'.map (·.1) ↔ x ∈ m.map (·.1) ∨ x = kk := by
  unfold addValueInfo
  simp only [hm, ↓reduceIte, hn, beq_self_eq_true, hd, Option.getD_some]
  by_cases hany : m.any (·.1 == kk) = true
  · rw [if_pos hany]
    refine ⟨_, rfl, ?_⟩
    intro x
    have hmap : (m.map fun (p : Str × List VI) => if p.1 == kk then (p.1, p.2 ++ [vi]) else (p.1, p.2)).map (·.1) =
        m.map (·.1) := by
      rw [List.map_map]
      apply List.map_congr_left
      intro p _
      simp only [Function.comp]
      split <;> rfl
    rw [hmap]
    constructor
    · exact Or.inl
    · rintro (h | h)
      · exact h
      · subst h; exact (any_fst_beq m x).1 hany
  · rw [if_neg hany]
    refine ⟨_, rfl, ?_⟩
    intro x
    simp [List.map_append]

/-- what the body of a `<key>` / `<multikey>` element may still contain, given the key object `k` read so far -/
structure KeyBodyPre (isC : Bool) (k : EKey) (c : List Node) : Prop where
  desc : OnceIf isC k.hasDesc "description".toList c
  ex : onceLeft k.hasEx "example".toList c
  open_ : defaultElems c ≠ [] → k.minOccurs = 0 ∧ k.finished = false
  keyed : k.name = ['+'] → (defaultKeys c).all Option.isSome = true
  unkeyed : k.name ≠ ['+'] → (defaultKeys c).all Option.isNone = true
  single : k.name = ['+'] → k.multi = false → ∃ m, k.dflt = .keyed m ∧ (m.map (·.1) ++ plusKeys c).Nodup
  multi : k.name = ['+'] → k.multi = true → ∃ m, k.dflt = .keyedMany m
  fixedMulti : k.name ≠ ['+'] → k.multi = true → ∃ l, k.dflt = .many l
  fixedSingle : k.name ≠ ['+'] → k.multi = false → defaultElems c = []

/-- how the defaults of the key object have changed when the body `c` has been read -/
def DfltAfter (k : EKey) (c : List Node) (d' : Default) : Prop :=
  (k.name = ['+'] → k.multi = false → ∀ m, k.dflt = .keyed m →
      ∃ m', d' = .keyed m' ∧ m'.map (·.1) = m.map (·.1) ++ plusKeys c) ∧
  (k.name = ['+'] → k.multi = true → ∀ m, k.dflt = .keyedMany m →
      ∃ m', d' = .keyedMany m' ∧ ∀ x, x ∈ m'.map (·.1) ↔ x ∈ m.map (·.1) ∨ x ∈ plusKeys c)

theorem localStep_key_description (isC : Bool) (a : Attrs) (data : Str) (k : EKey) :
    localStep isC "description".toList a data (.key k) =
      if k.hasDesc && !isC then serr "at most one <description> may be used for each element"
      else .ok (.key { k with hasDesc := true }) := by
  unfold localStep
  have h1 : ("description".toList == "default".toList) = false := by decide +kernel
  simp only [h1, Bool.false_eq_true, ↓reduceIte, beq_self_eq_true]

theorem localStep_key_example (isC : Bool) (a : Attrs) (data : Str) (k : EKey) :
    localStep isC "example".toList a data (.key k) =
      if k.hasEx then serr "at most one <example> may be used for each element"
      else .ok (.key { k with hasEx := true }) := by
  unfold localStep
  have h1 : ("example".toList == "default".toList) = false := by decide +kernel
  have h2 : ("example".toList == "description".toList) = false := by decide +kernel
  simp only [h1, h2, Bool.false_eq_true, ↓reduceIte, beq_self_eq_true]

theorem localStep_key_metadefault (isC : Bool) (a : Attrs) (data : Str) (k : EKey) :
    localStep isC "metadefault".toList a data (.key k) = .ok (.key k) := by
  unfold localStep
  have h1 : ("metadefault".toList == "default".toList) = false := by decide +kernel
  have h2 : ("metadefault".toList == "description".toList) = false := by decide +kernel
  have h3 : ("metadefault".toList == "example".toList) = false := by decide +kernel
  simp only [h1, h2, h3, Bool.false_eq_true, ↓reduceIte, beq_self_eq_true]

theorem localStep_key_default (isC : Bool) (a : Attrs) (data : Str) (k : EKey) :
    localStep isC "default".toList a data (.key k) =
      if k.minOccurs != 0 then serr "required key cannot have default values"
      else (addDefault k data (attr a "key")).map Frame.key := by
  unfold localStep
  simp only [beq_self_eq_true, ↓reduceIte]

theorem visitChildren_nil' (env : Env) (h : Hooks) (d : DocKind) (p : Str) (st : PSt) :
    visitChildren env h d p st [] = .ok st := by
  rw [visitChildren]

/-- an element that is not a `<default>` (or blank text) read: the rest of the body is still fine -/
theorem KeyBodyPre.skip {isC : Bool} {k k' : EKey} {c r : List Node} (hp : KeyBodyPre isC k c)
    (hde : defaultElems c = defaultElems r)
    (h1 : k'.minOccurs = k.minOccurs) (h2 : k'.finished = k.finished) (h3 : k'.name = k.name) (h4 : k'.multi = k.multi)
    (h5 : k'.dflt = k.dflt) (hd : OnceIf isC k'.hasDesc "description".toList r)
    (he : onceLeft k'.hasEx "example".toList r) :
    KeyBodyPre isC k' r :=
  { desc := hd, ex := he,
    open_ := by rw [← hde, h1, h2]; exact hp.open_,
    keyed := by rw [← defaultKeys_congr hde, h3]; exact hp.keyed,
    unkeyed := by rw [← defaultKeys_congr hde, h3]; exact hp.unkeyed,
    single := by rw [← plusKeys_congr hde, h3, h4, h5]; exact hp.single,
    multi := by rw [h3, h4, h5]; exact hp.multi,
    fixedMulti := by rw [h3, h4, h5]; exact hp.fixedMulti,
    fixedSingle := by rw [← hde, h3, h4]; exact hp.fixedSingle }

theorem DfltAfter.skip {k k' : EKey} {c r : List Node} {d' : Default} (hde : defaultElems c = defaultElems r)
    (h3 : k'.name = k.name) (h4 : k'.multi = k.multi) (h5 : k'.dflt = k.dflt) (h : DfltAfter k' r d') :
    DfltAfter k c d' := by
  unfold DfltAfter at h ⊢
  rw [h3, h4, h5] at h
  rw [plusKeys_congr hde]
  exact h

theorem DfltAfter.nil (k : EKey) : DfltAfter k [] k.dflt :=
  ⟨fun _ _ m hm => ⟨m, hm, by rw [plusKeys_nil, List.append_nil]⟩,
   fun _ _ m hm => ⟨m, hm, fun x => by rw [plusKeys_nil]; simp⟩⟩

/-- the `<default>` step of `keyBody_ok`: the key object after one more default -/
theorem keyBody_default_step {isC : Bool} {k : EKey} {a : Attrs} {c0 r : List Node} (data : Str)
    (hp : KeyBodyPre isC k (.elem "default".toList a c0 :: r)) :
    ∃ d1, addDefault k data (attr a "key") = .ok { k with dflt := d1 } ∧ KeyBodyPre isC { k with dflt := d1 } r ∧
      ∀ d', DfltAfter { k with dflt := d1 } r d' → DfltAfter k (.elem "default".toList a c0 :: r) d' := by
  have hde : defaultElems (.elem "default".toList a c0 :: r) = a :: defaultElems r := defaultElems_default a c0 r
  obtain ⟨hmin, hfin⟩ := hp.open_ (by rw [hde]; exact List.cons_ne_nil _ _)
  have hdesc := OnceIf.other (t := "default".toList) (a := a) (c := c0) (r := r) (by decide +kernel) hp.desc
  have hex := onceLeft_other (t := "default".toList) (a := a) (c := c0) (r := r) (by decide +kernel) hp.ex
  by_cases hplus : k.name = ['+']
  · have hk := hp.keyed hplus
    rw [defaultKeys_eq, hde] at hk
    simp only [List.map_cons, List.all_cons, Bool.and_eq_true] at hk
    obtain ⟨hk0, hkr⟩ := hk
    cases hkey : attr a "key" with
    | none => rw [hkey] at hk0; cases hk0
    | some kk =>
      have hpk : plusKeys (.elem "default".toList a c0 :: r) = kk :: plusKeys r := by
        rw [plusKeys_eq, plusKeys_eq, hde, List.map_cons, List.filterMap_cons, hkey]
        rfl
      rw [addDefault_wellkeyed k _ (some kk) hfin (by simp [hplus])]
      by_cases hmt : k.multi = true
      case neg =>
        have hmulti : k.multi = false := by simpa using hmt
        obtain ⟨m, hm, hnd⟩ := hp.single hplus hmulti
        rw [hpk] at hnd
        have hnew : kk ∉ m.map (·.1) := by
          intro hc
          exact (List.nodup_append.1 hnd).2.2 kk hc kk (List.mem_cons_self) rfl
        rw [addValueInfo_single_new k _ kk m hmulti hplus hm hnew]
        refine ⟨_, rfl, ?_, ?_⟩
        · exact
            { desc := hdesc, ex := hex,
              open_ := fun _ => ⟨hmin, hfin⟩,
              keyed := fun _ => by rw [defaultKeys_eq]; exact hkr,
              unkeyed := fun hc => absurd hplus hc,
              single := fun _ _ => ⟨_, rfl, by
                rw [List.map_append, List.append_assoc]
                exact hnd⟩,
              multi := fun _ hc => (by rw [hmulti] at hc; cases hc),
              fixedMulti := fun hc => absurd hplus hc,
              fixedSingle := fun hc => absurd hplus hc }
        · intro d' h2
          refine ⟨?_, fun _ hc => (by rw [hmulti] at hc; cases hc)⟩
          intro _ _ m0 hm0
          rw [hm] at hm0
          injection hm0 with hm0
          subst hm0
          obtain ⟨m', e1, e2⟩ := h2.1 hplus hmulti _ rfl
          refine ⟨m', e1, ?_⟩
          rw [e2, hpk, List.map_append, List.append_assoc]
          rfl
      case pos =>
        have hmulti := hmt
        obtain ⟨m, hm⟩ := hp.multi hplus hmulti
        obtain ⟨m1, e1, e2⟩ := addValueInfo_multi_keys k { value := data, pos := defaultPos } kk m hmulti hplus hm
        rw [e1]
        refine ⟨_, rfl, ?_, ?_⟩
        · exact
            { desc := hdesc, ex := hex,
              open_ := fun _ => ⟨hmin, hfin⟩,
              keyed := fun _ => by rw [defaultKeys_eq]; exact hkr,
              unkeyed := fun hc => absurd hplus hc,
              single := fun _ hc => (by rw [hmulti] at hc; cases hc),
              multi := fun _ _ => ⟨_, rfl⟩,
              fixedMulti := fun hc => absurd hplus hc,
              fixedSingle := fun hc => absurd hplus hc }
        · intro d' h2
          refine ⟨fun _ hc => (by rw [hmulti] at hc; cases hc), ?_⟩
          intro _ _ m0 hm0
          rw [hm] at hm0
          injection hm0 with hm0
          subst hm0
          obtain ⟨m', e3, e4⟩ := h2.2 hplus hmulti _ rfl
          refine ⟨m', e3, ?_⟩
          intro x
          rw [e4, e2, hpk, List.mem_cons]
          constructor
          · rintro ((h | h) | h)
            · exact Or.inl h
            · exact Or.inr (Or.inl h)
            · exact Or.inr (Or.inr h)
          · rintro (h | h | h)
            · exact Or.inl (Or.inl h)
            · exact Or.inl (Or.inr h)
            · exact Or.inr h
  · have hk := hp.unkeyed hplus
    rw [defaultKeys_eq, hde] at hk
    simp only [List.map_cons, List.all_cons, Bool.and_eq_true] at hk
    obtain ⟨hk0, hkr⟩ := hk
    have hkey : attr a "key" = none := by
      cases hx : attr a "key" with
      | none => rfl
      | some kk => rw [hx] at hk0; cases hk0
    rw [hkey, addDefault_wellkeyed k _ none hfin (by simp [hplus])]
    by_cases hmt : k.multi = true
    case neg =>
      have hmulti : k.multi = false := by simpa using hmt
      have := hp.fixedSingle hplus hmulti
      rw [hde] at this
      cases this
    case pos =>
      have hmulti := hmt
      obtain ⟨l, hl⟩ := hp.fixedMulti hplus hmulti
      have hav : addValueInfo k { value := data, pos := defaultPos } none =
          .ok { k with dflt := .many (l ++ [{ value := data, pos := defaultPos }]) } := by
        unfold addValueInfo
        have : (k.name == ['+']) = false := by simpa using hplus
        simp only [hmulti, ↓reduceIte, this, Bool.false_eq_true, hl]
      rw [hav]
      refine ⟨_, rfl, ?_, ?_⟩
      · exact
          { desc := hdesc, ex := hex,
            open_ := fun _ => ⟨hmin, hfin⟩,
            keyed := fun hc => absurd hc hplus,
            unkeyed := fun _ => by rw [defaultKeys_eq]; exact hkr,
            single := fun hc => absurd hc hplus,
            multi := fun hc => absurd hc hplus,
            fixedMulti := fun _ _ => ⟨_, rfl⟩,
            fixedSingle := fun _ hc => (by rw [hmulti] at hc; cases hc) }
      · intro d' _
        exact ⟨fun hc => absurd hc hplus, fun hc => absurd hc hplus⟩

/-- **the body of a key element**: read successfully, touching only the key object on top of the stack -/
theorem keyBody_ok {env : Env} {h : Hooks} {d : DocKind} {parent : Str} (rest : List Frame) :
    ∀ (c : List Node) (st : PSt) (k : EKey), st.stack = .key k :: rest → leafBodyOK parent c = true →
      KeyBodyPre (isComp d) k c →
      ∃ hd he d', visitChildren env h d parent st c =
          .ok { st with stack := .key { k with hasDesc := hd, hasEx := he, dflt := d' } :: rest } ∧
        DfltAfter k c d'
  | [], st, k, hs, _, _ => by
    refine ⟨k.hasDesc, k.hasEx, k.dflt, ?_, DfltAfter.nil k⟩
    rw [visitChildren_nil', ← hs]
  | .text s :: r, st, k, hs, hb, hp => by
    simp only [leafBodyOK, List.all_cons, Bool.and_eq_true] at hb
    have hbl : (strip s).isEmpty = true := hb.1
    have hde := defaultElems_text s r
    have hp' : KeyBodyPre (isComp d) k r := hp.skip hde rfl rfl rfl rfl rfl hp.desc.text (onceLeft_text hp.ex)
    obtain ⟨hd, he, d', h1, h2⟩ := keyBody_ok rest r st k hs hb.2 hp'
    refine ⟨hd, he, d', ?_, h2.skip hde rfl rfl rfl⟩
    rw [visitChildren_text, if_pos hbl]; exact h1
  | .elem t a c0 :: r, st, k, hs, hb, hp => by
    simp only [leafBodyOK, List.all_cons, Bool.and_eq_true] at hb
    obtain ⟨hb0, hbr⟩ := hb
    simp only [cdataOK, Bool.and_eq_true] at hb0
    obtain ⟨⟨hn, hc⟩, htxt⟩ := hb0
    rw [visitChildren_elem, visitElem_cdata_local hn hc htxt hs rfl]
    rcases cdataTag_cases hc with rfl | rfl | rfl | rfl
    · -- description
      obtain ⟨hf, hd1⟩ := hp.desc.same
      have hde := defaultElems_other (t := "description".toList) a c0 r (by decide +kernel)
      rw [localStep_key_description, hf]
      simp only [Bool.false_eq_true, ↓reduceIte, Except.map, bind, Except.bind]
      have hp' : KeyBodyPre (isComp d) { k with hasDesc := true } r :=
        hp.skip hde rfl rfl rfl rfl rfl hd1 (onceLeft_other (by decide +kernel) hp.ex)
      obtain ⟨hd, he, d', h1, h2⟩ :=
        keyBody_ok rest r { st with stack := .key { k with hasDesc := true } :: rest } _ rfl hbr hp'
      exact ⟨hd, he, d', h1, h2.skip hde rfl rfl rfl⟩
    · -- metadefault
      have hde := defaultElems_other (t := "metadefault".toList) a c0 r (by decide +kernel)
      rw [localStep_key_metadefault]
      simp only [Except.map, bind, Except.bind]
      have hp' : KeyBodyPre (isComp d) k r :=
        hp.skip hde rfl rfl rfl rfl rfl (hp.desc.other (by decide +kernel))
          (onceLeft_other (by decide +kernel) hp.ex)
      obtain ⟨hd, he, d', h1, h2⟩ := keyBody_ok rest r { st with stack := .key k :: rest } k rfl hbr hp'
      exact ⟨hd, he, d', h1, h2.skip hde rfl rfl rfl⟩
    · -- example
      obtain ⟨hf, he1⟩ := onceLeft_same hp.ex
      have hde := defaultElems_other (t := "example".toList) a c0 r (by decide +kernel)
      rw [localStep_key_example, hf]
      simp only [Bool.false_eq_true, ↓reduceIte, Except.map, bind, Except.bind]
      have hp' : KeyBodyPre (isComp d) { k with hasEx := true } r :=
        hp.skip hde rfl rfl rfl rfl rfl (hp.desc.other (by decide +kernel)) he1
      obtain ⟨hd, he, d', h1, h2⟩ :=
        keyBody_ok rest r { st with stack := .key { k with hasEx := true } :: rest } _ rfl hbr hp'
      exact ⟨hd, he, d', h1, h2.skip hde rfl rfl rfl⟩
    · -- default
      obtain ⟨hmin, _⟩ := hp.open_ (by rw [defaultElems_default]; exact List.cons_ne_nil _ _)
      obtain ⟨d1, e1, hp', hback⟩ := keyBody_default_step (strip (textOf c0)) hp
      rw [localStep_key_default, if_neg (by simp [hmin]), e1]
      simp only [Except.map, bind, Except.bind]
      obtain ⟨hd, he, d', h1, h2⟩ := keyBody_ok rest r { st with stack := .key { k with dflt := d1 } :: rest } _ rfl hbr hp'
      exact ⟨hd, he, d', h1, hback d' h2⟩

/-! ### the body of a section element -/

theorem nestingOK_section_default : nestingOK "section".toList "default".toList = false := by decide +kernel
theorem nestingOK_multisection_default : nestingOK "multisection".toList "default".toList = false := by decide +kernel

theorem localStep_sect_description (isC : Bool) (a : Attrs) (data : Str) (d e : Bool) :
    localStep isC "description".toList a data (.sect d e) =
      if d && !isC then serr "at most one <description> may be used for each element" else .ok (.sect true e) := by
  unfold localStep
  have h1 : ("description".toList == "default".toList) = false := by decide +kernel
  simp only [h1, Bool.false_eq_true, ↓reduceIte, beq_self_eq_true]

theorem localStep_sect_example (isC : Bool) (a : Attrs) (data : Str) (d e : Bool) :
    localStep isC "example".toList a data (.sect d e) =
      if e then serr "at most one <example> may be used for each element" else .ok (.sect d true) := by
  unfold localStep
  have h1 : ("example".toList == "default".toList) = false := by decide +kernel
  have h2 : ("example".toList == "description".toList) = false := by decide +kernel
  simp only [h1, h2, Bool.false_eq_true, ↓reduceIte, beq_self_eq_true]

theorem localStep_sect_metadefault (isC : Bool) (a : Attrs) (data : Str) (d e : Bool) :
    localStep isC "metadefault".toList a data (.sect d e) = .ok (.sect d e) := by
  unfold localStep
  have h1 : ("metadefault".toList == "default".toList) = false := by decide +kernel
  have h2 : ("metadefault".toList == "description".toList) = false := by decide +kernel
  have h3 : ("metadefault".toList == "example".toList) = false := by decide +kernel
  simp only [h1, h2, h3, Bool.false_eq_true, ↓reduceIte, beq_self_eq_true]

/-- **the body of a section element**: read successfully, touching only the section frame on top of the stack -/
theorem sectBody_ok {env : Env} {h : Hooks} {dk : DocKind} {parent : Str}
    (hpar : nestingOK parent "default".toList = false) (rest : List Frame) :
    ∀ (c : List Node) (st : PSt) (d e : Bool), st.stack = .sect d e :: rest → leafBodyOK parent c = true →
      OnceIf (isComp dk) d "description".toList c → onceLeft e "example".toList c →
      ∃ d' e', visitChildren env h dk parent st c = .ok { st with stack := .sect d' e' :: rest }
  | [], st, d, e, hs, _, _, _ => ⟨d, e, by rw [visitChildren_nil', ← hs]⟩
  | .text s :: r, st, d, e, hs, hb, hd, he => by
    simp only [leafBodyOK, List.all_cons, Bool.and_eq_true] at hb
    have hbl : (strip s).isEmpty = true := hb.1
    obtain ⟨d', e', h1⟩ := sectBody_ok hpar rest r st d e hs hb.2 hd.text (onceLeft_text he)
    exact ⟨d', e', by rw [visitChildren_text, if_pos hbl]; exact h1⟩
  | .elem t a c0 :: r, st, d, e, hs, hb, hd, he => by
    simp only [leafBodyOK, List.all_cons, Bool.and_eq_true] at hb
    obtain ⟨hb0, hbr⟩ := hb
    simp only [cdataOK, Bool.and_eq_true] at hb0
    obtain ⟨⟨hn, hc⟩, htxt⟩ := hb0
    rw [visitChildren_elem, visitElem_cdata_local hn hc htxt hs rfl]
    rcases cdataTag_cases hc with rfl | rfl | rfl | rfl
    · obtain ⟨hf, hd1⟩ := hd.same
      rw [localStep_sect_description, hf]
      simp only [Bool.false_eq_true, ↓reduceIte, Except.map, bind, Except.bind]
      exact sectBody_ok hpar rest r { st with stack := .sect true e :: rest } true e rfl hbr hd1
        (onceLeft_other (by decide +kernel) he)
    · rw [localStep_sect_metadefault]
      simp only [Except.map, bind, Except.bind]
      exact sectBody_ok hpar rest r { st with stack := .sect d e :: rest } d e rfl hbr
        (hd.other (by decide +kernel)) (onceLeft_other (by decide +kernel) he)
    · obtain ⟨hf, he1⟩ := onceLeft_same he
      rw [localStep_sect_example, hf]
      simp only [Bool.false_eq_true, ↓reduceIte, Except.map, bind, Except.bind]
      exact sectBody_ok hpar rest r { st with stack := .sect d true :: rest } d true rfl hbr
        (hd.other (by decide +kernel)) he1
    · rw [hpar] at hn; cases hn

end ZCV.SchemaRules
