import ZCV.Base
import ZCV.Spec.Grammar
import ZCV.Lemmas.Chars
/-!
Facts about `lowerChar` (the one-to-one part of `str.lower`) that the schema-less round trip (C17) needs:
lower-casing twice is lower-casing once, a word character stays a word character, and no character other
than `/` lower-cases to `/`.  All three follow from one finite check of the generated table
(`lowerTbl_ok`, 1406 code points, each looked up once).
-/
namespace ZCV.Roundtrip
open ZCV

/-- what we need of a code point `m` that is the image of an upper-case character:
    a valid scalar value, itself unchanged by `lowerChar`, not whitespace, not a parenthesis, not `/` -/
def goodImage (m : Nat) : Bool :=
  (m < 55296 || (57343 < m && m < 1114112)) &&
  (if m < 128 then !(65 ≤ m && m ≤ 90) else uniLowerNat m == m) &&
  !Gen.spaceTbl.contains m && m != 40 && m != 41 && m != 47

/-- the members of the arithmetic progression an entry of `Gen.lowerTbl` stands for, mapped through its delta -/
def img (e : Nat × Nat × Nat × Int) (i : Nat) : Nat := (Int.ofNat (e.1 + i * e.2.2.1) + e.2.2.2).toNat
def entryImages (e : Nat × Nat × Nat × Int) : List Nat := (List.range e.2.1).map (img e)

/-- `n` is one of the code points the entry stands for -/
def inDom (e : Nat × Nat × Nat × Int) (n : Nat) : Bool :=
  e.1 ≤ n && n < e.1 + e.2.1 * e.2.2.1 && (n - e.1) % e.2.2.1 == 0

/-- the images of an entry lie in one interval of valid scalar values that avoids whitespace, `(`, `)`, `/`
    and the ASCII capitals -/
def ivOk (e : Nat × Nat × Nat × Int) : Bool :=
  let lo := img e 0
  let hi := img e (e.2.1 - 1)
  (hi < 55296 || (57343 < lo && hi < 1114112)) &&
  (Gen.spaceTbl ++ [40, 41, 47]).all (fun x => x < lo || hi < x) &&
  (hi < 65 || 90 < lo)

/-- no image of `e` is a code point `e'` stands for: the intervals are apart, or (rarely) by enumeration -/
def pairOk (e e' : Nat × Nat × Nat × Int) : Bool :=
  (img e (e.2.1 - 1) < e'.1 || e'.1 + e'.2.1 * e'.2.2.1 ≤ img e 0) || (entryImages e).all (fun m => !inDom e' m)

def lowerTblOk : Bool := Gen.lowerTbl.all (fun e => ivOk e && Gen.lowerTbl.all (pairOk e))

theorem lowerTbl_ok : lowerTblOk = true := by decide +kernel

theorem img_mono (e : Nat × Nat × Nat × Int) (i j : Nat) (h : i ≤ j) : img e i ≤ img e j := by
  unfold img
  have : i * e.2.2.1 ≤ j * e.2.2.1 := Nat.mul_le_mul_right _ h
  generalize i * e.2.2.1 = x at this
  generalize j * e.2.2.1 = y at this
  simp only [Int.ofNat_eq_natCast]
  omega

theorem uniLower_cases (n : Nat) : uniLowerNat n = n ∨ goodImage (uniLowerNat n) = true := by
  unfold uniLowerNat
  split
  · rename_i e he
    right
    have hmem := List.mem_of_find?_eq_some he
    have hp := List.find?_some he
    have hall := lowerTbl_ok
    unfold lowerTblOk at hall
    rw [List.all_eq_true] at hall
    have h1 := hall e hmem
    rw [Bool.and_eq_true] at h1
    obtain ⟨hiv, hpairs⟩ := h1
    simp only [Bool.and_eq_true, decide_eq_true_eq, beq_iff_eq] at hp
    obtain ⟨⟨ha, hb⟩, hc⟩ := hp
    have hs : 0 < e.2.2.1 := by
      rcases Nat.eq_zero_or_pos e.2.2.1 with h0 | h0
      · rw [h0] at hb; omega
      · exact h0
    -- the index of `n` in the progression
    have hidx : (n - e.1) / e.2.2.1 < e.2.1 := by
      apply (Nat.div_lt_iff_lt_mul hs).2
      omega
    have himg : (Int.ofNat n + e.2.2.2).toNat = img e ((n - e.1) / e.2.2.1) := by
      unfold img
      have : (n - e.1) / e.2.2.1 * e.2.2.1 = n - e.1 := Nat.div_mul_cancel (Nat.dvd_of_mod_eq_zero hc)
      rw [this]
      have : e.1 + (n - e.1) = n := by omega
      rw [this]
    rw [himg]
    generalize hi : (n - e.1) / e.2.2.1 = i at hidx
    have hlo : img e 0 ≤ img e i := img_mono e 0 i (Nat.zero_le _)
    have hhi : img e i ≤ img e (e.2.1 - 1) := img_mono e i _ (by omega)
    have hmemI : img e i ∈ entryImages e := by
      unfold entryImages
      exact List.mem_map.2 ⟨i, List.mem_range.2 hidx, rfl⟩
    generalize img e i = m at *
    unfold ivOk at hiv
    simp only [Bool.and_eq_true, Bool.or_eq_true, decide_eq_true_eq, List.all_eq_true] at hiv
    obtain ⟨⟨hv, hav⟩, hup⟩ := hiv
    unfold goodImage
    have hfix : uniLowerNat m = m := by
      unfold uniLowerNat
      have : Gen.lowerTbl.find? (fun e => decide (e.1 ≤ m) && decide (m < e.1 + e.2.1 * e.2.2.1) && (m - e.1) % e.2.2.1 == 0) = none := by
        rw [List.find?_eq_none]
        intro e' he'
        rw [List.all_eq_true] at hpairs
        have hp := hpairs e' he'
        unfold pairOk at hp
        simp only [Bool.or_eq_true, decide_eq_true_eq, List.all_eq_true, Bool.not_eq_true'] at hp
        rcases hp with (hp | hp) | hp
        · simp only [Bool.and_eq_true, decide_eq_true_eq, beq_iff_eq, not_and]
          intro h1 _; omega
        · simp only [Bool.and_eq_true, decide_eq_true_eq, beq_iff_eq, not_and]
          intro _ h2; omega
        · have := hp m hmemI
          unfold inDom at this
          rw [this]; simp
      rw [this]
    have hx : ∀ x ∈ Gen.spaceTbl ++ [40, 41, 47], x ≠ m := by
      intro x hx
      have := hav x hx
      omega
    have hsp : Gen.spaceTbl.contains m = false := by
      rw [Bool.eq_false_iff]
      intro hc
      rw [List.contains_iff_mem] at hc
      exact hx m (List.mem_append_left _ hc) rfl
    have h40 : m ≠ 40 := fun h => hx 40 (by simp) h.symm
    have h41 : m ≠ 41 := fun h => hx 41 (by simp) h.symm
    have h47 : m ≠ 47 := fun h => hx 47 (by simp) h.symm
    simp only [Bool.and_eq_true, Bool.or_eq_true, decide_eq_true_eq, hsp, Bool.not_false, bne_iff_ne, ne_eq,
      h40, h41, h47, not_false_eq_true, and_true]
    refine ⟨by omega, ?_⟩
    by_cases h128 : m < 128
    · simp only [h128, ↓reduceIte, Bool.not_eq_eq_eq_not, Bool.not_true, Bool.and_eq_false_imp, decide_eq_true_eq,
        decide_eq_false_iff_not]
      omega
    · simp only [h128, ↓reduceIte, beq_iff_eq]
      exact hfix
  · left; rfl

/-- a character that `lowerChar` leaves alone, that is a word character and is not `/` -/
def Settled (d : Char) : Prop := lowerChar d = d ∧ Grammar.isWord d = true ∧ d ≠ '/'

theorem ofNat_toNat (c : Char) : Char.ofNat c.toNat = c := Char.ofNat_toNat c

theorem toNat_ofNat_valid (m : Nat) (h : m < 55296 ∨ (57343 < m ∧ m < 1114112)) : (Char.ofNat m).toNat = m := by
  have hv : m.isValidChar := h
  simp [Char.ofNat, hv, Char.toNat, Char.ofNatAux]

theorem settled_of_good (m : Nat) (h : goodImage m = true) : Settled (Char.ofNat m) := by
  unfold goodImage at h
  simp only [Bool.and_eq_true, Bool.or_eq_true, decide_eq_true_eq, Bool.not_eq_true', bne_iff_ne, ne_eq] at h
  obtain ⟨⟨⟨⟨⟨hv, hl⟩, hsp⟩, h40⟩, h41⟩, h47⟩ := h
  have hn := toNat_ofNat_valid m hv
  refine ⟨?_, ?_, ?_⟩
  · unfold lowerChar
    rw [hn]
    by_cases h128 : m < 128
    · simp only [h128, ↓reduceIte] at hl ⊢
      unfold asciiLowerChar
      have : ¬ ('A' ≤ Char.ofNat m ∧ Char.ofNat m ≤ 'Z') := by
        rw [Char.le_def, Char.le_def]
        simp only [Bool.not_eq_eq_eq_not, Bool.not_true, Bool.and_eq_false_imp, decide_eq_true_eq,
          decide_eq_false_iff_not] at hl
        intro ⟨h1, h2⟩
        have e1 : (Char.ofNat m).val.toNat = m := hn
        have : (65 : Nat) ≤ m := by
          have := UInt32.le_iff_toNat_le.1 h1
          rw [e1] at this; simpa using this
        have h3 := hl this
        have : m ≤ 90 := by
          have := UInt32.le_iff_toNat_le.1 h2
          rw [e1] at this; simpa using this
        exact h3 this
      rw [if_neg this]
    · simp only [h128, ↓reduceIte, beq_iff_eq] at hl ⊢
      rw [hl]
  · unfold Grammar.isWord pySpace
    rw [hn, hsp]
    simp only [Bool.not_false, cne, hn, Char.reduceToNat, Bool.true_and, Bool.and_eq_true, bne_iff_ne, ne_eq]
    exact ⟨h40, h41⟩
  · intro e
    have := congrArg Char.toNat e
    rw [hn] at this
    exact h47 this

theorem lowerChar_cases (c : Char) : lowerChar c = c ∨ Settled (lowerChar c) := by
  unfold lowerChar
  by_cases h128 : c.toNat < 128
  · simp only [h128, ↓reduceIte]
    unfold asciiLowerChar
    by_cases hr : 'A' ≤ c ∧ c ≤ 'Z'
    · right
      rw [if_pos hr]
      apply settled_of_good
      obtain ⟨h1, h2⟩ := hr
      rw [Char.le_def] at h1 h2
      have h1' := UInt32.le_iff_toNat_le.1 h1
      have h2' := UInt32.le_iff_toNat_le.1 h2
      have e : c.val.toNat = c.toNat := rfl
      rw [e] at h1' h2'
      simp only [Char.reduceVal, UInt32.reduceToNat] at h1' h2'
      have hall : ∀ n ∈ List.range' 65 26, goodImage (n + 32) = true := by decide
      apply hall
      simp only [List.mem_range'_1]
      omega
    · left; rw [if_neg hr]
  · simp only [h128, ↓reduceIte]
    rcases uniLower_cases c.toNat with h | h
    · left; rw [h, ofNat_toNat]
    · right; exact settled_of_good _ h

theorem lowerChar_idem (c : Char) : lowerChar (lowerChar c) = lowerChar c := by
  rcases lowerChar_cases c with h | h
  · rw [h, h]
  · exact h.1

theorem lowerChar_isWord (c : Char) (h : Grammar.isWord c = true) : Grammar.isWord (lowerChar c) = true := by
  rcases lowerChar_cases c with e | e
  · rw [e]; exact h
  · exact e.2.1

theorem lowerChar_ne_slash (c : Char) (h : c ≠ '/') : lowerChar c ≠ '/' := by
  rcases lowerChar_cases c with e | e
  · rw [e]; exact h
  · exact e.2.2

theorem lower_idem (s : Str) : lower (lower s) = lower s := by
  unfold lower
  rw [List.map_map]
  apply List.map_congr_left
  intro c _
  exact lowerChar_idem c

theorem lower_all_isWord (s : Str) (h : s.all Grammar.isWord = true) : (lower s).all Grammar.isWord = true := by
  unfold lower
  rw [List.all_map]
  rw [List.all_eq_true] at h ⊢
  intro c hc
  exact lowerChar_isWord c (h c hc)

end ZCV.Roundtrip
