import ZCV.Lemmas.ElabExpandTop
import ZCV.Lemmas.RoundtripLower
/-!
C11, "a section type that extends another equals the type with the base's keys and sections written out first" —
the GLOBAL theorem, for single schema documents (`C11_extends_partial`): loading a schema document and loading its
written-out form (`expandExtends`, `Spec/Expand.lean`) give the very same result, error or schema.

Hypotheses (`_partial`): the document has no `<import>` and no `extends` on `<schema>` (one document); no `<sectiontype>`
has a `prefix` attribute; every `extends` names an earlier `<sectiontype>` of the document; a type that `extends` has no
`keytype` attribute of its own (the case where it has one is the finding C11-inherited-fixed-name: re-reading the base's
elements under another key type normalises fixed names differently).
-/
namespace ZCV.Elab
open ZCV ZCV.Cfg

theorem lower_basicKeyE {s r : Str} (h : basicKeyE s = .ok r) : lower r = r := by
  unfold basicKeyE at h
  split at h
  · rename_i r' hr
    injection h with h
    subst h
    unfold DT.basicKey DT.regexConv at hr
    split at hr
    · simp only [Except.map, Except.ok.injEq] at hr
      rw [← hr]
      exact Roundtrip.lower_idem s
    · simp [Except.map] at hr
  · cases h

/-- the documents for which the global theorem is proved (children of `<schema>`, with the table of the types seen) -/
def expandable (tbl : XTable) : List Node → Bool
  | [] => true
  | .elem t a c :: r =>
    if t == "sectiontype".toList then
      (attr a "prefix").isNone &&
      (match attr a "extends" with
       | none => true
       | some b => (attr a "keytype").isNone &&
          (match DTSpec.basicKey b with
           | .ok nb => (tbl.find? (·.1 == nb)).isSome
           | .error _ => false)) &&
      expandable (remember tbl (expandType tbl a c).1 (expandType tbl a c).2) r
    else t != "import".toList && expandable tbl r
  | .text _ :: r => expandable tbl r

/-- what the table of types seen so far knows about the current state -/
def EntryHist (env : Env) (h : Hooks) (d : DocKind) (st : PSt) (e : Str × Attrs × List Node) : Prop :=
  ∃ q base, st.es.gettype e.1 = some (q, .concrete base) ∧ BaseHistory env h d st base e.2.2 ∧
    ∀ st1 : PSt, st1.prefixes.head? = st.prefixes.head? →
      getDatatype env st1 e.2.1 "keytype" "basic-key" none = .ok base.keytype ∧
      getDatatype env st1 e.2.1 "datatype" "null" none = .ok base.datatype

def TableHist (env : Env) (h : Hooks) (d : DocKind) (tbl : XTable) (st : PSt) : Prop :=
  ∀ e ∈ tbl, EntryHist env h d st e

theorem EntryHist.step {env : Env} {h : Hooks} {d : DocKind} {st st' : PSt} {e : Str × Attrs × List Node}
    (he : EntryHist env h d st e) (hs : TopStep st st') : EntryHist env h d st' e := by
  obtain ⟨q, base, hg, hH, hdt⟩ := he
  refine ⟨q, base, ?_, ?_, ?_⟩
  · unfold ES.gettype at hg ⊢
    exact hs.frozen _ q base hg
  · obtain ⟨sbH, sbH', h1, h2, h3, h4, h5, h6, h7⟩ := hH.run
    exact ⟨sbH, sbH', h1, h2, h3, h4, h5, by rw [hs.prefixes]; exact h6, h7.trans hs.grows⟩
  · intro st1 hp
    exact hdt st1 (by rw [hp, hs.prefixes])

theorem TableHist.step {env : Env} {h : Hooks} {d : DocKind} {tbl : XTable} {st st' : PSt}
    (ht : TableHist env h d tbl st) (hs : TopStep st st') : TableHist env h d tbl st' :=
  fun e he => (ht e he).step hs

theorem FreshEntry.dtOf {es : ES} {name kt dt : Str} (h : FreshEntry es name kt dt) (r : List Frame) :
    dtOf es (.stype name :: r) = .ok dt := by
  obtain ⟨⟨t, hf, _, _, ht3⟩, _⟩ := h
  unfold Elab.dtOf
  simp only [hf, ht3]

theorem getSectTypeinfo_parts {env : Env} {st : PSt} {a : Attrs} {kt dt : Str}
    (h : getSectTypeinfo env st a none = .ok (kt, dt)) :
    getDatatype env st a "keytype" "basic-key" none = .ok kt ∧ getDatatype env st a "datatype" "null" none = .ok dt := by
  unfold getSectTypeinfo at h
  simp only [Option.map_none] at h
  rw [bind_ok] at h
  obtain ⟨kt', hkt, h⟩ := h
  rw [bind_ok] at h
  obtain ⟨vt, _, h⟩ := h
  rw [bind_ok] at h
  obtain ⟨dt', hdt, h⟩ := h
  simp only [pure, Except.pure, Except.ok.injEq, Prod.mk.injEq] at h
  rw [← h.1, ← h.2]
  exact ⟨hkt, hdt⟩

/-- the type a `<sectiontype>` element (without `extends`) has just added satisfies the table invariant -/
theorem newEntry_hist {env : Env} {h : Hooks} {d : DocKind} {st st' : PSt} {a : Attrs} {c : List Node}
    (hnt : NewType env h d st st' a c) (hstep : TopStep st st') (hnp : attr a "prefix" = none) (hpre : st.prefixes ≠ [])
    {nm nn : Str} (hnm : attr a "name" = some nm) (hnn : DTSpec.basicKey nm = .ok nn) :
    EntryHist env h d st' (nn, a, c) := by
  obtain ⟨name, nm', st1, s', s2, kt, dt, hnm', hbk, hpp, hti, hstack, hpre', hfresh, hgrow, hch, hrun, hes⟩ := hnt.ex
  rw [hnm] at hnm'
  injection hnm' with hnm'
  subst hnm'
  have hname : name = nn := by
    have := basicKeyE_spec hnn
    rw [hbk] at this
    injection this
  subst hname
  obtain ⟨htop', hkt'⟩ := hfresh.topOf st.stack
  have hdt' := hfresh.dtOf st.stack
  have hc0 : TopComputed env kt s' := by
    refine ⟨by rw [hstack]; exact hkt', ?_⟩
    intro ch hch'
    rw [hstack, htop'] at hch'
    injection hch' with hch'
    subst hch'
    intro c hc; cases hc
  obtain ⟨sd', _, hs2, _, _, _⟩ := replay (pkOfB_sectiontype _) kt c s' s2 s'
    (SimTop.refl (ch := []) (by rw [hstack]; exact htop')) ⟨name, st.stack, hstack⟩ hc0 hch
  obtain ⟨ch2, htop2, _⟩ := hs2.ch
  have hst2 : s2.stack = .stype name :: st.stack := by rw [hrun.stack]; exact hstack
  rw [hst2] at htop2
  have hkt2 : ktOf s2.es (.stype name :: st.stack) = .ok kt := by
    have := hrun.kt; rw [hstack] at this; rw [this]; exact hkt'
  have hdt2 : dtOf s2.es (.stype name :: st.stack) = .ok dt := by
    have := hrun.dt; rw [hstack] at this; rw [this]; exact hdt'
  obtain ⟨q, t, hfind, ht1, ht2, ht3⟩ := entry_of_top htop2 hkt2 hdt2
  have hhead : st1.prefixes.head? = st.prefixes.head? := pushPrefix_noattr hnp hpre hpp
  refine ⟨q, t, ?_, ⟨s', s2, hch, ⟨name, st.stack, hstack⟩, by rw [hstack]; exact htop', ?_, ?_, ?_, ?_⟩, ?_⟩
  · unfold ES.gettype
    rw [lower_basicKeyE hbk, hes]
    exact hfind
  · rw [hstack, ht2]; exact hkt'
  · rw [hst2, ht1]; exact htop2
  · rw [hpre', hhead, hstep.prefixes]
  · rw [hes]; exact hrun.grows
  · intro st1' hp
    obtain ⟨h1, h2⟩ := getSectTypeinfo_parts hti
    have hp' : st1'.prefixes.head? = st1.prefixes.head? := by rw [hp, hstep.prefixes, hhead]
    rw [getDatatype_congr hp', getDatatype_congr hp', ht2, ht3]
    exact ⟨h1, h2⟩

set_option linter.unusedSimpArgs false in
/-- a child element of `<schema>` other than `<sectiontype>` / `<import>` -/
theorem topOther_step {env : Env} {h : Hooks} {d : DocKind} {p t : Str} {a : Attrs} {c : List Node} {st st' : PSt}
    (hp : pkOfB (isComp d) p = some .topS) (hs : st.stack = [.schema]) (hnst : (t == "sectiontype".toList) = false)
    (hni : (t != "import".toList) = true) (hv : visitElem env h d (some p) st (.elem t a c) = .ok st') :
    TopStep st st' := by
  have hn := (visitElem_cases hv).1 p rfl
  obtain ⟨ck, hck, hcomp⟩ := nesting_compat hn hp
  have hmem := ckOf_tag hck
  simp only [ckTable, List.mem_cons, Prod.mk.injEq, List.not_mem_nil, or_false] at hmem
  rcases hmem with ⟨rfl, rfl⟩ | ⟨rfl, rfl⟩ | ⟨rfl, rfl⟩ | ⟨rfl, rfl⟩ | ⟨rfl, rfl⟩ | ⟨rfl, rfl⟩ | ⟨rfl, rfl⟩ | ⟨rfl, rfl⟩ |
      ⟨rfl, rfl⟩ | ⟨rfl, rfl⟩ | ⟨rfl, rfl⟩
  · exact topContainer_step (by decide) hs hv
  · exact topContainer_step (by decide) hs hv
  · exact topContainer_step (by decide) hs hv
  · exact topContainer_step (by decide) hs hv
  · exact absurd hnst (by decide)
  · exact abstracttypeElem_step hv
  · exact absurd hni (by decide)
  · have h1 : "description".toList ≠ d.topLevel := by cases d <;> simp only [DocKind.topLevel] <;> decide
    have h2 : d.handled.contains "description".toList = false := by cases d <;> simp only [DocKind.handled] <;> decide
    rw [visitElem_cdata_eq hn h1 h2 (by decide), bind_ok] at hv
    obtain ⟨data, _, hcht⟩ := hv
    exact schemaCdata_step hs hcht
  · have h1 : "example".toList ≠ d.topLevel := by cases d <;> simp only [DocKind.topLevel] <;> decide
    have h2 : d.handled.contains "example".toList = false := by cases d <;> simp only [DocKind.handled] <;> decide
    rw [visitElem_cdata_eq hn h1 h2 (by decide), bind_ok] at hv
    obtain ⟨data, _, hcht⟩ := hv
    exact schemaCdata_step hs hcht
  · simp [compat, CK.container, CK.decl] at hcomp
  · simp [compat, CK.container, CK.decl] at hcomp

/-- the written-out attributes never have `extends` when the type could be resolved (or had none) -/
theorem expandType_cases (tbl : XTable) (a : Attrs) (c : List Node) :
    (attr a "extends" = none ∧ expandType tbl a c = (a, c)) ∨
    (∃ b nb n ba bc, attr a "extends" = some b ∧ DTSpec.basicKey b = .ok nb ∧ tbl.find? (·.1 == nb) = some (n, ba, bc) ∧
      expandType tbl a c = (expandedAttrs a ba, inheritedChildren bc ++ c)) ∨
    (∃ b, attr a "extends" = some b ∧ expandType tbl a c = (a, c) ∧
      (match DTSpec.basicKey b with | .ok nb => (tbl.find? (·.1 == nb)).isSome | .error _ => false) = false) := by
  unfold expandType
  cases hext : attr a "extends" with
  | none => exact Or.inl ⟨rfl, rfl⟩
  | some b =>
    right
    cases hb : DTSpec.basicKey b with
    | error e => exact Or.inr ⟨b, rfl, by simp only [hb], by simp only [hb]⟩
    | ok nb =>
      cases hf : tbl.find? (·.1 == nb) with
      | none => exact Or.inr ⟨b, rfl, by simp only [hb, hf], by simp only [hb, hf, Option.isSome_none]⟩
      | some e =>
        obtain ⟨n, ba, bc⟩ := e
        exact Or.inl ⟨b, nb, n, ba, bc, rfl, hb, hf, by simp only [hb, hf]; rfl⟩

theorem TableHist.remember {env : Env} {h : Hooks} {d : DocKind} {tbl : XTable} {st st' : PSt} {a : Attrs} {c : List Node}
    (ht : TableHist env h d tbl st) (hstep : TopStep st st') (hnt : NewType env h d st st' a c)
    (hnp : attr a "prefix" = none) (hpre : st.prefixes ≠ []) : TableHist env h d (remember tbl a c) st' := by
  unfold Elab.remember
  cases hnm : attr a "name" with
  | none => exact ht.step hstep
  | some nm =>
    cases hnn : DTSpec.basicKey nm with
    | error e => simp only [hnn]; exact ht.step hstep
    | ok nn =>
      simp only [hnn]
      intro e he
      rcases List.mem_append.mp he with he | he
      · exact (ht e he).step hstep
      · simp only [List.mem_singleton] at he
        subst he
        exact newEntry_hist hnt hstep hnp hpre hnm hnn

/-- **The children of `<schema>`, original and written out, are read with the same outcome.** -/
theorem expandChildren_eq {env : Env} {h : Hooks} {d : DocKind} {p : Str} (hp : pkOfB (isComp d) p = some .topS) :
    ∀ (c : List Node) (tbl : XTable) (st : PSt), expandable tbl c = true → TableHist env h d tbl st →
      st.stack = [.schema] → st.prefixes ≠ [] →
      visitChildren env h d p st c = visitChildren env h d p st (expandChildren tbl c)
  | [], tbl, st, _, _, _, _ => by unfold expandChildren; rfl
  | .text s :: r, tbl, st, hex, ht, hs, hpre => by
    unfold expandable at hex
    unfold expandChildren
    rw [x3_visitChildren_text, x3_visitChildren_text, expandChildren_eq hp r tbl st hex ht hs hpre]
  | .elem t a c0 :: r, tbl, st, hex, ht, hs, hpre => by
    unfold expandable at hex
    unfold expandChildren
    by_cases htag : (t == "sectiontype".toList) = true
    · simp only [htag, ↓reduceIte, Bool.and_eq_true, Option.isNone_iff_eq_none] at hex ⊢
      obtain ⟨⟨hnp, hm⟩, hrest⟩ := hex
      have htt : t = "sectiontype".toList := by simpa using htag
      subst htt
      -- the two elements are read with the same outcome
      have key : visitElem env h d (some p) st (.elem "sectiontype".toList a c0) =
            visitElem env h d (some p) st (.elem "sectiontype".toList (expandType tbl a c0).1 (expandType tbl a c0).2) ∧
          attr (expandType tbl a c0).1 "extends" = none ∧ attr (expandType tbl a c0).1 "prefix" = none := by
        rcases expandType_cases tbl a c0 with ⟨hext, hac⟩ | ⟨b, nb, n, ba, bc, hext, hb, hf, hac⟩ | ⟨b, hext, _, hun⟩
        · rw [hac]; exact ⟨rfl, hext, hnp⟩
        · rw [hac]
          simp only [hext, hb, hf, Option.isSome_some, Bool.and_true, Option.isNone_iff_eq_none] at hm
          have hmem := List.mem_of_find?_eq_some hf
          have hn : n = nb := by simpa using List.find?_some hf
          subst hn
          obtain ⟨q, base, hg, hH, hdt⟩ := ht _ hmem
          refine ⟨?_, attr_expanded_extends a ba, ?_⟩
          · refine sectiontype_extends_eq_expanded hext hb hg hm hnp hpre ?_ ?_ hH
            · intro st1 hpp; exact (hdt st1 (pushPrefix_noattr hnp hpre hpp)).1
            · intro st1 hpp; exact (hdt st1 (pushPrefix_noattr hnp hpre hpp)).2
          · rw [attr_expanded_other a ba "prefix" (by decide) (by decide) (by decide)]; exact hnp
        · simp only [hext, hun, Bool.and_false, Bool.false_eq_true] at hm
      obtain ⟨hE, hext', hnp'⟩ := key
      rw [visitChildren_elem, visitChildren_elem, hE]
      cases hR : visitElem env h d (some p) st (.elem "sectiontype".toList (expandType tbl a c0).1 (expandType tbl a c0).2) with
      | error e => rfl
      | ok st' =>
        simp only [bind, Except.bind]
        obtain ⟨hstep, hnt⟩ := sectiontypeElem_step hext' hR
        exact expandChildren_eq hp r _ st' hrest (ht.remember hstep hnt hnp' hpre) (by rw [hstep.stack]; exact hs)
          (by rw [hstep.prefixes]; exact hpre)
    · have htag' : (t == "sectiontype".toList) = false := by simpa using htag
      simp only [htag', Bool.false_eq_true, ↓reduceIte, Bool.and_eq_true] at hex ⊢
      rw [visitChildren_elem, visitChildren_elem]
      cases hR : visitElem env h d (some p) st (.elem t a c0) with
      | error e => rfl
      | ok st' =>
        simp only [bind, Except.bind]
        have hstep := topOther_step hp hs htag' hex.1 hR
        exact expandChildren_eq hp r tbl st' hex.2 (ht.step hstep) (by rw [hstep.stack]; exact hs)
          (by rw [hstep.prefixes]; exact hpre)

theorem startSchema_stack {env : Env} {hk : Hooks} {ext : Option ES} {st st' : PSt} {attrs : Attrs}
    (h : startSchema env hk ext st attrs = .ok st') : st'.stack = [.schema] ∧ st'.prefixes ≠ [] := by
  unfold startSchema at h
  rw [bind_ok] at h
  obtain ⟨st1, hpp, h⟩ := h
  obtain ⟨x, rfl⟩ := pushPrefix_eff hpp
  rw [bind_ok] at h
  obtain ⟨handler, _, h⟩ := h
  rw [bind_ok] at h
  obtain ⟨⟨kt, dt⟩, _, h⟩ := h
  dsimp -zeta only at h
  extract_lets es0 st2 jp at h
  have hjp : ∀ st3 kt' dt', (st3.stack = [.schema] ∧ st3.prefixes = x :: st.prefixes) →
      jp (st3, kt', dt') = .ok st' → st'.stack = [.schema] ∧ st'.prefixes ≠ [] := by
    intro st3 kt' dt' h3 hj
    simp only [jp, pure, Except.pure, Except.ok.injEq] at hj
    subst hj
    exact ⟨h3.1, by show st3.prefixes ≠ []; rw [h3.2]; simp⟩
  split at h
  · rw [bind_ok] at h
    obtain ⟨st3, hfold, h⟩ := h
    rw [bind_ok] at h
    obtain ⟨k, _, h⟩ := h
    rw [bind_ok] at h
    obtain ⟨d, _, h⟩ := h
    refine hjp st3 k d ?_ (pure_bind_ok h)
    refine foldlM_inv (fun acc : PSt => acc.stack = [.schema] ∧ acc.prefixes = x :: st.prefixes) _ ?_ _ _ st3
      (by exact ⟨rfl, rfl⟩) hfold
    intro acc src acc' hacc hstep
    extract_lets jp2 at hstep
    obtain ⟨_, hstep⟩ := guard_jp hstep
    simp only [jp2] at hstep
    split at hstep
    · cases hstep
    · rw [bind_ok] at hstep
      obtain ⟨es', _, hstep⟩ := hstep
      simp only [pure, Except.pure, Except.ok.injEq] at hstep
      subst hstep
      exact hacc
  · exact hjp st2 kt dt ⟨rfl, rfl⟩ (pure_bind_ok h)

/-- the documents for which `C11_extends_partial` is proved -/
def expandableDoc : Node → Bool
  | .elem _ _ c => expandable [] c
  | .text _ => true

/-- **C11, `extends` = written-out expansion (single document).**  Loading a schema document and loading its
    written-out form — every `<sectiontype name=d extends=b …>` replaced by the type with `b`'s `keytype` / `datatype`
    attributes (unless `d` has its own) and `b`'s `<key>` / `<multikey>` / `<section>` / `<multisection>` elements in
    front of `d`'s own children, without `extends`, keeping `d`'s `implements` only — give the SAME result: the same
    schema object, or the same error.  This holds for every environment, fuel and hooks (base schemas named by
    `<schema extends=…>` included), for documents such that (`expandableDoc`): no `<import>` directly below `<schema>`;
    no `prefix` attribute on a `<sectiontype>`; every `extends` names an earlier `<sectiontype>` of the same document;
    a type with `extends` has no `keytype` of its own.
    What is missing for the full statement: `<import>` (the imported component can be shown not to touch existing
    types, by the same `TopStep` argument through the hooks), `prefix` on section types, and extending a type that comes
    from a base schema or component.  The last hypothesis cannot be dropped: see `ExpandExample.inheritedFixedName` (ElabExpandEx.lean). -/
theorem C11_extends_partial (env : Env) (fuel : Nat) (t : Node) (hx : expandableDoc t = true) :
    elabSchema env fuel t = elabSchema env fuel (expandExtends t) := by
  cases t with
  | text s => rfl
  | elem tg a c =>
    unfold elabSchema elabES expandExtends
    congr 2
    by_cases htg : tg = (DocKind.schema none).topLevel
    · rw [visitElem_root_eq htg, visitElem_root_eq htg]
      dsimp only
      cases hs : startSchema env (hooks env fuel) none { es := emptyES } a with
      | error e => rfl
      | ok st1 =>
        simp only [bind, Except.bind]
        obtain ⟨hstack, hpre⟩ := startSchema_stack hs
        have hp : pkOfB (isComp (DocKind.schema none)) tg = some .topS := by rw [htg]; decide
        rw [expandChildren_eq hp c [] st1 hx (by intro e he; cases he) hstack hpre]
    · rw [visitElem_root_other htg, visitElem_root_other htg]

end ZCV.Elab
