import ZCV.Lemmas.HistoryShare
import ZCV.Lemmas.SlotsParse
/-!
C13 (faithful histories), part 2: where a load stops (`stepStop` / `linesStop` / `loadStop`).

  * agreement with the loader: when the lines go through, the schema `linesStop` reports is the loader's schema, and no
    component broke off (`linesStop_run_ok`, `loadStop_ok`);
  * an invariant principle (`StopInv`, `linesStop_inv`): a predicate that holds for "nothing happened", for one
    `importSchemaComponent` and is kept by "then", holds for every load – successful or not, any include depth;
  * two instances: `Traced` (the private schema descends from the start schema by the recorded `addsubtype` calls) and
    `Sourced` (the recorded calls are exactly the calls of the components read completely, followed by a front part of
    the calls of the component that broke off).
-/
namespace ZCV.Cfg
open ZCV ZCV.Conf

/-! ### unfolding -/

theorem linesStop_nil (fuel : Nat) (env : Env) (active : List Str) (url : Option Str) (n : Nat) (st : PS LS) :
    linesStop fuel env active url [] n st = Stop.here st.ctx.schema := by rw [linesStop]

theorem linesStop_cons (fuel : Nat) (env : Env) (active : List Str) (url : Option Str) (l : Str) (rest : List Str)
    (n : Nat) (st : PS LS) :
    linesStop fuel env active url (l :: rest) n st =
      match stepLine fuel env loaderCtx active url (n + 1) (strip l) st with
      | .ok st' =>
        (stepStop fuel env active url (n + 1) (strip l) st).andThen (linesStop fuel env active url rest (n + 1) st')
      | .error _ => stepStop fuel env active url (n + 1) (strip l) st := by rw [linesStop]; rfl

/-- the `%import` arm -/
def impStop (env : Env) (url : Option Str) (line : Nat) (arg : Str) (st : PS LS) : Stop :=
  match replace env st.defs url line (strip arg) with
  | .ok pkg => importStop st.ctx pkg
  | .error _ => Stop.here st.ctx.schema

/-- the `%include` arm -/
def incStop (fuel : Nat) (env : Env) (active : List Str) (url : Option Str) (line : Nat) (arg : Str) (st : PS LS) : Stop :=
  match replace env st.defs url line (strip arg) with
  | .error _ => Stop.here st.ctx.schema
  | .ok a =>
    match env.resolve url a with
    | .url u =>
      match env.res u with
      | some lines =>
        if u != [] && active.contains u then Stop.here st.ctx.schema
        else match fuel with
          | 0 => Stop.here st.ctx.schema
          | fuel' + 1 => linesStop fuel' env (u :: active) (some u) lines 0 { ctx := st.ctx, stack := [], defs := st.defs }
      | none => Stop.here st.ctx.schema
    | _ => Stop.here st.ctx.schema

theorem stepStop_import (fuel : Nat) (env : Env) (active : List Str) (url : Option Str) (line : Nat) (l arg : Str)
    (st : PS LS) (h : lineShape l = .import_ arg) :
    stepStop fuel env active url line l st = impStop env url line arg st := by
  rw [stepStop]
  simp only [h]
  rfl

theorem stepStop_include (fuel : Nat) (env : Env) (active : List Str) (url : Option Str) (line : Nat) (l arg : Str)
    (st : PS LS) (h : lineShape l = .include_ arg) :
    stepStop fuel env active url line l st = incStop fuel env active url line arg st := by
  rw [stepStop]
  simp only [h]
  rfl

theorem stepStop_other (fuel : Nat) (env : Env) (active : List Str) (url : Option Str) (line : Nat) (l : Str)
    (st : PS LS) (h1 : ∀ a, lineShape l ≠ .import_ a) (h2 : ∀ a, lineShape l ≠ .include_ a) :
    stepStop fuel env active url line l st = Stop.here st.ctx.schema := by
  rw [stepStop]
  split
  · rename_i a h; exact absurd h (h1 a)
  · rename_i a h; exact absurd h (h2 a)
  · rfl

/-! ### one component -/

theorem regAll_eq (n : Str) : ∀ (impls : List (Str × Str)) (sc : Schema),
    regAll impls n sc = sc.withImplementers (typeRegs impls n) := by
  intro impls
  unfold regAll typeRegs Schema.withImplementers
  induction impls with
  | nil => intro sc; rfl
  | cons ia rest ih =>
    intro sc
    rw [List.foldl_cons, List.filter_cons]
    split
    · rw [List.foldl_cons]; exact ih _
    · exact ih _

theorem compRegs_cons (te : Str × TypeEntry) (rest : List (Str × TypeEntry)) (impls : List (Str × Str)) :
    compRegs (te :: rest) impls = typeRegs impls te.1 ++ compRegs rest impls := by
  unfold compRegs
  rw [List.flatMap_cons]

/-- a call of a component read to its end: declared by the component, for a type the component defines -/
theorem mem_compRegs (types : List (Str × TypeEntry)) (impls : List (Str × Str)) (ia : Str × Str) :
    ia ∈ compRegs types impls ↔ ia ∈ impls ∧ ia.1 ∈ types.map (·.1) := by
  unfold compRegs typeRegs
  simp only [List.mem_flatMap, List.mem_filter, beq_iff_eq, List.mem_map]
  constructor
  · rintro ⟨te, hte, hi, he⟩
    exact ⟨hi, te, hte, he.symm⟩
  · rintro ⟨hi, te, hte, he⟩
    exact ⟨te, hte, hi, he.symm⟩

theorem compStop_nil (impls : List (Str × Str)) (sc : Schema) : compStop impls [] sc = (sc, [], true) := rfl

theorem compStop_cons_ok (impls : List (Str × Str)) (te : Str × TypeEntry) (rest : List (Str × TypeEntry))
    (sc sc1 : Schema) (h : addStep impls sc te = .ok sc1) :
    compStop impls (te :: rest) sc =
      ((compStop impls rest sc1).1, typeRegs impls te.1 ++ (compStop impls rest sc1).2.1, (compStop impls rest sc1).2.2) := by
  simp only [compStop, h]

theorem compStop_cons_error (impls : List (Str × Str)) (te : Str × TypeEntry) (rest : List (Str × TypeEntry))
    (sc : Schema) (f : Fail) (h : addStep impls sc te = .error f) :
    compStop impls (te :: rest) sc = (sc, [], false) := by
  simp only [compStop, h]

/-- a component that is read to its end: `compStop` is what `lsImport`'s fold gives, with all the component's calls -/
theorem compStop_ok (impls : List (Str × Str)) : ∀ (types : List (Str × TypeEntry)) (sc sc' : Schema),
    types.foldlM (addStep impls) sc = .ok sc' → compStop impls types sc = (sc', compRegs types impls, true) := by
  intro types
  induction types with
  | nil =>
    intro sc sc' h
    simp only [List.foldlM_nil, pure, Except.pure, Except.ok.injEq] at h
    subst h
    rfl
  | cons te rest ih =>
    intro sc sc' h
    rw [List.foldlM_cons] at h
    obtain ⟨sc1, h1, h2⟩ := bind_ok_inv h
    rw [compStop_cons_ok impls te rest sc sc1 h1, ih sc1 sc' h2, compRegs_cons]

/-- a component that breaks off is reported as such -/
theorem compStop_error (impls : List (Str × Str)) : ∀ (types : List (Str × TypeEntry)) (sc : Schema) (f : Fail),
    types.foldlM (addStep impls) sc = .error f → (compStop impls types sc).2.2 = false := by
  intro types
  induction types with
  | nil => intro sc f h; cases h
  | cons te rest ih =>
    intro sc f h
    rw [List.foldlM_cons] at h
    cases h1 : addStep impls sc te with
    | error g => rw [compStop_cons_error impls te rest sc g h1]
    | ok sc1 =>
      rw [h1] at h
      rw [compStop_cons_ok impls te rest sc sc1 h1]
      exact ih sc1 f h

/-- the calls made are a front part of the component's calls; all of them when it is read to its end -/
theorem compStop_regs (impls : List (Str × Str)) : ∀ (types : List (Str × TypeEntry)) (sc : Schema),
    (compStop impls types sc).2.1 <+: compRegs types impls ∧
      ((compStop impls types sc).2.2 = true → (compStop impls types sc).2.1 = compRegs types impls) := by
  intro types
  induction types with
  | nil => intro sc; exact ⟨List.prefix_refl _, fun _ => rfl⟩
  | cons te rest ih =>
    intro sc
    cases h1 : addStep impls sc te with
    | error g =>
      rw [compStop_cons_error impls te rest sc g h1]
      exact ⟨List.nil_prefix, fun h => by cases h⟩
    | ok sc1 =>
      rw [compStop_cons_ok impls te rest sc sc1 h1, compRegs_cons]
      obtain ⟨i1, i2⟩ := ih sc1
      exact ⟨(List.prefix_append_right_inj _).mpr i1, fun h => by rw [i2 h]⟩

/-- the schema reached descends from the start schema by the calls made (and new types at the end) -/
theorem compStop_traced (impls : List (Str × Str)) : ∀ (types : List (Str × TypeEntry)) (sc : Schema),
    (∃ new, (compStop impls types sc).1.types = sc.types.map (regEntries (compStop impls types sc).2.1) ++ new) ∧
      (compStop impls types sc).1.top = sc.top ∧ (compStop impls types sc).1.handler = sc.handler := by
  intro types
  induction types with
  | nil => intro sc; exact ⟨⟨[], by simp [compStop_nil, regEntries_nil_fun]⟩, rfl, rfl⟩
  | cons te rest ih =>
    intro sc
    cases h1 : addStep impls sc te with
    | error g =>
      rw [compStop_cons_error impls te rest sc g h1]
      exact ⟨⟨[], by simp [regEntries_nil_fun]⟩, rfl, rfl⟩
    | ok sc1 =>
      rw [compStop_cons_ok impls te rest sc sc1 h1]
      obtain ⟨⟨new, hn⟩, ht, hh⟩ := ih sc1
      obtain ⟨_, hsc1⟩ := addStep_ok impls sc sc1 te h1
      have htypes : sc1.types = sc.types.map (regEntries (typeRegs impls te.1)) ++ [regEntries (typeRegs impls te.1) te] := by
        rw [hsc1, regAll_eq, withImplementers_types]
        simp [addEntry]
      have htop : sc1.top = sc.top := by rw [hsc1, regAll_eq, withImplementers_top]; rfl
      have hhd : sc1.handler = sc.handler := by rw [hsc1, regAll_eq, withImplementers_handler]; rfl
      refine ⟨⟨[regEntries (typeRegs impls te.1) te].map (regEntries (compStop impls rest sc1).2.1) ++ new, ?_⟩,
        ht.trans htop, hh.trans hhd⟩
      simp only
      rw [hn, htypes, List.map_append, List.map_map, List.append_assoc]
      congr 1
      apply List.map_congr_left
      intro p _
      simp only [Function.comp, regEntries_append]

/-! ### one `importSchemaComponent` -/

/-- a successful `%import`: the schema `importStop` reports is the loader's, and nothing broke off -/
theorem importStop_ok (st st1 : LS) (pkg : Str) (h : lsImport st pkg = .ok st1) :
    (importStop st pkg).schema = st1.schema ∧ (importStop st pkg).broken = none := by
  unfold importStop
  cases hp : st.pkgs pkg with
  | component url types impls =>
    rw [lsImport_component st pkg url types impls hp] at h
    simp only
    split at h
    · rename_i hc
      cases h
      simp only [hc, if_true, Stop.here, and_self]
    · rename_i hc
      obtain ⟨sch, h1, rfl⟩ := map_ok_inv h
      simp only [hc, Bool.false_eq_true, if_false, compStop_ok impls types _ sch h1, if_true, and_self]
  | notImportable => unfold lsImport at h; rw [hp] at h; cases h
  | notPackage => unfold lsImport at h; rw [hp] at h; cases h
  | noComponent => unfold lsImport at h; rw [hp] at h; cases h
  | illegalName => unfold lsImport at h; rw [hp] at h; cases h

theorem importStop_traced (st : LS) (pkg : Str) : Traced st.schema (importStop st pkg) := by
  unfold importStop
  cases hp : st.pkgs pkg with
  | component url types impls =>
    simp only
    split
    · exact Traced.here _
    · have := compStop_traced impls types { st.schema with components := st.schema.components ++ [url] }
      split
      · exact this
      · exact this
  | notImportable => exact Traced.here _
  | notPackage => exact Traced.here _
  | noComponent => exact Traced.here _
  | illegalName => exact Traced.here _

/-! ### agreement with the loader -/

/-- one line that goes through (the `%include` arm needs the statement for the included resource, at smaller fuel) -/
theorem stepStop_ok_aux (env : Env) (fuel : Nat)
    (ih : ∀ f, fuel = f + 1 → ∀ (active : List Str) (url : Option Str) (lines : List Str) (n : Nat) (st st' : PS LS),
      parseLines f env loaderCtx active url lines n st = .ok st' →
      (linesStop f env active url lines n st).schema = st'.ctx.schema ∧ (linesStop f env active url lines n st).broken = none)
    (active : List Str) (url : Option Str) (line : Nat) (l : Str) (st st' : PS LS)
    (h : stepLine fuel env loaderCtx active url line l st = .ok st') :
    (stepStop fuel env active url line l st).schema = st'.ctx.schema ∧
      (stepStop fuel env active url line l st).broken = none := by
  cases hs : lineShape l with
  | skip =>
    rw [stepStop_other _ _ _ _ _ _ _ (by simp [hs]) (by simp [hs])]
    rw [stepLine] at h; simp only [hs] at h; cases h; exact ⟨rfl, rfl⟩
  | bad t => rw [stepLine] at h; simp only [hs] at h; cases h
  | internal t => rw [stepLine] at h; simp only [hs] at h; cases h
  | close ty =>
    rw [stepStop_other _ _ _ _ _ _ _ (by simp [hs]) (by simp [hs])]
    rw [stepLine] at h; simp only [hs] at h
    exact ⟨(closeSection_schema _ _ _ _ _ h).symm, rfl⟩
  | open_ ty nm e =>
    rw [stepStop_other _ _ _ _ _ _ _ (by simp [hs]) (by simp [hs])]
    rw [stepLine] at h; simp only [hs] at h
    exact ⟨(openSection_schema _ _ _ _ _ _ _ h).symm, rfl⟩
  | kv k v =>
    rw [stepStop_other _ _ _ _ _ _ _ (by simp [hs]) (by simp [hs])]
    rw [stepLine] at h; simp only [hs] at h
    exact ⟨(keyValue_schema _ _ _ _ _ _ _ h).symm, rfl⟩
  | define a =>
    rw [stepStop_other _ _ _ _ _ _ _ (by simp [hs]) (by simp [hs])]
    rw [stepLine_define _ _ _ _ _ _ _ _ _ hs] at h
    unfold defStep at h
    split at h
    · cases h
    · obtain ⟨d, _, rfl⟩ := map_ok_inv h
      exact ⟨rfl, rfl⟩
  | import_ a =>
    rw [stepStop_import _ _ _ _ _ _ _ _ hs]
    rw [stepLine_import _ _ _ _ _ _ _ _ _ hs] at h
    unfold impStep at h
    obtain ⟨pkg, hr, h⟩ := bind_ok_inv h
    obtain ⟨ctx', hi, rfl⟩ := map_ok_inv h
    unfold impStop
    rw [hr]
    exact importStop_ok _ _ _ hi
  | include_ a =>
    rw [stepStop_include _ _ _ _ _ _ _ _ hs]
    rw [stepLine_include _ _ _ _ _ _ _ _ _ hs] at h
    unfold incStep at h
    obtain ⟨a', hr, h⟩ := bind_ok_inv h
    unfold incStop
    rw [hr]
    simp only
    split at h
    · cases h
    · split at h
      · cases h
      · cases h
      · rename_i u hres
        rw [hres]
        simp only
        split at h
        · cases h
        · rename_i lines hlines
          rw [hlines]
          simp only
          split at h
          · cases h
          · rename_i hact
            rw [if_neg hact]
            split at h
            · cases h
            · obtain ⟨sub, hsub, h⟩ := bind_ok_inv h
              cases h
              have := ih _ rfl _ _ _ _ _ sub hsub
              exact this

theorem linesStop_run_ok_of_step (env : Env) (fuel : Nat)
    (hstep : ∀ (active : List Str) (url : Option Str) (line : Nat) (l : Str) (st st' : PS LS),
      stepLine fuel env loaderCtx active url line l st = .ok st' →
      (stepStop fuel env active url line l st).schema = st'.ctx.schema ∧
        (stepStop fuel env active url line l st).broken = none)
    (active : List Str) (url : Option Str) :
    ∀ (lines : List Str) (n : Nat) (st st' : PS LS), runLines fuel env loaderCtx active url lines n st = .ok st' →
      (linesStop fuel env active url lines n st).schema = st'.ctx.schema ∧
        (linesStop fuel env active url lines n st).broken = none := by
  intro lines
  induction lines with
  | nil => intro n st st' h; cases h; rw [linesStop_nil]; exact ⟨rfl, rfl⟩
  | cons l rest ihl =>
    intro n st st' h
    simp only [runLines] at h
    obtain ⟨s1, h1, h2⟩ := bind_ok_inv h
    rw [linesStop_cons]
    simp only [h1]
    exact ihl _ _ _ h2

theorem linesStop_parse_ok_of_step (env : Env) (fuel : Nat)
    (hstep : ∀ (active : List Str) (url : Option Str) (line : Nat) (l : Str) (st st' : PS LS),
      stepLine fuel env loaderCtx active url line l st = .ok st' →
      (stepStop fuel env active url line l st).schema = st'.ctx.schema ∧
        (stepStop fuel env active url line l st).broken = none)
    (active : List Str) (url : Option Str) (lines : List Str) (n : Nat) (st st' : PS LS)
    (h : parseLines fuel env loaderCtx active url lines n st = .ok st') :
    (linesStop fuel env active url lines n st).schema = st'.ctx.schema ∧
      (linesStop fuel env active url lines n st).broken = none := by
  rw [parseLines_eq_run] at h
  obtain ⟨s1, h1, h2⟩ := bind_ok_inv h
  rw [finish_ok h2]
  exact linesStop_run_ok_of_step env fuel hstep active url lines n st s1 h1

/-- **one line that goes through**: `stepStop` reports the loader's schema after the line, nothing broke off -/
theorem stepStop_ok (env : Env) : ∀ (fuel : Nat) (active : List Str) (url : Option Str) (line : Nat) (l : Str)
    (st st' : PS LS), stepLine fuel env loaderCtx active url line l st = .ok st' →
      (stepStop fuel env active url line l st).schema = st'.ctx.schema ∧
        (stepStop fuel env active url line l st).broken = none := by
  intro fuel
  induction fuel with
  | zero => exact stepStop_ok_aux env 0 (fun f hf => by omega)
  | succ f ihf =>
    refine stepStop_ok_aux env (f + 1) ?_
    intro f' hf
    have : f = f' := by omega
    subst this
    exact linesStop_parse_ok_of_step env f ihf

/-- **lines that go through** (any prefix of a load) -/
theorem linesStop_run_ok (env : Env) (fuel : Nat) (active : List Str) (url : Option Str) (lines : List Str) (n : Nat)
    (st st' : PS LS) (h : runLines fuel env loaderCtx active url lines n st = .ok st') :
    (linesStop fuel env active url lines n st).schema = st'.ctx.schema ∧
      (linesStop fuel env active url lines n st).broken = none :=
  linesStop_run_ok_of_step env fuel (stepStop_ok env fuel) active url lines n st st' h

/-- **a resource that is read to its end** -/
theorem linesStop_parse_ok (env : Env) (fuel : Nat) (active : List Str) (url : Option Str) (lines : List Str) (n : Nat)
    (st st' : PS LS) (h : parseLines fuel env loaderCtx active url lines n st = .ok st') :
    (linesStop fuel env active url lines n st).schema = st'.ctx.schema ∧
      (linesStop fuel env active url lines n st).broken = none :=
  linesStop_parse_ok_of_step env fuel (stepStop_ok env fuel) active url lines n st st' h

/-- a line that goes through keeps the package table -/
theorem stepLine_pkgs (env : Env) (fuel : Nat) (active : List Str) (url : Option Str) (line : Nat) (l : Str)
    (st st' : PS LS) (h : stepLine fuel env loaderCtx active url line (strip l) st = .ok st') :
    st'.ctx.pkgs = st.ctx.pkgs :=
  (step_rel opsRel_grows env (fun _ => True) (fun _ _ _ _ s pkg s' hi => lsImport_grows s s' pkg hi)
    (fun _ _ _ _ _ _ _ _ _ => trivial) fuel active url line l st st' trivial h).1

/-! ### the invariant principle -/

/-- what a predicate on (start schema, stop) must satisfy to hold for every load -/
structure StopInv (pkgs : Str → Pkg) (P : Schema → Stop → Prop) : Prop where
  here : ∀ sc, P sc (Stop.here sc)
  imp : ∀ (st : LS) (pkg : Str), st.pkgs = pkgs → P st.schema (importStop st pkg)
  seq : ∀ sc x y, P sc x → x.broken = none → P x.schema y → P sc (x.andThen y)

section inv
variable {pkgs : Str → Pkg} {P : Schema → Stop → Prop}

theorem stepStop_inv_aux (H : StopInv pkgs P) (env : Env) (fuel : Nat)
    (ih : ∀ f, fuel = f + 1 → ∀ (active : List Str) (url : Option Str) (lines : List Str) (n : Nat) (st : PS LS),
      st.ctx.pkgs = pkgs → P st.ctx.schema (linesStop f env active url lines n st))
    (active : List Str) (url : Option Str) (line : Nat) (l : Str) (st : PS LS) (hp : st.ctx.pkgs = pkgs) :
    P st.ctx.schema (stepStop fuel env active url line l st) := by
  cases hs : lineShape l with
  | skip => rw [stepStop_other _ _ _ _ _ _ _ (by simp [hs]) (by simp [hs])]; exact H.here _
  | bad t => rw [stepStop_other _ _ _ _ _ _ _ (by simp [hs]) (by simp [hs])]; exact H.here _
  | internal t => rw [stepStop_other _ _ _ _ _ _ _ (by simp [hs]) (by simp [hs])]; exact H.here _
  | close ty => rw [stepStop_other _ _ _ _ _ _ _ (by simp [hs]) (by simp [hs])]; exact H.here _
  | open_ ty nm e => rw [stepStop_other _ _ _ _ _ _ _ (by simp [hs]) (by simp [hs])]; exact H.here _
  | kv k v => rw [stepStop_other _ _ _ _ _ _ _ (by simp [hs]) (by simp [hs])]; exact H.here _
  | define a => rw [stepStop_other _ _ _ _ _ _ _ (by simp [hs]) (by simp [hs])]; exact H.here _
  | import_ a =>
    rw [stepStop_import _ _ _ _ _ _ _ _ hs]
    unfold impStop
    split
    · exact H.imp _ _ hp
    · exact H.here _
  | include_ a =>
    rw [stepStop_include _ _ _ _ _ _ _ _ hs]
    unfold incStop
    split
    · exact H.here _
    · split
      · split
        · split
          · exact H.here _
          · split
            · exact H.here _
            · exact ih _ rfl _ _ _ _ { ctx := st.ctx, stack := [], defs := st.defs } hp
        · exact H.here _
      · exact H.here _

theorem linesStop_inv_of_step (H : StopInv pkgs P) (env : Env) (fuel : Nat)
    (hstep : ∀ (active : List Str) (url : Option Str) (line : Nat) (l : Str) (st : PS LS), st.ctx.pkgs = pkgs →
      P st.ctx.schema (stepStop fuel env active url line l st))
    (active : List Str) (url : Option Str) :
    ∀ (lines : List Str) (n : Nat) (st : PS LS), st.ctx.pkgs = pkgs →
      P st.ctx.schema (linesStop fuel env active url lines n st) := by
  intro lines
  induction lines with
  | nil => intro n st _; rw [linesStop_nil]; exact H.here _
  | cons l rest ihl =>
    intro n st hp
    rw [linesStop_cons]
    cases h1 : stepLine fuel env loaderCtx active url (n + 1) (strip l) st with
    | error e => exact hstep _ _ _ _ _ hp
    | ok st' =>
      simp only
      obtain ⟨hsch, hbr⟩ := stepStop_ok env fuel active url (n + 1) (strip l) st st' h1
      have hp' : st'.ctx.pkgs = pkgs := (stepLine_pkgs env fuel active url (n + 1) l st st' h1).trans hp
      refine H.seq _ _ _ (hstep _ _ _ _ _ hp) hbr ?_
      rw [hsch]
      exact ihl _ _ hp'

/-- **every load, successful or not, at any include depth** -/
theorem linesStop_inv (H : StopInv pkgs P) (env : Env) : ∀ (fuel : Nat) (active : List Str) (url : Option Str)
    (lines : List Str) (n : Nat) (st : PS LS), st.ctx.pkgs = pkgs →
      P st.ctx.schema (linesStop fuel env active url lines n st) := by
  intro fuel
  induction fuel with
  | zero =>
    exact linesStop_inv_of_step H env 0 (stepStop_inv_aux H env 0 (fun f hf => by omega))
  | succ f ihf =>
    refine linesStop_inv_of_step H env (f + 1) (stepStop_inv_aux H env (f + 1) ?_)
    intro f' hf
    have : f = f' := by omega
    subst this
    exact ihf

end inv

/-! ### instance 1: the private schema descends from the start schema by the recorded calls -/

theorem stopInv_traced (pkgs : Str → Pkg) : StopInv pkgs Traced :=
  ⟨Traced.here, fun st pkg _ => importStop_traced st pkg, fun _ _ _ hx _ hy => hx.andThen hy⟩

/-! ### instance 2: the recorded calls are those of the components read, in order -/

/-- the calls recorded are all the calls of the components read to their end, in order, followed by a front part of the
    calls of the component that broke off (if one did) -/
def Sourced (pkgs : Str → Pkg) (x : Stop) : Prop :=
  ∃ part, x.regs = x.imports.flatMap (fun p => pkgRegs (pkgs p)) ++ part ∧
    match x.broken with
    | none => part = []
    | some b => part <+: pkgRegs (pkgs b)

theorem Sourced.here (pkgs : Str → Pkg) (sc : Schema) : Sourced pkgs (Stop.here sc) := ⟨[], rfl, rfl⟩

theorem importStop_sourced (st : LS) (pkg : Str) : Sourced st.pkgs (importStop st pkg) := by
  unfold importStop
  cases hp : st.pkgs pkg with
  | component url types impls =>
    simp only
    split
    · exact Sourced.here _ _
    · obtain ⟨h1, h2⟩ := compStop_regs impls types { st.schema with components := st.schema.components ++ [url] }
      split
      · rename_i hc
        refine ⟨[], ?_, rfl⟩
        simp only [List.flatMap_cons, List.flatMap_nil, List.append_nil, hp, pkgRegs]
        exact h2 hc
      · refine ⟨(compStop impls types { st.schema with components := st.schema.components ++ [url] }).2.1, ?_, ?_⟩
        · simp only [List.flatMap_nil, List.nil_append]
        · simp only [hp, pkgRegs]
          exact h1
  | notImportable => exact Sourced.here _ _
  | notPackage => exact Sourced.here _ _
  | noComponent => exact Sourced.here _ _
  | illegalName => exact Sourced.here _ _

theorem stopInv_sourced (pkgs : Str → Pkg) : StopInv pkgs (fun _ x => Sourced pkgs x) := by
  refine ⟨fun sc => Sourced.here pkgs sc, fun st pkg hp => by rw [← hp]; exact importStop_sourced st pkg, ?_⟩
  intro _ x y hx hb hy
  obtain ⟨px, hx1, hx2⟩ := hx
  obtain ⟨py, hy1, hy2⟩ := hy
  rw [hb] at hx2
  simp only at hx2
  subst hx2
  refine ⟨py, ?_, hy2⟩
  simp only [Stop.andThen, hx1, hy1, List.append_nil, List.flatMap_append, List.append_assoc]

/-! ### whole loads -/

theorem loadInit_ok (conv : Conv) (pkgs : Str → Pkg) (schema : Schema) (specs : List Str) (ps0 : PS LS)
    (h : loadInit conv pkgs schema specs = .ok ps0) : ps0.ctx.schema = schema ∧ ps0.ctx.pkgs = pkgs := by
  unfold loadInit at h
  obtain ⟨overrides, _, h⟩ := bind_ok_inv h
  obtain ⟨bag, _, h⟩ := bind_ok_inv h
  cases h
  exact ⟨rfl, rfl⟩

/-- a successful load went through `loadInit` and a successful parse from the state `loadInit` gives -/
theorem load_ok_init (conv : Conv) (env : Env) (pkgs : Str → Pkg) (schema : Schema) (url : Option Str)
    (lines specs : List Str) (r : LoadResult) (h : load conv env pkgs schema url lines specs = .ok r) :
    ∃ (ps0 ps : PS LS), loadInit conv pkgs schema specs = .ok ps0 ∧
      parseLines 64 env loaderCtx (activeOf url) url lines 0 ps0 = .ok ps ∧ r.schemaAfter = ps.ctx.schema := by
  unfold load at h
  obtain ⟨overrides, hov, h⟩ := bind_ok_inv h
  dsimp only at h
  split at h <;>
  · rename_i hemp
    obtain ⟨bag, hbag, h⟩ := bind_ok_inv h
    obtain ⟨ps, hps, h⟩ := bind_ok_inv h
    have hb : loadBag conv schema overrides = .ok bag := by
      unfold loadBag
      first
        | rw [if_pos hemp]; exact hbag
        | rw [if_neg hemp]; exact hbag
    refine ⟨_, ps, ?_, hps, ?_⟩
    · unfold loadInit
      rw [hov, ok_bind, hb, ok_bind]
      rfl
    · split at h
      · obtain ⟨vh, _, h⟩ := bind_ok_inv h
        obtain ⟨v, hs⟩ := vh
        dsimp only at h
        split at h
        · obtain ⟨v', _, h⟩ := bind_ok_inv h
          cases h
          rfl
        · obtain ⟨v', hv, _⟩ := bind_ok_inv h
          cases hv
      · cases h

/-- **a successful load**: `loadStop` reports the schema `load` returns, and no component broke off -/
theorem loadStop_ok (conv : Conv) (env : Env) (pkgs : Str → Pkg) (schema : Schema) (url : Option Str)
    (lines specs : List Str) (r : LoadResult) (h : load conv env pkgs schema url lines specs = .ok r) :
    (loadStop conv env pkgs schema url lines specs).schema = r.schemaAfter ∧
      (loadStop conv env pkgs schema url lines specs).broken = none := by
  obtain ⟨ps0, ps, h0, hp, hr⟩ := load_ok_init conv env pkgs schema url lines specs r h
  unfold loadStop
  rw [h0, hr]
  exact linesStop_parse_ok env 64 _ _ _ _ _ _ hp

theorem loadStop_inv {pkgs : Str → Pkg} {P : Schema → Stop → Prop} (H : StopInv pkgs P) (conv : Conv) (env : Env)
    (schema : Schema) (url : Option Str) (lines specs : List Str) :
    P schema (loadStop conv env pkgs schema url lines specs) := by
  unfold loadStop
  cases h0 : loadInit conv pkgs schema specs with
  | error e => exact H.here _
  | ok ps0 =>
    obtain ⟨hs, hp⟩ := loadInit_ok conv pkgs schema specs ps0 h0
    have := linesStop_inv H env 64 (activeOf url) url lines 0 ps0 hp
    rw [hs] at this
    exact this

/-- **every load**: its private schema descends from the application's schema by the recorded `addsubtype` calls -/
theorem loadStop_traced (conv : Conv) (env : Env) (pkgs : Str → Pkg) (schema : Schema) (url : Option Str)
    (lines specs : List Str) : Traced schema (loadStop conv env pkgs schema url lines specs) :=
  loadStop_inv (stopInv_traced pkgs) conv env schema url lines specs

/-- **every load**: the recorded calls are those of the components it read -/
theorem loadStop_sourced (conv : Conv) (env : Env) (pkgs : Str → Pkg) (schema : Schema) (url : Option Str)
    (lines specs : List Str) : Sourced pkgs (loadStop conv env pkgs schema url lines specs) :=
  loadStop_inv (stopInv_sourced pkgs) conv env schema url lines specs

end ZCV.Cfg
