import ZCV.Lemmas.LoadEval
import ZCV.Lemmas.ParseGen
import ZCV.Spec.Tree
/-!
The loader context simulated by the tree-building context: `replay` turns a tree-builder state into the loader state
reached by replaying the recorded items, and every tree-builder operation corresponds to the loader operation of the
same name under `replay`.
-/
namespace ZCV.Conf
open ZCV ZCV.Cfg

/-! ### `runItems` as a fold -/

theorem runItems_append : ∀ (l r : List Item) (st : LS),
    runItems st (l ++ r) = runItems st l >>= fun s => runItems s r
  | [], r, st => by rw [List.nil_append, runItems]; rfl
  | i :: l, r, st => by
    rw [List.cons_append, runItems, runItems]
    cases runItem st i with
    | error e => rfl
    | ok s => exact runItems_append l r s

theorem runItems_single (st : LS) (i : Item) : runItems st [i] = runItem st i := by
  rw [runItems]
  cases runItem st i with
  | error e => rfl
  | ok s => simp only [runItems]

theorem runItem_sect (st : LS) (ty : Str) (nm : Option Str) (items : List Item) :
    runItem st (.sect ty nm items) =
      lsStart st ty nm >>= fun s1 => runItems s1 items >>= fun s2 => lsStop s2 ty nm := by
  rw [runItem]
  cases lsStart st ty nm with
  | error e => rfl
  | ok s1 =>
    show (match runItems s1 items with
      | .error e => .error e
      | .ok st2 => lsStop st2 ty nm) = (runItems s1 items >>= fun s2 => lsStop s2 ty nm)
    cases runItems s1 items <;> rfl

theorem runItems_snoc (st : LS) (l : List Item) (i : Item) :
    runItems st (l ++ [i]) = runItems st l >>= fun s => runItem s i := by
  rw [runItems_append]
  congr 1
  funext s
  exact runItems_single s i

/-! ### stack heights in the loader -/

theorem lsStart_len (st st' : LS) (ty : Str) (nm : Option Str) (h : lsStart st ty nm = .ok st') :
    st'.stack.length = st.stack.length + 1 := by
  unfold lsStart at h
  split at h
  · cases h
  · rename_i parent below hst
    split at h
    · cases h
    · cases h
    · simp only [bind, Except.bind, pure, Except.pure] at h
      split at h
      · cases h
      · split at h
        · cases h
        · split at h
          · cases h
          · split at h
            · cases h; simp [hst]
            · split at h
              · cases h
              · cases h; simp [hst]

theorem lsStop_len (st st' : LS) (ty : Str) (nm : Option Str) (h : lsStop st ty nm = .ok st') :
    st'.stack.length + 1 = st.stack.length ∧ 1 ≤ st'.stack.length := by
  unfold lsStop at h
  split at h
  · rename_i child parent below hst
    simp only [bind, Except.bind, pure, Except.pure] at h
    split at h
    · cases h
    · split at h
      · cases h
      · cases h; simp [hst]
  · cases h

theorem lsValue_len (st st' : LS) (k v : Str) (p : Pos) (h : lsValue st k v p = .ok st') :
    st'.stack.length = st.stack.length := by
  unfold lsValue at h
  split at h
  · rename_i cur below hst
    cases ha : addValue st.conv cur k v p with
    | error e => rw [ha] at h; cases h
    | ok m => rw [ha] at h; cases h; simp [hst]
  · cases h

/-! ### replaying a tree-builder state -/

/-- the loader state after the calls recorded in a tree-builder stack (innermost section first; items most recent
    first), starting from `st0` for the outermost entry -/
def replay (st0 : LS) : List (Str × Option Str × List Item) → M LS
  | [] => .error (.internal "IndexError")
  | [(_, _, items)] => runItems st0 items.reverse
  | (ty, nm, items) :: y :: rest =>
    replay st0 (y :: rest) >>= fun s => lsStart s ty nm >>= fun s1 => runItems s1 items.reverse

theorem replay_start (st0 : LS) (ty : Str) (nm : Option Str) (stk : List (Str × Option Str × List Item))
    (hne : stk ≠ []) :
    replay st0 ((ty, nm, []) :: stk) = replay st0 stk >>= fun s => lsStart s ty nm := by
  cases stk with
  | nil => exact absurd rfl hne
  | cons y rest =>
    rw [replay]
    congr 1
    funext s
    cases lsStart s ty nm with
    | error e => rfl
    | ok s1 => simp [runItems, bind, Except.bind]

theorem replay_value (st0 : LS) (ty : Str) (nm : Option Str) (k v : Str) (p : Pos) (items : List Item)
    (rest : List (Str × Option Str × List Item)) :
    replay st0 ((ty, nm, Item.kv k v p :: items) :: rest) =
      replay st0 ((ty, nm, items) :: rest) >>= fun s => lsValue s k v p := by
  cases rest with
  | nil =>
    rw [replay, replay, List.reverse_cons, runItems_snoc]
    congr 1
  | cons y rest =>
    rw [replay, replay, List.reverse_cons, bind_assoc]
    congr 1
    funext s
    rw [bind_assoc]
    congr 1
    funext s1
    rw [runItems_snoc]
    congr 1

theorem replay_stop (st0 : LS) (ty pty : Str) (nm pnm : Option Str) (items pitems : List Item)
    (rest : List (Str × Option Str × List Item)) :
    replay st0 ((pty, pnm, Item.sect ty nm items.reverse :: pitems) :: rest) =
      replay st0 ((ty, nm, items) :: (pty, pnm, pitems) :: rest) >>= fun s => lsStop s ty nm := by
  have key : ∀ s : LS, runItems s (Item.sect ty nm items.reverse :: pitems).reverse =
      runItems s pitems.reverse >>= fun s0 => lsStart s0 ty nm >>= fun s1 => runItems s1 items.reverse >>= fun s2 =>
        lsStop s2 ty nm := by
    intro s
    rw [List.reverse_cons, runItems_snoc]
    congr 1
    funext s0
    exact runItem_sect _ _ _ _
  cases rest with
  | nil =>
    rw [replay, replay, replay, key]
    simp only [bind_assoc]
  | cons y rest =>
    rw [replay, replay, replay]
    simp only [bind_assoc]
    congr 1
    funext s
    congr 1
    funext s1
    rw [key]

/-! ### the simulation -/

/-- tree-builder state `tb` records exactly the calls that led to loader state `ls`; the innermost open sections of
    `tb` are `F`; both stacks have the same height -/
def R (st0 : LS) (F : List (Str × Option Str)) (ls : LS) (tb : TB) : Prop :=
  replay st0 tb.stack = .ok ls ∧ (∃ t, tb.stack.map (fun x => (x.1, x.2.1)) = F ++ t) ∧
    ls.stack.length = tb.stack.length

/-- replaying what `tb` records fails -/
def D (st0 : LS) (tb : TB) : Prop := tb.stack ≠ [] ∧ ∃ e, replay st0 tb.stack = .error e

theorem replay_ok_ne (st0 : LS) (stk : List (Str × Option Str × List Item)) (ls : LS)
    (h : replay st0 stk = .ok ls) : stk ≠ [] := by
  intro hn
  subst hn
  rw [replay] at h
  cases h

theorem deadInv (st0 : LS) : CtxInv treeCtx (fun _ b => D st0 b) where
  start := by
    intro _ a ty0 nm a' hd h
    obtain ⟨hne, e, he⟩ := hd
    cases h
    refine ⟨by simp, e, ?_⟩
    show replay st0 ((lower ty0, nm, []) :: a.stack) = _
    rw [replay_start _ _ _ _ hne, he]
    rfl
  stop := by
    intro _ a ty nm a' hd h
    obtain ⟨hne, e, he⟩ := hd
    change tbStop a ty nm = .ok a' at h
    unfold tbStop at h
    split at h
    · rename_i ty1 nm1 items pty pnm pitems rest hst
      cases h
      refine ⟨by simp, e, ?_⟩
      show replay st0 ((pty, pnm, Item.sect ty1 nm1 items.reverse :: pitems) :: rest) = _
      rw [replay_stop, ← hst, he]
      rfl
    · cases h
  value := by
    intro _ a k v p a' hd h
    obtain ⟨hne, e, he⟩ := hd
    change tbValue a k v p = .ok a' at h
    unfold tbValue at h
    split at h
    · rename_i ty1 nm1 items rest hst
      cases h
      refine ⟨by simp, e, ?_⟩
      show replay st0 ((ty1, nm1, Item.kv k v p :: items) :: rest) = _
      rw [replay_value, ← hst, he]
      rfl
    · cases h
  imp := by
    intro _ a pkg a' _ h
    cases h

theorem loaderSim (st0 : LS) : CtxSim loaderCtx treeCtx (R st0) (D st0) where
  canInc := rfl
  canDef := rfl
  dead := deadInv st0
  start := by
    intro F ls tb ty nm hR
    obtain ⟨hrep, ⟨t, ht⟩, hlen⟩ := hR
    have hne := replay_ok_ne _ _ _ hrep
    have hnew : replay st0 ((ty, nm, []) :: tb.stack) = lsStart ls ty nm := by
      rw [replay_start _ _ _ _ hne, hrep]; rfl
    show SimO _ _ (lsStart ls ty nm).toOption (tbStart tb ty nm).toOption
    unfold tbStart
    cases hs : lsStart ls ty nm with
    | ok ls' =>
      refine ⟨_, rfl, ?_, ⟨t, ?_⟩, ?_⟩
      · show replay st0 ((ty, nm, []) :: tb.stack) = _
        rw [hnew, hs]
      · simp [ht]
      · simp [lsStart_len _ _ _ _ hs, hlen]
    | error e =>
      intro b hb
      cases hb
      refine ⟨by simp, e, ?_⟩
      show replay st0 ((ty, nm, []) :: tb.stack) = _
      rw [hnew, hs]
  stop := by
    intro F ls tb ty nm hR
    obtain ⟨hrep, ⟨t, ht⟩, hlen⟩ := hR
    show SimO _ _ (lsStop ls ty nm).toOption (tbStop tb ty nm).toOption
    unfold tbStop
    cases hst : tb.stack with
    | nil => rw [hst] at ht; simp at ht
    | cons x ts =>
      obtain ⟨ty1, nm1, items⟩ := x
      rw [hst] at ht hlen hrep
      simp only [List.map_cons, List.cons_append, List.cons.injEq, Prod.mk.injEq] at ht
      obtain ⟨⟨rfl, rfl⟩, ht⟩ := ht
      cases ts with
      | nil =>
        cases hs : lsStop ls ty1 nm1 with
        | ok ls' =>
          have := (lsStop_len _ _ _ _ hs)
          simp at hlen
          omega
        | error e => exact SimO.none_none _ _
      | cons y rest =>
        obtain ⟨pty, pnm, pitems⟩ := y
        have hnew : replay st0 ((pty, pnm, Item.sect ty1 nm1 items.reverse :: pitems) :: rest) = lsStop ls ty1 nm1 := by
          rw [replay_stop, hrep]; rfl
        cases hs : lsStop ls ty1 nm1 with
        | ok ls' =>
          refine ⟨_, rfl, ?_, ⟨t, ?_⟩, ?_⟩
          · show replay st0 ((pty, pnm, Item.sect ty1 nm1 items.reverse :: pitems) :: rest) = _
            rw [hnew, hs]
          · simpa using ht
          · have := (lsStop_len _ _ _ _ hs).1
            simp at hlen ⊢
            omega
        | error e =>
          intro b hb
          cases hb
          refine ⟨by simp, e, ?_⟩
          show replay st0 ((pty, pnm, Item.sect ty1 nm1 items.reverse :: pitems) :: rest) = _
          rw [hnew, hs]
  value := by
    intro F ls tb k v p hR
    obtain ⟨hrep, ⟨t, ht⟩, hlen⟩ := hR
    show SimO _ _ (lsValue ls k v p).toOption (tbValue tb k v p).toOption
    unfold tbValue
    cases hst : tb.stack with
    | nil => rw [hst] at hrep; exact absurd rfl (replay_ok_ne _ _ _ hrep)
    | cons x rest =>
      obtain ⟨ty1, nm1, items⟩ := x
      rw [hst] at ht hlen hrep
      have hnew : replay st0 ((ty1, nm1, Item.kv k v p :: items) :: rest) = lsValue ls k v p := by
        rw [replay_value, hrep]; rfl
      cases hs : lsValue ls k v p with
      | ok ls' =>
        refine ⟨_, rfl, ?_, ⟨t, ?_⟩, ?_⟩
        · show replay st0 ((ty1, nm1, Item.kv k v p :: items) :: rest) = _
          rw [hnew, hs]
        · simpa using ht
        · simp [lsValue_len _ _ _ _ _ hs, hlen]
      | error e =>
        intro b hb
        cases hb
        refine ⟨by simp, e, ?_⟩
        show replay st0 ((ty1, nm1, Item.kv k v p :: items) :: rest) = _
        rw [hnew, hs]

end ZCV.Conf
