import ZCV.Spec.SchemaRules
/-!
C10: what the walk-based judgement `DocRules` (`ZCV/Spec/SchemaRules.lean`) means in order-free terms — the rules of the
property statement that speak about *all* declarations of a document at once follow from it:

* the normalised names of all types of the signature the document ends with — its own type declarations and those of
  the components it imports — are pairwise distinct;
* in the signature of every concrete type — the members of its base first, then its own — the attribute names are
  pairwise distinct, and so are the non-empty keys (`docRules_signature_wf`); the same for the top-level container
  (`docRules_top_wf`).

These are consequences, used as sanity checks of the specification; the theorems of `Props/C10.lean` about the loader
do not depend on them.
-/
namespace ZCV.SchemaRules
open ZCV ZCV.Elab

/-! ### members -/

/-- the keys under which members can be looked up: the non-empty ones -/
def memberKeys (ms : List Member) : List (Option Str) := (ms.filter fun m => truthyKey m.key).map (·.key)

/-- no two members share an attribute name or a (non-empty) key -/
def MembersWF (ms : List Member) : Prop := (ms.map (·.attr)).Nodup ∧ (memberKeys ms).Nodup

theorem membersWF_nil : MembersWF [] := ⟨List.nodup_nil, List.nodup_nil⟩

theorem membersWF_snoc {ms : List Member} {m : Member} (h : MembersWF ms) (ha : attrFree ms m.attr = true)
    (hk : keyFree ms m.key = true) : MembersWF (ms ++ [m]) := by
  obtain ⟨h1, h2⟩ := h
  constructor
  · rw [List.map_append, List.nodup_append]
    refine ⟨h1, by simp, ?_⟩
    intro x hx y hy
    simp only [List.map_cons, List.map_nil, List.mem_singleton] at hy
    subst hy
    intro e
    subst e
    unfold attrFree at ha
    simp only [Bool.not_eq_true', List.any_eq_false, beq_iff_eq] at ha
    obtain ⟨m', hm', e⟩ := List.mem_map.1 hx
    exact ha m' hm' e
  · unfold memberKeys at h2 ⊢
    rw [List.filter_append, List.map_append, List.nodup_append]
    refine ⟨h2, ?_, ?_⟩
    · by_cases ht : truthyKey m.key = true <;> simp [ht]
    · intro x hx y hy
      by_cases ht : truthyKey m.key = true
      · simp only [List.filter_cons, ht, ↓reduceIte, List.filter_nil, List.map_cons, List.map_nil,
          List.mem_singleton] at hy
        subst hy
        intro e
        subst e
        unfold keyFree at hk
        simp only [ht, Bool.true_and, Bool.not_eq_true', List.any_eq_false, beq_iff_eq] at hk
        obtain ⟨m', hm', e⟩ := List.mem_map.1 hx
        exact hk m' (List.mem_filter.1 hm').1 e
      · simp [ht] at hy

theorem memberElemOK_adds_wf {env : Env} {strict : Bool} {parent pfx kt : Str} {names : List Str} {ms : List Member} {t : Str}
    {a : Attrs} {c : List Node} (h : MembersWF ms) (hok : memberElemOK env strict parent pfx kt names ms t a c = true) :
    MembersWF (ms ++ memberElemAdds env kt t a c) := by
  unfold memberElemOK at hok
  simp only [Bool.and_eq_true] at hok
  obtain ⟨_, hok⟩ := hok
  unfold memberElemAdds
  by_cases hk : isKeyTag t = true
  · rw [if_pos hk] at hok ⊢
    unfold keyOK at hok
    simp only [Bool.and_eq_true] at hok
    obtain ⟨⟨⟨⟨⟨⟨⟨⟨_, rkey⟩, rattr⟩, _⟩, _⟩, _⟩, _⟩, _⟩, _⟩ := hok
    exact membersWF_snoc h rattr rkey
  · rw [if_neg hk] at hok ⊢
    by_cases hs : isSectTag t = true
    · rw [if_pos hs] at hok ⊢
      unfold sectionOK at hok
      simp only [Bool.and_eq_true] at hok
      obtain ⟨⟨⟨⟨_, rkey⟩, rattr⟩, _⟩, _⟩ := hok
      exact membersWF_snoc h rattr rkey
    · rw [if_neg hs]
      rw [List.append_nil]
      exact h

theorem membersOK_wf {env : Env} {strict : Bool} {parent pfx kt : Str} {names : List Str} :
    ∀ (c : List Node) (ms : List Member), MembersWF ms → membersOK env strict parent pfx kt names ms c = true →
      MembersWF (ms ++ membersOf env kt c)
  | [], ms, h, _ => by rw [membersOf, List.append_nil]; exact h
  | .text s :: r, ms, h, hok => by
    rw [membersOK] at hok
    simp only [Bool.and_eq_true] at hok
    rw [membersOf]
    exact membersOK_wf r ms h hok.2
  | .elem t a c :: r, ms, h, hok => by
    rw [membersOK] at hok
    simp only [Bool.and_eq_true] at hok
    rw [membersOf, ← List.append_assoc]
    exact membersOK_wf r _ (memberElemOK_adds_wf h hok.1) hok.2

/-! ### type declarations -/

/-- every concrete type of the signature has well-formed members -/
def CtxWF (Γ : Ctx) : Prop := ∀ n kt ms, (n, TySig.concrete kt ms) ∈ Γ → MembersWF ms

/-- the names are pairwise distinct and the members of the concrete types are well formed -/
def SigWF (Γ : Ctx) : Prop := Γ.names.Nodup ∧ CtxWF Γ

theorem sigWF_nil : SigWF [] := ⟨List.nodup_nil, fun _ _ _ hm => by cases hm⟩

/-- components that obey the rules keep the signature well formed -/
def BelowWF (b : Below) : Prop :=
  ∀ Γ comps tree, b.ok Γ comps tree = true → SigWF Γ → SigWF (b.after Γ comps tree).1

theorem lookup_mem {Γ : Ctx} {n : Str} {sig : TySig} (h : Γ.lookup n = some sig) : ∃ k, (k, sig) ∈ Γ := by
  unfold Ctx.lookup at h
  cases hf : Γ.find? (·.1 == n) with
  | none => rw [hf] at h; cases h
  | some p =>
    rw [hf] at h
    simp only [Option.map_some, Option.some.injEq] at h
    subst h
    exact ⟨p.1, List.mem_of_find?_eq_some hf⟩

theorem inheritedOf_wf {Γ : Ctx} {a : Attrs} (h : CtxWF Γ) : MembersWF (inheritedOf Γ a) := by
  unfold inheritedOf baseOf
  cases hx : attr a "extends" with
  | none => exact membersWF_nil
  | some b =>
    simp only
    cases hl : Γ.lookup (asciiLower b) with
    | none => exact membersWF_nil
    | some sig =>
      cases sig with
      | abstract => exact membersWF_nil
      | concrete kt ms =>
        obtain ⟨k, hk⟩ := lookup_mem hl
        exact h k kt ms hk

theorem sectiontypeOK_sig_wf {env : Env} {strict : Bool} {outer : Str} {Γ : Ctx} {a : Attrs} {c : List Node}
    (h : CtxWF Γ) (hok : sectiontypeOK env strict outer Γ a c = true) :
    ∀ kt ms, sectiontypeSig env outer Γ a c = .concrete kt ms → MembersWF ms := by
  intro kt ms hsig
  unfold sectiontypeSig at hsig
  injection hsig with _ hms
  subst hms
  unfold sectiontypeOK at hok
  simp only [Bool.and_eq_true] at hok
  exact membersOK_wf c _ (inheritedOf_wf h) hok.1.2

theorem sigWF_snoc {Γ : Ctx} {a : Attrs} {sig : TySig} (h : SigWF Γ) (hn : typeNameOK Γ a = true)
    (hs : ∀ kt ms, sig = .concrete kt ms → MembersWF ms) : SigWF (Γ ++ [(typeNameOf a, sig)]) := by
  obtain ⟨h1, h2⟩ := h
  constructor
  · unfold typeNameOK at hn
    simp only [Bool.and_eq_true, Bool.not_eq_true'] at hn
    show (List.map (·.1) (Γ ++ [(typeNameOf a, sig)])).Nodup
    rw [List.map_append, List.nodup_append]
    refine ⟨h1, by simp, ?_⟩
    intro x hx y hy
    simp only [List.map_cons, List.map_nil, List.mem_singleton] at hy
    subst hy
    intro e
    subst e
    have := List.contains_iff_mem.mpr hx
    rw [show Γ.names = List.map (·.1) Γ from rfl] at hn
    rw [this] at hn
    cases hn.2
  · intro n kt' ms' hm
    rcases List.mem_append.1 hm with hm | hm
    · exact h2 n kt' ms' hm
    · simp only [List.mem_singleton, Prod.mk.injEq] at hm
      exact hs kt' ms' hm.2.symm

theorem importAfter_wf {env : Env} {below : Below} {pfx : Str} {Γ : Ctx} {comps : List Str} {a : Attrs}
    {c : List Node} (hb : BelowWF below) (h : SigWF Γ) (hok : importOK env below pfx Γ comps a c = true) :
    SigWF (importAfter env below pfx Γ comps a).1 := by
  unfold importAfter
  by_cases hin : comps.contains (importSrc pfx a) = true
  · rw [if_pos hin]; exact h
  · rw [if_neg hin]
    have hin' : comps.contains (importSrc pfx a) = false := by simpa using hin
    unfold importOK at hok
    simp only [Bool.and_eq_true] at hok
    cases hx : env.comps (importPkg pfx a) (importFileOf a) with
    | notImportable => exact h
    | notPackage => exact h
    | noFile => exact h
    | doc tree =>
      have := hok.2
      rw [hx] at this
      simp only [hin', Bool.false_or] at this
      exact hb Γ _ tree this h

theorem topItemsOK_facts {env : Env} {below : Below} {strict : Bool} {parent pfx kt : Str} (hb : BelowWF below) :
    ∀ (c : List Node) (Γ : Ctx) (comps : List Str) (ms : List Member),
      topItemsOK env below strict parent pfx kt Γ comps ms c = true → SigWF Γ → MembersWF ms →
      SigWF (topAfter env below pfx Γ comps c).1 ∧ MembersWF (ms ++ membersOf env kt c)
  | [], Γ, comps, ms, _, h1, h3 => by
    refine ⟨by rw [topAfter]; exact h1, by rw [membersOf, List.append_nil]; exact h3⟩
  | .text s :: r, Γ, comps, ms, hok, h1, h3 => by
    rw [topItemsOK] at hok
    simp only [Bool.and_eq_true] at hok
    rw [topAfter, membersOf]
    exact topItemsOK_facts hb r Γ comps ms hok.2 h1 h3
  | .elem t a c :: r, Γ, comps, ms, hok, h1, h3 => by
    rw [topItemsOK] at hok
    rw [topAfter, membersOf]
    have hadds : ∀ tag : Str, isKeyTag tag = false → isSectTag tag = false → t = tag →
        memberElemAdds env kt t a c = [] := by
      intro tag e1 e2 ht
      subst ht
      unfold memberElemAdds
      simp only [e1, e2, Bool.false_eq_true, ↓reduceIte]
    by_cases hab : (t == "abstracttype".toList) = true
    · rw [if_pos hab] at hok ⊢
      simp only [Bool.and_eq_true] at hok
      obtain ⟨⟨_, hok1⟩, hokr⟩ := hok
      have hn : typeNameOK Γ a = true := by
        unfold abstracttypeOK at hok1
        simp only [Bool.and_eq_true] at hok1
        exact hok1.1.1
      obtain ⟨g1, g3⟩ := topItemsOK_facts hb r _ comps ms hokr
        (sigWF_snoc h1 hn (fun _ _ hc => by cases hc)) h3
      refine ⟨g1, ?_⟩
      rw [hadds "abstracttype".toList (by decide +kernel) (by decide +kernel) (by simpa using hab), List.nil_append]
      exact g3
    · rw [if_neg hab] at hok ⊢
      by_cases hst : (t == "sectiontype".toList) = true
      · rw [if_pos hst] at hok ⊢
        simp only [Bool.and_eq_true] at hok
        obtain ⟨⟨_, hok1⟩, hokr⟩ := hok
        have hn : typeNameOK Γ a = true := by
          unfold sectiontypeOK at hok1
          simp only [Bool.and_eq_true] at hok1
          exact hok1.1.1.1.1.1.1.1.1.1
        obtain ⟨g1, g3⟩ := topItemsOK_facts hb r _ comps ms hokr
          (sigWF_snoc h1 hn (sectiontypeOK_sig_wf h1.2 hok1)) h3
        refine ⟨g1, ?_⟩
        rw [hadds "sectiontype".toList (by decide +kernel) (by decide +kernel) (by simpa using hst), List.nil_append]
        exact g3
      · rw [if_neg hst] at hok ⊢
        by_cases him : (t == "import".toList) = true
        · rw [if_pos him] at hok ⊢
          simp only [Bool.and_eq_true] at hok
          obtain ⟨⟨_, hok1⟩, hokr⟩ := hok
          obtain ⟨g1, g3⟩ := topItemsOK_facts hb r _ _ ms hokr (importAfter_wf hb h1 hok1) h3
          refine ⟨g1, ?_⟩
          rw [hadds "import".toList (by decide +kernel) (by decide +kernel) (by simpa using him), List.nil_append]
          exact g3
        · rw [if_neg him] at hok ⊢
          simp only [Bool.and_eq_true] at hok
          obtain ⟨hok1, hokr⟩ := hok
          obtain ⟨g1, g3⟩ := topItemsOK_facts hb r Γ comps _ hokr h1 (memberElemOK_adds_wf h3 hok1)
          exact ⟨g1, by rw [← List.append_assoc]; exact g3⟩

/-- components nested `n` deep that obey the rules keep the signature well formed -/
theorem belowWF_level (env : Env) : ∀ n, BelowWF (level env n)
  | 0 => by intro Γ comps tree hok _; cases hok
  | n + 1 => by
    intro Γ comps tree hok hwf
    cases tree with
    | text s => exact hwf
    | elem t a c =>
      have hok' : componentOK env (level env n) Γ comps (.elem t a c) = true := hok
      unfold componentOK at hok'
      simp only [Bool.and_eq_true] at hok'
      exact (topItemsOK_facts (belowWF_level env n) c Γ comps [] hok'.2 hwf membersWF_nil).1

/-- in a document that satisfies the rules, the names of all types of the final signature — declared by the document or
by a component it imports — are pairwise distinct, and every concrete type has pairwise distinct attribute names and
(non-empty) keys among its members, those inherited from its base included -/
theorem docRules_signature_wf {env : Env} {n : Nat} {t : Str} {a : Attrs} {c : List Node}
    (h : DocRulesN env n .schema (.elem t a c)) :
    SigWF (topAfter env (level env n) (prefixOf none a) [] [] c).1 := by
  have h' : (t == Gen.schemaTopLevel && schemaRootOK env (level env n) a c) = true := h
  unfold schemaRootOK at h'
  simp only [Bool.and_eq_true] at h'
  exact (topItemsOK_facts (belowWF_level env n) c [] [] [] h'.2.1.2 sigWF_nil membersWF_nil).1

/-- …and so has the top-level container -/
theorem docRules_top_wf {env : Env} {n : Nat} {t : Str} {a : Attrs} {c : List Node}
    (h : DocRulesN env n .schema (.elem t a c)) :
    MembersWF (membersOf env (keytypeOf env (prefixOf none a) a none) c) := by
  have h' : (t == Gen.schemaTopLevel && schemaRootOK env (level env n) a c) = true := h
  unfold schemaRootOK at h'
  simp only [Bool.and_eq_true] at h'
  have := (topItemsOK_facts (belowWF_level env n) c [] [] [] h'.2.1.2 sigWF_nil membersWF_nil).2
  simpa using this

end ZCV.SchemaRules
