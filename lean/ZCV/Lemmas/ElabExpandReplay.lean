import ZCV.Lemmas.ElabExpandElem
/-!
C11 (`extends` = written-out expansion), step 6: the key lemma.  Re-reading the inherited elements of a section type on
another container that agrees with the original one (same children so far, same key type, same prefix, a type table
that extends the original one) reproduces the children of the original (`replay`).
-/
namespace ZCV.Elab
open ZCV ZCV.Cfg

/-! ### flags on a type do not change what the handlers see -/

theorem topOf_updType_flag (es : ES) (n : Str) (f : EType → EType) (hf : ∀ t, (f t).children = t.children)
    (stack : List Frame) : topOf (es.updType n f) stack = topOf es stack := by
  cases stack with
  | nil => rfl
  | cons fr rest =>
    cases fr with
    | schema => rfl
    | stype m =>
      unfold topOf ES.updType
      simp only
      rw [find_map_key _ _ (by intro ⟨k, e⟩; dsimp only; split <;> rfl)]
      cases hfind : es.types.find? (·.1 == m) with
      | none => rfl
      | some q =>
        obtain ⟨k, e⟩ := q
        simp only [Option.map_some]
        by_cases hk : (k == n) = true
        · simp only [hk, ↓reduceIte]
          cases e with
          | concrete t => simp only [hf]
          | abstract_ a b c => rfl
        · simp only [hk, Bool.false_eq_true, ↓reduceIte]
    | atype m => rfl
    | key k => rfl
    | sect a b => rfl

theorem ktOf_updType_flag (es : ES) (n : Str) (f : EType → EType) (hf : ∀ t, (f t).keytype = t.keytype)
    (stack : List Frame) : ktOf (es.updType n f) stack = ktOf es stack := by
  cases stack with
  | nil => rfl
  | cons fr rest =>
    cases fr with
    | schema => rfl
    | stype m =>
      unfold ktOf ES.updType
      simp only
      rw [find_map_key _ _ (by intro ⟨k, e⟩; dsimp only; split <;> rfl)]
      cases hfind : es.types.find? (·.1 == m) with
      | none => rfl
      | some q =>
        obtain ⟨k, e⟩ := q
        simp only [Option.map_some]
        by_cases hk : (k == n) = true
        · simp only [hk, ↓reduceIte]
          cases e with
          | concrete t => simp only [hf]
          | abstract_ a b c => rfl
        · simp only [hk, Bool.false_eq_true, ↓reduceIte]
    | atype m => rfl
    | key k => rfl
    | sect a b => rfl

/-- a state that differs from `sb` by flags of a type only -/
structure FlagsOnly (sb sb1 : PSt) : Prop where
  stack : sb1.stack = sb.stack
  prefixes : sb1.prefixes = sb.prefixes
  top : topOf sb1.es sb.stack = topOf sb.es sb.stack
  kt : ktOf sb1.es sb.stack = ktOf sb.es sb.stack
  names : sb1.es.types.map (·.1) = sb.es.types.map (·.1)

theorem FlagsOnly.refl (sb : PSt) : FlagsOnly sb sb := ⟨rfl, rfl, rfl, rfl, rfl⟩

theorem FlagsOnly.updType (sb : PSt) (n : Str) (f : EType → EType) (h1 : ∀ t, (f t).children = t.children)
    (h2 : ∀ t, (f t).keytype = t.keytype) : FlagsOnly sb { sb with es := sb.es.updType n f } :=
  ⟨rfl, rfl, topOf_updType_flag _ _ _ h1 _, ktOf_updType_flag _ _ _ h2 _, names_updType _ _ _⟩

theorem FlagsOnly.sim {sb sb1 sd : PSt} (hf : FlagsOnly sb sb1) (hs : SimTop sb sd) : SimTop sb1 sd := by
  obtain ⟨ch, h1, h2⟩ := hs.ch
  refine ⟨⟨ch, by rw [hf.stack, hf.top]; exact h1, h2⟩, by rw [hf.stack, hf.kt]; exact hs.kt, by rw [hf.prefixes]; exact hs.pre, ?_⟩
  unfold Grows
  rw [hf.names]
  exact hs.grows

/-- `description` / `example` of a section type only set flags of that type -/
theorem stypeCdata_flags {c : Bool} {tag : Str} {attrs : Attrs} {data : Str} {sb sb1 : PSt} {B : Str} {r : List Frame}
    (hs : sb.stack = .stype B :: r) (h : charactersTag c tag attrs data sb = .ok sb1) : FlagsOnly sb sb1 := by
  unfold charactersTag at h
  rcases ite_ok h with ⟨_, h⟩ | ⟨_, h⟩
  · rw [hs] at h; cases h
  rcases ite_ok h with ⟨_, h⟩ | ⟨_, h⟩
  · unfold markDesc at h
    rw [hs] at h
    dsimp only at h
    split at h
    · rcases ite_ok h with ⟨_, h⟩ | ⟨_, h⟩
      · cases h
      · injection h with h; subst h
        refine ⟨hs.symm, rfl, ?_, ?_, names_updType _ _ _⟩
        · apply topOf_updType_flag; intro t; rfl
        · apply ktOf_updType_flag; intro t; rfl
    · cases h
  rcases ite_ok h with ⟨_, h⟩ | ⟨_, h⟩
  · unfold markExample at h
    rw [hs] at h
    dsimp only at h
    split at h
    · rcases ite_ok h with ⟨_, h⟩ | ⟨_, h⟩
      · cases h
      · injection h with h; subst h
        refine ⟨hs.symm, rfl, ?_, ?_, names_updType _ _ _⟩
        · apply topOf_updType_flag; intro t; rfl
        · apply ktOf_updType_flag; intro t; rfl
    · cases h
  rcases ite_ok h with ⟨_, h⟩ | ⟨_, h⟩
  · injection h with h; subst h; exact FlagsOnly.refl _
  · cases h

set_option linter.unusedSimpArgs false in
/-- below `<sectiontype>`: an inherited element, or `description` / `example` -/
theorem stype_child_cases {ck : CK} {t : Str} (hc : compat .stype ck = true) (ht : (t, ck) ∈ ckTable) (d : DocKind) :
    inheritedTags.contains t = true ∨
      (Gen.cdataTags.contains t = true ∧ t ≠ d.topLevel ∧ d.handled.contains t = false) := by
  simp only [ckTable, List.mem_cons, Prod.mk.injEq, List.not_mem_nil, or_false] at ht
  rcases ht with ⟨rfl, rfl⟩ | ⟨rfl, rfl⟩ | ⟨rfl, rfl⟩ | ⟨rfl, rfl⟩ | ⟨rfl, rfl⟩ | ⟨rfl, rfl⟩ | ⟨rfl, rfl⟩ | ⟨rfl, rfl⟩ |
      ⟨rfl, rfl⟩ | ⟨rfl, rfl⟩ | ⟨rfl, rfl⟩ <;>
  first
    | (simp [compat, CK.container, CK.decl] at hc; done)
    | (left; decide)
    | (right; refine ⟨by decide, ?_, ?_⟩ <;> cases d <;> simp only [DocKind.topLevel, DocKind.handled] <;> decide)

/-- `sd'` is `sd` with (possibly) another list of children in the container on top of the stack -/
def TopUpd (sd sd' : PSt) : Prop := sd' = sd ∨ ∃ cs, sd' = { sd with es := setTopOf sd.es sd.stack cs }

theorem TopUpd.trans {a b c : PSt} (h1 : TopUpd a b) (h2 : TopUpd b c) : TopUpd a c := by
  rcases h1 with rfl | ⟨c1, rfl⟩
  · exact h2
  · rcases h2 with rfl | ⟨c2, rfl⟩
    · exact Or.inr ⟨c1, rfl⟩
    · refine Or.inr ⟨c2, ?_⟩
      dsimp only
      rw [setTopOf_setTopOf]

/-- the container on top of the stack has key type `kt`, and the defaults of its `+` keys were computed under `kt` -/
def TopComputed (env : Env) (kt : Str) (sb : PSt) : Prop :=
  ktOf sb.es sb.stack = .ok kt ∧ ∀ ch, topOf sb.es sb.stack = .ok ch → ComputedUnder env kt ch

theorem TopComputed.append {env : Env} {kt : Str} {sb : PSt} {ch : List (Option Str × EInfo)} {key : Option Str}
    {info : EInfo} (h : TopComputed env kt sb) (htop : topOf sb.es sb.stack = .ok ch)
    (hfix : FixedUnder env (ktOf sb.es sb.stack) info) :
    TopComputed env kt { sb with es := setTopOf sb.es sb.stack (ch ++ [(key, info)]) } := by
  refine ⟨by show ktOf (setTopOf _ _ _) sb.stack = _; rw [ktOf_setTopOf]; exact h.1, ?_⟩
  intro ch' hch'
  have : topOf (setTopOf sb.es sb.stack (ch ++ [(key, info)])) sb.stack = .ok ch' := hch'
  rw [topOf_setTopOf htop] at this
  injection this with this
  subst this
  intro c hc k hk hname
  rcases List.mem_append.mp hc with hc | hc
  · exact h.2 ch htop c hc k hk hname
  · simp only [List.mem_singleton] at hc
    subst hc
    obtain ⟨kt', hkt', hcd⟩ := hfix k hk hname
    rw [h.1] at hkt'
    injection hkt' with hkt'
    subst hkt'
    exact hcd

theorem TopComputed.flags {env : Env} {kt : Str} {sb sb1 : PSt} (h : TopComputed env kt sb) (hf : FlagsOnly sb sb1) :
    TopComputed env kt sb1 := by
  refine ⟨by rw [hf.stack, hf.kt]; exact h.1, ?_⟩
  intro ch hch
  rw [hf.stack, hf.top] at hch
  exact h.2 ch hch

/-- **Replay.**  If the children `c` of a section type were read successfully from `sb`, then reading the inherited
    ones among them from a state `sd` that agrees with `sb` on the container on top of the stack succeeds too, only
    changes the children of that container, and leaves the two containers in agreement — in particular with the same
    list of children.  Moreover the defaults of all `+` keys of the container stay "computed under its key type". -/
theorem replay {env : Env} {h : Hooks} {d : DocKind} {p : Str} (hp : pkOfB (isComp d) p = some .stype) (kt : Str) :
    ∀ (c : List Node) (sb sb' sd : PSt), SimTop sb sd → (∃ B r, sb.stack = .stype B :: r) → TopComputed env kt sb →
      visitChildren env h d p sb c = .ok sb' →
      ∃ sd', visitChildren env h d p sd (inheritedChildren c) = .ok sd' ∧ SimTop sb' sd' ∧ TopUpd sd sd' ∧
        TopComputed env kt sb' ∧ sb'.stack = sb.stack
  | [], sb, sb', sd, hs, _, hc, hv => by
    unfold visitChildren at hv
    injection hv with hv
    subst hv
    exact ⟨sd, by unfold inheritedChildren visitChildren; rfl, hs, Or.inl rfl, hc, rfl⟩
  | .text s :: r, sb, sb', sd, hs, hB, hc, hv => by
    unfold visitChildren at hv
    rcases ite_ok hv with ⟨_, hv⟩ | ⟨_, hv⟩
    · unfold inheritedChildren
      exact replay hp kt r sb sb' sd hs hB hc hv
    · cases hv
  | .elem t a c0 :: r, sb, sb', sd, hs, hB, hc, hv => by
    unfold visitChildren at hv
    cases he : visitElem env h d (some p) sb (.elem t a c0) with
    | error e => simp only [he] at hv; cases hv
    | ok sb1 =>
      simp only [he] at hv
      have hn := (visitElem_cases he).1 p rfl
      obtain ⟨ck, hck, hcomp⟩ := nesting_compat hn hp
      obtain ⟨B, rB, hBs⟩ := hB
      rcases stype_child_cases hcomp (ckOf_tag hck) d with hin | ⟨hcd, hnt, hnh⟩
      · obtain ⟨sd1, hd1, hsame⟩ := containerElem_sim hin hs he
        have hs1 := hsame.sim hs
        obtain ⟨ch, key, info, htop, e1, e2, hfix⟩ := hsame
        have hB1 : ∃ B r, sb1.stack = .stype B :: r := ⟨B, rB, by rw [e1]; exact hBs⟩
        have hc1 : TopComputed env kt sb1 := by rw [e1]; exact hc.append htop hfix
        obtain ⟨sd', hd', hs', hu', hc', hst'⟩ := replay hp kt r sb1 sb' sd1 hs1 hB1 hc1 hv
        refine ⟨sd', ?_, hs', ?_, hc', by rw [hst', e1]⟩
        · unfold inheritedChildren
          simp only [hin, ↓reduceIte]
          unfold visitChildren
          simp only [hd1]
          exact hd'
        · exact TopUpd.trans (Or.inr ⟨_, e2⟩) hu'
      · rw [visitElem_cdata_eq hn hnt hnh hcd, bind_ok] at he
        obtain ⟨data, _, hch⟩ := he
        have hfl := stypeCdata_flags hBs hch
        have hnin : inheritedTags.contains t = false := by
          rcases cdataTags_cases hcd with rfl | rfl | rfl | rfl <;> decide
        obtain ⟨sd', hd', hs', hu', hc', hst'⟩ :=
          replay hp kt r sb1 sb' sd (hfl.sim hs) ⟨B, rB, by rw [hfl.stack]; exact hBs⟩ (hc.flags hfl) hv
        refine ⟨sd', ?_, hs', hu', hc', by rw [hst', hfl.stack]⟩
        unfold inheritedChildren
        simp only [hnin, Bool.false_eq_true, ↓reduceIte]
        exact hd'

theorem visitChildren_nil {env : Env} {h : Hooks} {d : DocKind} {p : Str} (st : PSt) :
    visitChildren env h d p st [] = .ok st := by unfold visitChildren; rfl

theorem x3_visitChildren_text {env : Env} {h : Hooks} {d : DocKind} {p : Str} (st : PSt) (s : Str) (r : List Node) :
    visitChildren env h d p st (.text s :: r) =
      if (strip s).isEmpty then visitChildren env h d p st r else serr "unexpected non-blank character data" := by
  conv => lhs; unfold visitChildren

theorem visitChildren_elem {env : Env} {h : Hooks} {d : DocKind} {p : Str} (st : PSt) (t : Str) (a : Attrs)
    (c r : List Node) :
    visitChildren env h d p st (.elem t a c :: r) =
      (visitElem env h d (some p) st (.elem t a c) >>= fun st' => visitChildren env h d p st' r) := by
  conv => lhs; unfold visitChildren
  cases visitElem env h d (some p) st (.elem t a c) <;> rfl

theorem visitChildren_append {env : Env} {h : Hooks} {d : DocKind} {p : Str} :
    ∀ (l1 l2 : List Node) (st : PSt),
      visitChildren env h d p st (l1 ++ l2) = (visitChildren env h d p st l1 >>= fun st1 => visitChildren env h d p st1 l2)
  | [], l2, st => by
    rw [List.nil_append, visitChildren_nil]
    rfl
  | .text s :: r, l2, st => by
    rw [List.cons_append, x3_visitChildren_text, x3_visitChildren_text]
    by_cases hb : (strip s).isEmpty = true
    · simp only [hb, ↓reduceIte]
      exact visitChildren_append r l2 st
    · simp only [hb, Bool.false_eq_true, ↓reduceIte]
      rfl
  | .elem t a c :: r, l2, st => by
    rw [List.cons_append, visitChildren_elem, visitChildren_elem]
    cases visitElem env h d (some p) st (.elem t a c) with
    | error e => rfl
    | ok st1 =>
      simp only [bind, Except.bind]
      exact visitChildren_append r l2 st1

end ZCV.Elab
