import ZCV.Lemmas.UrlPathJoin
/-! From URL text back to path text: segments that can be decoded one by one, and `urljoin` read at path level. -/
namespace ZCV.UrlPath
open ZCV
open ZCV.UrlPathSpec (step normalize resolve isName render)

/-! ## `step` commutes with a map that respects `..`, `.`, `""` -/

/-- `f` does not confuse a segment with `..`, `.` or the empty segment -/
def Respects (f : Str → Str) (x : Str) : Prop :=
  (f x = ['.', '.'] ↔ x = ['.', '.']) ∧ (f x = ['.'] ↔ x = ['.']) ∧ (f x = [] ↔ x = [])

theorem up_step_map (f : Str → Str) (st : List Str) (x : Str) (h : Respects f x) :
    step (st.map f) (f x) = (step st x).map f := by
  obtain ⟨h1, h2, h3⟩ := h
  unfold step
  by_cases e1 : x = ['.', '.']
  · rw [if_pos (h1.2 e1), if_pos e1, List.map_dropLast]
  · rw [if_neg (fun e => e1 (h1.1 e)), if_neg e1]
    by_cases e2 : x = ['.'] ∨ x = []
    · rw [if_pos e2, if_pos (by rcases e2 with e | e; exact Or.inl (h2.2 e); exact Or.inr (h3.2 e))]
    · rw [if_neg e2, if_neg (by intro hh; rcases hh with e | e; exact e2 (Or.inl (h2.1 e)); exact e2 (Or.inr (h3.1 e)))]
      simp

theorem up_foldl_step_map (f : Str → Str) (st xs : List Str) (h : ∀ x ∈ xs, Respects f x) :
    (xs.map f).foldl step (st.map f) = (xs.foldl step st).map f := by
  induction xs generalizing st with
  | nil => rfl
  | cons a t ih =>
    rw [List.map_cons, List.foldl_cons, List.foldl_cons, up_step_map f st a (h a (by simp)),
      ih _ (fun x hx => h x (by simp [hx]))]

theorem up_resolve_map (f : Str → Str) (a b : List Str) (h : ∀ x ∈ a ++ b, Respects f x) :
    resolve (a.map f) (b.map f) = (resolve a b).map f := by
  unfold resolve normalize
  rw [← List.map_append]
  exact up_foldl_step_map f [] (a ++ b) h

theorem up_isName_map (f : Str → Str) (x : Str) (h : Respects f x) : isName (f x) = isName x := by
  obtain ⟨h1, h2, h3⟩ := h
  unfold isName
  rw [Bool.eq_iff_iff]
  simp only [Bool.and_eq_true, bne_iff_ne, ne_eq, h1, h2, h3]

/-! ## segments that decode on their own -/

/-- a URL path segment (clean characters, no slash) whose decoding does not depend on what follows and that is
    `..`, `.` or empty exactly when its decoding is -/
def GoodSeg (u : Str) : Prop :=
  Enc u (unquote u) ∧ (∀ c ∈ u, segChar c = true) ∧ Respects unquote u

theorem up_ceq (c d : Char) : (c == d) = (c.toNat == d.toNat) := by
  rw [Bool.eq_iff_iff]
  simp only [beq_iff_eq, Char.toNat_inj]

theorem up_cne (c d : Char) : (c != d) = (c.toNat != d.toNat) := by
  simp only [bne, up_ceq]

theorem up_quotedChar_clean (c : Char) (h : quotedChar c = true) :
    cleanChar c = true ∧ c0OrSpace c = false ∧ c ≠ ':' := by
  unfold quotedChar safeByte at h
  unfold cleanChar c0OrSpace tabCrLf
  have hcol : c ≠ ':' ↔ c.toNat ≠ 58 := by
    rw [ne_eq, ne_eq, ← Char.toNat_inj]; rfl
  rw [hcol]
  simp only [up_ceq, up_cne, Char.reduceToNat, Bool.or_eq_true, Bool.and_eq_true, decide_eq_true_eq, beq_iff_eq,
    bne_iff_ne, ne_eq, Bool.not_eq_true', Bool.or_eq_false_iff, beq_eq_false_iff_ne, decide_eq_false_iff_not] at h ⊢
  omega

theorem up_quote_noslash (p : Str) (h : '/' ∉ p) : '/' ∉ quote p := by
  induction p with
  | nil => simp [up_quote_nil]
  | cons c t ih =>
    rw [up_quote_cons]
    intro hm
    simp only [List.mem_append] at hm
    rcases hm with hm | hm
    · exact up_quote_single_noslash c (fun e => h (by simp [e])) hm
    · exact ih (fun e => h (by simp [e])) hm

theorem up_unquote_raw (u : Str) (h : '%' ∉ u) : unquote u = u := by
  unfold unquote
  rw [up_contains_false _ _ h]
  simp only [Bool.false_eq_true, ↓reduceIte]

theorem up_respects_quote (p : Str) : Respects quote p :=
  ⟨up_quote_eq_dotdot p, up_quote_eq_dot p, up_quote_eq_nil p⟩

/-- a quoted path segment -/
theorem up_goodSeg_quote (p : Str) (h : '/' ∉ p) : GoodSeg (quote p) := by
  refine ⟨?_, ?_, ?_⟩
  · rw [up_unquote_quote]; exact up_enc_quote p
  · intro c hc
    unfold segChar
    rw [(up_quotedChar_clean c (up_quote_chars p c hc)).1, Bool.true_and]
    simp only [bne_iff_ne, ne_eq]
    intro e; subst e
    exact up_quote_noslash p h hc
  · unfold Respects
    rw [up_unquote_quote]
    exact ⟨(up_quote_eq_dotdot p).symm, (up_quote_eq_dot p).symm, (up_quote_eq_nil p).symm⟩

/-- a segment written as it is: clean characters, no slash, no percent sign -/
theorem up_goodSeg_raw (u : Str) (h1 : ∀ c ∈ u, segChar c = true) (h2 : '%' ∉ u) : GoodSeg u := by
  refine ⟨?_, h1, ?_⟩
  · rw [up_unquote_raw u h2]; exact up_enc_raw u h2
  · unfold Respects
    rw [up_unquote_raw u h2]
    exact ⟨Iff.rfl, Iff.rfl, Iff.rfl⟩

theorem up_goodSeg_nil : GoodSeg [] := up_goodSeg_raw [] (by simp) (by simp)

theorem up_unquote_nil : unquote [] = [] := rfl

/-- good segments joined by slashes decode segment by segment -/
theorem up_enc_joinWith (l : List Str) (h : ∀ u ∈ l, GoodSeg u) :
    Enc (joinWith '/' l) (joinWith '/' (l.map unquote)) := by
  induction l with
  | nil => exact up_enc_nil
  | cons a t ih =>
    cases t with
    | nil => exact (h a (by simp)).1
    | cons b t =>
      show Enc (a ++ (['/'] ++ joinWith '/' (b :: t)))
        (unquote a ++ (['/'] ++ joinWith '/' (List.map unquote (b :: t))))
      exact up_enc_append (h a (by simp)).1 (up_enc_append up_enc_slash (ih (fun u hu => h u (by simp [hu]))))

theorem up_urlToPath_file (x : Str) : urlToPath (fileSlashes ++ x) = unquote x := rfl

/-- what resolution leaves are good segments when what went in were -/
theorem up_resolve_good (a b : List Str) (h : ∀ u ∈ a ++ b, GoodSeg u) : ∀ u ∈ resolve a b, GoodSeg u := by
  intro u hu
  exact h u (up_normalize_names _ u hu).1

/-- **joining at path level**: the file the joined URL names is the lexical resolution of the decoded reference
    segments against the decoded directory segments -/
theorem up_join_paths (dus : List Str) (fu : Str) (rinit : List Str) (rlast : Str)
    (hd : ∀ u ∈ dus, GoodSeg u) (hf : ∀ c ∈ fu, segChar c = true)
    (hr : ∀ u ∈ rinit ++ [rlast], GoodSeg u)
    (hl : isName rlast = true)
    (h0 : ∀ c, (joinWith '/' (rinit ++ [rlast])).head? = some c → c0OrSpace c = false ∧ c ≠ '/')
    (hns : ∀ c ∈ (joinWith '/' (rinit ++ [rlast])).takeWhile (· != '/'), c ≠ ':') :
    urlToPath (join (fileSlashes ++ joinWith '/' (([] :: dus) ++ [fu])) (joinWith '/' (rinit ++ [rlast]))) =
      render (resolve (([] :: dus).map unquote) ((rinit ++ [rlast]).map unquote)) := by
  have hall : ∀ u ∈ ([] :: dus) ++ (rinit ++ [rlast]), GoodSeg u := by
    intro u hu
    simp only [List.cons_append, List.mem_cons, List.mem_append] at hu
    rcases hu with rfl | hu | hu
    · exact up_goodSeg_nil
    · exact hd u hu
    · exact hr u (by simpa using hu)
  rw [up_join_segments dus fu rinit rlast (fun s hs => (hd s hs).2.1) hf (fun s hs => (hr s hs).2.1) hl h0 hns,
    up_urlToPath_file]
  have e1 : '/' :: joinWith '/' (resolve ([] :: dus) (rinit ++ [rlast])) =
      ['/'] ++ joinWith '/' (resolve ([] :: dus) (rinit ++ [rlast])) := rfl
  rw [e1, up_unquote_of_enc (up_enc_append up_enc_slash (up_enc_joinWith _ (up_resolve_good _ _ hall))),
    ← up_resolve_map unquote _ _ (fun x hx => (hall x hx).2.2)]
  unfold render
  rw [up_unsegments_eq]
  rfl

/-- **nested joining at path level**: joining `r2` to the result of joining `r1` resolves `r2` against the
    directory of the base followed by the directory part of `r1` -/
theorem up_join_nested_paths (dus : List Str) (fu : Str) (r1init : List Str) (r1last : Str)
    (r2init : List Str) (r2last : Str)
    (hd : ∀ u ∈ dus, GoodSeg u) (hf : ∀ c ∈ fu, segChar c = true)
    (hr1 : ∀ u ∈ r1init ++ [r1last], GoodSeg u) (hl1 : isName r1last = true)
    (h01 : ∀ c, (joinWith '/' (r1init ++ [r1last])).head? = some c → c0OrSpace c = false ∧ c ≠ '/')
    (hns1 : ∀ c ∈ (joinWith '/' (r1init ++ [r1last])).takeWhile (· != '/'), c ≠ ':')
    (hr2 : ∀ u ∈ r2init ++ [r2last], GoodSeg u) (hl2 : isName r2last = true)
    (h02 : ∀ c, (joinWith '/' (r2init ++ [r2last])).head? = some c → c0OrSpace c = false ∧ c ≠ '/')
    (hns2 : ∀ c ∈ (joinWith '/' (r2init ++ [r2last])).takeWhile (· != '/'), c ≠ ':') :
    urlToPath (join (join (fileSlashes ++ joinWith '/' (([] :: dus) ++ [fu])) (joinWith '/' (r1init ++ [r1last])))
        (joinWith '/' (r2init ++ [r2last]))) =
      render (resolve (([] :: dus).map unquote ++ r1init.map unquote) ((r2init ++ [r2last]).map unquote)) := by
  have hall1 : ∀ u ∈ ([] :: dus) ++ r1init, GoodSeg u := by
    intro u hu
    simp only [List.cons_append, List.mem_cons, List.mem_append] at hu
    rcases hu with rfl | hu | hu
    · exact up_goodSeg_nil
    · exact hd u hu
    · exact hr1 u (by simp [hu])
  rw [up_join_segments dus fu r1init r1last (fun s hs => (hd s hs).2.1) hf (fun s hs => (hr1 s hs).2.1) hl1 h01 hns1,
    up_resolve_name_last _ _ _ hl1]
  have e1 : '/' :: joinWith '/' (resolve ([] :: dus) r1init ++ [r1last]) =
      joinWith '/' (([] :: resolve ([] :: dus) r1init) ++ [r1last]) := by
    rw [List.cons_append, up_joinWith_cons '/' [] _ (by simp)]; rfl
  rw [e1, up_join_paths (resolve ([] :: dus) r1init) r1last r2init r2last (up_resolve_good _ _ hall1)
    (hr1 r1last (by simp)).2.1 hr2 hl2 h02 hns2]
  congr 1
  rw [List.map_cons, up_unquote_nil, up_resolve_nil_cons,
    ← up_resolve_map unquote _ _ (fun x hx => (hall1 x hx).2.2)]
  exact up_resolve_normalize _ _

end ZCV.UrlPath
