import ZCV.Lemmas.ParseGen
/-!
`parse_sim` of `ZCV/Lemmas/ParseGen.lean` once more, for texts that MAY contain `%import` lines (here and in the
resources they include): the simulation of one parser context by another, up to acceptance, now also asks the two
`imp` operations to correspond.
-/
namespace ZCV.Cfg
open ZCV

structure CtxSimI {σ₁ σ₂} (c₁ : PCtx σ₁) (c₂ : PCtx σ₂) (R : List (Str × Option Str) → σ₁ → σ₂ → Prop)
    (D : σ₂ → Prop) : Prop where
  canInc : c₁.canInclude = c₂.canInclude
  canDef : c₁.canDefine = c₂.canDefine
  start : ∀ F a b ty nm, R F a b →
    SimO (R ((ty, nm) :: F)) D (c₁.start a ty nm).toOption (c₂.start b ty nm).toOption
  stop : ∀ F a b ty nm, R ((ty, nm) :: F) a b → SimO (R F) D (c₁.stop a ty nm).toOption (c₂.stop b ty nm).toOption
  value : ∀ F a b k v p, R F a b → SimO (R F) D (c₁.value a k v p).toOption (c₂.value b k v p).toOption
  imp : ∀ F a b pkg, R F a b → SimO (R F) D (c₁.imp a pkg).toOption (c₂.imp b pkg).toOption
  dead : CtxInv c₂ (fun _ b => D b)

section sim
variable {σ₁ σ₂ : Type} (c₁ : PCtx σ₁) (c₂ : PCtx σ₂) (R : List (Str × Option Str) → σ₁ → σ₂ → Prop) (D : σ₂ → Prop)
  (hC : CtxSimI c₁ c₂ R D) (env : Env)
include hC

theorem stepLine_simI (fuel : Nat)
    (ih : ∀ f, fuel = f + 1 → ∀ (active : List Str) (url : Option Str) (lines : List Str) (n : Nat) (st₁ : PS σ₁)
      (st₂ : PS σ₂) (S : List (Str × Option Str)), PSRel R S st₁ st₂ →
      SimO (fun a b => PSRel R S a b ∧ a.stack = []) (PSDead D)
        (parseLines f env c₁ active url lines n st₁).toOption (parseLines f env c₂ active url lines n st₂).toOption)
    (active : List Str) (url : Option Str) (line : Nat) (l : Str) (st₁ : PS σ₁) (st₂ : PS σ₂)
    (S : List (Str × Option Str)) (hrel : PSRel R S st₁ st₂) :
    SimO (PSRel R S) (PSDead D)
      (stepLine fuel env c₁ active url line l st₁).toOption (stepLine fuel env c₂ active url line l st₂).toOption := by
  obtain ⟨hstk, hdefs, hR⟩ := hrel
  cases hs : lineShape l with
  | skip =>
    rw [stepLine, stepLine]; simp only [hs]
    exact SimO.some_some ⟨hstk, hdefs, hR⟩
  | bad t => rw [stepLine, stepLine]; simp only [hs]; exact SimO.none_none _ _
  | internal t => rw [stepLine, stepLine]; simp only [hs]; exact SimO.none_none _ _
  | import_ a =>
    rw [stepLine_import _ _ _ _ _ _ _ _ _ hs, stepLine_import _ _ _ _ _ _ _ _ _ hs]
    unfold impStep
    rw [toOption_bind, toOption_bind, ← hdefs]
    refine SimO.bind_same _ ?_
    intro pkg _
    rw [toOption_map, toOption_map]
    refine SimO.map (hC.imp _ _ _ pkg hR) ?_ ?_
    · intro a b hab
      exact ⟨hstk, rfl, hab⟩
    · intro b hb
      exact hb
  | close ty =>
    rw [stepLine, stepLine]; simp only [hs]
    rw [closeSection_toOption, closeSection_toOption, ← hstk]
    cases hst : st₁.stack with
    | nil => exact SimO.none_none _ _
    | cons p T =>
      obtain ⟨ot, name⟩ := p
      dsimp only
      split
      · exact SimO.none_none _ _
      · rename_i hne
        have hty : ty = ot := by simpa using hne
        subst hty
        rw [hst] at hR
        refine SimO.map (hC.stop _ _ _ _ _ hR) ?_ ?_
        · intro a b hab
          exact ⟨rfl, hdefs, hab⟩
        · intro b hb
          exact hb
  | open_ ty nm e =>
    rw [stepLine, stepLine]; simp only [hs]
    rw [openSection_toOption, openSection_toOption]
    refine SimO.bind (hC.start _ _ _ ty nm hR) ?_ ?_
    · intro a b hab
      cases e
      · simp only [Bool.false_eq_true, if_false]
        refine SimO.some_some ⟨?_, hdefs, ?_⟩
        · simp only [hstk]
        · exact hab
      · simp only [if_true]
        refine SimO.map (hC.stop _ _ _ _ _ hab) ?_ ?_
        · intro a' b' hab'
          exact ⟨hstk, hdefs, hab'⟩
        · intro b' hb'
          exact hb'
    · intro b b' hb hb'
      cases e
      · simp only [Bool.false_eq_true, if_false] at hb'
        cases hb'
        exact hb
      · simp only [if_true] at hb'
        cases hstop : c₂.stop b ty nm with
        | error f => rw [hstop] at hb'; cases hb'
        | ok b2 =>
          rw [hstop] at hb'
          cases hb'
          exact hC.dead.stop [] _ _ _ _ hb hstop
  | kv k raw =>
    rw [stepLine, stepLine]; simp only [hs]
    rw [keyValue_eq, keyValue_eq, toOption_bind, toOption_bind, ← hdefs]
    refine SimO.bind_same _ ?_
    intro v _
    rw [kvCore_toOption, kvCore_toOption]
    refine SimO.map (hC.value _ _ _ _ _ _ hR) ?_ ?_
    · intro a b hab
      exact ⟨hstk, hdefs, hab⟩
    · intro b hb
      exact hb
  | define a =>
    rw [stepLine_define _ _ _ _ _ _ _ _ _ hs, stepLine_define _ _ _ _ _ _ _ _ _ hs]
    unfold defStep
    rw [← hC.canDef, ← hdefs]
    split
    · exact SimO.none_none _ _
    · rw [toOption_map, toOption_map]
      cases (define env url line a st₁.defs).toOption with
      | none => exact SimO.none_none _ _
      | some d => exact SimO.some_some ⟨hstk, rfl, hR⟩
  | include_ a =>
    rw [stepLine_include _ _ _ _ _ _ _ _ _ hs, stepLine_include _ _ _ _ _ _ _ _ _ hs]
    unfold incStep
    rw [toOption_bind, toOption_bind, ← hC.canInc, ← hdefs]
    refine SimO.bind_same _ ?_
    intro a' _
    split
    · exact SimO.none_none _ _
    · split
      · exact SimO.none_none _ _
      · exact SimO.none_none _ _
      · split
        · exact SimO.none_none _ _
        · rename_i _ u _ _ lines hlines
          split
          · exact SimO.none_none _ _
          · cases fuel with
            | zero => exact SimO.none_none _ _
            | succ f =>
              dsimp only
              rw [toOption_bind, toOption_bind]
              have hsub := ih f rfl (u :: active) (some u) lines 0
                { ctx := st₁.ctx, stack := [], defs := st₁.defs } { ctx := st₂.ctx, stack := [], defs := st₁.defs }
                (st₁.stack ++ S) ⟨rfl, rfl, by simpa using hR⟩
              refine SimO.bind hsub ?_ ?_
              · intro sa sb hab
                obtain ⟨⟨_, hd', hR'⟩, hnil⟩ := hab
                rw [hnil] at hR'
                exact SimO.some_some ⟨hstk, hd', by simpa using hR'⟩
              · intro sb sb' hb hb'
                cases hb'
                exact hb

theorem parse_simI :
    ∀ (fuel : Nat) (active : List Str) (url : Option Str) (lines : List Str) (n : Nat) (st₁ : PS σ₁)
      (st₂ : PS σ₂) (S : List (Str × Option Str)), PSRel R S st₁ st₂ →
      SimO (fun a b => PSRel R S a b ∧ a.stack = []) (PSDead D)
        (parseLines fuel env c₁ active url lines n st₁).toOption
        (parseLines fuel env c₂ active url lines n st₂).toOption := by
  have main : ∀ (fuel : Nat),
      (∀ f, fuel = f + 1 → ∀ (active : List Str) (url : Option Str) (lines : List Str) (n : Nat) (st₁ : PS σ₁)
        (st₂ : PS σ₂) (S : List (Str × Option Str)), PSRel R S st₁ st₂ →
        SimO (fun a b => PSRel R S a b ∧ a.stack = []) (PSDead D)
          (parseLines f env c₁ active url lines n st₁).toOption (parseLines f env c₂ active url lines n st₂).toOption) →
      ∀ (active : List Str) (url : Option Str) (lines : List Str) (n : Nat) (st₁ : PS σ₁)
        (st₂ : PS σ₂) (S : List (Str × Option Str)), PSRel R S st₁ st₂ →
        SimO (fun a b => PSRel R S a b ∧ a.stack = []) (PSDead D)
          (parseLines fuel env c₁ active url lines n st₁).toOption
          (parseLines fuel env c₂ active url lines n st₂).toOption := by
    intro fuel ihf active url lines
    induction lines with
    | nil =>
      intro n st₁ st₂ S hrel
      rw [parseLines, parseLines, ← hrel.1]
      split
      · exact SimO.none_none _ _
      · rename_i hne
        exact SimO.some_some ⟨hrel, by simpa using hne⟩
    | cons l rest ihl =>
      intro n st₁ st₂ S hrel
      rw [parseLines, parseLines, toOption_bind, toOption_bind]
      refine SimO.bind (stepLine_simI c₁ c₂ R D hC env fuel ihf active url (n + 1) (strip l) st₁ st₂ S hrel) ?_ ?_
      · intro a b hab
        exact ihl _ _ _ _ hab
      · intro b b' hb hb'
        rw [toOption_eq_some] at hb'
        have := parse_inv c₂ (fun _ b => D b) hC.dead env fuel active url rest (n + 1) b b' [] hb hb'
        exact this
  intro fuel
  induction fuel with
  | zero => exact main 0 (fun f hf => by omega)
  | succ f ihf =>
    exact main (f + 1) (fun f' hf => by
      have : f = f' := by omega
      subst this; exact ihf)

end sim

end ZCV.Cfg
