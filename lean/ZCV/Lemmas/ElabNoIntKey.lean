import ZCV.Lemmas.ElabNoIntBase
/-!
No internal errors, continued: key objects (`get_key_info`, `adddefault`, `computedefault`), the container on top of the
stack (`_add_child`, writing the finished key back), and the light invariant `KeysOK` of the schema state.
-/
namespace ZCV.Elab
open ZCV ZCV.Cfg

variable {P : String → Prop}

/-- one structural step of a "no internal error" goal -/
macro "ni_step" : tactic =>
  `(tactic| first
    | exact NIx.pure _ | exact NIx.ok _ | exact NIx.serr _ | exact NIx.schema _ | exact NIx.schemaResource _
    | exact NIx.conversion _ | exact basicKeyE_ni _ | exact identifierE_ni _ | exact getHandler_ni _ | exact getRequired_ni _
    | with_reducible refine NIx.bind ?_ (fun _ _ => ?_)
    | with_reducible refine NIx.ite (fun _ => ?_) (fun _ => ?_)
    | split)

/-- structural steps, with the given tactic tried first on every goal (for the leaves) -/
macro "ni_steps" "[" t:tacticSeq "]" : tactic => `(tactic| repeat' (first | ($t) | ni_step))

theorem getKeyInfo_ni {env : Env} {st : PSt} (he : EnvNI env) (hp : st.prefixes ≠ [])
    (hc : ContainerOK st.es st.stack) (attrs : Attrs) : NIx P (getKeyInfo env st attrs) := by
  unfold getKeyInfo
  refine NIx.bind (getNameInfo_ni he.keyErr hc _ _) (fun r _ => ?_)
  obtain ⟨any, name, an⟩ := r
  dsimp only
  repeat' ni_step
  all_goals exact getDatatype_ni he.dotted hp _ _ _ _

/-! ### defaults -/

/-- the default of a key object is of the kind its `add_valueinfo` expects -/
def DfltOK (k : EKey) : Prop :=
  (k.name = ['+'] → plusShape k.multi k.dflt) ∧ (k.name ≠ ['+'] → k.multi = true → ∃ l, k.dflt = .many l)

theorem KeyShape.dfltOK {k : EKey} (h : KeyShape k) : DfltOK k := by
  obtain ⟨_, hsh⟩ := h
  refine ⟨fun hp => ?_, fun hp hm => ?_⟩
  · simp only [hp, ↓reduceIte] at hsh; exact hsh.1
  · simp only [hp, ↓reduceIte, hm] at hsh; exact hsh

theorem CDAcc.dfltOK {k : EKey} {raw : Default} {acc : EKey} (h : CDAcc k raw acc) : DfltOK acc :=
  ⟨fun _ => h.shape, fun hp => absurd h.name hp⟩

theorem addValueInfo_ni {k : EKey} (hk : DfltOK k) (vi : VI) (key : Option Str) : NIx P (addValueInfo k vi key) := by
  refine ⟨fun e h => ?_⟩
  unfold addValueInfo at h
  by_cases hp : k.name = ['+']
  · have hsh := hk.1 hp
    have hpb : (k.name == ['+']) = true := by simp [hp]
    by_cases hm : k.multi = true
    · simp only [hm, ↓reduceIte, hpb] at h
      cases hd : k.dflt <;> simp only [hd, hm, plusShape] at hsh h
      · cases hsh
      · split at h <;> cases h
    · have hm' : k.multi = false := by simpa using hm
      simp only [hm', Bool.false_eq_true, ↓reduceIte, hpb] at h
      cases hd : k.dflt <;> simp only [hd, hm', plusShape] at hsh h
      · split at h <;> cases h
      · cases hsh
  · have hpb : (k.name == ['+']) = false := by simp [hp]
    by_cases hm : k.multi = true
    · obtain ⟨l, hl⟩ := hk.2 hp hm
      simp only [hm, ↓reduceIte, hpb, Bool.false_eq_true, hl] at h
      cases h
    · have hm' : k.multi = false := by simpa using hm
      simp only [hm', Bool.false_eq_true, ↓reduceIte, hpb] at h
      split at h <;> cases h

theorem addDefault_ni {k : EKey} (hk : DfltOK k) (value : Str) (key : Option Str) : NIx P (addDefault k value key) := by
  unfold addDefault
  repeat' ni_step
  exact addValueInfo_ni hk _ _

theorem finishKey_ni (k : EKey) : NIx P (finishKey k) := by
  unfold finishKey
  repeat' ni_step

/-- `computedefault` on a `+` key: only the key type can fail, and it fails with ValueError (→ DataConversionError) -/
theorem computeDefault_ni {env : Env} (hke : ∀ kt s e, env.conv.key kt s = .error e → e = .valueError) (kt : Str)
    {k : EKey} (hs : KeyShape k) (hp : k.name = ['+']) : NIx P (computeDefault env kt k) := by
  unfold computeDefault
  have hpb : (k.name != ['+']) = false := by simp [hp]
  simp only [hpb, Bool.false_eq_true, ↓reduceIte]
  obtain ⟨hne, hsh⟩ := hs
  simp only [hp, ↓reduceIte] at hsh
  have hrawShape : plusShape k.multi (k.raw.getD k.dflt) := by
    cases hr : k.raw with
    | none => simpa using hsh.1
    | some r => simpa using hsh.2 r hr
  split
  · rename_i m hraw
    rw [hraw] at hrawShape
    refine foldlM_ni (CDAcc k (.keyed m)) _ ?_ ?_ m _ ?_
    · intro b a hb
      exact NIx.bind (convDefaultKey_ni hke _ _) (fun key _ => addValueInfo_ni hb.dfltOK _ _)
    · intro b a b' hb hstep
      simp only [bind, Except.bind] at hstep
      split at hstep
      · cases hstep
      · exact hb.addValueInfo hstep
    · exact ⟨hp, ⟨rfl, rfl, rfl, rfl⟩, by simpa [plusShape] using hrawShape, by simp only [hraw]⟩
  · rename_i m hraw
    rw [hraw] at hrawShape
    refine foldlM_ni (CDAcc k (.keyedMany m)) _ ?_ ?_ m _ ?_
    · intro b a hb
      refine NIx.bind (convDefaultKey_ni hke _ _) (fun key _ => ?_)
      exact foldlM_ni (CDAcc k (.keyedMany m)) _ (fun b1 vi hb1 => addValueInfo_ni hb1.dfltOK _ _)
        (fun b1 vi b2 hb1 hs1 => hb1.addValueInfo hs1) a.2 b hb
    · intro b a b' hb hstep
      simp only [bind, Except.bind] at hstep
      split at hstep
      · cases hstep
      · exact foldlM_inv (CDAcc k (.keyedMany m)) _ (fun b1 vi b2 hb1 hs1 => hb1.addValueInfo hs1) a.2 b b' hb hstep
    · exact ⟨hp, ⟨rfl, rfl, rfl, rfl⟩, by simpa [plusShape] using hrawShape, by simp only [hraw]⟩
  · rename_i h1 h2
    cases hr : k.raw.getD k.dflt <;> simp only [hr, plusShape] at hrawShape
    · exact (h1 _ hr).elim
    · exact (h2 _ hr).elim

/-! ### the container on top of the stack -/

theorem addChild_ni {st : PSt} (hc : ContainerOK st.es st.stack) (key : Option Str) (info : EInfo) :
    NIx P (addChild st key info) := by
  unfold addChild
  rw [topChildren_eq]
  obtain ⟨ch, hch⟩ := topOf_ok hc
  refine NIx.bind (NIx.of_ok hch) (fun _ _ => ?_)
  repeat' ni_step

/-- `_add_child` appends to the children of the container on top of the stack and touches nothing else -/
theorem addChild_eff {st st' : PSt} {key : Option Str} {info : EInfo} (h : addChild st key info = .ok st') :
    ∃ ch, topOf st.es st.stack = .ok ch ∧ st' = { st with es := setTopOf st.es st.stack (ch ++ [(key, info)]) } := by
  unfold addChild at h
  rw [topChildren_eq] at h
  rw [bind_ok] at h
  obtain ⟨ch, hch, h⟩ := h
  refine ⟨ch, hch, ?_⟩
  simp only [bind, Except.bind, pure, Except.pure] at h
  split at h
  · cases h
  · split at h
    · cases h
    · injection h with h
      rw [← h, setTopChildren_eq]

theorem replaceLastChild_ni {st : PSt} {k : EKey} {ch : List (Option Str × EInfo)} {key : Option Str} {k0 : EKey}
    (ht : topOf st.es st.stack = .ok (ch ++ [(key, EInfo.key k0)])) : NIx P (replaceLastChild st k) := by
  unfold replaceLastChild
  rw [topChildren_eq, ht]
  refine ⟨fun e h => ?_⟩
  simp only [bind, Except.bind, List.reverse_append, List.reverse_cons, List.reverse_nil, List.nil_append,
    List.singleton_append, pure, Except.pure] at h
  cases h

theorem replaceLastChild_eff {st st' : PSt} {k : EKey} {ch : List (Option Str × EInfo)} {key : Option Str} {k0 : EKey}
    (ht : topOf st.es st.stack = .ok (ch ++ [(key, EInfo.key k0)])) (h : replaceLastChild st k = .ok st') :
    st' = { st with es := setTopOf st.es st.stack (ch ++ [(key, EInfo.key k)]) } := by
  unfold replaceLastChild at h
  rw [topChildren_eq, ht] at h
  simp only [bind, Except.bind, List.reverse_append, List.reverse_cons, List.reverse_nil, List.nil_append,
    List.singleton_append, pure, Except.pure, Except.ok.injEq, List.reverse_reverse] at h
  rw [← h, setTopChildren_eq]

/-! ### the light invariant: every key object stored in the schema state has a default of the right kind -/

def ChKeys (ch : List (Option Str × EInfo)) : Prop := ∀ c ∈ ch, ∀ k, c.2 = EInfo.key k → KeyShape k

structure KeysOK (es : ES) : Prop where
  top : ChKeys es.top.children
  types : ∀ p ∈ es.types, ∀ t, p.2 = EEntry.concrete t → ChKeys t.children

theorem ChKeys.nil : ChKeys [] := by intro c hc; cases hc

theorem ChKeys.append {a b : List (Option Str × EInfo)} (ha : ChKeys a) (hb : ChKeys b) : ChKeys (a ++ b) := by
  intro c hc
  rcases List.mem_append.mp hc with hc | hc
  · exact ha c hc
  · exact hb c hc

theorem ChKeys.left {a b : List (Option Str × EInfo)} (h : ChKeys (a ++ b)) : ChKeys a :=
  fun c hc => h c (List.mem_append_left _ hc)

theorem ChKeys.single_key {key : Option Str} {k : EKey} (hk : KeyShape k) : ChKeys [(key, EInfo.key k)] := by
  intro c hc k' hk'
  simp only [List.mem_singleton] at hc
  subst hc
  cases hk'
  exact hk

theorem ChKeys.single_sect {key : Option Str} {si : SectInfo} : ChKeys [(key, EInfo.sect si)] := by
  intro c hc k' hk'
  simp only [List.mem_singleton] at hc
  subst hc
  cases hk'

theorem KeysOK.emptyES : KeysOK emptyES := ⟨ChKeys.nil, by intro p hp; cases hp⟩

theorem KeysOK.topOf {es : ES} (h : KeysOK es) {stack : List Frame} {ch : List (Option Str × EInfo)}
    (ht : topOf es stack = .ok ch) : ChKeys ch := by
  unfold Elab.topOf at ht
  split at ht
  · injection ht with ht; subst ht; exact h.top
  · split at ht
    · rename_i hf
      injection ht with ht; subst ht
      exact h.types _ (List.mem_of_find?_eq_some hf) _ rfl
    · cases ht
  · cases ht
  · cases ht

/-- a rewrite of the entries under which every concrete entry comes from a concrete entry whose keys were fine -/
theorem KeysOK.map {es : ES} (h : KeysOK es) (g : Str × EEntry → Str × EEntry)
    (hg : ∀ p t, (g p).2 = EEntry.concrete t → ∃ t0, p.2 = EEntry.concrete t0 ∧ (ChKeys t0.children → ChKeys t.children)) :
    KeysOK { es with types := es.types.map g } := by
  refine ⟨h.top, ?_⟩
  intro q hq t ht
  simp only [List.mem_map] at hq
  obtain ⟨p, hp, rfl⟩ := hq
  obtain ⟨t0, hp0, himp⟩ := hg p t ht
  exact himp (h.types p hp t0 hp0)

theorem KeysOK.updType {es : ES} (h : KeysOK es) (n : Str) (f : EType → EType)
    (hf : ∀ t, ChKeys t.children → ChKeys (f t).children) : KeysOK (es.updType n f) := by
  unfold ES.updType
  refine h.map _ ?_
  intro ⟨k, e⟩ t ht
  dsimp only at ht
  split at ht
  · cases e with
    | concrete t0 =>
      simp only [EEntry.concrete.injEq] at ht
      subst ht
      exact ⟨t0, rfl, hf t0⟩
    | abstract_ a b c => cases ht
  · exact ⟨t, ht, id⟩

theorem KeysOK.setTopOf {es : ES} (h : KeysOK es) (stack : List Frame) {ch : List (Option Str × EInfo)} (hc : ChKeys ch) :
    KeysOK (setTopOf es stack ch) := by
  unfold Elab.setTopOf
  split
  · exact ⟨hc, h.types⟩
  · exact h.updType _ _ (fun _ _ => hc)
  · exact h

theorem KeysOK.top_congr {es : ES} (h : KeysOK es) (t : EType) (hc : t.children = es.top.children) :
    KeysOK { es with top := t } :=
  ⟨by show ChKeys t.children; rw [hc]; exact h.top, h.types⟩

theorem KeysOK.addType {es es' : ES} {n : Str} {e : EEntry} (h : KeysOK es) (ha : addType es n e = .ok es')
    (he : ∀ t, e = EEntry.concrete t → ChKeys t.children) : KeysOK es' := by
  unfold Elab.addType at ha
  split at ha
  · cases ha
  · injection ha with ha
    subst ha
    refine ⟨h.top, ?_⟩
    intro p hp t ht
    rcases List.mem_append.mp hp with hp | hp
    · exact h.types p hp t ht
    · simp only [List.mem_singleton] at hp
      subst hp
      exact he t ht

end ZCV.Elab
