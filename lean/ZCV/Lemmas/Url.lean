import ZCV.Model.Url
import ZCV.Spec.Url
import ZCV.Lemmas.Regex
import ZCV.Lemmas.RegexAll
import ZCV.Lemmas.Chars
namespace ZCV.Url
open ZCV ZCV.Rx

/-! ## `isPath` -/

def sepK1 : Cls := ⟨false, [.range 65 90, .range 97 122]⟩
def sepK2 : Cls := ⟨false, [.range 43 43, .range 45 46, .range 48 57, .range 65 90, .range 97 122]⟩
def sepK3 : Cls := ⟨false, [.range 58 58]⟩

/-- the generated term has the `[k1][k2]*:` shape with exactly these classes
    (this is the obligation an edit of `_pathsep_rx` breaks) -/
theorem pathsepRx_shape :
    Gen.pathsepRx = .seq (.cls sepK1) (.seq (.star (.cls sepK2)) (.cls sepK3)) := rfl

theorem sepK1_test (c : Char) : sepK1.test c = isAsciiLetter c := by
  unfold sepK1; cls_arith
theorem sepK2_test (c : Char) : sepK2.test c = UrlSpec.isSchemeChar c := by
  unfold sepK2 UrlSpec.isSchemeChar; cls_arith
theorem sepK3_test (c : Char) : sepK3.test c = (c == ':') := by
  unfold sepK3; cls_arith

/-- `:` is not a scheme character: the greedy run can never be shortened to make room for the colon -/
theorem sepK2_not_colon (c : Char) (h : sepK2.test c = true) : sepK3.test c = false := by
  revert h
  unfold sepK2 sepK3
  simp only [Rx.Cls.test, Rx.Item.test, List.any_cons, List.any_nil]
  generalize Char.toNat c = n
  simp
  omega

/-- all matches of `[k1][k2]*:` — only the maximal run counts -/
theorem pathsep_all (w f : Nat) (c : Char) (t : Str) (hf : t.length ≤ f) :
    m w Gen.pathsepRx f (c :: t, []) =
      if isAsciiLetter c then
        (match t.dropWhile UrlSpec.isSchemeChar with
         | d :: r => if d == ':' then [(r, [])] else []
         | [] => [])
      else [] := by
  rw [pathsepRx_shape, m]
  by_cases hc : isAsciiLetter c
  · have h1 : m w (.cls sepK1) f (c :: t, []) = [(t, [])] := by
      simp [m, sepK1_test, hc]
    rw [h1]
    simp only [List.flatMap_cons, List.flatMap_nil, List.append_nil, hc, ↓reduceIte]
    rw [m]
    rw [star_flatMap w sepK2 [] f t hf (m w (.cls sepK3) f)
      (fun c' t' h1 _ => by simp [m, sepK2_not_colon c' h1])]
    rw [dropWhile_congr sepK2_test t]
    cases t.dropWhile UrlSpec.isSchemeChar with
    | nil => simp [m]
    | cons d r => simp only [m, sepK3_test]
  · simp [m, sepK1_test, hc]

theorem colon_not_scheme : UrlSpec.isSchemeChar ':' = false := by
  rw [← sepK2_test]
  cases h : sepK2.test ':' with
  | false => rfl
  | true =>
    have := sepK2_not_colon ':' h
    rw [sepK3_test] at this
    simp at this

theorem dropWhile_colon_mem (t : Str) (r : Str) (h : t.dropWhile UrlSpec.isSchemeChar = ':' :: r) :
    ':' ∈ t := mem_of_dropWhile (p := UrlSpec.isSchemeChar) (by rw [h]; simp)

/-- the live `_pathsep_rx`, used as `isPath` uses it: a string is a path unless a scheme of >= 2 characters precedes a colon -/
theorem isPath_eq_spec (s : Str) : isPath s = UrlSpec.isPath s := by
  unfold isPath UrlSpec.isPath UrlSpec.isUrl pyMatch
  cases s with
  | nil => simp
  | cons c t =>
    rw [pathsep_all _ _ c t (by simp)]
    have hlen := len_take_drop UrlSpec.isSchemeChar t
    by_cases hcol : (c :: t).contains ':' = true
    · simp only [hcol, ↓reduceIte]
      by_cases hc : isAsciiLetter c
      · simp only [hc, ↓reduceIte, Bool.true_and]
        cases hd : t.dropWhile UrlSpec.isSchemeChar with
        | nil => simp
        | cons d r =>
          rw [hd] at hlen
          by_cases hdc : d = ':'
          · subst hdc
            simp only [beq_self_eq_true, ↓reduceIte, List.head?_cons, List.length_cons,
              Bool.true_and]
            simp only [List.length_cons] at hlen
            rw [Bool.eq_iff_iff]
            simp
            rw [← List.length_eq_zero_iff]
            omega
          · simp [hdc]
      · simp [hc]
    · simp only [hcol]
      simp only [Bool.false_eq_true, ↓reduceIte]
      by_cases hc : isAsciiLetter c
      · simp only [hc, Bool.true_and]
        cases hd : t.dropWhile UrlSpec.isSchemeChar with
        | nil => simp
        | cons d r =>
          by_cases hdc : d = ':'
          · subst hdc
            exfalso
            apply hcol
            have := dropWhile_colon_mem t r hd
            simp [this]
          · simp [hdc]
      · simp [hc]

/-! ## `urlnormalize` -/

theorem startsWith_split (s p : Str) (h : startsWith s p = true) : ∃ r, s = p ++ r := by
  unfold startsWith at h
  have e : s.take p.length = p := by simpa using h
  refine ⟨s.drop p.length, ?_⟩
  have := List.take_append_drop p.length s
  rw [e] at this
  exact this.symm

theorem lower_append (a b : Str) : lower (a ++ b) = lower a ++ lower b := by
  simp [lower]

theorem lower_drop (n : Nat) (a : Str) : lower (a.drop n) = (lower a).drop n := by
  simp [lower, List.map_drop]

theorem lower_file2 : lower "file://".toList = "file://".toList := by
  decide

/-- what `urlnormalize` returns is in normal form (the ASCII hypothesis is not needed) -/
theorem urlnormalize_normalForm' (u : Str) : UrlSpec.normalForm (urlnormalize u) = true := by
  unfold urlnormalize UrlSpec.normalForm
  simp only
  cases h6 : startsWith (lower u) "file:/".toList with
  | false => simp only [Bool.false_and, Bool.false_eq_true, ↓reduceIte, h6, Bool.not_false, Bool.true_or]
  | true =>
    cases h8 : startsWith (lower u) "file:///".toList with
    | true => simp only [Bool.not_true, Bool.and_false, Bool.false_eq_true, ↓reduceIte, h8, Bool.or_true]
    | false =>
      simp only [Bool.not_false, Bool.and_self, ↓reduceIte]
      obtain ⟨r, hr⟩ := startsWith_split _ _ h6
      have e : lower ("file://".toList ++ u.drop 5) = "file:///".toList ++ r := by
        rw [lower_append, lower_drop, hr, lower_file2]
        rfl
      rw [e]
      have : startsWith ("file:///".toList ++ r) "file:///".toList = true := by
        unfold startsWith
        rw [List.take_left']
        · exact beq_self_eq_true _
        · rfl
      rw [this, Bool.or_true]

/-- ASCII-only strings: what `urlnormalize` returns is in normal form -/
theorem urlnormalize_normalForm (u : Str) (ha : ∀ c ∈ u, c.toNat < 128) : UrlSpec.normalForm (urlnormalize u) = true := by
  have _ := ha
  exact urlnormalize_normalForm' u

/-- a URL already in normal form is left alone -/
theorem urlnormalize_fixed (u : Str) (h : UrlSpec.normalForm u = true) : urlnormalize u = u := by
  unfold UrlSpec.normalForm at h
  unfold urlnormalize
  simp only
  cases h6 : startsWith (lower u) "file:/".toList <;>
    cases h8 : startsWith (lower u) "file:///".toList <;> simp_all

theorem urlnormalize_idempotent' (u : Str) : urlnormalize (urlnormalize u) = urlnormalize u :=
  urlnormalize_fixed _ (urlnormalize_normalForm' u)

theorem urlnormalize_idempotent (u : Str) (ha : ∀ c ∈ u, c.toNat < 128) : urlnormalize (urlnormalize u) = urlnormalize u := by
  have _ := ha
  exact urlnormalize_idempotent' u

end ZCV.Url
