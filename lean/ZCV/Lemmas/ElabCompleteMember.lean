import ZCV.Lemmas.ElabCompleteLeaf
/-!
C10, completeness, step 3: the member elements `<key>`, `<multikey>`, `<section>`, `<multisection>`.  In a loader state
whose container on top of the stack has children `ch` that correspond (`MemberRel`) to the members `ms` of the
specification, a rule-abiding element is read successfully; the only change is one new child of that container, which
corresponds to the member the specification says the element declares.
-/
namespace ZCV.SchemaRules
open ZCV ZCV.Elab
open ZCV.Cfg (VI SectInfo Default)

/-! ### members of the specification vs. children of the model -/

/-- the `+`-key information of a member describes the key object `k`: the keys of its defaults *as written* -/
def PlusRel (p : Option (Bool × List Str)) (k : EKey) : Prop :=
  if k.name = ['+'] then
    ∃ keys, p = some (k.multi, keys) ∧
      (k.multi = false → ∃ m, k.raw.getD k.dflt = .keyed m ∧ m.map (·.1) = keys) ∧
      (k.multi = true → ∃ m, k.raw.getD k.dflt = .keyedMany m ∧ ∀ x, x ∈ m.map (·.1) ↔ x ∈ keys)
  else p = none

def MemberRel (m : Member) (c : Option Str × EInfo) : Prop :=
  m.key = c.1 ∧ m.attr = c.2.attr ∧
    match c.2 with
    | .key k => PlusRel m.plus k
    | .sect _ => m.plus = none

theorem Pointwise.map_eq {α β γ} {R : α → β → Prop} {f : α → γ} {g : β → γ} (hR : ∀ a b, R a b → f a = g b) :
    ∀ {l : List α} {l' : List β}, Pointwise R l l' → l.map f = l'.map g := by
  intro l l' h
  induction h with
  | nil => rfl
  | cons h1 _ ih => rw [List.map_cons, List.map_cons, hR _ _ h1, ih]

theorem Pointwise.snoc {α β} {R : α → β → Prop} {l : List α} {l' : List β} {a : α} {b : β}
    (h : Pointwise R l l') (hab : R a b) : Pointwise R (l ++ [a]) (l' ++ [b]) := by
  induction h with
  | nil => exact .cons hab .nil
  | cons h1 _ ih => exact .cons h1 ih

theorem Pointwise.append {α β} {R : α → β → Prop} {l1 l2 : List α} {l1' l2' : List β}
    (h1 : Pointwise R l1 l1') (h2 : Pointwise R l2 l2') : Pointwise R (l1 ++ l2) (l1' ++ l2') := by
  induction h1 with
  | nil => exact h2
  | cons h _ ih => exact .cons h ih

theorem members_keys {ms : List Member} {ch : List (Option Str × EInfo)} (h : Pointwise MemberRel ms ch) :
    ms.map (·.key) = ch.map (·.1) := Pointwise.map_eq (fun _ _ h => h.1) h

theorem members_attrs {ms : List Member} {ch : List (Option Str × EInfo)} (h : Pointwise MemberRel ms ch) :
    ms.map (·.attr) = ch.map (·.2.attr) := Pointwise.map_eq (fun _ _ h => h.2.1) h

theorem keyFree_notDup {ms : List Member} {ch : List (Option Str × EInfo)} {key : Option Str}
    (h : Pointwise MemberRel ms ch) (hf : keyFree ms key = true) : ¬ DupKey ch key := by
  rintro ⟨h1, h2⟩
  unfold keyFree at hf
  rw [← members_keys h] at h2
  simp only [h1, Bool.true_and, Bool.not_eq_true', List.any_eq_false, beq_iff_eq] at hf
  obtain ⟨m, hm, hk⟩ := List.mem_map.1 h2
  exact hf m hm hk

theorem attrFree_notDup {ms : List Member} {ch : List (Option Str × EInfo)} {x : Str}
    (h : Pointwise MemberRel ms ch) (hf : attrFree ms x = true) : ¬ DupAttr ch x := by
  rintro ⟨_, h2⟩
  unfold attrFree at hf
  rw [← members_attrs h] at h2
  simp only [Bool.not_eq_true', List.any_eq_false, beq_iff_eq] at hf
  obtain ⟨m, hm, hk⟩ := List.mem_map.1 h2
  exact hf m hm hk

/-! ### default keys under a key type -/

theorem normKey_conv {env : Env} {kt k r : Str} (h : normKey env kt k = some r) : convDefaultKey env kt k = .ok r := by
  unfold normKey at h
  unfold convDefaultKey
  cases hk : env.conv.key kt k with
  | ok r' => rw [hk] at h; injection h with h; rw [h]
  | error e => rw [hk] at h; cases h

theorem nodup_of_map {α β} (f : α → β) : ∀ {l : List α}, (l.map f).Nodup → l.Nodup
  | [], _ => List.nodup_nil
  | a :: l, h => by
    rw [List.map_cons, List.nodup_cons] at h
    rw [List.nodup_cons]
    exact ⟨fun hm => h.1 (List.mem_map.2 ⟨a, hm, rfl⟩), nodup_of_map f h.2⟩

/-- when every key as written is accepted, `normKeys` gives their normal forms -/
theorem normKeys_of_rules (env : Env) (kt : Str) :
    ∀ (m : List (Str × VI)), (m.map (·.1)).all (fun k => (normKey env kt k).isSome) = true →
      ∃ ks, normKeys env kt m = .ok ks ∧ ks.map some = (m.map (·.1)).map (normKey env kt)
  | [], _ => ⟨[], rfl, rfl⟩
  | p :: m, h => by
    simp only [List.map_cons, List.all_cons, Bool.and_eq_true] at h
    obtain ⟨ks, h1, h2⟩ := normKeys_of_rules env kt m h.2
    cases hk : normKey env kt p.1 with
    | none => rw [hk] at h; cases h.1
    | some r =>
      refine ⟨r :: ks, ?_, ?_⟩
      · unfold normKeys at h1 ⊢
        rw [List.mapM_cons, normKey_conv hk, h1]
        rfl
      · rw [List.map_cons, h2, List.map_cons, List.map_cons, hk]

theorem defaultKeysOK_all {env : Env} {kt : Str} {multi : Bool} {keys : List Str}
    (h : defaultKeysOK env kt multi keys = true) : keys.all (fun k => (normKey env kt k).isSome) = true := by
  unfold defaultKeysOK at h
  simp only [Bool.and_eq_true] at h
  exact h.1

theorem defaultKeysOK_nodup {env : Env} {kt : Str} {keys : List Str}
    (h : defaultKeysOK env kt false keys = true) : (keys.map (normKey env kt)).Nodup := by
  unfold defaultKeysOK at h
  simp only [Bool.and_eq_true, Bool.false_or, decide_eq_true_eq] at h
  exact h.2

/-- `computedefault` succeeds on a `+` key whose default keys obey rule 8 under `kt`, and keeps the keys as written -/
theorem computeDefault_of_rules {env : Env} {kt : Str} {k : EKey} {keys : List Str} (hn : k.name = ['+'])
    (hrel : PlusRel (some (k.multi, keys)) k) (hok : defaultKeysOK env kt k.multi keys = true) :
    ∃ d, computeDefault env kt k = .ok { k with raw := some (k.raw.getD k.dflt), dflt := d } := by
  unfold PlusRel at hrel
  rw [if_pos hn] at hrel
  obtain ⟨keys', hk', hs, hm⟩ := hrel
  injection hk' with hk'
  injection hk' with _ hk'
  subst hk'
  by_cases hmulti : k.multi = true
  · obtain ⟨m, hraw, hset⟩ := hm hmulti
    have hks : ∀ p ∈ m, ∃ key, convDefaultKey env kt p.1 = .ok key := by
      intro p hp
      have hin : p.1 ∈ keys := (hset p.1).1 (List.mem_map.2 ⟨p, hp, rfl⟩)
      have := List.all_eq_true.1 (defaultKeysOK_all hok) p.1 hin
      cases hnk : normKey env kt p.1 with
      | none => rw [hnk] at this; cases this
      | some r => exact ⟨r, normKey_conv hnk⟩
    obtain ⟨m', h1⟩ := computeDefault_multi_ok env kt k m hn hmulti hraw hks
    exact ⟨_, by rw [h1, hraw]⟩
  · have hmulti' : k.multi = false := by simpa using hmulti
    obtain ⟨m, hraw, hkeys⟩ := hs hmulti'
    rw [hmulti'] at hok
    have hall := defaultKeysOK_all hok
    rw [← hkeys] at hall
    obtain ⟨ks, h1, h2⟩ := normKeys_of_rules env kt m hall
    have hnd : ks.Nodup := by
      apply nodup_of_map some
      rw [h2, hkeys]
      exact defaultKeysOK_nodup hok
    rw [(computeDefault_single env kt k m ks hn hmulti' hraw h1).1 hnd]
    exact ⟨_, by rw [hraw]⟩

/-! ### `get_key_info` -/

/-- the name a rule-abiding key is stored under -/
def keyNameOf (env : Env) (kt : Str) (a : Attrs) : Str := (storedName env kt (nameOf a none)).getD []

theorem getKeyInfo_of_rules {env : Env} {st : PSt} {kt pfx : Str} {ps : List Str} {a : Attrs}
    (hkt : topKeytype st = .ok kt) (hp : st.prefixes = pfx :: ps)
    (h1 : nameGiven a none = true) (hstar : (nameOf a none != ['*']) = true) (h2 : attributeWF a = true)
    (h3 : wildHasAttr a (nameOf a none) = true) (h4 : fixedNameOK env kt a (nameOf a none) = true)
    (h5 : (!(keyNameOf env kt a).isEmpty) = true) (h6 : dtAttrOK env pfx a "datatype" = true)
    (h7 : handlerOK a = true) :
    ∃ dt hd, getKeyInfo env st a = .ok (keyNameOf env kt a, dt, hd, attrOf a (keyNameOf env kt a)) := by
  obtain ⟨hd, hhd⟩ := getHandler_of_rules h7
  refine ⟨dtValue env pfx a "datatype" "string".toList, hd, ?_⟩
  unfold getKeyInfo
  rw [getNameInfo_of_rules hkt h1 h2 h3 h4, getDatatype_of_rules none hp (regGet_string env) h6, hhd]
  unfold nameInfoOf
  have hstar' : nameOf a none ≠ ['*'] := by simpa using hstar
  by_cases hw : isWild (nameOf a none) = true
  · have hplus : nameOf a none = ['+'] := by
      rcases (isWild_iff _).1 hw with h | h
      · exact absurd h hstar'
      · exact h
    have hkn : keyNameOf env kt a = ['+'] := by
      unfold keyNameOf storedName
      rw [hw, hplus]; rfl
    simp only [bind, Except.bind, pure, Except.pure, hplus]
    rw [hkn]
    rfl
  · have hw' : isWild (nameOf a none) = false := by simpa using hw
    simp only [hw', Bool.false_eq_true, ↓reduceIte, bind, Except.bind, pure, Except.pure]
    have hne : keyNameOf env kt a ≠ [] := by
      intro he; rw [he] at h5; cases h5
    unfold keyNameOf at hne ⊢
    cases hs : (storedName env kt (nameOf a none)).getD [] with
    | nil => exact absurd hs hne
    | cons c cs => rfl

/-! ### the flow through an element with handlers -/


theorem visitElem_handled {env : Env} {h : Hooks} {d : DocKind} {parent : Str} {st : PSt} {t : Str} {a : Attrs}
    {c : List Node} (hn : nestingOK parent t = true) (ht : t ∈ Gen.handledTags) :
    visitElem env h d (some parent) st (.elem t a c) =
      (startHandled env h t a st >>= fun st1 =>
        visitChildren env h d t st1 c >>= fun st2 => endHandled env t st2) :=
  visitElem_handled_eq (nestingOK_check hn) (handledTag d t ht).1 (handledTag d t ht).2

/-! ### `<key>` -/

theorem onceLeft_of_count {tag : Str} {c : List Node} (h : countTag tag c ≤ 1) : onceLeft false tag c := by
  unfold onceLeft
  simpa using h

theorem descOnce_onceIf {isC : Bool} {c : List Node} (h : descOnce (!isC) c = true) :
    OnceIf isC false "description".toList c := by
  intro hc
  subst hc
  unfold descOnce at h
  simp only [Bool.not_false, Bool.not_true, Bool.false_or, decide_eq_true_eq] at h
  exact onceLeft_of_count h

theorem onceOK_split {isC : Bool} {c : List Node} (h : onceOK (!isC) c = true) :
    OnceIf isC false "description".toList c ∧ onceLeft false "example".toList c := by
  unfold onceOK at h
  simp only [Bool.and_eq_true, decide_eq_true_eq] at h
  exact ⟨descOnce_onceIf h.1, onceLeft_of_count h.2⟩

/-- the first half of `start_key`: the key object with its `default` attribute -/
def keyStart (r : Str × Str × Option Str × Str) (req : Bool) (attrs : Attrs) : EM EKey :=
  match attr attrs "default" with
  | some d => if req then serr "required key cannot have a default value"
              else addDefault (newKey r req false) (strip d) none
  | none => pure (newKey r req false)

/-- the second half: finish a fixed key, append it to the container, push its frame -/
def keyTail (st : PSt) (nm : Str) (k1 : EKey) : EM PSt := do
  let k2 ← (if nm != ['+'] then finishKey k1 else pure k1)
  let st' ← addChild st (some nm) (.key k2)
  pure { st' with stack := .key k2 :: st'.stack }

theorem startKey_eq' (env : Env) (st : PSt) (attrs : Attrs) :
    startKey env st attrs = (do
      let r ← getKeyInfo env st attrs
      let req ← getRequired attrs
      let k1 ← keyStart r req attrs
      keyTail st r.1 k1) := by
  rw [startKey_eq]; rfl

/-- what is known of the key object while its element is open -/
structure KeyObj (nm at_ : Str) (req : Bool) (k : EKey) : Prop where
  name : k.name = nm
  attr : k.attr = at_
  multi : k.multi = false
  raw : k.raw = none
  desc : k.hasDesc = false
  ex : k.hasEx = false
  min : k.minOccurs = (if req then 1 else 0)
  plus : nm = ['+'] → k.dflt = .keyed []

theorem keyStart_of_rules {nm dt at_ : Str} {hd : Option Str} {a : Attrs} {c : List Node}
    (rreq : noDefaultIfRequired a c = true) (rkeying : defaultKeying nm a c = true) :
    ∃ k1, keyStart (nm, dt, hd, at_) (isRequired a) a = .ok k1 ∧ KeyObj nm at_ (isRequired a) k1 ∧ k1.finished = false := by
  unfold keyStart
  cases hda : attr a "default" with
  | none =>
    refine ⟨newKey (nm, dt, hd, at_) (isRequired a) false, rfl, ⟨rfl, rfl, rfl, rfl, rfl, rfl, rfl, ?_⟩, rfl⟩
    intro hplus
    simp [newKey, hplus]
  | some d =>
    have hnr : isRequired a = false := by
      unfold noDefaultIfRequired at rreq
      rw [hda] at rreq
      simpa using rreq
    have hnp : nm ≠ ['+'] := by
      intro hplus
      unfold defaultKeying at rkeying
      rw [hplus, hda] at rkeying
      simp at rkeying
    simp only [hnr, Bool.false_eq_true, ↓reduceIte]
    have hnk : (newKey (nm, dt, hd, at_) false false).name ≠ ['+'] := hnp
    rw [addDefault_wellkeyed _ _ none rfl (by simp [hnk])]
    have hav : addValueInfo (newKey (nm, dt, hd, at_) false false) { value := strip d, pos := defaultPos } none =
        .ok { newKey (nm, dt, hd, at_) false false with dflt := .one { value := strip d, pos := defaultPos } } := by
      unfold addValueInfo
      have : (nm == ['+']) = false := by simpa using hnp
      simp [newKey, this]
    rw [hav]
    exact ⟨_, rfl, ⟨rfl, rfl, rfl, rfl, rfl, rfl, rfl, fun hplus => absurd hplus hnp⟩, rfl⟩

theorem keyTail_of_rules {st : PSt} {ch : List (Option Str × EInfo)} {ms : List Member} {nm at_ : Str} {req : Bool}
    {k1 : EKey} (hch : topOf st.es st.stack = .ok ch) (hms : Pointwise MemberRel ms ch)
    (hk : KeyObj nm at_ req k1) (hf : k1.finished = false)
    (rkey : keyFree ms (some nm) = true) (rattr : attrFree ms at_ = true) :
    ∃ k2, KeyObj nm at_ req k2 ∧ k2.finished = (nm != ['+']) ∧
      keyTail st nm k1 = .ok { st with es := setTopOf st.es st.stack (ch ++ [(some nm, .key k2)]),
                                       stack := .key k2 :: st.stack } := by
  have hfree : ∀ k2 : EKey, k2.attr = at_ →
      addChild st (some nm) (.key k2) = .ok (setTopChildren st (ch ++ [(some nm, .key k2)])) := by
    intro k2 h2
    apply addChild_fresh _ _ (by rw [topChildren_eq]; exact hch) (keyFree_notDup hms rkey)
    have : (EInfo.key k2).attr = at_ := h2
    rw [this]
    exact attrFree_notDup hms rattr
  unfold keyTail
  by_cases hplus : nm = ['+']
  · refine ⟨k1, hk, by rw [hf, hplus]; rfl, ?_⟩
    have : (nm != ['+']) = false := by simp [hplus]
    simp only [this, Bool.false_eq_true, ↓reduceIte, bind, Except.bind, pure, Except.pure]
    rw [hfree k1 hk.attr, setTopChildren_eq]
  · refine ⟨{ k1 with finished := true }, ⟨hk.name, hk.attr, hk.multi, hk.raw, hk.desc, hk.ex, hk.min, hk.plus⟩,
      by simp [hplus], ?_⟩
    have : (nm != ['+']) = true := by simpa using hplus
    simp only [this, ↓reduceIte, bind, Except.bind, pure, Except.pure]
    unfold finishKey
    simp only [hf, Bool.false_eq_true, ↓reduceIte]
    rw [hfree { k1 with finished := true } hk.attr, setTopChildren_eq]

theorem PlusRel.computed {p : Option (Bool × List Str)} {k : EKey} (d : Default) (f : Bool) (h : PlusRel p k) :
    PlusRel p { k with raw := some (k.raw.getD k.dflt), dflt := d, finished := f } := h

/-- the key object when its body has been read, in terms of the default keys the specification collects -/
theorem plusRel_after {k2 : EKey} {c : List Node} {d' : Default} (bd be : Bool) (hraw : k2.raw = none)
    (hs : k2.name = ['+'] → k2.multi = false → k2.dflt = .keyed [])
    (hm : k2.name = ['+'] → k2.multi = true → k2.dflt = .keyedMany []) (h : DfltAfter k2 c d') :
    PlusRel (if k2.name == ['+'] then some (k2.multi, plusKeys c) else none)
      { k2 with hasDesc := bd, hasEx := be, dflt := d' } := by
  unfold PlusRel
  by_cases hplus : k2.name = ['+']
  · have hn : ({ k2 with hasDesc := bd, hasEx := be, dflt := d' } : EKey).name = ['+'] := hplus
    rw [if_pos hn]
    simp only [hplus, beq_self_eq_true, ↓reduceIte]
    refine ⟨plusKeys c, rfl, ?_, ?_⟩
    · intro hmulti
      obtain ⟨m', e1, e2⟩ := h.1 hplus hmulti [] (hs hplus hmulti)
      refine ⟨m', ?_, by simpa using e2⟩
      show k2.raw.getD d' = _
      rw [hraw, e1]; rfl
    · intro hmulti
      obtain ⟨m', e1, e2⟩ := h.2 hplus hmulti [] (hm hplus hmulti)
      refine ⟨m', ?_, fun x => by simpa using e2 x⟩
      show k2.raw.getD d' = _
      rw [hraw, e1]; rfl
  · have hn : ({ k2 with hasDesc := bd, hasEx := be, dflt := d' } : EKey).name ≠ ['+'] := hplus
    rw [if_neg hn]
    have : (k2.name == ['+']) = false := by simpa using hplus
    rw [this]; rfl

/-- `</key>`: the finished key object -/
theorem endKeyObj_of_rules {env : Env} {kt : Str} {k3 : EKey} {p : Option (Bool × List Str)}
    (hrel : PlusRel p k3) (hfin : k3.name = ['+'] → k3.finished = false)
    (hok : ∀ keys, p = some (k3.multi, keys) → defaultKeysOK env kt k3.multi keys = true) :
    ∃ k4, endKeyObj env (.ok kt) k3 = .ok k4 ∧ k4.attr = k3.attr ∧ PlusRel p k4 := by
  unfold endKeyObj
  by_cases hplus : k3.name = ['+']
  · have hb : (k3.name == ['+']) = true := by simp [hplus]
    rw [if_pos hb]
    have hrel' := hrel
    unfold PlusRel at hrel'
    rw [if_pos hplus] at hrel'
    obtain ⟨keys, hp, _, _⟩ := hrel'
    subst hp
    obtain ⟨d, hcd⟩ := computeDefault_of_rules hplus hrel (hok keys rfl)
    simp only [bind, Except.bind]
    rw [hcd]
    simp only
    unfold finishKey
    simp only [hfin hplus, Bool.false_eq_true, ↓reduceIte]
    exact ⟨_, rfl, rfl, hrel.computed d true⟩
  · have hb : (k3.name == ['+']) = false := by simpa using hplus
    rw [hb]
    exact ⟨k3, rfl, rfl, hrel⟩

/-- `</multikey>`: the finished key object -/
theorem endMultikeyObj_of_rules {env : Env} {kt : Str} {k3 : EKey} {p : Option (Bool × List Str)}
    (hrel : PlusRel p k3) (hfin : k3.finished = false)
    (hok : ∀ keys, p = some (k3.multi, keys) → defaultKeysOK env kt k3.multi keys = true) :
    ∃ k4, endMultikeyObj env (.ok kt) k3 = .ok k4 ∧ k4.attr = k3.attr ∧ PlusRel p k4 := by
  unfold endMultikeyObj
  by_cases hplus : k3.name = ['+']
  · have hb : (k3.name == ['+']) = true := by simp [hplus]
    rw [if_pos hb]
    have hrel' := hrel
    unfold PlusRel at hrel'
    rw [if_pos hplus] at hrel'
    obtain ⟨keys, hp, _, _⟩ := hrel'
    subst hp
    obtain ⟨d, hcd⟩ := computeDefault_of_rules hplus hrel (hok keys rfl)
    simp only [bind, Except.bind]
    rw [hcd]
    simp only
    unfold finishKey
    simp only [hfin, Bool.false_eq_true, ↓reduceIte]
    exact ⟨_, rfl, rfl, hrel.computed d true⟩
  · have hb : (k3.name == ['+']) = false := by simpa using hplus
    rw [hb]
    simp only [Bool.false_eq_true, ↓reduceIte, pure, Except.pure, bind, Except.bind]
    unfold finishKey
    simp only [hfin, Bool.false_eq_true, ↓reduceIte]
    refine ⟨_, rfl, rfl, ?_⟩
    unfold PlusRel at hrel ⊢
    rw [if_neg hplus] at hrel
    rw [if_neg (show ({ k3 with finished := true } : EKey).name ≠ ['+'] from hplus)]
    exact hrel

/-- **a rule-abiding `<key>` element is accepted**, and adds to the container on top of the stack the child the
specification predicts -/
theorem keyElem_ok {env : Env} {h : Hooks} {d : DocKind} {parent pfx kt : Str} {ps : List Str} {st : PSt}
    {ch : List (Option Str × EInfo)} {ms : List Member} {a : Attrs} {c : List Node}
    (hch : topOf st.es st.stack = .ok ch) (hkt : ktOf st.es st.stack = .ok kt) (hp : st.prefixes = pfx :: ps)
    (hms : Pointwise MemberRel ms ch) (hn : nestingOK parent "key".toList = true)
    (hok : keyOK env (!isComp d) pfx kt ms false a c = true) :
    ∃ x, visitElem env h d (some parent) st (.elem "key".toList a c) =
        .ok { st with es := setTopOf st.es st.stack (ch ++ [x]) } ∧
      MemberRel (keyMember env kt false a c) x := by
  unfold keyOK at hok
  simp only [Bool.and_eq_true, Bool.false_eq_true, ↓reduceIte] at hok
  obtain ⟨⟨⟨⟨⟨⟨⟨⟨⟨⟨⟨⟨⟨⟨⟨⟨r1, rstar⟩, r2⟩, r3⟩, r4⟩, r5⟩, r6⟩, r7⟩, r8⟩, rkey⟩, rattr⟩, rreq⟩, rkeying⟩, rplace⟩, rdk⟩, rbody⟩, ronce⟩ := hok
  have hkt' : topKeytype st = .ok kt := by rw [topKeytype_ktOf]; exact hkt
  obtain ⟨dt, hd, hki⟩ := getKeyInfo_of_rules hkt' hp r1 rstar r2 r3 r4 r5 r6 r7
  have hreq := getRequired_of_rules r8
  -- abbreviations
  generalize hnm : keyNameOf env kt a = nm at hki
  have hnm' : (storedName env kt (nameOf a none)).getD [] = nm := hnm
  rw [hnm'] at rkey rattr rkeying rplace rdk r5
  -- the key object after the start tag
  have hstart : ∃ k2 : EKey, KeyObj nm (attrOf a nm) (isRequired a) k2 ∧ k2.finished = (nm != ['+']) ∧
      startKey env st a = .ok { st with es := setTopOf st.es st.stack (ch ++ [(some nm, .key k2)]),
                                        stack := .key k2 :: st.stack } := by
    obtain ⟨k1, hk1, ho1, hf1⟩ := keyStart_of_rules (nm := nm) (dt := dt) (at_ := attrOf a nm) (hd := hd) rreq rkeying
    obtain ⟨k2, ho2, hf2, hk2⟩ := keyTail_of_rules hch hms ho1 hf1 rkey rattr
    refine ⟨k2, ho2, hf2, ?_⟩
    rw [startKey_eq', hki, hreq]
    simp only [bind, Except.bind]
    rw [hk1]
    exact hk2
  obtain ⟨k2, ⟨f1, f2, f3, f4, f5, f6, f7, f9⟩, f8, hstart⟩ := hstart
  rw [visitElem_handled hn (by decide +kernel), startHandled_key, hstart]
  simp only [bind, Except.bind]
  -- the body
  obtain ⟨ho1, ho2⟩ := onceOK_split ronce
  have hpre : KeyBodyPre (isComp d) k2 c :=
    { desc := by rw [f5]; exact ho1, ex := by rw [f6]; exact ho2,
      open_ := by
        intro hne
        have hnr : isRequired a = false := by
          unfold noDefaultIfRequired at rreq
          cases hr : isRequired a with
          | false => rfl
          | true =>
            rw [hr] at rreq
            simp only [Bool.not_true, Bool.false_or, Bool.and_eq_true, List.isEmpty_iff] at rreq
            exact absurd rreq.2 hne
        have hplus : nm = ['+'] := by
          unfold defaultPlacement at rplace
          simp only [Bool.false_eq_true, ↓reduceIte, Bool.or_eq_true, beq_iff_eq, List.isEmpty_iff] at rplace
          rcases rplace with h | h
          · exact h
          · exact absurd h hne
        refine ⟨by rw [f7, hnr]; rfl, ?_⟩
        rw [f8, hplus]; rfl,
      keyed := by
        intro hplus
        rw [f1] at hplus
        unfold defaultKeying at rkeying
        rw [hplus] at rkeying
        simp only [beq_self_eq_true, ↓reduceIte, Bool.and_eq_true] at rkeying
        exact rkeying.2,
      unkeyed := by
        intro hplus
        rw [f1] at hplus
        unfold defaultKeying at rkeying
        have : (nm == ['+']) = false := by simpa using hplus
        rw [this] at rkeying
        simpa using rkeying,
      single := by
        intro hplus _
        rw [f1] at hplus
        refine ⟨[], f9 hplus, ?_⟩
        simp only [List.map_nil, List.nil_append]
        have : (nm != ['+']) = false := by simp [hplus]
        rw [this, Bool.false_or] at rdk
        exact nodup_of_map _ (defaultKeysOK_nodup rdk),
      multi := fun _ hc => (by rw [f3] at hc; cases hc),
      fixedMulti := fun _ hc => (by rw [f3] at hc; cases hc),
      fixedSingle := by
        intro hplus _
        rw [f1] at hplus
        unfold defaultPlacement at rplace
        simp only [Bool.false_eq_true, ↓reduceIte, Bool.or_eq_true, beq_iff_eq, List.isEmpty_iff] at rplace
        rcases rplace with h | h
        · exact absurd h hplus
        · exact h }
  obtain ⟨bd, be, d', hbody, hafter⟩ := keyBody_ok (env := env) (h := h) (parent := "key".toList) st.stack c
    { st with es := setTopOf st.es st.stack (ch ++ [(some nm, .key k2)]), stack := .key k2 :: st.stack } k2 rfl rbody hpre
  rw [hbody]
  simp only
  -- the end tag
  have hend : endHandled env "key".toList = endKey env := by funext s; rfl
  rw [hend, endKey_eq_obj (k := { k2 with hasDesc := bd, hasEx := be, dflt := d' }) (rest := st.stack) rfl]
  simp only
  rw [ktOf_setTopOf, hkt]
  have htop : topOf (setTopOf st.es st.stack (ch ++ [(some nm, EInfo.key k2)])) st.stack =
      .ok (ch ++ [(some nm, EInfo.key k2)]) := topOf_setTopOf hch
  have hrel3 := plusRel_after (k2 := k2) (c := c) (d' := d') bd be f4
    (fun hplus _ => f9 (by rw [← f1]; exact hplus)) (fun _ hc => (by rw [f3] at hc; cases hc)) hafter
  obtain ⟨k4, hk4, hattr4, hrel4⟩ := endKeyObj_of_rules (env := env) (kt := kt) hrel3
    (by
      intro hplus
      show k2.finished = false
      rw [f8]
      have : nm = ['+'] := by rw [← f1]; exact hplus
      rw [this]; rfl)
    (by
      intro keys hk
      by_cases hplus : k2.name = ['+']
      · simp only [hplus, beq_self_eq_true, ↓reduceIte, Option.some.injEq, Prod.mk.injEq] at hk
        have hnp : (nm != ['+']) = false := by rw [← f1, hplus]; rfl
        rw [hnp, Bool.false_or] at rdk
        rw [← hk.2]
        show defaultKeysOK env kt k2.multi (plusKeys c) = true
        rw [f3]; exact rdk
      · have : (k2.name == ['+']) = false := by simpa using hplus
        rw [this] at hk
        cases hk)
  rw [hk4]
  simp only [bind, Except.bind]
  rw [replaceLastChild_congr (st' := { st with es := setTopOf st.es st.stack (ch ++ [(some nm, EInfo.key k2)]) })
    (ch := ch) (key := some nm) (k0 := k2) htop]
  simp only [setTopOf_setTopOf]
  refine ⟨(some nm, .key k4), rfl, ?_, ?_, ?_⟩
  · show some ((storedName env kt (nameOf a none)).getD []) = some nm
    rw [hnm']
  · show attrOf a ((storedName env kt (nameOf a none)).getD []) = k4.attr
    rw [hnm', hattr4]
    exact f2.symm
  · show PlusRel (keyMember env kt false a c).plus k4
    have hpl : (keyMember env kt false a c).plus = if k2.name == ['+'] then some (k2.multi, plusKeys c) else none := by
      unfold keyMember
      simp only [hnm', f1, f3]
    rw [hpl]
    exact hrel4

/-! ### `<multikey>` -/

/-- **a rule-abiding `<multikey>` element is accepted** -/
theorem multikeyElem_ok {env : Env} {h : Hooks} {d : DocKind} {parent pfx kt : Str} {ps : List Str} {st : PSt}
    {ch : List (Option Str × EInfo)} {ms : List Member} {a : Attrs} {c : List Node}
    (hch : topOf st.es st.stack = .ok ch) (hkt : ktOf st.es st.stack = .ok kt) (hp : st.prefixes = pfx :: ps)
    (hms : Pointwise MemberRel ms ch) (hn : nestingOK parent "multikey".toList = true)
    (hok : keyOK env (!isComp d) pfx kt ms true a c = true) :
    ∃ x, visitElem env h d (some parent) st (.elem "multikey".toList a c) =
        .ok { st with es := setTopOf st.es st.stack (ch ++ [x]) } ∧
      MemberRel (keyMember env kt true a c) x := by
  unfold keyOK at hok
  simp only [Bool.and_eq_true, ↓reduceIte] at hok
  obtain ⟨⟨⟨⟨⟨⟨⟨⟨⟨⟨⟨⟨⟨⟨⟨⟨r1, rstar⟩, r2⟩, r3⟩, r4⟩, r5⟩, r6⟩, r7⟩, r8⟩, rkey⟩, rattr⟩, rreq⟩, rkeying⟩, rplace⟩, rdk⟩, rbody⟩, ronce⟩ := hok
  have hkt' : topKeytype st = .ok kt := by rw [topKeytype_ktOf]; exact hkt
  obtain ⟨dt, hd, hki⟩ := getKeyInfo_of_rules hkt' hp r1 rstar r2 r3 r4 r5 r6 r7
  have hreq := getRequired_of_rules r8
  generalize hnm : keyNameOf env kt a = nm at hki
  have hnm' : (storedName env kt (nameOf a none)).getD [] = nm := hnm
  rw [hnm'] at rkey rattr rkeying rplace rdk r5
  -- the start tag
  have hnod : hasAttr a "default" = false := by
    unfold defaultPlacement at rplace
    simp only [↓reduceIte] at rplace
    unfold hasAttr
    cases hx : attr a "default" with
    | none => rfl
    | some v => rw [hx] at rplace; cases rplace
  generalize hk2 : newKey (nm, dt, hd, attrOf a nm) (isRequired a) true = k2
  have f1 : k2.name = nm := by rw [← hk2]; rfl
  have f2 : k2.attr = attrOf a nm := by rw [← hk2]; rfl
  have f3 : k2.multi = true := by rw [← hk2]; rfl
  have f4 : k2.raw = none := by rw [← hk2]; rfl
  have f5 : k2.hasDesc = false := by rw [← hk2]; rfl
  have f6 : k2.hasEx = false := by rw [← hk2]; rfl
  have f7 : k2.minOccurs = (if isRequired a then 1 else 0) := by rw [← hk2]; rfl
  have f8 : k2.finished = false := by rw [← hk2]; rfl
  have f9 : nm = ['+'] → k2.dflt = .keyedMany [] := by
    intro hplus; rw [← hk2]; simp [newKey, hplus]
  have f10 : nm ≠ ['+'] → k2.dflt = .many [] := by
    intro hplus
    have : (nm == ['+']) = false := by simpa using hplus
    rw [← hk2]; simp [newKey, this]
  have hstart : startMultikey env st a =
      .ok { st with es := setTopOf st.es st.stack (ch ++ [(some nm, .key k2)]), stack := .key k2 :: st.stack } := by
    rw [startMultikey_eq, hnod]
    simp only [Bool.false_eq_true, ↓reduceIte, hki, hreq, bind, Except.bind]
    rw [hk2]
    have hfree : addChild st (some nm) (.key k2) = .ok (setTopChildren st (ch ++ [(some nm, .key k2)])) := by
      apply addChild_fresh _ _ (by rw [topChildren_eq]; exact hch) (keyFree_notDup hms rkey)
      have : (EInfo.key k2).attr = attrOf a nm := f2
      rw [this]
      exact attrFree_notDup hms rattr
    rw [hfree, setTopChildren_eq]
    rfl
  rw [visitElem_handled hn (by decide +kernel), startHandled_multikey, hstart]
  simp only [bind, Except.bind]
  -- the body
  obtain ⟨ho1, ho2⟩ := onceOK_split ronce
  have hpre : KeyBodyPre (isComp d) k2 c :=
    { desc := by rw [f5]; exact ho1, ex := by rw [f6]; exact ho2,
      open_ := by
        intro hne
        have hnr : isRequired a = false := by
          unfold noDefaultIfRequired at rreq
          cases hr : isRequired a with
          | false => rfl
          | true =>
            rw [hr] at rreq
            simp only [Bool.not_true, Bool.false_or, Bool.and_eq_true, List.isEmpty_iff] at rreq
            exact absurd rreq.2 hne
        exact ⟨by rw [f7, hnr]; rfl, f8⟩,
      keyed := by
        intro hplus
        rw [f1] at hplus
        unfold defaultKeying at rkeying
        rw [hplus] at rkeying
        simp only [beq_self_eq_true, ↓reduceIte, Bool.and_eq_true] at rkeying
        exact rkeying.2,
      unkeyed := by
        intro hplus
        rw [f1] at hplus
        unfold defaultKeying at rkeying
        have : (nm == ['+']) = false := by simpa using hplus
        rw [this] at rkeying
        simpa using rkeying,
      single := fun _ hc => (by rw [f3] at hc; cases hc),
      multi := fun hplus _ => ⟨[], f9 (by rw [← f1]; exact hplus)⟩,
      fixedMulti := fun hplus _ => ⟨[], f10 (by rw [← f1]; exact hplus)⟩,
      fixedSingle := fun _ hc => (by rw [f3] at hc; cases hc) }
  obtain ⟨bd, be, d', hbody, hafter⟩ := keyBody_ok (env := env) (h := h) (parent := "multikey".toList) st.stack c
    { st with es := setTopOf st.es st.stack (ch ++ [(some nm, .key k2)]), stack := .key k2 :: st.stack } k2 rfl rbody hpre
  rw [hbody]
  simp only
  -- the end tag
  have hend : endHandled env "multikey".toList = endMultikey env := by funext s; rfl
  rw [hend, endMultikey_eq_obj (k := { k2 with hasDesc := bd, hasEx := be, dflt := d' }) (rest := st.stack) rfl]
  simp only
  rw [ktOf_setTopOf, hkt]
  have htop : topOf (setTopOf st.es st.stack (ch ++ [(some nm, EInfo.key k2)])) st.stack =
      .ok (ch ++ [(some nm, EInfo.key k2)]) := topOf_setTopOf hch
  have hrel3 := plusRel_after (k2 := k2) (c := c) (d' := d') bd be f4
    (fun _ hc => (by rw [f3] at hc; cases hc)) (fun hplus _ => f9 (by rw [← f1]; exact hplus)) hafter
  obtain ⟨k4, hk4, hattr4, hrel4⟩ := endMultikeyObj_of_rules (env := env) (kt := kt) hrel3 f8
    (by
      intro keys hk
      by_cases hplus : k2.name = ['+']
      · simp only [hplus, beq_self_eq_true, ↓reduceIte, Option.some.injEq, Prod.mk.injEq] at hk
        have hnp : (nm != ['+']) = false := by rw [← f1, hplus]; rfl
        rw [hnp, Bool.false_or] at rdk
        rw [← hk.2]
        show defaultKeysOK env kt k2.multi (plusKeys c) = true
        rw [f3]; exact rdk
      · have : (k2.name == ['+']) = false := by simpa using hplus
        rw [this] at hk
        cases hk)
  rw [hk4]
  simp only [bind, Except.bind]
  rw [replaceLastChild_congr (st' := { st with es := setTopOf st.es st.stack (ch ++ [(some nm, EInfo.key k2)]) })
    (ch := ch) (key := some nm) (k0 := k2) htop]
  simp only [setTopOf_setTopOf]
  refine ⟨(some nm, .key k4), rfl, ?_, ?_, ?_⟩
  · show some ((storedName env kt (nameOf a none)).getD []) = some nm
    rw [hnm']
  · show attrOf a ((storedName env kt (nameOf a none)).getD []) = k4.attr
    rw [hnm', hattr4]
    exact f2.symm
  · show PlusRel (keyMember env kt true a c).plus k4
    have hpl : (keyMember env kt true a c).plus = if k2.name == ['+'] then some (k2.multi, plusKeys c) else none := by
      unfold keyMember
      simp only [hnm', f1, f3]
    rw [hpl]
    exact hrel4

/-! ### `<section>`, `<multisection>` -/

theorem getSectiontype_of_rules {st : PSt} {names : List Str} {a : Attrs} (hnames : st.es.typeNames = names)
    (h : typeRefOK names a = true) : ∃ ty, getSectiontype st a = .ok ty := by
  unfold typeRefOK at h
  cases ha : attr a "type" with
  | none => rw [ha] at h; cases h
  | some v =>
    cases v with
    | nil => rw [ha] at h; cases h
    | cons c cs =>
      rw [ha] at h
      simp only at h
      refine ⟨_, er_getSectiontype_known st a (c :: cs) ha (by simp) ?_⟩
      rw [hnames]
      exact List.contains_iff_mem.mp h

/-- the name a rule-abiding section is stored under -/
def sectNameOf (env : Env) (kt : Str) (a : Attrs) : Str := (storedName env kt (nameOf a (some ['*']))).getD []

theorem storedName_wild {env : Env} {kt n : Str} (h : isWild n = true) : storedName env kt n = some n := by
  unfold storedName; rw [if_pos h]

theorem startSectionObj_of_rules {env : Env} {st : PSt} {kt : Str} {names : List Str} {a : Attrs}
    (hkt : topKeytype st = .ok kt) (hnames : st.es.typeNames = names)
    (r1 : typeRefOK names a = true) (r2 : handlerOK a = true) (r3 : requiredOK a = true)
    (r4 : nameGiven a (some ['*']) = true) (r5 : attributeWF a = true)
    (r6 : wildHasAttr a (nameOf a (some ['*'])) = true) (r7 : fixedNameOK env kt a (nameOf a (some ['*'])) = true)
    (r8 : (isWild (nameOf a (some ['*'])) || !isWild (sectNameOf env kt a)) = true) :
    ∃ si : SectInfo, si.attr = attrOf a (sectNameOf env kt a) ∧
      startSectionObj (getSectiontype st a) (getNameInfo env st a (some ['*'])) a = .ok (sectKey env kt a, si) := by
  obtain ⟨ty, hty⟩ := getSectiontype_of_rules hnames r1
  obtain ⟨hd, hhd⟩ := getHandler_of_rules r2
  unfold startSectionObj
  rw [hty, hhd, getRequired_of_rules r3, getNameInfo_of_rules hkt r4 r5 r6 r7]
  unfold nameInfoOf sectKey
  by_cases hw : isWild (nameOf a (some ['*'])) = true
  · simp only [hw, ↓reduceIte, bind, Except.bind, pure, Except.pure]
    exact ⟨_, rfl, rfl⟩
  · have hw' : isWild (nameOf a (some ['*'])) = false := by simpa using hw
    rw [hw', Bool.false_or] at r8
    have hnw : ¬ (sectNameOf env kt a = ['*'] ∨ sectNameOf env kt a = ['+']) := by
      intro hc
      have := (isWild_iff _).2 hc
      rw [this] at r8; cases r8
    have hchk : ((some (sectNameOf env kt a) == some ['*']) || (some (sectNameOf env kt a) == some ['+'])) = false := by
      simp only [Bool.or_eq_false_iff, beq_eq_false_iff_ne, ne_eq, Option.some.injEq]
      exact ⟨fun hc => hnw (Or.inl hc), fun hc => hnw (Or.inr hc)⟩
    simp only [hw', Bool.false_eq_true, ↓reduceIte, bind, Except.bind, pure, Except.pure]
    unfold sectNameOf at hchk
    simp only [hchk, Bool.false_eq_true, ↓reduceIte]
    exact ⟨_, rfl, rfl⟩

theorem startMultisectionObj_of_rules {env : Env} {st : PSt} {kt : Str} {names : List Str} {a : Attrs}
    (hkt : topKeytype st = .ok kt) (hnames : st.es.typeNames = names)
    (r1 : typeRefOK names a = true) (r2 : handlerOK a = true) (r3 : requiredOK a = true)
    (r4 : nameGiven a (some ['*']) = true) (r5 : attributeWF a = true)
    (r6 : wildHasAttr a (nameOf a (some ['*'])) = true) (r7 : fixedNameOK env kt a (nameOf a (some ['*'])) = true)
    (r8 : (isWild (nameOf a (some ['*'])) && Gen.multisectionNames.contains (nameOf a (some ['*']))) = true) :
    ∃ si : SectInfo, si.attr = attrOf a (sectNameOf env kt a) ∧
      startMultisectionObj (getSectiontype st a) (getNameInfo env st a (some ['*'])) a = .ok (sectKey env kt a, si) := by
  obtain ⟨ty, hty⟩ := getSectiontype_of_rules hnames r1
  obtain ⟨hd, hhd⟩ := getHandler_of_rules r2
  simp only [Bool.and_eq_true] at r8
  obtain ⟨hw, hmn⟩ := r8
  unfold startMultisectionObj
  rw [hty, getRequired_of_rules r3, getNameInfo_of_rules hkt r4 r5 r6 r7]
  unfold nameInfoOf sectKey
  simp only [hw, ↓reduceIte, bind, Except.bind, pure, Except.pure, hmn, Bool.not_true, Bool.false_eq_true, hhd]
  exact ⟨_, rfl, rfl⟩

theorem nestingOK_key_default : nestingOK "key".toList "default".toList = true := by decide +kernel

/-- the flow through a section element, once its start handler is known -/
theorem sectFlow_ok {env : Env} {h : Hooks} {d : DocKind} {parent tag : Str} {st : PSt} {ch : List (Option Str × EInfo)} {a : Attrs}
    {c : List Node} {key : Option Str} {si : SectInfo} (ht : tag ∈ Gen.handledTags)
    (hpar : nestingOK tag "default".toList = false) (hend : endHandled env tag = popFrame)
    (hn : nestingOK parent tag = true)
    (hstart : startHandled env h tag a st =
      (addChild st key (.sect si) >>= fun st' => pure { st' with stack := .sect false false :: st'.stack }))
    (hfree : addChild st key (.sect si) = .ok (setTopChildren st (ch ++ [(key, .sect si)])))
    (rbody : leafBodyOK tag c = true) (ronce : onceOK (!isComp d) c = true) :
    visitElem env h d (some parent) st (.elem tag a c) =
      .ok { st with es := setTopOf st.es st.stack (ch ++ [(key, .sect si)]) } := by
  rw [visitElem_handled hn ht, hstart, hfree, setTopChildren_eq]
  simp only [bind, Except.bind, pure, Except.pure]
  obtain ⟨ho1, ho2⟩ := onceOK_split ronce
  obtain ⟨d', e', hbody⟩ := sectBody_ok (env := env) (h := h) (parent := tag) hpar st.stack c
    { st with es := setTopOf st.es st.stack (ch ++ [(key, .sect si)]), stack := .sect false false :: st.stack }
    false false rfl rbody ho1 ho2
  rw [hbody, hend]
  rfl

/-- **a rule-abiding `<section>` element is accepted** -/
theorem sectionElem_ok {env : Env} {h : Hooks} {d : DocKind} {parent kt : Str} {names : List Str} {st : PSt}
    {ch : List (Option Str × EInfo)} {ms : List Member} {a : Attrs} {c : List Node}
    (hch : topOf st.es st.stack = .ok ch) (hkt : ktOf st.es st.stack = .ok kt) (hnames : st.es.typeNames = names)
    (hms : Pointwise MemberRel ms ch) (hn : nestingOK parent "section".toList = true)
    (hok : sectionOK env (!isComp d) kt names ms false a c = true) :
    ∃ x, visitElem env h d (some parent) st (.elem "section".toList a c) =
        .ok { st with es := setTopOf st.es st.stack (ch ++ [x]) } ∧
      MemberRel (sectMember env kt a) x := by
  unfold sectionOK at hok
  simp only [Bool.and_eq_true, Bool.false_eq_true, ↓reduceIte] at hok
  obtain ⟨⟨⟨⟨⟨⟨⟨⟨⟨⟨⟨r1, r2⟩, r3⟩, r4⟩, r5⟩, r6⟩, r7⟩, r8⟩, rkey⟩, rattr⟩, rbody⟩, ronce⟩ := hok
  have hkt' : topKeytype st = .ok kt := by rw [topKeytype_ktOf]; exact hkt
  obtain ⟨si, hsi, hobj⟩ := startSectionObj_of_rules hkt' hnames r1 r2 r3 r4 r5 r6 r7 r8
  have hfree : addChild st (sectKey env kt a) (.sect si) =
      .ok (setTopChildren st (ch ++ [(sectKey env kt a, .sect si)])) := by
    apply addChild_fresh _ _ (by rw [topChildren_eq]; exact hch) (keyFree_notDup hms rkey)
    have : (EInfo.sect si).attr = attrOf a (sectNameOf env kt a) := hsi
    rw [this]
    exact attrFree_notDup hms rattr
  refine ⟨(sectKey env kt a, .sect si), ?_, rfl, hsi.symm, rfl⟩
  apply sectFlow_ok (by decide +kernel) (by decide +kernel) (by funext s; rfl) hn _ hfree rbody ronce
  rw [startHandled_section, startSection_eq_obj, hobj]
  rfl

/-- **a rule-abiding `<multisection>` element is accepted** -/
theorem multisectionElem_ok {env : Env} {h : Hooks} {d : DocKind} {parent kt : Str} {names : List Str} {st : PSt}
    {ch : List (Option Str × EInfo)} {ms : List Member} {a : Attrs} {c : List Node}
    (hch : topOf st.es st.stack = .ok ch) (hkt : ktOf st.es st.stack = .ok kt) (hnames : st.es.typeNames = names)
    (hms : Pointwise MemberRel ms ch) (hn : nestingOK parent "multisection".toList = true)
    (hok : sectionOK env (!isComp d) kt names ms true a c = true) :
    ∃ x, visitElem env h d (some parent) st (.elem "multisection".toList a c) =
        .ok { st with es := setTopOf st.es st.stack (ch ++ [x]) } ∧
      MemberRel (sectMember env kt a) x := by
  unfold sectionOK at hok
  simp only [Bool.and_eq_true, ↓reduceIte] at hok
  obtain ⟨⟨⟨⟨⟨⟨⟨⟨⟨⟨⟨r1, r2⟩, r3⟩, r4⟩, r5⟩, r6⟩, r7⟩, r8⟩, rkey⟩, rattr⟩, rbody⟩, ronce⟩ := hok
  have hkt' : topKeytype st = .ok kt := by rw [topKeytype_ktOf]; exact hkt
  obtain ⟨si, hsi, hobj⟩ := startMultisectionObj_of_rules hkt' hnames r1 r2 r3 r4 r5 r6 r7
    (by simp only [Bool.and_eq_true]; exact r8)
  have hfree : addChild st (sectKey env kt a) (.sect si) =
      .ok (setTopChildren st (ch ++ [(sectKey env kt a, .sect si)])) := by
    apply addChild_fresh _ _ (by rw [topChildren_eq]; exact hch) (keyFree_notDup hms rkey)
    have : (EInfo.sect si).attr = attrOf a (sectNameOf env kt a) := hsi
    rw [this]
    exact attrFree_notDup hms rattr
  refine ⟨(sectKey env kt a, .sect si), ?_, rfl, hsi.symm, rfl⟩
  apply sectFlow_ok (by decide +kernel) (by decide +kernel) (by funext s; rfl) hn _ hfree rbody ronce
  rw [startHandled_multisection, startMultisection_eq_obj, hobj]
  rfl

end ZCV.SchemaRules
