import ZCV.Model.Validator
import ZCV.Model.Matcher
/-! Lemmas about the validator loop. -/
namespace ZCV.Validator
open ZCV

/-- the message of an invalid file -/
def msgOf : Outcome → Option Str
  | .cfgError m => some m
  | _ => none

def isInvalid : Outcome → Bool
  | .cfgError _ => true
  | _ => false

def isInternal : Outcome → Bool
  | .internal _ => true
  | _ => false

@[simp] theorem filterMap_valid (rest : List Outcome) : (Outcome.valid :: rest).filterMap msgOf = rest.filterMap msgOf := rfl
@[simp] theorem filterMap_cfgError (m : Str) (rest : List Outcome) :
    (Outcome.cfgError m :: rest).filterMap msgOf = m :: rest.filterMap msgOf := rfl
@[simp] theorem filterMap_internal (e : Str) (rest : List Outcome) :
    (Outcome.internal e :: rest).filterMap msgOf = rest.filterMap msgOf := rfl

theorem loop_spec (files : List Outcome) (hf : ∀ o ∈ files, isInternal o = false) (errors : Bool) (printed : List Str) :
    loop files errors printed =
      .exit (if errors || files.any isInvalid then 1 else 0) (printed ++ files.filterMap msgOf) := by
  induction files generalizing errors printed with
  | nil => simp [loop]
  | cons o rest ih =>
    have hr : ∀ o ∈ rest, isInternal o = false := fun o h => hf o (List.mem_cons_of_mem _ h)
    cases o with
    | valid => simp [loop, ih hr, isInvalid]
    | cfgError m => simp [loop, ih hr, isInvalid]
    | internal e => have := hf (.internal e) (List.mem_cons_self ..); simp [isInternal] at this

theorem filterMap_msgOf_length (files : List Outcome) :
    (files.filterMap msgOf).length = files.countP isInvalid := by
  induction files with
  | nil => rfl
  | cons o rest ih => cases o <;> simp [isInvalid, List.countP_cons, ih]

/-- an exception that is not a configuration error ends the command at that file: nothing after it is looked at -/
theorem loop_escapes (pre : List Outcome) (hpre : ∀ o ∈ pre, isInternal o = false) (e : Str) (post : List Outcome)
    (errors : Bool) (printed : List Str) :
    loop (pre ++ .internal e :: post) errors printed = .escaped e (printed ++ pre.filterMap msgOf) := by
  induction pre generalizing errors printed with
  | nil => simp [loop]
  | cons o rest ih =>
    have hr : ∀ o ∈ rest, isInternal o = false := fun o h => hpre o (List.mem_cons_of_mem _ h)
    cases o with
    | valid => simp [loop, ih hr]
    | cfgError m => simp [loop, ih hr]
    | internal e' => have := hpre (.internal e') (List.mem_cons_self ..); simp [isInternal] at this

/-- how the model's `load` outcome is seen by the validator loop; `render` is `str(e)` -/
def outcomeOf {α : Type} (render : Cfg.Err → Str) : Except Cfg.Fail α → Outcome
  | .ok _ => .valid
  | .error (.cfg e) => .cfgError (render e)
  | .error (.dtExc n) => .internal n
  | .error (.internal x) => .internal x.toList

end ZCV.Validator
