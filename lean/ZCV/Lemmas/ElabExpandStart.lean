import ZCV.Lemmas.ElabExpandType
/-!
C11 (`extends` = written-out expansion), step 8: `start_sectiontype` on `<sectiontype extends=b …>` equals
`start_sectiontype` on the written-out attributes followed by "give the new type the base's children".
-/
namespace ZCV.Elab
open ZCV ZCV.Cfg

theorem basicKeyE_spec {b nb : Str} (h : DTSpec.basicKey b = .ok nb) : basicKeyE b = .ok nb := by
  unfold basicKeyE
  rw [DT.basicKey_eq_spec, h]

theorem gettype_updType (es : ES) (n : Str) (f : EType → EType) (x : Str) :
    (es.updType n f).gettype x =
      (es.gettype x).map (fun p => if p.1 == n then (p.1, match p.2 with | .concrete t => .concrete (f t) | a => a) else (p.1, p.2)) := by
  unfold ES.gettype ES.updType
  simp only
  rw [find_map_key _ _ (by intro ⟨k, e⟩; dsimp only; split <;> rfl)]
  cases es.types.find? (·.1 == lower x) with
  | none => rfl
  | some q => obtain ⟨k, e⟩ := q; rfl

/-- `implements` and "set the children of the new type" commute -/
theorem implStep_updType (a a' : Attrs) (himp : attr a' "implements" = attr a "implements") (name n : Str)
    (f : EType → EType) (es : ES) :
    implStep a name (es.updType n f) = (implStep a' name es).map (fun e => e.updType n f) := by
  unfold implStep
  rw [himp]
  cases attr a "implements" with
  | none => rfl
  | some i =>
    simp only [bind, Except.bind, pure, Except.pure]
    cases basicKeyE i with
    | error e => rfl
    | ok ifn =>
      simp only
      rw [gettype_updType]
      cases es.gettype ifn with
      | none => rfl
      | some q =>
        obtain ⟨an, e⟩ := q
        simp only [Option.map_some]
        cases e with
        | concrete t =>
          by_cases hk : (an == n) = true
          · simp only [hk, ↓reduceIte]; rfl
          · simp only [hk, Bool.false_eq_true, ↓reduceIte]; rfl
        | abstract_ x y z =>
          have : (if (an == n) = true then (an, (match EEntry.abstract_ x y z with | .concrete t => EEntry.concrete (f t) | a => a))
              else (an, EEntry.abstract_ x y z)) = (an, EEntry.abstract_ x y z) := by split <;> rfl
          simp only [this, Except.map]
          congr 1
          unfold ES.updType
          simp only [List.map_map, ES.mk.injEq, and_true]
          apply List.map_congr_left
          intro ⟨k, e'⟩ _
          simp only [Function.comp]
          cases e' with
          | concrete t' =>
            by_cases h1 : (k == n) = true <;> by_cases h2 : (k == an) = true <;>
              simp only [h1, h2, ↓reduceIte, Bool.false_eq_true]
          | abstract_ x' y' z' =>
            by_cases h1 : (k == n) = true <;> by_cases h2 : (k == an) = true <;>
              simp only [h1, h2, ↓reduceIte, Bool.false_eq_true]

theorem getSectTypeinfo_kt {env : Env} {st : PSt} {a : Attrs} {bk bd kt dt : Str} (hnokt : attr a "keytype" = none)
    (h : getSectTypeinfo env st a (some (bk, bd)) = .ok (kt, dt)) : kt = bk := by
  unfold getSectTypeinfo at h
  rw [bind_ok] at h
  obtain ⟨kt', hkt, h⟩ := h
  rw [bind_ok] at h
  obtain ⟨vt, _, h⟩ := h
  rw [bind_ok] at h
  obtain ⟨dt', _, h⟩ := h
  simp only [pure, Except.pure, Except.ok.injEq, Prod.mk.injEq] at h
  unfold getDatatype at hkt
  rw [hnokt] at hkt
  simp only [Option.map_some, Except.ok.injEq] at hkt
  rw [← h.1, ← hkt]

/-- entering a type that extends `base` under the same key type = entering the written-out type, then giving it the
    base's children -/
theorem stypeEntry_extends {env : Env} {st1 : PSt} {a ba : Attrs} {name b nb q : Str} {base : EType}
    (hext : attr a "extends" = some b) (hb : basicKeyE b = .ok nb)
    (hg : st1.es.gettype nb = some (q, .concrete base)) (hnokt : attr a "keytype" = none)
    (hcu : ComputedUnder env base.keytype base.children)
    (hT : getSectTypeinfo env st1 (expandedAttrs a ba) none = getSectTypeinfo env st1 a (some (base.keytype, base.datatype))) :
    stypeEntry env st1 a name =
      (stypeEntry env st1 (expandedAttrs a ba) name).map
        (fun es => es.updType name fun t => { t with children := base.children }) := by
  unfold stypeEntry
  rw [hext, attr_expanded_extends]
  simp only [hb, bind, Except.bind, hg, hT, pure, Except.pure]
  cases hti : getSectTypeinfo env st1 a (some (base.keytype, base.datatype)) with
  | error e => rfl
  | ok r =>
    obtain ⟨kt, dt⟩ := r
    have hkt := getSectTypeinfo_kt hnokt hti
    subst hkt
    simp only
    cases addType st1.es name (.concrete { name := some name, keytype := base.keytype, datatype := dt }) with
    | error e => rfl
    | ok es' =>
      simp only [deriveChildren_same_keytype hcu]
      rfl

theorem getDatatype_attr_congr {env : Env} {st : PSt} {a a' : Attrs} {key dflt : String} {base : Option Str}
    (h : attr a' key = attr a key) : getDatatype env st a' key dflt base = getDatatype env st a key dflt base := by
  unfold getDatatype
  rw [h]

theorem pushPrefix_congr (st : PSt) {a a' : Attrs} (h : attr a' "prefix" = attr a "prefix") :
    pushPrefix st a' = pushPrefix st a := by
  unfold pushPrefix
  rw [h]

/-- **`start_sectiontype` with `extends`**, when the derived type keeps the base's key type: the same as starting the
    written-out type and then giving it the base's children. -/
theorem startSectiontype_extends_eq {env : Env} {S0 : PSt} {a ba : Attrs} {b nb q : Str} {base : EType}
    (hext : attr a "extends" = some b) (hb : DTSpec.basicKey b = .ok nb)
    (hg : S0.es.gettype nb = some (q, .concrete base)) (hnokt : attr a "keytype" = none)
    (hcu : ComputedUnder env base.keytype base.children)
    (hkB : ∀ st1, pushPrefix S0 a = .ok st1 → getDatatype env st1 ba "keytype" "basic-key" none = .ok base.keytype)
    (hdB : ∀ st1, pushPrefix S0 a = .ok st1 → getDatatype env st1 ba "datatype" "null" none = .ok base.datatype) :
    startSectiontype env S0 a =
      (startSectiontype env S0 (expandedAttrs a ba)).map
        (fun s => { s with es := setTopOf s.es s.stack base.children }) := by
  rw [startSectiontype_eq_steps, startSectiontype_eq_steps]
  rw [attr_expanded_other a ba "name" (by decide) (by decide) (by decide)]
  cases attr a "name" with
  | none => rfl
  | some n =>
    cases n with
    | nil => rfl
    | cons c cs =>
      simp only [bind, Except.bind, pure, Except.pure]
      cases basicKeyE (c :: cs) with
      | error e => rfl
      | ok name =>
        simp only
        rw [pushPrefix_congr S0 (attr_expanded_other a ba "prefix" (by decide) (by decide) (by decide))]
        cases hpp : pushPrefix S0 a with
        | error e => rfl
        | ok st1 =>
          simp only
          obtain ⟨x, hst1⟩ := pushPrefix_eff hpp
          have hg1 : st1.es.gettype nb = some (q, .concrete base) := by rw [hst1]; exact hg
          have hT : getSectTypeinfo env st1 (expandedAttrs a ba) none =
              getSectTypeinfo env st1 a (some (base.keytype, base.datatype)) := by
            unfold getSectTypeinfo
            simp only [Option.map_none, Option.map_some]
            rw [getDatatype_inherit (hkB st1 hpp) (attr_expanded_keytype a ba),
              getDatatype_inherit (hdB st1 hpp) (attr_expanded_datatype a ba),
              getDatatype_attr_congr (attr_expanded_other a ba "valuetype" (by decide) (by decide) (by decide))]
          rw [stypeEntry_extends (name := name) hext (basicKeyE_spec hb) hg1 hnokt hcu hT]
          cases stypeEntry env st1 (expandedAttrs a ba) name with
          | error e => rfl
          | ok es2 =>
            simp only [Except.map]
            rw [implStep_updType a (expandedAttrs a ba)
              (attr_expanded_other a ba "implements" (by decide) (by decide) (by decide))]
            cases implStep (expandedAttrs a ba) name es2 with
            | error e => rfl
            | ok es3 => rfl

end ZCV.Elab
