import ZCV.Model.Regex
/-! Character-class reasoning: everything is reduced to linear arithmetic on code points. -/
namespace ZCV

theorem ceq (c d : Char) : (c == d) = (c.toNat == d.toNat) := by
  rw [Bool.eq_iff_iff]; simp only [beq_iff_eq]
  constructor
  · intro h; rw [h]
  · intro h; rw [← Char.ofNat_toNat c, ← Char.ofNat_toNat d, h]

theorem cne (c d : Char) : (c != d) = (c.toNat != d.toNat) := by
  simp only [bne, ceq]

/-- closes goals `k.test c = <boolean combination of inRange / == on c>` for literal classes -/
macro "cls_arith" : tactic => `(tactic| (
  simp only [Rx.Cls.test, Rx.Item.test, inRange, isAsciiLetter, isAsciiDigit, ceq, cne,
    List.any_cons, List.any_nil, Char.reduceToNat]
  generalize Char.toNat _ = n
  rw [Bool.eq_iff_iff]
  simp
  try omega))

end ZCV
