import ZCV.Lemmas.ElabNoIntFlat
import ZCV.Lemmas.ElabInv
/-!
C10, no internal errors: closed instances.  The hypotheses of `elab_internal_only_recursion` / `elab_no_internal` are
satisfiable by a non-trivial document (base schema + component), and dropping any one of them makes the statement false.
(Datatype names are dotted so that the closed terms reduce in the kernel: stock names go through the regular-expression
matcher, which is defined by well-founded recursion.)
-/
namespace ZCV.Elab
open ZCV ZCV.Cfg

/-- does `x` fail with exactly `e`? -/
def failsWith {α} (x : EM α) (e : EFail) : Bool :=
  match x with
  | .error e' => e' == e
  | .ok _ => false

/-- the regular-expression conversions, through their structural specifications (the matcher is defined by
    well-founded recursion and does not reduce in the kernel) -/
theorem basicKeyE_eval (s : Str) : basicKeyE s =
    match DTSpec.basicKey s with
    | .ok r => .ok r
    | .error _ => serr "value did not match regular expression" := by
  unfold basicKeyE; rw [DT.basicKey_eq_spec]; cases DTSpec.basicKey s <;> rfl

theorem identifierE_eval (s : Str) : identifierE s =
    match DTSpec.identifier s with
    | .ok r => .ok r
    | .error _ => serr "not a valid Python identifier" := by
  unfold identifierE; rw [DT.identifier_eq_spec]; cases DTSpec.identifier s <;> rfl

theorem regGet_eval (env : Env) (name : Str) : regGet env name =
    if name.contains '.' then
      match env.dotted name with
      | .found c => .ok c
      | .valueError => serr "datatype (registry ValueError)"
      | .raises e => .error (.internal e)
    else
      match DTSpec.basicKey name with
      | .error _ => serr "value did not match regular expression"
      | .ok n => if Gen.stockNames.contains n then .ok n else serr "unloadable datatype name" := by
  unfold regGet; rw [DT.basicKey_eq_spec]
  split
  · rfl
  · cases DTSpec.basicKey name <;> rfl

/-- evaluation of the loader on a closed document: unfold down to the regular-expression conversions, replace them by
    their structural specifications, let the kernel do the rest -/
macro "eval_elab" : tactic =>
  `(tactic| (simp only [elabSchema, elabES, visitElem, visitChildren, startHandled,
      startSectiontype, startAbstracttype, startKey, startMultikey, startSection, startMultisection, getKeyInfo,
      getNameInfo, getHandler, getSectTypeinfo, getDatatype, basicKeyE_eval, identifierE_eval,
      regGet_eval]; decide +kernel))

namespace NoIntExample

def rootAttrs : Attrs :=
  [("keytype".toList, "a.k".toList), ("valuetype".toList, "a.v".toList), ("datatype".toList, "a.d".toList)]

/-- an environment that satisfies all hypotheses: every key type behaves like `string` -/
def envOK : Env :=
  { conv := { stockConv with key := fun _ s => .ok s }, dotted := fun _ => .found "d.t".toList,
    comps := fun _ _ => .doc Example.comp, bases := fun _ => some Example.base }

theorem envOK_ni : EnvNI envOK := by
  refine ⟨?_, ?_, ?_⟩
  · intro n e h; cases h
  · intro kt s e h; cases h
  · intro kt s r h hany
    have hr : s = r := by
      have : (Except.ok s : Except ConvErr Str) = .ok r := h
      injection this
    subst hr
    simp only [Gen.anyNames, List.contains_eq_mem, List.mem_cons, List.not_mem_nil, or_false, decide_eq_false_iff_not,
      not_or] at hany
    exact hany

theorem envOK_trees : EnvTrees NoSrc envOK := by
  refine ⟨?_, ?_⟩
  · intro p f t h
    have : Example.comp = t := by
      have : CompRes.doc Example.comp = CompRes.doc t := h
      injection this
    subst this
    show noImportSrc Example.comp = true
    decide +kernel
  · intro s t h
    have : Example.base = t := by
      have : some Example.base = some t := h
      injection this
    subst this
    show noImportSrc Example.base = true
    decide +kernel

/-- the document of `ElabInv` (extends a base schema, imports a component) is accepted at fuel 1 … -/
theorem doc_accepted : (elabSchema envOK 1 Example.doc).toOption.isSome = true := by decide +kernel

/-- … so `elab_no_internal` applies to it, non-vacuously -/
example (e : String) : elabSchema envOK 1 Example.doc ≠ .error (.internal e) := by
  refine elab_no_internal envOK 1 Example.doc e envOK_ni envOK_trees (by show noImportSrc Example.doc = true; decide +kernel) ?_
  intro h
  have := doc_accepted
  rw [h] at this
  cases this

/-! #### each hypothesis is needed -/

/-- (fuel) the same document at fuel 0: the base schema is reached with no fuel left -/
example : failsWith (elabSchema envOK 0 Example.doc) (.internal "RecursionError") = true := by decide +kernel

/-- (1) a registry that raises for a dotted name: ImportError escapes -/
def envRaises : Env := { envOK with dotted := fun _ => .raises "ImportError" }
example : failsWith (elabSchema envRaises 0 (.elem "schema".toList rootAttrs [])) (.internal "ImportError") = true := by
  decide +kernel

/-- (2) a key type that fails with something else than ValueError: the TypeError escapes -/
def envTypeError : Env := { envOK with conv := { stockConv with key := fun _ _ => .error .typeError } }
example : failsWith (elabSchema envTypeError 0
    (.elem "schema".toList rootAttrs [.elem "key".toList [("name".toList, "x".toList)] []]))
    (.internal "TypeError") = true := by decide +kernel

/-- (3) `<import src=…>` is not covered by the model -/
example : failsWith (elabSchema envOK 0
    (.elem "schema".toList rootAttrs [.elem "import".toList [("src".toList, "x.xml".toList)] []]))
    (.internal "unmodelled: import src") = true := by decide +kernel

/-- (6) a key type that turns the fixed name `foo` into the wildcard name `+`: the `assert` of `addsection` fails -/
def envWild : Env := { envOK with conv := { stockConv with key := fun _ _ => .ok ['+'] } }

set_option maxRecDepth 100000 in
example : failsWith (elabSchema envWild 0
    (.elem "schema".toList rootAttrs
      [.elem "sectiontype".toList (("name".toList, "t".toList) :: rootAttrs) [],
       .elem "section".toList [("type".toList, "t".toList), ("name".toList, "foo".toList), ("attribute".toList, "a".toList)] []]))
    (.internal "AssertionError") = true := by eval_elab

/-- the `conversion` outcome: a `<default key=…>` of a `+` key whose key the key type rejects (with ValueError) -/
def envReject : Env :=
  { envOK with conv := { stockConv with key := fun _ s => if s == "bad".toList then .error .valueError else .ok s } }

theorem envReject_ni : EnvNI envReject := by
  refine ⟨fun n e h => (by cases h), ?_, ?_⟩
  · intro kt s e h
    have h' : (if s == "bad".toList then (.error .valueError : Except ConvErr Str) else .ok s) = .error e := h
    split at h'
    · injection h' with h'; exact h'.symm
    · cases h'
  · intro kt s r h hany
    have h' : (if s == "bad".toList then (.error .valueError : Except ConvErr Str) else .ok s) = .ok r := h
    split at h'
    · cases h'
    · injection h' with h'
      subst h'
      simp only [Gen.anyNames, List.contains_eq_mem, List.mem_cons, List.not_mem_nil, or_false, decide_eq_false_iff_not,
        not_or] at hany
      exact hany

set_option maxRecDepth 100000 in
example : failsWith (elabSchema envReject 0
    (.elem "schema".toList rootAttrs
      [.elem "key".toList [("name".toList, "+".toList), ("attribute".toList, "a".toList), ("datatype".toList, "a.d".toList)]
        [.elem "default".toList [("key".toList, "bad".toList)] [.text "v".toList]]]))
    (.conversion "default key") = true := by eval_elab

end NoIntExample
end ZCV.Elab
