import ZCV.Lemmas.LayoutRel
import ZCV.Lemmas.LayoutErase
/-!
C15 at the level of the loader: inserting a blank or comment line changes neither the configuration the loader
returns nor whether it rejects the text (tree builder respects "equal up to positions"; the schema's value ignores
positions; the loader computes the schema's value).
-/
namespace ZCV.Conf
open ZCV ZCV.Cfg

def eraseLevel (x : Str × Option Str × List Item) : Str × Option Str × List Item := (x.1, x.2.1, eraseItems x.2.2)

/-- tree-builder states that differ only in recorded positions -/
def TBrel (a b : TB) : Prop := a.stack.map eraseLevel = b.stack.map eraseLevel

theorem treeCtx_posSim : PosSim treeCtx TBrel where
  start := by
    intro a b ty nm h
    show TBrel _ _
    unfold TBrel at h ⊢
    simp only [List.map_cons, h]
  stop := by
    intro a b ty nm h
    show relM TBrel (tbStop a ty nm) (tbStop b ty nm)
    unfold TBrel at h
    unfold tbStop
    cases ha : a.stack with
    | nil =>
      rw [ha] at h
      have hb : b.stack = [] := by simpa using h.symm
      rw [hb]; exact trivial
    | cons x ra =>
      cases hb : b.stack with
      | nil => rw [ha, hb] at h; simp at h
      | cons y rb =>
        rw [ha, hb] at h
        simp only [List.map_cons, List.cons.injEq] at h
        obtain ⟨hxy, hr⟩ := h
        cases ra with
        | nil =>
          have : rb = [] := by simpa using hr.symm
          subst this
          exact trivial
        | cons x2 ra2 =>
          cases rb with
          | nil => simp at hr
          | cons y2 rb2 =>
            simp only [List.map_cons, List.cons.injEq] at hr
            obtain ⟨hxy2, hr2⟩ := hr
            obtain ⟨ty1, nm1, its1⟩ := x
            obtain ⟨ty2, nm2, its2⟩ := y
            obtain ⟨pty1, pnm1, pits1⟩ := x2
            obtain ⟨pty2, pnm2, pits2⟩ := y2
            simp only [eraseLevel, Prod.mk.injEq] at hxy hxy2
            obtain ⟨e1, e2, e3⟩ := hxy
            obtain ⟨f1, f2, f3⟩ := hxy2
            subst e1 e2 f1 f2
            show TBrel _ _
            unfold TBrel
            simp only [List.map_cons, eraseLevel, hr2, eraseItems_cons, eraseItem, eraseItems_reverse, e3, f3]
  value := by
    intro a b k v p p' h
    show relM TBrel (tbValue a k v p) (tbValue b k v p')
    unfold TBrel at h
    unfold tbValue
    cases ha : a.stack with
    | nil =>
      rw [ha] at h
      have hb : b.stack = [] := by simpa using h.symm
      rw [hb]; exact trivial
    | cons x ra =>
      cases hb : b.stack with
      | nil => rw [ha, hb] at h; simp at h
      | cons y rb =>
        rw [ha, hb] at h
        simp only [List.map_cons, List.cons.injEq] at h
        obtain ⟨hxy, hr⟩ := h
        obtain ⟨ty1, nm1, its1⟩ := x
        obtain ⟨ty2, nm2, its2⟩ := y
        simp only [eraseLevel, Prod.mk.injEq] at hxy
        obtain ⟨e1, e2, e3⟩ := hxy
        subst e1 e2
        show TBrel _ _
        unfold TBrel
        simp only [List.map_cons, eraseLevel, hr, eraseItems_cons, eraseItem, e3]
  imp := by
    intro a b pkg _
    exact trivial

/-- the trees of the two texts agree up to positions, or both texts are rejected by the parser -/
theorem treeOf_insert_skip (env : Env) (url : Option Str) (A B : List Str) (l : Str)
    (hl : lineShape (strip l) = .skip) :
    relM (fun x y => eraseItems x = eraseItems y) (treeOf env url (A ++ l :: B)) (treeOf env url (A ++ B)) := by
  rw [treeOf_eq, treeOf_eq]
  refine relM_bind (insert_skip_rel treeCtx TBrel treeCtx_posSim env 64 (activeOf url) url A B l 0 _ _ hl
    ⟨rfl, rfl, rfl⟩) ?_
  intro s1 s2 h12
  have h := h12.1
  unfold TBrel at h
  cases h1 : s1.ctx.stack with
  | nil =>
    rw [h1] at h
    have h2 : s2.ctx.stack = [] := by simpa using h.symm
    rw [h2]; exact trivial
  | cons x r1 =>
    cases h2 : s2.ctx.stack with
    | nil => rw [h1, h2] at h; simp at h
    | cons y r2 =>
      rw [h1, h2] at h
      simp only [List.map_cons, List.cons.injEq] at h
      obtain ⟨hxy, hr⟩ := h
      obtain ⟨ty1, nm1, its1⟩ := x
      obtain ⟨ty2, nm2, its2⟩ := y
      cases r1 with
      | nil =>
        have : r2 = [] := by simpa using hr.symm
        subst this
        simp only [eraseLevel, Prod.mk.injEq] at hxy
        show eraseItems its1.reverse = eraseItems its2.reverse
        rw [eraseItems_reverse, eraseItems_reverse, hxy.2.2]
      | cons x2 r12 =>
        cases r2 with
        | nil => simp at hr
        | cons y2 r22 => exact trivial

/-- **the loader: same configuration, or both texts rejected** (texts without `%import`, no overrides) -/
theorem load_insert_skip (conv : Conv) (env : Env) (pkgs : Str → Pkg) (s : Schema) (url : Option Str)
    (A B : List Str) (l : Str) (hs : schemaOK s = true) (hlow : ∀ x : Str, lower (lower x) = lower x)
    (hkeys : ∀ p ∈ s.types, lower p.1 = p.1)
    (hni : ∀ x ∈ A ++ B, NoImportLine x) (hres : ∀ u ls, env.res u = some ls → ∀ x ∈ ls, NoImportLine x)
    (hl : lineShape (strip l) = .skip) :
    (load conv env pkgs s url (A ++ l :: B) []).toOption.map (·.value) =
      (load conv env pkgs s url (A ++ B) []).toOption.map (·.value) := by
  have hni' : ∀ x ∈ A ++ l :: B, NoImportLine x := by
    intro x hx
    simp only [List.mem_append, List.mem_cons] at hx
    rcases hx with hx | hx | hx
    · exact hni x (by simp [hx])
    · subst hx; intro a ha; rw [hl] at ha; cases ha
    · exact hni x (by simp [hx])
  rw [load_eq_loadTree conv env pkgs s url _ hni' hres, load_eq_loadTree conv env pkgs s url _ hni hres]
  have hrel := treeOf_insert_skip env url A B l hl
  cases h1 : treeOf env url (A ++ l :: B) with
  | error e =>
    cases h2 : treeOf env url (A ++ B) with
    | error e' => rfl
    | ok items' => rw [h1, h2] at hrel; exact hrel.elim
  | ok items =>
    cases h2 : treeOf env url (A ++ B) with
    | error e' => rw [h1, h2] at hrel; exact hrel.elim
    | ok items' =>
      rw [h1, h2] at hrel
      have hrel' : eraseItems items = eraseItems items' := hrel
      have c1 := treeOf_tyCanon env url _ s items hs hlow hkeys h1
      have c2 := treeOf_tyCanon env url _ s items' hs hlow hkeys h2
      simp only [toOption_ok, Option.bind_some]
      rw [loadTree_eq_denote conv s items hs c1, loadTree_eq_denote conv s items' hs c2,
        ← denote_erase conv s items, ← denote_erase conv s items', hrel']

end ZCV.Conf
