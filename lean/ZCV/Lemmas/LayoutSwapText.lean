import ZCV.Lemmas.LayoutLoad
/-!
C15 at the level of the TEXT and the loader: swapping two neighbouring key lines of a text whose keys go to different
attributes of the section that is open at that point changes neither the configuration the loader returns nor whether
it rejects the text.  (The tree builder is simulated on the two texts: the two stacks differ by one swap, first in the
open section, later — once that section is closed — inside the corresponding sub-tree.)
-/
namespace ZCV.Conf
open ZCV ZCV.Cfg

/-- `SwapIn`, plus: anything may change inside a section whose type is not a concrete type of the schema (such a
    section never conforms, whatever it holds) -/
inductive SwJ (conv : Conv) (s : Schema) : SType → List Item → List Item → Prop
  | here {t : SType} (A B : List Item) (x y : Item) : Indep conv t x y →
      SwJ conv s t (A ++ x :: y :: B) (A ++ y :: x :: B)
  | inside {t t' : SType} (A B : List Item) (ty : Str) (nm : Option Str) (items items' : List Item) :
      s.gettype ty = some (.concrete t') → SwJ conv s t' items items' →
      SwJ conv s t (A ++ .sect ty nm items :: B) (A ++ .sect ty nm items' :: B)
  | junk {t : SType} (A B : List Item) (ty : Str) (nm : Option Str) (items items' : List Item) :
      (∀ t', s.gettype ty ≠ some (.concrete t')) →
      SwJ conv s t (A ++ .sect ty nm items :: B) (A ++ .sect ty nm items' :: B)

theorem itemVal_junk (conv : Conv) (s : Schema) (ty : Str) (nm : Option Str) (items : List Item)
    (h : ∀ t', s.gettype ty ≠ some (.concrete t')) : itemVal conv s (.sect ty nm items) = none := by
  rw [itemVal]
  split
  · rename_i t ht; exact absurd ht (h t)
  · rfl

theorem containerVal_SwJ (conv : Conv) (s : Schema) {t : SType} {items items' : List Item}
    (h : SwJ conv s t items items') :
    ∀ nm, containerVal conv s t nm items (itemVals conv s items) = containerVal conv s t nm items' (itemVals conv s items') := by
  induction h with
  | here A B x y hi => intro nm; exact containerVal_swap conv s _ nm A B x y hi
  | @inside t t' A B ty nm' its its' hty _ ih =>
    intro nm
    rw [containerVal_eq_core', containerVal_eq_core']
    have hv := itemVal_sect_congr conv s ty nm' its its' t' hty (ih nm')
    have hs : subsOf' conv s (A ++ .sect ty nm' its :: B) = subsOf' conv s (A ++ .sect ty nm' its' :: B) := by
      simp only [subsOf'_append, subsOf'_sect, hv]
    have hk : keyLines conv t (A ++ .sect ty nm' its :: B) = keyLines conv t (A ++ .sect ty nm' its' :: B) := by
      simp only [keyLines_append, keyLines_sect]
    rw [hs, hk]
  | @junk t A B ty nm' its its' hty =>
    intro nm
    rw [containerVal_eq_core', containerVal_eq_core']
    have hs : subsOf' conv s (A ++ .sect ty nm' its :: B) = subsOf' conv s (A ++ .sect ty nm' its' :: B) := by
      simp only [subsOf'_append, subsOf'_sect, itemVal_junk conv s ty nm' _ hty]
    have hk : keyLines conv t (A ++ .sect ty nm' its :: B) = keyLines conv t (A ++ .sect ty nm' its' :: B) := by
      simp only [keyLines_append, keyLines_sect]
    rw [hs, hk]

theorem denote_SwJ (conv : Conv) (s : Schema) {items items' : List Item} (h : SwJ conv s s.top items items') :
    denote conv s items = denote conv s items' := by
  unfold denote
  rw [containerVal_SwJ conv s h none]

theorem SwJ_append_right (conv : Conv) (s : Schema) {t : SType} {X X' : List Item} (C : List Item)
    (h : SwJ conv s t X X') : SwJ conv s t (X ++ C) (X' ++ C) := by
  cases h with
  | here A B x y hi =>
    have := SwJ.here (conv := conv) (s := s) (t := t) A (B ++ C) x y hi
    simpa [List.append_assoc] using this
  | inside A B ty nm its its' hty hsub =>
    have := SwJ.inside (conv := conv) (s := s) (t := t) A (B ++ C) ty nm its its' hty hsub
    simpa [List.append_assoc] using this
  | junk A B ty nm its its' hty =>
    have := SwJ.junk (conv := conv) (s := s) (t := t) A (B ++ C) ty nm its its' hty
    simpa [List.append_assoc] using this

/-! ### the relation between the two tree-builder stacks -/

abbrev Level := Str × Option Str × List Item

/-- the items of an open section in file order, positions forgotten -/
def lvX (lv : Level) : List Item := eraseItems lv.2.2.reverse

/-- the type against which the items of an open section are read: the schema itself for the document level -/
def tyOf (s : Schema) (bottom : Bool) (ty : Str) : Option SType :=
  if bottom then some s.top
  else match s.gettype ty with
    | some (.concrete t) => some t
    | _ => none

/-- two versions of one open section that differ by a swap -/
def LvRel (conv : Conv) (s : Schema) (bottom : Bool) (lv lv' : Level) : Prop :=
  lv.1 = lv'.1 ∧ lv.2.1 = lv'.2.1 ∧
    match tyOf s bottom lv.1 with
    | some t => SwJ conv s t (lvX lv) (lvX lv')
    | none => True

/-- exactly one open section differs (by a swap); all others agree up to positions -/
inductive StackRel (conv : Conv) (s : Schema) : List Level → List Level → Prop
  | diff (lv lv' : Level) (rest rest' : List Level) : LvRel conv s rest.isEmpty lv lv' →
      rest.map eraseLevel = rest'.map eraseLevel → StackRel conv s (lv :: rest) (lv' :: rest')
  | same (lv lv' : Level) (rest rest' : List Level) : eraseLevel lv = eraseLevel lv' →
      StackRel conv s rest rest' → StackRel conv s (lv :: rest) (lv' :: rest')

def TBsw (conv : Conv) (s : Schema) (a b : TB) : Prop := StackRel conv s a.stack b.stack

theorem map_eq_isEmpty {α β} (f : α → β) {l l' : List α} (h : l.map f = l'.map f) : l.isEmpty = l'.isEmpty := by
  cases l <;> cases l' <;> simp_all

theorem stackRel_isEmpty (conv : Conv) (s : Schema) {a b : List Level} (h : StackRel conv s a b) :
    a.tail.isEmpty = b.tail.isEmpty := by
  cases h with
  | diff lv lv' rest rest' _ hr => exact map_eq_isEmpty _ hr
  | same lv lv' rest rest' _ hr =>
    cases hr <;> rfl

theorem lvX_cons (i : Item) (ty : Str) (nm : Option Str) (its : List Item) :
    lvX (ty, nm, i :: its) = lvX (ty, nm, its) ++ [eraseItem i] := by
  simp only [lvX, List.reverse_cons, eraseItems_append, eraseItems_cons]
  rw [eraseItems]

theorem eraseLevel_lvX {lv lv' : Level} (h : eraseLevel lv = eraseLevel lv') : lvX lv = lvX lv' := by
  obtain ⟨ty, nm, its⟩ := lv
  obtain ⟨ty', nm', its'⟩ := lv'
  simp only [eraseLevel, Prod.mk.injEq] at h
  simp only [lvX, eraseItems_reverse, h.2.2]

/-- extending both versions of the differing section by the same item (up to positions) -/
theorem lvRel_cons (conv : Conv) (s : Schema) (bottom : Bool) (ty : Str) (nm : Option Str) (its its' : List Item)
    (i i' : Item) (hi : eraseItem i = eraseItem i') (h : LvRel conv s bottom (ty, nm, its) (ty, nm, its')) :
    LvRel conv s bottom (ty, nm, i :: its) (ty, nm, i' :: its') := by
  refine ⟨rfl, rfl, ?_⟩
  have h3 := h.2.2
  simp only at h3 ⊢
  cases ht : tyOf s bottom ty with
  | none => trivial
  | some t =>
    rw [ht] at h3
    simp only at h3 ⊢
    rw [lvX_cons, lvX_cons, hi]
    exact SwJ_append_right conv s _ h3

theorem treeCtx_swSim (conv : Conv) (s : Schema) : PosSim treeCtx (TBsw conv s) where
  start := by
    intro a b ty nm h
    show TBsw conv s _ _
    exact StackRel.same _ _ _ _ rfl h
  value := by
    intro a b k v p p' h
    show relM (TBsw conv s) (tbValue a k v p) (tbValue b k v p')
    obtain ⟨sa⟩ := a
    obtain ⟨sb⟩ := b
    unfold TBsw at h
    unfold tbValue
    simp only at h ⊢
    cases h with
    | diff lv lv' rest rest' hlv hr =>
      obtain ⟨ty, nm, its⟩ := lv
      obtain ⟨ty', nm', its'⟩ := lv'
      have e1 : ty = ty' := hlv.1
      have e2 : nm = nm' := hlv.2.1
      subst e1 e2
      show TBsw conv s _ _
      exact StackRel.diff _ _ _ _ (lvRel_cons conv s _ ty nm its its' _ _ (by rw [eraseItem, eraseItem]) hlv) hr
    | same lv lv' rest rest' hlv hr =>
      obtain ⟨ty, nm, its⟩ := lv
      obtain ⟨ty', nm', its'⟩ := lv'
      show TBsw conv s _ _
      refine StackRel.same _ _ _ _ ?_ hr
      simp only [eraseLevel, Prod.mk.injEq] at hlv ⊢
      refine ⟨hlv.1, hlv.2.1, ?_⟩
      rw [eraseItems_cons, eraseItems_cons, hlv.2.2, eraseItem, eraseItem]
  imp := by
    intro a b pkg _
    exact trivial
  stop := by
    intro a b ty0 nm0 h
    show relM (TBsw conv s) (tbStop a ty0 nm0) (tbStop b ty0 nm0)
    obtain ⟨sa⟩ := a
    obtain ⟨sb⟩ := b
    unfold TBsw at h
    unfold tbStop
    simp only at h ⊢
    cases h with
    | diff lv lv' rest rest' hlv hr =>
      -- the differing section is the innermost one
      cases rest with
      | nil =>
        have : rest' = [] := by simpa using hr.symm
        subst this
        exact trivial
      | cons y rest2 =>
        cases rest' with
        | nil => simp at hr
        | cons y' rest2' =>
          simp only [List.map_cons, List.cons.injEq] at hr
          obtain ⟨hy, hr2⟩ := hr
          obtain ⟨ty, nm, its⟩ := lv
          obtain ⟨ty', nm', its'⟩ := lv'
          obtain ⟨pty, pnm, pits⟩ := y
          obtain ⟨pty', pnm', pits'⟩ := y'
          have e1 : ty = ty' := hlv.1
          have e2 : nm = nm' := hlv.2.1
          subst e1 e2
          have hy' := hy
          simp only [eraseLevel, Prod.mk.injEq] at hy'
          obtain ⟨f1, f2, f3⟩ := hy'
          subst f1 f2
          show TBsw conv s _ _
          refine StackRel.diff _ _ _ _ ⟨rfl, rfl, ?_⟩ hr2
          simp only
          cases ht : tyOf s rest2.isEmpty pty with
          | none => trivial
          | some tp =>
            simp only
            have hX : lvX (pty, pnm, pits) = lvX (pty, pnm, pits') := eraseLevel_lvX hy
            rw [lvX_cons, lvX_cons, hX, eraseItem, eraseItem]
            have h3 := hlv.2.2
            simp only [List.isEmpty_cons, tyOf, Bool.false_eq_true, ↓reduceIte] at h3
            cases hg : s.gettype ty with
            | none =>
              exact SwJ.junk _ [] ty nm _ _ (by intro t' h; rw [hg] at h; cases h)
            | some te =>
              cases te with
              | abstract_ n subs =>
                exact SwJ.junk _ [] ty nm _ _ (by intro t' h; rw [hg] at h; cases h)
              | concrete t' =>
                rw [hg] at h3
                simp only at h3
                exact SwJ.inside _ [] ty nm _ _ hg h3
    | same lv lv' rest rest' hlv hr =>
      cases hr with
      | diff y y' rest2 rest2' hy hr2 =>
        obtain ⟨ty, nm, its⟩ := lv
        obtain ⟨ty', nm', its'⟩ := lv'
        obtain ⟨pty, pnm, pits⟩ := y
        obtain ⟨pty', pnm', pits'⟩ := y'
        have e1 : pty = pty' := hy.1
        have e2 : pnm = pnm' := hy.2.1
        subst e1 e2
        simp only [eraseLevel, Prod.mk.injEq] at hlv
        obtain ⟨g1, g2, g3⟩ := hlv
        subst g1 g2
        show TBsw conv s _ _
        refine StackRel.diff _ _ _ _ (lvRel_cons conv s _ pty pnm pits pits' _ _ ?_ hy) hr2
        rw [eraseItem, eraseItem, eraseItems_reverse, eraseItems_reverse, g3]
      | same y y' rest2 rest2' hy hr2 =>
        obtain ⟨ty, nm, its⟩ := lv
        obtain ⟨ty', nm', its'⟩ := lv'
        obtain ⟨pty, pnm, pits⟩ := y
        obtain ⟨pty', pnm', pits'⟩ := y'
        simp only [eraseLevel, Prod.mk.injEq] at hlv hy
        obtain ⟨g1, g2, g3⟩ := hlv
        obtain ⟨f1, f2, f3⟩ := hy
        subst g1 g2 f1 f2
        show TBsw conv s _ _
        refine StackRel.same _ _ _ _ ?_ hr2
        simp only [eraseLevel, Prod.mk.injEq, true_and]
        rw [eraseItems_cons, eraseItems_cons, f3, eraseItem, eraseItem, eraseItems_reverse, eraseItems_reverse, g3]

end ZCV.Conf

namespace ZCV.Conf
open ZCV ZCV.Cfg

/-! ### the two swapped lines -/

/-- in the section that is open at this point of the text, the two keys go to different attributes -/
def KeysIndepAt (conv : Conv) (s : Schema) (st : TB) (k1 k2 : Str) : Prop :=
  ∀ ty nm its rest, st.stack = (ty, nm, its) :: rest →
    ∀ t, tyOf s rest.isEmpty ty = some t → target conv t k1 ≠ target conv t k2

theorem stepLine_kv' {σ} (fuel : Nat) (env : Env) (c : PCtx σ) (active : List Str) (url : Option Str) (line : Nat)
    (l k raw : Str) (st : PS σ) (h : lineShape l = .kv k raw) :
    stepLine fuel env c active url line l st =
      ((if raw == [] then pure [] else replace env st.defs url line raw) >>= fun v => kvCore c url line k v st) := by
  rw [stepLine]; simp only [h]
  rw [keyValue_eq]

theorem kvVal_rel (env : Env) (defs : List (Str × Str)) (url : Option Str) (line line' : Nat) (raw : Str) :
    relM Eq (if raw == [] then (pure [] : M Str) else replace env defs url line raw)
      (if raw == [] then (pure [] : M Str) else replace env defs url line' raw) := by
  split
  · exact rfl
  · exact relM_replace env defs url line line' raw

theorem kvCore_tree_nil (url : Option Str) (line : Nat) (k v : Str) (st : PS TB) (h : st.ctx.stack = []) :
    ∃ e, kvCore treeCtx url line k v st = .error e := by
  unfold kvCore
  rw [show treeCtx.value = tbValue from rfl]
  unfold tbValue
  rw [h]
  exact ⟨_, rfl⟩

theorem kvCore_tree_cons (url : Option Str) (line : Nat) (k v : Str) (st : PS TB) (ty : Str) (nm : Option Str)
    (its : List Item) (rest : List Level) (h : st.ctx.stack = (ty, nm, its) :: rest) :
    kvCore treeCtx url line k v st =
      .ok { st with ctx := { stack := (ty, nm, Item.kv k v { line := line, url := url } :: its) :: rest } } := by
  unfold kvCore
  rw [show treeCtx.value = tbValue from rfl]
  unfold tbValue
  rw [h]

theorem parseLines_two {σ} (fuel : Nat) (env : Env) (c : PCtx σ) (active : List Str) (url : Option Str)
    (l1 l2 : Str) (B : List Str) (n : Nat) (st : PS σ) :
    parseLines fuel env c active url (l1 :: l2 :: B) n st =
      ((stepLine fuel env c active url (n + 1) (strip l1) st >>= fun s1 =>
          stepLine fuel env c active url (n + 1 + 1) (strip l2) s1) >>= fun s2 =>
        parseLines fuel env c active url B (n + 1 + 1) s2) := by
  rw [parseLines, bind_assoc]
  congr 1
  funext s1
  rw [parseLines]

theorem relM_err_left {α} {R : α → α → Prop} {x y : M α} (hx : ∃ e, x = .error e) (hy : ∃ e, y = .error e) :
    relM R x y := by
  obtain ⟨e, rfl⟩ := hx
  obtain ⟨e', rfl⟩ := hy
  exact trivial

theorem bind_err {α β} {x : M α} {f : α → M β} (h : ∃ e, x = .error e) : ∃ e, (x >>= f) = .error e := by
  obtain ⟨e, rfl⟩ := h
  exact ⟨e, rfl⟩

theorem two_lines_rel (conv : Conv) (s : Schema) (env : Env) (fuel : Nat) (active : List Str) (url : Option Str)
    (m : Nat) (l1 l2 k1 raw1 k2 raw2 : Str) (sA : PS TB)
    (h1 : lineShape (strip l1) = .kv k1 raw1) (h2 : lineShape (strip l2) = .kv k2 raw2)
    (hi : KeysIndepAt conv s sA.ctx k1 k2) :
    relM (RS (TBsw conv s))
      (stepLine fuel env treeCtx active url (m + 1) (strip l1) sA >>= fun s1 =>
        stepLine fuel env treeCtx active url (m + 1 + 1) (strip l2) s1)
      (stepLine fuel env treeCtx active url (m + 1) (strip l2) sA >>= fun s1 =>
        stepLine fuel env treeCtx active url (m + 1 + 1) (strip l1) s1) := by
  rw [stepLine_kv' _ _ _ _ _ _ _ _ _ _ h1, stepLine_kv' _ _ _ _ _ _ _ _ _ _ h2]
  -- the two expansions, at either line number
  have r1 := kvVal_rel env sA.defs url (m + 1) (m + 1 + 1) raw1
  have r2 := kvVal_rel env sA.defs url (m + 1) (m + 1 + 1) raw2
  cases hst : sA.ctx.stack with
  | nil =>
    apply relM_err_left
    · cases (if raw1 == [] then (pure [] : M Str) else replace env sA.defs url (m + 1) raw1) with
      | error e => exact ⟨e, rfl⟩
      | ok v =>
        obtain ⟨e, he⟩ := kvCore_tree_nil url (m + 1) k1 v sA hst
        exact ⟨e, by show (kvCore treeCtx url (m + 1) k1 v sA >>= _) = _; rw [he]; rfl⟩
    · cases (if raw2 == [] then (pure [] : M Str) else replace env sA.defs url (m + 1) raw2) with
      | error e => exact ⟨e, rfl⟩
      | ok v =>
        obtain ⟨e, he⟩ := kvCore_tree_nil url (m + 1) k2 v sA hst
        exact ⟨e, by show (kvCore treeCtx url (m + 1) k2 v sA >>= _) = _; rw [he]; rfl⟩
  | cons lv rest =>
    obtain ⟨ty, nm, its⟩ := lv
    -- the state after one accepted key line, and the step from it
    have hstep : ∀ (line line2 : Nat) (k v k' raw' l' : Str), lineShape (strip l') = .kv k' raw' →
        (kvCore treeCtx url line k v sA >>= fun s1 => stepLine fuel env treeCtx active url line2 (strip l') s1) =
          ((if raw' == [] then (pure [] : M Str) else replace env sA.defs url line2 raw') >>= fun v' =>
            (.ok { sA with ctx := { stack := (ty, nm, Item.kv k' v' { line := line2, url := url } ::
              Item.kv k v { line := line, url := url } :: its) :: rest } } : M (PS TB))) := by
      intro line line2 k v k' raw' l' hl'
      rw [kvCore_tree_cons url line k v sA ty nm its rest hst, ok_bind, stepLine_kv' _ _ _ _ _ _ _ _ _ _ hl']
      congr 1
    cases hr1 : (if raw1 == [] then (pure [] : M Str) else replace env sA.defs url (m + 1) raw1) with
    | error e1 =>
      rw [hr1] at r1
      apply relM_err_left ⟨e1, rfl⟩
      cases hr2 : (if raw2 == [] then (pure [] : M Str) else replace env sA.defs url (m + 1) raw2) with
      | error e2 => exact ⟨e2, rfl⟩
      | ok v2 =>
        show ∃ e, (kvCore treeCtx url (m + 1) k2 v2 sA >>= _) = Except.error e
        rw [hstep (m + 1) (m + 1 + 1) k2 v2 k1 raw1 l1 h1]
        cases hr1' : (if raw1 == [] then (pure [] : M Str) else replace env sA.defs url (m + 1 + 1) raw1) with
        | error e => exact ⟨e, rfl⟩
        | ok v => rw [hr1'] at r1; exact r1.elim
    | ok v1 =>
      rw [hr1] at r1
      cases hr1' : (if raw1 == [] then (pure [] : M Str) else replace env sA.defs url (m + 1 + 1) raw1) with
      | error e => rw [hr1'] at r1; exact r1.elim
      | ok v1' =>
        rw [hr1'] at r1
        have : v1 = v1' := r1
        subst this
        show relM _ (kvCore treeCtx url (m + 1) k1 v1 sA >>= _) _
        rw [hstep (m + 1) (m + 1 + 1) k1 v1 k2 raw2 l2 h2]
        cases hr2 : (if raw2 == [] then (pure [] : M Str) else replace env sA.defs url (m + 1) raw2) with
        | error e2 =>
          rw [hr2] at r2
          cases hr2' : (if raw2 == [] then (pure [] : M Str) else replace env sA.defs url (m + 1 + 1) raw2) with
          | error e => exact trivial
          | ok v => rw [hr2'] at r2; exact r2.elim
        | ok v2 =>
          rw [hr2] at r2
          cases hr2' : (if raw2 == [] then (pure [] : M Str) else replace env sA.defs url (m + 1 + 1) raw2) with
          | error e => rw [hr2'] at r2; exact r2.elim
          | ok v2' =>
            rw [hr2'] at r2
            have : v2 = v2' := r2
            subst this
            show relM _ _ (kvCore treeCtx url (m + 1) k2 v2 sA >>= _)
            rw [hstep (m + 1) (m + 1 + 1) k2 v2 k1 raw1 l1 h1, hr1']
            -- both accepted: the open section differs by the swap
            refine ⟨?_, rfl, rfl⟩
            show TBsw conv s _ _
            refine StackRel.diff _ _ _ _ ⟨rfl, rfl, ?_⟩ rfl
            simp only
            cases ht : tyOf s rest.isEmpty ty with
            | none => trivial
            | some t =>
              simp only
              rw [lvX_cons, lvX_cons, lvX_cons, lvX_cons, List.append_assoc, List.append_assoc, eraseItem, eraseItem]
              exact SwJ.here _ [] _ _ (hi ty nm its rest hst t ht)

/-- the trees of the two texts differ by the swap (up to positions), or both texts are rejected by the parser -/
theorem treeOf_swap_lines (conv : Conv) (s : Schema) (env : Env) (url : Option Str) (A B : List Str)
    (l1 l2 k1 raw1 k2 raw2 : Str)
    (h1 : lineShape (strip l1) = .kv k1 raw1) (h2 : lineShape (strip l2) = .kv k2 raw2)
    (hi : ∀ sA, runLines 64 env treeCtx (activeOf url) url A 0
        { ctx := { stack := [([], none, [])] }, stack := [], defs := [] } = .ok sA → KeysIndepAt conv s sA.ctx k1 k2) :
    relM (fun x y => SwJ conv s s.top (eraseItems x) (eraseItems y))
      (treeOf env url (A ++ l1 :: l2 :: B)) (treeOf env url (A ++ l2 :: l1 :: B)) := by
  rw [treeOf_eq, treeOf_eq]
  have hparse : relM (RS (TBsw conv s))
      (parseLines 64 env treeCtx (activeOf url) url (A ++ l1 :: l2 :: B) 0
        { ctx := { stack := [([], none, [])] }, stack := [], defs := [] })
      (parseLines 64 env treeCtx (activeOf url) url (A ++ l2 :: l1 :: B) 0
        { ctx := { stack := [([], none, [])] }, stack := [], defs := [] }) := by
    rw [parseLines_append, parseLines_append]
    cases hA : runLines 64 env treeCtx (activeOf url) url A 0
        { ctx := { stack := [([], none, [])] }, stack := [], defs := [] } with
    | error e => exact trivial
    | ok sA =>
      rw [ok_bind, ok_bind, parseLines_two, parseLines_two]
      exact relM_bind (two_lines_rel conv s env 64 (activeOf url) url (0 + A.length) l1 l2 k1 raw1 k2 raw2 sA h1 h2 (hi sA hA))
        (fun s1 s2 h12 => layout_parse_rel treeCtx (TBsw conv s) (treeCtx_swSim conv s) env 64 (activeOf url) url B _ _ s1 s2 h12)
  refine relM_bind hparse ?_
  intro s1 s2 h12
  have h : StackRel conv s s1.ctx.stack s2.ctx.stack := h12.1
  cases hs1 : s1.ctx.stack with
  | nil => rw [hs1] at h; cases h
  | cons lv r1 =>
    cases hs2 : s2.ctx.stack with
    | nil => rw [hs1, hs2] at h; cases h
    | cons lv' r2 =>
      rw [hs1, hs2] at h
      obtain ⟨ty, nm, its⟩ := lv
      obtain ⟨ty', nm', its'⟩ := lv'
      cases h with
      | diff _ _ _ _ hlv hr =>
        cases r1 with
        | nil =>
          have : r2 = [] := by simpa using hr.symm
          subst this
          have h3 := hlv.2.2
          simp only [List.isEmpty_nil, tyOf, ↓reduceIte] at h3
          exact h3
        | cons y r1' =>
          cases r2 with
          | nil => simp at hr
          | cons y' r2' => exact trivial
      | same _ _ _ _ _ hr =>
        cases hr <;> exact trivial

/-- **the loader: same configuration, or both texts rejected** -/
theorem load_swap_lines (conv : Conv) (env : Env) (pkgs : Str → Pkg) (s : Schema) (url : Option Str)
    (A B : List Str) (l1 l2 k1 raw1 k2 raw2 : Str)
    (hs : schemaOK s = true) (hlow : ∀ x : Str, lower (lower x) = lower x)
    (hkeys : ∀ p ∈ s.types, lower p.1 = p.1)
    (hni : ∀ x ∈ A ++ B, NoImportLine x) (hres : ∀ u ls, env.res u = some ls → ∀ x ∈ ls, NoImportLine x)
    (h1 : lineShape (strip l1) = .kv k1 raw1) (h2 : lineShape (strip l2) = .kv k2 raw2)
    (hi : ∀ sA, runLines 64 env treeCtx (activeOf url) url A 0
        { ctx := { stack := [([], none, [])] }, stack := [], defs := [] } = .ok sA → KeysIndepAt conv s sA.ctx k1 k2) :
    (load conv env pkgs s url (A ++ l1 :: l2 :: B) []).toOption.map (·.value) =
      (load conv env pkgs s url (A ++ l2 :: l1 :: B) []).toOption.map (·.value) := by
  have hn1 : NoImportLine l1 := by intro a ha; rw [h1] at ha; cases ha
  have hn2 : NoImportLine l2 := by intro a ha; rw [h2] at ha; cases ha
  have hniL : ∀ x ∈ A ++ l1 :: l2 :: B, NoImportLine x := by
    intro x hx
    simp only [List.mem_append, List.mem_cons] at hx
    rcases hx with hx | hx | hx | hx
    · exact hni x (by simp [hx])
    · subst hx; exact hn1
    · subst hx; exact hn2
    · exact hni x (by simp [hx])
  have hniR : ∀ x ∈ A ++ l2 :: l1 :: B, NoImportLine x := by
    intro x hx
    simp only [List.mem_append, List.mem_cons] at hx
    rcases hx with hx | hx | hx | hx
    · exact hni x (by simp [hx])
    · subst hx; exact hn2
    · subst hx; exact hn1
    · exact hni x (by simp [hx])
  rw [load_eq_loadTree conv env pkgs s url _ hniL hres, load_eq_loadTree conv env pkgs s url _ hniR hres]
  have hrel := treeOf_swap_lines conv s env url A B l1 l2 k1 raw1 k2 raw2 h1 h2 hi
  cases t1 : treeOf env url (A ++ l1 :: l2 :: B) with
  | error e =>
    cases t2 : treeOf env url (A ++ l2 :: l1 :: B) with
    | error e' => rfl
    | ok items' => rw [t1, t2] at hrel; exact hrel.elim
  | ok items =>
    cases t2 : treeOf env url (A ++ l2 :: l1 :: B) with
    | error e' => rw [t1, t2] at hrel; exact hrel.elim
    | ok items' =>
      rw [t1, t2] at hrel
      have hrel' : SwJ conv s s.top (eraseItems items) (eraseItems items') := hrel
      have c1 := treeOf_tyCanon env url _ s items hs hlow hkeys t1
      have c2 := treeOf_tyCanon env url _ s items' hs hlow hkeys t2
      simp only [toOption_ok, Option.bind_some]
      rw [loadTree_eq_denote conv s items hs c1, loadTree_eq_denote conv s items' hs c2,
        ← denote_erase conv s items, ← denote_erase conv s items', denote_SwJ conv s hrel']

end ZCV.Conf

namespace ZCV.Conf
open ZCV ZCV.Cfg

/-- a sufficient condition that does not mention the parse: in the schema itself and in every concrete section type of
    the schema the two keys go to different attributes -/
theorem keysIndepAt_of_schema (conv : Conv) (s : Schema) (st : TB) (k1 k2 : Str)
    (htop : target conv s.top k1 ≠ target conv s.top k2)
    (hall : ∀ ty t, s.gettype ty = some (.concrete t) → target conv t k1 ≠ target conv t k2) :
    KeysIndepAt conv s st k1 k2 := by
  intro ty nm its rest _ t ht
  unfold tyOf at ht
  split at ht
  · cases ht; exact htop
  · split at ht
    · rename_i t' hg
      cases ht
      exact hall ty _ hg
    · cases ht

end ZCV.Conf
