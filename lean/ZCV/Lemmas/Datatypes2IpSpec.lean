import ZCV.Lemmas.Datatypes2Ip
import ZCV.Lemmas.Datatypes2Chars
/-! `ipaddr-or-hostname`: the model (live pattern + `inet_pton`) against the documented contract; idempotence. -/
namespace ZCV.DT
open ZCV ZCV.Rx

theorem dt2_v6shape_colon (s : Str) (h : dt2V6Shape s = true) : s.contains ':' = true := by
  cases s with
  | nil => simp [dt2V6Shape] at h
  | cons c t =>
    simp only [dt2V6Shape, Bool.and_eq_true, List.contains_iff_mem] at h
    rw [List.contains_iff_mem]
    exact List.mem_cons_of_mem _ h.2

theorem dt2_v6shape_all (s : Str) (h : dt2V6Shape s = true) : s.all DTSpec.isV6Char = true :=
  List.all_eq_true.mpr (dt2_v6shape_chars s h)

/-- over the IPv6 alphabet with a colon, but the only colon is the first character: `inet_pton` refuses -/
theorem dt2_lone_leading_colon (s : Str) (ha : s.all DTSpec.isV6Char = true) (hc : s.contains ':' = true)
    (hn : dt2V6Shape s = false) : pton6 (lower s) = false := by
  cases s with
  | nil => simp at hc
  | cons c t =>
    simp only [List.all_cons, Bool.and_eq_true] at ha
    have hnt : ':' ∉ t := by
      intro hm
      have : dt2V6Shape (c :: t) = true := by simp [dt2V6Shape, ha.1, ha.2, hm]
      rw [hn] at this; cases this
    have hcc : c = ':' := by
      rw [List.contains_iff_mem, List.mem_cons] at hc
      rcases hc with h | h
      · exact h.symm
      · exact absurd h hnt
    subst hcc
    have hl : lower (':' :: t) = ':' :: lower t := rfl
    rw [hl]
    unfold pton6
    cases hlt : lower t with
    | nil => rfl
    | cons d r =>
      simp only
      split
      · rename_i heq
        injection heq with h1 _
        subst h1
        exfalso
        cases t with
        | nil => cases hlt
        | cons x t' =>
          have : lowerChar x = ':' := by
            have := hlt; unfold lower at this; simp only [List.map_cons, List.cons.injEq] at this; exact this.1
          rw [(dt2_lowerChar_colon x).mp this] at hnt
          exact hnt (by simp)
      · rfl

/-- **`ipaddr-or-hostname`**: the code computes exactly the documented contract -/
theorem dt2_ipaddrOrHostname_eq_spec (s : Str) : ipaddrOrHostname s = DTSpec.ipaddrOrHostname s := by
  unfold ipaddrOrHostname DTSpec.ipaddrOrHostname regexConv
  rw [dt2_ipaddr_matches]
  cases hq : DTSpec.isDottedQuad s with
  | true =>
    have hnc : (lower s).contains ':' = false := by
      rw [dt2_lower_contains_colon]
      cases h : s.contains ':' with
      | false => rfl
      | true => exact absurd (List.contains_iff_mem.mp h) (dt2_quad_no_colon s hq)
    simp only [Bool.true_or, ↓reduceIte, Except.map, bind, Except.bind, hnc, Bool.false_eq_true, pure, Except.pure]
  | false =>
    cases hv : dt2V6Shape s with
    | true =>
      have hc := dt2_v6shape_colon s hv
      have hnh : DTSpec.isHostname s = false := dt2_hostname_no_colon s (List.contains_iff_mem.mp hc)
      have hlc : (lower s).contains ':' = true := by rw [dt2_lower_contains_colon]; exact hc
      have hall := dt2_v6shape_all s hv
      simp only [Bool.false_or, Bool.true_or, ↓reduceIte, Except.map, bind, Except.bind, hlc, hnh,
        Bool.false_eq_true, hall, hc, Bool.true_and]
      cases pton6 (lower s) <;> rfl
    | false =>
      cases hh : DTSpec.isHostname s with
      | true =>
        have hnc : (lower s).contains ':' = false := by
          rw [dt2_lower_contains_colon]
          cases h : s.contains ':' with
          | false => rfl
          | true => rw [dt2_hostname_no_colon s (List.contains_iff_mem.mp h)] at hh; cases hh
        simp only [Bool.or_true, ↓reduceIte, Except.map, bind, Except.bind, hnc, Bool.false_eq_true, pure, Except.pure]
      | false =>
        simp only [Bool.or_self, Bool.false_eq_true, ↓reduceIte, Except.map, bind, Except.bind]
        split
        · rename_i h
          simp only [Bool.and_eq_true] at h
          rw [dt2_lone_leading_colon s h.1.1 h.1.2 hv] at h
          exact absurd h.2 (by simp)
        · rfl

/-! ## idempotence -/

/-- the acceptance condition of the contract -/
def dt2IpAcc (s : Str) : Prop :=
  DTSpec.isDottedQuad s = true ∨ DTSpec.isHostname s = true ∨
    (s.all DTSpec.isV6Char = true ∧ s.contains ':' = true ∧ pton6 (lower s) = true)

theorem dt2_spec_ok_iff (s r : Str) : DTSpec.ipaddrOrHostname s = .ok r ↔ r = lower s ∧ dt2IpAcc s := by
  unfold DTSpec.ipaddrOrHostname dt2IpAcc
  cases h1 : DTSpec.isDottedQuad s with
  | true => simp only [↓reduceIte, Except.ok.injEq, true_or, and_true]; exact eq_comm
  | false =>
    cases h2 : DTSpec.isHostname s with
    | true => simp only [Bool.false_eq_true, ↓reduceIte, Except.ok.injEq, true_or, or_true, and_true]; exact eq_comm
    | false =>
      simp only [Bool.false_eq_true, ↓reduceIte, false_or]
      split
      · rename_i h3
        simp only [Bool.and_eq_true] at h3
        simp only [Except.ok.injEq, h3, and_self, and_true]; exact eq_comm
      · rename_i h3
        simp only [Bool.and_eq_true] at h3
        simp only [reduceCtorEq, false_iff, not_and]
        intro _ h4 h5 h6; exact h3 ⟨⟨h4, h5⟩, h6⟩

theorem dt2_asciiLowerChar_lt (c : Char) (h : c.toNat < 128) : (asciiLowerChar c).toNat < 128 := by
  rw [asciiLowerChar_toNat]; split <;> omega

theorem dt2_lower_lower_ascii (s : Str) (h : ∀ c ∈ s, c.toNat < 128) : lower (lower s) = lower s := by
  rw [lower_ascii s h, lower_ascii (asciiLower s), asciiLower_idem]
  intro c hc
  unfold asciiLower at hc
  obtain ⟨d, hd, rfl⟩ := List.mem_map.mp hc
  exact dt2_asciiLowerChar_lt d (h d hd)

theorem dt2_isV6Char_ascii (c : Char) (h : DTSpec.isV6Char c = true) : c.toNat < 128 := by
  revert h
  simp only [DTSpec.isV6Char, isAsciiDigit, inRange, ceq, Char.reduceToNat]
  generalize c.toNat = n
  simp
  omega

theorem dt2_h2_ascii (c : Char) (h : (DTSpec.isHostChar c || c == '.') = true) : c.toNat < 128 := by
  revert h
  simp only [DTSpec.isHostChar, isAsciiLetter, isAsciiDigit, inRange, ceq, Char.reduceToNat]
  generalize c.toNat = n
  simp
  omega

theorem dt2_isV6Char_lower (c : Char) : DTSpec.isV6Char (asciiLowerChar c) = DTSpec.isV6Char c := by
  simp only [DTSpec.isV6Char, isAsciiDigit, inRange, ceq, asciiLowerChar_toNat, Char.reduceToNat]
  rw [Bool.eq_iff_iff]
  split <;> simp <;> omega

theorem dt2_isHostChar_lower (c : Char) : DTSpec.isHostChar (asciiLowerChar c) = DTSpec.isHostChar c := by
  simp only [DTSpec.isHostChar, isAsciiLetter, isAsciiDigit, inRange, ceq, asciiLowerChar_toNat, Char.reduceToNat]
  rw [Bool.eq_iff_iff]
  split <;> simp <;> omega

theorem dt2_h1_lower (c : Char) :
    (isAsciiLetter (asciiLowerChar c) || asciiLowerChar c == '_') = (isAsciiLetter c || c == '_') := by
  simp only [isAsciiLetter, inRange, ceq, asciiLowerChar_toNat, Char.reduceToNat]
  rw [Bool.eq_iff_iff]
  split <;> simp <;> omega

theorem dt2_h2_lower (c : Char) :
    (DTSpec.isHostChar (asciiLowerChar c) || asciiLowerChar c == '.') = (DTSpec.isHostChar c || c == '.') := by
  simp only [DTSpec.isHostChar, isAsciiLetter, isAsciiDigit, inRange, ceq, asciiLowerChar_toNat, Char.reduceToNat]
  rw [Bool.eq_iff_iff]
  split <;> simp <;> omega

theorem dt2_isHostname_lower (s : Str) (h : DTSpec.isHostname s = true) :
    DTSpec.isHostname (asciiLower s) = true := by
  cases s with
  | nil => simp [DTSpec.isHostname] at h
  | cons c t =>
    rw [dt2_hostname_iff] at h
    obtain ⟨h1, h2, l, hl, h3⟩ := h
    show DTSpec.isHostname (asciiLowerChar c :: asciiLower t) = true
    rw [dt2_hostname_iff]
    refine ⟨?_, ?_, asciiLowerChar l, ?_, ?_⟩
    · rw [dt2H1_test] at h1 ⊢; rw [dt2_h1_lower]; exact h1
    · unfold asciiLower
      rw [List.all_map, List.all_eq_true]
      intro d hd
      have := List.all_eq_true.mp h2 d hd
      rw [dt2H2_test] at this
      simp only [Function.comp, dt2H2_test, dt2_h2_lower]; exact this
    · unfold asciiLower; rw [List.getLast?_map, hl]; rfl
    · rw [dt2H3_test] at h3 ⊢; rw [dt2_isHostChar_lower]; exact h3

theorem dt2_lowerChar_dot : lowerChar '.' = '.' := by decide

/-- a dotted quad has no cased character -/
theorem dt2_lower_quad (s : Str) (h : DTSpec.isDottedQuad s = true) : lower s = s := by
  have hc := dt2_quad_chars s h
  unfold lower
  conv => rhs; rw [← List.map_id s]
  apply List.map_congr_left
  intro c hm
  rcases hc c hm with h1 | rfl
  · have : pyDigit c = true := by
      simp only [dt2OctCh, Bool.or_eq_true] at h1
      rcases h1 with h1 | h1
      · exact h1
      · exact dt2_asciiDigit_pyDigit c h1
    exact dt2_lowerChar_digit c this
  · exact dt2_lowerChar_dot

/-- accepted texts stay accepted, and unchanged, when lower-cased -/
theorem dt2_ipAcc_lower (s : Str) (h : dt2IpAcc s) : dt2IpAcc (lower s) ∧ lower (lower s) = lower s := by
  rcases h with h | h | ⟨h1, h2, h3⟩
  · rw [dt2_lower_quad s h]; exact ⟨Or.inl h, dt2_lower_quad s h⟩
  · have hasc : ∀ c ∈ s, c.toNat < 128 := fun c hc =>
      dt2_h2_ascii c (by have := dt2_hostname_chars s h c hc; rw [dt2H2_test] at this; exact this)
    refine ⟨Or.inr (Or.inl ?_), dt2_lower_lower_ascii s hasc⟩
    rw [lower_ascii s hasc]; exact dt2_isHostname_lower s h
  · have hasc : ∀ c ∈ s, c.toNat < 128 := fun c hc => dt2_isV6Char_ascii c (List.all_eq_true.mp h1 c hc)
    have hll := dt2_lower_lower_ascii s hasc
    refine ⟨Or.inr (Or.inr ⟨?_, ?_, ?_⟩), hll⟩
    · rw [lower_ascii s hasc]
      unfold asciiLower
      rw [List.all_map, List.all_eq_true]
      intro d hd
      simp only [Function.comp, dt2_isV6Char_lower]
      exact List.all_eq_true.mp h1 d hd
    · rw [dt2_lower_contains_colon]; exact h2
    · rw [hll]; exact h3

/-- `ipaddr-or-hostname` as a key type: converting a converted key changes nothing -/
theorem dt2_ipaddrOrHostname_idempotent (s r : Str) (h : ipaddrOrHostname s = .ok r) :
    ipaddrOrHostname r = .ok r := by
  rw [dt2_ipaddrOrHostname_eq_spec] at h ⊢
  obtain ⟨rfl, hacc⟩ := (dt2_spec_ok_iff s r).mp h
  obtain ⟨h1, h2⟩ := dt2_ipAcc_lower s hacc
  exact (dt2_spec_ok_iff _ _).mpr ⟨h2.symm, h1⟩

end ZCV.DT
