import ZCV.Lemmas.ElabInvVisit
/-!
C10, "every violation is reported as a SchemaError": the schema-loader model never answers `internal …`.

This file: the predicate `NIx P x` ("every internal error of `x` satisfies `P`") with its combinators, and the helper
functions of the parser (`get_datatype`, `get_name_info`, `adddefault`, `computedefault`, `_add_child` …).
-/
namespace ZCV.Elab
open ZCV ZCV.Cfg

/-- every `internal` outcome of `x` satisfies `P` (`P := fun _ => False`: no internal error at all) -/
structure NIx {α} (P : String → Prop) (x : EM α) : Prop where
  out : ∀ e, x = .error (.internal e) → P e

section combinators
variable {P : String → Prop} {α β : Type}

theorem NIx.ok (a : α) : NIx P (.ok a : EM α) := ⟨fun _ h => by cases h⟩
theorem NIx.pure (a : α) : NIx P (pure a : EM α) := ⟨fun _ h => by cases h⟩
theorem NIx.serr (t : String) : NIx P (serr t : EM α) := ⟨fun _ h => by cases h⟩
theorem NIx.schema (t : String) : NIx P (.error (.schema t) : EM α) := ⟨fun _ h => by cases h⟩
theorem NIx.schemaResource (t : String) : NIx P (.error (.schemaResource t) : EM α) := ⟨fun _ h => by cases h⟩
theorem NIx.conversion (t : String) : NIx P (.error (.conversion t) : EM α) := ⟨fun _ h => by cases h⟩

theorem NIx.bind {x : EM α} {f : α → EM β} (hx : NIx P x) (hf : ∀ a, x = .ok a → NIx P (f a)) : NIx P (x >>= f) := by
  refine ⟨fun e h => ?_⟩
  cases x with
  | error e' =>
    change Except.error e' = Except.error (EFail.internal e) at h
    injection h with h
    exact hx.out e (by rw [h])
  | ok a => exact (hf a rfl).out e h

theorem NIx.map {x : EM α} {f : α → β} (hx : NIx P x) : NIx P (Except.map f x) := by
  refine ⟨fun e h => ?_⟩
  cases x with
  | error e' =>
    simp only [Except.map, Except.error.injEq] at h
    exact hx.out e (by rw [h])
  | ok a => cases h

theorem NIx.fmap {x : EM α} {f : α → β} (hx : NIx P x) : NIx P (f <$> x) := NIx.map hx

/-- the `if c then serr … ; rest` statement of a do block -/
theorem NIx.guard {c : Prop} [Decidable c] {x : EFail} {jp : Unit → EM α} (hx : ∀ e, x ≠ .internal e)
    (hj : ¬c → NIx P (jp ())) : NIx P (if c then (Except.error x : EM Unit) >>= jp else jp ()) := by
  refine ⟨fun e h => ?_⟩
  by_cases hc : c
  · simp only [hc, ↓reduceIte] at h
    change Except.error x = Except.error (EFail.internal e) at h
    injection h with h
    exact absurd h (hx e)
  · simp only [hc, ↓reduceIte] at h
    exact (hj hc).out e h

theorem NIx.ite {c : Prop} [Decidable c] {a b : EM α} (ha : c → NIx P a) (hb : ¬c → NIx P b) :
    NIx P (if c then a else b) := by
  by_cases hc : c
  · simp only [hc, ↓reduceIte]; exact ha hc
  · simp only [hc, ↓reduceIte]; exact hb hc

theorem NIx.of_ok {x : EM α} {a : α} (h : x = .ok a) : NIx P x := by rw [h]; exact NIx.ok a

theorem NIx.mono {Q : String → Prop} {x : EM α} (h : NIx P x) (hpq : ∀ e, P e → Q e) : NIx Q x :=
  ⟨fun e he => hpq e (h.out e he)⟩

/-- a monadic fold with an invariant -/
theorem foldlM_ni {γ δ : Type} (I : δ → Prop) (f : δ → γ → EM δ)
    (hni : ∀ b a, I b → NIx P (f b a)) (hinv : ∀ b a b', I b → f b a = .ok b' → I b') :
    ∀ (l : List γ) (b : δ), I b → NIx P (l.foldlM f b) := by
  intro l
  induction l with
  | nil => intro b _; exact NIx.pure b
  | cons a l ih =>
    intro b hb
    rw [List.foldlM_cons]
    exact NIx.bind (hni b a hb) (fun b' hb' => ih b' (hinv b a b' hb hb'))

theorem mapM_ni {γ δ : Type} (f : γ → EM δ) : ∀ (l : List γ), (∀ a ∈ l, NIx P (f a)) → NIx P (l.mapM f) := by
  intro l
  induction l with
  | nil => intro _; exact NIx.pure []
  | cons a l ih =>
    intro h
    rw [List.mapM_cons]
    refine NIx.bind (h a List.mem_cons_self) (fun b _ => ?_)
    exact NIx.bind (ih (fun a' ha' => h a' (List.mem_cons_of_mem _ ha'))) (fun bs _ => NIx.pure _)

end combinators

/-! ### what the environment has to guarantee -/

/-- hypotheses on the environment under which the loader never fails internally -/
structure EnvNI (env : Env) : Prop where
  /-- the datatype registry never *raises* for a dotted name (ImportError, AttributeError … from `__import__`) -/
  dotted : ∀ n e, env.dotted n ≠ .raises e
  /-- key types reject with ValueError only -/
  keyErr : ∀ kt s e, env.conv.key kt s = .error e → e = .valueError
  /-- a key type never turns a fixed name into one of the wildcard names (`addsection` asserts this) -/
  keyWild : ∀ kt s r, env.conv.key kt s = .ok r → Gen.anyNames.contains s = false → r ≠ ['*'] ∧ r ≠ ['+']

variable {P : String → Prop}

/-! ### datatypes and prefixes -/

theorem regGet_ni {env : Env} (hd : ∀ n e, env.dotted n ≠ .raises e) (name : Str) : NIx P (regGet env name) := by
  refine ⟨fun e h => ?_⟩
  unfold regGet at h
  split at h
  · split at h
    · cases h
    · cases h
    · rename_i e' he; exact absurd he (hd _ _)
  · split at h
    · cases h
    · split at h <;> cases h

theorem getClassname_ni {st : PSt} (hp : st.prefixes ≠ []) (name : Str) : NIx P (getClassname st name) := by
  refine ⟨fun e h => ?_⟩
  unfold getClassname at h
  split at h
  · split at h
    · cases h
    · rename_i hnil; exact absurd hnil hp
  · cases h

theorem getDatatype_ni {env : Env} {st : PSt} (hd : ∀ n e, env.dotted n ≠ .raises e) (hp : st.prefixes ≠ [])
    (attrs : Attrs) (key dflt : String) (base : Option Str) : NIx P (getDatatype env st attrs key dflt base) := by
  unfold getDatatype
  split
  · exact NIx.bind (getClassname_ni hp _) (fun n _ => regGet_ni hd n)
  · split
    · exact NIx.ok _
    · exact regGet_ni hd _

theorem getSectTypeinfo_ni {env : Env} {st : PSt} (hd : ∀ n e, env.dotted n ≠ .raises e) (hp : st.prefixes ≠ [])
    (attrs : Attrs) (base : Option (Str × Str)) : NIx P (getSectTypeinfo env st attrs base) := by
  unfold getSectTypeinfo
  refine NIx.bind (getDatatype_ni hd hp _ _ _ _) (fun kt _ => ?_)
  refine NIx.bind (getDatatype_ni hd hp _ _ _ _) (fun vt _ => ?_)
  exact NIx.bind (getDatatype_ni hd hp _ _ _ _) (fun dt _ => NIx.pure _)

theorem dottedName_head {name nm : Str} (h : DT.dottedName name = .ok nm) : nm.head? ≠ some '.' := by
  rw [DT.dottedName_eq_spec] at h
  unfold DTSpec.dottedName at h
  split at h
  · rename_i hd
    injection h with h
    subst h
    cases name with
    | nil => simp
    | cons c t =>
      intro hc
      simp only [List.head?_cons, Option.some.injEq] at hc
      subst hc
      simp [DTSpec.isDottedName, DTSpec.splitDots, DTSpec.isIdent] at hd
  · cases h

/-- `pushPrefix` never fails internally: a prefix with a leading period is only accepted below another prefix -/
theorem pushPrefix_ni (st : PSt) (attrs : Attrs) : NIx P (pushPrefix st attrs) := by
  refine ⟨fun e h => ?_⟩
  unfold pushPrefix at h
  split at h
  · rename_i c cs _
    dsimp only at h
    by_cases hemp : st.prefixes.isEmpty = true
    · simp only [hemp, ↓reduceIte] at h
      cases hr : DT.dottedName (c :: cs) with
      | error e' => simp only [hr] at h; cases h
      | ok nm =>
        simp only [hr] at h
        have hh := dottedName_head hr
        have : (nm.head? == some '.') = false := by simpa using hh
        simp only [this, Bool.false_eq_true, ↓reduceIte] at h
        cases h
    · have hne : st.prefixes ≠ [] := by simpa using hemp
      simp only [hemp, Bool.false_eq_true, ↓reduceIte] at h
      cases hr : DT.dottedSuffix (c :: cs) with
      | error e' => simp only [hr] at h; cases h
      | ok nm =>
        simp only [hr] at h
        split at h
        · split at h
          · cases h
          · rename_i hnil; exact absurd hnil hne
        · cases h
  · split at h <;> cases h

/-- `pushPrefix` pushes exactly one prefix and touches nothing else -/
theorem pushPrefix_eff {st st1 : PSt} {attrs : Attrs} (h : pushPrefix st attrs = .ok st1) :
    ∃ x, st1 = { st with prefixes := x :: st.prefixes } := by
  unfold pushPrefix at h
  split at h
  · dsimp only at h
    generalize (if st.prefixes.isEmpty = true then DT.dottedName _ else DT.dottedSuffix _) = r at h
    cases r with
    | error e => cases h
    | ok nm =>
      dsimp only at h
      (repeat' split at h) <;> first | (injection h with h; subst h; exact ⟨_, rfl⟩) | cases h
  · split at h
    · injection h with h; subst h; exact ⟨_, rfl⟩
    · rename_i hq; injection h with h; subst h; exact ⟨[], by rw [hq]⟩

/-! ### the kinds of the entries of the type table -/

def entryKind : EEntry → Bool
  | .concrete _ => true
  | .abstract_ _ _ _ => false

/-- the type table with everything but the names and the concrete/abstract distinction forgotten -/
def kinds (es : ES) : List (Str × Bool) := es.types.map fun p => (p.1, entryKind p.2)

def kindAt (es : ES) (n : Str) : Option Bool := ((kinds es).find? (·.1 == n)).map (·.2)

theorem kindAt_eq (es : ES) (n : Str) : kindAt es n = (es.types.find? (·.1 == n)).map (fun p => entryKind p.2) := by
  unfold kindAt kinds
  rw [List.find?_map, Option.map_map]
  rfl

theorem kindAt_concrete {es : ES} {n : Str} (h : kindAt es n = some true) :
    ∃ p t, es.types.find? (·.1 == n) = some (p, .concrete t) := by
  rw [kindAt_eq] at h
  cases hf : es.types.find? (·.1 == n) with
  | none => simp [hf] at h
  | some q =>
    obtain ⟨p, e⟩ := q
    cases e with
    | concrete t => exact ⟨p, t, rfl⟩
    | abstract_ a b c => simp [hf, entryKind] at h

theorem kindAt_abstract {es : ES} {n : Str} (h : kindAt es n = some false) :
    ∃ p a s d, es.types.find? (·.1 == n) = some (p, .abstract_ a s d) := by
  rw [kindAt_eq] at h
  cases hf : es.types.find? (·.1 == n) with
  | none => simp [hf] at h
  | some q =>
    obtain ⟨p, e⟩ := q
    cases e with
    | concrete t => simp [hf, entryKind] at h
    | abstract_ a b c => exact ⟨p, a, b, c, rfl⟩

theorem kindAt_congr {es es' : ES} (h : kinds es' = kinds es) (n : Str) : kindAt es' n = kindAt es n := by
  unfold kindAt; rw [h]

/-- a rewrite of the entries that keeps names and kinds -/
theorem kinds_map (es : ES) (g : Str × EEntry → Str × EEntry) (hg : ∀ p, (g p).1 = p.1 ∧ entryKind (g p).2 = entryKind p.2) :
    kinds { es with types := es.types.map g } = kinds es := by
  unfold kinds
  simp only [List.map_map]
  congr 1
  funext p
  simp only [Function.comp, (hg p).1, (hg p).2]

theorem kinds_updType (es : ES) (n : Str) (f : EType → EType) : kinds (es.updType n f) = kinds es := by
  unfold ES.updType
  refine kinds_map es _ ?_
  intro ⟨k, e⟩
  dsimp only
  split
  · cases e <;> exact ⟨rfl, rfl⟩
  · exact ⟨rfl, rfl⟩

theorem kinds_setTopOf (es : ES) (stack : List Frame) (ch : List (Option Str × EInfo)) :
    kinds (setTopOf es stack ch) = kinds es := by
  unfold setTopOf
  split
  · rfl
  · exact kinds_updType es _ _
  · rfl

/-- the container on top of the stack exists: the schema itself or a concrete type of the table -/
def ContainerOK (es : ES) : List Frame → Prop
  | .schema :: _ => True
  | .stype n :: _ => kindAt es n = some true
  | _ => False

theorem ContainerOK.congr {es es' : ES} (h : kinds es' = kinds es) {stack : List Frame} (hc : ContainerOK es stack) :
    ContainerOK es' stack := by
  unfold ContainerOK at hc ⊢
  split
  · trivial
  · rename_i n r; simp only at hc; rw [kindAt_congr h]; exact hc
  · rename_i h1 h2
    split at hc
    · exact (h1 _ rfl).elim
    · exact (h2 _ _ rfl).elim
    · exact hc

theorem topOf_ok {es : ES} {stack : List Frame} (hc : ContainerOK es stack) : ∃ ch, topOf es stack = .ok ch := by
  unfold ContainerOK at hc
  unfold topOf
  split at hc
  · exact ⟨_, rfl⟩
  · obtain ⟨p, t, hf⟩ := kindAt_concrete hc
    exact ⟨t.children, by simp only [hf]⟩
  · exact hc.elim

theorem topOf_container {es : ES} {stack : List Frame} {ch : List (Option Str × EInfo)} (h : topOf es stack = .ok ch) :
    ContainerOK es stack := by
  unfold topOf at h
  unfold ContainerOK
  split at h
  · trivial
  · split at h
    · rename_i hf
      show kindAt es _ = some true
      rw [kindAt_eq, hf]; rfl
    · cases h
  · cases h
  · cases h

theorem topKeytype_ok {st : PSt} (hc : ContainerOK st.es st.stack) : ∃ kt, topKeytype st = .ok kt := by
  unfold ContainerOK at hc
  unfold topKeytype
  split at hc
  · rename_i r hs; rw [hs]; exact ⟨_, rfl⟩
  · rename_i n r hs
    obtain ⟨p, t, hf⟩ := kindAt_concrete hc
    rw [hs]
    exact ⟨t.keytype, by simp only [hf]⟩
  · exact hc.elim

/-- reading back the children just written -/
theorem topOf_setTopOf {es : ES} {stack : List Frame} {ch ch' : List (Option Str × EInfo)} (h : topOf es stack = .ok ch) :
    topOf (setTopOf es stack ch') stack = .ok ch' := by
  unfold topOf at h
  split at h
  · rfl
  · rename_i n rest
    split at h
    · rename_i n' t hf
      have hn' : n' = n := by simpa using List.find?_some hf
      subst hn'
      unfold setTopOf ES.updType topOf
      simp only
      rw [find_map_key _ _ (by intro ⟨k, e⟩; dsimp only; split <;> rfl), hf]
      simp
    · cases h
  · cases h
  · cases h

/-! ### names -/

theorem convKeyName_ni {env : Env} (hk : ∀ kt s e, env.conv.key kt s = .error e → e = .valueError) (kt name : Str) :
    NIx P (convKeyName env kt name) := by
  refine ⟨fun e h => ?_⟩
  unfold convKeyName at h
  split at h
  · cases h
  · cases h
  · rename_i he; cases hk _ _ _ he
  · rename_i he; cases hk _ _ _ he

theorem convDefaultKey_ni {env : Env} (hk : ∀ kt s e, env.conv.key kt s = .error e → e = .valueError) (kt name : Str) :
    NIx P (convDefaultKey env kt name) := by
  refine ⟨fun e h => ?_⟩
  unfold convDefaultKey at h
  split at h
  · cases h
  · cases h
  · rename_i he; cases hk _ _ _ he
  · rename_i he; cases hk _ _ _ he

theorem basicKeyE_ni (s : Str) : NIx P (basicKeyE s) := by
  refine ⟨fun e h => ?_⟩; unfold basicKeyE at h; split at h <;> cases h

theorem identifierE_ni (s : Str) : NIx P (identifierE s) := by
  refine ⟨fun e h => ?_⟩; unfold identifierE at h; split at h <;> cases h

theorem getHandler_ni (attrs : Attrs) : NIx P (getHandler attrs) := by
  unfold getHandler
  split
  · exact NIx.ok _
  · exact NIx.map (basicKeyE_ni _)

theorem getRequired_ni (attrs : Attrs) : NIx P (getRequired attrs) := by
  refine ⟨fun e h => ?_⟩; unfold getRequired at h
  (repeat' split at h) <;> cases h

theorem nameTail_ni {env : Env} {st : PSt} (hk : ∀ kt s e, env.conv.key kt s = .error e → e = .valueError)
    (hc : ContainerOK st.es st.stack) (name : Str) (aname : Option Str) : NIx P (nameTail env st name aname) := by
  unfold nameTail
  split
  · split
    · exact NIx.pure _
    · exact NIx.serr _
  · obtain ⟨kt, hkt⟩ := topKeytype_ok hc
    refine NIx.bind (NIx.of_ok hkt) (fun kt' _ => ?_)
    refine NIx.bind (convKeyName_ni hk _ _) (fun nm _ => ?_)
    split
    · exact NIx.pure _
    · refine NIx.bind (basicKeyE_ni _) (fun a _ => ?_)
      exact NIx.bind (identifierE_ni _) (fun a' _ => NIx.pure _)

theorem getNameInfo_ni {env : Env} {st : PSt} (hk : ∀ kt s e, env.conv.key kt s = .error e → e = .valueError)
    (hc : ContainerOK st.es st.stack) (attrs : Attrs) (dflt : Option Str) : NIx P (getNameInfo env st attrs dflt) := by
  unfold getNameInfo
  generalize attr attrs "attribute" = o2
  generalize attr attrs "name" = o1
  have tail : ∀ (o2 : Option Str) (nm : Str), NIx P (match o2 with
        | some (c :: cs) => identifierE (c :: cs) >>= fun a =>
            if startsWith a Gen.reservedAttrPrefix = true then
              (serr "attribute names may not start with 'getSection'" : EM Unit) >>= fun _ => nameTail env st nm (some a)
            else nameTail env st nm (some a)
        | _ => nameTail env st nm none) := by
    intro o2 nm
    split
    · refine NIx.bind (identifierE_ni _) (fun a _ => ?_)
      split
      · exact NIx.bind (NIx.serr _) (fun _ _ => nameTail_ni hk hc _ _)
      · exact nameTail_ni hk hc _ _
    · exact nameTail_ni hk hc _ _
  rcases o1 with _ | ⟨_ | ⟨c, cs⟩⟩
  · rcases dflt with _ | ⟨_ | ⟨c, cs⟩⟩
    · exact NIx.serr _
    · exact NIx.serr _
    · exact tail o2 _
  · exact NIx.serr _
  · exact tail o2 _

end ZCV.Elab
