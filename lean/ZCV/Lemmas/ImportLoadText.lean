import ZCV.Lemmas.ImportLoadEval
/-!
Configuration TEXT with `%import` lines against `denoteI`: the pieces put together.

* `treeOfI_low` — the parser delivers lower-cased section headers;
* `load_eq_denoteI` — `Cfg.load` on the lines = `denoteI` of the top-level items of the lines.
-/
namespace ZCV.Conf
open ZCV ZCV.Cfg

/-! ### the parser lower-cases section headers -/

def lowTop : TopItem → Bool
  | .item i => lowItem i
  | .imp _ => true

theorem lowTops_iff : ∀ (tops : List TopItem), lowTops tops = true ↔ ∀ t ∈ tops, lowTop t = true
  | [] => by simp [lowTops]
  | .item i :: r => by
    rw [lowTops, Bool.and_eq_true, lowTops_iff r]
    simp [lowTop]
  | .imp p :: r => by
    rw [lowTops, lowTops_iff r]
    simp [lowTop]

theorem lowItems_iff : ∀ (l : List Item), lowItems l = true ↔ ∀ i ∈ l, lowItem i = true
  | [] => by simp [lowItems]
  | i :: r => by
    rw [lowItems, Bool.and_eq_true, lowItems_iff r]
    simp

/-- everything recorded so far has lower-case headers -/
def LowTB (tb : TBI) : Prop :=
  (∀ t ∈ tb.tops, lowTop t = true) ∧ ∀ x ∈ tb.stack, lower x.1 = x.1 ∧ ∀ i ∈ x.2.2, lowItem i = true

theorem lowItem_sect (ty : Str) (nm : Option Str) (items : List Item) (h1 : lower ty = ty)
    (h2 : ∀ i ∈ items, lowItem i = true) : lowItem (.sect ty nm items.reverse) = true := by
  rw [lowItem, Bool.and_eq_true, lowItems_iff]
  refine ⟨by simpa using h1, ?_⟩
  intro i hi
  exact h2 i (List.mem_reverse.mp hi)

theorem lowInvI : CtxInv treeCtxI (fun _ tb => LowTB tb) where
  start := by
    intro _ a ty0 nm a' hj h
    cases h
    refine ⟨hj.1, ?_⟩
    intro x hx
    rcases List.mem_cons.mp hx with rfl | hx
    · exact ⟨ZCV.lower_idem ty0, fun _ h => by cases h⟩
    · exact hj.2 x hx
  stop := by
    intro _ a ty nm a' hj h
    change tbiStop a ty nm = .ok a' at h
    unfold tbiStop at h
    split at h
    · cases h
    · rename_i ty1 nm1 items hst
      cases h
      have hx := hj.2 (ty1, nm1, items) (by rw [hst]; exact List.mem_cons_self)
      refine ⟨?_, fun _ h => by cases h⟩
      intro t ht
      rcases List.mem_cons.mp ht with rfl | ht
      · exact lowItem_sect ty1 nm1 items hx.1 hx.2
      · exact hj.1 t ht
    · rename_i ty1 nm1 items pty pnm pitems rest hst
      cases h
      have hx := hj.2 (ty1, nm1, items) (by rw [hst]; exact List.mem_cons_self)
      have hp := hj.2 (pty, pnm, pitems) (by rw [hst]; exact List.mem_cons_of_mem _ List.mem_cons_self)
      refine ⟨hj.1, ?_⟩
      intro x hx'
      rcases List.mem_cons.mp hx' with rfl | hx'
      · refine ⟨hp.1, ?_⟩
        intro i hi
        rcases List.mem_cons.mp hi with rfl | hi
        · exact lowItem_sect ty1 nm1 items hx.1 hx.2
        · exact hp.2 i hi
      · exact hj.2 x (by rw [hst]; exact List.mem_cons_of_mem _ (List.mem_cons_of_mem _ hx'))
  value := by
    intro _ a k v p a' hj h
    change tbiValue a k v p = .ok a' at h
    unfold tbiValue at h
    split at h
    · cases h
      refine ⟨?_, hj.2⟩
      intro t ht
      rcases List.mem_cons.mp ht with rfl | ht
      · rfl
      · exact hj.1 t ht
    · rename_i ty1 nm1 items rest hst
      cases h
      have hx := hj.2 (ty1, nm1, items) (by rw [hst]; exact List.mem_cons_self)
      refine ⟨hj.1, ?_⟩
      intro x hx'
      rcases List.mem_cons.mp hx' with rfl | hx'
      · refine ⟨hx.1, ?_⟩
        intro i hi
        rcases List.mem_cons.mp hi with rfl | hi
        · rfl
        · exact hx.2 i hi
      · exact hj.2 x (by rw [hst]; exact List.mem_cons_of_mem _ hx')
  imp := by
    intro _ a pkg a' hj h
    change tbiImport a pkg = .ok a' at h
    unfold tbiImport at h
    split at h
    · cases h
      refine ⟨?_, hj.2⟩
      intro t ht
      rcases List.mem_cons.mp ht with rfl | ht
      · rfl
      · exact hj.1 t ht
    · cases h
      exact hj

/-- the top-level items the parser builds have lower-case section headers -/
theorem treeOfI_low (env : Env) (url : Option Str) (lines : List Str) (tops : List TopItem)
    (h : treeOfI env url lines = .ok tops) : lowTops tops = true := by
  unfold treeOfI at h
  obtain ⟨ps, hps, rfl⟩ := map_ok_inv h
  rw [parseI_eq] at hps
  have hinv := parse_inv treeCtxI (fun _ tb => LowTB tb) lowInvI env 64 (activeOf url) url lines 0 _ ps []
    (by
      refine ⟨?_, ?_⟩
      · intro t ht; cases ht
      · intro x hx; cases hx) hps
  rw [lowTops_iff]
  intro t ht
  exact hinv.1 t (List.mem_reverse.mp ht)

/-! ### text against `denoteI` -/

/-- **C01 + C02 + C12 in one equation, for TEXT with `%import` lines.**  For a text that meets no `%import` inside a
    section, whose imports keep the schema of the load well-formed, loaded without overrides: the loader returns a
    configuration iff the parser accepts the text and `denoteI` is defined on its top-level items, and then it returns
    exactly that value. -/
theorem load_eq_denoteI (conv : Conv) (env : Env) (pkgs : Str → Pkg) (s : Schema) (url : Option Str) (lines : List Str)
    (htop : importsAtTop env url lines)
    (hok : ∀ tops, treeOfI env url lines = .ok tops → importsOK pkgs s tops = true) :
    (load conv env pkgs s url lines []).toOption.map (·.value) =
      (treeOfI env url lines).toOption.bind (denoteI conv s pkgs) := by
  have h := load_eq_loadTops conv env pkgs s url lines htop
  have h' := congrArg (Option.map (·.1)) h
  rw [Option.map_map] at h'
  rw [show ((fun r : LoadResult => r.value) = (fun x : Val × Schema => x.1) ∘ fun r => (r.value, r.schemaAfter)) from rfl, h']
  cases ht : treeOfI env url lines with
  | error e => rfl
  | ok tops =>
    simp only [toOption_ok, Option.bind_some]
    exact loadTops_eq_denoteI conv pkgs s tops (hok tops ht) (treeOfI_low env url lines tops ht)

/-- the same in terms of the fully extended schema, with the schema the load ends with -/
theorem load_eq_final (conv : Conv) (env : Env) (pkgs : Str → Pkg) (s : Schema) (url : Option Str) (lines : List Str)
    (htop : importsAtTop env url lines)
    (hok : ∀ tops, treeOfI env url lines = .ok tops → importsOK pkgs s tops = true) :
    (load conv env pkgs s url lines []).toOption.map (fun r => (r.value, r.schemaAfter)) =
      (treeOfI env url lines).toOption.bind fun tops =>
        (extendBy pkgs s tops).bind fun sF =>
          if knownAt pkgs s tops then (denote conv sF (itemsOf tops)).map (fun v => (v, sF)) else none := by
  rw [load_eq_loadTops conv env pkgs s url lines htop]
  cases ht : treeOfI env url lines with
  | error e => rfl
  | ok tops =>
    simp only [toOption_ok, Option.bind_some]
    exact loadTops_eq_final conv pkgs s tops (hok tops ht) (treeOfI_low env url lines tops ht)

/-! ### well-formedness along the imports, from a text-independent hypothesis -/

/-- if the schema stays well-formed under EVERY sequence of importable packages, it does so along the imports of any
    text -/
theorem importsOK_of_closed (pkgs : Str → Pkg) : ∀ (tops : List TopItem) (s : Schema),
    (∀ (ps : List Str) (sc : Schema), extendBy pkgs s (ps.map .imp) = some sc → schemaOK sc = true) →
    importsOK pkgs s tops = true
  | [], s, h => by rw [importsOK]; exact h [] s rfl
  | .item _ :: r, s, h => by rw [importsOK]; exact importsOK_of_closed pkgs r s h
  | .imp p :: r, s, h => by
    rw [importsOK, Bool.and_eq_true]
    refine ⟨h [] s rfl, ?_⟩
    cases hx : extend s (pkgs p) with
    | none => rfl
    | some s1 =>
      simp only
      apply importsOK_of_closed pkgs r s1
      intro ps sc hsc
      apply h (p :: ps) sc
      rw [List.map_cons, extendBy, hx]
      exact hsc

/-! ### a text whose `%import`s all come first -/

theorem items_shape (pkgs : Str → Pkg) (s : Schema) : ∀ (its : List Item),
    extendBy pkgs s (its.map .item) = some s ∧ itemsOf (its.map .item) = its ∧
      knownAt pkgs s (its.map .item) = knownItems s its ∧ lowTops (its.map .item) = lowItems its
  | [] => ⟨rfl, rfl, by rw [List.map_nil, knownAt, knownItems], by rw [List.map_nil, lowTops, lowItems]⟩
  | i :: r => by
    obtain ⟨h1, h2, h3, h4⟩ := items_shape pkgs s r
    refine ⟨?_, ?_, ?_, ?_⟩
    · rw [List.map_cons, extendBy]; exact h1
    · rw [List.map_cons, itemsOf, h2]
    · rw [List.map_cons, knownAt, knownItems, h3]
    · rw [List.map_cons, lowTops, lowItems, h4]

theorem first_shape (pkgs : Str → Pkg) (its : List Item) : ∀ (imps : List Str) (s : Schema),
    extendBy pkgs s (imps.map .imp ++ its.map .item) = extendBy pkgs s (imps.map .imp) ∧
      itemsOf (imps.map .imp ++ its.map .item) = its ∧
      lowTops (imps.map .imp ++ its.map .item) = lowItems its ∧
      ∀ s', extendBy pkgs s (imps.map .imp) = some s' →
        knownAt pkgs s (imps.map .imp ++ its.map .item) = knownItems s' its
  | [], s => by
    obtain ⟨h1, h2, h3, h4⟩ := items_shape pkgs s its
    refine ⟨by rw [List.map_nil, List.nil_append, h1]; rfl, by rw [List.map_nil, List.nil_append, h2],
      by rw [List.map_nil, List.nil_append, h4], ?_⟩
    intro s' hs'
    rw [List.map_nil, extendBy] at hs'
    cases hs'
    rw [List.map_nil, List.nil_append, h3]
  | p :: r, s => by
    simp only [List.map_cons, List.cons_append, extendBy, itemsOf, knownAt, lowTops]
    cases hx : extend s (pkgs p) with
    | none =>
      refine ⟨rfl, (first_shape pkgs its r s).2.1, (first_shape pkgs its r s).2.2.1, ?_⟩
      intro s' hs'
      cases hs'
    | some s1 =>
      obtain ⟨h1, h2, h3, h4⟩ := first_shape pkgs its r s1
      exact ⟨h1, h2, h3, h4⟩

theorem denote_unknown (conv : Conv) (s : Schema) (its : List Item) (h : knownItems s its = false) :
    denote conv s its = none := by
  unfold denote
  rw [containerVal_none_of_sub conv s s.top none its _ (itemVals_unknown conv s its h)]

/-- **imports first**: for a text whose `%import`s all come before everything else, `denoteI` is `denote` of the
    rest against the schema extended by the imports -/
theorem denoteI_imports_first (conv : Conv) (pkgs : Str → Pkg) (s : Schema) (imps : List Str) (its : List Item)
    (hok : importsOK pkgs s (imps.map .imp ++ its.map .item) = true) (hl : lowItems its = true) :
    denoteI conv s pkgs (imps.map .imp ++ its.map .item) =
      (extendBy pkgs s (imps.map .imp)).bind fun s' => denote conv s' its := by
  obtain ⟨h1, h2, h3, h4⟩ := first_shape pkgs its imps s
  rw [denoteI_eq_final conv pkgs s _ hok (by rw [h3]; exact hl), h1, h2]
  cases he : extendBy pkgs s (imps.map .imp) with
  | none => rfl
  | some s' =>
    simp only [Option.bind_some]
    rw [h4 s' he]
    cases hk : knownItems s' its with
    | true => rfl
    | false => rw [denote_unknown conv s' its hk]; rfl

/-! ### positions -/

/-- `knownAt`, position by position: the `k`-th top-level item is judged by `schemaAt … k` -/
theorem knownAt_pos (pkgs : Str → Pkg) : ∀ (tops : List TopItem) (s : Schema), knownAt pkgs s tops = true →
    ∀ (k : Nat) (i : Item), tops[k]? = some (.item i) → ∃ sk, schemaAt s pkgs tops k = some sk ∧ knownItem sk i = true
  | [], _, _, k, i, h => by simp at h
  | .item j :: r, s, hk, k, i, h => by
    rw [knownAt, Bool.and_eq_true] at hk
    cases k with
    | zero =>
      simp only [List.getElem?_cons_zero, Option.some.injEq, TopItem.item.injEq] at h
      subst h
      exact ⟨s, rfl, hk.1⟩
    | succ k =>
      simp only [List.getElem?_cons_succ] at h
      obtain ⟨sk, h1, h2⟩ := knownAt_pos pkgs r s hk.2 k i h
      refine ⟨sk, ?_, h2⟩
      unfold schemaAt at h1 ⊢
      rw [List.take_succ_cons, extendBy]
      exact h1
  | .imp p :: r, s, hk, k, i, h => by
    rw [knownAt] at hk
    cases hx : extend s (pkgs p) with
    | none => rw [hx] at hk; cases hk
    | some s1 =>
      rw [hx] at hk
      cases k with
      | zero => simp at h
      | succ k =>
        simp only [List.getElem?_cons_succ] at h
        obtain ⟨sk, h1, h2⟩ := knownAt_pos pkgs r s1 hk k i h
        refine ⟨sk, ?_, h2⟩
        unfold schemaAt at h1 ⊢
        rw [List.take_succ_cons, extendBy, hx]
        exact h1

end ZCV.Conf
