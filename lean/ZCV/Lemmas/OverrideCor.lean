import ZCV.Lemmas.OverrideTop
/-!
Consequences of the edit equivalence: the edited tree is spelled canonically again (so C01/C02 apply to it), overrides
that address no section or a key the section does not allow are refused.
-/
namespace ZCV.Conf
open ZCV ZCV.Cfg

/-! ### the edit keeps headers as they are -/

theorem tyCanon_kvs (s : Schema) : ∀ (l : List Item), (∀ i ∈ l, ∃ k v p, i = .kv k v p) → tyCanon s l = true
  | [], _ => tyCanon_nil s
  | i :: r, h => by
    obtain ⟨k, v, p, rfl⟩ := h i List.mem_cons_self
    rw [tyCanon]
    exact tyCanon_kvs s r (fun j hj => h j (List.mem_cons_of_mem _ hj))

theorem newLines_kv (asGiven : Bool) (G : List (Str × List (Str × Str))) :
    ∀ i ∈ newLines asGiven G, ∃ k v p, i = .kv k v p := by
  intro i hi
  unfold newLines at hi
  rw [List.mem_flatMap] at hi
  obtain ⟨g, _, hg⟩ := hi
  rw [List.mem_map] at hg
  obtain ⟨kv, _, rfl⟩ := hg
  exact ⟨_, _, _, rfl⟩

def CanonItems (conv : Conv) (s : Schema) (asGiven : Bool) (l : List Item) : Prop :=
  ∀ norm keys pend is pend', editItems conv s asGiven norm keys l pend = .ok (is, pend') → tyCanon s is = true

theorem closeBody_ok (asGiven : Bool) (G : List (Str × List (Str × Str))) (r : Except Reject (List Item × List OptItem))
    (items' : List Item) (h : closeBody asGiven G r = .ok items') :
    ∃ is, r = .ok (is, []) ∧ items' = is ++ newLines asGiven G := by
  unfold closeBody at h
  split at h
  · cases h
  · cases h; exact ⟨_, rfl, rfl⟩
  · cases h

theorem editBody_ok (conv : Conv) (s : Schema) (asGiven : Bool) (kt : Str) (items : List Item) (ovs : List OptItem)
    (items' : List Item) (h : editBody conv s asGiven kt items ovs = .ok items') :
    ∃ ks ss is, splitOvs (conv.key kt) ovs = .ok (ks, ss) ∧
      editItems conv s asGiven (conv.key kt) ((groupsOf ks).map (·.1)) items ss = .ok (is, []) ∧
      items' = is ++ newLines asGiven (groupsOf ks) := by
  unfold editBody at h
  split at h
  · cases h
  · rename_i ks ss hs
    obtain ⟨is, h1, h2⟩ := closeBody_ok _ _ _ _ h
    exact ⟨ks, ss, is, hs, h1, h2⟩

theorem canonBody_of (conv : Conv) (s : Schema) (asGiven : Bool) (items : List Item) (hc : CanonItems conv s asGiven items)
    (kt : Str) (ovs : List OptItem) (items' : List Item) (h : editBody conv s asGiven kt items ovs = .ok items') :
    tyCanon s items' = true := by
  obtain ⟨ks, ss, is, _, h2, rfl⟩ := editBody_ok conv s asGiven kt items ovs items' h
  rw [tyCanon_append, hc _ _ _ _ _ h2, tyCanon_kvs s _ (newLines_kv asGiven _)]
  rfl

mutual
theorem canonItem (conv : Conv) (s : Schema) (asGiven : Bool) :
    ∀ (i : Item), tyCanon s [i] = true → ∀ norm keys pend is pend',
      editItem conv s asGiven norm keys i pend = .ok (is, pend') → tyCanon s is = true
  | .kv k v p, _, norm, keys, pend, is, pend', h => by
    rw [editItem] at h
    cases h
    split
    · exact tyCanon_nil s
    · rw [tyCanon]; exact tyCanon_nil s
  | .sect ty nm sub, hcan, norm, keys, pend, is, pend', h => by
    obtain ⟨hh, hcsub⟩ := tyCanon_single_sect s ty nm sub hcan
    rw [editItem_sect] at h
    split at h
    · cases h; exact hcan
    · split at h
      · rename_i t hg
        split at h
        · cases h
        · rename_i sub' hed
          cases h
          have := canonBody_of conv s asGiven sub (canonItems conv s asGiven sub hcsub) _ _ _ hed
          rw [tyCanon_sect, hh, this, tyCanon_nil]
          rfl
      · cases h
theorem canonItems (conv : Conv) (s : Schema) (asGiven : Bool) :
    ∀ (l : List Item), tyCanon s l = true → CanonItems conv s asGiven l
  | [], _ => by
    intro norm keys pend is pend' h
    rw [editItems] at h
    cases h
    exact tyCanon_nil s
  | i :: r, hcan => by
    intro norm keys pend is pend' h
    rw [tyCanon_cons, Bool.and_eq_true] at hcan
    rw [editItems] at h
    split at h
    · cases h
    · rename_i is1 pend1 h1
      split at h
      · cases h
      · rename_i rs pend2 h2
        cases h
        rw [tyCanon_append, canonItem conv s asGiven i hcan.1 _ _ _ _ _ h1,
          canonItems conv s asGiven r hcan.2 _ _ _ _ _ h2]
        rfl
end

/-- the edited tree spells its headers as the original does -/
theorem editBody_tyCanon (conv : Conv) (s : Schema) (asGiven : Bool) (kt : Str) (items : List Item) (ovs : List OptItem)
    (items' : List Item) (hcan : tyCanon s items = true) (h : editBody conv s asGiven kt items ovs = .ok items') :
    tyCanon s items' = true :=
  canonBody_of conv s asGiven items (canonItems conv s asGiven items hcan) kt ovs items' h

/-! ### an override whose first component selects no section stays pending, and the edit is impossible -/

theorem editItem_pend (conv : Conv) (s : Schema) (asGiven : Bool) (norm : Str → Except ConvErr Str) (keys : List Str)
    (i : Item) (pend : List OptItem) (is : List Item) (pend' : List OptItem)
    (h : editItem conv s asGiven norm keys i pend = .ok (is, pend')) :
    match i with
    | .kv _ _ _ => pend' = pend
    | .sect ty nm _ => pend' = pend ∨ pend' = pend.filter (fun o => !addresses o ty nm) := by
  cases i with
  | kv k v p => rw [editItem] at h; cases h; rfl
  | sect ty nm sub =>
    rw [editItem_sect] at h
    split at h
    · cases h; exact Or.inl rfl
    · split at h
      · split at h
        · cases h
        · cases h; exact Or.inr rfl
      · cases h

theorem editItems_keeps (conv : Conv) (s : Schema) (asGiven : Bool) (norm : Str → Except ConvErr Str) (keys : List Str)
    (o : OptItem) : ∀ (l : List Item) (pend : List OptItem) (is : List Item) (pend' : List OptItem),
    o ∈ pend → (∀ ty nm sub, Item.sect ty nm sub ∈ l → addresses o ty nm = false) →
    editItems conv s asGiven norm keys l pend = .ok (is, pend') → o ∈ pend'
  | [], pend, is, pend', ho, _, h => by
    rw [editItems] at h
    cases h
    exact ho
  | i :: r, pend, is, pend', ho, hno, h => by
    rw [editItems] at h
    split at h
    · cases h
    · rename_i is1 pend1 h1
      split at h
      · cases h
      · rename_i rs pend2 h2
        obtain ⟨_, h4⟩ := Prod.mk.inj (Except.ok.inj h)
        subst h4
        have hp := editItem_pend conv s asGiven norm keys i pend is1 pend1 h1
        have ho1 : o ∈ pend1 := by
          cases i with
          | kv k v p => simp only at hp; rw [hp]; exact ho
          | sect ty nm sub =>
            simp only at hp
            rcases hp with hp | hp
            · rw [hp]; exact ho
            · rw [hp, List.mem_filter]
              exact ⟨ho, by rw [hno ty nm sub List.mem_cons_self]; rfl⟩
        exact editItems_keeps conv s asGiven norm keys o r pend1 rs pend2 ho1
          (fun ty nm sub hm => hno ty nm sub (List.mem_cons_of_mem _ hm)) h2

theorem splitOvs_mem_ss (norm : Str → Except ConvErr Str) (o : OptItem) (ho2 : 2 ≤ o.path.length) :
    ∀ (ovs : List OptItem) (ks : List KeyOv) (ss : List OptItem), o ∈ ovs → splitOvs norm ovs = .ok (ks, ss) → o ∈ ss
  | [], _, _, ho, _ => by cases ho
  | o1 :: r, ks, ss, ho, h => by
    rw [splitOvs] at h
    split at h
    · cases h
    · rename_i k hp
      split at h
      · cases h
      · split at h
        · cases h
        · rename_i ks' ss' hs
          obtain ⟨h1, h2⟩ := Prod.mk.inj (Except.ok.inj h)
          subst h1 h2
          cases ho with
          | head => rw [hp] at ho2; simp at ho2
          | tail _ ho => exact splitOvs_mem_ss norm o ho2 r ks' ss' ho hs
    · split at h
      · cases h
      · rename_i ks' ss' hs
        obtain ⟨h1, h2⟩ := Prod.mk.inj (Except.ok.inj h)
        subst h1 h2
        cases ho with
        | head => exact List.mem_cons_self
        | tail _ ho => exact List.mem_cons_of_mem _ (splitOvs_mem_ss norm o ho2 r ks' ss' ho hs)

/-- an override that goes below the top level while no top-level section is selected by its first component makes
    the edit impossible -/
theorem editBody_unknown_section (conv : Conv) (s : Schema) (asGiven : Bool) (kt : Str) (items : List Item)
    (ovs : List OptItem) (o : OptItem) (ho : o ∈ ovs) (ho2 : 2 ≤ o.path.length)
    (hno : ∀ ty nm sub, Item.sect ty nm sub ∈ items → addresses o ty nm = false) :
    ∃ r, editBody conv s asGiven kt items ovs = .error r := by
  cases hed : editBody conv s asGiven kt items ovs with
  | error r => exact ⟨r, rfl⟩
  | ok items' =>
    obtain ⟨ks, ss, is, h1, h2, _⟩ := editBody_ok conv s asGiven kt items ovs items' hed
    have hm := splitOvs_mem_ss (conv.key kt) o ho2 ovs ks ss ho h1
    have := editItems_keeps conv s asGiven _ _ o items ss is [] hm hno h2
    cases this

/-! ### a line whose key the section does not allow stops the evaluation -/

/-- the key type refuses the key, or the normalised key is neither declared nor captured by a wildcard key -/
def keyRejected (conv : Conv) (t : SType) (k : Str) : Prop :=
  match conv.key t.keytype k with
  | .error _ => True
  | .ok rk => route t.children rk = none

theorem evalItemsB_rejects (conv : Conv) (s : Schema) (k v : Str) (p : Pos) :
    ∀ (l : List Item) (m : Matcher), m.bag = none → Item.kv k v p ∈ l → keyRejected conv m.ty k →
      ∃ e, evalItemsB conv s m l = .error e
  | [], _, _, hm, _ => by cases hm
  | i :: r, m, hb, hm, hrej => by
    rw [evalItemsB_cons]
    cases hev : evalItemB conv s m i with
    | error e => exact ⟨e, rfl⟩
    | ok m1 =>
      have hp := evalItemB_pres conv s m m1 i hev
      cases hm with
      | head =>
        rw [evalItemB, addValue_nobag conv m hb] at hev
        unfold keyRejected at hrej
        cases hk : conv.key m.ty.keytype k with
        | error e => rw [hk] at hev; cases hev
        | ok rk =>
          rw [hk] at hev hrej
          simp only at hev hrej
          obtain ⟨e, he, _⟩ := addValueCore_unknown_rejected m k rk v p hrej
          rw [he] at hev
          cases hev
      | tail _ hm =>
        exact evalItemsB_rejects conv s k v p r m1 (hp.2 hb) hm (by rw [hp.1]; exact hrej)

/-! ### every key override shows up among the supplied lines -/

theorem cstep_grows {α : Type} (G : List (Str × List α)) (kv : Str × α) :
    ∀ g0 ∈ G, ∀ a ∈ g0.2, ∃ g ∈ cstep G kv, g.1 = g0.1 ∧ a ∈ g.2 := by
  intro g0 hg0 a ha
  unfold cstep
  split
  · by_cases hk : (g0.1 == kv.1) = true
    · refine ⟨(g0.1, g0.2 ++ [kv.2]), ?_, rfl, List.mem_append_left _ ha⟩
      rw [List.mem_map]
      exact ⟨g0, hg0, by rw [if_pos hk]⟩
    · refine ⟨g0, ?_, rfl, ha⟩
      rw [List.mem_map]
      exact ⟨g0, hg0, by rw [if_neg hk]⟩
  · exact ⟨g0, List.mem_append_left _ hg0, rfl, ha⟩

theorem cstep_adds {α : Type} (G : List (Str × List α)) (kv : Str × α) :
    ∃ g ∈ cstep G kv, g.1 = kv.1 ∧ kv.2 ∈ g.2 := by
  unfold cstep
  split
  · rename_i h
    rw [List.any_eq_true] at h
    obtain ⟨g0, hg0, hk⟩ := h
    refine ⟨(g0.1, g0.2 ++ [kv.2]), ?_, by simpa using hk, List.mem_append_right _ List.mem_cons_self⟩
    rw [List.mem_map]
    exact ⟨g0, hg0, by rw [if_pos hk]⟩
  · exact ⟨(kv.1, [kv.2]), List.mem_append_right _ List.mem_cons_self, rfl, List.mem_cons_self⟩

theorem cstep_fold_grows {α : Type} : ∀ (l : List (Str × α)) (G : List (Str × List α)),
    ∀ g0 ∈ G, ∀ a ∈ g0.2, ∃ g ∈ l.foldl cstep G, g.1 = g0.1 ∧ a ∈ g.2
  | [], G, g0, hg0, a, ha => ⟨g0, hg0, rfl, ha⟩
  | kv :: r, G, g0, hg0, a, ha => by
    obtain ⟨g1, hg1, h1, h2⟩ := cstep_grows G kv g0 hg0 a ha
    obtain ⟨g, hg, h3, h4⟩ := cstep_fold_grows r (cstep G kv) g1 hg1 a h2
    exact ⟨g, hg, by rw [h3, h1], h4⟩

theorem cstep_fold_complete {α : Type} : ∀ (l : List (Str × α)) (G : List (Str × List α)),
    ∀ kv ∈ l, ∃ g ∈ l.foldl cstep G, g.1 = kv.1 ∧ kv.2 ∈ g.2
  | [], _, kv, h => by cases h
  | kv0 :: r, G, kv, h => by
    rw [List.foldl_cons]
    cases h with
    | head =>
      obtain ⟨g1, hg1, h1, h2⟩ := cstep_adds G kv0
      obtain ⟨g, hg, h3, h4⟩ := cstep_fold_grows r (cstep G kv0) g1 hg1 kv0.2 h2
      exact ⟨g, hg, by rw [h3, h1], h4⟩
    | tail _ h => exact cstep_fold_complete r (cstep G kv0) kv h

theorem splitOvs_mem_ks (norm : Str → Except ConvErr Str) (o : OptItem) (k n : Str) (hp : o.path = [k]) (hn : norm k = .ok n) :
    ∀ (ovs : List OptItem) (ks : List KeyOv) (ss : List OptItem), o ∈ ovs → splitOvs norm ovs = .ok (ks, ss) →
      { key := k, norm := n, val := o.val } ∈ ks
  | [], _, _, ho, _ => by cases ho
  | o1 :: r, ks, ss, ho, h => by
    rw [splitOvs] at h
    split at h
    · cases h
    · rename_i k1 hp1
      split at h
      · cases h
      · rename_i n1 hn1
        split at h
        · cases h
        · rename_i ks' ss' hs
          obtain ⟨h1, h2⟩ := Prod.mk.inj (Except.ok.inj h)
          subst h1 h2
          cases ho with
          | head =>
            rw [hp] at hp1
            cases hp1
            rw [hn] at hn1
            cases hn1
            exact List.mem_cons_self
          | tail _ ho => exact List.mem_cons_of_mem _ (splitOvs_mem_ks norm o k n hp hn r ks' ss' ho hs)
    · rename_i k1 k2 more hp1
      split at h
      · cases h
      · rename_i ks' ss' hs
        obtain ⟨h1, h2⟩ := Prod.mk.inj (Except.ok.inj h)
        subst h1 h2
        cases ho with
        | head => rw [hp] at hp1; cases hp1
        | tail _ ho => exact splitOvs_mem_ks norm o k n hp hn r ks' ss' ho hs

/-- the line supplied for a key override: it is there, with the value verbatim -/
theorem newLines_mem (asGiven : Bool) (ks : List KeyOv) (x : KeyOv) (hx : x ∈ ks) :
    Item.kv (if asGiven then x.key else x.norm) x.val cmdPos ∈ newLines asGiven (groupsOf ks) := by
  rw [groupsOf_eq]
  obtain ⟨g, hg, h1, h2⟩ := cstep_fold_complete (ks.map kvOf) [] (kvOf x) (List.mem_map_of_mem hx)
  unfold newLines
  rw [List.mem_flatMap]
  refine ⟨g, hg, ?_⟩
  rw [List.mem_map]
  refine ⟨(x.key, x.val), h2, ?_⟩
  unfold kvOf at h1
  simp only at h1
  rw [h1]

/-! ### `bagSectionInfo` as a fold -/

theorem bagSectionInfo_fold (conv : Conv) (s : Schema) (b : Bag) (ty : Str) (nm : Option Str) :
    bagSectionInfo conv s b ty nm =
      b.sectitems.foldlM (bsiStep ty nm) ([], []) >>= fun lr =>
        if lr.1.isEmpty then pure (b, none)
        else
          match s.gettype ty with
          | some (.concrete t) => mkBag conv t lr.1 >>= fun child => pure ({ b with sectitems := lr.2 }, some child)
          | none => throw (Fail.cfg { kind := .schema, tag := "unknown type name" })
          | _ => throw (Fail.internal "AttributeError") := rfl

end ZCV.Conf
