import ZCV.Lemmas.UrlPathPercent
import ZCV.Spec.UrlPath
/-! `split` / `join` on a separator, and how `quote` acts on the segments of a path. -/
namespace ZCV.UrlPath
open ZCV

theorem up_splitOn_ne_nil (c : Char) (s : Str) : splitOn c s ≠ [] := by
  induction s with
  | nil => simp [splitOn]
  | cons x t ih =>
    unfold splitOn
    split
    · simp
    · split
      · simp
      · simp

theorem up_splitOn_cons_sep (c : Char) (t : Str) : splitOn c (c :: t) = [] :: splitOn c t := by
  rw [splitOn, if_pos rfl]

theorem up_splitOn_cons_ne (c x : Char) (t : Str) (h : x ≠ c) :
    ∃ hd tl, splitOn c t = hd :: tl ∧ splitOn c (x :: t) = (x :: hd) :: tl := by
  cases hs : splitOn c t with
  | nil => exact absurd hs (up_splitOn_ne_nil c t)
  | cons hd tl =>
    refine ⟨hd, tl, rfl, ?_⟩
    rw [splitOn, if_neg h, hs]

/-- a prefix without the separator stays in front of the first piece -/
theorem up_splitOn_prefix (c : Char) (a b : Str) (h : c ∉ a) :
    ∃ hd tl, splitOn c b = hd :: tl ∧ splitOn c (a ++ b) = (a ++ hd) :: tl := by
  induction a with
  | nil =>
    cases hs : splitOn c b with
    | nil => exact absurd hs (up_splitOn_ne_nil c b)
    | cons hd tl => exact ⟨hd, tl, rfl, by simpa using hs⟩
  | cons x t ih =>
    have hx : x ≠ c := fun e => h (by simp [e])
    obtain ⟨hd, tl, h1, h2⟩ := ih (fun e => h (by simp [e]))
    refine ⟨hd, tl, h1, ?_⟩
    obtain ⟨hd', tl', h3, h4⟩ := up_splitOn_cons_ne c x (t ++ b) hx
    rw [List.cons_append, h4]
    rw [h2] at h3
    simp only [List.cons.injEq] at h3
    rw [← h3.1, ← h3.2]
    rfl

theorem up_splitOn_noMem (c : Char) (a : Str) (h : c ∉ a) : splitOn c a = [a] := by
  obtain ⟨hd, tl, h1, h2⟩ := up_splitOn_prefix c a [] h
  simp only [splitOn, List.cons.injEq] at h1
  rw [List.append_nil] at h2
  rw [h2, ← h1.1, ← h1.2, List.append_nil]

theorem up_splitOn_append (c : Char) (a b : Str) (h : c ∉ a) : splitOn c (a ++ c :: b) = a :: splitOn c b := by
  obtain ⟨hd, tl, h1, h2⟩ := up_splitOn_prefix c a (c :: b) h
  rw [up_splitOn_cons_sep] at h1
  simp only [List.cons.injEq] at h1
  rw [h2, ← h1.1, ← h1.2, List.append_nil]

theorem up_joinWith_cons (c : Char) (a : Str) (l : List Str) (h : l ≠ []) :
    joinWith c (a :: l) = a ++ c :: joinWith c l := by
  cases l with
  | nil => exact absurd rfl h
  | cons b l => rfl

theorem up_joinWith_single (c : Char) (a : Str) : joinWith c [a] = a := rfl

theorem up_joinWith_concat (c : Char) (l : List Str) (x : Str) (h : l ≠ []) :
    joinWith c (l ++ [x]) = joinWith c l ++ c :: x := by
  induction l with
  | nil => exact absurd rfl h
  | cons a t ih =>
    cases t with
    | nil => rfl
    | cons b t =>
      rw [List.cons_append, up_joinWith_cons c a _ (by simp), ih (by simp), up_joinWith_cons c a _ (by simp),
        List.append_assoc]
      rfl

theorem up_joinWith_append (c : Char) (l1 l2 : List Str) (h1 : l1 ≠ []) (h2 : l2 ≠ []) :
    joinWith c (l1 ++ l2) = joinWith c l1 ++ c :: joinWith c l2 := by
  induction l1 with
  | nil => exact absurd rfl h1
  | cons a t ih =>
    cases t with
    | nil => rw [List.singleton_append, up_joinWith_cons c a l2 h2]; rfl
    | cons b t =>
      rw [List.cons_append, up_joinWith_cons c a _ (by simp), ih (by simp), up_joinWith_cons c a _ (by simp),
        List.append_assoc]
      rfl

/-- `c.join(l).split(c) == l` when no piece contains the separator -/
theorem up_splitOn_joinWith (c : Char) (l : List Str) (hne : l ≠ []) (h : ∀ s ∈ l, c ∉ s) :
    splitOn c (joinWith c l) = l := by
  induction l with
  | nil => exact absurd rfl hne
  | cons a t ih =>
    cases t with
    | nil => exact up_splitOn_noMem c a (h a (by simp))
    | cons b t =>
      rw [up_joinWith_cons c a _ (by simp), up_splitOn_append c a _ (h a (by simp)),
        ih (by simp) (fun s hs => h s (by simp [hs]))]

/-- `c.join(s.split(c)) == s` -/
theorem up_joinWith_splitOn (c : Char) (s : Str) : joinWith c (splitOn c s) = s := by
  induction s with
  | nil => rfl
  | cons x t ih =>
    by_cases hx : x = c
    · subst hx
      rw [up_splitOn_cons_sep, up_joinWith_cons x [] _ (up_splitOn_ne_nil x t), ih]
      rfl
    · obtain ⟨hd, tl, h1, h2⟩ := up_splitOn_cons_ne c x t hx
      rw [h2]
      rw [h1] at ih
      cases tl with
      | nil => simp only [joinWith] at ih ⊢; rw [ih]
      | cons b tl =>
        rw [up_joinWith_cons c _ _ (by simp)]
        rw [up_joinWith_cons c _ _ (by simp)] at ih
        rw [← ih]
        rfl

theorem up_splitOn_pieces (c : Char) (s : Str) : ∀ p ∈ splitOn c s, c ∉ p := by
  induction s with
  | nil => intro p hp; simp only [splitOn, List.mem_cons, List.not_mem_nil, or_false] at hp; subst hp; simp
  | cons x t ih =>
    by_cases hx : x = c
    · subst hx
      rw [up_splitOn_cons_sep]
      intro p hp
      simp only [List.mem_cons] at hp
      rcases hp with rfl | hp
      · simp
      · exact ih p hp
    · obtain ⟨hd, tl, h1, h2⟩ := up_splitOn_cons_ne c x t hx
      rw [h2]
      rw [h1] at ih
      intro p hp
      simp only [List.mem_cons] at hp
      rcases hp with rfl | hp
      · intro hm
        simp only [List.mem_cons] at hm
        rcases hm with e | hm
        · exact hx e.symm
        · exact ih hd (by simp) hm
      · exact ih p (by simp [hp])

/-- the pieces of `a ++ c ++ b` when `b` has no separator -/
theorem up_splitOn_concat (c : Char) (a b : Str) (h : c ∉ b) : splitOn c (a ++ c :: b) = splitOn c a ++ [b] := by
  induction a with
  | nil => rw [List.nil_append, up_splitOn_cons_sep, up_splitOn_noMem c b h]; rfl
  | cons x t ih =>
    by_cases hx : x = c
    · subst hx
      rw [List.cons_append, up_splitOn_cons_sep, up_splitOn_cons_sep, ih]
      rfl
    · obtain ⟨hd, tl, h1, h2⟩ := up_splitOn_cons_ne c x t hx
      obtain ⟨hd', tl', h3, h4⟩ := up_splitOn_cons_ne c x (t ++ c :: b) hx
      rw [List.cons_append, h4, h2]
      rw [ih, h1] at h3
      simp only [List.cons_append, List.cons.injEq] at h3
      rw [← h3.1, ← h3.2]
      rfl

/-! ## the specification's `segments` / `unsegments` are `split('/')` / `'/'.join` -/

theorem up_segments_eq (s : Str) : UrlPathSpec.segments s = splitOn '/' s := by
  induction s with
  | nil => rfl
  | cons x t ih =>
    simp only [UrlPathSpec.segments, splitOn, ih]
    split
    · rfl
    · cases splitOn '/' t <;> rfl

theorem up_unsegments_eq (l : List Str) : UrlPathSpec.unsegments l = joinWith '/' l := by
  induction l with
  | nil => rfl
  | cons a t ih =>
    cases t with
    | nil => rfl
    | cons b t => simp only [UrlPathSpec.unsegments, joinWith, ih]

/-! ## `quote` and segments -/

theorem up_splitOn_quote (p : Str) : splitOn '/' (quote p) = (splitOn '/' p).map quote := by
  induction p with
  | nil => rfl
  | cons c t ih =>
    rw [up_quote_cons]
    by_cases hc : c = '/'
    · subst hc
      rw [up_quote_single_slash, List.singleton_append, up_splitOn_cons_sep, up_splitOn_cons_sep, ih]
      rfl
    · obtain ⟨hd, tl, h1, h2⟩ := up_splitOn_prefix '/' (quote [c]) (quote t) (up_quote_single_noslash c hc)
      obtain ⟨hd', tl', h3, h4⟩ := up_splitOn_cons_ne '/' c t hc
      rw [h2, h4]
      rw [ih, h3] at h1
      simp only [List.map_cons, List.cons.injEq] at h1
      rw [List.map_cons, up_quote_cons c hd', h1.1, h1.2]

theorem up_quote_joinWith (l : List Str) : quote (joinWith '/' l) = joinWith '/' (l.map quote) := by
  induction l with
  | nil => rfl
  | cons a t ih =>
    cases t with
    | nil => rfl
    | cons b t =>
      show quote (a ++ '/' :: joinWith '/' (b :: t)) = quote a ++ '/' :: joinWith '/' (List.map quote (b :: t))
      rw [up_quote_append, up_quote_cons, up_quote_single_slash, ih]
      rfl

end ZCV.UrlPath
