import ZCV.Lemmas.ElabNoIntElem
/-!
C10, "every violation is reported as a SchemaError when the schema is loaded": the schema-loader model never answers
`internal …` (a Python exception outside the ZConfig family), under explicit hypotheses on the environment.

Main theorems (namespace `ZCV.Elab`):
* `elab_internal_only_recursion` — the only internal outcome left is fuel exhaustion (Python's RecursionError);
* `elab_no_internal` — no internal outcome when the fuel is not exhausted;
* `elab_no_internal_flat` — no internal outcome, whatever the fuel, for documents without `<import>` / `extends`;
* `elab_errors_are_schema_errors` — the outcome is `ok`, `schema`, `schemaResource` or `conversion`.
Each hypothesis is shown necessary by a closed counterexample in `ElabNoIntEx.lean`; `elab_no_internal_flat` is in
`ElabNoIntFlat.lean`.
-/
namespace ZCV.Elab
open ZCV ZCV.Cfg

variable {P : String → Prop}

/-! ### trees without `<import src=…>` (which the model does not cover) -/

mutual
/-- no `<import>` element of the tree has a non-blank `src` attribute -/
def noImportSrc : Node → Bool
  | .text _ => true
  | .elem t a c => (t != "import".toList || (attrStrip a "src").isEmpty) && noImportSrcL c
def noImportSrcL : List Node → Bool
  | [] => true
  | n :: r => noImportSrc n && noImportSrcL r
end

/-- the tree predicate of the theorems -/
def NoSrc (n : Node) : Prop := noImportSrc n = true

theorem noImportSrc_elem {t : Str} {a : Attrs} {c : List Node} (h : noImportSrc (.elem t a c) = true) :
    (t = "import".toList → (attrStrip a "src").isEmpty = true) ∧ noImportSrcL c = true := by
  rw [noImportSrc] at h
  simp only [Bool.and_eq_true, Bool.or_eq_true, bne_iff_ne, ne_eq] at h
  refine ⟨fun ht => ?_, h.2⟩
  rcases h.1 with h1 | h1
  · exact absurd ht h1
  · exact h1

theorem noImportSrcL_cons {n : Node} {r : List Node} (h : noImportSrcL (n :: r) = true) :
    noImportSrc n = true ∧ noImportSrcL r = true := by
  rw [noImportSrcL] at h
  simpa using h

/-! ### one element, by kind -/

theorem elem_ni_post {env : Env} {h : Hooks} {T : Node → Prop} {d : DocKind} {p : Str} {st : PSt} {t : Str} {a : Attrs}
    {c : List Node} (he : EnvNI env) (hh : HooksNI P T h) (htr : EnvTrees T env)
    (hctx : CtxOK d p st) (hks : KeysOK st.es) (hsrc : t = "import".toList → (attrStrip a "src").isEmpty = true)
    (ih : ChildrenIH P env h d t c) :
    NIx P (visitElem env h d (some p) st (.elem t a c)) ∧
      ∀ st', visitElem env h d (some p) st (.elem t a c) = .ok st' → Post d p st st' := by
  cases hn : nestingCheck p t with
  | error e =>
    rw [visitElem_nest_err hn]
    obtain ⟨s, rfl⟩ := nestingCheck_err_schema hn
    exact ⟨NIx.schema _, fun st' h => by cases h⟩
  | ok u =>
    obtain ⟨hpre, pk, hpk, hf⟩ := hctx
    obtain ⟨ck, hck, hcomp⟩ := nesting_compat hn hpk
    have hmem := ckOf_tag hck
    simp only [ckTable, List.mem_cons, Prod.mk.injEq, List.not_mem_nil, or_false] at hmem
    have htop : ∀ {t : Str}, (t, ck) ∈ ckTable → t ≠ d.topLevel := by
      intro t ht
      simp only [ckTable, List.mem_cons, Prod.mk.injEq, List.not_mem_nil, or_false] at ht
      rcases ht with ⟨rfl, _⟩ | ⟨rfl, _⟩ | ⟨rfl, _⟩ | ⟨rfl, _⟩ | ⟨rfl, _⟩ | ⟨rfl, _⟩ | ⟨rfl, _⟩ | ⟨rfl, _⟩ | ⟨rfl, _⟩ |
        ⟨rfl, _⟩ | ⟨rfl, _⟩ <;> cases d <;> simp only [DocKind.topLevel] <;> decide
    have hnt := htop (ckOf_tag hck)
    rcases hmem with ⟨rfl, rfl⟩ | ⟨rfl, rfl⟩ | ⟨rfl, rfl⟩ | ⟨rfl, rfl⟩ | ⟨rfl, rfl⟩ | ⟨rfl, rfl⟩ | ⟨rfl, rfl⟩ | ⟨rfl, rfl⟩ |
      ⟨rfl, rfl⟩ | ⟨rfl, rfl⟩ | ⟨rfl, rfl⟩
    · -- key
      obtain ⟨hcont, hpkc⟩ := frame_container hf hcomp rfl
      exact elem_keylike pkOfB_key hnt (by cases d <;> simp only [DocKind.handled] <;> decide)
        (startKey_ni he hpre hcont a) (fun st1 h1 => startKey_eff h1)
        (fun st2 k rest hs hk hl => endKey_ni he hs hk hl)
        (fun st2 st' k rest hs hk hl hks2 hend => endKey_post hs hk hl hks2 hend)
        hpre hpk hf hpkc hks hn ih
    · -- multikey
      obtain ⟨hcont, hpkc⟩ := frame_container hf hcomp rfl
      exact elem_keylike pkOfB_multikey hnt (by cases d <;> simp only [DocKind.handled] <;> decide)
        (startMultikey_ni he hpre hcont a) (fun st1 h1 => startMultikey_eff h1)
        (fun st2 k rest hs hk hl => endMultikey_ni he hs hk hl)
        (fun st2 st' k rest hs hk hl hks2 hend => endMultikey_post hs hk hl hks2 hend)
        hpre hpk hf hpkc hks hn ih
    · -- section
      obtain ⟨hcont, hpkc⟩ := frame_container hf hcomp rfl
      exact elem_sectlike pkOfB_section hnt (by cases d <;> simp only [DocKind.handled] <;> decide)
        (startSection_ni he hcont a) (fun st1 h1 => startSection_eff h1) (fun st2 => rfl)
        hpre hpk hf hpkc hks hn ih
    · -- multisection
      obtain ⟨hcont, hpkc⟩ := frame_container hf hcomp rfl
      exact elem_sectlike pkOfB_multisection hnt (by cases d <;> simp only [DocKind.handled] <;> decide)
        (startMultisection_ni he hcont a) (fun st1 h1 => startMultisection_eff h1) (fun st2 => rfl)
        hpre hpk hf hpkc hks hn ih
    · exact elem_sectiontype he hpre hpk hf (frame_decl hcomp rfl) hks hn ih
    · exact elem_abstracttype hpre hpk hf (frame_decl hcomp rfl) hks hn ih
    · exact elem_import hh htr (hsrc rfl) hpre hpk hf (frame_decl hcomp rfl) hks hn ih
    · -- description
      have hni : pk ≠ .imp := by intro h; subst h; simp [compat] at hcomp
      exact elem_cdata (by decide) hnt (by cases d <;> simp only [DocKind.handled] <;> decide)
        (fun h => absurd h (by decide)) (fun _ => frame_desc hpk hf hcomp) (fun h => absurd h (by decide))
        hpre hpk hf hni hks hn
    · -- example
      have hni : pk ≠ .imp := by intro h; subst h; simp [compat] at hcomp
      exact elem_cdata (by decide) hnt (by cases d <;> simp only [DocKind.handled] <;> decide)
        (fun h => absurd h (by decide)) (fun h => absurd h (by decide)) (fun _ => frame_ex hf hcomp)
        hpre hpk hf hni hks hn
    · -- metadefault
      have hni : pk ≠ .imp := by intro h; subst h; simp [compat] at hcomp
      exact elem_cdata (by decide) hnt (by cases d <;> simp only [DocKind.handled] <;> decide)
        (fun h => absurd h (by decide)) (fun h => absurd h (by decide)) (fun h => absurd h (by decide))
        hpre hpk hf hni hks hn
    · -- default
      have hni : pk ≠ .imp := by intro h; subst h; simp [compat] at hcomp
      exact elem_cdata (by decide) hnt (by cases d <;> simp only [DocKind.handled] <;> decide)
        (fun _ => frame_dflt hf hcomp) (fun h => absurd h (by decide)) (fun h => absurd h (by decide))
        hpre hpk hf hni hks hn

/-! ### the walk -/

mutual
theorem visitElem_ni_post {env : Env} {h : Hooks} {T : Node → Prop} {d : DocKind}
    (he : EnvNI env) (hh : HooksNI P T h) (htr : EnvTrees T env) :
    ∀ (n : Node) (p : Str) (st : PSt), CtxOK d p st → KeysOK st.es → noImportSrc n = true →
      NIx P (visitElem env h d (some p) st n) ∧ ∀ st', visitElem env h d (some p) st n = .ok st' → Post d p st st'
  | .text _, p, st, hctx, hks, _ => by
    unfold visitElem
    exact ⟨NIx.ok _, fun st' hv => by injection hv with hv; subst hv; exact Post.refl hctx hks⟩
  | .elem t a c, p, st, hctx, hks, hsrc => by
    obtain ⟨h1, h2⟩ := noImportSrc_elem hsrc
    exact elem_ni_post he hh htr hctx hks h1
      (fun st1 hc1 hk1 => visitChildren_ni_post he hh htr c t st1 hc1 hk1 h2)
theorem visitChildren_ni_post {env : Env} {h : Hooks} {T : Node → Prop} {d : DocKind}
    (he : EnvNI env) (hh : HooksNI P T h) (htr : EnvTrees T env) :
    ∀ (l : List Node) (p : Str) (st : PSt), CtxOK d p st → KeysOK st.es → noImportSrcL l = true →
      NIx P (visitChildren env h d p st l) ∧ ∀ st', visitChildren env h d p st l = .ok st' → Post d p st st'
  | [], p, st, hctx, hks, _ => by
    unfold visitChildren
    exact ⟨NIx.ok _, fun st' hv => by injection hv with hv; subst hv; exact Post.refl hctx hks⟩
  | .text s :: r, p, st, hctx, hks, hsrc => by
    unfold visitChildren
    obtain ⟨_, h2⟩ := noImportSrcL_cons hsrc
    have ih := visitChildren_ni_post he hh htr r p st hctx hks h2
    refine ⟨NIx.ite (fun _ => ih.1) (fun _ => NIx.serr _), ?_⟩
    intro st' hv
    rcases ite_ok hv with ⟨_, hv⟩ | ⟨_, hv⟩
    · exact ih.2 st' hv
    · cases hv
  | .elem t a c :: r, p, st, hctx, hks, hsrc => by
    unfold visitChildren
    obtain ⟨h1, h2⟩ := noImportSrcL_cons hsrc
    have ihe := visitElem_ni_post he hh htr (.elem t a c) p st hctx hks h1
    cases hv1 : visitElem env h d (some p) st (.elem t a c) with
    | error e =>
      refine ⟨⟨fun e' hv => ?_⟩, fun st' hv => by cases hv⟩
      injection hv with hv
      subst hv
      exact ihe.1.out _ hv1
    | ok st1 =>
      have hp1 := ihe.2 st1 hv1
      have ihr := visitChildren_ni_post he hh htr r p st1 hp1.ctx hp1.keys h2
      exact ⟨ihr.1, fun st' hv => hp1.trans (ihr.2 st' hv)⟩
end

/-! ### a whole document -/

theorem visitElem_root_eq {env : Env} {h : Hooks} {d : DocKind} {st : PSt} {t : Str} {a : Attrs} {c : List Node}
    (ht : t = d.topLevel) :
    visitElem env h d none st (.elem t a c) =
      ((match d with
        | .schema ext => startSchema env h ext st a
        | .component => pushPrefix { st with stack := [] } a) >>= fun st1 =>
       visitChildren env h d t st1 c >>= fun st2 =>
       (match d with
        | .schema ext => endSchema ext.isSome st2
        | .component => .ok (popPrefix st2))) := by
  unfold visitElem
  have h1 : (t != d.topLevel) = false := by simp [ht]
  have h2 : (t == d.topLevel) = true := by simp [ht]
  simp only [h1, Bool.false_eq_true, ↓reduceIte, h2]
  cases d with
  | schema ext =>
    dsimp only
    cases startSchema env h ext st a with
    | error e => rfl
    | ok st1 =>
      simp only [bind, Except.bind]
      cases visitChildren env h (.schema ext) t st1 c <;> rfl
  | component =>
    dsimp only
    cases pushPrefix { st with stack := [] } a with
    | error e => rfl
    | ok st1 =>
      simp only [bind, Except.bind]
      cases visitChildren env h .component t st1 c <;> rfl

theorem visitElem_root_other {env : Env} {h : Hooks} {d : DocKind} {st : PSt} {t : Str} {a : Attrs} {c : List Node}
    (ht : t ≠ d.topLevel) :
    visitElem env h d none st (.elem t a c) = .error (.schema "UnknownDocumentTypeError") := by
  unfold visitElem
  have h1 : (t != d.topLevel) = true := by simpa using ht
  simp only [h1, ↓reduceIte]

theorem endSchema_keys {b : Bool} {st st' : PSt} (hks : KeysOK st.es) (h : endSchema b st = .ok st') : KeysOK st'.es := by
  unfold endSchema at h
  split at h
  · split at h
    · simp only [Except.ok.injEq] at h
      subst h
      split
      · exact KeysOK.top_congr (es := st.es) hks _ rfl
      · exact hks
    · cases h
  · cases h

/-- a whole document, read from a fresh parser state -/
theorem visitRoot_ni_keys {env : Env} {h : Hooks} {T : Node → Prop} {d : DocKind}
    (he : EnvNI env) (hh : HooksNI P T h) (htr : EnvTrees T env) (hd : ∀ es, d = .schema (some es) → KeysOK es)
    {st : PSt} (hp : st.prefixes = []) (hks : KeysOK st.es) :
    ∀ n : Node, noImportSrc n = true →
      NIx P (visitElem env h d none st n) ∧ ∀ st', visitElem env h d none st n = .ok st' → KeysOK st'.es
  | .text _, _ => by
    unfold visitElem
    exact ⟨NIx.ok _, fun st' hv => by injection hv with hv; subst hv; exact hks⟩
  | .elem t a c, hsrc => by
    obtain ⟨_, hc⟩ := noImportSrc_elem hsrc
    by_cases ht : t = d.topLevel
    · rw [visitElem_root_eq ht]
      cases d with
      | schema ext =>
        dsimp only
        have hext : ∀ es, ext = some es → KeysOK es := fun es hes => hd es (by rw [hes])
        have hstart : ∀ st1, startSchema env h ext st a = .ok st1 → CtxOK (.schema ext) t st1 ∧ KeysOK st1.es ∧
            ∃ x, st1.prefixes = [x] := by
          intro st1 hs
          obtain ⟨h1, ⟨x, h2⟩, h3⟩ := startSchema_post hh htr hext hs
          rw [hp] at h2
          refine ⟨⟨by rw [h2]; simp, .topS, ?_, h1⟩, h3, x, h2⟩
          rw [ht]; rfl
        have hchildren : ∀ st1 st2 x, st1.prefixes = [x] → Post (.schema ext) t st1 st2 →
            st2.stack = [.schema] ∧ st2.prefixes = [x] := by
          intro st1 st2 x hx hpost
          obtain ⟨_, pk, hpk, hf⟩ := hpost.ctx
          have : pk = .topS := by
            rw [ht] at hpk
            have : pkOfB false Gen.schemaTopLevel = some pk := hpk
            rw [show pkOfB false Gen.schemaTopLevel = some PK.topS from by decide] at this
            injection this with this
            exact this.symm
          subst this
          exact ⟨hf, hpost.prefixes.trans hx⟩
        refine ⟨?_, ?_⟩
        · refine NIx.bind (startSchema_ni he hh htr hext) (fun st1 hs => ?_)
          obtain ⟨hc1, hk1, x, hx⟩ := hstart st1 hs
          have ih := visitChildren_ni_post he hh htr c t st1 hc1 hk1 hc
          refine NIx.bind ih.1 (fun st2 hv => ?_)
          obtain ⟨e1, e2⟩ := hchildren st1 st2 x hx (ih.2 st2 hv)
          exact endSchema_ni e1 e2
        · intro st' hv
          rw [bind_ok] at hv
          obtain ⟨st1, hs, hv⟩ := hv
          rw [bind_ok] at hv
          obtain ⟨st2, hv2, hv⟩ := hv
          obtain ⟨hc1, hk1, x, hx⟩ := hstart st1 hs
          have ih := visitChildren_ni_post he hh htr c t st1 hc1 hk1 hc
          exact endSchema_keys (ih.2 st2 hv2).keys hv
      | component =>
        dsimp only
        have hstart : ∀ st1, pushPrefix { st with stack := [] } a = .ok st1 → CtxOK .component t st1 ∧ KeysOK st1.es := by
          intro st1 hs
          obtain ⟨x, rfl⟩ := pushPrefix_eff hs
          refine ⟨⟨by simp, .topC, ?_, rfl⟩, hks⟩
          rw [ht]; rfl
        refine ⟨?_, ?_⟩
        · refine NIx.bind (pushPrefix_ni _ _) (fun st1 hs => ?_)
          obtain ⟨hc1, hk1⟩ := hstart st1 hs
          have ih := visitChildren_ni_post he hh htr c t st1 hc1 hk1 hc
          exact NIx.bind ih.1 (fun st2 _ => NIx.ok _)
        · intro st' hv
          rw [bind_ok] at hv
          obtain ⟨st1, hs, hv⟩ := hv
          rw [bind_ok] at hv
          obtain ⟨st2, hv2, hv⟩ := hv
          obtain ⟨hc1, hk1⟩ := hstart st1 hs
          have ih := visitChildren_ni_post he hh htr c t st1 hc1 hk1 hc
          injection hv with hv
          subst hv
          exact (ih.2 st2 hv2).keys
    · rw [visitElem_root_other ht]
      exact ⟨NIx.schema _, fun st' hv => by cases hv⟩

/-! ### nested documents -/

/-- the internal outcome that stands for Python's RecursionError: running out of fuel -/
def IsRecursion (e : String) : Prop := e = "RecursionError"

theorem hooks_ni {env : Env} (he : EnvNI env) (htr : EnvTrees NoSrc env) : ∀ fuel, HooksNI IsRecursion NoSrc (hooks env fuel)
  | 0 => by
    refine ⟨?_, ?_, ?_, ?_⟩
    · intro es tree _ _; exact ⟨fun e h => by injection h with h; injection h with h; exact h.symm⟩
    · intro es tree es' _ _ h; cases h
    · intro es tree _ _; exact ⟨fun e h => by injection h with h; injection h with h; exact h.symm⟩
    · intro es tree es' _ _ h; cases h
  | n + 1 => by
    have ih := hooks_ni he htr n
    refine ⟨?_, ?_, ?_, ?_⟩
    · intro es tree hes ht
      exact NIx.map (visitRoot_ni_keys (d := .component) he ih htr (by intro es h; cases h) (st := { es := es }) rfl hes tree ht).1
    · intro es tree es' hes ht h
      simp only [hooks] at h
      cases hv : visitElem env (hooks env n) .component none { es := es } tree with
      | error e => simp [hv, Except.map] at h
      | ok st' =>
        simp only [hv, Except.map, Except.ok.injEq] at h
        subst h
        exact (visitRoot_ni_keys (d := .component) he ih htr (by intro es h; cases h) (st := { es := es }) rfl hes tree ht).2 st' hv
    · intro es tree hes ht
      exact NIx.map (visitRoot_ni_keys (d := .schema (some es)) he ih htr (by intro es' h; cases h; exact hes)
        (st := { es := es }) rfl hes tree ht).1
    · intro es tree es' hes ht h
      simp only [hooks] at h
      cases hv : visitElem env (hooks env n) (.schema (some es)) none { es := es } tree with
      | error e => simp [hv, Except.map] at h
      | ok st' =>
        simp only [hv, Except.map, Except.ok.injEq] at h
        subst h
        exact (visitRoot_ni_keys (d := .schema (some es)) he ih htr (by intro es' h; cases h; exact hes)
          (st := { es := es }) rfl hes tree ht).2 st' hv

theorem elabES_ni {env : Env} (he : EnvNI env) (htr : EnvTrees NoSrc env) (fuel : Nat) {t : Node} (hsrc : NoSrc t) :
    NIx IsRecursion (elabES env fuel t) :=
  NIx.map (visitRoot_ni_keys (d := .schema none) he (hooks_ni he htr fuel) htr (by intro es h; cases h)
    (st := { es := emptyES }) rfl KeysOK.emptyES t hsrc).1

/-! ### the theorems -/

/-- **The only internal failure left is fuel exhaustion.**  If the datatype registry never raises for dotted names, key
    types reject with ValueError only and never turn a fixed name into `*` / `+`, and no document in reach uses
    `<import src=…>` (which the model does not cover), then whatever schema document is loaded, with base schemas and
    components nested to any depth, the only `internal` outcome the model can produce is `RecursionError`: a nested
    document reached with no fuel left.  Every other failure is a `SchemaError`, `SchemaResourceError` or
    `DataConversionError`. -/
theorem elab_internal_only_recursion (env : Env) (fuel : Nat) (t : Node) (e : String)
    (he : EnvNI env) (htr : EnvTrees NoSrc env) (hsrc : NoSrc t)
    (h : elabSchema env fuel t = .error (.internal e)) : e = "RecursionError" :=
  (NIx.map (f := ES.toSchema) (elabES_ni he htr fuel hsrc)).out e h

/-- **No internal errors**: under the hypotheses of `elab_internal_only_recursion`, when the fuel is not exhausted
    (no nested document is reached at fuel 0 — in Python: the chain of imports / extends is not cyclic), loading a
    schema never fails with an exception outside the ZConfig family. -/
theorem elab_no_internal (env : Env) (fuel : Nat) (t : Node) (e : String)
    (he : EnvNI env) (htr : EnvTrees NoSrc env) (hsrc : NoSrc t)
    (hfuel : elabSchema env fuel t ≠ .error (.internal "RecursionError")) :
    elabSchema env fuel t ≠ .error (.internal e) := by
  intro h
  have := elab_internal_only_recursion env fuel t e he htr hsrc h
  subst this
  exact hfuel h

/-- **Every failure of the schema loader is an error of the ZConfig family**: the outcome is a schema, a `SchemaError`
    (`schema`), a `SchemaResourceError` (`schemaResource`), or a `DataConversionError` (`conversion`; it only arises from
    `computedefault`, for a `<default key=…>` of a `name="+"` key whose key the key type of the enclosing type rejects —
    see `convDefaultKey`, the only place of the model that produces it). -/
theorem elab_errors_are_schema_errors (env : Env) (fuel : Nat) (t : Node)
    (he : EnvNI env) (htr : EnvTrees NoSrc env) (hsrc : NoSrc t)
    (hfuel : elabSchema env fuel t ≠ .error (.internal "RecursionError")) :
    (∃ S, elabSchema env fuel t = .ok S) ∨ (∃ m, elabSchema env fuel t = .error (.schema m)) ∨
    (∃ m, elabSchema env fuel t = .error (.schemaResource m)) ∨ (∃ m, elabSchema env fuel t = .error (.conversion m)) := by
  cases h : elabSchema env fuel t with
  | ok S => exact Or.inl ⟨S, rfl⟩
  | error e =>
    cases e with
    | schema m => exact Or.inr (Or.inl ⟨m, rfl⟩)
    | schemaResource m => exact Or.inr (Or.inr (Or.inl ⟨m, rfl⟩))
    | conversion m => exact Or.inr (Or.inr (Or.inr ⟨m, rfl⟩))
    | internal m => exact absurd h (elab_no_internal env fuel t m he htr hsrc hfuel)

end ZCV.Elab
