import ZCV.Lemmas.ElabCompleteConvBase
/-!
C10, converse of completeness, step 2: if the children of a `<key>` / `<multikey>` / `<section>` / `<multisection>`
element are read successfully, they obey the rules for such a body.
-/
namespace ZCV.SchemaRules
open ZCV ZCV.Elab
open ZCV.Cfg (VI SectInfo Default)

/-! ### parents that only hold character-data elements -/

/-- the nesting table allows only character-data elements below `parent` -/
def leafParent (parent : Str) : Bool :=
  Gen.allowedParents.all fun e => !e.2.contains parent || Gen.cdataTags.contains e.1

theorem leafParent_cdata {parent t : Str} (hl : leafParent parent = true) (hn : nestingOK parent t = true) :
    Gen.cdataTags.contains t = true := by
  unfold nestingOK at hn
  rw [List.any_eq_true] at hn
  obtain ⟨e, he, hc⟩ := hn
  simp only [Bool.and_eq_true, beq_iff_eq] at hc
  have := List.all_eq_true.1 hl e he
  rw [hc.2] at this
  simp only [Bool.not_true, Bool.false_or] at this
  rw [← hc.1]
  exact this

theorem leafParent_key : leafParent "key".toList = true := by decide +kernel
theorem leafParent_multikey : leafParent "multikey".toList = true := by decide +kernel
theorem leafParent_section : leafParent "section".toList = true := by decide +kernel
theorem leafParent_multisection : leafParent "multisection".toList = true := by decide +kernel
theorem leafParent_abstracttype : leafParent "abstracttype".toList = true := by decide +kernel

theorem collectText_ok_all {parent : Str} {l : List Node} {s : Str} (h : collectText parent l = .ok s) :
    l.all isText = true := by
  rw [List.all_eq_true]
  intro n hn
  obtain ⟨x, rfl⟩ := collectText_ok_text h n hn
  rfl

/-- a successfully read character-data element below a key or section element: it stands where the table allows, holds
text only, and `localStep` succeeded on the frame on top of the stack -/
theorem visitElem_cdata_inv {env : Env} {h : Hooks} {d : DocKind} {parent : Str} {st st1 : PSt} {t : Str} {a : Attrs}
    {c : List Node} {f : Frame} {rest : List Frame} (hl : leafParent parent = true) (hs : st.stack = f :: rest)
    (hf : f.isLocal = true) (hv : visitElem env h d (some parent) st (.elem t a c) = .ok st1) :
    nestingOK parent t = true ∧ Gen.cdataTags.contains t = true ∧ c.all isText = true ∧
      ∃ f1, localStep (isComp d) t a (strip (textOf c)) f = .ok f1 ∧ st1 = { st with stack := f1 :: rest } := by
  have hn := check_nestingOK (visitElem_ok_nesting hv)
  have hc := leafParent_cdata hl hn
  obtain ⟨h1, h2⟩ := cdataTag_dispatch d hc
  rw [visitElem_cdata_eq (nestingOK_check hn) h1 h2 hc] at hv
  obtain ⟨data, hcol, hch⟩ := er_bind_ok hv
  have htxt := collectText_ok_all hcol
  rw [collectText_of_text t c htxt] at hcol
  injection hcol with hcol
  subst hcol
  refine ⟨hn, hc, htxt, ?_⟩
  have hch' : charactersTag (isComp d) t a (strip (textOf c)) st = .ok st1 := hch
  rw [charactersTag_eq_local hs hf] at hch'
  cases hl' : localStep (isComp d) t a (strip (textOf c)) f with
  | error e => rw [hl'] at hch'; cases hch'
  | ok f1 =>
    rw [hl'] at hch'
    simp only [Except.map, Except.ok.injEq] at hch'
    exact ⟨f1, rfl, hch'.symm⟩

/-! ### counting, backwards -/

theorem onceLeft_nil (flag : Bool) (tag : Str) : onceLeft flag tag [] := by
  unfold onceLeft countTag
  cases flag <;> simp

theorem onceLeft_cons_text {flag : Bool} {tag s : Str} {r : List Node} (h : onceLeft flag tag r) :
    onceLeft flag tag (.text s :: r) := by
  unfold onceLeft at h ⊢
  rw [countTag_text]
  exact h

theorem onceLeft_cons_other {flag : Bool} {tag t : Str} {a : Attrs} {c r : List Node} (ht : t ≠ tag)
    (h : onceLeft flag tag r) : onceLeft flag tag (.elem t a c :: r) := by
  unfold onceLeft at h ⊢
  rw [countTag_elem]
  have : (t == tag) = false := by simpa using ht
  simpa [this] using h

theorem onceLeft_cons_same {tag : Str} {a : Attrs} {c r : List Node} (h : onceLeft true tag r) :
    onceLeft false tag (.elem tag a c :: r) := by
  unfold onceLeft at h ⊢
  rw [countTag_elem]
  simp only [↓reduceIte] at h
  simp only [Bool.false_eq_true, ↓reduceIte, beq_self_eq_true]
  omega

theorem OnceIf.nil (isC flag : Bool) (tag : Str) : OnceIf isC flag tag [] := fun _ => onceLeft_nil _ _

theorem OnceIf.cons_text {isC flag : Bool} {tag s : Str} {r : List Node} (h : OnceIf isC flag tag r) :
    OnceIf isC flag tag (.text s :: r) := fun hc => onceLeft_cons_text (h hc)

theorem OnceIf.cons_other {isC flag : Bool} {tag t : Str} {a : Attrs} {c r : List Node} (ht : t ≠ tag)
    (h : OnceIf isC flag tag r) : OnceIf isC flag tag (.elem t a c :: r) := fun hc => onceLeft_cons_other ht (h hc)

theorem OnceIf.cons_same {isC flag : Bool} {tag : Str} {a : Attrs} {c r : List Node} (hf : (flag && !isC) = false)
    (h : OnceIf isC true tag r) : OnceIf isC flag tag (.elem tag a c :: r) := by
  intro hc
  subst hc
  have : flag = false := by simpa using hf
  subst this
  exact onceLeft_cons_same (h rfl)

theorem descOnce_of_onceIf {isC : Bool} {c : List Node} (h : OnceIf isC false "description".toList c) :
    descOnce (!isC) c = true := by
  unfold descOnce
  cases isC with
  | true => rfl
  | false =>
    have h1 := h rfl
    unfold onceLeft at h1
    simp only [Bool.false_eq_true, ↓reduceIte] at h1
    simp only [Bool.not_false, Bool.not_true, Bool.false_or, decide_eq_true_eq]
    exact h1

theorem onceOK_of_left {isC : Bool} {c : List Node} (h1 : OnceIf isC false "description".toList c)
    (h2 : onceLeft false "example".toList c) : onceOK (!isC) c = true := by
  unfold onceLeft at h2
  simp only [Bool.false_eq_true, ↓reduceIte] at h2
  unfold onceOK
  simp only [Bool.and_eq_true, decide_eq_true_eq]
  exact ⟨descOnce_of_onceIf h1, h2⟩

/-! ### the key object's defaults -/

/-- the kind of default a key object holds while its element is open -/
structure DfltShape (k : EKey) : Prop where
  single : k.name = ['+'] → k.multi = false → ∃ m, k.dflt = .keyed m ∧ (m.map (·.1)).Nodup
  multi : k.name = ['+'] → k.multi = true → ∃ m, k.dflt = .keyedMany m
  fixedMulti : k.name ≠ ['+'] → k.multi = true → ∃ l, k.dflt = .many l

/-- a successful `adddefault` on an open key object -/
theorem addDefault_inv {k k1 : EKey} {data : Str} {key : Option Str} (hs : DfltShape k)
    (hfs : k.name ≠ ['+'] → k.multi = false → k.finished = true) (h : addDefault k data key = .ok k1) :
    k.finished = false ∧ (k.name = ['+'] ↔ key.isSome = true) ∧
      ∃ d1, k1 = { k with dflt := d1 } ∧ DfltShape { k with dflt := d1 } ∧
        (k.name = ['+'] → k.multi = false → ∀ m, k.dflt = .keyed m →
          ∃ kk vi, key = some kk ∧ kk ∉ m.map (·.1) ∧ d1 = .keyed (m ++ [(kk, vi)])) := by
  obtain ⟨hfin, hkeyed, hav⟩ := addDefault_ok h
  refine ⟨hfin, hkeyed, ?_⟩
  obtain ⟨d1, rfl⟩ := addValueInfo_ok hav
  refine ⟨d1, rfl, ?_, ?_⟩
  · -- the shape is kept
    by_cases hplus : k.name = ['+']
    · by_cases hmulti : k.multi = true
      · obtain ⟨m, hm⟩ := hs.multi hplus hmulti
        obtain ⟨kk, hkk⟩ := Option.isSome_iff_exists.1 (hkeyed.1 hplus)
        subst hkk
        obtain ⟨m', e1, _⟩ := addValueInfo_multi_keys k { value := data, pos := defaultPos } kk m hmulti hplus hm
        rw [e1] at hav
        injection hav with hav
        have hd : d1 = .keyedMany m' := by
          have := congrArg EKey.dflt hav
          exact this.symm
        exact ⟨fun _ hc => (by rw [show ({ k with dflt := d1 } : EKey).multi = k.multi from rfl, hmulti] at hc; cases hc),
          fun _ _ => ⟨m', hd⟩, fun hc => absurd hplus hc⟩
      · have hmulti' : k.multi = false := by simpa using hmulti
        obtain ⟨m, hm, hnd⟩ := hs.single hplus hmulti'
        obtain ⟨kk, hkk⟩ := Option.isSome_iff_exists.1 (hkeyed.1 hplus)
        subst hkk
        by_cases hin : kk ∈ m.map (·.1)
        · rw [addValueInfo_single_dup k _ kk m hmulti' hplus hm hin] at hav; cases hav
        · rw [addValueInfo_single_new k _ kk m hmulti' hplus hm hin] at hav
          injection hav with hav
          have hd : d1 = .keyed (m ++ [(kk, { value := data, pos := defaultPos })]) :=
            (congrArg EKey.dflt hav).symm
          refine ⟨fun _ _ => ⟨_, hd, ?_⟩,
            fun _ hc => (by rw [show ({ k with dflt := d1 } : EKey).multi = k.multi from rfl, hmulti'] at hc; cases hc),
            fun hc => absurd hplus hc⟩
          rw [List.map_append, List.nodup_append]
          refine ⟨hnd, by simp, ?_⟩
          intro x hx y hy
          simp only [List.map_cons, List.map_nil, List.mem_singleton] at hy
          subst hy
          intro e; subst e
          exact hin hx
    · by_cases hmulti : k.multi = true
      · obtain ⟨l, hl⟩ := hs.fixedMulti hplus hmulti
        have hkn : key = none := by
          cases key with
          | none => rfl
          | some kk => exact absurd (hkeyed.2 rfl) hplus
        subst hkn
        have hav2 : addValueInfo k { value := data, pos := defaultPos } none =
            .ok { k with dflt := .many (l ++ [{ value := data, pos := defaultPos }]) } := by
          unfold addValueInfo
          have : (k.name == ['+']) = false := by simpa using hplus
          simp only [hmulti, ↓reduceIte, this, Bool.false_eq_true, hl]
        rw [hav2] at hav
        injection hav with hav
        have hd : d1 = .many (l ++ [{ value := data, pos := defaultPos }]) := (congrArg EKey.dflt hav).symm
        exact ⟨fun hc => absurd hc hplus, fun hc => absurd hc hplus, fun _ _ => ⟨_, hd⟩⟩
      · have hmulti' : k.multi = false := by simpa using hmulti
        have := hfs hplus hmulti'
        rw [hfin] at this; cases this
  · intro hplus hmulti m hm
    obtain ⟨kk, hkk⟩ := Option.isSome_iff_exists.1 (hkeyed.1 hplus)
    subst hkk
    by_cases hin : kk ∈ m.map (·.1)
    · rw [addValueInfo_single_dup k _ kk m hmulti hplus hm hin] at hav; cases hav
    · rw [addValueInfo_single_new k _ kk m hmulti hplus hm hin] at hav
      injection hav with hav
      exact ⟨kk, _, rfl, hin, (congrArg EKey.dflt hav).symm⟩

/-- from the rest of the body back to the body, across a `<default>` element -/
theorem KeyBodyPre.cons_default {isC : Bool} {k : EKey} {a : Attrs} {c0 r : List Node} {data : Str} {k1 : EKey}
    (hs : DfltShape k) (hfs : k.name ≠ ['+'] → k.multi = false → k.finished = true) (hmin : k.minOccurs = 0)
    (had : addDefault k data (attr a "key") = .ok k1) (hp : KeyBodyPre isC k1 r) :
    KeyBodyPre isC k (.elem "default".toList a c0 :: r) := by
  obtain ⟨hfin, hkeyed, d1, rfl, _, hstep⟩ := addDefault_inv hs hfs had
  have hde : defaultElems (.elem "default".toList a c0 :: r) = a :: defaultElems r := defaultElems_default a c0 r
  refine
    { desc := hp.desc.cons_other (by decide +kernel),
      ex := onceLeft_cons_other (by decide +kernel) hp.ex,
      open_ := fun _ => ⟨hmin, hfin⟩,
      keyed := ?_, unkeyed := ?_, single := ?_,
      multi := hs.multi, fixedMulti := hs.fixedMulti, fixedSingle := ?_ }
  · intro hplus
    rw [defaultKeys_eq, hde, List.map_cons, List.all_cons, hkeyed.1 hplus, Bool.true_and, ← defaultKeys_eq]
    exact hp.keyed hplus
  · intro hplus
    have hk : attr a "key" = none := by
      cases hx : attr a "key" with
      | none => rfl
      | some kk => exact absurd (hkeyed.2 (by rw [hx]; rfl)) hplus
    rw [defaultKeys_eq, hde, List.map_cons, List.all_cons, hk, ← defaultKeys_eq]
    exact hp.unkeyed hplus
  · intro hplus hmulti
    obtain ⟨m, hm, _⟩ := hs.single hplus hmulti
    obtain ⟨kk, vi, hk, _, hd1⟩ := hstep hplus hmulti m hm
    obtain ⟨m1, hm1, hnd⟩ := hp.single hplus hmulti
    have : m1 = m ++ [(kk, vi)] := by
      have h1 : ({ k with dflt := d1 } : EKey).dflt = .keyed m1 := hm1
      rw [show ({ k with dflt := d1 } : EKey).dflt = d1 from rfl, hd1] at h1
      injection h1 with h1
      exact h1.symm
    subst this
    refine ⟨m, hm, ?_⟩
    have hpk : plusKeys (.elem "default".toList a c0 :: r) = kk :: plusKeys r := by
      rw [plusKeys_eq, plusKeys_eq, hde, List.map_cons, List.filterMap_cons, hk]
      rfl
    rw [hpk]
    rw [List.map_append, List.append_assoc] at hnd
    exact hnd
  · intro hplus hmulti
    have := hfs hplus hmulti
    rw [hfin] at this; cases this

theorem KeyBodyPre.nil {isC : Bool} {k : EKey} (hs : DfltShape k) : KeyBodyPre isC k [] :=
  { desc := OnceIf.nil _ _ _, ex := onceLeft_nil _ _,
    open_ := fun h => absurd rfl h,
    keyed := fun _ => rfl, unkeyed := fun _ => rfl,
    single := fun h1 h2 => by
      obtain ⟨m, hm, hnd⟩ := hs.single h1 h2
      exact ⟨m, hm, by rw [plusKeys_nil, List.append_nil]; exact hnd⟩,
    multi := hs.multi, fixedMulti := hs.fixedMulti,
    fixedSingle := fun _ _ => rfl }

/-- **the body of a key element, backwards**: if it is read successfully, it obeys the rules -/
theorem keyBody_inv {env : Env} {h : Hooks} {d : DocKind} {parent : Str} (hl : leafParent parent = true)
    (rest : List Frame) :
    ∀ (c : List Node) (st st' : PSt) (k : EKey), st.stack = .key k :: rest → DfltShape k →
      (k.name ≠ ['+'] → k.multi = false → k.finished = true) →
      visitChildren env h d parent st c = .ok st' →
      leafBodyOK parent c = true ∧ KeyBodyPre (isComp d) k c
  | [], _, _, k, _, hs, _, _ => ⟨rfl, KeyBodyPre.nil hs⟩
  | .text s :: r, st, st', k, hst, hs, hfs, hv => by
    rw [visitChildren_text] at hv
    by_cases hb : (strip s).isEmpty = true
    · rw [if_pos hb] at hv
      obtain ⟨h1, h2⟩ := keyBody_inv hl rest r st st' k hst hs hfs hv
      refine ⟨by simp only [leafBodyOK, List.all_cons, Bool.and_eq_true]; exact ⟨hb, h1⟩, ?_⟩
      exact h2.skip (defaultElems_text s r).symm rfl rfl rfl rfl rfl h2.desc.cons_text
        (onceLeft_cons_text h2.ex)
    · rw [if_neg hb] at hv; cases hv
  | .elem t a c0 :: r, st, st', k, hst, hs, hfs, hv => by
    rw [visitChildren_elem] at hv
    obtain ⟨st1, hv1, hv2⟩ := er_bind_ok hv
    obtain ⟨hn, hc, htxt, f1, hstep, rfl⟩ := visitElem_cdata_inv hl hst rfl hv1
    have hleaf : ∀ (hr : leafBodyOK parent r = true), leafBodyOK parent (.elem t a c0 :: r) = true := by
      intro hr
      simp only [leafBodyOK, List.all_cons, Bool.and_eq_true, cdataOK]
      exact ⟨⟨⟨hn, hc⟩, htxt⟩, hr⟩
    rcases cdataTag_cases hc with rfl | rfl | rfl | rfl
    · -- description
      rw [localStep_key_description] at hstep
      by_cases hd : (k.hasDesc && !isComp d) = true
      · rw [if_pos hd] at hstep; cases hstep
      · rw [if_neg hd] at hstep
        injection hstep with hstep
        subst hstep
        have hd' : (k.hasDesc && !isComp d) = false := by simpa using hd
        obtain ⟨h1, h2⟩ := keyBody_inv hl rest r _ st' { k with hasDesc := true } rfl
          ⟨hs.single, hs.multi, hs.fixedMulti⟩ hfs hv2
        refine ⟨hleaf h1, ?_⟩
        exact h2.skip (defaultElems_other (t := "description".toList) a c0 r (by decide +kernel)).symm rfl rfl rfl rfl rfl
          (OnceIf.cons_same hd' h2.desc) (onceLeft_cons_other (by decide +kernel) h2.ex)
    · -- metadefault
      rw [localStep_key_metadefault] at hstep
      injection hstep with hstep
      subst hstep
      obtain ⟨h1, h2⟩ := keyBody_inv hl rest r _ st' k rfl hs hfs hv2
      refine ⟨hleaf h1, ?_⟩
      exact h2.skip (defaultElems_other (t := "metadefault".toList) a c0 r (by decide +kernel)).symm rfl rfl rfl rfl rfl
        (h2.desc.cons_other (by decide +kernel)) (onceLeft_cons_other (by decide +kernel) h2.ex)
    · -- example
      rw [localStep_key_example] at hstep
      by_cases hd : k.hasEx = true
      · rw [if_pos hd] at hstep; cases hstep
      · rw [if_neg hd] at hstep
        injection hstep with hstep
        subst hstep
        have hd' : k.hasEx = false := by simpa using hd
        obtain ⟨h1, h2⟩ := keyBody_inv hl rest r _ st' { k with hasEx := true } rfl
          ⟨hs.single, hs.multi, hs.fixedMulti⟩ hfs hv2
        refine ⟨hleaf h1, ?_⟩
        exact h2.skip (defaultElems_other (t := "example".toList) a c0 r (by decide +kernel)).symm rfl rfl rfl rfl rfl
          (h2.desc.cons_other (by decide +kernel)) (by rw [hd']; exact onceLeft_cons_same h2.ex)
    · -- default
      rw [localStep_key_default] at hstep
      by_cases hm : (k.minOccurs != 0) = true
      · rw [if_pos hm] at hstep; cases hstep
      · rw [if_neg hm] at hstep
        have hmin : k.minOccurs = 0 := by simpa using hm
        cases had : addDefault k (strip (textOf c0)) (attr a "key") with
        | error e => rw [had] at hstep; cases hstep
        | ok k1 =>
          rw [had] at hstep
          simp only [Except.map, Except.ok.injEq] at hstep
          subst hstep
          obtain ⟨_, _, d1, hk1, hs1, _⟩ := addDefault_inv hs hfs had
          subst hk1
          obtain ⟨h1, h2⟩ := keyBody_inv hl rest r _ st' _ rfl hs1 hfs hv2
          exact ⟨hleaf h1, KeyBodyPre.cons_default hs hfs hmin had h2⟩

/-- **the body of a section element, backwards** -/
theorem sectBody_inv {env : Env} {h : Hooks} {dk : DocKind} {parent : Str} (hl : leafParent parent = true)
    (hpar : nestingOK parent "default".toList = false) (rest : List Frame) :
    ∀ (c : List Node) (st st' : PSt) (d e : Bool), st.stack = .sect d e :: rest →
      visitChildren env h dk parent st c = .ok st' →
      leafBodyOK parent c = true ∧ OnceIf (isComp dk) d "description".toList c ∧ onceLeft e "example".toList c
  | [], _, _, d, e, _, _ => ⟨rfl, OnceIf.nil _ _ _, onceLeft_nil _ _⟩
  | .text s :: r, st, st', d, e, hst, hv => by
    rw [visitChildren_text] at hv
    by_cases hb : (strip s).isEmpty = true
    · rw [if_pos hb] at hv
      obtain ⟨h1, h2, h3⟩ := sectBody_inv hl hpar rest r st st' d e hst hv
      exact ⟨by simp only [leafBodyOK, List.all_cons, Bool.and_eq_true]; exact ⟨hb, h1⟩,
        h2.cons_text, onceLeft_cons_text h3⟩
    · rw [if_neg hb] at hv; cases hv
  | .elem t a c0 :: r, st, st', d, e, hst, hv => by
    rw [visitChildren_elem] at hv
    obtain ⟨st1, hv1, hv2⟩ := er_bind_ok hv
    obtain ⟨hn, hc, htxt, f1, hstep, rfl⟩ := visitElem_cdata_inv hl hst rfl hv1
    have hleaf : ∀ (hr : leafBodyOK parent r = true), leafBodyOK parent (.elem t a c0 :: r) = true := by
      intro hr
      simp only [leafBodyOK, List.all_cons, Bool.and_eq_true, cdataOK]
      exact ⟨⟨⟨hn, hc⟩, htxt⟩, hr⟩
    rcases cdataTag_cases hc with rfl | rfl | rfl | rfl
    · rw [localStep_sect_description] at hstep
      by_cases hd : (d && !isComp dk) = true
      · rw [if_pos hd] at hstep; cases hstep
      · rw [if_neg hd] at hstep
        injection hstep with hstep
        subst hstep
        have hd' : (d && !isComp dk) = false := by simpa using hd
        obtain ⟨h1, h2, h3⟩ := sectBody_inv hl hpar rest r _ st' true e rfl hv2
        exact ⟨hleaf h1, OnceIf.cons_same hd' h2, onceLeft_cons_other (by decide +kernel) h3⟩
    · rw [localStep_sect_metadefault] at hstep
      injection hstep with hstep
      subst hstep
      obtain ⟨h1, h2, h3⟩ := sectBody_inv hl hpar rest r _ st' d e rfl hv2
      exact ⟨hleaf h1, h2.cons_other (by decide +kernel), onceLeft_cons_other (by decide +kernel) h3⟩
    · rw [localStep_sect_example] at hstep
      by_cases hd : e = true
      · rw [if_pos hd] at hstep; cases hstep
      · rw [if_neg hd] at hstep
        injection hstep with hstep
        subst hstep
        have hd' : e = false := by simpa using hd
        subst hd'
        obtain ⟨h1, h2, h3⟩ := sectBody_inv hl hpar rest r _ st' d true rfl hv2
        exact ⟨hleaf h1, h2.cons_other (by decide +kernel), onceLeft_cons_same h3⟩
    · rw [hpar] at hn; cases hn

end ZCV.SchemaRules
