import ZCV.Lemmas.Inet6Octet
/-!
The main loop of glibc's `inet_pton6` (`pton6Loop`), token by token, and the shape of the texts it accepts
(`V6Tail`, an inductive description used only as a stepping stone towards `DTSpec.Inet6Text`).
-/
namespace ZCV.DT
open ZCV ZCV.DTSpec

theorem v6_hex_eq (c : Char) : isHexDigit c = v6Hex c := rfl

theorem v6_colon_not_hex : isHexDigit ':' = false := by decide
theorem v6_dot_not_hex : isHexDigit '.' = false := by decide

theorem v6_digit_hex (c : Char) (h : isAsciiDigit c = true) : isHexDigit c = true := by
  simp [isHexDigit, h]

/-- reading hexadecimal digits of a group -/
theorem v6_loop_hex (h : Str) (hh : ∀ c ∈ h, isHexDigit c = true) (r curtok : Str) (tp : Nat) (colon : Bool) :
    ∀ xd, xd + h.length ≤ 4 → pton6Loop (h ++ r) curtok tp colon xd = pton6Loop r curtok tp colon (xd + h.length) := by
  induction h with
  | nil => intro xd _; rfl
  | cons c h ih =>
    intro xd hx
    rw [List.length_cons] at hx
    rw [List.cons_append, pton6Loop, if_pos (hh c (List.mem_cons_self ..))]
    have : (xd == 4) = false := by simp; omega
    rw [this]
    simp only [Bool.false_eq_true, if_false]
    rw [ih (fun x hx' => hh x (List.mem_cons_of_mem _ hx')) (xd + 1) (by omega), List.length_cons]
    congr 1; omega

/-- a fifth hexadecimal digit is refused -/
theorem v6_loop_hex_over (h : Str) (hh : ∀ c ∈ h, isHexDigit c = true) (r curtok : Str) (tp : Nat) (colon : Bool) :
    ∀ xd, xd ≤ 4 → 4 < xd + h.length → pton6Loop (h ++ r) curtok tp colon xd = false := by
  induction h with
  | nil => intro xd h1 h2; simp at h2; omega
  | cons c h ih =>
    intro xd h1 h2
    rw [List.length_cons] at h2
    rw [List.cons_append, pton6Loop, if_pos (hh c (List.mem_cons_self ..))]
    by_cases h4 : xd = 4
    · subst h4; rfl
    · have : (xd == 4) = false := by simpa using h4
      rw [this]
      simp only [Bool.false_eq_true, if_false]
      exact ih (fun x hx' => hh x (List.mem_cons_of_mem _ hx')) (xd + 1) (by omega) (by omega)

theorem v6_span_hex (s : Str) : ∃ a r, s = a ++ r ∧ (∀ c ∈ a, isHexDigit c = true) ∧
    (r = [] ∨ ∃ c r', r = c :: r' ∧ isHexDigit c = false) := by
  induction s with
  | nil => exact ⟨[], [], rfl, (fun c hc => by cases hc), Or.inl rfl⟩
  | cons c s ih =>
    cases hc : isHexDigit c with
    | false => exact ⟨[], c :: s, rfl, (fun c hc => by cases hc), Or.inr ⟨c, s, rfl, hc⟩⟩
    | true =>
      obtain ⟨a, r, rfl, ha, hr⟩ := ih
      refine ⟨c :: a, r, rfl, ?_, hr⟩
      intro x hx
      rcases List.mem_cons.mp hx with rfl | hx
      · exact hc
      · exact ha x hx

/-- the final test, in arithmetic form (`tp ≤ 16` bytes written so far) -/
theorem v6_finish_iff (tp : Nat) (colon : Bool) (xd : Nat) (htp : tp ≤ 16) :
    pton6Finish tp colon xd = true ↔
      (if colon = true then tp + (if 0 < xd then 2 else 0) < 16 else tp + (if 0 < xd then 2 else 0) = 16) := by
  unfold pton6Finish
  by_cases hx : 0 < xd
  · cases colon <;> simp [hx] <;> omega
  · cases colon <;> simp [hx] <;> omega

/-- **one token of the loop**: at the start of a token (no digit read, `tp ≤ 16` bytes written) the loop succeeds
    exactly when the rest of the text is: empty; a colon (the second one of `::`) and a good rest; a last hex group; a
    hex group, a colon and a good non-empty rest; or a dotted quad that ends the text -/
theorem v6_token (t : Str) (tp : Nat) (colon : Bool) (htp : tp ≤ 16) :
    pton6Loop t t tp colon 0 = true ↔
      (t = [] ∧ (if colon = true then tp < 16 else tp = 16)) ∨
      (∃ r', t = ':' :: r' ∧ colon = false ∧ pton6Loop r' r' tp true 0 = true) ∨
      (HexGroup t ∧ (if colon = true then tp + 2 < 16 else tp + 2 = 16)) ∨
      (∃ g r', HexGroup g ∧ t = g ++ ':' :: r' ∧ r' ≠ [] ∧ tp + 2 ≤ 16 ∧ pton6Loop r' r' (tp + 2) colon 0 = true) ∨
      (V4Text t ∧ (if colon = true then tp + 4 < 16 else tp + 4 = 16)) := by
  constructor
  · intro h
    obtain ⟨a, r, rfl, ha, hr⟩ := v6_span_hex t
    have hav : ∀ c ∈ a, v6Hex c = true := fun c hc => by rw [← v6_hex_eq]; exact ha c hc
    by_cases hlen : a.length ≤ 4
    · rw [v6_loop_hex a ha r _ tp colon 0 (by omega), Nat.zero_add] at h
      rcases hr with rfl | ⟨c, r', rfl, hc⟩
      · rw [pton6Loop, v6_finish_iff tp colon _ htp] at h
        by_cases hne : a = []
        · subst hne
          exact Or.inl ⟨rfl, by simpa using h⟩
        · have hpos : 0 < a.length := List.length_pos_iff.mpr hne
          rw [if_pos hpos] at h
          rw [List.append_nil]
          exact Or.inr (Or.inr (Or.inl ⟨⟨hpos, hlen, hav⟩, h⟩))
      · rw [pton6Loop, if_neg (by rw [hc]; exact Bool.false_ne_true)] at h
        by_cases hcol : c = ':'
        · subst hcol
          rw [if_pos (by rfl)] at h
          by_cases hne : a = []
          · subst hne
            rw [List.length_nil, if_pos (by rfl)] at h
            cases colon with
            | true => simp at h
            | false => exact Or.inr (Or.inl ⟨r', rfl, rfl, by simpa using h⟩)
          · have hpos : 0 < a.length := List.length_pos_iff.mpr hne
            have hz : (a.length == 0) = false := by rw [beq_eq_false_iff_ne]; omega
            rw [hz] at h
            simp only [Bool.false_eq_true, if_false] at h
            split at h
            · cases h
            · rename_i hr'
              split at h
              · cases h
              · rename_i htp2
                exact Or.inr (Or.inr (Or.inr (Or.inl ⟨a, r', ⟨hpos, hlen, hav⟩, rfl, by simpa using hr', by omega, h⟩)))
        · have hcf : (c == ':') = false := by simpa using hcol
          rw [hcf] at h
          simp only [Bool.false_eq_true, if_false] at h
          split at h
          · rename_i hd
            simp only [Bool.and_eq_true, decide_eq_true_eq] at hd
            rw [v6_finish_iff _ colon 0 hd.1.2] at h
            exact Or.inr (Or.inr (Or.inr (Or.inr ⟨(v6_pton4_iff _).mp hd.2, by simpa using h⟩)))
          · cases h
    · rw [v6_loop_hex_over a ha r _ tp colon 0 (by omega) (by omega)] at h; cases h
  · rintro (⟨rfl, h⟩ | ⟨r', rfl, rfl, h⟩ | ⟨⟨h1, h2, h3⟩, h⟩ | ⟨g, r', ⟨h1, h2, h3⟩, rfl, hr', htp2, h⟩ | ⟨hv, h⟩)
    · rw [pton6Loop, v6_finish_iff tp colon 0 htp]
      simpa using h
    · rw [pton6Loop, if_neg (by rw [v6_colon_not_hex]; exact Bool.false_ne_true)]
      simpa using h
    · have h3' : ∀ c ∈ t, isHexDigit c = true := fun c hc => by rw [v6_hex_eq]; exact h3 c hc
      have := v6_loop_hex t h3' [] t tp colon 0 (by omega)
      rw [List.append_nil, Nat.zero_add] at this
      rw [this, pton6Loop, v6_finish_iff tp colon _ htp]
      have hp : 0 < t.length := by omega
      simp only [hp, ↓reduceIte]
      exact h
    · have h3' : ∀ c ∈ g, isHexDigit c = true := fun c hc => by rw [v6_hex_eq]; exact h3 c hc
      rw [v6_loop_hex g h3' _ _ tp colon 0 (by omega), Nat.zero_add, pton6Loop,
        if_neg (by rw [v6_colon_not_hex]; exact Bool.false_ne_true), if_pos (by rfl)]
      have hz : (g.length == 0) = false := by rw [beq_eq_false_iff_ne]; omega
      have hr2 : (r' == []) = false := by simpa using hr'
      rw [hz, hr2]
      simp only [Bool.false_eq_true, if_false]
      rw [if_neg (by omega)]
      exact h
    · obtain ⟨a, b, c, d, rfl, ha, hb, hc, hd⟩ := id hv
      have hal := v6_decOctet_length a ha
      have hah : ∀ x ∈ a, isHexDigit x = true := fun x hx => v6_digit_hex x (ha.2.1 x hx)
      have htp4 : tp + 4 ≤ 16 := by
        cases colon <;> simp at h <;> omega
      rw [v6_loop_hex a hah _ _ tp colon 0 (by omega), Nat.zero_add, pton6Loop,
        if_neg (by rw [v6_dot_not_hex]; exact Bool.false_ne_true)]
      have h1 : ('.' == ':') = false := by decide
      rw [h1]
      simp only [Bool.false_eq_true, if_false]
      rw [(v6_pton4_iff _).mpr hv]
      simp only [beq_self_eq_true, Bool.true_and, Bool.and_true, decide_eq_true_eq, htp4, if_true]
      rw [v6_finish_iff _ colon 0 htp4]
      simpa using h

/-- what the loop accepts from the start of a token: `n` = number of groups denoted (a dotted quad counts for two),
    `c` = "the text contains the second colon of a `::`" -/
inductive V6Tail : Str → Nat → Bool → Prop
  | nil : V6Tail [] 0 false
  | gap (t : Str) (n : Nat) : V6Tail t n false → V6Tail (':' :: t) n true
  | grp (g : Str) : HexGroup g → V6Tail g 1 false
  | v4 (q : Str) : V4Text q → V6Tail q 2 false
  | cons (g t : Str) (n : Nat) (c : Bool) : HexGroup g → t ≠ [] → V6Tail t n c → V6Tail (g ++ ':' :: t) (n + 1) c

theorem v6_loop_sound : ∀ (k : Nat) (t : Str), t.length < k → ∀ (tp : Nat) (colon : Bool), tp ≤ 16 →
    pton6Loop t t tp colon 0 = true →
    ∃ n c, V6Tail t n c ∧ (c = true → colon = false) ∧
      (if (colon || c) = true then tp + 2 * n < 16 else tp + 2 * n = 16) := by
  intro k
  induction k with
  | zero => intro t hk; omega
  | succ k ih =>
    intro t hk tp colon htp h
    rcases (v6_token t tp colon htp).mp h with ⟨rfl, h'⟩ | ⟨r', rfl, rfl, h'⟩ | ⟨hg, h'⟩ |
        ⟨g, r', hg, rfl, hr', htp2, h'⟩ | ⟨hv, h'⟩
    · exact ⟨0, false, V6Tail.nil, by simp, by simpa using h'⟩
    · obtain ⟨n, c, hT, hc, ha⟩ := ih r' (by simp at hk; omega) tp true htp h'
      cases c with
      | true => exact absurd (hc rfl) (by simp)
      | false => exact ⟨n, true, V6Tail.gap r' n hT, fun _ => rfl, by simpa using ha⟩
    · exact ⟨1, false, V6Tail.grp t hg, by simp, by simpa using h'⟩
    · obtain ⟨n, c, hT, hc, ha⟩ := ih r' (by simp at hk; omega) (tp + 2) colon htp2 h'
      refine ⟨n + 1, c, V6Tail.cons g r' n c hg hr' hT, hc, ?_⟩
      cases hcc : (colon || c) <;> simp only [hcc, Bool.false_eq_true, if_false, if_true] at ha ⊢ <;> omega
    · exact ⟨2, false, V6Tail.v4 t hv, by simp, by simpa using h'⟩

theorem v6_loop_complete (t : Str) (n : Nat) (c : Bool) (hT : V6Tail t n c) :
    ∀ (tp : Nat) (colon : Bool), tp ≤ 16 → (c = true → colon = false) →
      (if (colon || c) = true then tp + 2 * n < 16 else tp + 2 * n = 16) → pton6Loop t t tp colon 0 = true := by
  induction hT with
  | nil =>
    intro tp colon htp _ ha
    exact (v6_token [] tp colon htp).mpr (Or.inl ⟨rfl, by simpa using ha⟩)
  | gap t n _ ih =>
    intro tp colon htp hc ha
    have := hc rfl; subst this
    exact (v6_token _ tp false htp).mpr (Or.inr (Or.inl ⟨t, rfl, rfl, ih tp true htp (by simp) (by simpa using ha)⟩))
  | grp g hg =>
    intro tp colon htp _ ha
    exact (v6_token g tp colon htp).mpr (Or.inr (Or.inr (Or.inl ⟨hg, by simpa using ha⟩)))
  | v4 q hv =>
    intro tp colon htp _ ha
    exact (v6_token q tp colon htp).mpr (Or.inr (Or.inr (Or.inr (Or.inr ⟨hv, by simpa using ha⟩))))
  | cons g t n c hg hne _ ih =>
    intro tp colon htp hc ha
    have htp2 : tp + 2 ≤ 16 := by
      cases hcc : (colon || c) <;> simp only [hcc, Bool.false_eq_true, if_false, if_true] at ha <;> omega
    refine (v6_token _ tp colon htp).mpr (Or.inr (Or.inr (Or.inr (Or.inl ⟨g, t, hg, rfl, hne, htp2, ?_⟩))))
    apply ih (tp + 2) colon htp2 hc
    cases hcc : (colon || c) <;> simp only [hcc, Bool.false_eq_true, if_false, if_true] at ha ⊢ <;> omega

/-- the loop, from the start of a token with `tp ≤ 16` bytes written -/
theorem v6_loop_iff (t : Str) (tp : Nat) (colon : Bool) (htp : tp ≤ 16) :
    pton6Loop t t tp colon 0 = true ↔
      ∃ n c, V6Tail t n c ∧ (c = true → colon = false) ∧
        (if (colon || c) = true then tp + 2 * n < 16 else tp + 2 * n = 16) :=
  ⟨v6_loop_sound (t.length + 1) t (Nat.lt_succ_self _) tp colon htp,
   fun ⟨n, c, hT, hc, ha⟩ => v6_loop_complete t n c hT tp colon htp hc ha⟩

end ZCV.DT
