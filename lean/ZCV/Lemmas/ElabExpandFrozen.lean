import ZCV.Lemmas.ElabExpand
/-!
C11 (`extends` = written-out expansion), towards the global theorem: reading one child element of `<schema>` never
changes a concrete type that is already in the type table (`TopStep`).
-/
namespace ZCV.Elab
open ZCV ZCV.Cfg

/-! ### the datatype of the container on top of the stack -/

def dtOf (es : ES) (stack : List Frame) : EM Str :=
  match stack with
  | .schema :: _ => .ok es.top.datatype
  | .stype n :: _ =>
    match es.types.find? (·.1 == n) with
    | some (_, .concrete t) => .ok t.datatype
    | _ => .error (.internal "AttributeError")
  | [] => .error (.internal "IndexError")
  | _ => .error (.internal "AttributeError")

theorem dtOf_updType_flag (es : ES) (n : Str) (f : EType → EType) (hf : ∀ t, (f t).datatype = t.datatype)
    (stack : List Frame) : dtOf (es.updType n f) stack = dtOf es stack := by
  cases stack with
  | nil => rfl
  | cons fr rest =>
    cases fr with
    | schema => rfl
    | stype m =>
      unfold dtOf ES.updType
      simp only
      rw [find_map_key _ _ (by intro ⟨k, e⟩; dsimp only; split <;> rfl)]
      cases hfind : es.types.find? (·.1 == m) with
      | none => rfl
      | some q =>
        obtain ⟨k, e⟩ := q
        simp only [Option.map_some]
        by_cases hk : (k == n) = true
        · simp only [hk, ↓reduceIte]
          cases e with
          | concrete t => simp only [hf]
          | abstract_ a b c => rfl
        · simp only [hk, Bool.false_eq_true, ↓reduceIte]
    | atype m => rfl
    | key k => rfl
    | sect a b => rfl

theorem dtOf_setTopOf (es : ES) (stack : List Frame) (ch : List (Option Str × EInfo)) :
    dtOf (setTopOf es stack ch) stack = dtOf es stack := by
  cases stack with
  | nil => rfl
  | cons f rest =>
    cases f with
    | schema => rfl
    | stype n =>
      show dtOf (es.updType n _) _ = _
      apply dtOf_updType_flag
      intro t; rfl
    | atype n => rfl
    | key k => rfl
    | sect a b => rfl

/-- the concrete entry under `D`, as the three functions see it -/
theorem entry_of_top {es : ES} {D : Str} {r : List Frame} {ch : List (Option Str × EInfo)} {kt dt : Str}
    (h1 : topOf es (.stype D :: r) = .ok ch) (h2 : ktOf es (.stype D :: r) = .ok kt) (h3 : dtOf es (.stype D :: r) = .ok dt) :
    ∃ q t, es.types.find? (·.1 == D) = some (q, .concrete t) ∧ t.children = ch ∧ t.keytype = kt ∧ t.datatype = dt := by
  unfold topOf at h1
  unfold ktOf at h2
  unfold dtOf at h3
  simp only at h1 h2 h3
  cases hf : es.types.find? (·.1 == D) with
  | none => simp [hf] at h1
  | some p =>
    obtain ⟨q, e⟩ := p
    cases e with
    | abstract_ a b c => simp [hf] at h1
    | concrete t =>
      simp only [hf, Except.ok.injEq] at h1 h2 h3
      exact ⟨q, t, rfl, h1, h2, h3⟩

/-! ### the children of a `<sectiontype>` only touch that type -/

/-- `description` / `example` of a section type: the state is unchanged or a flag of that type is set -/
theorem stypeCdata_form {c : Bool} {tag : Str} {attrs : Attrs} {data : Str} {sb sb1 : PSt} {B : Str} {r : List Frame}
    (hs : sb.stack = .stype B :: r) (h : charactersTag c tag attrs data sb = .ok sb1) :
    sb1 = sb ∨ ∃ f : EType → EType, (∀ t, (f t).children = t.children ∧ (f t).keytype = t.keytype ∧
      (f t).datatype = t.datatype) ∧ sb1 = { sb with es := sb.es.updType B f } := by
  unfold charactersTag at h
  rcases ite_ok h with ⟨_, h⟩ | ⟨_, h⟩
  · rw [hs] at h; cases h
  rcases ite_ok h with ⟨_, h⟩ | ⟨_, h⟩
  · unfold markDesc at h
    split at h
    · rename_i hnil; rw [hs] at hnil; cases hnil
    · rename_i f0 rest hs'
      rw [hs] at hs'
      injection hs' with h1 h2
      subst h1
      dsimp only at h
      split at h
      · rcases ite_ok h with ⟨_, h⟩ | ⟨_, h⟩
        · cases h
        · injection h with h
          refine Or.inr ⟨_, ?_, h.symm⟩
          intro t; exact ⟨rfl, rfl, rfl⟩
      · cases h
  rcases ite_ok h with ⟨_, h⟩ | ⟨_, h⟩
  · unfold markExample at h
    split at h
    · cases h
    · rename_i f0 rest hs'
      rw [hs] at hs'
      injection hs' with h1 h2
      subst h1
      dsimp only at h
      split at h
      · rcases ite_ok h with ⟨_, h⟩ | ⟨_, h⟩
        · cases h
        · injection h with h
          refine Or.inr ⟨_, ?_, h.symm⟩
          intro t; exact ⟨rfl, rfl, rfl⟩
      · cases h
  rcases ite_ok h with ⟨_, h⟩ | ⟨_, h⟩
  · injection h with h; exact Or.inl h.symm
  · cases h

/-- what reading children of `<sectiontype name=D>` does to the state -/
structure StypeRun (D : Str) (s s2 : PSt) : Prop where
  stack : s2.stack = s.stack
  prefixes : s2.prefixes = s.prefixes
  grows : Grows s.es s2.es
  frozen : ∀ n, n ≠ D → ConcSame n s.es s2.es
  kt : ktOf s2.es s.stack = ktOf s.es s.stack
  dt : dtOf s2.es s.stack = dtOf s.es s.stack

theorem StypeRun.refl (D : Str) (s : PSt) : StypeRun D s s :=
  ⟨rfl, rfl, Grows.refl _, fun _ _ => ConcSame.refl _ _, rfl, rfl⟩

theorem StypeRun.trans {D : Str} {a b c : PSt} (h1 : StypeRun D a b) (h2 : StypeRun D b c) : StypeRun D a c :=
  ⟨h2.stack.trans h1.stack, h2.prefixes.trans h1.prefixes, h1.grows.trans h2.grows,
   fun n hn => (h1.frozen n hn).trans (h2.frozen n hn),
   by have := h2.kt; rw [h1.stack] at this; exact this.trans h1.kt,
   by have := h2.dt; rw [h1.stack] at this; exact this.trans h1.dt⟩

theorem StypeRun.setTop {D : Str} {s : PSt} {r : List Frame} (hs : s.stack = .stype D :: r)
    (c : List (Option Str × EInfo)) : StypeRun D s { s with es := setTopOf s.es s.stack c } := by
  refine ⟨rfl, rfl, setTopOf_grows _ _ _, ?_, ktOf_setTopOf _ _ _, dtOf_setTopOf _ _ _⟩
  intro n hn
  apply concSame_setTopOf
  intro D' r' hs'
  rw [hs] at hs'
  injection hs' with h1 _
  injection h1 with h1
  rw [← h1]; exact hn

theorem StypeRun.flag {D : Str} {s : PSt} {r : List Frame} (_hs : s.stack = .stype D :: r) (f : EType → EType)
    (hf : ∀ t, (f t).children = t.children ∧ (f t).keytype = t.keytype ∧ (f t).datatype = t.datatype) :
    StypeRun D s { s with es := s.es.updType D f } :=
  ⟨rfl, rfl, Grows.updType _ _ _, fun _ hn => concSame_updType _ hn _,
   ktOf_updType_flag _ _ _ (fun t => (hf t).2.1) _, dtOf_updType_flag _ _ _ (fun t => (hf t).2.2) _⟩

theorem stypeChildren_run {env : Env} {h : Hooks} {d : DocKind} {p : Str} (hp : pkOfB (isComp d) p = some .stype)
    {D : Str} {r : List Frame} :
    ∀ (c : List Node) (s s2 : PSt), s.stack = .stype D :: r → (∃ ch, topOf s.es s.stack = .ok ch) →
      visitChildren env h d p s c = .ok s2 → StypeRun D s s2
  | [], s, s2, _, _, hv => by
    rw [visitChildren_nil] at hv
    injection hv with hv
    subst hv
    exact StypeRun.refl _ _
  | .text _ :: rest, s, s2, hs, ht, hv => by
    rw [x3_visitChildren_text] at hv
    rcases ite_ok hv with ⟨_, hv⟩ | ⟨_, hv⟩
    · exact stypeChildren_run hp rest s s2 hs ht hv
    · cases hv
  | .elem t a c0 :: rest, s, s2, hs, ht, hv => by
    rw [visitChildren_elem, bind_ok] at hv
    obtain ⟨s1, he, hv⟩ := hv
    have hn := (visitElem_cases he).1 p rfl
    obtain ⟨ck, hck, hcomp⟩ := nesting_compat hn hp
    obtain ⟨ch, hch⟩ := ht
    have step : StypeRun D s s1 ∧ ∃ ch1, topOf s1.es s1.stack = .ok ch1 := by
      rcases stype_child_cases hcomp (ckOf_tag hck) d with hin | ⟨hcd, hnt, hnh⟩
      · obtain ⟨sd1, hd1, hsame⟩ := containerElem_sim hin (SimTop.refl hch) he
        obtain ⟨ch0, key, info, htop, e1, _, _⟩ := hsame
        rw [e1]
        exact ⟨StypeRun.setTop hs _, _, topOf_setTopOf htop⟩
      · rw [visitElem_cdata_eq hn hnt hnh hcd, bind_ok] at he
        obtain ⟨data, _, hcht⟩ := he
        rcases stypeCdata_form hs hcht with rfl | ⟨f, hf, rfl⟩
        · exact ⟨StypeRun.refl _ _, ch, hch⟩
        · refine ⟨StypeRun.flag hs f hf, ch, ?_⟩
          show topOf (s.es.updType D f) s.stack = _
          rw [topOf_updType_flag _ _ _ (fun t => (hf t).1)]
          exact hch
    obtain ⟨hrun1, ht1⟩ := step
    have hs1 : s1.stack = .stype D :: r := by rw [hrun1.stack]; exact hs
    exact hrun1.trans (stypeChildren_run hp rest s1 s2 hs1 ht1 hv)

end ZCV.Elab
