import ZCV.Lemmas.ElabInvVisit
/-!
C10: every schema document the loader accepts yields a well-formed schema object: `elabSchema … = ok S → schemaOK S`.

Route: the invariant `ESInv` on the loader state (ElabInvDefs) is kept by every handler (ElabInvKey / Top / Handlers / Doc),
hence by the tree walk and by nested documents (ElabInvVisit); here it is turned into `Conf.schemaOK` of `toSchema`.
Inside `<key>` / `<multikey>` only character-data elements can occur (a `decide`d fact about the generated nesting
table, `keyNestingTable`), which is what ties the key frame on the stack to the last child of the container below it.

Model note.  The theorem needs `startSection` to mirror `SectionType.addsection`'s `assert name not in ("*", "+")`
(info.py).  Without that check the statement is false: with a key type that turns the fixed name "foo" into "+"
(`conv.key := fun _ _ => .ok ['+']`, which satisfies `hkey`) the document
`<schema><sectiontype name="t"/><section type="t" name="foo" attribute="a"/></schema>` was accepted by the unpatched
model with the child `(some "+", .sect {name := "+", …})`, for which `stypeOK` is false (checked with `#eval`);
Python raises AssertionError there.  The model in this copy carries the check (same edit as in /verif).
-/
namespace ZCV.Elab
open ZCV ZCV.Cfg ZCV.Conf

/-! ### from the invariant to `schemaOK` -/

theorem toInfo_attr (i : EInfo) : i.toInfo.attr = i.attr := by cases i <;> rfl

/-- at most one wildcard key, given distinct keys and `+` keys stored under `+` -/
theorem wild_le_one : ∀ (l : List (Option Str × Info)), (l.filterMap (·.1)).Nodup →
    (∀ c ∈ l, isWildKey c = true → c.1 = some ['+']) → (l.filter isWildKey).length ≤ 1
  | [], _, _ => by simp
  | c :: r, hn, hw => by
    have hwr : ∀ c' ∈ r, isWildKey c' = true → c'.1 = some ['+'] := fun c' hc' => hw c' (List.mem_cons_of_mem _ hc')
    by_cases hc : isWildKey c = true
    · have hk := hw c List.mem_cons_self hc
      rw [List.filterMap_cons, hk] at hn
      simp only [List.nodup_cons] at hn
      have : r.filter isWildKey = [] := by
        rw [List.filter_eq_nil_iff]
        intro c' hc' hwc'
        apply hn.1
        rw [List.mem_filterMap]
        exact ⟨c', hc', hwr c' hc' hwc'⟩
      rw [List.filter_cons, if_pos hc, this]
      simp
    · rw [List.filter_cons, if_neg hc]
      refine wild_le_one r ?_ hwr
      rw [List.filterMap_cons] at hn
      split at hn
      · exact hn
      · exact (List.nodup_cons.mp hn).2

theorem gettype_isSome_of_known (es : ES) (x : Str) (h : knownIn es.types (lower x) = true) :
    (es.toSchema.gettype x).isSome = true := by
  unfold knownIn at h
  rw [List.any_eq_true] at h
  obtain ⟨p, hp, hpx⟩ := h
  unfold Schema.gettype ES.toSchema
  rw [Option.isSome_map, List.find?_isSome]
  exact ⟨(p.1, p.2.toEntry), List.mem_map.mpr ⟨p, hp, rfl⟩, hpx⟩

theorem stypeOK_of_children (es : ES) (t : EType) (h : ChildrenOK es.types t.children) :
    stypeOK es.toSchema t.toSType = true := by
  unfold stypeOK distinctB
  simp only [Bool.and_eq_true, nodupB_iff', decide_eq_true_eq, List.all_eq_true]
  have hattr : (t.toSType.children.map (·.2.attr)) = t.children.map (·.2.attr) := by
    unfold EType.toSType
    simp only [List.map_map]
    congr 1
    funext ⟨k, i⟩
    exact toInfo_attr i
  have hkeys : (t.toSType.children.filterMap (·.1)) = t.children.filterMap (·.1) := by
    unfold EType.toSType
    simp only [List.filterMap_map]
    congr 1
  have hall : ∀ c ∈ t.toSType.children, ∃ c0 ∈ t.children, c = (c0.1, c0.2.toInfo) := by
    intro c hc
    unfold EType.toSType at hc
    simp only [List.mem_map] at hc
    obtain ⟨c0, hc0, rfl⟩ := hc
    exact ⟨c0, hc0, rfl⟩
  refine ⟨⟨⟨?_, ?_⟩, ?_⟩, ?_⟩
  · rw [hattr]; exact h.attrs
  · rw [hkeys]; exact h.keys
  · refine wild_le_one _ (by rw [hkeys]; exact h.keys) ?_
    intro c hc hw
    obtain ⟨c0, hc0, rfl⟩ := hall c hc
    have hco := h.child c0 hc0
    unfold ChildOK at hco
    cases hi : c0.2 with
    | key k =>
      simp only [hi] at hco
      simp only [isWildKey, hi, EInfo.toInfo, EKey.toKeyInfo, Info.name, Info.isSection, Bool.not_false, Bool.and_true,
        beq_iff_eq] at hw
      rw [hco.1, hw]
    | sect si =>
      simp [isWildKey, hi, EInfo.toInfo, Info.isSection] at hw
  · intro c hc
    obtain ⟨c0, hc0, rfl⟩ := hall c hc
    have hco := h.child c0 hc0
    unfold ChildOK at hco
    cases hi : c0.2 with
    | key k =>
      simp only [hi] at hco
      obtain ⟨hk1, hne, hsh⟩ := hco
      simp only [EInfo.toInfo, EKey.toKeyInfo, hk1, beq_self_eq_true, Bool.true_and, Bool.and_eq_true,
        Bool.not_eq_true', List.isEmpty_eq_false_iff]
      refine ⟨hne, ?_⟩
      by_cases hp : k.name = ['+']
      · simp only [hp, ↓reduceIte] at hsh
        simp only [hp, beq_self_eq_true, ↓reduceIte]
        have := hsh.1
        cases hd : k.dflt <;> simp only [hd, plusShape] at this ⊢
        · simp [this]
        · simp [this]
      · simp only [hp, ↓reduceIte] at hsh
        have hpb : (k.name == ['+']) = false := by simpa using hp
        simp only [hpb, Bool.false_eq_true, ↓reduceIte]
        by_cases hm : k.multi = true
        · simp only [hm, ↓reduceIte] at hsh ⊢
          obtain ⟨l, hl⟩ := hsh
          rw [hl]
        · have hm' : k.multi = false := by simpa using hm
          simp only [hm', Bool.false_eq_true, ↓reduceIte] at hsh ⊢
          rcases hsh with hd | ⟨v, hd, ho⟩
          · rw [hd]
          · rw [hd]; simp [ho]
    | sect si =>
      simp only [hi] at hco
      obtain ⟨h1, h2, h3⟩ := hco
      simp only [EInfo.toInfo, Bool.and_eq_true, Bool.or_eq_true, beq_iff_eq, Bool.not_eq_true']
      refine ⟨⟨?_, ?_⟩, gettype_isSome_of_known es si.ty h3⟩
      · by_cases hs : si.name = ['*'] ∨ si.name = ['+']
        · simp only [hs, ↓reduceIte] at h1 ⊢
          simp [h1]
        · simp only [hs, ↓reduceIte] at h1 ⊢
          simp only [h1.1, beq_self_eq_true, Bool.true_and, Bool.not_eq_true', List.isEmpty_eq_false_iff]
          exact h1.2
      · by_cases hm : si.multi = true
        · rcases h2 hm with h2 | h2
          · exact Or.inl (Or.inr h2)
          · exact Or.inr h2
        · exact Or.inl (Or.inl (by simpa using hm))

/-- the invariant of the loader state is `schemaOK` of the schema object handed out -/
theorem schemaOK_of_inv (es : ES) (h : ESInv es) : schemaOK es.toSchema = true := by
  unfold schemaOK
  simp only [Bool.and_eq_true, beq_iff_eq, List.all_eq_true]
  refine ⟨⟨stypeOK_of_children es es.top h.top, h.topName⟩, ?_⟩
  intro q hq
  unfold ES.toSchema at hq
  simp only [List.mem_map] at hq
  obtain ⟨p, hp, rfl⟩ := hq
  have he := h.entries p hp
  obtain ⟨n, e⟩ := p
  cases e with
  | concrete t =>
    simp only [EEntry.toEntry, Bool.and_eq_true, beq_iff_eq]
    exact ⟨he.1, stypeOK_of_children es t he.2⟩
  | abstract_ n' subs d =>
    simp only [EEntry.toEntry, beq_iff_eq]
    exact he

/-! ### the theorems -/

/-- **Every accepted schema document yields a well-formed schema object** (strong form: the key types only have to
    return a non-empty key for a NON-EMPTY name — which is all the loader ever passes them, and what the stock key
    types satisfy, `"string"` included).

    `hkey`: a `<section name=…>` child stored under an empty key would escape the duplicate-name check.
    `hlow`: type-table keys are `basic-key` results (`lower …`), and `Schema.gettype` lower-cases its argument. -/
theorem elab_schemaOK' (env : Env) (fuel : Nat) (t : Node) (S : Cfg.Schema)
    (hkey : ∀ (kt s r : Str), s ≠ [] → env.conv.key kt s = .ok r → r ≠ [])
    (hlow : ∀ x : Str, lower (lower x) = lower x)
    (h : elabSchema env fuel t = .ok S) : Conf.schemaOK S = true := by
  unfold elabSchema at h
  cases he : elabES env fuel t with
  | error e => simp [he, Except.map] at h
  | ok es =>
    simp only [he, Except.map, Except.ok.injEq] at h
    subst h
    exact schemaOK_of_inv es (elabES_inv hkey hlow he)

/-- **Every accepted schema document yields a well-formed schema object**: whatever XML element tree the schema loader
    accepts (with components and base schemas pulled in to any depth), the schema it returns has, in the top type and in
    every section type, distinct attribute names, distinct non-empty keys, at most one `+` key, key entries stored under
    their own name with a default of the right kind, section entries stored under `none` exactly for `*`/`+`, and only
    section types that exist — `Conf.schemaOK`, the assumption of C01/C02. -/
theorem elab_schemaOK (env : Env) (fuel : Nat) (t : Node) (S : Cfg.Schema)
    (hkey : ∀ kt s r, env.conv.key kt s = .ok r → r ≠ [])
    (hlow : ∀ x : Str, lower (lower x) = lower x)
    (h : elabSchema env fuel t = .ok S) : Conf.schemaOK S = true :=
  elab_schemaOK' env fuel t S (fun kt s r _ => hkey kt s r) hlow h

/-- the top-level type of a loaded schema has no name (by-product; needs no hypothesis on the key types' results
    beyond those of `elab_schemaOK'`) -/
theorem elab_top_name_none (env : Env) (fuel : Nat) (t : Node) (S : Cfg.Schema)
    (hkey : ∀ (kt s r : Str), s ≠ [] → env.conv.key kt s = .ok r → r ≠ [])
    (hlow : ∀ x : Str, lower (lower x) = lower x)
    (h : elabSchema env fuel t = .ok S) : S.top.name = none := by
  have := elab_schemaOK' env fuel t S hkey hlow h
  unfold schemaOK at this
  simp only [Bool.and_eq_true, beq_iff_eq] at this
  exact this.1.2

/-- **The type table only grows** (by-product): reading a component (`<import>`) or a base schema (`extends`) into a
    well-formed schema object never removes or renames a type — the keys of the type table before are an initial
    segment of the keys after (`Grows`); in particular every type that was known stays known (`Grows.known`). -/
theorem elab_types_grow (env : Env) (fuel : Nat) (es es' : ES) (tree : Node)
    (hkey : ∀ (kt s r : Str), s ≠ [] → env.conv.key kt s = .ok r → r ≠ [])
    (hlow : ∀ x : Str, lower (lower x) = lower x) (hes : ESInv es)
    (h : (hooks env fuel).loadComponent es tree = .ok es' ∨ (hooks env fuel).extendSchema es tree = .ok es') :
    Grows es es' := by
  have hh := hooks_ok hkey hlow fuel
  rcases h with h | h
  · exact (hh.load es tree es' hes h).2
  · exact (hh.extend es tree es' hes h).2

/-- … and what comes back is again well-formed (the induction behind `elab_schemaOK`, for nested documents) -/
theorem elab_nested_inv (env : Env) (fuel : Nat) (es es' : ES) (tree : Node)
    (hkey : ∀ (kt s r : Str), s ≠ [] → env.conv.key kt s = .ok r → r ≠ [])
    (hlow : ∀ x : Str, lower (lower x) = lower x) (hes : ESInv es)
    (h : (hooks env fuel).loadComponent es tree = .ok es' ∨ (hooks env fuel).extendSchema es tree = .ok es') :
    ESInv es' := by
  have hh := hooks_ok hkey hlow fuel
  rcases h with h | h
  · exact (hh.load es tree es' hes h).1
  · exact (hh.extend es tree es' hes h).1

/-! ### the hypotheses are satisfiable -/

theorem lower_ne_nil {s : Str} (h : s ≠ []) : lower s ≠ [] := by
  unfold lower; simpa using h

/-- `hkey` of `elab_schemaOK'` holds of the stock key types (`basic-key`, `identifier`, `ipaddr-or-hostname`, `string`).
    (The unrestricted `hkey` of `elab_schemaOK` does not: `stockKey "string" "" = ok ""`.) -/
theorem stockConv_key_ne_nil (kt s r : Str) (hs : s ≠ []) (h : stockConv.key kt s = .ok r) : r ≠ [] := by
  change stockKey kt s = .ok r at h
  unfold stockKey at h
  split at h
  · unfold DT.basicKey DT.regexConv at h
    split at h
    · simp only [Except.map, Except.ok.injEq] at h; subst h; exact lower_ne_nil hs
    · simp [Except.map] at h
  · unfold DT.identifier DT.regexConv at h
    split at h
    · simp only [Except.ok.injEq] at h; subst h; exact hs
    · cases h
  · unfold DT.ipaddrOrHostname DT.regexConv at h
    split at h
    · simp only [Except.map, bind, Except.bind, pure, Except.pure, throw, throwThe, MonadExceptOf.throw] at h
      split at h
      · split at h
        · simp only [Except.ok.injEq] at h; subst h; exact lower_ne_nil hs
        · cases h
      · simp only [Except.ok.injEq] at h; subst h; exact lower_ne_nil hs
    · simp [Except.map, bind, Except.bind] at h
  · simp only [Except.ok.injEq] at h; subst h; exact hs
  · cases h

example : (stockConv.key "string".toList []).toOption = some [] := by decide +kernel

namespace Example
/-- a base schema, a component and a schema that extends / imports them (datatype names are dotted so that the closed
    term reduces in the kernel: the stock names go through the regular-expression matcher, which is defined by
    well-founded recursion) -/
def base : Node :=
  .elem "schema".toList [("keytype".toList, "a.k".toList), ("valuetype".toList, "a.v".toList), ("datatype".toList, "a.d".toList)]
    [.elem "description".toList [] [.text "base".toList]]
def comp : Node :=
  .elem "component".toList [] [.elem "description".toList [] [.text "comp".toList]]
def env : Env :=
  { conv := stockConv, dotted := fun _ => .found "d.t".toList, comps := fun _ _ => .doc comp, bases := fun _ => some base }
def doc : Node :=
  .elem "schema".toList [("extends".toList, "base.xml".toList), ("keytype".toList, "a.k".toList),
      ("valuetype".toList, "a.v".toList), ("datatype".toList, "a.d".toList)]
    [.elem "description".toList [] [.text " x ".toList], .text "  ".toList,
     .elem "import".toList [("package".toList, "pkg".toList)] []]

/-- the document is accepted … -/
example : (elabSchema env 1 doc).toOption.isSome = true := by decide +kernel
/-- … so the theorem applies to it (with the stock key types) -/
example (hlow : ∀ x : Str, lower (lower x) = lower x) (S : Cfg.Schema) (h : elabSchema env 1 doc = .ok S) :
    Conf.schemaOK S = true :=
  elab_schemaOK' env 1 doc S stockConv_key_ne_nil hlow h
end Example

end ZCV.Elab
