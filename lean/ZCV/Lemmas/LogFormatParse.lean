import ZCV.Lemmas.LogFormat
namespace ZCV.LogFormatLemmas
open ZCV ZCV.LogFormat ZCV.LogFormatSpec

/-! ## Where an item comes from in the string; logging's validation pattern sees plain keyed fields -/

theorem lf_vsearch_of_at (s : Str) (h : validatorAt s = true) : validatorSearch s = true := by
  cases s with
  | nil => simp [validatorAt] at h
  | cons c t => simp [validatorSearch, h]

theorem lf_vsearch_append (pre s : Str) (h : validatorSearch s = true) : validatorSearch (pre ++ s) = true := by
  induction pre with
  | nil => exact h
  | cons c t ih => simp [validatorSearch, ih]

theorem lf_scanKey_eq (d : Nat) (s k rest : Str) (h : scanKey d s = some (k, rest)) : s = k ++ ')' :: rest := by
  induction s generalizing d k with
  | nil => simp [scanKey] at h
  | cons c t ih =>
    simp only [scanKey] at h
    split at h
    · rename_i hc
      simp only [beq_iff_eq] at hc
      subst hc
      cases d with
      | zero =>
        simp only [Option.some.injEq, Prod.mk.injEq] at h
        obtain ⟨rfl, rfl⟩ := h
        rfl
      | succ d' =>
        simp only at h
        cases hs : scanKey d' t with
        | none => simp [hs] at h
        | some p =>
          simp only [hs, Option.map_some, Option.some.injEq, Prod.mk.injEq] at h
          obtain ⟨rfl, rfl⟩ := h
          rw [ih d' p.1 hs]
          simp
    · split at h
      · cases hs : scanKey (d + 1) t with
        | none => simp [hs] at h
        | some p =>
          simp only [hs, Option.map_some, Option.some.injEq, Prod.mk.injEq] at h
          obtain ⟨rfl, rfl⟩ := h
          rw [ih (d + 1) p.1 hs]
          simp
      · cases hs : scanKey d t with
        | none => simp [hs] at h
        | some p =>
          simp only [hs, Option.map_some, Option.some.injEq, Prod.mk.injEq] at h
          obtain ⟨rfl, rfl⟩ := h
          rw [ih d p.1 hs]
          simp

theorem lf_parseWidth_suffix (s : Str) : (parseWidth s).2 <:+ s := by
  unfold parseWidth
  cases s with
  | nil => exact List.suffix_refl _
  | cons c t =>
    simp only
    split
    · exact List.suffix_cons _ _
    · split
      · exact List.dropWhile_suffix _
      · exact List.suffix_refl _

theorem lf_parsePrec_suffix (s : Str) : (parsePrec s).2 <:+ s := by
  unfold parsePrec
  cases s with
  | nil => exact List.suffix_refl _
  | cons c t =>
    simp only
    split
    · cases t with
      | nil => exact List.nil_suffix
      | cons c2 t2 =>
        simp only
        split
        · exact (List.suffix_cons _ _).trans (List.suffix_cons _ _)
        · exact (List.dropWhile_suffix _).trans (List.suffix_cons _ _)
    · exact List.suffix_refl _

theorem lf_parseLen_suffix (s : Str) : (parseLen s).2 <:+ s := by
  unfold parseLen
  cases s with
  | nil => exact List.suffix_refl _
  | cons c t =>
    simp only
    split
    · exact List.suffix_cons _ _
    · exact List.suffix_refl _

theorem lf_parseConv_suffix (s : Str) : (parseConv s).2 <:+ s := by
  unfold parseConv
  cases s with
  | nil => exact List.suffix_refl _
  | cons c t => exact List.suffix_cons _ _

theorem lf_parseSpec_suffix (s : Str) : (parseSpec s).2 <:+ s := by
  unfold parseSpec
  cases s with
  | nil =>
    simp only
    exact List.nil_suffix
  | cons c t =>
    simp only
    have hchain : ∀ s1 : Str, s1 <:+ c :: t →
        (parseConv (parseLen (parsePrec (parseWidth (s1.dropWhile isFlag)).2).2).2).2 <:+ c :: t := fun s1 h1 =>
      (lf_parseConv_suffix _).trans ((lf_parseLen_suffix _).trans ((lf_parsePrec_suffix _).trans
        ((lf_parseWidth_suffix _).trans ((List.dropWhile_suffix _).trans h1))))
    split
    · rename_i hk
      exact List.nil_suffix
    · rename_i key s1 hk
      apply hchain
      split at hk
      · cases hsk : scanKey 0 t with
        | none => simp [hsk] at hk
        | some p =>
          simp only [hsk, Option.map_some, Option.some.injEq, Prod.mk.injEq] at hk
          obtain ⟨_, rfl⟩ := hk
          have := lf_scanKey_eq 0 t p.1 p.2 hsk
          refine ⟨c :: (p.1 ++ [')']), ?_⟩
          rw [this]; simp
      · simp only [Option.some.injEq, Prod.mk.injEq] at hk
        obtain ⟨_, rfl⟩ := hk
        exact List.suffix_refl _

def isKeyed : Item → Bool
  | .field (some _) _ _ _ _ _ => true
  | _ => false

/-- a keyed specifier among the parsed items was produced by `parseSpec` at some `%` of the string -/
theorem lf_parseAux_keyed (fuel : Nat) (s : Str) (it : Item) (hm : it ∈ parseAux fuel s) (hk : isKeyed it = true) :
    ∃ pre t, s = pre ++ '%' :: t ∧ (parseSpec t).1 = it := by
  induction fuel generalizing s with
  | zero => simp [parseAux] at hm
  | succ fuel ih =>
    cases s with
    | nil => simp [parseAux] at hm
    | cons c t =>
      simp only [parseAux] at hm
      split at hm
      · rename_i hc
        simp only [beq_iff_eq] at hc
        subst hc
        cases t with
        | nil =>
          simp only [List.mem_cons, List.not_mem_nil, or_false] at hm
          subst hm
          simp [isKeyed] at hk
        | cons c2 t2 =>
          simp only at hm
          split at hm
          · rename_i hc2
            simp only [beq_iff_eq] at hc2
            subst hc2
            rcases List.mem_cons.mp hm with rfl | hm
            · simp [isKeyed] at hk
            · obtain ⟨pre, t', rfl, h2⟩ := ih t2 hm
              exact ⟨'%' :: '%' :: pre, t', rfl, h2⟩
          · rcases List.mem_cons.mp hm with rfl | hm
            · exact ⟨[], c2 :: t2, rfl, rfl⟩
            · obtain ⟨pre, t', h1, h2⟩ := ih _ hm
              obtain ⟨x, hx⟩ := lf_parseSpec_suffix (c2 :: t2)
              refine ⟨'%' :: (x ++ pre), t', ?_, h2⟩
              rw [← hx, h1]; simp
      · rcases List.mem_cons.mp hm with rfl | hm
        · simp [isKeyed] at hk
        · obtain ⟨pre, t', h1, h2⟩ := ih _ hm
          obtain ⟨x, hx⟩ := List.dropWhile_suffix (fun x => x != '%') (l := c :: t)
          refine ⟨x ++ pre, t', ?_, h2⟩
          rw [← hx, h1]; simp
theorem lf_dropWhile_congr_head {p q : Char → Bool} (hpq : ∀ x, p x = true → q x = true) (l : Str)
    (hh : ∀ x, (l.dropWhile p).head? = some x → q x = false) : l.dropWhile q = l.dropWhile p := by
  induction l with
  | nil => rfl
  | cons a t ih =>
    by_cases hp : p a = true
    · have hq := hpq a hp
      rw [List.dropWhile_cons_of_pos hp] at hh ⊢
      rw [List.dropWhile_cons_of_pos hq]
      exact ih hh
    · rw [List.dropWhile_cons_of_neg hp] at hh ⊢
      have hq := hh a rfl
      rw [List.dropWhile_cons_of_neg (by simp [hq])]

theorem lf_ascii_pyDigit (c : Char) (h : isAsciiDigit c = true) : pyDigit c = true := by
  unfold pyDigit pyDigitVal
  rw [Option.isSome_map, List.find?_isSome]
  refine ⟨(48, 57), by unfold Gen.digitRanges; exact List.mem_cons_self, ?_⟩
  simpa [isAsciiDigit, inRange] using h

/-- the conversion characters CPython knows -/
def convChars : List Char := ['s', 'r', 'a', 'd', 'i', 'u', 'o', 'x', 'X', 'e', 'E', 'f', 'F', 'g', 'G', 'c']

theorem lf_classOf_mem (c : Char) (cls : ConvClass) (h : classOf c = some cls) : c ∈ convChars := by
  unfold classOf at h
  split at h
  · rename_i hc; simp only [Bool.or_eq_true, beq_iff_eq] at hc
    rcases hc with (rfl | rfl) | rfl <;> simp [convChars]
  · split at h
    · rename_i hc; simp only [Bool.or_eq_true, beq_iff_eq] at hc
      rcases hc with (rfl | rfl) | rfl <;> simp [convChars]
    · split at h
      · rename_i hc; simp only [Bool.or_eq_true, beq_iff_eq] at hc
        rcases hc with (rfl | rfl) | rfl <;> simp [convChars]
      · split at h
        · rename_i hc; simp only [Bool.or_eq_true, beq_iff_eq] at hc
          rcases hc with ((((rfl | rfl) | rfl) | rfl) | rfl) | rfl <;> simp [convChars]
        · split at h
          · rename_i hc; simp only [beq_iff_eq] at hc
            subst hc; simp [convChars]
          · cases h

theorem lf_convChars_props : ∀ c ∈ convChars, pyDigit c = false ∧ isValidatorConv c = true := by decide +kernel

theorem lf_not_word_paren : isWord ')' = false := by decide +kernel
theorem lf_not_digit_dot : pyDigit '.' = false := by decide +kernel

theorem lf_fieldKinds_words : ∀ p ∈ fieldKinds, p.1 ≠ [] ∧ p.1.all isWord = true := by decide +kernel

theorem lf_parseLen_none (s : Str) (h : (parseLen s).1 = none) : (parseLen s).2 = s := by
  unfold parseLen at h ⊢
  cases s with
  | nil => rfl
  | cons c t =>
    simp only at h ⊢
    split
    · rename_i hc; simp [hc] at h
    · rfl

theorem lf_parseConv_some (s : Str) (c : Char) (h : (parseConv s).1 = some c) : s = c :: (parseConv s).2 := by
  unfold parseConv at h ⊢
  cases s with
  | nil => simp at h
  | cons a t => simp only [Option.some.injEq] at h; subst h; rfl

theorem lf_asciiVal_nil : asciiVal [] = 0 := rfl

/-- logging's `(\.(\*|\d+))?` skips what `parsePrec` parsed, when the precision is absent or a nonzero number and a
    conversion character follows -/
theorem lf_vSkipPrec (s3 : Str) (p : Spec) (c : Char) (rest : Str) (hpp : parsePrec s3 = (p, c :: rest))
    (hp : p = .absent ∨ ∃ n, p = .num n ∧ n ≠ 0) (hc : pyDigit c = false) :
    vSkipPrec s3 = c :: rest ∧ (s3.head? = some '.' ∨ s3 = c :: rest) := by
  unfold parsePrec at hpp
  unfold vSkipPrec
  cases s3 with
  | nil => simp at hpp
  | cons c3 t3 =>
    simp only at hpp ⊢
    by_cases h3 : (c3 == '.') = true
    · simp only [h3, if_true] at hpp ⊢
      cases t3 with
      | nil => simp at hpp
      | cons c2 t2 =>
        simp only at hpp ⊢
        by_cases h2 : (c2 == '*') = true
        · simp only [h2, if_true, Prod.mk.injEq] at hpp
          rcases hp with rfl | ⟨n, rfl, _⟩ <;> simp at hpp
        · simp only [h2, Bool.false_eq_true, if_false, Prod.mk.injEq] at hpp ⊢
          obtain ⟨hp1, hp2⟩ := hpp
          have hd : isAsciiDigit c2 = true := by
            cases hd : isAsciiDigit c2 with
            | true => rfl
            | false =>
              rw [List.takeWhile_cons_of_neg (by simp [hd])] at hp1
              rcases hp with rfl | ⟨n, rfl, hn⟩
              · cases hp1
              · simp only [Spec.num.injEq] at hp1
                exact absurd hp1.symm hn
          refine ⟨?_, Or.inl (by simp only [beq_iff_eq] at h3; simp [h3])⟩
          rw [if_pos (lf_ascii_pyDigit c2 hd)]
          rw [lf_dropWhile_congr_head lf_ascii_pyDigit (c2 :: t2) (by
            intro x hx; rw [hp2] at hx; simp only [List.head?_cons, Option.some.injEq] at hx; subst hx; exact hc)]
          exact hp2
    · simp only [h3, Bool.false_eq_true, if_false, Prod.mk.injEq] at hpp ⊢
      obtain ⟨_, hp2⟩ := hpp
      exact ⟨hp2, Or.inr hp2⟩

/-- logging's `(\*|\d+)?` skips what `parseWidth` parsed, when no digit of another script follows -/
theorem lf_vSkipWidth (s2 : Str) (hh : ∀ x, (parseWidth s2).2.head? = some x → pyDigit x = false) :
    vSkipWidth s2 = (parseWidth s2).2 := by
  unfold parseWidth at hh ⊢
  unfold vSkipWidth
  cases s2 with
  | nil => rfl
  | cons c t =>
    simp only at hh ⊢
    by_cases h1 : (c == '*') = true
    · simp only [h1, if_true]
    · simp only [h1, Bool.false_eq_true, if_false] at hh ⊢
      by_cases h2 : isAsciiDigit c = true
      · simp only [h2, if_true] at hh ⊢
        exact lf_dropWhile_congr_head lf_ascii_pyDigit (c :: t) hh
      · simp only [h2, Bool.false_eq_true, if_false] at hh ⊢
        have := hh c rfl
        rw [List.dropWhile_cons_of_neg (by simp [this])]

theorem lf_validatorAt_of_parseSpec (t k fl : Str) (w p : Spec) (c : Char) (cls : ConvClass)
    (h : (parseSpec t).1 = .field (some k) fl w p none (some c))
    (hk1 : k ≠ []) (hk2 : ∀ x ∈ k, isWord x = true) (hc : classOf c = some cls)
    (hp : p = .absent ∨ ∃ n, p = .num n ∧ n ≠ 0) : validatorAt ('%' :: t) = true := by
  obtain ⟨hcd, hcv⟩ := lf_convChars_props c (lf_classOf_mem c cls hc)
  unfold parseSpec at h
  cases t with
  | nil => simp at h
  | cons c0 t0 =>
    simp only at h
    by_cases h0 : (c0 == '(') = true
    · simp only [h0, if_true] at h
      cases hsk : scanKey 0 t0 with
      | none => simp [hsk] at h
      | some pr =>
        simp only [hsk, Option.map_some, Item.field.injEq, Option.some.injEq] at h
        obtain ⟨hkey, _, _, hpe, hle, hce⟩ := h
        have ht0 := lf_scanKey_eq 0 t0 pr.1 pr.2 hsk
        rw [hkey] at ht0
        -- the tail of the specifier
        have hL := lf_parseLen_none _ hle
        have hC := lf_parseConv_some _ c hce
        rw [hL] at hC
        have hP := lf_vSkipPrec (parseWidth (pr.2.dropWhile isFlag)).2 p c _
          (by rw [← hpe]; exact Prod.ext rfl hC) hp hcd
        have hW := lf_vSkipWidth (pr.2.dropWhile isFlag) (by
          intro x hx
          rcases hP.2 with hd | hd
          · rw [hd] at hx; simp only [Option.some.injEq] at hx; subst hx; exact lf_not_digit_dot
          · rw [hd] at hx; simp only [List.head?_cons, Option.some.injEq] at hx; subst hx; exact hcd)
        simp only [beq_iff_eq] at h0
        subst h0
        have hnp : ¬ (isWord ')' = true) := by rw [lf_not_word_paren]; exact Bool.false_ne_true
        unfold validatorAt
        simp only [beq_self_eq_true, Bool.and_self, if_true]
        rw [ht0, List.takeWhile_append_of_pos hk2, List.dropWhile_append_of_pos hk2,
          List.takeWhile_cons_of_neg hnp,
          List.dropWhile_cons_of_neg hnp]
        have hne : (k ++ []).isEmpty = false := by
          cases k with
          | nil => exact absurd rfl hk1
          | cons a b => rfl
        simp only [hne, Bool.false_eq_true, if_false, beq_self_eq_true, if_true]
        rw [hW, hP.1]
        exact hcv
    · simp only [h0, Bool.false_eq_true, if_false] at h
      simp at h


theorem lf_itemsAccepted_mem (first : Bool) (items : List Item) (ha : ItemsAccepted first items) :
    ∀ it ∈ items, ∃ f, ItemAccepted f it := by
  induction items generalizing first with
  | nil => intro it hm; cases hm
  | cons a t ih =>
    intro it hm
    rcases List.mem_cons.mp hm with rfl | hm
    · exact ⟨first, ha.1⟩
    · exact ih _ ha.2 it hm

/-- a format whose items pass the trial formatting and which has a plain keyed field contains logging's validation
    pattern -/
theorem lf_validatorSearch_of_plainKeyed (s : Str) (ha : ItemsAccepted true (parse s))
    (hf : ∃ it ∈ parse s, plainKeyed it) : validatorSearch s = true := by
  obtain ⟨it, hm, hpk⟩ := hf
  obtain ⟨f, hacc⟩ := lf_itemsAccepted_mem true _ ha it hm
  cases it with
  | field key fl w p lm conv =>
    cases key with
    | none => cases hpk
    | some k =>
      cases lm with
      | some l => cases hpk
      | none =>
        obtain ⟨_, _, c, cls, rfl, hcls, kind, hkm, _, _⟩ := hacc
        obtain ⟨hk1, hk2⟩ := lf_fieldKinds_words (k, kind) hkm
        obtain ⟨pre, t, hs, hps⟩ := lf_parseAux_keyed _ s _ hm rfl
        have hat := lf_validatorAt_of_parseSpec t k fl w p c cls hps hk1
          (fun x hx => List.all_eq_true.mp hk2 x hx) hcls hpk
        rw [hs]
        exact lf_vsearch_append pre _ (lf_vsearch_of_at _ hat)
  | lit s' => cases hpk
  | percent => cases hpk
  | badKey s' => cases hpk

theorem lf_startsWith_append (pat rest : Str) : startsWith (pat ++ rest) pat = true := by
  simp [startsWith]

theorem lf_hasInfix_here (pat rest : Str) : hasInfix pat (pat ++ rest) = true := by
  cases h : pat ++ rest with
  | nil =>
    have : pat = [] := (List.append_eq_nil_iff.mp h).1
    subst this; rfl
  | cons c t =>
    simp only [hasInfix]
    rw [← h, lf_startsWith_append]; rfl

theorem lf_hasInfix_append (pat pre rest : Str) : hasInfix pat (pre ++ (pat ++ rest)) = true := by
  induction pre with
  | nil => exact lf_hasInfix_here pat rest
  | cons c t ih => simp only [List.cons_append, hasInfix, ih, Bool.or_true]

theorem lf_parseSpec_key (t k fl : Str) (w p : Spec) (lm conv : Option Char)
    (h : (parseSpec t).1 = .field (some k) fl w p lm conv) : ∃ s1, t = '(' :: (k ++ ')' :: s1) := by
  unfold parseSpec at h
  cases t with
  | nil => simp at h
  | cons c0 t0 =>
    simp only at h
    by_cases h0 : (c0 == '(') = true
    · simp only [h0, if_true] at h
      cases hsk : scanKey 0 t0 with
      | none => simp [hsk] at h
      | some pr =>
        simp only [hsk, Option.map_some, Item.field.injEq, Option.some.injEq] at h
        have ht0 := lf_scanKey_eq 0 t0 pr.1 pr.2 hsk
        rw [h.1] at ht0
        simp only [beq_iff_eq] at h0
        exact ⟨pr.2, by rw [h0, ht0]⟩
    · simp only [h0, Bool.false_eq_true, if_false] at h
      simp at h

/-- a specifier with key `k` among the items: the string contains `%(k)` -/
theorem lf_infix_of_key (s : Str) (it : Item) (hm : it ∈ parse s) (k : Str) (hk : itemKey it = some k) :
    hasInfix ('%' :: '(' :: (k ++ [')'])) s = true := by
  cases it with
  | field key fl w p lm conv =>
    simp only [itemKey] at hk
    subst hk
    obtain ⟨pre, t, hs, hps⟩ := lf_parseAux_keyed _ s _ hm rfl
    obtain ⟨s1, rfl⟩ := lf_parseSpec_key t k fl w p lm conv hps
    rw [hs]
    have := lf_hasInfix_append ('%' :: '(' :: (k ++ [')'])) pre s1
    simpa using this
  | lit s' => cases hk
  | percent => cases hk
  | badKey s' => cases hk

theorem lf_usesTime_of_key (fmt : Str) (it : Item) (hm : it ∈ parse (effective fmt))
    (hk : itemKey it = some "asctime".toList) : usesTime fmt = true := by
  have := lf_infix_of_key _ it hm _ hk
  exact this

theorem lf_recordFor_used (adm : Kind → Value → Prop) (fmt : Str) (r : Dict) (hr : RecordFor adm fmt r) :
    ∀ k kind, (k, kind) ∈ fieldKinds → (∃ it ∈ parse (effective fmt), itemKey it = some k) →
      ∃ v, r k = some v ∧ adm kind v := by
  intro k kind hm ⟨it, hit, hk⟩
  exact hr k kind hm (fun hka => lf_usesTime_of_key fmt it hit (hka ▸ hk))

end ZCV.LogFormatLemmas
