import ZCV.Lemmas.LayoutSkip
/-!
C15, for contexts that DO record positions (tree builder, schema loader): two runs of the parser whose context
states are related by a relation `R` that the context operations respect — whatever positions `addValue` is handed —
stay related, and accept or reject together.  Consequence: line numbers (hence inserted blank/comment lines)
influence the result only "modulo `R`".
-/
namespace ZCV.Cfg
open ZCV

/-- both fail, or both succeed with related results -/
def relM {α} (R : α → α → Prop) (x y : M α) : Prop :=
  match x, y with
  | .ok a, .ok b => R a b
  | .error _, .error _ => True
  | _, _ => False

theorem relM_ok {α} {R : α → α → Prop} {a b : α} (h : R a b) : relM R (.ok a) (.ok b) := h
theorem relM_err {α} {R : α → α → Prop} (e e' : Fail) : relM R (.error e : M α) (.error e') := trivial

theorem relM_bind {α β} {R : α → α → Prop} {S : β → β → Prop} {x y : M α} {f g : α → M β}
    (h : relM R x y) (hf : ∀ a b, R a b → relM S (f a) (g b)) : relM S (x >>= f) (y >>= g) := by
  cases x with
  | error e => cases y with
    | error e' => exact trivial
    | ok b => exact h.elim
  | ok a => cases y with
    | error e' => exact h.elim
    | ok b => exact hf a b h

theorem relM_map {α β} {R : α → α → Prop} {S : β → β → Prop} {x y : M α} {f g : α → β}
    (h : relM R x y) (hf : ∀ a b, R a b → S (f a) (g b)) : relM S (x.map f) (y.map g) := by
  cases x with
  | error e => cases y with
    | error e' => exact trivial
    | ok b => exact h.elim
  | ok a => cases y with
    | error e' => exact h.elim
    | ok b => exact hf a b h

theorem relM_eq_of_toOption {α} {x y : M α} (h : x.toOption = y.toOption) : relM Eq x y := by
  cases x <;> cases y <;> simp_all [relM, Except.toOption]

theorem relM_toOption {α} {x y : M α} (h : relM Eq x y) : x.toOption = y.toOption := by
  cases x <;> cases y <;> simp_all [relM, Except.toOption]

theorem relM_closeFixup {σ} {R : σ → σ → Prop} (url : Option Str) (line line' : Nat) {r r' : M σ} (h : relM R r r') :
    relM R (closeFixup url line r) (closeFixup url line' r') := by
  cases r with
  | ok a => cases r' with
    | ok b => exact h
    | error e => exact h.elim
  | error e => cases r' with
    | ok b => exact h.elim
    | error e' =>
      have h1 : ∀ l (f : Fail), ∃ g, closeFixup url l (.error f : M σ) = .error g := by
        intro l f
        cases f with
        | cfg e => unfold closeFixup; dsimp only; split <;> exact ⟨_, rfl⟩
        | internal x => exact ⟨_, rfl⟩
        | dtExc n => exact ⟨_, rfl⟩
      obtain ⟨g, hg⟩ := h1 line e
      obtain ⟨g', hg'⟩ := h1 line' e'
      rw [hg, hg']
      exact trivial

/-- the context operations respect `R`, whatever positions `addValue` is handed -/
structure PosSim {σ} (c : PCtx σ) (R : σ → σ → Prop) : Prop where
  start : ∀ a b ty nm, R a b → relM R (c.start a ty nm) (c.start b ty nm)
  stop : ∀ a b ty nm, R a b → relM R (c.stop a ty nm) (c.stop b ty nm)
  value : ∀ a b k v p p', R a b → relM R (c.value a k v p) (c.value b k v p')
  imp : ∀ a b pkg, R a b → relM R (c.imp a pkg) (c.imp b pkg)

/-- parser states: related contexts, same open sections, same definitions -/
def RS {σ} (R : σ → σ → Prop) (x y : PS σ) : Prop := R x.ctx y.ctx ∧ x.stack = y.stack ∧ x.defs = y.defs

theorem relM_openSection {σ} (c : PCtx σ) (R : σ → σ → Prop) (hc : PosSim c R) (url : Option Str) (line line' : Nat)
    (ty : Str) (nm : Option Str) (e : Bool) (st st' : PS σ) (h : RS R st st') :
    relM (RS R) (openSection c url line ty nm e st) (openSection c url line' ty nm e st') := by
  obtain ⟨hR, hst, hd⟩ := h
  have h1 := hc.start st.ctx st'.ctx ty nm hR
  unfold openSection
  cases hs : c.start st.ctx ty nm with
  | error f =>
    cases hs' : c.start st'.ctx ty nm with
    | ok b => rw [hs, hs'] at h1; exact h1.elim
    | error f' => cases f <;> cases f' <;> exact trivial
  | ok a =>
    cases hs' : c.start st'.ctx ty nm with
    | error f' => rw [hs, hs'] at h1; exact h1.elim
    | ok b =>
      rw [hs, hs'] at h1
      dsimp only
      cases e with
      | true =>
        simp only [if_true]
        exact relM_map (relM_closeFixup url line line' (hc.stop a b ty nm h1)) (fun a2 b2 h2 => ⟨h2, hst, hd⟩)
      | false =>
        simp only [Bool.false_eq_true, if_false]
        exact ⟨h1, by rw [hst], hd⟩

theorem relM_closeSection {σ} (c : PCtx σ) (R : σ → σ → Prop) (hc : PosSim c R) (url : Option Str) (line line' : Nat)
    (ty : Str) (st st' : PS σ) (h : RS R st st') :
    relM (RS R) (closeSection c url line ty st) (closeSection c url line' ty st') := by
  obtain ⟨hR, hst, hd⟩ := h
  unfold closeSection
  rw [← hst]
  cases st.stack with
  | nil => exact trivial
  | cons p T =>
    obtain ⟨ot, name⟩ := p
    dsimp only
    split
    · exact trivial
    · exact relM_map (relM_closeFixup url line line' (hc.stop _ _ ty name hR)) (fun a2 b2 h2 => ⟨h2, rfl, hd⟩)

theorem relM_kvCore {σ} (c : PCtx σ) (R : σ → σ → Prop) (hc : PosSim c R) (url : Option Str) (line line' : Nat)
    (k v : Str) (st st' : PS σ) (h : RS R st st') :
    relM (RS R) (kvCore c url line k v st) (kvCore c url line' k v st') := by
  obtain ⟨hR, hst, hd⟩ := h
  have h1 := hc.value st.ctx st'.ctx k v { line := line, url := url } { line := line', url := url } hR
  unfold kvCore
  cases hs : c.value st.ctx k v { line := line, url := url } with
  | error f =>
    cases hs' : c.value st'.ctx k v { line := line', url := url } with
    | ok b => rw [hs, hs'] at h1; exact h1.elim
    | error f' => cases f <;> cases f' <;> exact trivial
  | ok a =>
    cases hs' : c.value st'.ctx k v { line := line', url := url } with
    | error f' => rw [hs, hs'] at h1; exact h1.elim
    | ok b =>
      rw [hs, hs'] at h1
      exact ⟨h1, hst, hd⟩

theorem relM_replace (env : Env) (defs : List (Str × Str)) (url : Option Str) (line line' : Nat) (t : Str) :
    relM Eq (replace env defs url line t) (replace env defs url line' t) :=
  relM_eq_of_toOption (replace_indep env defs url url line line' t)

/-- one line (the `%include` arm needs the statement for included resources, at smaller fuel) -/
theorem layout_step_rel {σ} (c : PCtx σ) (R : σ → σ → Prop) (hc : PosSim c R) (env : Env) (fuel : Nat)
    (ih : ∀ f, fuel = f + 1 → ∀ (active : List Str) (url : Option Str) (lines : List Str) (n n' : Nat) (st st' : PS σ),
      RS R st st' → relM (RS R) (parseLines f env c active url lines n st) (parseLines f env c active url lines n' st'))
    (active : List Str) (url : Option Str) (line line' : Nat) (l : Str) (st st' : PS σ) (h : RS R st st') :
    relM (RS R) (stepLine fuel env c active url line l st) (stepLine fuel env c active url line' l st') := by
  have hd : st.defs = st'.defs := h.2.2
  cases hs : lineShape l with
  | skip => rw [stepLine, stepLine]; simp only [hs]; exact h
  | bad t => rw [stepLine, stepLine]; simp only [hs]; exact trivial
  | internal t => rw [stepLine, stepLine]; simp only [hs]; exact trivial
  | close ty =>
    rw [stepLine, stepLine]; simp only [hs]
    exact relM_closeSection c R hc url line line' ty st st' h
  | open_ ty nm e =>
    rw [stepLine, stepLine]; simp only [hs]
    exact relM_openSection c R hc url line line' ty nm e st st' h
  | kv k raw =>
    rw [stepLine, stepLine]; simp only [hs]
    rw [keyValue_eq, keyValue_eq, ← hd]
    refine relM_bind (R := Eq) ?_ ?_
    · split
      · exact rfl
      · exact relM_replace env st.defs url line line' raw
    · intro v v' hv
      subst hv
      exact relM_kvCore c R hc url line line' k v st st' h
  | define a =>
    rw [stepLine_define _ _ _ _ _ _ _ _ _ hs, stepLine_define _ _ _ _ _ _ _ _ _ hs]
    unfold defStep
    split
    · exact trivial
    · rw [← hd]
      exact relM_map (relM_eq_of_toOption (define_indep env url url line line' a st.defs))
        (fun d d' hdd => by subst hdd; exact ⟨h.1, h.2.1, rfl⟩)
  | import_ a =>
    rw [stepLine_import _ _ _ _ _ _ _ _ _ hs, stepLine_import _ _ _ _ _ _ _ _ _ hs]
    unfold impStep
    rw [← hd]
    refine relM_bind (relM_replace env st.defs url line line' (strip a)) ?_
    intro v v' hv
    subst hv
    exact relM_map (hc.imp _ _ v h.1) (fun a2 b2 h2 => ⟨h2, h.2.1, rfl⟩)
  | include_ a =>
    rw [stepLine_include _ _ _ _ _ _ _ _ _ hs, stepLine_include _ _ _ _ _ _ _ _ _ hs]
    unfold incStep
    rw [← hd]
    refine relM_bind (relM_replace env st.defs url line line' (strip a)) ?_
    intro v v' hv
    subst hv
    split
    · exact trivial
    · split
      · exact trivial
      · exact trivial
      · split
        · exact trivial
        · split
          · exact trivial
          · cases fuel with
            | zero => exact trivial
            | succ f =>
              dsimp only
              refine relM_bind (ih f rfl _ _ _ 0 0 _ _ ⟨h.1, rfl, rfl⟩) ?_
              intro s1 s2 hs12
              exact ⟨hs12.1, h.2.1, hs12.2.2⟩

theorem lines_rel {σ} (c : PCtx σ) (R : σ → σ → Prop) (hc : PosSim c R) (env : Env) (fuel : Nat)
    (ih : ∀ f, fuel = f + 1 → ∀ (active : List Str) (url : Option Str) (lines : List Str) (n n' : Nat) (st st' : PS σ),
      RS R st st' → relM (RS R) (parseLines f env c active url lines n st) (parseLines f env c active url lines n' st'))
    (active : List Str) (url : Option Str) :
    ∀ (lines : List Str) (n n' : Nat) (st st' : PS σ), RS R st st' →
      relM (RS R) (parseLines fuel env c active url lines n st) (parseLines fuel env c active url lines n' st') := by
  intro lines
  induction lines with
  | nil =>
    intro n n' st st' h
    rw [parseLines, parseLines, ← h.2.1]
    split
    · exact trivial
    · exact h
  | cons l rest ihl =>
    intro n n' st st' h
    rw [parseLines, parseLines]
    exact relM_bind (layout_step_rel c R hc env fuel ih active url (n + 1) (n' + 1) (strip l) st st' h)
      (fun s1 s2 h12 => ihl (n + 1) (n' + 1) s1 s2 h12)

/-- **two runs over the same lines from related states, numbered from anywhere, stay related** -/
theorem layout_parse_rel {σ} (c : PCtx σ) (R : σ → σ → Prop) (hc : PosSim c R) (env : Env) :
    ∀ (fuel : Nat) (active : List Str) (url : Option Str) (lines : List Str) (n n' : Nat) (st st' : PS σ),
      RS R st st' → relM (RS R) (parseLines fuel env c active url lines n st) (parseLines fuel env c active url lines n' st') := by
  intro fuel
  induction fuel with
  | zero => exact lines_rel c R hc env 0 (fun f hf => by omega)
  | succ f ihf =>
    exact lines_rel c R hc env (f + 1) (fun f' hf => by
      have : f = f' := by omega
      subst this; exact ihf)

theorem layout_run_rel {σ} (c : PCtx σ) (R : σ → σ → Prop) (hc : PosSim c R) (env : Env) (fuel : Nat)
    (active : List Str) (url : Option Str) :
    ∀ (lines : List Str) (n n' : Nat) (st st' : PS σ), RS R st st' →
      relM (RS R) (runLines fuel env c active url lines n st) (runLines fuel env c active url lines n' st') := by
  intro lines
  induction lines with
  | nil => intro n n' st st' h; exact h
  | cons l rest ihl =>
    intro n n' st st' h
    simp only [runLines]
    exact relM_bind (layout_step_rel c R hc env fuel (fun f _ => layout_parse_rel c R hc env f) active url (n + 1) (n' + 1) (strip l) st st' h)
      (fun s1 s2 h12 => ihl (n + 1) (n' + 1) s1 s2 h12)

/-- inserting a blank or comment line: the two runs stay related -/
theorem insert_skip_rel {σ} (c : PCtx σ) (R : σ → σ → Prop) (hc : PosSim c R) (env : Env) (fuel : Nat)
    (active : List Str) (url : Option Str) (A B : List Str) (l : Str) (n : Nat) (st st' : PS σ)
    (hl : lineShape (strip l) = .skip) (h : RS R st st') :
    relM (RS R) (parseLines fuel env c active url (A ++ l :: B) n st) (parseLines fuel env c active url (A ++ B) n st') := by
  rw [parseLines_append, parseLines_append]
  refine relM_bind (layout_run_rel c R hc env fuel active url A n n st st' h) ?_
  intro s1 s2 h12
  rw [parseLines, stepLine]
  simp only [hl]
  exact layout_parse_rel c R hc env fuel active url B _ _ s1 s2 h12

end ZCV.Cfg
