import ZCV.Lemmas.RegexAll
import ZCV.Lemmas.Chars
/-!
A capture-free view of the backtracking matcher: `dt2mr` returns only the remaining suffixes, in the same priority
order as `m`.  Whether `rx.match(v)` consumed all of `v` does not depend on the captures, so patterns whose groups
are never read (such as the `ipaddr-or-hostname` pattern) can be analysed on `dt2mr`.
-/
namespace ZCV.Rx

/-- `m` without the captures -/
def dt2mr (whole : Nat) : RE → Nat → Str → List Str
  | .eps, _, s => [s]
  | .cls k, _, s => match s with | c :: t => if k.test c then [t] else [] | [] => []
  | .any, _, s => match s with | c :: t => if c != '\n' then [t] else [] | [] => []
  | .seq a b, f, s => (dt2mr whole a f s).flatMap (dt2mr whole b f)
  | .alt a b, f, s => dt2mr whole a f s ++ dt2mr whole b f s
  | .opt a, f, s => dt2mr whole a f s ++ [s]
  | .star _, 0, s => [s]
  | .star a, f+1, s => ((dt2mr whole a (f+1) s).filter (fun s' => s'.length < s.length)).flatMap (dt2mr whole (.star a) f) ++ [s]
  | .bol, _, s => if s.length == whole then [s] else []
  | .eol, _, s => if s == [] || s == ['\n'] then [s] else []
  | .cap _ a, f, s => dt2mr whole a f s
termination_by r f _ => (f, sizeOf r)

theorem dt2_map_fst_flatMap (l : List St) (g : St → List St) (g' : Str → List Str)
    (h : ∀ st, (g st).map Prod.fst = g' st.1) :
    (l.flatMap g).map Prod.fst = (l.map Prod.fst).flatMap g' := by
  induction l with
  | nil => rfl
  | cons a l ih => simp only [List.flatMap_cons, List.map_append, List.map_cons, h, ih]

theorem dt2_map_fst_filter (l : List St) (n : Nat) :
    (l.filter (fun s' => s'.1.length < n)).map Prod.fst = (l.map Prod.fst).filter (fun s' => s'.length < n) := by
  induction l with
  | nil => rfl
  | cons a l ih =>
    simp only [List.filter_cons, List.map_cons]
    split <;> simp [ih]

/-- the suffixes `m` leaves are those of `dt2mr`, in the same order, whatever the captures -/
theorem dt2_m_fst (w : Nat) (r : RE) (f : Nat) (st : St) :
    ∀ cs, (m w r f (st.1, cs)).map Prod.fst = dt2mr w r f st.1 := by
  induction r, f, st using m.induct (whole := w) with
  | case1 x s => intro cs; simp [m, dt2mr]
  | case2 k x cs c t h => intro cs'; simp [m, dt2mr, h]
  | case3 k x cs c t h => intro cs'; simp [m, dt2mr, h]
  | case4 k x cs => intro cs'; simp [m, dt2mr]
  | case5 x cs c t h => intro cs'; simp [m, dt2mr, h]
  | case6 x cs c t h => intro cs'; simp [m, dt2mr, h]
  | case7 x cs => intro cs'; simp [m, dt2mr]
  | case8 a b f s ihb iha =>
    intro cs
    rw [m, dt2mr, dt2_map_fst_flatMap _ _ (dt2mr w b f) (fun st => ihb st st.2), iha cs]
  | case9 a b f s iha ihb => intro cs; rw [m, dt2mr, List.map_append, iha cs, ihb cs]
  | case10 a f s iha => intro cs; rw [m, dt2mr, List.map_append, iha cs]; rfl
  | case11 a s => intro cs; simp [m, dt2mr]
  | case12 a f s ihs iha =>
    intro cs
    rw [m, dt2mr, List.map_append, dt2_map_fst_flatMap _ _ (dt2mr w (.star a) f) (fun st => ihs st st.2),
      dt2_map_fst_filter, iha cs]
    rfl
  | case13 x s h => intro cs; simp only [m, dt2mr]; simp at h; simp [h]
  | case14 x s h => intro cs; simp only [m, dt2mr]; simp at h; simp [h]
  | case15 x s h => intro cs; simp only [m, dt2mr]; rw [if_pos h, if_pos h]; rfl
  | case16 x s h => intro cs; simp only [m, dt2mr]; rw [if_neg h, if_neg h]; rfl
  | case17 i a f s iha => intro cs; rw [m, dt2mr, List.map_map, ← iha cs]; rfl

theorem dt2_matchesWhole_mr (r : RE) (s : Str) :
    matchesWhole r s = (match (dt2mr s.length r s.length s).head? with | some x => x == [] | none => false) := by
  unfold matchesWhole pyMatch
  rw [← dt2_m_fst s.length r s.length (s, []) [], List.head?_map]
  cases (m s.length r s.length (s, [])).head? <;> rfl

end ZCV.Rx
