import ZCV.Lemmas.ImportOvHandlers
/-!
The whole load with `%import` lines and overrides, at the level of top-level items and at the level of text: the
configuration, the handler list and the schema the load ends with, in terms of the items EDITED against the schema the
load starts with (`editBodyI`): `denoteI`, `docHandlersI`, `extendBy`.
-/
namespace ZCV.Conf
open ZCV ZCV.Cfg

/-! ### the end of a load, without a bag -/

theorem own_eq_ownI (conv : Conv) (pkgs : Str → Pkg) (S sF : Schema) (tops : List TopItem)
    (hok : importsOK pkgs S tops = true) (hl : lowTops tops = true) (he : extendBy pkgs S tops = some sF)
    (hk : knownAt pkgs S tops = true) :
    ownHandlers conv sF S.top (itemsOf tops) = ownHandlersI conv S pkgs tops := by
  unfold ownHandlersI ownHandlers
  rw [schemaAt_length, he]
  simp only
  rw [topVals_known conv pkgs sF tops S hok hl he hk]
  apply filterMap_congr'
  intro c _
  cases c.2.handler <;>
    cases childVal conv sF S.top (keyLines conv S.top (itemsOf tops)) (subsOf (itemsOf tops) (itemVals conv sF (itemsOf tops))) c <;>
    rfl

/-- what the last two steps of a bag-free load give, in the vocabulary of the spec -/
theorem end_bagless (conv : Conv) (pkgs : Str → Pkg) (S : Schema) (tops : List TopItem)
    (hok : importsOK pkgs S tops = true) (hl : lowTops tops = true) (sF : Schema) (m3 : Matcher)
    (hev : evalTops conv pkgs S (newMatcher S.top none none) tops = some (sF, m3))
    (v0 : Val) (hs : List (Str × Val)) (hfin : finishMatcher conv sF m3 = .ok (v0, hs))
    (v : Val) (hv : conv.sect S.top.datatype v0 = .ok v) :
    denoteI conv S pkgs tops = some v ∧ hs = ownHandlersI conv S pkgs tops ∧ extendBy pkgs S tops = some sF := by
  have hden : denoteI conv S pkgs tops = some v := by
    rw [← valTops_eq_denoteI conv pkgs S tops hok hl]
    unfold valTops finV
    rw [hev]
    simp only [Option.bind_some, hfin, hv]
    rfl
  have hext : extendBy pkgs S tops = some sF := by
    have := hev
    rw [← evalTopsBS_nobag conv pkgs S tops S _ rfl] at this
    exact evalTopsBS_schema conv pkgs S tops S _ sF m3 this
  refine ⟨hden, ?_, hext⟩
  have hsF := importsOK_final pkgs tops S sF hok hext
  have htop : sF.top = S.top := (Grow_of_extendBy pkgs tops S sF hext).top
  have hfinal := evalTops_final conv pkgs sF tops S (newMatcher S.top none none) hok hl hext rfl
  rw [hev] at hfinal
  cases hk : knownAt pkgs S tops with
  | false => rw [hk] at hfinal; simp at hfinal
  | true =>
    rw [hk] at hfinal
    simp only [if_true] at hfinal
    cases hei : evalItems conv sF (newMatcher S.top none none) (itemsOf tops) with
    | error e => rw [hei] at hfinal; simp at hfinal
    | ok m4 =>
      rw [hei] at hfinal
      simp only [toOption_ok, Option.map_some, Option.some.injEq, Prod.mk.injEq, true_and] at hfinal
      subst hfinal
      have hTop : STypeOK sF S.top := by
        rw [← htop]
        exact stypeOK_prop sF _ (schemaOK_top sF hsF)
      rw [container_handlers conv sF hsF S.top none hTop (itemsOf tops)
        (tyCanon_of_low sF hsF _ (itemsOf_low tops hl)) m3 hei v0 hs hfin]
      exact own_eq_ownI conv pkgs S sF tops hok hl hext hk

theorem docHandlersI_eq (conv : Conv) (S : Schema) (pkgs : Str → Pkg) (tops : List TopItem) (v : Val)
    (hden : denoteI conv S pkgs tops = some v) :
    docHandlersI conv S pkgs tops =
      topHandlers conv pkgs S tops ++ ownHandlersI conv S pkgs tops ++
        (match S.handler with | some h => [(h, v)] | none => []) := by
  unfold docHandlersI
  rw [hden]
  cases S.handler <;> rfl

/-! ### the whole load on top-level items -/

/-- **A load with `%import` lines and overrides, on top-level items**: if it is accepted, the edit against the schema the
    load started with is possible; the configuration is `denoteI` of the edited items, the handler list their
    `docHandlersI`, and the load ends with the schema extended by all the `%import`s. -/
theorem runTopsOv_result (conv : Conv) (pkgs : Str → Pkg) (S : Schema) (asGiven : Bool) (hsp : SpellOK conv S asGiven)
    (tops : List TopItem) (ovs : List OptItem) (hok : importsOK pkgs S tops = true) (hl : lowTops tops = true)
    (hovs : OvsOK ovs) (v : Val) (hh : List (Str × Val)) (sA : Schema)
    (hrun : (bagOf conv S ovs >>= fun bag => runTops (stOv conv pkgs S bag) tops >>= topsFinH conv S) = .ok (v, hh, sA)) :
    ∃ tops', editBodyI conv S asGiven tops ovs = .ok tops' ∧ denoteI conv S pkgs tops' = some v ∧
      hh = docHandlersI conv S pkgs tops' ∧ extendBy pkgs S tops' = some sA := by
  have hval := runTopsOv_value conv pkgs S asGiven hsp tops ovs hok hl hovs
  rw [hrun] at hval
  cases hedI : editBodyI conv S asGiven tops ovs with
  | error r => rw [hedI] at hval; cases hval
  | ok tops' =>
    rw [hedI] at hval
    simp only [toOption_ok, Option.map_some, Option.bind_some] at hval
    have hden : denoteI conv S pkgs tops' = some v := hval.symm
    obtain ⟨k1, k2, k3⟩ := editBodyI_keeps conv S asGiven pkgs tops ovs tops' hedI S
    have hok' : importsOK pkgs S tops' = true := by rw [k2]; exact hok
    have hl' := k3 hl
    refine ⟨tops', rfl, hden, ?_⟩
    rw [docHandlersI_eq conv S pkgs tops' v hden]
    obtain ⟨bag, hbag, hrun2⟩ := bind_ok_inv hrun
    obtain ⟨st', hst', hfinH⟩ := bind_ok_inv hrun2
    -- the end of the load, unfolded
    have hend : ∃ m' v0 hs, st'.stack = [m'] ∧ finishMatcher conv st'.schema m' = .ok (v0, hs) ∧
        conv.sect S.top.datatype v0 = .ok v ∧
        hh = st'.handlers ++ hs ++ (match S.handler with | some h => [(h, v)] | none => []) ∧ sA = st'.schema := by
      unfold topsFinH at hfinH
      split at hfinH
      · rename_i top hstk
        split at hfinH
        · cases hfinH
        · rename_i v0 hs hf
          split at hfinH
          · rename_i r hr
            cases hfinH
            exact ⟨top, v0, hs, hstk, hf, hr, rfl, rfl⟩
          · cases hfinH
      · cases hfinH
    obtain ⟨m', v0, hs, hstk, hf, hv, hhh, hsA⟩ := hend
    cases ovs with
    | nil =>
      rw [editBodyI_nil] at hedI
      cases hedI
      have hb0 : bag = none := by cases hbag; rfl
      subst hb0
      have hrunE := runTops_eval conv pkgs tops (stOv conv pkgs S none) (newMatcher S.top none none) rfl rfl rfl rfl
      rw [show (stOv conv pkgs S none).schema = S from rfl] at hrunE
      cases hev : evalTops conv pkgs S (newMatcher S.top none none) tops with
      | none =>
        rw [hev] at hrunE
        obtain ⟨e, he⟩ := hrunE
        rw [he] at hst'
        cases hst'
      | some p =>
        obtain ⟨sF, m3⟩ := p
        obtain ⟨st2, h1, h2, h3, h4⟩ := runTops_H conv pkgs tops (stOv conv pkgs S none) (newMatcher S.top none none)
          hok hl rfl rfl rfl rfl sF m3 hev
        rw [h1] at hst'
        cases hst'
        rw [h2] at hstk
        have hm : m3 = m' := (List.cons.inj hstk).1
        subst hm
        rw [h3] at hf hsA
        obtain ⟨_, e2, e3⟩ := end_bagless conv pkgs S tops hok hl sF m3 hev v0 hs hf v hv
        rw [hsA, hhh, h4, e2]
        exact ⟨rfl, e3⟩
    | cons o ovs' =>
      obtain ⟨ks, ss, ts, hsp', hedT, htops'⟩ := editBodyI_ok conv S asGiven tops (o :: ovs') tops' hedI
      have hmk := mkBag_spec conv S.top (o :: ovs')
      rw [hsp'] at hmk
      simp only at hmk
      have hb0 : bag = some { keypairs := strip (groupsOf ks), sectitems := ss } := by
        have : bagOf conv S (o :: ovs') = (mkBag conv S.top (o :: ovs')).map some := rfl
        rw [this, hmk] at hbag
        cases hbag
        rfl
      subst hb0
      have hinv := splitOvs_inv _ _ ks ss hsp'
      have hpend := pendOK_of_ovsOK _ ss hovs hinv.2
      have hG := groupsOK_of conv S asGiven hsp S.top (Or.inl rfl) ks hinv.1
      have hframe := runTops_evalBS conv pkgs S tops (stOv conv pkgs S (some { keypairs := strip (groupsOf ks), sectitems := ss }))
        (newMatcher S.top none (some { keypairs := strip (groupsOf ks), sectitems := ss })) rfl rfl rfl rfl
      rw [show (stOv conv pkgs S (some { keypairs := strip (groupsOf ks), sectitems := ss })).schema = S from rfl,
        newMatcher_withBag] at hframe
      have hsim := simTopsS conv pkgs S asGiven hsp tops S hok hl (SubSchema.refl S) (newMatcher S.top none none)
        (strip (groupsOf ks)) ss rfl hpend
      rw [strip_keys, show (newMatcher S.top none none).ty.keytype = S.top.keytype from rfl, hedT] at hsim
      simp only at hsim
      cases hevB : evalTopsBS conv pkgs S S (withBag (newMatcher S.top none none)
          (some { keypairs := strip (groupsOf ks), sectitems := ss })) tops with
      | none =>
        rw [hevB] at hframe
        obtain ⟨e, he⟩ := hframe
        rw [he] at hst'
        cases hst'
      | some p =>
        obtain ⟨sF, mB⟩ := p
        rw [hevB] at hframe
        obtain ⟨st2, h1, h2, h3, h4⟩ := hframe
        rw [h1] at hst'
        cases hst'
        rw [h2] at hstk
        cases hstk
        rw [h3] at hf hsA
        -- the matcher reached is the bag-free one with the emptied bag
        rw [hevB] at hsim
        cases hts : evalTopsBS conv pkgs S S (newMatcher S.top none none) ts with
        | none => rw [hts] at hsim; cases hsim
        | some q =>
          obtain ⟨sF2, m2⟩ := q
          rw [hts] at hsim
          simp only [Option.map_some, Option.some.injEq, rebag, Prod.mk.injEq] at hsim
          obtain ⟨rfl, rfl⟩ := hsim
          obtain ⟨hty2, hb2⟩ := evalTopsBS_ty conv pkgs S ts S _ sF m2 rfl hts
          have hG2 : GroupsOK conv asGiven m2.ty.keytype (groupsOf ks) := by rw [hty2]; exact hG
          rw [finishMatcher_split, finishBag_groups conv sF asGiven (groupsOf ks) [] m2 hb2 hG2] at hf
          cases hnl : evalItemsB conv sF m2 (newLines asGiven (groupsOf ks)) with
          | error e => rw [hnl] at hf; cases hf
          | ok m3 =>
            rw [hnl] at hf
            have hp3 := evalItemsB_pres conv sF _ m2 m3 hnl
            have hf3 : finishMatcher conv sF m3 = .ok (v0, hs) := by
              rw [finishMatcher_nobag conv sF m3 (hp3.2 hb2)]
              exact hf
            have hev3 : evalTops conv pkgs S (newMatcher S.top none none) tops' = some (sF, m3) := by
              rw [← evalTopsBS_nobag conv pkgs S tops' S _ rfl, htops', evalTopsBS_append, hts]
              simp only [Option.bind_some]
              rw [evalTopsBS_items, evalItemsBS_nobag conv S sF _ m2 hb2, hnl]
              rfl
            obtain ⟨_, e2, e3⟩ := end_bagless conv pkgs S tops' hok' hl' sF m3 hev3 v0 hs hf3 v hv
            have hH := hsimTopsS conv pkgs S asGiven hsp tops S hok hl (SubSchema.refl S) (newMatcher S.top none none)
              (strip (groupsOf ks)) ss ts [] _ rfl hpend (by rw [strip_keys]; exact hedT) hevB
            rw [hsA, hhh, h4, hH, e2, htops', topHandlers_append_kvs conv pkgs _ (newLines_kv asGiven _)]
            refine ⟨rfl, ?_⟩
            rw [← htops']
            exact e3

/-! ### text -/

/-- **C01 + C02 + C12 + C14 in one equation, for TEXT with `%import` lines loaded with overrides.**  For a text that
    meets no `%import` inside a section, whose imports keep the schema of the load well-formed, and specifiers whose
    section-selecting components are basic keys: the configuration returned is `denoteI` of the top-level items of the
    text EDITED as the (split) specifiers ask, against the schema `S` the load starts with; and there is none iff a
    specifier is refused, the parser rejects the text, the edit is impossible or the edited items do not conform. -/
theorem load_ov_eq_denoteI (conv : Conv) (env : Env) (pkgs : Str → Pkg) (S : Schema) (url : Option Str) (lines : List Str)
    (specs : List Str) (asGiven : Bool) (hsp : SpellOK conv S asGiven)
    (htop : importsAtTop env url lines)
    (hok : ∀ tops, treeOfI env url lines = .ok tops → importsOK pkgs S tops = true)
    (hovs : ∀ ovs, specs.mapM addOption = .ok ovs → OvsOK ovs) :
    (load conv env pkgs S url lines specs).toOption.map (·.value) =
      (specs.mapM addOption).toOption.bind fun ovs =>
        (treeOfI env url lines).toOption.bind fun tops =>
          (editBodyI conv S asGiven tops ovs).toOption.bind (denoteI conv S pkgs) := by
  have h := load_eq_runTopsOv conv env pkgs S url lines specs htop
  have h' := congrArg (Option.map (·.1)) h
  rw [Option.map_map] at h'
  rw [show ((fun r : LoadResult => r.value) = (fun x : Val × List (Str × Val) × Schema => x.1) ∘
    fun r => (r.value, r.handlers, r.schemaAfter)) from rfl, h']
  cases hspec : specs.mapM addOption with
  | error e => rfl
  | ok ovs =>
    simp only [toOption_ok, Option.bind_some]
    cases ht : treeOfI env url lines with
    | error e =>
      simp only [toOption_error, Option.bind_none]
      cases (bagOf conv S ovs).toOption <;> rfl
    | ok tops =>
      simp only [toOption_ok, Option.bind_some]
      rw [← runTopsOv_value conv pkgs S asGiven hsp tops ovs (hok tops ht) (treeOfI_low env url lines tops ht)
        (hovs ovs hspec)]
      cases bagOf conv S ovs with
      | error e => rfl
      | ok bag => rfl

/-- the same read from an accepted load, with the handler list and the schema the load ends with -/
theorem load_ov_result (conv : Conv) (env : Env) (pkgs : Str → Pkg) (S : Schema) (url : Option Str) (lines : List Str)
    (specs : List Str) (asGiven : Bool) (hsp : SpellOK conv S asGiven)
    (htop : importsAtTop env url lines)
    (hok : ∀ tops, treeOfI env url lines = .ok tops → importsOK pkgs S tops = true)
    (hovs : ∀ ovs, specs.mapM addOption = .ok ovs → OvsOK ovs)
    (r : LoadResult) (h : load conv env pkgs S url lines specs = .ok r) :
    ∃ ovs tops tops', specs.mapM addOption = .ok ovs ∧ treeOfI env url lines = .ok tops ∧
      editBodyI conv S asGiven tops ovs = .ok tops' ∧ denoteI conv S pkgs tops' = some r.value ∧
      r.handlers = docHandlersI conv S pkgs tops' ∧ extendBy pkgs S tops' = some r.schemaAfter := by
  have e := load_eq_runTopsOv conv env pkgs S url lines specs htop
  rw [h] at e
  cases hspec : specs.mapM addOption with
  | error x => rw [hspec] at e; cases e
  | ok ovs =>
    rw [hspec] at e
    simp only [toOption_ok, Option.map_some, Option.bind_some] at e
    cases hb : bagOf conv S ovs with
    | error x => rw [hb] at e; cases e
    | ok bag =>
      rw [hb] at e
      simp only [toOption_ok, Option.bind_some] at e
      cases ht : treeOfI env url lines with
      | error x => rw [ht] at e; cases e
      | ok tops =>
        rw [ht] at e
        simp only [toOption_ok, Option.bind_some] at e
        have hrun : (bagOf conv S ovs >>= fun bag => runTops (stOv conv pkgs S bag) tops >>= topsFinH conv S) =
            .ok (r.value, r.handlers, r.schemaAfter) := by
          rw [hb]
          exact toOption_eq_some.mp e.symm
        obtain ⟨tops', h1, h2, h3, h4⟩ := runTopsOv_result conv pkgs S asGiven hsp tops ovs (hok tops ht)
          (treeOfI_low env url lines tops ht) (hovs ovs hspec) _ _ _ hrun
        exact ⟨ovs, tops, tops', rfl, rfl, h1, h2, h3, h4⟩

end ZCV.Conf
