import ZCV.Lemmas.IncludeGen
import ZCV.Lemmas.PositionEx
import ZCV.Lemmas.SubstCor
/-!
A concrete instance for the C06 theorems (non-vacuity, and the role of each hypothesis):

    d/top :  %define n f          d/f :  %define y 2         d/g :  j $y$n
             %include $n                 %include g
             i $y

* the argument of the `%include` in `d/top` contains a reference (`$n`);
* `d/f` itself contains an `%include` (nested), whose argument `g` is resolved against `d/f`, giving `d/g`;
* `n` (defined in `d/top`) and `y` (defined in `d/f`) are both visible in `d/g`; `y` is visible in `d/top` after the `%include`;
* read from a resource outside `d/` (URL `none` here), the inlined copy of `d/f` looks for `g`, not `d/g`: textual inclusion
  holds only if the nested arguments resolve alike (hypothesis `hrel` of the nested theorem).
-/
namespace ZCV.Cfg.IncEx
open ZCV ZCV.Cfg ZCV.Subst ZCV.SubstSpec

def F : List Str := ["%define y 2".toList, "%include g".toList]
def G : List Str := ["j $y$n".toList]
def A : List Str := ["%define n f".toList]
def B : List Str := ["i $y".toList]

/-- references are resolved against the directory of the includer: inside `d/…`, `a` means `d/a` -/
def env : Env :=
  { res := fun u => if u = "d/f".toList then some F else if u = "d/g".toList then some G else none,
    resolve := fun url a => match url with
      | some u => if u.take 2 = "d/".toList then .url ("d/".toList ++ a) else .url a
      | none => .url a,
    getenv := fun _ => none }

def dn : List (Str × Str) := [("n".toList, "f".toList)]
def dny : List (Str × Str) := [("n".toList, "f".toList), ("y".toList, "2".toList)]

theorem sh_def_n : lineShape (strip "%define n f".toList) = .define "n f".toList :=
  PosEx.lineShape_of_classify _ (by decide) _ (by decide) (by decide)
theorem sh_def_y : lineShape (strip "%define y 2".toList) = .define "y 2".toList :=
  PosEx.lineShape_of_classify _ (by decide) _ (by decide) (by decide)
theorem sh_inc_n : lineShape (strip "%include $n".toList) = .include_ "$n".toList :=
  PosEx.lineShape_of_classify _ (by decide) _ (by decide) (by decide)
theorem sh_inc_dn : lineShape (strip "%include d/$n".toList) = .include_ "d/$n".toList :=
  PosEx.lineShape_of_classify _ (by decide) _ (by decide) (by decide)
theorem sh_inc_g : lineShape (strip "%include g".toList) = .include_ "g".toList :=
  PosEx.lineShape_of_classify _ (by decide) _ (by decide) (by decide)
theorem sh_j : lineShape (strip "j $y$n".toList) = .kv "j".toList "$y$n".toList :=
  PosEx.lineShape_of_classify _ (by decide) _ (by decide) (by decide)
theorem sh_i : lineShape (strip "i $y".toList) = .kv "i".toList "$y".toList :=
  PosEx.lineShape_of_classify _ (by decide) _ (by decide) (by decide)

/-! ### helpers: one line at a time -/

theorem replace_of_subst (e : Env) (defs) (url : Option Str) (line : Nat) (t v : Str)
    (h : substitute (lookupDef defs) e.getenv t = .ok v) : replace e defs url line t = .ok v := by
  unfold replace; rw [h]

theorem parse_cons {σ} (fuel : Nat) (e : Env) (c : PCtx σ) (active : List Str) (url : Option Str) (l : Str)
    (rest : List Str) (n : Nat) (st s : PS σ) (h : stepLine fuel e c active url (n + 1) (strip l) st = .ok s) :
    parseLines fuel e c active url (l :: rest) n st = parseLines fuel e c active url rest (n + 1) s := by
  rw [parseLines, h]; rfl

theorem parse_nil {σ} (fuel : Nat) (e : Env) (c : PCtx σ) (active : List Str) (url : Option Str) (n : Nat) (st : PS σ)
    (h : st.stack = []) : parseLines fuel e c active url [] n st = .ok st := by
  rw [parseLines]; simp [h]

/-- a `%define` of a new, legal name with a value that expands to `nv` -/
theorem step_define (fuel : Nat) (e : Env) (active : List Str) (url : Option Str) (line : Nat) (l arg p0 v nv : Str)
    (st : PS (List Ev0)) (hs : lineShape l = .define arg) (hsp : splitWS1 arg = [p0, v])
    (hnew : lookupDef st.defs (lower p0) = none) (hname : isnameSpec (lower p0) = true)
    (hrep : substitute (lookupDef st.defs) e.getenv v = .ok nv) :
    stepLine fuel e rec0 active url line l st = .ok { st with defs := setDef st.defs (lower p0) nv } := by
  rw [stepLine_define _ _ _ _ _ _ _ _ _ hs]
  unfold defStep define
  have hn : Subst.isname (lower p0) = true := by rw [substcor_isname]; exact hname
  rw [hsp]
  simp only [defValue, hnew, hn, replace_of_subst e st.defs url line v nv hrep, rec0, Bool.not_true, Bool.false_eq_true,
    ↓reduceIte, bind, Except.bind, pure, Except.pure, Except.map]

/-- a key line whose value expands to `v` -/
theorem step_kv (fuel : Nat) (e : Env) (active : List Str) (url : Option Str) (line : Nat) (l k raw v : Str)
    (st : PS (List Ev0)) (hs : lineShape l = .kv k raw) (hne : raw ≠ [])
    (hrep : substitute (lookupDef st.defs) e.getenv raw = .ok v) :
    stepLine fuel e rec0 active url line l st = .ok { st with ctx := st.ctx ++ [.value k v] } := by
  rw [stepLine]
  simp only [hs]
  rw [keyValue_eq]
  have : (raw == []) = false := by simpa using hne
  simp only [this, Bool.false_eq_true, ↓reduceIte, replace_of_subst e st.defs url line raw v hrep, ok_bind, kvCore_rec0]

/-! ### the three resources -/

def ut : Option Str := some "d/top".toList

theorem res_f : env.res "d/f".toList = some F := rfl
theorem res_g : env.res "d/g".toList = some G := by decide
theorem res_plain_g : env.res "g".toList = none := by decide

theorem resolve_in_d (u a : Str) (h : u.take 2 = "d/".toList) : env.resolve (some u) a = .url ("d/".toList ++ a) := by
  show (if u.take 2 = "d/".toList then _ else _) = _
  rw [if_pos h]

theorem subst_yn : substitute (lookupDef dny) env.getenv "$y$n".toList = .ok "2f".toList := by
  rw [substcor_eval_eq]; decide +kernel
theorem subst_y : substitute (lookupDef dny) env.getenv "$y".toList = .ok "2".toList := by
  rw [substcor_eval_eq]; decide +kernel
theorem subst_n : substitute (lookupDef dn) env.getenv "$n".toList = .ok "f".toList := by
  rw [substcor_eval_eq]; decide +kernel
theorem subst_dn : substitute (lookupDef dn) env.getenv "d/$n".toList = .ok "d/f".toList := by
  rw [substcor_eval_eq]; decide +kernel

/-- `d/g`: sees `y` and `n` -/
theorem parse_G (fuel : Nat) (active : List Str) (c : List Ev0) :
    parseLines fuel env rec0 active (some "d/g".toList) G 0 { ctx := c, stack := [], defs := dny } =
      .ok { ctx := c ++ [.value "j".toList "2f".toList], stack := [], defs := dny } := by
  have h : stepLine fuel env rec0 active (some "d/g".toList) (0 + 1) (strip "j $y$n".toList)
      { ctx := c, stack := [], defs := dny } =
      .ok { ctx := c ++ [.value "j".toList "2f".toList], stack := [], defs := dny } :=
    step_kv fuel env active (some "d/g".toList) (0 + 1) (strip "j $y$n".toList) "j".toList "$y$n".toList "2f".toList
      { ctx := c, stack := [], defs := dny } sh_j (by decide) subst_yn
  unfold G
  rw [parse_cons fuel env rec0 active (some "d/g".toList) "j $y$n".toList [] 0 _ _ h]
  exact parse_nil _ _ _ _ _ _ _ rfl

theorem step_def_y (fuel : Nat) (active : List Str) (url : Option Str) (line : Nat) (c : List Ev0) :
    stepLine fuel env rec0 active url line (strip "%define y 2".toList) { ctx := c, stack := [], defs := dn } =
      .ok { ctx := c, stack := [], defs := dny } :=
  step_define fuel env active url line (strip "%define y 2".toList) "y 2".toList "y".toList "2".toList "2".toList
    { ctx := c, stack := [], defs := dn } sh_def_y (by decide)
    (by show lookupDef dn (lower "y".toList) = none; decide) (by decide)
    (by show substitute (lookupDef dn) env.getenv "2".toList = .ok "2".toList; rw [substcor_eval_eq]; decide +kernel)

/-- `d/f`, read under its own URL: defines `y`, then includes `g` RELATIVE TO `d/f`, i.e. `d/g` -/
theorem parse_F (fuel : Nat) (active : List Str) (c : List Ev0) (hact : "d/g".toList ∉ active) :
    parseLines (fuel + 1) env rec0 active (some "d/f".toList) F 0 { ctx := c, stack := [], defs := dn } =
      .ok { ctx := c ++ [.value "j".toList "2f".toList], stack := [], defs := dny } := by
  have hstep : stepLine (fuel + 1) env rec0 active (some "d/f".toList) (0 + 1 + 1) (strip "%include g".toList)
      { ctx := c, stack := [], defs := dny } =
      .ok { ctx := c ++ [.value "j".toList "2f".toList], stack := [], defs := dny } := by
    rw [incgen_include_found fuel env rec0 active (some "d/f".toList) (0 + 1 + 1) (strip "%include g".toList) "g".toList
      "g".toList "d/g".toList G { ctx := c, stack := [], defs := dny } sh_inc_g rfl
      (replace_nodollar _ _ _ _ _ (by decide)) (resolve_in_d _ _ (by decide)) res_g (.inr hact)]
    show parseLines fuel env rec0 _ _ G 0 { ctx := c, stack := [], defs := dny } >>= _ = _
    rw [parse_G]
    rfl
  unfold F
  rw [parse_cons (fuel + 1) env rec0 active (some "d/f".toList) "%define y 2".toList _ 0 _ _ (step_def_y _ _ _ _ c),
    parse_cons (fuel + 1) env rec0 active (some "d/f".toList) "%include g".toList _ (0 + 1) _ _ hstep]
  exact parse_nil _ _ _ _ _ _ _ rfl

def s0 : PS (List Ev0) := { ctx := [], stack := [], defs := [] }
def s1 : PS (List Ev0) := { ctx := [], stack := [], defs := dn }

theorem step_def_n (fuel : Nat) (active : List Str) (url : Option Str) (line : Nat) :
    stepLine fuel env rec0 active url line (strip "%define n f".toList) s0 = .ok s1 :=
  step_define fuel env active url line (strip "%define n f".toList) "n f".toList "n".toList "f".toList "f".toList s0
    sh_def_n (by decide) (by decide) (by decide)
    (by show substitute (lookupDef []) env.getenv "f".toList = .ok "f".toList; rw [substcor_eval_eq]; decide +kernel)

theorem run_A (fuel : Nat) (active : List Str) (url : Option Str) : runLines fuel env rec0 active url A 0 s0 = .ok s1 := by
  unfold A
  simp only [runLines]
  rw [step_def_n]
  rfl

/-- `d/top`: the argument `$n` expands to `f`, resolved against `d/top`: `d/f`; afterwards `y` is visible -/
theorem parse_top (fuel : Nat) :
    parseLines (fuel + 2) env rec0 [] ut (A ++ ["%include $n".toList] ++ B) 0 s0 =
      .ok { ctx := [.value "j".toList "2f".toList, .value "i".toList "2".toList], stack := [], defs := dny } := by
  rw [List.append_assoc, List.singleton_append,
    incgen_parse_at_include (fuel + 1) env rec0 [] ut A B _ "$n".toList "f".toList "d/f".toList F 0 s0 s1 (run_A _ _ _) sh_inc_n rfl
      (replace_of_subst _ _ _ _ _ _ subst_n) (resolve_in_d _ _ (by decide)) res_f (.inr (by simp))]
  show parseLines (fuel + 1) env rec0 _ _ F 0 { ctx := [], stack := [], defs := dn } >>= _ = _
  rw [parse_F fuel _ _ (by decide), ok_bind]
  have h : stepLine (fuel + 1 + 1) env rec0 [] ut (0 + A.length + 1 + 1) (strip "i $y".toList)
      { ctx := [.value "j".toList "2f".toList], stack := [], defs := dny } =
      .ok { ctx := [.value "j".toList "2f".toList, .value "i".toList "2".toList], stack := [], defs := dny } :=
    step_kv (fuel + 1 + 1) env [] ut (0 + A.length + 1 + 1) (strip "i $y".toList) "i".toList "$y".toList "2".toList
      { ctx := [.value "j".toList "2f".toList], stack := [], defs := dny } sh_i (by decide) subst_y
  unfold B
  show parseLines (fuel + 1 + 1) env rec0 [] ut ["i $y".toList] (0 + A.length + 1)
    { ctx := [.value "j".toList "2f".toList], stack := [], defs := dny } = _
  rw [parse_cons (fuel + 1 + 1) env rec0 [] ut "i $y".toList [] (0 + A.length + 1) _ _ h]
  exact parse_nil _ _ _ _ _ _ _ rfl

theorem balanced_F : Balanced F := by
  have h1 : lineDelta "%define y 2".toList = 0 := by unfold lineDelta; rw [sh_def_y]
  have h2 : lineDelta "%include g".toList = 0 := by unfold lineDelta; rw [sh_inc_g]
  constructor
  · simp only [F, neverBelow, h1, h2]; decide
  · simp only [F, List.map_cons, List.map_nil, h1, h2]; decide

/-- the hypotheses of the nested-inclusion theorem hold for this text: a reference in the argument, an `%include` inside the
    fragment, definitions flowing both ways -/
theorem nested_instance (fuel : Nat) :
    outcome (parseLines (fuel + 2) env rec0 [] ut (A ++ ["%include $n".toList] ++ B) 0 s0) =
    outcome (parseLines (fuel + 2) env rec0 [] ut (A ++ F ++ B) 0 s0) := by
  refine incgen_inline_nested (fuel + 1) env [] ut A F B _ "$n".toList "d/f".toList 0 s0 sh_inc_n ?_ res_f (by simp)
    balanced_F ?_ ?_
  · intro sA hA
    rw [run_A] at hA
    cases hA
    exact ⟨"f".toList, replace_of_subst _ _ _ _ _ _ subst_n, resolve_in_d _ _ (by decide)⟩
  · intro l _ arg' _ a
    rw [resolve_in_d _ _ (by decide)]
    exact (resolve_in_d _ _ (by decide)).symm
  · rw [parse_top]
    exact incgenNoLimit_ok _

/-- … so the inlined text gives the same events and definitions (obtained from the theorem, not by running the parser) -/
theorem inlined_outcome (fuel : Nat) :
    outcome (parseLines (fuel + 2) env rec0 [] ut (A ++ F ++ B) 0 s0) =
      some ([.value "j".toList "2f".toList, .value "i".toList "2".toList], dny, []) := by
  rw [← nested_instance, parse_top]
  rfl

/-- the inlined text, read directly (whatever resources are considered active, `d/g` excepted) -/
theorem parse_inlined (fuel : Nat) (active : List Str) (hact : "d/g".toList ∉ active) :
    parseLines (fuel + 1) env rec0 active ut (A ++ F ++ B) 0 s0 =
      .ok { ctx := [.value "j".toList "2f".toList, .value "i".toList "2".toList], stack := [], defs := dny } := by
  have hinc : stepLine (fuel + 1) env rec0 active ut (0 + 1 + 1 + 1) (strip "%include g".toList)
      { ctx := [], stack := [], defs := dny } =
      .ok { ctx := [.value "j".toList "2f".toList], stack := [], defs := dny } := by
    rw [incgen_include_found fuel env rec0 active ut (0 + 1 + 1 + 1) (strip "%include g".toList) "g".toList
      "g".toList "d/g".toList G { ctx := [], stack := [], defs := dny } sh_inc_g rfl
      (replace_nodollar _ _ _ _ _ (by decide)) (resolve_in_d _ _ (by decide)) res_g (.inr hact)]
    show parseLines fuel env rec0 _ _ G 0 { ctx := [], stack := [], defs := dny } >>= _ = _
    rw [parse_G]
    rfl
  have hi : stepLine (fuel + 1) env rec0 active ut (0 + 1 + 1 + 1 + 1) (strip "i $y".toList)
      { ctx := [.value "j".toList "2f".toList], stack := [], defs := dny } =
      .ok { ctx := [.value "j".toList "2f".toList, .value "i".toList "2".toList], stack := [], defs := dny } :=
    step_kv (fuel + 1) env active ut (0 + 1 + 1 + 1 + 1) (strip "i $y".toList) "i".toList "$y".toList "2".toList
      { ctx := [.value "j".toList "2f".toList], stack := [], defs := dny } sh_i (by decide) subst_y
  show parseLines (fuel + 1) env rec0 active ut
    ["%define n f".toList, "%define y 2".toList, "%include g".toList, "i $y".toList] 0 s0 = _
  rw [parse_cons (fuel + 1) env rec0 active ut "%define n f".toList _ 0 _ _ (step_def_n _ _ _ _)]
  show parseLines (fuel + 1) env rec0 active ut _ (0 + 1) { ctx := [], stack := [], defs := dn } = _
  rw [parse_cons (fuel + 1) env rec0 active ut "%define y 2".toList _ (0 + 1) _ _ (step_def_y _ _ _ _ []),
    parse_cons (fuel + 1) env rec0 active ut "%include g".toList _ (0 + 1 + 1) _ _ hinc,
    parse_cons (fuel + 1) env rec0 active ut "i $y".toList _ (0 + 1 + 1 + 1) _ _ hi]
  exact parse_nil _ _ _ _ _ _ _ rfl

/-- the hypotheses of the converse theorem hold too: the inlined text, read with `d/f` considered active, is accepted -/
theorem nested_rev_instance (fuel : Nat) :
    outcome (parseLines (fuel + 2) env rec0 [] ut (A ++ ["%include $n".toList] ++ B) 0 s0) =
    outcome (parseLines (fuel + 1) env rec0 [] ut (A ++ F ++ B) 0 s0) := by
  refine incgen_inline_nested_rev fuel env [] ut A F B _ "$n".toList "d/f".toList 0 s0 sh_inc_n ?_ res_f (by simp)
    balanced_F ?_ ?_
  · intro sA hA
    rw [run_A] at hA
    cases hA
    exact ⟨"f".toList, replace_of_subst _ _ _ _ _ _ subst_n, resolve_in_d _ _ (by decide)⟩
  · intro l _ arg' _ a
    rw [resolve_in_d _ _ (by decide)]
    exact (resolve_in_d _ _ (by decide)).symm
  · rw [parse_inlined fuel _ (by decide)]
    exact incgenNoLimit_ok _

/-! ### read from outside `d/`: the nested argument is resolved against the FRAGMENT's URL -/

/-- the includer has no URL (or one outside `d/`): `d/$n` is `d/f`; inside it, `g` still means `d/g` -/
theorem parse_outside (fuel : Nat) :
    parseLines (fuel + 2) env rec0 [] none (A ++ ["%include d/$n".toList] ++ []) 0 s0 =
      .ok { ctx := [.value "j".toList "2f".toList], stack := [], defs := dny } := by
  rw [List.append_assoc, List.singleton_append,
    incgen_parse_at_include (fuel + 1) env rec0 [] none A [] _ "d/$n".toList "d/f".toList "d/f".toList F 0 s0 s1 (run_A _ _ _)
      sh_inc_dn rfl (replace_of_subst _ _ _ _ _ _ subst_dn) rfl res_f (.inr (by simp))]
  show parseLines (fuel + 1) env rec0 _ _ F 0 { ctx := [], stack := [], defs := dn } >>= _ = _
  rw [parse_F fuel _ _ (by decide), ok_bind]
  exact parse_nil _ _ _ _ _ _ _ rfl

/-- the inlined copy, read from outside `d/`, looks for `g` — which does not exist: without `hrel`, inclusion is not textual -/
theorem inlined_outside_fails (fuel : Nat) :
    parseLines fuel env rec0 [] none (A ++ F ++ []) 0 s0 =
      .error (.cfg { kind := .plain, url := some "g".toList, tag := "error opening" }) := by
  have hP : runLines fuel env rec0 [] none (A ++ ["%define y 2".toList]) 0 s0 =
      .ok { ctx := [], stack := [], defs := dny } := by
    unfold A
    simp only [List.cons_append, List.nil_append, runLines]
    rw [step_def_n, ok_bind]
    show stepLine fuel env rec0 [] none (0 + 1 + 1) (strip "%define y 2".toList) { ctx := [], stack := [], defs := dn } >>= _ = _
    rw [step_def_y]
    rfl
  have : A ++ F ++ [] = (A ++ ["%define y 2".toList]) ++ "%include g".toList :: [] := by simp [A, F]
  rw [this]
  exact incgen_parse_at_include_missing fuel env rec0 [] none _ [] _ "g".toList "g".toList "g".toList 0 s0 _ hP sh_inc_g rfl
    (replace_nodollar _ _ _ _ _ (by decide)) rfl res_plain_g

end ZCV.Cfg.IncEx
