import ZCV.Lemmas.ElabInvDefs
/-!
Key objects while the schema is read: `adddefault`, `finish`, `computedefault` keep the shape `stypeOK` asks for, and
never touch name or attribute.
-/
namespace ZCV.Elab
open ZCV ZCV.Cfg

theorem ite_ok {α} {c : Prop} [Decidable c] {a b : EM α} {x : α} (h : (if c then a else b) = .ok x) :
    (c ∧ a = .ok x) ∨ (¬c ∧ b = .ok x) := by
  by_cases hc : c
  · simp only [hc, ↓reduceIte] at h; exact Or.inl ⟨hc, h⟩
  · simp only [hc, ↓reduceIte] at h; exact Or.inr ⟨hc, h⟩

/-- same identity: name, attribute, multiplicity, `minOccurs` -/
structure SameKey (k k' : EKey) : Prop where
  name : k'.name = k.name
  attr : k'.attr = k.attr
  multi : k'.multi = k.multi
  minOccurs : k'.minOccurs = k.minOccurs

theorem SameKey.refl (k : EKey) : SameKey k k := ⟨rfl, rfl, rfl, rfl⟩
theorem SameKey.trans {a b c : EKey} (h1 : SameKey a b) (h2 : SameKey b c) : SameKey a c :=
  ⟨h2.name.trans h1.name, h2.attr.trans h1.attr, h2.multi.trans h1.multi, h2.minOccurs.trans h1.minOccurs⟩

theorem KeyShape.congr {k k' : EKey} (h : KeyShape k) (hn : k'.name = k.name) (hm : k'.multi = k.multi)
    (hd : k'.dflt = k.dflt) (hr : k'.raw = k.raw) (ho : k'.minOccurs = k.minOccurs) : KeyShape k' := by
  unfold KeyShape at h ⊢
  rw [hn, hm, hd, hr, ho]; exact h

/-- `add_valueinfo` keeps the shape (a plain single key only ever gets a default when it is optional) -/
theorem addValueInfo_shape (k k' : EKey) (vi : VI) (key : Option Str) (hs : KeyShape k)
    (hopt : k.minOccurs = 0) (h : addValueInfo k vi key = .ok k') :
    KeyShape k' ∧ SameKey k k' ∧ k'.raw = k.raw := by
  unfold addValueInfo at h
  obtain ⟨hne, hsh⟩ := hs
  by_cases hp : k.name = ['+']
  · simp only [hp, ↓reduceIte] at hsh
    have hpb : (k.name == ['+']) = true := by simp [hp]
    by_cases hm : k.multi = true
    · simp only [hm, ↓reduceIte, hpb] at h
      split at h
      · rename_i m hd
        split at h <;>
        · simp only [Except.ok.injEq] at h
          subst h
          refine ⟨⟨hne, ?_⟩, ⟨rfl, rfl, by simp [hm], rfl⟩, rfl⟩
          simp only [hp, ↓reduceIte]
          exact ⟨by simp [plusShape], fun r hr => by simpa [hm] using hsh.2 r hr⟩
      · cases h
    · have hm' : k.multi = false := by simpa using hm
      simp only [hm', Bool.false_eq_true, ↓reduceIte, hpb] at h
      split at h
      · rename_i m hd
        split at h
        · cases h
        · simp only [Except.ok.injEq] at h
          subst h
          refine ⟨⟨hne, ?_⟩, ⟨rfl, rfl, by simp [hm'], rfl⟩, rfl⟩
          simp only [hp, ↓reduceIte]
          exact ⟨by simp [plusShape], fun r hr => by simpa [hm'] using hsh.2 r hr⟩
      · cases h
  · simp only [hp, ↓reduceIte] at hsh
    have hpb : (k.name == ['+']) = false := by simp [hp]
    by_cases hm : k.multi = true
    · simp only [hm, ↓reduceIte, hpb, Bool.false_eq_true] at h
      split at h
      · rename_i l hd
        simp only [Except.ok.injEq] at h
        subst h
        refine ⟨⟨hne, ?_⟩, ⟨rfl, rfl, by simp [hm], rfl⟩, rfl⟩
        simp only [hp, ↓reduceIte]
        exact ⟨_, rfl⟩
      · cases h
    · have hm' : k.multi = false := by simpa using hm
      simp only [hm', Bool.false_eq_true, ↓reduceIte, hpb] at h
      split at h
      · simp only [Except.ok.injEq] at h
        subst h
        refine ⟨⟨hne, ?_⟩, ⟨rfl, rfl, by simp [hm'], rfl⟩, rfl⟩
        simp only [hp, ↓reduceIte, Bool.false_eq_true]
        exact Or.inr ⟨_, rfl, hopt⟩
      · cases h

theorem addDefault_shape (k k' : EKey) (value : Str) (key : Option Str) (hs : KeyShape k)
    (hopt : k.minOccurs = 0) (h : addDefault k value key = .ok k') :
    KeyShape k' ∧ SameKey k k' ∧ k'.raw = k.raw := by
  unfold addDefault at h
  split at h
  · cases h
  · split at h
    · cases h
    · split at h
      · cases h
      · exact addValueInfo_shape k k' _ key hs hopt h

theorem finishKey_shape (k k' : EKey) (hs : KeyShape k) (h : finishKey k = .ok k') :
    KeyShape k' ∧ SameKey k k' := by
  unfold finishKey at h
  split at h
  · cases h
  · simp only [Except.ok.injEq] at h
    subst h
    exact ⟨hs.congr rfl rfl rfl rfl rfl, ⟨rfl, rfl, rfl, rfl⟩⟩

/-- the accumulator of `computedefault` -/
structure CDAcc (k : EKey) (raw : Default) (acc : EKey) : Prop where
  name : acc.name = ['+']
  same : SameKey k acc
  shape : plusShape acc.multi acc.dflt
  raw : acc.raw = some raw

theorem CDAcc.addValueInfo {k : EKey} {raw : Default} {acc acc' : EKey} {vi : VI} {key : Option Str}
    (ha : CDAcc k raw acc) (h : addValueInfo acc vi key = .ok acc') : CDAcc k raw acc' := by
  unfold Elab.addValueInfo at h
  have hpb : (acc.name == ['+']) = true := by simp [ha.name]
  obtain ⟨hn, hsame, hsh, hraw⟩ := ha
  by_cases hm : acc.multi = true
  · simp only [hm, ↓reduceIte, hpb] at h
    split at h
    · split at h <;>
      · simp only [Except.ok.injEq] at h
        subst h
        exact ⟨hn, ⟨hsame.name, hsame.attr, by rw [← hsame.multi, hm], hsame.minOccurs⟩, by simp only [plusShape], hraw⟩
    · cases h
  · have hm' : acc.multi = false := by simpa using hm
    simp only [hm', Bool.false_eq_true, ↓reduceIte, hpb] at h
    split at h
    · split at h
      · cases h
      · simp only [Except.ok.injEq] at h
        subst h
        exact ⟨hn, ⟨hsame.name, hsame.attr, by rw [← hsame.multi, hm'], hsame.minOccurs⟩, by simp only [plusShape], hraw⟩
    · cases h

/-- `computedefault` keeps the shape, the name and the attribute -/
theorem computeDefault_shape (env : Env) (kt : Str) (k k' : EKey) (hs : KeyShape k)
    (h : computeDefault env kt k = .ok k') : KeyShape k' ∧ SameKey k k' := by
  unfold computeDefault at h
  split at h
  · cases h
  · rename_i hp
    have hp : k.name = ['+'] := by simpa using hp
    obtain ⟨hne, hsh⟩ := hs
    simp only [hp, ↓reduceIte] at hsh
    have hrawShape : plusShape k.multi (k.raw.getD k.dflt) := by
      cases hr : k.raw with
      | none => simpa using hsh.1
      | some r => simpa using hsh.2 r hr
    have fin : ∀ acc, CDAcc k (k.raw.getD k.dflt) acc → KeyShape acc ∧ SameKey k acc := by
      intro acc ha
      refine ⟨⟨by rw [ha.name]; simp, ?_⟩, ha.same⟩
      simp only [ha.name, ↓reduceIte]
      refine ⟨ha.shape, ?_⟩
      intro r hr
      rw [ha.raw] at hr
      cases hr
      rw [ha.same.multi]; exact hrawShape
    simp only at h
    split at h
    · rename_i m hraw
      rw [hraw] at hrawShape fin
      refine fin k' (foldlM_inv (CDAcc k (.keyed m)) _ ?_ m _ k' ?_ h)
      · intro b a b' hb hstep
        simp only [bind, Except.bind] at hstep
        split at hstep
        · cases hstep
        · exact hb.addValueInfo hstep
      · exact ⟨hp, ⟨rfl, rfl, rfl, rfl⟩, by simpa [plusShape] using hrawShape, by simp only [hraw]⟩
    · rename_i m hraw
      rw [hraw] at hrawShape fin
      refine fin k' (foldlM_inv (CDAcc k (.keyedMany m)) _ ?_ m _ k' ?_ h)
      · intro b a b' hb hstep
        simp only [bind, Except.bind] at hstep
        split at hstep
        · cases hstep
        · exact foldlM_inv (CDAcc k (.keyedMany m)) _ (fun b1 vi b2 hb1 hs1 => hb1.addValueInfo hs1) a.2 b b' hb hstep
      · exact ⟨hp, ⟨rfl, rfl, rfl, rfl⟩, by simpa [plusShape] using hrawShape, by simp only [hraw]⟩
    · cases h

theorem addValueInfo_same (k k' : EKey) (vi : VI) (key : Option Str) (h : addValueInfo k vi key = .ok k') : SameKey k k' := by
  unfold addValueInfo at h
  have fin : ∀ {a b : EKey}, Except.ok a = (Except.ok b : EM EKey) → SameKey k a → SameKey k b := by
    intro a b hab hs; injection hab with hab; subst hab; exact hs
  cases hd : k.dflt <;> by_cases hm : k.multi = true <;> by_cases hp : (k.name == ['+']) = true <;>
    simp only [hd, hm, hp, ↓reduceIte, Bool.false_eq_true] at h <;>
    first
    | exact fin h ⟨rfl, rfl, by simp [hm], rfl⟩
    | (cases h; done)
    | (rcases ite_ok h with ⟨_, h⟩ | ⟨_, h⟩ <;> first | exact fin h ⟨rfl, rfl, by simp [hm], rfl⟩ | cases h)

/-- `computedefault` never touches name, attribute, multiplicity, `minOccurs` -/
theorem computeDefault_same (env : Env) (kt : Str) (k k' : EKey) (h : computeDefault env kt k = .ok k') : SameKey k k' := by
  unfold computeDefault at h
  split at h
  · cases h
  · simp only at h
    split at h
    · refine foldlM_inv (SameKey k) _ ?_ _ _ k' (by exact ⟨rfl, rfl, rfl, rfl⟩) h
      intro b a b' hb hstep
      simp only [bind, Except.bind] at hstep
      split at hstep
      · cases hstep
      · exact hb.trans (addValueInfo_same _ _ _ _ hstep)
    · refine foldlM_inv (SameKey k) _ ?_ _ _ k' (by exact ⟨rfl, rfl, rfl, rfl⟩) h
      intro b a b' hb hstep
      simp only [bind, Except.bind] at hstep
      split at hstep
      · cases hstep
      · exact foldlM_inv (SameKey k) _ (fun b1 vi b2 hb1 hs1 => hb1.trans (addValueInfo_same _ _ _ _ hs1)) a.2 b b' hb hstep
    · cases h

end ZCV.Elab
