import ZCV.Lemmas.OverrideCor
/-!
The simulation behind C14 when the option bags consult a schema `S` of their own (the schema the load STARTED with,
`OptionBag.schema`) while the sections are checked and finished against a schema `s` that `%import` lines may have
extended: evaluating a tree with a bag of overrides (`evalItemBS conv S s`) = evaluating, WITHOUT a bag, the tree edited
against `S` (`editItem conv S`).  `ZCV/Lemmas/OverrideSim.lean` is the case `S = s`.

The only relation needed between the two schemas is `SubSchema S s`: a concrete type of `S` is the same concrete type
in `s`.  A section whose type `S` does not know cannot be addressed: the edit is impossible and the evaluation fails.
-/
namespace ZCV.Conf
open ZCV ZCV.Cfg

/-- the concrete types of `S` are concrete types of `s`, unchanged -/
def SubSchema (S s : Schema) : Prop := ∀ ty t, S.gettype ty = some (.concrete t) → s.gettype ty = some (.concrete t)

theorem SubSchema.refl (s : Schema) : SubSchema s s := fun _ _ h => h

/-! ### unfolding -/

theorem evalItemsBS_nil (conv : Conv) (S s : Schema) (m : Matcher) : evalItemsBS conv S s m [] = .ok m := by
  rw [evalItemsBS]

theorem evalItemsBS_cons (conv : Conv) (S s : Schema) (m : Matcher) (i : Item) (r : List Item) :
    evalItemsBS conv S s m (i :: r) = evalItemBS conv S s m i >>= fun m' => evalItemsBS conv S s m' r := by
  rw [evalItemsBS]
  cases evalItemBS conv S s m i <;> rfl

/-- the section case, as a chain -/
theorem evalItemBS_sect (conv : Conv) (S s : Schema) (m : Matcher) (ty : Str) (nm : Option Str) (items : List Item) :
    evalItemBS conv S s m (.sect ty nm items) =
      sectCheck s m.ty ty nm >>= fun t =>
      bagStep conv S m (t.name.getD []) nm >>= fun mc =>
      (evalItemsBS conv S s (newMatcher t nm mc.2) items >>= finishMatcher conv s) >>= fun r =>
      addSection s mc.1 ty nm r.1 := by
  rw [evalItemBS]
  cases sectCheck s m.ty ty nm with
  | error e => rfl
  | ok t =>
    show (match bagStep conv S m (t.name.getD []) nm with
      | .error e => .error e
      | .ok (m1, cb) => _) = (bagStep conv S m (t.name.getD []) nm >>= _)
    cases bagStep conv S m (t.name.getD []) nm with
    | error e => rfl
    | ok mc =>
      obtain ⟨m1, cb⟩ := mc
      show (match evalItemsBS conv S s (newMatcher t nm cb) items with
        | .error e => .error e
        | .ok child => _) = ((evalItemsBS conv S s (newMatcher t nm cb) items >>= finishMatcher conv s) >>= _)
      cases evalItemsBS conv S s (newMatcher t nm cb) items with
      | error e => rfl
      | ok child =>
        show (match finishMatcher conv s child with
          | .error e => .error e
          | .ok (v, _) => addSection s m1 ty nm v) = (finishMatcher conv s child >>= _)
        cases finishMatcher conv s child with
        | error e => rfl
        | ok r => rfl

/-! ### without a bag the schema of the bags is irrelevant -/

mutual
theorem evalItemBS_nobag (conv : Conv) (S s : Schema) :
    ∀ (i : Item) (m : Matcher), m.bag = none → evalItemBS conv S s m i = evalItemB conv s m i
  | .kv k v p, m, _ => by rw [evalItemBS, evalItemB]
  | .sect ty nm items, m, hb => by
    rw [evalItemBS_sect, evalItemB_sect]
    congr 1
    funext t
    rw [bagStep_nobag conv S m hb, bagStep_nobag conv s m hb]
    show ((evalItemsBS conv S s (newMatcher t nm none) items >>= finishMatcher conv s) >>= _) =
      ((evalItemsB conv s (newMatcher t nm none) items >>= finishMatcher conv s) >>= _)
    rw [evalItemsBS_nobag conv S s items (newMatcher t nm none) rfl]
theorem evalItemsBS_nobag (conv : Conv) (S s : Schema) :
    ∀ (l : List Item) (m : Matcher), m.bag = none → evalItemsBS conv S s m l = evalItemsB conv s m l
  | [], m, _ => by rw [evalItemsBS, evalItemsB]
  | i :: r, m, hb => by
    rw [evalItemsBS_cons, evalItemsB_cons, evalItemBS_nobag conv S s i m hb]
    cases he : evalItemB conv s m i with
    | error e => rfl
    | ok m' => exact evalItemsBS_nobag conv S s r m' ((evalItemB_pres conv s m m' i he).2 hb)
end

/-- a section on a matcher with a bag whose schema is `S` -/
theorem sect_bagS (conv : Conv) (S s : Schema) (m : Matcher) (kp : List (Str × List Str)) (pend : List OptItem)
    (hp : PendOK pend) (ty : Str) (nm : Option Str) (sub : List Item) (hh : hdrOK s ty = true) :
    evalItemBS conv S s (withBag m (some { keypairs := kp, sectitems := pend })) (.sect ty nm sub) =
      sectCheck s m.ty ty nm >>= fun t =>
        if (pend.filter (addresses · ty nm)).isEmpty then
          (evalItemsB conv s (newMatcher t nm none) sub >>= finishMatcher conv s) >>= fun r =>
            (addSection s m ty nm r.1).map (withBag · (some { keypairs := kp, sectitems := pend }))
        else
          match S.gettype ty with
          | some (.concrete tS) =>
            (mkBag conv tS ((pend.filter (addresses · ty nm)).map dropHead) >>= fun child =>
              evalItemsBS conv S s (withBag (newMatcher t nm none) (some child)) sub >>= finishMatcher conv s) >>= fun r =>
              (addSection s m ty nm r.1).map
                (withBag · (some { keypairs := kp, sectitems := pend.filter (fun o => !addresses o ty nm) }))
          | none => .error (.cfg { kind := .schema, tag := "unknown type name" })
          | _ => .error (.internal "AttributeError") := by
  rw [evalItemBS_sect]
  show (sectCheck s m.ty ty nm >>= _) = _
  cases hsc : sectCheck s m.ty ty nm with
  | error e => rfl
  | ok t =>
    have hg := sectCheck_ok s m.ty ty nm t hsc
    have hn := hdrOK_name s ty t hh hg
    show (bagStep conv S (withBag m (some { keypairs := kp, sectitems := pend })) (t.name.getD []) nm >>= _) = _
    rw [hn, bagStep_withBag, bagSectionInfo_spec conv S _ ty nm hp]
    simp only
    by_cases he : (pend.filter (addresses · ty nm)).isEmpty = true
    · rw [if_pos he]
      show _ = (if _ then _ else _)
      rw [if_pos he]
      show ((evalItemsBS conv S s (newMatcher t nm none) sub >>= finishMatcher conv s) >>= fun r =>
        addSection s (withBag m (some { keypairs := kp, sectitems := pend })) ty nm r.1) = _
      rw [evalItemsBS_nobag conv S s sub (newMatcher t nm none) rfl]
      congr 1
      funext r
      exact addSection_withBag s m _ ty nm r.1
    · rw [if_neg he]
      show _ = (if _ then _ else _)
      rw [if_neg he]
      cases hS : S.gettype ty with
      | none => rfl
      | some te =>
        cases te with
        | abstract_ n subs => rfl
        | concrete tS =>
          simp only
          cases mkBag conv tS ((pend.filter (addresses · ty nm)).map dropHead) with
          | error e => rfl
          | ok child =>
            show ((evalItemsBS conv S s (newMatcher t nm (some child)) sub >>= finishMatcher conv s) >>= fun r =>
              addSection s (withBag m (some { keypairs := kp, sectitems := pend.filter (fun o => !addresses o ty nm) })) ty nm r.1) = _
            rw [newMatcher_withBag]
            show _ = ((evalItemsBS conv S s (withBag (newMatcher t nm none) (some child)) sub >>= finishMatcher conv s) >>= _)
            congr 1
            funext r
            exact addSection_withBag s m _ ty nm r.1

/-! ### the statements -/

def SimItemS (conv : Conv) (S s : Schema) (asGiven : Bool) (i : Item) : Prop :=
  ∀ (m : Matcher) (kp : List (Str × List Str)) (pend : List OptItem), m.bag = none → PendOK pend →
    match editItem conv S asGiven (conv.key m.ty.keytype) (kp.map (·.1)) i pend with
    | .error _ => ∃ e, evalItemBS conv S s (withBag m (some { keypairs := kp, sectitems := pend })) i = .error e
    | .ok (is, pend') =>
      evalItemBS conv S s (withBag m (some { keypairs := kp, sectitems := pend })) i =
        (evalItemsB conv s m is).map (withBag · (some { keypairs := kp, sectitems := pend' })) ∧
      ∀ o ∈ pend', o ∈ pend

def SimItemsS (conv : Conv) (S s : Schema) (asGiven : Bool) (l : List Item) : Prop :=
  ∀ (m : Matcher) (kp : List (Str × List Str)) (pend : List OptItem), m.bag = none → PendOK pend →
    match editItems conv S asGiven (conv.key m.ty.keytype) (kp.map (·.1)) l pend with
    | .error _ => ∃ e, evalItemsBS conv S s (withBag m (some { keypairs := kp, sectitems := pend })) l = .error e
    | .ok (is, pend') =>
      evalItemsBS conv S s (withBag m (some { keypairs := kp, sectitems := pend })) l =
        (evalItemsB conv s m is).map (withBag · (some { keypairs := kp, sectitems := pend' })) ∧
      ∀ o ∈ pend', o ∈ pend

/-- the body of a section (or of the document): bag made of `ovs`, items, `finishMatcher` -/
def bodyOvS (conv : Conv) (S s : Schema) (m : Matcher) (items : List Item) (ovs : List OptItem) : M (Val × List (Str × Val)) :=
  mkBag conv m.ty ovs >>= fun child =>
    evalItemsBS conv S s (withBag m (some child)) items >>= finishMatcher conv s

def BodyStmtS (conv : Conv) (S s : Schema) (asGiven : Bool) (items : List Item) : Prop :=
  ∀ (m : Matcher) (ovs : List OptItem), m.bag = none → InSchema S m.ty → OvsOK ovs →
    match editBody conv S asGiven m.ty.keytype items ovs with
    | .error _ => ∃ e, bodyOvS conv S s m items ovs = .error e
    | .ok items' => bodyOvS conv S s m items ovs = evalItemsB conv s m items' >>= finishMatcher conv s

/-- what remains of `body_of_sim` once the items have been evaluated: the bag supplies the lines of the edit -/
theorem finish_after_sim (conv : Conv) (s : Schema) (asGiven : Bool) (m m2 : Matcher) (ks : List KeyOv) (is : List Item)
    (left : List OptItem) (hb : m.bag = none) (hev : evalItemsB conv s m is = .ok m2)
    (hG : GroupsOK conv asGiven m.ty.keytype (groupsOf ks)) :
    match closeBody asGiven (groupsOf ks) (.ok (is, left)) with
    | .error _ => ∃ e, finishMatcher conv s (withBag m2 (some { keypairs := strip (groupsOf ks), sectitems := left })) = .error e
    | .ok items' => finishMatcher conv s (withBag m2 (some { keypairs := strip (groupsOf ks), sectitems := left })) =
        evalItemsB conv s m items' >>= finishMatcher conv s := by
  have hp := evalItemsB_pres conv s is m m2 hev
  have hG2 : GroupsOK conv asGiven m2.ty.keytype (groupsOf ks) := by rw [hp.1]; exact hG
  have hfin := finishBag_groups conv s asGiven (groupsOf ks) left m2 (hp.2 hb) hG2
  rw [finishMatcher_split, hfin]
  cases left with
  | nil =>
    show _ = evalItemsB conv s m (is ++ newLines asGiven (groupsOf ks)) >>= finishMatcher conv s
    rw [evalItemsB_append, hev]
    show _ = evalItemsB conv s m2 (newLines asGiven (groupsOf ks)) >>= finishMatcher conv s
    cases hnl : evalItemsB conv s m2 (newLines asGiven (groupsOf ks)) with
    | error e => rfl
    | ok m3 =>
      have hp3 := evalItemsB_pres conv s _ m2 m3 hnl
      show finishRest conv s m3 = finishMatcher conv s m3
      rw [finishMatcher_nobag conv s m3 (hp3.2 (hp.2 hb))]
  | cons o left =>
    cases evalItemsB conv s m2 (newLines asGiven (groupsOf ks)) with
    | error e => exact ⟨e, rfl⟩
    | ok m3 => exact ⟨_, rfl⟩

theorem body_of_simS (conv : Conv) (S s : Schema) (asGiven : Bool) (hsp : SpellOK conv S asGiven) (items : List Item)
    (hsim : SimItemsS conv S s asGiven items) : BodyStmtS conv S s asGiven items := by
  intro m ovs hb hin hovs
  unfold editBody bodyOvS
  have hmk := mkBag_spec conv m.ty ovs
  cases hsp' : splitOvs (conv.key m.ty.keytype) ovs with
  | error r =>
    rw [hsp'] at hmk
    obtain ⟨e, he⟩ := hmk
    exact ⟨e, by rw [he]; rfl⟩
  | ok p =>
    obtain ⟨ks, ss⟩ := p
    rw [hsp'] at hmk
    simp only at hmk ⊢
    rw [hmk]
    have hinv := splitOvs_inv _ ovs ks ss hsp'
    have hpend := pendOK_of_ovsOK ovs ss hovs hinv.2
    have hG := groupsOK_of conv S asGiven hsp m.ty hin ks hinv.1
    have h := hsim m (strip (groupsOf ks)) ss hb hpend
    rw [strip_keys] at h
    show (match closeBody asGiven (groupsOf ks) _ with
      | .error _ => ∃ e, (evalItemsBS conv S s (withBag m (some { keypairs := strip (groupsOf ks), sectitems := ss })) items
          >>= finishMatcher conv s) = .error e
      | .ok items' => (evalItemsBS conv S s (withBag m (some { keypairs := strip (groupsOf ks), sectitems := ss })) items
          >>= finishMatcher conv s) = evalItemsB conv s m items' >>= finishMatcher conv s)
    cases hed : editItems conv S asGiven (conv.key m.ty.keytype) ((groupsOf ks).map (·.1)) items ss with
    | error r =>
      rw [hed] at h
      obtain ⟨e, he⟩ := h
      exact ⟨e, by rw [he]; rfl⟩
    | ok p =>
      obtain ⟨is, left⟩ := p
      rw [hed] at h
      obtain ⟨h, _⟩ := h
      rw [h]
      cases hev : evalItemsB conv s m is with
      | error e =>
        cases left with
        | nil =>
          show _ = evalItemsB conv s m (is ++ newLines asGiven (groupsOf ks)) >>= finishMatcher conv s
          rw [evalItemsB_append, hev]
          rfl
        | cons o left => exact ⟨e, rfl⟩
      | ok m2 => exact finish_after_sim conv s asGiven m m2 ks is left hb hev hG

/-! ### the mutual induction -/

theorem ovsOK_dropHead (pend : List OptItem) (hpend : PendOK pend) (ty : Str) (nm : Option Str) :
    OvsOK ((pend.filter (addresses · ty nm)).map dropHead) := by
  intro o ho c hc
  rw [List.mem_map] at ho
  obtain ⟨o0, ho0, rfl⟩ := ho
  have h0 := hpend o0 (List.mem_filter.mp ho0).1
  apply h0.2 c
  unfold dropHead at hc
  simp only at hc
  cases hp0 : o0.path with
  | nil => rw [hp0] at hc; simp at hc
  | cons c0 rest =>
    rw [hp0] at hc
    simp only [List.drop_one, List.tail_cons] at hc
    cases rest with
    | nil => simp at hc
    | cons c1 rest => rw [List.dropLast_cons_cons]; exact List.mem_cons_of_mem _ hc

mutual
theorem simItemS (conv : Conv) (S s : Schema) (asGiven : Bool) (hsp : SpellOK conv S asGiven) (hSs : SubSchema S s) :
    ∀ (i : Item), tyCanon s [i] = true → SimItemS conv S s asGiven i
  | .kv k v p, _ => by
    intro m kp pend hb _
    rw [editItem]
    simp only
    refine ⟨?_, fun o ho => ho⟩
    rw [evalItemBS, addValue_bag_eq]
    unfold overridden
    cases hk : conv.key m.ty.keytype k with
    | error e =>
      simp only [Bool.false_eq_true, if_false]
      rw [evalItemsB_single, evalItemB, addValue_nobag conv m hb, hk]
      rfl
    | ok rk =>
      simp only [contains_keys]
      by_cases ho : kp.any (·.1 == rk) = true
      · rw [if_pos ho, if_pos ho, evalItemsB_nil]
        rfl
      · rw [if_neg ho, if_neg ho, evalItemsB_single, evalItemB, addValue_nobag conv m hb, hk]
  | .sect ty nm sub, hcan => by
    intro m kp pend hb hpend
    obtain ⟨hh, hcsub⟩ := tyCanon_single_sect s ty nm sub hcan
    have hbody := body_of_simS conv S s asGiven hsp sub (simItemsS conv S s asGiven hsp hSs sub hcsub)
    rw [editItem_sect, sect_bagS conv S s m kp pend hpend ty nm sub hh]
    by_cases he : (pend.filter (addresses · ty nm)).isEmpty = true
    · rw [if_pos he]
      simp only
      refine ⟨?_, fun o ho => ho⟩
      rw [evalItemsB_single, sect_plain conv s m hb]
      cases sectCheck s m.ty ty nm with
      | error e => rfl
      | ok t =>
        show (if _ then _ else _) = _
        rw [if_pos he]
        show _ = Except.map _ ((evalItemsB conv s (newMatcher t nm none) sub >>= finishMatcher conv s) >>= _)
        cases (evalItemsB conv s (newMatcher t nm none) sub >>= finishMatcher conv s) with
        | error e => rfl
        | ok r => rfl
    · rw [if_neg he]
      cases hg : S.gettype ty with
      | none =>
        simp only
        cases hsc : sectCheck s m.ty ty nm with
        | error e => exact ⟨e, rfl⟩
        | ok t =>
          refine ⟨.cfg { kind := .schema, tag := "unknown type name" }, ?_⟩
          show (if _ then _ else _) = _
          rw [if_neg he]
      | some te =>
        cases te with
        | abstract_ n subs =>
          simp only
          cases hsc : sectCheck s m.ty ty nm with
          | error e => exact ⟨e, rfl⟩
          | ok t =>
            refine ⟨.internal "AttributeError", ?_⟩
            show (if _ then _ else _) = _
            rw [if_neg he]
        | concrete t =>
          simp only
          have hpm := ovsOK_dropHead pend hpend ty nm
          have hb2 := hbody (newMatcher t nm none) _ rfl (Or.inr ⟨ty, hg⟩) hpm
          unfold bodyOvS at hb2
          cases hed : editBody conv S asGiven t.keytype sub ((pend.filter (addresses · ty nm)).map dropHead) with
          | error r =>
            simp only
            cases hsc : sectCheck s m.ty ty nm with
            | error e => exact ⟨e, rfl⟩
            | ok t' =>
              have hg' := sectCheck_ok s m.ty ty nm t' hsc
              rw [hSs ty t hg] at hg'
              cases hg'
              rw [show (newMatcher t nm none).ty.keytype = t.keytype from rfl, hed] at hb2
              obtain ⟨e, he2⟩ := hb2
              refine ⟨e, ?_⟩
              show (if _ then _ else _) = _
              rw [if_neg he]
              show (Except.bind _ _) = _
              show ((mkBag conv (newMatcher t nm none).ty _ >>= _) >>= _) = _
              rw [he2]
              rfl
          | ok sub' =>
            simp only
            refine ⟨?_, fun o ho => (List.mem_filter.mp ho).1⟩
            rw [evalItemsB_single, sect_plain conv s m hb]
            cases hsc : sectCheck s m.ty ty nm with
            | error e => rfl
            | ok t' =>
              have hg' := sectCheck_ok s m.ty ty nm t' hsc
              rw [hSs ty t hg] at hg'
              cases hg'
              rw [show (newMatcher t nm none).ty.keytype = t.keytype from rfl, hed] at hb2
              show (if _ then _ else _) = _
              rw [if_neg he]
              show ((mkBag conv (newMatcher t nm none).ty _ >>= _) >>= _) = _
              rw [hb2]
              show _ = Except.map _ ((evalItemsB conv s (newMatcher t nm none) sub' >>= finishMatcher conv s) >>= _)
              cases (evalItemsB conv s (newMatcher t nm none) sub' >>= finishMatcher conv s) with
              | error e => rfl
              | ok r => rfl
theorem simItemsS (conv : Conv) (S s : Schema) (asGiven : Bool) (hsp : SpellOK conv S asGiven) (hSs : SubSchema S s) :
    ∀ (l : List Item), tyCanon s l = true → SimItemsS conv S s asGiven l
  | [], _ => by
    intro m kp pend _ _
    rw [editItems]
    simp only
    refine ⟨?_, fun o ho => ho⟩
    rw [evalItemsBS_nil, evalItemsB_nil]
    rfl
  | i :: r, hcan => by
    intro m kp pend hb hpend
    rw [tyCanon_cons, Bool.and_eq_true] at hcan
    have h1 := simItemS conv S s asGiven hsp hSs i hcan.1 m kp pend hb hpend
    rw [editItems]
    cases hed : editItem conv S asGiven (conv.key m.ty.keytype) (kp.map (·.1)) i pend with
    | error e =>
      rw [hed] at h1
      obtain ⟨e1, he1⟩ := h1
      exact ⟨e1, by rw [evalItemsBS_cons, he1]; rfl⟩
    | ok p =>
      obtain ⟨is, pend1⟩ := p
      rw [hed] at h1
      obtain ⟨h1, hsub1⟩ := h1
      simp only
      rw [evalItemsBS_cons, h1]
      cases hev : evalItemsB conv s m is with
      | error e =>
        cases hed2 : editItems conv S asGiven (conv.key m.ty.keytype) (kp.map (·.1)) r pend1 with
        | error e2 => exact ⟨e, rfl⟩
        | ok p2 =>
          obtain ⟨rs, pend2⟩ := p2
          simp only
          have hp1 : PendOK pend1 := fun o ho => hpend o (hsub1 o ho)
          have h2 := simItemsS conv S s asGiven hsp hSs r hcan.2 m kp pend1 hb hp1
          rw [hed2] at h2
          refine ⟨?_, fun o ho => hsub1 o (h2.2 o ho)⟩
          rw [evalItemsB_append, hev]
          rfl
      | ok m1 =>
        have hp := evalItemsB_pres conv s is m m1 hev
        have hp1 : PendOK pend1 := fun o ho => hpend o (hsub1 o ho)
        have h2 := simItemsS conv S s asGiven hsp hSs r hcan.2 m1 kp pend1 (hp.2 hb) hp1
        rw [hp.1] at h2
        cases hed2 : editItems conv S asGiven (conv.key m.ty.keytype) (kp.map (·.1)) r pend1 with
        | error e2 =>
          rw [hed2] at h2
          obtain ⟨e, he⟩ := h2
          exact ⟨e, he⟩
        | ok p2 =>
          obtain ⟨rs, pend2⟩ := p2
          rw [hed2] at h2
          simp only
          refine ⟨?_, fun o ho => hsub1 o (h2.2 o ho)⟩
          rw [evalItemsB_append, hev]
          exact h2.1
end

end ZCV.Conf
