import ZCV.Model.Elab
import ZCV.Lemmas.SlotsImport
/-!
C12, schema-loader side: `<sectiontype … extends="…">` WITHOUT `implements` registers nothing in any abstract type's
implementer table (`Elab.startSectiontype` mirrors `start_sectiontype` in schema.py).
-/
namespace ZCV.Elab
open ZCV ZCV.Cfg

/-- the entry `gettype` finds, in the loader's own table -/
def esFind (es : ES) (a : Str) : Option (Str × EEntry) := es.types.find? (·.1 == lower a)

/-- `isSubtype` of the finished schema, read off the loader's table -/
def esSub (es : ES) (a ty : Str) : Bool :=
  match esFind es a with
  | some (_, .abstract_ _ subs _) => subs.contains ty
  | _ => false

theorem isSubtype_toSchema (es : ES) (a ty : Str) : isSubtype es.toSchema a ty = esSub es a ty := by
  unfold isSubtype esSub esFind Schema.gettype ES.toSchema
  simp only [List.find?_map]
  have : ((fun x : Str × TypeEntry => x.1 == lower a) ∘ fun (x : Str × EEntry) => (x.1, x.2.toEntry)) =
      (fun x : Str × EEntry => x.1 == lower a) := by funext p; rfl
  rw [this]
  cases List.find? (fun x : Str × EEntry => x.1 == lower a) es.types with
  | none => rfl
  | some p =>
    obtain ⟨k, e⟩ := p
    cases e <;> rfl

theorem esSub_addType (es es' : ES) (n : Str) (t : EType) (h : addType es n (.concrete t) = .ok es') (a ty : Str) :
    esSub es' a ty = esSub es a ty := by
  unfold addType at h
  split at h
  · cases h
  · cases h
    unfold esSub esFind
    simp only [List.find?_append]
    cases List.find? (fun x : Str × EEntry => x.1 == lower a) es.types with
    | some p => rfl
    | none =>
      simp only [Option.none_or, List.find?_cons, List.find?_nil]
      by_cases hn : (n == lower a) = true
      · simp only [hn]
      · simp only [hn]

theorem sl_find_map_key {α : Type} (g : Str × α → Str × α) (hg : ∀ p, (g p).1 = p.1) (k : Str) (l : List (Str × α)) :
    (l.map g).find? (·.1 == k) = (l.find? (·.1 == k)).map g := by
  have : ((fun x : Str × α => x.1 == k) ∘ g) = (fun x => x.1 == k) := by
    funext p
    simp only [Function.comp, hg]
  simp only [List.find?_map, this]

theorem esSub_updType (es : ES) (n : Str) (f : EType → EType) (a ty : Str) :
    esSub (es.updType n f) a ty = esSub es a ty := by
  unfold esSub esFind ES.updType
  simp only
  rw [sl_find_map_key _ (fun p => by obtain ⟨k, e⟩ := p; dsimp only; split <;> rfl)]
  cases List.find? (fun x : Str × EEntry => x.1 == lower a) es.types with
  | none => rfl
  | some p =>
    obtain ⟨k, e⟩ := p
    simp only [Option.map_some]
    by_cases hk : (k == n) = true
    · simp only [hk, if_true]
      cases e <;> rfl
    · simp only [hk, Bool.false_eq_true, if_false]

theorem sl_pushPrefix_es (st st' : PSt) (attrs : Attrs) (h : pushPrefix st attrs = .ok st') : st'.es = st.es := by
  unfold pushPrefix at h
  split at h
  · dsimp only at h
    split at h
    · cases h
    · split at h
      · split at h
        · cases h; rfl
        · cases h
      · cases h; rfl
  · split at h
    · cases h; rfl
    · cases h; rfl

/-- **an extender is not an implementer.**  A `<sectiontype name=… [extends=…]>` element that carries no `implements`
    attribute leaves every abstract type's implementer table as it was — whatever type it extends, in particular when
    it extends a type that does implement an abstract type. -/
theorem startSectiontype_registers_nothing (env : Env) (st st' : PSt) (attrs : Attrs)
    (h : startSectiontype env st attrs = .ok st') (hni : attr attrs "implements" = none) (a ty : Str) :
    isSubtype st'.es.toSchema a ty = isSubtype st.es.toSchema a ty := by
  rw [isSubtype_toSchema, isSubtype_toSchema]
  unfold startSectiontype at h
  split at h
  · obtain ⟨name, _, h⟩ := bind_ok_inv h
    obtain ⟨st1, hst1, h⟩ := bind_ok_inv h
    simp only [hni] at h
    have hes1 := sl_pushPrefix_es _ _ _ hst1
    split at h
    · obtain ⟨basename, _, h⟩ := bind_ok_inv h
      split at h
      · cases h
      · cases h
      · obtain ⟨ktdt, _, h⟩ := bind_ok_inv h
        obtain ⟨es', hadd, h⟩ := bind_ok_inv h
        obtain ⟨ch, _, h⟩ := bind_ok_inv h
        cases h
        show esSub (es'.updType name _) a ty = _
        rw [esSub_updType, esSub_addType _ _ _ _ hadd, hes1]
    · obtain ⟨ktdt, _, h⟩ := bind_ok_inv h
      obtain ⟨es2, hadd, h⟩ := bind_ok_inv h
      cases h
      show esSub es2 a ty = _
      rw [esSub_addType _ _ _ _ hadd, hes1]
  · cases h

/-- the `implements` part of `startSectiontype`, on its own -/
def implCont (es2 : ES) (i name : Str) (mk : ES → PSt) : EM PSt := do
  let ifname ← basicKeyE i
  match es2.gettype ifname with
  | none => serr "unknown type name"
  | some (_, .concrete _) => serr "type specified by implements is not an abstracttype"
  | some (an, .abstract_ _ _ _) =>
    pure (mk { es2 with types := es2.types.map fun (k, e) =>
             if k == an then
               (k, match e with
                   | .abstract_ nm subs d => .abstract_ nm (if subs.contains name then subs else subs ++ [name]) d
                   | o => o)
             else (k, e) })

theorem implCont_registers (es2 : ES) (i name : Str) (mk : ES → PSt) (hmk : ∀ es, (mk es).es = es) (st' : PSt)
    (h : implCont es2 i name mk = .ok st') :
    ∃ ifname, basicKeyE i = .ok ifname ∧ esSub st'.es ifname name = true := by
  unfold implCont at h
  obtain ⟨ifname, hif, h⟩ := bind_ok_inv h
  refine ⟨ifname, hif, ?_⟩
  split at h
  · cases h
  · cases h
  · rename_i an nm subs d hg
    cases h
    rw [hmk]
    unfold esSub esFind
    simp only
    rw [sl_find_map_key _ (fun p => by obtain ⟨k, e⟩ := p; dsimp only; split <;> rfl)]
    unfold ES.gettype at hg
    rw [hg]
    simp only [Option.map_some, beq_self_eq_true, if_true]
    split
    · rename_i hc
      exact hc
    · simp

/-- … whereas with `implements="i"` the new type IS registered: looking `i` up afterwards finds the new name among
    the implementers -/
theorem startSectiontype_registers (env : Env) (st st' : PSt) (attrs : Attrs) (i : Str)
    (h : startSectiontype env st attrs = .ok st') (hi : attr attrs "implements" = some i) :
    ∃ nameAttr name ifname, attr attrs "name" = some nameAttr ∧ basicKeyE nameAttr = .ok name ∧
      basicKeyE i = .ok ifname ∧ isSubtype st'.es.toSchema ifname name = true := by
  unfold startSectiontype at h
  split at h
  · rename_i c cs hname
    obtain ⟨name, hn, h⟩ := bind_ok_inv h
    obtain ⟨st1, hst1, h⟩ := bind_ok_inv h
    simp only [hi] at h
    refine ⟨c :: cs, name, ?_⟩
    suffices ∃ ifname, basicKeyE i = .ok ifname ∧ esSub st'.es ifname name = true by
      obtain ⟨ifname, h1, h2⟩ := this
      exact ⟨ifname, hname, hn, h1, by rw [isSubtype_toSchema]; exact h2⟩
    split at h
    · obtain ⟨basename, _, h⟩ := bind_ok_inv h
      split at h
      · cases h
      · cases h
      · obtain ⟨ktdt, _, h⟩ := bind_ok_inv h
        obtain ⟨es', hadd, h⟩ := bind_ok_inv h
        obtain ⟨ch, _, h⟩ := bind_ok_inv h
        exact implCont_registers _ i name
          (fun es3 => { st1 with es := es3, stack := Frame.stype name :: st1.stack }) (fun _ => rfl) st' h
    · obtain ⟨ktdt, _, h⟩ := bind_ok_inv h
      obtain ⟨es2, hadd, h⟩ := bind_ok_inv h
      exact implCont_registers _ i name
        (fun es3 => { st1 with es := es3, stack := Frame.stype name :: st1.stack }) (fun _ => rfl) st' h
  · cases h

end ZCV.Elab
