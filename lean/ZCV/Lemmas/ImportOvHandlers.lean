import ZCV.Lemmas.ImportOvLoad
import ZCV.Lemmas.Handlers
import ZCV.Spec.HandlersImport
/-!
C16 for loads with `%import` lines and overrides, loader side: the handler entries appended while an item is run with
an option bag (`hItemBS`) are the post-order entries (`handlersOfItems`) of the item EDITED as the bag asks.

* `hItemBS_nobag` / `hItemsBS_nobag` — without a bag: `handlersOfItem` (through `runItem_H` of `Handlers`);
* `hsimItemS` / `hsimItemsS` — with a bag, given the value-level simulation `simItemS`;
* along the top level: `hsimTopsS`, `hTopsBS_nobag`.
-/
namespace ZCV.Conf
open ZCV ZCV.Cfg

/-! ### without a bag -/

/-- a state with `m` alone on the matcher stack whose bags would consult `S` -/
def stOfS (conv : Conv) (S s : Schema) (m : Matcher) : LS :=
  { schema := s, privateSchema := false, handlers := [], stack := [m], pkgs := fun _ => .notImportable, conv := conv,
    bagSchema := some S }

theorem evalItemB_ok_evalItem (conv : Conv) (s : Schema) (i : Item) (m m' : Matcher) (hb : m.bag = none)
    (h : evalItemB conv s m i = .ok m') : evalItem conv s m i = .ok m' := by
  have := evalItemB_eq_evalItem conv s m hb i
  rw [h] at this
  exact toOption_eq_some.mp this.symm

theorem hItemBS_nobag (conv : Conv) (S s : Schema) (hs : schemaOK s = true) (i : Item) (hcan : tyCanon s [i] = true)
    (m m' : Matcher) (hb : m.bag = none) (he : evalItemB conv s m i = .ok m') :
    hItemBS conv S s m i = handlersOfItem conv s i := by
  have h1 := runItem_evalBS conv S s i (stOfS conv S s m) m [] rfl rfl rfl rfl
  rw [evalItemBS_nobag conv S s i m hb, he] at h1
  have h2 := runItem_H conv s hs i (stOfS conv S s m) m m' [] hcan rfl rfl rfl hb (evalItemB_ok_evalItem conv s i m m' hb he)
  rw [h1] at h2
  have := congrArg LS.handlers (Except.ok.inj h2)
  simpa [withTop, stOfS] using this

theorem hItemsBS_nobag (conv : Conv) (S s : Schema) (hs : schemaOK s = true) (l : List Item) (hcan : tyCanon s l = true)
    (m m' : Matcher) (hb : m.bag = none) (he : evalItemsB conv s m l = .ok m') :
    hItemsBS conv S s m l = handlersOfItems conv s l := by
  have h1 := runItems_evalBS conv S s l (stOfS conv S s m) m [] rfl rfl rfl rfl
  rw [evalItemsBS_nobag conv S s l m hb, he] at h1
  have h2 := runItems_H conv s hs l (stOfS conv S s m) m m' [] hcan rfl rfl rfl hb (evalItemsB_ok_evalItems conv s l m m' hb he)
  rw [h1] at h2
  have := congrArg LS.handlers (Except.ok.inj h2)
  simpa [withTop, stOfS] using this

/-! ### unfolding -/

/-- what closing a section appends -/
def finHs (conv : Conv) (s : Schema) (x : M Matcher) : List (Str × Val) :=
  match x with
  | .error _ => []
  | .ok child =>
    match finishMatcher conv s child with
    | .error _ => []
    | .ok (_, hs) => hs

theorem hItemBS_sect (conv : Conv) (S s : Schema) (m : Matcher) (ty : Str) (nm : Option Str) (items : List Item) :
    hItemBS conv S s m (.sect ty nm items) =
      match sectCheck s m.ty ty nm with
      | .error _ => []
      | .ok t =>
        match bagStep conv S m (t.name.getD []) nm with
        | .error _ => []
        | .ok mc =>
          hItemsBS conv S s (newMatcher t nm mc.2) items ++ finHs conv s (evalItemsBS conv S s (newMatcher t nm mc.2) items) := by
  rw [hItemBS]
  cases sectCheck s m.ty ty nm with
  | error e => rfl
  | ok t =>
    simp only
    cases bagStep conv S m (t.name.getD []) nm with
    | error e => rfl
    | ok mc =>
      obtain ⟨m1, cb⟩ := mc
      simp only
      unfold finHs
      cases evalItemsBS conv S s (newMatcher t nm cb) items with
      | error e => rfl
      | ok child =>
        simp only
        cases finishMatcher conv s child with
        | error e => rfl
        | ok r => rfl

theorem hItemsBS_nil (conv : Conv) (S s : Schema) (m : Matcher) : hItemsBS conv S s m [] = [] := by rw [hItemsBS]

theorem hItemsBS_cons (conv : Conv) (S s : Schema) (m : Matcher) (i : Item) (r : List Item) :
    hItemsBS conv S s m (i :: r) =
      hItemBS conv S s m i ++ (match evalItemBS conv S s m i with | .error _ => [] | .ok m' => hItemsBS conv S s m' r) := by
  rw [hItemsBS]
  cases evalItemBS conv S s m i <;> rfl

theorem handlersOfItems_append (conv : Conv) (s : Schema) : ∀ (a b : List Item),
    handlersOfItems conv s (a ++ b) = handlersOfItems conv s a ++ handlersOfItems conv s b
  | [], b => by rw [List.nil_append, handlersOfItems, List.nil_append]
  | i :: a, b => by
    rw [List.cons_append, handlersOfItems, handlersOfItems, handlersOfItems_append conv s a b, List.append_assoc]

theorem handlersOfItems_kvs (conv : Conv) (s : Schema) : ∀ (l : List Item), (∀ i ∈ l, ∃ k v p, i = .kv k v p) →
    handlersOfItems conv s l = []
  | [], _ => by rw [handlersOfItems]
  | i :: r, h => by
    obtain ⟨k, v, p, rfl⟩ := h i List.mem_cons_self
    rw [handlersOfItems, handlersOfItem, handlersOfItems_kvs conv s r (fun j hj => h j (List.mem_cons_of_mem _ hj))]
    rfl

theorem handlersOfItems_single (conv : Conv) (s : Schema) (i : Item) :
    handlersOfItems conv s [i] = handlersOfItem conv s i := by
  rw [handlersOfItems, handlersOfItems, List.append_nil]

/-- a container finished after a successful evaluation of its body appends the container's own entries -/
theorem finish_own (conv : Conv) (s : Schema) (hs : schemaOK s = true) (t : SType) (nm : Option Str) (ty : Str)
    (hg : s.gettype ty = some (.concrete t)) (items : List Item) (hl : lowItems items = true)
    (v : Val) (hh : List (Str × Val))
    (h : (evalItemsB conv s (newMatcher t nm none) items >>= finishMatcher conv s) = .ok (v, hh)) :
    hh = ownHandlers conv s t items := by
  obtain ⟨c, hc, hf⟩ := bind_ok_inv h
  exact container_handlers conv s hs t nm (schemaOK_gettype s hs ty t hg) items (tyCanon_of_low s hs items hl) c
    (evalItemsB_ok_evalItems conv s items _ c rfl hc) v hh hf

/-! ### with a bag -/

def HSimItemS (conv : Conv) (S s : Schema) (asGiven : Bool) (i : Item) : Prop :=
  ∀ (m : Matcher) (kp : List (Str × List Str)) (pend : List OptItem) (is : List Item) (pend' : List OptItem) (m' : Matcher),
    m.bag = none → PendOK pend →
    editItem conv S asGiven (conv.key m.ty.keytype) (kp.map (·.1)) i pend = .ok (is, pend') →
    evalItemBS conv S s (withBag m (some { keypairs := kp, sectitems := pend })) i = .ok m' →
    hItemBS conv S s (withBag m (some { keypairs := kp, sectitems := pend })) i = handlersOfItems conv s is

def HSimItemsS (conv : Conv) (S s : Schema) (asGiven : Bool) (l : List Item) : Prop :=
  ∀ (m : Matcher) (kp : List (Str × List Str)) (pend : List OptItem) (is : List Item) (pend' : List OptItem) (m' : Matcher),
    m.bag = none → PendOK pend →
    editItems conv S asGiven (conv.key m.ty.keytype) (kp.map (·.1)) l pend = .ok (is, pend') →
    evalItemsBS conv S s (withBag m (some { keypairs := kp, sectitems := pend })) l = .ok m' →
    hItemsBS conv S s (withBag m (some { keypairs := kp, sectitems := pend })) l = handlersOfItems conv s is

theorem lowItem_single (i : Item) (h : lowItem i = true) : lowItems [i] = true := by
  rw [lowItems, h, lowItems]; rfl

mutual
theorem hsimItemS (conv : Conv) (S s : Schema) (asGiven : Bool) (hsp : SpellOK conv S asGiven) (hSs : SubSchema S s)
    (hs : schemaOK s = true) : ∀ (i : Item), lowItem i = true → HSimItemS conv S s asGiven i
  | .kv k v p, _ => by
    intro m kp pend is pend' m' _ _ hed _
    rw [editItem] at hed
    cases hed
    rw [hItemBS]
    split
    · rw [handlersOfItems]
    · rw [handlersOfItems_single, handlersOfItem]
  | .sect ty nm sub, hl => by
    intro m kp pend is pend' m' hb hpend hed hev
    have hl' := hl
    rw [lowItem, Bool.and_eq_true] at hl'
    have hcan : tyCanon s [.sect ty nm sub] = true := tyCanon_of_low s hs _ (lowItem_single _ hl)
    obtain ⟨hh, hcsub⟩ := tyCanon_single_sect s ty nm sub hcan
    rw [sect_bagS conv S s m kp pend hpend ty nm sub hh] at hev
    rw [editItem_sect] at hed
    rw [hItemBS_sect]
    show (match sectCheck s m.ty ty nm with
      | .error _ => []
      | .ok t => _) = _
    cases hsc : sectCheck s m.ty ty nm with
    | error e => rw [hsc] at hev; cases hev
    | ok t =>
      rw [hsc] at hev
      have hg := sectCheck_ok s m.ty ty nm t hsc
      have hn := hdrOK_name s ty t hh hg
      simp only
      rw [hn, bagStep_withBag, bagSectionInfo_spec conv S _ ty nm hpend]
      simp only
      by_cases he : (pend.filter (addresses · ty nm)).isEmpty = true
      · rw [if_pos he] at hed
        cases hed
        rw [if_pos he]
        simp only
        have hev' : ((evalItemsB conv s (newMatcher t nm none) sub >>= finishMatcher conv s) >>= fun r =>
            (addSection s m ty nm r.1).map (withBag · (some { keypairs := kp, sectitems := pend }))) = .ok m' := by
          have := hev
          simp only [bind, Except.bind] at this ⊢
          rw [if_pos he] at this
          exact this
        obtain ⟨r, hr, _⟩ := bind_ok_inv hev'
        obtain ⟨v, hh'⟩ := r
        obtain ⟨c, hc, hf⟩ := bind_ok_inv hr
        rw [evalItemsBS_nobag conv S s sub (newMatcher t nm none) rfl, hc]
        rw [hItemsBS_nobag conv S s hs sub hcsub (newMatcher t nm none) c rfl hc]
        unfold finHs
        simp only [hf]
        rw [handlersOfItems_single, handlersOfItem, hg]
        simp only
        rw [finish_own conv s hs t nm ty hg sub hl'.2 v hh' hr]
      · rw [if_neg he] at hed
        rw [if_neg he]
        cases hS : S.gettype ty with
        | none => rw [hS] at hed; cases hed
        | some te =>
          cases te with
          | abstract_ n subs => rw [hS] at hed; cases hed
          | concrete tS =>
            rw [hS] at hed
            simp only at hed ⊢
            have hgt := hSs ty tS hS
            rw [hg] at hgt
            cases hgt
            cases hedb : editBody conv S asGiven t.keytype sub ((pend.filter (addresses · ty nm)).map dropHead) with
            | error r => rw [hedb] at hed; cases hed
            | ok sub' =>
              rw [hedb] at hed
              cases hed
              obtain ⟨ks, ss, isub, hsp', heds, rfl⟩ := editBody_ok conv S asGiven t.keytype sub _ sub' hedb
              have hmk := mkBag_spec conv t ((pend.filter (addresses · ty nm)).map dropHead)
              rw [hsp'] at hmk
              simp only at hmk
              rw [hmk]
              simp only
              have hev' : ((evalItemsBS conv S s (withBag (newMatcher t nm none)
                    (some { keypairs := strip (groupsOf ks), sectitems := ss })) sub >>= finishMatcher conv s) >>= fun r =>
                  (addSection s m ty nm r.1).map
                    (withBag · (some { keypairs := kp, sectitems := pend.filter (fun o => !addresses o ty nm) }))) = .ok m' := by
                have := hev
                simp only [bind, Except.bind] at this ⊢
                rw [if_neg he, hS] at this
                simp only [hmk] at this
                exact this
              obtain ⟨r, hr, _⟩ := bind_ok_inv hev'
              obtain ⟨v, hh'⟩ := r
              obtain ⟨c, hc, hf⟩ := bind_ok_inv hr
              rw [newMatcher_withBag, hc]
              have ih := hsimItemsS conv S s asGiven hsp hSs hs sub hl'.2 (newMatcher t nm none) (strip (groupsOf ks)) ss
                isub [] c rfl
                (pendOK_of_ovsOK _ ss (ovsOK_dropHead pend hpend ty nm) (splitOvs_inv _ _ ks ss hsp').2)
                (by rw [strip_keys]; exact heds) hc
              rw [ih]
              unfold finHs
              simp only [hf]
              -- the own entries: through the value-level simulation of the body
              have hbody := body_of_simS conv S s asGiven hsp sub (simItemsS conv S s asGiven hsp hSs sub hcsub)
                (newMatcher t nm none) _ rfl (Or.inr ⟨ty, hS⟩) (ovsOK_dropHead pend hpend ty nm)
              rw [show (newMatcher t nm none).ty.keytype = t.keytype from rfl, hedb] at hbody
              simp only at hbody
              unfold bodyOvS at hbody
              rw [show (newMatcher t nm none).ty = t from rfl, hmk] at hbody
              have hb2 : (evalItemsB conv s (newMatcher t nm none) (isub ++ newLines asGiven (groupsOf ks)) >>=
                  finishMatcher conv s) = .ok (v, hh') := by
                rw [← hbody]
                exact hr
              have hlsub' : lowItems (isub ++ newLines asGiven (groupsOf ks)) = true := by
                rw [lowItems_append, lowItems_edit conv S asGiven sub hl'.2 _ _ _ _ _ heds,
                  lowItems_kvs _ (newLines_kv asGiven _)]
                rfl
              rw [finish_own conv s hs t nm ty hg _ hlsub' v hh' hb2]
              rw [handlersOfItems_single, handlersOfItem, hg]
              simp only
              rw [handlersOfItems_append, handlersOfItems_kvs conv s _ (newLines_kv asGiven _), List.append_nil]
theorem hsimItemsS (conv : Conv) (S s : Schema) (asGiven : Bool) (hsp : SpellOK conv S asGiven) (hSs : SubSchema S s)
    (hs : schemaOK s = true) : ∀ (l : List Item), lowItems l = true → HSimItemsS conv S s asGiven l
  | [], _ => by
    intro m kp pend is pend' m' _ _ hed _
    rw [editItems] at hed
    cases hed
    rw [hItemsBS_nil, handlersOfItems]
  | i :: r, hl => by
    intro m kp pend is pend' m' hb hpend hed hev
    rw [lowItems, Bool.and_eq_true] at hl
    have hcan1 : tyCanon s [i] = true := tyCanon_of_low s hs _ (lowItem_single _ hl.1)
    rw [editItems] at hed
    cases hed1 : editItem conv S asGiven (conv.key m.ty.keytype) (kp.map (·.1)) i pend with
    | error e => rw [hed1] at hed; cases hed
    | ok q =>
      obtain ⟨is1, pend1⟩ := q
      rw [hed1] at hed
      simp only at hed
      cases hed2 : editItems conv S asGiven (conv.key m.ty.keytype) (kp.map (·.1)) r pend1 with
      | error e => rw [hed2] at hed; cases hed
      | ok q2 =>
        obtain ⟨rs, pend2⟩ := q2
        rw [hed2] at hed
        cases hed
        have hsim := simItemS conv S s asGiven hsp hSs i hcan1 m kp pend hb hpend
        rw [hed1] at hsim
        obtain ⟨hsim1, hsub1⟩ := hsim
        rw [evalItemsBS_cons] at hev
        obtain ⟨m1B, hm1B, hrest⟩ := bind_ok_inv hev
        rw [hItemsBS_cons, hm1B]
        simp only
        rw [hsimItemS conv S s asGiven hsp hSs hs i hl.1 m kp pend is1 pend1 m1B hb hpend hed1 hm1B]
        rw [hsim1] at hm1B
        obtain ⟨m1, hm1, rfl⟩ := map_ok_inv hm1B
        have hp := evalItemsB_pres conv s is1 m m1 hm1
        have hp1 : PendOK pend1 := fun o ho => hpend o (hsub1 o ho)
        rw [hsimItemsS conv S s asGiven hsp hSs hs r hl.2 m1 kp pend1 rs pend' m' (hp.2 hb) hp1
          (by rw [hp.1]; exact hed2) hrest]
        rw [handlersOfItems_append]
end

/-! ### along the top level -/

theorem topHandlers_items_append (conv : Conv) (pkgs : Str → Pkg) (s : Schema) : ∀ (l : List Item) (r : List TopItem),
    topHandlers conv pkgs s (l.map .item ++ r) = handlersOfItems conv s l ++ topHandlers conv pkgs s r
  | [], r => by rw [List.map_nil, List.nil_append, handlersOfItems, List.nil_append]
  | i :: l, r => by
    rw [List.map_cons, List.cons_append, topHandlers, handlersOfItems, topHandlers_items_append conv pkgs s l r,
      List.append_assoc]

theorem topHandlers_append_kvs (conv : Conv) (pkgs : Str → Pkg) (l : List Item) (hkv : ∀ i ∈ l, ∃ k v p, i = .kv k v p) :
    ∀ (tops : List TopItem) (s : Schema), topHandlers conv pkgs s (tops ++ l.map .item) = topHandlers conv pkgs s tops
  | [], s => by
    have := topHandlers_items_append conv pkgs s l []
    rw [List.append_nil] at this
    rw [List.nil_append, this, handlersOfItems_kvs conv s l hkv, topHandlers]
    rfl
  | .item i :: r, s => by
    rw [List.cons_append, topHandlers, topHandlers, topHandlers_append_kvs conv pkgs l hkv r s]
  | .imp p :: r, s => by
    rw [List.cons_append, topHandlers, topHandlers]
    cases extend s (pkgs p) with
    | none => rfl
    | some s' => exact topHandlers_append_kvs conv pkgs l hkv r s'

/-- **the entries appended while the top-level items are run with a bag are the post-order entries of the edited items** -/
theorem hsimTopsS (conv : Conv) (pkgs : Str → Pkg) (S : Schema) (asGiven : Bool) (hsp : SpellOK conv S asGiven) :
    ∀ (tops : List TopItem) (s : Schema), importsOK pkgs s tops = true → lowTops tops = true → SubSchema S s →
      ∀ (m : Matcher) (kp : List (Str × List Str)) (pend : List OptItem) (tops' : List TopItem) (pend' : List OptItem)
        (x : Schema × Matcher), m.bag = none → PendOK pend →
        editTops conv S asGiven (conv.key m.ty.keytype) (kp.map (·.1)) tops pend = .ok (tops', pend') →
        evalTopsBS conv pkgs S s (withBag m (some { keypairs := kp, sectitems := pend })) tops = some x →
        hTopsBS conv pkgs S s (withBag m (some { keypairs := kp, sectitems := pend })) tops = topHandlers conv pkgs s tops'
  | [], s, _, _, _, m, kp, pend, tops', pend', x, _, _, hed, _ => by
    rw [editTops] at hed
    cases hed
    rw [hTopsBS, topHandlers]
  | .imp p :: r, s, hok, hl, hSs, m, kp, pend, tops', pend', x, hb, hpend, hed, hev => by
    rw [lowTops] at hl
    rw [editTops] at hed
    rw [evalTopsBS] at hev
    cases hed1 : editTops conv S asGiven (conv.key m.ty.keytype) (kp.map (·.1)) r pend with
    | error e => rw [hed1] at hed; cases hed
    | ok q =>
      obtain ⟨rs, pend1⟩ := q
      rw [hed1] at hed
      cases hed
      rw [hTopsBS, topHandlers]
      cases hx : extend s (pkgs p) with
      | none => simp [hx] at hev
      | some s' =>
        rw [hx] at hev
        exact hsimTopsS conv pkgs S asGiven hsp r s' (importsOK_imp pkgs p r s s' hok hx) hl (SubSchema_extend hSs _ hx)
          m kp pend rs pend' x hb hpend hed1 hev
  | .item i :: r, s, hok, hl, hSs, m, kp, pend, tops', pend', x, hb, hpend, hed, hev => by
    have hs := importsOK_head pkgs _ s hok
    rw [importsOK] at hok
    rw [lowTops, Bool.and_eq_true] at hl
    have hcan1 : tyCanon s [i] = true := tyCanon_of_low s hs _ (lowItem_single _ hl.1)
    rw [editTops] at hed
    rw [evalTopsBS] at hev
    cases hed1 : editItem conv S asGiven (conv.key m.ty.keytype) (kp.map (·.1)) i pend with
    | error e => rw [hed1] at hed; cases hed
    | ok q =>
      obtain ⟨is1, pend1⟩ := q
      rw [hed1] at hed
      simp only at hed
      cases hed2 : editTops conv S asGiven (conv.key m.ty.keytype) (kp.map (·.1)) r pend1 with
      | error e => rw [hed2] at hed; cases hed
      | ok q2 =>
        obtain ⟨rs, pend2⟩ := q2
        rw [hed2] at hed
        cases hed
        have hsim := simItemS conv S s asGiven hsp hSs i hcan1 m kp pend hb hpend
        rw [hed1] at hsim
        obtain ⟨hsim1, hsub1⟩ := hsim
        cases hm1B : evalItemBS conv S s (withBag m (some { keypairs := kp, sectitems := pend })) i with
        | error e => rw [hm1B] at hev; cases hev
        | ok m1B =>
          rw [hm1B] at hev
          rw [hTopsBS, hm1B]
          simp only
          rw [hsimItemS conv S s asGiven hsp hSs hs i hl.1 m kp pend is1 pend1 m1B hb hpend hed1 hm1B]
          rw [hsim1] at hm1B
          obtain ⟨m1, hm1, rfl⟩ := map_ok_inv hm1B
          have hp := evalItemsB_pres conv s is1 m m1 hm1
          have hp1 : PendOK pend1 := fun o ho => hpend o (hsub1 o ho)
          rw [hsimTopsS conv pkgs S asGiven hsp r s hok hl.2 hSs m1 kp pend1 rs pend' x (hp.2 hb) hp1
            (by rw [hp.1]; exact hed2) hev]
          rw [topHandlers_items_append]

/-! ### without a bag, on the loader state -/

theorem runTops_H (conv : Conv) (pkgs : Str → Pkg) :
    ∀ (tops : List TopItem) (st : LS) (m : Matcher), importsOK pkgs st.schema tops = true → lowTops tops = true →
      st.stack = [m] → st.conv = conv → st.pkgs = pkgs → m.bag = none →
      ∀ (sF : Schema) (m' : Matcher), evalTops conv pkgs st.schema m tops = some (sF, m') →
        ∃ st', runTops st tops = .ok st' ∧ st'.stack = [m'] ∧ st'.schema = sF ∧
          st'.handlers = st.handlers ++ topHandlers conv pkgs st.schema tops
  | [], st, m, _, _, hst, _, _, _, sF, m', hev => by
    rw [evalTops] at hev
    cases hev
    rw [runTops, topHandlers]
    exact ⟨st, rfl, hst, rfl, by rw [List.append_nil]⟩
  | .item i :: r, st, m, hok, hl, hst, hconv, hpk, hb, sF, m', hev => by
    have hs := importsOK_head pkgs _ st.schema hok
    rw [importsOK] at hok
    rw [lowTops, Bool.and_eq_true] at hl
    have hcan1 : tyCanon st.schema [i] = true := tyCanon_of_low st.schema hs _ (lowItem_single _ hl.1)
    rw [evalTops] at hev
    rw [runTops, topHandlers]
    simp only [runTop]
    cases he : evalItem conv st.schema m i with
    | error e => rw [he] at hev; cases hev
    | ok m1 =>
      rw [he] at hev
      have hb1 : m1.bag = none := by
        have := runItem_eval conv st.schema i st m [] hst rfl hconv hb
        rw [he] at this
        exact this.1
      rw [runItem_H conv st.schema hs i st m m1 [] hcan1 hst rfl hconv hb he]
      obtain ⟨st', h1, h2, h3, h4⟩ := runTops_H conv pkgs r (withTop st m1 [] (st.handlers ++ handlersOfItem conv st.schema i)) m1
        hok hl.2 rfl hconv hpk hb1 sF m' hev
      exact ⟨st', h1, h2, h3, by rw [h4]; simp only [withTop, List.append_assoc]⟩
  | .imp p :: r, st, m, hok, hl, hst, hconv, hpk, hb, sF, m', hev => by
    cases hpk
    rw [lowTops] at hl
    rw [evalTops] at hev
    rw [runTops, topHandlers]
    simp only [runTop]
    have h1 := lsImport_toOption st p
    cases he : extend st.schema (st.pkgs p) with
    | none => rw [he] at hev; cases hev
    | some s' =>
      rw [he] at h1 hev
      simp only [Option.map_some] at h1
      rw [toOption_eq_some] at h1
      rw [h1]
      exact runTops_H conv st.pkgs r { st with schema := s', privateSchema := true } m
        (importsOK_imp st.pkgs p r st.schema s' hok he) hl hst hconv rfl hb sF m' hev

end ZCV.Conf
