import ZCV.Lemmas.LoadSpec
import ZCV.Lemmas.Include
import ZCV.Lemmas.TextLoadAux
import ZCV.Spec.Tree
/-!
From trees to TEXT: the loader reading lines (`Cfg.load`: parser model driving the loader context, includes and
defines included) returns what the tree-driven loader returns on the tree the same parser builds with the
structure-recording context (`Conf.treeOf`).
-/
namespace ZCV.Conf
open ZCV ZCV.Cfg

/-- the resources being read when the parse of the main text starts -/
def activeOf (url : Option Str) : List Str :=
  match url with | some u => if u == [] then [] else [u] | none => []

/-- what `load` does after the parse -/
def loadFin (conv : Conv) (schema : Schema) (ps : PS LS) : M LoadResult :=
  match ps.ctx.stack with
  | [top] => do
    let (v, hs) ← finishMatcher conv ps.ctx.schema top
    let v' ← match conv.sect schema.top.datatype v with
      | .ok r => pure r
      | .error e => throw (convFail e Option.none { line := -1, url := Option.none } "schema datatype")
    let hs' := match schema.handler with | some h => [(h, v')] | Option.none => []
    pure { value := v', handlers := ps.ctx.handlers ++ hs ++ hs', schemaAfter := ps.ctx.schema }
  | _ => throw (.internal "IndexError")

/-- what `loadTree` does after the items have been run -/
def treeFin (conv : Conv) (schema : Schema) (st : LS) : M Val :=
  match st.stack with
  | [top] =>
    match finishMatcher conv st.schema top with
    | .error e => .error e
    | .ok (v, _) =>
      match conv.sect schema.top.datatype v with
      | .ok r => .ok r
      | .error e => .error (convFail e none { line := -1, url := none } "schema datatype")
  | _ => .error (.internal "IndexError")

def loadSt0 (conv : Conv) (pkgs : Str → Pkg) (schema : Schema) : LS :=
  { schema := schema, privateSchema := false, handlers := [], stack := [newMatcher schema.top none none],
    pkgs := pkgs, conv := conv }

theorem load_nil_eq (conv : Conv) (env : Env) (pkgs : Str → Pkg) (s : Schema) (url : Option Str) (lines : List Str) :
    load conv env pkgs s url lines [] =
      parseLines 64 env loaderCtx (activeOf url) url lines 0 { ctx := loadSt0 conv pkgs s, stack := [], defs := [] } >>=
        loadFin conv s := rfl

theorem loadTree_eq (conv : Conv) (s : Schema) (items : List Item) :
    loadTree conv s items =
      runItems (loadSt0 conv (fun _ => .notImportable) s) items >>= treeFin conv s := by
  unfold loadTree
  show (match runItems (loadSt0 conv (fun _ => .notImportable) s) items with
    | .error e => (.error e : M Val)
    | .ok st => treeFin conv s st) = _
  cases runItems (loadSt0 conv (fun _ => .notImportable) s) items <;> rfl

theorem treeOf_eq (env : Env) (url : Option Str) (lines : List Str) :
    treeOf env url lines =
      parseLines 64 env treeCtx (activeOf url) url lines 0 { ctx := { stack := [([], none, [])] }, stack := [], defs := [] } >>=
        fun ps => match ps.ctx.stack with
          | [(_, _, items)] => pure items.reverse
          | _ => throw (.internal "IndexError") := rfl

/-- the two final phases agree on the value when they see the same top matcher and schema -/
theorem fin_agree (conv : Conv) (s : Schema) (ps : PS LS) (st : LS) (m : Matcher)
    (h1 : ps.ctx.stack = [m]) (h1s : ps.ctx.schema = s) (h2 : st.stack = [m]) (h2s : st.schema = s) :
    (loadFin conv s ps).toOption.map (·.value) = (treeFin conv s st).toOption := by
  unfold loadFin treeFin
  rw [h1, h2, h1s, h2s]
  simp only [bind, Except.bind, pure, Except.pure, throw, throwThe, MonadExceptOf.throw]
  cases finishMatcher conv s m with
  | error e => rfl
  | ok vh =>
    obtain ⟨v, hs⟩ := vh
    simp only
    cases conv.sect s.top.datatype v <;> rfl

/-- running a tree from the initial state does not depend on the package table -/
theorem runItems_st0 (conv : Conv) (pkgs pkgs' : Str → Pkg) (s : Schema) (items : List Item) :
    (∀ ls, runItems (loadSt0 conv pkgs s) items = .ok ls →
      ∃ m ls', runItems (loadSt0 conv pkgs' s) items = .ok ls' ∧ ls.stack = [m] ∧ ls.schema = s ∧
        ls'.stack = [m] ∧ ls'.schema = s) ∧
    (∀ e, runItems (loadSt0 conv pkgs s) items = .error e → ∃ e', runItems (loadSt0 conv pkgs' s) items = .error e') := by
  have h1 := runItems_eval conv s items (loadSt0 conv pkgs s) (newMatcher s.top none none) [] rfl rfl rfl rfl
  have h2 := runItems_eval conv s items (loadSt0 conv pkgs' s) (newMatcher s.top none none) [] rfl rfl rfl rfl
  cases hev : evalItems conv s (newMatcher s.top none none) items with
  | error e =>
    rw [hev] at h1 h2
    obtain ⟨e1, he1⟩ := h1
    obtain ⟨e2, he2⟩ := h2
    refine ⟨?_, ?_⟩
    · intro ls hls; rw [he1] at hls; cases hls
    · intro _ _; exact ⟨e2, he2⟩
  | ok m' =>
    rw [hev] at h1 h2
    obtain ⟨_, hs1, hr1⟩ := h1
    obtain ⟨_, hs2, hr2⟩ := h2
    refine ⟨?_, ?_⟩
    · intro ls hls
      rw [hr1] at hls
      cases hls
      exact ⟨m', _, hr2, rfl, rfl, rfl, rfl⟩
    · intro e he; rw [hr1] at he; cases he

/-- **Context genericity.** For a text without `%import` (here and in everything it can include) and without overrides:
    loading the lines = building the tree of the lines, then loading the tree. -/
theorem load_eq_loadTree (conv : Conv) (env : Env) (pkgs : Str → Pkg) (s : Schema) (url : Option Str) (lines : List Str)
    (hni : ∀ l ∈ lines, NoImportLine l)
    (hres : ∀ u ls, env.res u = some ls → ∀ l ∈ ls, NoImportLine l) :
    (load conv env pkgs s url lines []).toOption.map (·.value) =
      (treeOf env url lines).toOption.bind (fun items => (loadTree conv s items).toOption) := by
  have hsim := parse_sim loaderCtx treeCtx (R (loadSt0 conv pkgs s)) (D (loadSt0 conv pkgs s))
    (loaderSim (loadSt0 conv pkgs s)) env hres 64 (activeOf url) url lines 0
    { ctx := loadSt0 conv pkgs s, stack := [], defs := [] }
    { ctx := { stack := [([], none, [])] }, stack := [], defs := [] } [] hni
    ⟨rfl, rfl, by
      refine ⟨?_, ⟨_, rfl⟩, rfl⟩
      show runItems (loadSt0 conv pkgs s) [] = _
      rw [runItems]⟩
  rw [load_nil_eq, treeOf_eq, toOption_bind, toOption_bind]
  cases hL : parseLines 64 env loaderCtx (activeOf url) url lines 0 { ctx := loadSt0 conv pkgs s, stack := [], defs := [] } with
  | ok psL =>
    rw [hL] at hsim
    obtain ⟨psT, hT, ⟨_, _, hrep, _, hlen⟩, _⟩ := hsim
    rw [hT]
    simp only [toOption_ok, Option.bind_some]
    cases hstk : psT.ctx.stack with
    | nil => rw [hstk] at hrep; exact absurd rfl (replay_ok_ne _ _ _ hrep)
    | cons x rest =>
      obtain ⟨ty0, nm0, its⟩ := x
      cases rest with
      | nil =>
        rw [hstk] at hrep
        rw [replay] at hrep
        obtain ⟨m, ls', hrun', hs1, hs1s, hs2, hs2s⟩ := (runItems_st0 conv pkgs (fun _ => .notImportable) s its.reverse).1 _ hrep
        simp only [pure, Except.pure, toOption_ok, Option.bind_some]
        rw [loadTree_eq, hrun']
        exact fin_agree conv s psL ls' m hs1 hs1s hs2 hs2s
      | cons y rest =>
        rw [hstk] at hlen
        have hne : ∀ top, psL.ctx.stack ≠ [top] := by
          intro top ht
          rw [ht] at hlen
          simp at hlen
        unfold loadFin
        split
        · rename_i top ht
          exact absurd ht (hne top)
        · rfl
  | error e =>
    rw [hL] at hsim
    simp only [toOption_error, Option.bind_none, Option.map_none]
    cases hT : parseLines 64 env treeCtx (activeOf url) url lines 0 { ctx := { stack := [([], none, [])] }, stack := [], defs := [] } with
    | error e' => rfl
    | ok psT =>
      have hd : D (loadSt0 conv pkgs s) psT.ctx := hsim psT (by rw [hT]; rfl)
      obtain ⟨_, e1, he1⟩ := hd
      simp only [toOption_ok, Option.bind_some]
      split
      · rename_i ty0 nm0 its hstk
        rw [hstk, replay] at he1
        obtain ⟨e2, he2⟩ := (runItems_st0 conv pkgs (fun _ => .notImportable) s its.reverse).2 _ he1
        simp only [pure, Except.pure, toOption_ok, Option.bind_some]
        rw [loadTree_eq, he2]
        rfl
      · rfl

/-! ### section types in the tree are spelled as the schema stores them -/

/-- the header type `ty` is the stored name of the type it denotes -/
def hdrOK (s : Schema) (ty : Str) : Bool :=
  match s.gettype ty with
  | some (.concrete t) => t.name == some ty
  | some (.abstract_ n _) => n == ty
  | none => true

theorem tyCanon_cons (s : Schema) (i : Item) (l : List Item) : tyCanon s (i :: l) = (tyCanon s [i] && tyCanon s l) := by
  cases i with
  | kv k v p => simp [tyCanon]
  | sect ty nm items => simp [tyCanon]

theorem tyCanon_append (s : Schema) (a b : List Item) : tyCanon s (a ++ b) = (tyCanon s a && tyCanon s b) := by
  induction a with
  | nil => simp [tyCanon]
  | cons i a ih => rw [List.cons_append, tyCanon_cons, ih, tyCanon_cons s i a, Bool.and_assoc]

theorem tyCanon_reverse (s : Schema) (l : List Item) : tyCanon s l.reverse = tyCanon s l := by
  induction l with
  | nil => rfl
  | cons i l ih => rw [List.reverse_cons, tyCanon_append, ih, tyCanon_cons s i l, Bool.and_comm]

theorem tyCanon_nil (s : Schema) : tyCanon s [] = true := by rw [tyCanon]

theorem tyCanon_sect (s : Schema) (ty : Str) (nm : Option Str) (items r : List Item) :
    tyCanon s (.sect ty nm items :: r) = (hdrOK s ty && tyCanon s items && tyCanon s r) := by
  rw [tyCanon]; rfl

/-- every recorded item list is canonical, and so is the type of every open section (the outermost entry is the
    document itself) -/
def TBok (s : Schema) : List (Str × Option Str × List Item) → Prop
  | [] => False
  | [(_, _, items)] => tyCanon s items = true
  | (ty, _, items) :: y :: rest => hdrOK s ty = true ∧ tyCanon s items = true ∧ TBok s (y :: rest)

theorem hdrOK_lower (s : Schema) (hs : schemaOK s = true) (hlow : ∀ x : Str, lower (lower x) = lower x) (ty0 : Str) :
    hdrOK s (lower ty0) = true := by
  unfold hdrOK Schema.gettype
  rw [hlow]
  cases hf : s.types.find? (fun x => x.1 == lower ty0) with
  | none => rfl
  | some p =>
    have hp1 : p.1 = lower ty0 := by simpa using List.find?_some hf
    have hmem : p ∈ s.types := List.mem_of_find?_eq_some hf
    unfold schemaOK at hs
    simp only [Bool.and_eq_true, List.all_eq_true] at hs
    have := hs.2 p hmem
    obtain ⟨n, te⟩ := p
    simp only at hp1
    subst hp1
    cases te with
    | concrete t =>
      simp only [Bool.and_eq_true] at this
      simpa using this.1
    | abstract_ n' subs =>
      simpa using this

theorem tbokInv (s : Schema) (hs : schemaOK s = true) (hlow : ∀ x : Str, lower (lower x) = lower x) :
    CtxInv treeCtx (fun _ tb => TBok s tb.stack) where
  start := by
    intro _ a ty0 nm a' hj h
    cases h
    show TBok s ((lower ty0, nm, []) :: a.stack)
    cases hst : a.stack with
    | nil => rw [hst] at hj; exact absurd hj (by simp [TBok])
    | cons y rest =>
      rw [hst] at hj
      rw [TBok]
      exact ⟨hdrOK_lower s hs hlow ty0, tyCanon_nil s, hj⟩
  stop := by
    intro _ a ty nm a' hj h
    change tbStop a ty nm = .ok a' at h
    unfold tbStop at h
    split at h
    · rename_i ty1 nm1 items pty pnm pitems rest hst
      cases h
      rw [hst, TBok] at hj
      obtain ⟨h1, h2, h3⟩ := hj
      show TBok s ((pty, pnm, Item.sect ty1 nm1 items.reverse :: pitems) :: rest)
      cases rest with
      | nil =>
        rw [TBok] at h3 ⊢
        rw [tyCanon_sect, h1, tyCanon_reverse, h2, h3]; rfl
      | cons z rest =>
        rw [TBok] at h3 ⊢
        refine ⟨h3.1, ?_, h3.2.2⟩
        rw [tyCanon_sect, h1, tyCanon_reverse, h2, h3.2.1]; rfl
    · cases h
  value := by
    intro _ a k v p a' hj h
    change tbValue a k v p = .ok a' at h
    unfold tbValue at h
    split at h
    · rename_i ty1 nm1 items rest hst
      cases h
      rw [hst] at hj
      show TBok s ((ty1, nm1, Item.kv k v p :: items) :: rest)
      cases rest with
      | nil =>
        rw [TBok] at hj ⊢
        rw [tyCanon]; exact hj
      | cons z rest =>
        rw [TBok] at hj ⊢
        refine ⟨hj.1, ?_, hj.2.2⟩
        rw [tyCanon]; exact hj.2.1
    · cases h
  imp := by
    intro _ a pkg a' _ h
    cases h

/-- the trees the parser builds spell section types the way the schema stores them, given that lower-casing is idempotent
    (a fact about the generated Unicode table, checked by the translator when it writes the table) -/
theorem treeOf_tyCanon (env : Env) (url : Option Str) (lines : List Str) (s : Schema) (items : List Item)
    (hs : schemaOK s = true) (hlow : ∀ x : Str, lower (lower x) = lower x)
    (hkeys : ∀ p ∈ s.types, lower p.1 = p.1)
    (h : treeOf env url lines = .ok items) : tyCanon s items = true := by
  rw [treeOf_eq] at h
  obtain ⟨ps, hps, h⟩ := bind_ok_inv h
  have hinv := parse_inv treeCtx (fun _ tb => TBok s tb.stack) (tbokInv s hs hlow) env 64 (activeOf url) url lines 0 _ ps []
    (by show TBok s [([], none, [])]; rw [TBok]; exact tyCanon_nil s) hps
  split at h
  · rename_i ty0 nm0 its hstk
    cases h
    rw [hstk, TBok] at hinv
    rw [tyCanon_reverse]
    exact hinv
  · cases h

end ZCV.Conf
