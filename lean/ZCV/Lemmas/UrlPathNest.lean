import ZCV.Lemmas.UrlPathNormal
/-! Nested joining at URL level: the second join starts from exactly the URL of the resolved path. -/
namespace ZCV.UrlPath
open ZCV
open ZCV.UrlPathSpec (step normalize resolve isName render segments absDir relFileRef)

/-- a rendered path with at least one name is "directory + / + file" again -/
theorem up_render_split (N : List Str) (l : Str) (hN : ∀ n ∈ N, '/' ∉ n) :
    ∃ dir', absDir dir' ∧ render (N ++ [l]) = dir' ++ '/' :: l ∧ ∀ X, resolve (segments dir') X = resolve N X := by
  cases N with
  | nil =>
    refine ⟨[], Or.inl rfl, rfl, ?_⟩
    intro X
    show resolve [[]] X = resolve [] X
    exact up_resolve_nil_cons [] X
  | cons a t =>
    refine ⟨'/' :: joinWith '/' (a :: t), Or.inr rfl, ?_, ?_⟩
    · unfold render
      rw [up_unsegments_eq, up_joinWith_concat '/' _ _ (by simp)]
      rfl
    · intro X
      rw [up_segments_eq, up_splitOn_cons_sep, up_splitOn_joinWith '/' _ (by simp) hN]
      exact up_resolve_nil_cons _ X

/-- **nested joining, URL level**: joining `r2` to the result of joining `r1` gives exactly the URL of the path obtained by
    resolving `r2` against the base directory followed by the directory part of `r1` — nothing is quoted twice -/
theorem up_join_nested_url (dir file r1 r2 : Str) (hd : absDir dir) (hf : '/' ∉ file) (hr1 : relFileRef r1)
    (hr2 : relFileRef r2) :
    join (join (pathToUrl (dir ++ '/' :: file)) (quote r1)) (quote r2) =
      pathToUrl (render (resolve (segments dir ++ (segments r1).dropLast) (segments r2))) := by
  obtain ⟨r1init, l1, hsp1, hl1, hseg1⟩ := up_ref_decompose r1 hr1
  rw [up_join_is_pathToUrl dir file r1 hd hf hr1, hseg1, up_resolve_name_last _ _ _ hl1, List.dropLast_concat]
  have hN : ∀ n ∈ resolve (segments dir) r1init, '/' ∉ n := by
    intro n hn
    have hmem := (up_normalize_names _ n hn).1
    simp only [List.mem_append] at hmem
    rcases hmem with hmem | hmem
    · rw [up_segments_eq] at hmem
      exact up_splitOn_pieces '/' dir n hmem
    · exact up_splitOn_pieces '/' r1 n (by rw [hsp1]; simp [hmem])
  obtain ⟨dir', hd', hrender, hres⟩ := up_render_split (resolve (segments dir) r1init) l1 hN
  have hl1s : '/' ∉ l1 := up_splitOn_pieces '/' r1 l1 (by rw [hsp1]; simp)
  have e : resolve (resolve (segments dir) r1init) (segments r2) = resolve (segments dir ++ r1init) (segments r2) :=
    up_resolve_normalize (segments dir ++ r1init) (segments r2)
  rw [hrender, up_join_is_pathToUrl dir' l1 r2 hd' hl1s hr2, hres, e]

end ZCV.UrlPath
