import ZCV.Model.Matcher
/-! Generic lemmas about `List.mapM` / `foldlM` in `Except`. -/
namespace ZCV

theorem mapM_ok_cons {ε α β} (f : α → Except ε β) (a : α) (l : List α) (r : List β)
    (h : (a :: l).mapM f = .ok r) : ∃ b bs, f a = .ok b ∧ l.mapM f = .ok bs ∧ r = b :: bs := by
  rw [List.mapM_cons] at h
  cases hfa : f a with
  | error e => simp [hfa, bind, Except.bind] at h
  | ok b =>
    cases hl : l.mapM f with
    | error e => simp [hfa, hl, bind, Except.bind] at h
    | ok bs =>
      simp [hfa, hl, bind, Except.bind, pure, Except.pure] at h
      exact ⟨b, bs, rfl, rfl, h.symm⟩

theorem mapM_ok_map {ε α β γ} (f : α → Except ε β) (p : β → γ) (g : α → γ)
    (hf : ∀ a b, f a = .ok b → p b = g a) :
    ∀ (l : List α) (r : List β), l.mapM f = .ok r → r.map p = l.map g := by
  intro l
  induction l with
  | nil => intro r h; simp [pure, Except.pure] at h; subst h; rfl
  | cons a l ih =>
    intro r h
    obtain ⟨b, bs, h1, h2, h3⟩ := mapM_ok_cons f a l r h
    subst h3
    simp [hf a b h1, ih bs h2]

theorem mapM_ok_length {ε α β} (f : α → Except ε β) :
    ∀ (l : List α) (r : List β), l.mapM f = .ok r → r.length = l.length := by
  intro l
  induction l with
  | nil => intro r h; simp [pure, Except.pure] at h; subst h; rfl
  | cons a l ih =>
    intro r h
    obtain ⟨b, bs, _, h2, h3⟩ := mapM_ok_cons f a l r h
    subst h3; simp [ih bs h2]

end ZCV
