import ZCV.Lemmas.Regex
import ZCV.Lemmas.RegexAll
import ZCV.Lemmas.Chars
import ZCV.Model.Datatypes
import ZCV.Spec.Datatypes
/-! The stock datatype conversions (model, through the generated patterns and tables) against their documented contracts. -/
namespace ZCV.DT
open ZCV ZCV.Rx

theorem basicKey_eq_spec (s : Str) : basicKey s = DTSpec.basicKey s := by
  sorry

theorem identifier_eq_spec (s : Str) : identifier s = DTSpec.identifier s := by
  sorry

theorem dottedName_eq_spec (s : Str) : dottedName s = DTSpec.dottedName s := by
  sorry

theorem dottedSuffix_eq_spec (s : Str) : dottedSuffix s = DTSpec.dottedSuffix s := by
  sorry

theorem asBoolean_eq_spec (s : Str) : asBoolean s = DTSpec.boolean s := by
  sorry

theorem portNumber_eq_spec (s : Str) : portNumber s = DTSpec.portNumber s := by
  sorry

theorem byteSize_eq_spec (s : Str) : byteSize s = DTSpec.byteSize s := by
  sorry

theorem timeInterval_eq_spec (s : Str) : timeInterval s = DTSpec.timeInterval s := by
  sorry

theorem inetAddress_eq_spec (d s : Str) : inetAddress d s = DTSpec.inetAddress d s := by
  sorry

theorem socketAddress_eq_spec (d s : Str) :
    (socketAddress d s).map (fun p => (String.ofList (ZCV.DT.familyStr p.1), p.2)) = DTSpec.socketFamily d s := by
  sorry

/-- converters used to normalise keys are idempotent -/
theorem basicKey_idempotent (s r : Str) (h : basicKey s = .ok r) : basicKey r = .ok r := by
  sorry

theorem identifier_idempotent (s r : Str) (h : identifier s = .ok r) : identifier r = .ok r := by
  sorry

end ZCV.DT
