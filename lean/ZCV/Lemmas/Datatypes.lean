import ZCV.Lemmas.Regex
import ZCV.Lemmas.RegexAll
import ZCV.Lemmas.Chars
import ZCV.Model.Datatypes
import ZCV.Spec.Datatypes
/-! The stock datatype conversions (model, through the generated patterns and tables) against their documented contracts. -/
namespace ZCV.DT
open ZCV ZCV.Rx

/-! ## tables and bounds -/

theorem boolTrue_val : Gen.boolTrue = ["on".toList, "true".toList, "yes".toList] := rfl
theorem boolFalse_val : Gen.boolFalse = ["false".toList, "no".toList, "off".toList] := rfl

theorem asBoolean_eq_spec (s : Str) : asBoolean s = DTSpec.boolean s := by
  unfold asBoolean DTSpec.boolean
  rw [boolTrue_val, boolFalse_val]
  simp only [List.contains_cons, List.contains_nil, Bool.or_false, Bool.or_assoc]

theorem portMin_val : Gen.portMin = some 0 := rfl
theorem portMax_val : Gen.portMax = some 65535 := rfl

theorem portNumber_eq_spec (s : Str) : portNumber s = DTSpec.portNumber s := by
  unfold portNumber DTSpec.portNumber rangeChecked integer
  rw [portMin_val, portMax_val]
  cases pyInt s with
  | none => rfl
  | some n =>
    simp only [bind, Except.bind, pure, Except.pure, throw, throwThe, MonadExceptOf.throw]
    by_cases h1 : n < 0
    · simp [h1]; intro; omega
    · by_cases h2 : n > 65535
      · simp [h1, h2]
      · simp [h1, h2]

theorem integer_eq (v : Str) : integer v = DTSpec.integer v := rfl

theorem map_mul_one (r : R Int) : r.map (· * 1) = r := by
  cases r <;> simp [Except.map]
theorem map_id' (r : R Int) : r.map (fun x => x) = r := by
  cases r <;> simp [Except.map]

theorem byteSizeTbl_val : Gen.byteSizeTbl = [("gb".toList, 1024*1024*1024), ("kb".toList, 1024), ("mb".toList, 1024*1024)] := rfl
theorem timeIntervalTbl_val : Gen.timeIntervalTbl = [("d".toList, 86400), ("h".toList, 3600), ("m".toList, 60), ("s".toList, 1)] := rfl

theorem byteSize_eq_spec (s : Str) : byteSize s = DTSpec.byteSize s := by
  unfold byteSize DTSpec.byteSize suffixMult DTSpec.suffixed
  rw [byteSizeTbl_val]
  show (match suffixLoop (lower s) 2 _ with | some r => r | none => (integer (lower s)).map (· * 1)) = _
  simp only [suffixLoop, sufN, preN, (by decide : (2 : Nat) ≠ 0), ↓reduceIte, List.find?_cons, List.find?_nil, map_mul_one, integer_eq]
  generalize lastN (lower s) 2 = x
  by_cases h1 : x = ['k', 'b']
  · simp [h1]
  by_cases h2 : x = ['m', 'b']
  · simp [h2]
  by_cases h3 : x = ['g', 'b']
  · simp [h3]
  have e1 : (x == ['k', 'b']) = false := by simpa using h1
  have e2 : (x == ['m', 'b']) = false := by simpa using h2
  have e3 : (x == ['g', 'b']) = false := by simpa using h3
  simp [e1, e2, e3]

theorem timeInterval_eq_spec (s : Str) : timeInterval s = DTSpec.timeInterval s := by
  unfold timeInterval DTSpec.timeInterval suffixMult DTSpec.suffixed
  rw [timeIntervalTbl_val]
  show (match suffixLoop (lower s) 1 _ with | some r => r | none => (integer (lower s)).map (· * 1)) = _
  simp only [suffixLoop, sufN, preN, (by decide : (1 : Nat) ≠ 0), ↓reduceIte, List.find?_cons, List.find?_nil, map_mul_one, integer_eq]
  generalize lastN (lower s) 1 = x
  by_cases h1 : x = ['s']
  · simp [h1, map_id']
  by_cases h2 : x = ['m']
  · simp [h2]
  by_cases h3 : x = ['h']
  · simp [h3]
  by_cases h4 : x = ['d']
  · simp [h4]
  have e1 : (x == ['s']) = false := by simpa using h1
  have e2 : (x == ['m']) = false := by simpa using h2
  have e3 : (x == ['h']) = false := by simpa using h3
  have e4 : (x == ['d']) = false := by simpa using h4
  simp [e1, e2, e3, e4]

/-! ## `[k1][k2]*` patterns -/

theorem dropWhile_nil_all (p : Char → Bool) (t : Str) : (t.dropWhile p == []) = t.all p := by
  induction t with
  | nil => simp
  | cons c t ih =>
    simp only [List.dropWhile_cons, List.all_cons]
    by_cases hc : p c <;> simp [hc, ih]

theorem matchesWhole_cls_star (k1 k2 : Cls) (s : Str) :
    matchesWhole (.seq (.cls k1) (.star (.cls k2))) s =
      match s with
      | c :: t => k1.test c && t.all k2.test
      | [] => false := by
  unfold matchesWhole pyMatch
  rw [cls_star_head _ k1 k2 [] _ s (Nat.le_refl _)]
  cases s with
  | nil => rfl
  | cons c t =>
    by_cases hc : k1.test c
    · simp only [hc, ↓reduceIte, Bool.true_and]; exact dropWhile_nil_all _ _
    · simp [hc]

def identK1 : Cls := ⟨false, [.range 65 90, .range 95 95, .range 97 122]⟩
def identK2 : Cls := ⟨false, [.range 48 57, .range 65 90, .range 95 95, .range 97 122]⟩
def keyK1 : Cls := ⟨false, [.range 65 90, .range 97 122]⟩
def keyK2 : Cls := ⟨false, [.range 45 46, .range 48 57, .range 65 90, .range 95 95, .range 97 122]⟩

theorem identifierRx_shape : Gen.identifierRx = .seq (.cls identK1) (.star (.cls identK2)) := rfl
theorem basicKeyRx_shape : Gen.basicKeyRx = .seq (.cls keyK1) (.star (.cls keyK2)) := rfl

theorem identK1_test (c : Char) : identK1.test c = DTSpec.isIdentStart c := by
  unfold identK1 DTSpec.isIdentStart; cls_arith
theorem identK2_test (c : Char) : identK2.test c = DTSpec.isIdentChar c := by
  unfold identK2 DTSpec.isIdentChar; cls_arith
theorem keyK1_test (c : Char) : keyK1.test c = isAsciiLetter c := by
  unfold keyK1; cls_arith
theorem keyK2_test (c : Char) : keyK2.test c = DTSpec.isKeyChar c := by
  unfold keyK2 DTSpec.isKeyChar; cls_arith

theorem identifier_matches (s : Str) : matchesWhole Gen.identifierRx s = DTSpec.isIdent s := by
  rw [identifierRx_shape, matchesWhole_cls_star]
  cases s with
  | nil => rfl
  | cons c t =>
    simp only [DTSpec.isIdent, identK1_test]
    rw [show identK2.test = DTSpec.isIdentChar from funext identK2_test]

theorem basicKey_matches (s : Str) : matchesWhole Gen.basicKeyRx s = DTSpec.isBasicKey s := by
  rw [basicKeyRx_shape, matchesWhole_cls_star]
  cases s with
  | nil => rfl
  | cons c t =>
    simp only [DTSpec.isBasicKey, keyK1_test]
    rw [show keyK2.test = DTSpec.isKeyChar from funext keyK2_test]

theorem identifier_eq_spec (s : Str) : identifier s = DTSpec.identifier s := by
  unfold identifier DTSpec.identifier regexConv
  rw [identifier_matches]

theorem isKeyChar_ascii (c : Char) (h : DTSpec.isKeyChar c = true) : c.toNat < 128 := by
  revert h
  simp only [DTSpec.isKeyChar, isAsciiLetter, isAsciiDigit, inRange, ceq, Char.reduceToNat]
  generalize c.toNat = n
  simp
  omega

theorem lower_ascii (s : Str) (h : ∀ c ∈ s, c.toNat < 128) : lower s = asciiLower s := by
  unfold lower asciiLower
  apply List.map_congr_left
  intro c hc
  simp [lowerChar, h c hc]

theorem isAsciiLetter_keyChar (c : Char) (h : isAsciiLetter c = true) : DTSpec.isKeyChar c = true := by
  simp [DTSpec.isKeyChar, h]

theorem basicKey_chars (s : Str) (h : DTSpec.isBasicKey s = true) : ∀ c ∈ s, DTSpec.isKeyChar c = true := by
  cases s with
  | nil => simp
  | cons c t =>
    simp only [DTSpec.isBasicKey, Bool.and_eq_true, List.all_eq_true] at h
    intro d hd
    simp only [List.mem_cons] at hd
    rcases hd with rfl | hd
    · exact isAsciiLetter_keyChar _ h.1
    · exact h.2 d hd

theorem basicKey_eq_spec (s : Str) : basicKey s = DTSpec.basicKey s := by
  unfold basicKey DTSpec.basicKey regexConv
  rw [basicKey_matches]
  by_cases h : DTSpec.isBasicKey s
  · simp only [h, ↓reduceIte, Except.map]
    rw [lower_ascii s (fun c hc => isKeyChar_ascii c (basicKey_chars s h c hc))]
  · simp [h, Except.map]

/-! ## idempotence -/

theorem toNat_ofNat_small (n : Nat) (h : n < 55296) : (Char.ofNat n).toNat = n := by
  have hv : n.isValidChar := Or.inl h
  unfold Char.ofNat
  rw [dif_pos hv]
  simp [Char.ofNatAux, Char.toNat]

theorem char_le_toNat (a b : Char) : a ≤ b ↔ a.toNat ≤ b.toNat := by
  rw [Char.le_def, UInt32.le_iff_toNat_le]; rfl

theorem asciiLowerChar_toNat (c : Char) :
    (asciiLowerChar c).toNat = if 65 ≤ c.toNat ∧ c.toNat ≤ 90 then c.toNat + 32 else c.toNat := by
  unfold asciiLowerChar
  simp only [char_le_toNat, Char.reduceToNat]
  split
  · rw [toNat_ofNat_small]; omega
  · rfl

theorem char_ext (a b : Char) (h : a.toNat = b.toNat) : a = b := by
  rw [← Char.ofNat_toNat a, ← Char.ofNat_toNat b, h]

theorem asciiLowerChar_idem (c : Char) : asciiLowerChar (asciiLowerChar c) = asciiLowerChar c := by
  apply char_ext
  rw [asciiLowerChar_toNat, asciiLowerChar_toNat]
  repeat' split
  all_goals omega

theorem isAsciiLetter_lower (c : Char) : isAsciiLetter (asciiLowerChar c) = isAsciiLetter c := by
  simp only [isAsciiLetter, inRange, asciiLowerChar_toNat, Char.reduceToNat]
  rw [Bool.eq_iff_iff]
  split <;> simp <;> omega

theorem isKeyChar_lower (c : Char) : DTSpec.isKeyChar (asciiLowerChar c) = DTSpec.isKeyChar c := by
  simp only [DTSpec.isKeyChar, isAsciiLetter, isAsciiDigit, inRange, ceq, asciiLowerChar_toNat, Char.reduceToNat]
  rw [Bool.eq_iff_iff]
  split <;> simp <;> omega

theorem isBasicKey_lower (s : Str) : DTSpec.isBasicKey (asciiLower s) = DTSpec.isBasicKey s := by
  cases s with
  | nil => rfl
  | cons c t =>
    simp only [asciiLower, List.map_cons, DTSpec.isBasicKey, isAsciiLetter_lower, List.all_map]
    congr 2
    funext d
    simp [isKeyChar_lower]

theorem asciiLower_idem (s : Str) : asciiLower (asciiLower s) = asciiLower s := by
  simp [asciiLower, asciiLowerChar_idem]

/-- converters used to normalise keys are idempotent -/
theorem basicKey_idempotent (s r : Str) (h : basicKey s = .ok r) : basicKey r = .ok r := by
  rw [basicKey_eq_spec] at h
  rw [basicKey_eq_spec]
  unfold DTSpec.basicKey at h ⊢
  split at h
  · rename_i hk
    injection h with h; subst h
    rw [isBasicKey_lower, if_pos hk, asciiLower_idem]
  · cases h

theorem identifier_idempotent (s r : Str) (h : identifier s = .ok r) : identifier r = .ok r := by
  unfold identifier regexConv at h ⊢
  split at h
  · rename_i hm; injection h with h; subst h; rw [if_pos hm]
  · cases h

/-! ## addresses -/

theorem spec_portNumber_err (p : Str) (e : ConvErr) (h : DTSpec.portNumber p = .error e) : e = .valueError := by
  unfold DTSpec.portNumber at h
  split at h
  · split at h
    · cases h
    · injection h with h; exact h.symm
  · injection h with h; exact h.symm

theorem inetAddress_eq_spec (d s : Str) : inetAddress d s = DTSpec.inetAddress d s := by
  unfold inetAddress DTSpec.inetAddress
  simp only [portNumber_eq_spec]
  by_cases hc : s.contains ':'
  · simp only [hc, ↓reduceIte]
    generalize rsplit1 s ':' = hp
    obtain ⟨h, p⟩ := hp
    simp only
    by_cases hb : (startsWith h ['['] && endsWith h [']']) = true
    · simp only [hb, ↓reduceIte]
      by_cases hp : p = []
      · subst hp; simp [bind, Except.bind, pure, Except.pure]
      · have : (p != []) = true := by simpa using hp
        have h2 : (p == []) = false := by simpa using hp
        simp only [this, h2, ↓reduceIte]
        cases DTSpec.portNumber p <;> simp [bind, Except.bind, pure, Except.pure, Except.map]
    · simp only [hb]
      by_cases hh : h.contains ':'
      · have hh' : ':' ∈ h := by simpa using hh
        simp [hh', bind, Except.bind, pure, Except.pure]
      · simp only [hh]
        by_cases hp : p = []
        · subst hp; simp [bind, Except.bind, pure, Except.pure]
        · have h2 : (p == []) = false := by simpa using hp
          simp only [h2]
          cases hpn : DTSpec.portNumber p <;> simp [hp, hpn, bind, Except.bind, pure, Except.pure, Except.map]
  · simp only [hc]
    cases hpn : DTSpec.portNumber s with
    | ok n => simp [bind, Except.bind, pure, Except.pure]
    | error e =>
      have := spec_portNumber_err s e hpn
      subst this
      by_cases hl : (splitWS s).length = 1
      · simp [hl, bind, Except.bind, pure, Except.pure]
      · simp [hl, bind, Except.bind, throw, throwThe, MonadExceptOf.throw]

theorem familyStr_unix : String.ofList (familyStr .unix) = "AF_UNIX" := by decide
theorem familyStr_inet : String.ofList (familyStr .inet) = "AF_INET" := by decide
theorem familyStr_inet6 : String.ofList (familyStr .inet6) = "AF_INET6" := by decide

theorem socketAddress_eq_spec (d s : Str) :
    (socketAddress d s).map (fun p => (String.ofList (ZCV.DT.familyStr p.1), p.2)) = DTSpec.socketFamily d s := by
  unfold socketAddress DTSpec.socketFamily
  rw [inetAddress_eq_spec]
  by_cases hc : s.contains '/'
  · simp only [hc, ↓reduceIte, Except.map, familyStr_unix]
  · simp only [hc]
    cases DTSpec.inetAddress d s with
    | error e => rfl
    | ok a =>
      simp only [bind, Except.bind, pure, Except.pure, Except.map]
      simp
      split
      · exact familyStr_inet6
      · exact familyStr_inet

/-! ## dotted names -/

def dotK : Cls := ⟨false, [.range 46 46]⟩
theorem dotK_test (c : Char) : dotK.test c = (c == '.') := by
  unfold dotK; cls_arith

/-- `\.[_a-zA-Z][_a-zA-Z0-9]*` -/
def dotPart : RE := .seq (.cls dotK) (.seq (.cls identK1) (.star (.cls identK2)))

theorem dottedNameRx_shape :
    Gen.dottedNameRx = .seq (.cls identK1) (.seq (.star (.cls identK2)) (.star dotPart)) := rfl
theorem dottedSuffixRx_shape :
    Gen.dottedSuffixRx = .alt (.seq (.cls identK1) (.seq (.star (.cls identK2)) (.star dotPart)))
      (.seq dotPart (.star dotPart)) := rfl

/-- the dotted-name acceptor as a two-state scanner: `true` = an identifier must start here,
    `false` = inside an identifier -/
def scan : Bool → Str → Bool
  | true, [] => false
  | true, c :: t => DTSpec.isIdentStart c && scan false t
  | false, [] => true
  | false, c :: t =>
    if DTSpec.isIdentChar c then scan false t else if c == '.' then scan true t else false

/-- what must hold of the text left after an identifier -/
def acc : Str → Bool
  | [] => true
  | c :: t => if c == '.' then scan true t else false

theorem identChar_not_dot (c : Char) (h : DTSpec.isIdentChar c = true) : (c == '.') = false := by
  revert h
  simp only [DTSpec.isIdentChar, isAsciiLetter, isAsciiDigit, inRange, ceq, Char.reduceToNat]
  generalize c.toNat = n
  simp
  omega

theorem identStart_identChar (c : Char) (h : DTSpec.isIdentStart c = true) : DTSpec.isIdentChar c = true := by
  revert h
  simp only [DTSpec.isIdentStart, DTSpec.isIdentChar, isAsciiLetter, isAsciiDigit, inRange, ceq, Char.reduceToNat]
  generalize c.toNat = n
  simp
  omega

theorem scan_false_acc (t : Str) : scan false t = acc (t.dropWhile identK2.test) := by
  induction t with
  | nil => rfl
  | cons c t ih =>
    simp only [scan, List.dropWhile_cons, identK2_test]
    by_cases hc : DTSpec.isIdentChar c
    · simp only [hc, ↓reduceIte, ih]
    · simp only [hc, acc]; rfl

/-- the contract, computed by the scanner -/
theorem splitDots_scan (t : Str) :
    ∃ w ws, DTSpec.splitDots t = w :: ws ∧
      scan true t = (DTSpec.isIdent w && ws.all DTSpec.isIdent) ∧
      scan false t = (w.all DTSpec.isIdentChar && ws.all DTSpec.isIdent) := by
  induction t with
  | nil => exact ⟨[], [], rfl, rfl, rfl⟩
  | cons c t ih =>
    obtain ⟨w, ws, h0, hA, hB⟩ := ih
    by_cases hd : c = '.'
    · subst hd
      refine ⟨[], w :: ws, by simp [DTSpec.splitDots, h0], ?_, ?_⟩
      · simp [scan, DTSpec.isIdent, DTSpec.isIdentStart, isAsciiLetter, inRange]
      · have : DTSpec.isIdentChar '.' = false := by decide
        simp [scan, this, hA]
    · have hd' : (c == '.') = false := by simpa using hd
      refine ⟨c :: w, ws, by simp [DTSpec.splitDots, h0, hd], ?_, ?_⟩
      · simp [scan, DTSpec.isIdent, hB, Bool.and_assoc]
      · simp only [scan, hd', List.all_cons, hB]
        by_cases hc : DTSpec.isIdentChar c <;> simp [hc]

theorem isDottedName_scan (s : Str) : DTSpec.isDottedName s = scan true s := by
  obtain ⟨w, ws, h0, hA, _⟩ := splitDots_scan s
  simp [DTSpec.isDottedName, h0, hA]

theorem head_filter {α} {l : List α} {p : α → Bool} {x : α} (h : l.head? = some x) (hp : p x = true) :
    (l.filter p).head? = some x := by
  cases l with
  | nil => simp at h
  | cons a as => simp at h; subst h; simp [hp]

theorem dotPart_head (w f : Nat) (cs : Caps) (c : Char) (t : Str) (hc : DTSpec.isIdentStart c = true)
    (hf : (c :: t).length ≤ f) :
    (m w dotPart f ('.' :: c :: t, cs)).head? = some (t.dropWhile identK2.test, cs) := by
  unfold dotPart
  rw [m]
  refine head_flatMap (x := (c :: t, cs)) (by simp [m, dotK_test]) ?_
  rw [cls_star_head w identK1 identK2 cs f (c :: t) hf]
  simp [identK1_test, hc]

theorem dotPart_nil_of_not_dot (w f : Nat) (cs : Caps) (c : Char) (t : Str) (hc : (c == '.') = false) :
    m w dotPart f (c :: t, cs) = [] := by
  simp [dotPart, m, dotK_test, hc]

theorem dotPart_nil_of_not_start (w f : Nat) (cs : Caps) (c : Char) (t : Str) (hc : DTSpec.isIdentStart c = false) :
    m w dotPart f ('.' :: c :: t, cs) = [] := by
  simp [dotPart, m, dotK_test, identK1_test, hc]

theorem dotPart_nil_dot (w f : Nat) (cs : Caps) : m w dotPart f (['.'], cs) = [] := by
  simp [dotPart, m, dotK_test]

theorem dotPart_nil_nil (w f : Nat) (cs : Caps) : m w dotPart f ([], cs) = [] := by
  simp [dotPart, m]

/-- first match of `(\.ident)*`: whatever is left, it is empty exactly when the scanner accepts -/
theorem star_dotPart_head (w : Nat) (cs : Caps) : ∀ (f : Nat) (u : Str), u.length ≤ f →
    ∃ r, (m w (.star dotPart) f (u, cs)).head? = some (r, cs) ∧ (r == []) = acc u := by
  intro f
  induction f with
  | zero =>
    intro u h
    cases u with
    | nil => exact ⟨[], by simp [m], rfl⟩
    | cons c t => simp at h
  | succ f ih =>
    intro u h
    rw [m]
    cases u with
    | nil => exact ⟨[], by simp [dotPart_nil_nil], rfl⟩
    | cons x t =>
      by_cases hx : (x == '.') = true
      · have hx' : x = '.' := by simpa using hx
        subst hx'
        cases t with
        | nil => exact ⟨['.'], by simp [dotPart_nil_dot], by simp [acc, scan]⟩
        | cons c t =>
          by_cases hc : DTSpec.isIdentStart c = true
          · obtain ⟨r, h1, h2⟩ := ih (t.dropWhile identK2.test) (by
              have := length_dropWhile_le identK2.test t
              simp at h; omega)
            refine ⟨r, ?_, ?_⟩
            · apply head_append
              refine head_flatMap (x := (t.dropWhile identK2.test, cs)) ?_ h1
              apply head_filter (dotPart_head w (f+1) cs c t hc (by simp at h ⊢; omega))
              have := length_dropWhile_le identK2.test t
              simp; omega
            · rw [h2, ← scan_false_acc]; simp [acc, scan, hc]
          · have hc' : DTSpec.isIdentStart c = false := by simpa using hc
            exact ⟨'.' :: c :: t, by simp [dotPart_nil_of_not_start _ _ _ _ _ hc'], by simp [acc, scan, hc']⟩
      · have hx' : (x == '.') = false := by simpa using hx
        exact ⟨x :: t, by simp [dotPart_nil_of_not_dot _ _ _ _ _ hx'], by simp [acc, hx']⟩

/-- `[k1][k2]*(\.[k1][k2]*)*` -/
def dottedBody : RE := .seq (.cls identK1) (.seq (.star (.cls identK2)) (.star dotPart))

theorem dottedBody_ok (w : Nat) (cs : Caps) (f : Nat) (c : Char) (t : Str)
    (hc : DTSpec.isIdentStart c = true) (hf : (c :: t).length ≤ f) :
    ∃ r, (m w dottedBody f (c :: t, cs)).head? = some (r, cs) ∧ (r == []) = scan false t := by
  have hlen := length_dropWhile_le identK2.test t
  obtain ⟨r, h1, h2⟩ := star_dotPart_head w cs f (t.dropWhile identK2.test) (by simp at hf; omega)
  refine ⟨r, ?_, by rw [h2, scan_false_acc]⟩
  unfold dottedBody
  rw [m]
  refine head_flatMap (x := (t, cs)) (by simp [m, identK1_test, hc]) ?_
  rw [m]
  exact head_flatMap (star_cls_head w identK2 cs f t (by simp at hf; omega)) h1

theorem dottedBody_bad (w : Nat) (cs : Caps) (f : Nat) (c : Char) (t : Str)
    (hc : DTSpec.isIdentStart c = false) : m w dottedBody f (c :: t, cs) = [] := by
  simp [dottedBody, hc, m, identK1_test]

theorem dottedBody_nil (w : Nat) (cs : Caps) (f : Nat) : m w dottedBody f ([], cs) = [] := by
  simp [dottedBody, m]

theorem dottedName_matches (s : Str) : matchesWhole Gen.dottedNameRx s = DTSpec.isDottedName s := by
  rw [isDottedName_scan, dottedNameRx_shape]
  unfold matchesWhole pyMatch
  change (match (m s.length dottedBody s.length (s, [])).head? with | some st => st.1 == [] | none => false) = _
  cases s with
  | nil => rw [dottedBody_nil]; rfl
  | cons c t =>
    by_cases hc : DTSpec.isIdentStart c = true
    · obtain ⟨r, h1, h2⟩ := dottedBody_ok (c :: t).length [] (c :: t).length c t hc (Nat.le_refl _)
      rw [h1]; simp only [scan, hc, Bool.true_and, ← h2]
    · have hc' : DTSpec.isIdentStart c = false := by simpa using hc
      rw [dottedBody_bad _ _ _ _ _ hc']; simp [scan, hc']

theorem dottedName_eq_spec (s : Str) : dottedName s = DTSpec.dottedName s := by
  unfold dottedName DTSpec.dottedName regexConv
  rw [dottedName_matches]

theorem isDottedSuffix_scan (s : Str) :
    DTSpec.isDottedSuffix s = (scan true s || (match s with | '.' :: t => scan true t | _ => false)) := by
  unfold DTSpec.isDottedSuffix
  rw [isDottedName_scan]
  congr 1
  split <;> simp [isDottedName_scan]

theorem dottedSuffix_matches (s : Str) : matchesWhole Gen.dottedSuffixRx s = DTSpec.isDottedSuffix s := by
  rw [isDottedSuffix_scan, dottedSuffixRx_shape]
  unfold matchesWhole pyMatch
  change (match (m s.length (.alt dottedBody (.seq dotPart (.star dotPart))) s.length (s, [])).head? with
    | some st => st.1 == [] | none => false) = _
  rw [m]
  cases s with
  | nil => rw [dottedBody_nil, m, dotPart_nil_nil]; rfl
  | cons c t =>
    by_cases hc : DTSpec.isIdentStart c = true
    · obtain ⟨r, h1, h2⟩ := dottedBody_ok (c :: t).length [] (c :: t).length c t hc (Nat.le_refl _)
      rw [head_append h1]
      have hd : c ≠ '.' := by
        intro h; subst h; revert hc; decide
      simp only [scan, hc, Bool.true_and, ← h2]
      split
      · rename_i heq; injection heq with h _; exact absurd h hd
      · simp
    · have hc' : DTSpec.isIdentStart c = false := by simpa using hc
      rw [dottedBody_bad _ _ _ _ _ hc', List.nil_append, m]
      simp only [scan, hc', Bool.false_and, Bool.false_or]
      by_cases hx : (c == '.') = true
      · have hx' : c = '.' := by simpa using hx
        subst hx'
        simp only
        cases t with
        | nil => rw [dotPart_nil_dot]; rfl
        | cons c' t' =>
          by_cases hc2 : DTSpec.isIdentStart c' = true
          · have hlen := length_dropWhile_le identK2.test t'
            obtain ⟨r, h1, h2⟩ := star_dotPart_head ('.' :: c' :: t').length [] ('.' :: c' :: t').length
              (t'.dropWhile identK2.test) (by simp; omega)
            rw [head_flatMap (dotPart_head _ _ [] c' t' hc2 (by simp)) h1]
            simp only [scan, hc2, Bool.true_and, h2, scan_false_acc]
          · have hc2' : DTSpec.isIdentStart c' = false := by simpa using hc2
            rw [dotPart_nil_of_not_start _ _ _ _ _ hc2']
            simp [scan, hc2']
      · have hx' : (c == '.') = false := by simpa using hx
        rw [dotPart_nil_of_not_dot _ _ _ _ _ hx']
        simp only [List.flatMap_nil, List.head?_nil]
        split
        · rename_i heq; injection heq with h _; subst h; simp at hx'
        · rfl

theorem dottedSuffix_eq_spec (s : Str) : dottedSuffix s = DTSpec.dottedSuffix s := by
  unfold dottedSuffix DTSpec.dottedSuffix regexConv
  rw [dottedSuffix_matches]

end ZCV.DT
