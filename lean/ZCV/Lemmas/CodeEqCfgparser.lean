import ZCV.Gen.CodeCfgparser
import ZCV.Model.Parser
import ZCV.Lemmas.PyPrims
import ZCV.Lemmas.CodeEqDatatypes
/-!
# The generated pure prefixes of `ZConfig/cfgparser.py` equal the pieces of the hand-written parser model

`Gen.Code.handle_key_value_prefix` / `handle_directive_prefix` are the translation of the statements of
`ZConfigParser.handle_key_value` / `handle_directive` BEFORE the first one that touches the context, the section or
`self.replace` (the methods are not pure as a whole).  They are proved equal to what `Cfg.lineShape` computes for a
key/value line and for a `%` line through `Cfg.kvMatch` — the generated `_keyvalue_rx`, its named groups, the directive
tuple, the "missing argument" test.  `self.error` raises `ConfigurationSyntaxError(msg, self.url, self.lineno)`.
-/
set_option linter.unusedSimpArgs false
namespace ZCV.CodeEq
open ZCV ZCV.Py ZCV.Gen.Code ZCV.Cfg

/-- `self.error(…)` of the parser at (`url`, `lineno`) -/
def parserError (url : Option Str) (lineno : Int) : PyExc := .ConfigurationSyntaxError url (some lineno) none none

/-- `m = _keyvalue_rx.match(s)`; `m.group('key', 'value')` as the model's `kvMatch` (which reads `key` as `""` if absent) -/
theorem kvMatch_eq (s : Str) :
    kvMatch s = (Py.reMatch Gen.keyvalueRx s).map fun m =>
      ((m.groupN Gen.keyvalueRx_key).getD [], m.groupN Gen.keyvalueRx_value) := by
  rw [Py.reMatch_eq]; unfold kvMatch
  cases Rx.pyMatch Gen.keyvalueRx s <;> rfl

/-- the prefix of `handle_key_value`: no match = the parser's syntax error, else the two named groups -/
theorem code_handle_key_value_eq (url : Option Str) (lineno : Int) (rest : Str) :
    (handle_key_value_prefix url lineno () rest).map (fun kv => (kv.1.getD [], kv.2)) =
      match kvMatch rest with
      | none => .error (parserError url lineno)
      | some kv => .ok kv := by
  unfold handle_key_value_prefix
  rw [kvMatch_eq]
  cases Py.reMatch Gen.keyvalueRx rest <;> rfl

theorem of_not_bnot {b : Bool} (h : ¬ ((!b) = true)) : b = true := by cases b <;> simp_all
theorem of_bnot {b : Bool} (h : (!b) = true) : b = false := by cases b <;> simp_all

/-- the prefix of `handle_directive`, in the terms of `Cfg.lineShape`'s `%` branch -/
theorem code_handle_directive_eq (url : Option Str) (lineno : Int) (rest : Str) :
    (handle_directive_prefix url lineno () rest).map (fun na => (na.1.getD [], na.2)) =
      match kvMatch rest with
      | none => .error (parserError url lineno)
      | some (name, arg?) =>
        if !Gen.directives.contains name then .error (parserError url lineno)
        else if arg?.getD [] == [] then .error (parserError url lineno)
        else .ok (name, arg?.getD []) := by
  unfold handle_directive_prefix
  rw [kvMatch_eq]
  cases Py.reMatch Gen.keyvalueRx rest with
  | none => rfl
  | some m =>
    simp only [Option.map_some]
    generalize m.groupN Gen.keyvalueRx_key = name
    generalize m.groupN Gen.keyvalueRx_value = arg
    have hnil : Gen.directives.contains ([] : Str) = false := by decide
    cases name with
    | none => simp only [Option.getD_none, hnil]; rfl
    | some n =>
      simp only [Option.getD_some]
      cases hc : Gen.directives.contains n with
      | false =>
        split
        · rfl
        · next h =>
          exfalso
          have h' := contains_of_perm (l₂ := Gen.directives) (b := true) (of_not_bnot h) (by decide)
          rw [hc] at h'; exact Bool.noConfusion h'
      | true =>
        split
        · next h =>
          exfalso
          have h' := contains_of_perm (l₂ := Gen.directives) (b := false) (of_bnot h) (by decide)
          rw [hc] at h'; exact Bool.noConfusion h'
        · cases arg with
          | none => rfl
          | some a =>
            by_cases ha : a = []
            · subst ha; rfl
            · have h1 : (a != []) = true := by simpa using ha
              have h2 : (a == []) = false := by simpa using ha
              simp only [h1, h2, ↓reduceIte, Option.getD_some, Bool.not_true, Bool.false_eq_true]
              rfl

/-! ## what `Cfg.lineShape` makes of a key/value line and of a `%` line is determined by the generated prefixes

`lineShape` labels its syntax errors with the raise site (`bad tag`); the generated code keeps the exception class only, so the
comparison forgets the tag. -/

def forgetTag : LineShape → LineShape
  | .bad _ => .bad ""
  | sh => sh

/-- the shape of a key/value line, from the outcome of `handle_key_value`'s prefix -/
def kvShape (r : Except PyExc (Option Str × Option Str)) : LineShape :=
  match r with
  | .error _ => .bad ""
  | .ok (k, v) => .kv (k.getD []) (v.getD [])

/-- the shape of a `%` line, from the outcome of `handle_directive`'s prefix (`getattr(self, 'handle_' + name)`) -/
def directiveShape (r : Except PyExc (Option Str × Str)) : LineShape :=
  match r with
  | .error _ => .bad ""
  | .ok (name, arg) =>
    if name.getD [] == "define".toList then .define arg
    else if name.getD [] == "import".toList then .import_ arg
    else if name.getD [] == "include".toList then .include_ arg
    else .internal "AttributeError"

theorem kvShape_map (r : Except PyExc (Option Str × Option Str)) :
    kvShape r = match r.map (fun kv => (kv.1.getD [], kv.2)) with
      | .error _ => .bad "" | .ok (k, v) => .kv k (v.getD []) := by
  cases r with
  | error e => rfl
  | ok kv => obtain ⟨k, v⟩ := kv; rfl

theorem directiveShape_map (r : Except PyExc (Option Str × Str)) :
    directiveShape r = match r.map (fun na => (na.1.getD [], na.2)) with
      | .error _ => .bad ""
      | .ok (name, arg) =>
        if name == "define".toList then .define arg
        else if name == "import".toList then .import_ arg
        else if name == "include".toList then .include_ arg
        else .internal "AttributeError" := by
  cases r with
  | error e => rfl
  | ok na => obtain ⟨n, a⟩ := na; rfl

/-- a line that is neither blank, comment, section line nor directive: `lineShape` is what `handle_key_value`'s prefix yields -/
theorem code_keyvalue_lineShape (url : Option Str) (lineno : Int) (c : Char) (t : Str)
    (h1 : c ≠ '#') (h2 : c ≠ '<') (h3 : c ≠ '%') :
    forgetTag (lineShape (c :: t)) = kvShape (handle_key_value_prefix url lineno () (c :: t)) := by
  rw [kvShape_map, code_handle_key_value_eq]
  unfold lineShape
  have e1 : ((c :: t).take 1 == []) = false := rfl
  have e2 : ((c :: t).take 1 == ['#']) = false := by simpa using h1
  have e3 : ((c :: t).take 1 == ['<']) = false := by simpa using h2
  have e4 : ((c :: t).take 1 == ['%']) = false := by simpa using h3
  have e5 : ((c :: t).take 2 == ['<', '/']) = false := by
    cases t with
    | nil => simp
    | cons d t' => simp [h2]
  simp only [e1, e2, e3, e4, e5, Bool.or_false, Bool.false_eq_true, ↓reduceIte]
  cases kvMatch (c :: t) with
  | none => rfl
  | some kv => obtain ⟨k, v⟩ := kv; cases v <;> rfl

/-- a `%` line: `lineShape` is what `handle_directive`'s prefix yields -/
theorem code_directive_lineShape (url : Option Str) (lineno : Int) (rest : Str) :
    forgetTag (lineShape ('%' :: rest)) = directiveShape (handle_directive_prefix url lineno () rest) := by
  rw [directiveShape_map, code_handle_directive_eq]
  unfold lineShape
  have e1 : (('%' :: rest).take 1 == []) = false := rfl
  have e2 : (('%' :: rest).take 1 == ['#']) = false := by simp
  have e3 : (('%' :: rest).take 1 == ['<']) = false := by simp
  have e4 : (('%' :: rest).take 1 == ['%']) = true := by simp
  have e5 : (('%' :: rest).take 2 == ['<', '/']) = false := by
    cases rest with
    | nil => simp
    | cons d t' => simp
  have e6 : ('%' :: rest).drop 1 = rest := rfl
  simp only [e1, e2, e3, e4, e5, e6, Bool.or_false, Bool.false_eq_true, ↓reduceIte]
  cases kvMatch rest with
  | none => rfl
  | some na =>
    obtain ⟨name, arg⟩ := na
    simp only []
    by_cases hc : Gen.directives.contains name = true
    · simp only [hc, Bool.not_true, Bool.false_eq_true, ↓reduceIte]
      by_cases ha : (arg.getD [] == []) = true
      · simp only [ha, ↓reduceIte]; rfl
      · simp only [ha, Bool.false_eq_true, ↓reduceIte]
        split <;> (try split) <;> (try split) <;> rfl
    · simp only [hc, Bool.not_false, ↓reduceIte]; rfl

end ZCV.CodeEq
