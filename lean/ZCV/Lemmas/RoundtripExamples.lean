import ZCV.Lemmas.RoundtripInv
import ZCV.Lemmas.RoundtripCanon
/-!
Closed instances for C17: a text whose keys are not in sorted order (the reload lists them sorted), and an
environment whose `$(NAME)` value is empty (the printed text is refused).
-/
namespace ZCV.Roundtrip
open ZCV ZCV.Cfg ZCV.SubstSpec

/-- a run that ends with every section closed is a successful load -/
theorem slLoad_of_runs (getenv : Str → Option Str) (url : Option Str) (lines : List Str) (st' : PSt) (top : Sec)
    (hr : Runs getenv url (ess lines) st0 st') (hs : st'.stack = []) (ht : st'.ctx.stack = [top]) :
    slLoad getenv url lines = .ok (top, st'.ctx.imports) := by
  have := parse_of_runs lines 0 st0 st' hr hs
  unfold slLoad
  unfold envOf st0 at this
  rw [this]
  simp only [bind, Except.bind, ht]
  rfl

/-! ### keys out of order -/

def linesBA : List Str := ["b 1".toList, "a 2".toList]
def treeBA : Sec := .mk [] none [("b".toList, ["1".toList]), ("a".toList, ["2".toList])] []

theorem load_BA (getenv : Str → Option Str) (url : Option Str) : slLoad getenv url linesBA = .ok (treeBA, []) := by
  have hr := runs_pairs (getenv := getenv) (url := url) [("b".toList, "1".toList), ("a".toList, "2".toList)] st0
    [] none [] [] [] (by decide) rfl
  have e1 : ess linesBA = [("b".toList, "1".toList), ("a".toList, "2".toList)].map (fun q => kvLine q.1 q.2) := by decide
  rw [← e1] at hr
  exact slLoad_of_runs getenv url linesBA _ treeBA hr rfl rfl

theorem treeBA_wf : WF treeBA [] := by decide

theorem treeBA_not_sorted : canon treeBA ≠ treeBA := by
  intro h
  have := congrArg Sec.kvs h
  revert this
  decide

/-! ### an empty environment value -/

def envEmpty : Str → Option Str := fun _ => some []
def linesImp : List Str := ["%import $(E)".toList]

/-- an `%import` directive line in general -/
theorem lineShape_import_gen (rest : Str) (a? : Option Str) (hn : '\n' ∉ rest)
    (hk : Grammar.keyValue rest = some ("import".toList, a?)) :
    lineShape ('%' :: rest) = if a?.getD [] == [] then .bad "missing argument" else .import_ (a?.getD []) := by
  have h1 : Gen.directives.contains "import".toList = true := by decide
  have h2 : ("import".toList == "define".toList) = false := by decide
  unfold lineShape
  simp only [List.take_succ_cons, List.take_zero, List.drop_succ_cons, List.drop_zero]
  rw [kvMatch_eq_keyValue rest hn, hk]
  simp only [h1, h2]
  simp

theorem lineShape_importE : lineShape "%import $(E)".toList = .import_ "$(E)".toList := by
  have e : "%import $(E)".toList = '%' :: "import $(E)".toList := rfl
  rw [e, lineShape_import_gen "import $(E)".toList (some "$(E)".toList) (by decide) (by decide)]
  rfl

theorem spec_E : spec (fun _ => none) envEmpty "$(E)".toList "$(E)".toList = .ok [] := by
  have : "$(E)".toList = ['$', '(', 'E', ')'] := rfl
  rw [this, spec]
  have hn : nameSplit ['E', ')'] = some (['E'], [')']) := by decide
  split
  · rename_i h; rw [hn] at h; cases h
  · rename_i name r' h
    rw [hn] at h
    simp only [Option.some.injEq, Prod.mk.injEq, List.cons.injEq, true_and] at h
    obtain ⟨rfl, rfl⟩ := h
    simp only [envEmpty, spec_nil]
    rfl
  · rename_i h1 h2
    rw [hn] at h2
    simp only [Option.some.injEq, Prod.mk.injEq] at h2
    exact absurd (h2.2 ▸ rfl) (h1 [])

theorem replace_E (url : Option Str) (n : Nat) : replace (envOf envEmpty) [] url n "$(E)".toList = .ok [] := by
  unfold replace
  have hdefs : lookupDef [] = fun _ => none := by funext k; rfl
  rw [hdefs]
  have h04 := ZCV.Props.C04.C04_substitute_eq_spec (fun _ => none) envEmpty "$(E)".toList
  unfold substituteSpec at h04
  rw [spec_E] at h04
  cases hs : Subst.substitute (fun _ => none) envEmpty "$(E)".toList with
  | ok r =>
    rw [hs] at h04
    simp only [Subst.conv, Except.ok.injEq] at h04
    rw [h04]
  | error e => rw [hs] at h04; simp [Subst.conv] at h04

theorem load_importE (url : Option Str) : slLoad envEmpty url linesImp = .ok (.mk [] none [] [], [[]]) := by
  have hstep : ∀ n, stepS envEmpty url n "%import $(E)".toList st0 =
      .ok { st0 with ctx := { st0.ctx with imports := [[]] } } := by
    intro n
    unfold stepS stepLine
    rw [lineShape_importE]
    have hs : strip "$(E)".toList = "$(E)".toList := by decide
    simp only [hs, st0, replace_E, bind, Except.bind]
    rfl
  have hr : Runs envEmpty url (ess linesImp) st0 { st0 with ctx := { st0.ctx with imports := [[]] } } := by
    have e : ess linesImp = ["%import $(E)".toList] := by decide
    rw [e]
    exact runs_one _ _ _ hstep
  exact slLoad_of_runs envEmpty url linesImp _ _ hr rfl rfl

theorem lineShape_import_bare : lineShape "%import".toList = .bad "missing argument" := by
  have e : "%import".toList = '%' :: "import".toList := rfl
  rw [e, lineShape_import_gen "import".toList none (by decide) (by decide)]
  rfl

theorem reload_importE (getenv : Str → Option Str) (url : Option Str) :
    slLoad getenv url (linesOf (slStr (.mk [] none [] []) [[]])) = .error (synErr url 1 "missing argument") := by
  have e : linesOf (slStr (.mk [] none [] []) [[]]) = ["%import".toList] := by decide
  rw [e]
  unfold slLoad
  rw [parseLines]
  have hs : strip "%import".toList = "%import".toList := by decide
  rw [hs]
  unfold stepLine
  rw [lineShape_import_bare]
  rfl

/-! ### an empty environment value next to a blank -/

/-- a data line with a non-empty raw value whose substitution is known -/
theorem step_kv_raw {getenv url} (n : Nat) (l k raw v : Str) (st : PSt) (t : Str) (nm : Option Str)
    (kvs : List (Str × List Str)) (ss rest : List Sec) (hl : lineShape l = .kv k raw) (hne : raw ≠ [])
    (hv : replace (envOf getenv) st.defs url n raw = .ok v) (hst : st.ctx.stack = Sec.mk t nm kvs ss :: rest) :
    stepS getenv url n l st = .ok (setStack st (Sec.mk t nm (secAddValue kvs k v) ss :: rest)) := by
  unfold stepS stepLine
  rw [hl]
  simp only
  unfold Cfg.keyValue
  have : (raw == []) = false := by rw [beq_eq_false_iff_ne]; exact hne
  simp only [this, Bool.false_eq_true, ↓reduceIte, hv, bind, Except.bind, schemalessCtx, slValue, hst]
  rfl

def linesVal : List Str := ["k $(E) x".toList]
def treeVal : Sec := .mk [] none [("k".toList, [" x".toList])] []
def treeVal' : Sec := .mk [] none [("k".toList, ["x".toList])] []

theorem spec_E_x : spec (fun _ => none) envEmpty "$(E) x".toList "$(E) x".toList = .ok " x".toList := by
  have : "$(E) x".toList = ['$', '(', 'E', ')', ' ', 'x'] := rfl
  rw [this, spec]
  have hn : nameSplit ['E', ')', ' ', 'x'] = some (['E'], [')', ' ', 'x']) := by decide
  split
  · rename_i h; rw [hn] at h; cases h
  · rename_i name r' h
    rw [hn] at h
    simp only [Option.some.injEq, Prod.mk.injEq, List.cons.injEq, true_and] at h
    obtain ⟨rfl, rfl⟩ := h
    simp only [envEmpty]
    rw [spec_lit _ _ _ _ _ (by decide), spec_lit _ _ _ _ _ (by decide), spec_nil]
    rfl
  · rename_i h1 h2
    rw [hn] at h2
    simp only [Option.some.injEq, Prod.mk.injEq] at h2
    exact absurd (h2.2 ▸ rfl) (h1 [' ', 'x'])

theorem replace_E_x (url : Option Str) (n : Nat) : replace (envOf envEmpty) [] url n "$(E) x".toList = .ok " x".toList := by
  unfold replace
  have hdefs : lookupDef [] = fun _ => none := by funext k; rfl
  rw [hdefs]
  have h04 := ZCV.Props.C04.C04_substitute_eq_spec (fun _ => none) envEmpty "$(E) x".toList
  unfold substituteSpec at h04
  rw [spec_E_x] at h04
  cases hs : Subst.substitute (fun _ => none) envEmpty "$(E) x".toList with
  | ok r =>
    rw [hs] at h04
    simp only [Subst.conv, Except.ok.injEq] at h04
    rw [h04]
  | error e => rw [hs] at h04; simp [Subst.conv] at h04

theorem lineShape_of_keyValue (c : Char) (t k v : Str) (h1 : c ≠ '#') (h2 : c ≠ '<') (h3 : c ≠ '%') (hn : '\n' ∉ c :: t)
    (hk : Grammar.keyValue (c :: t) = some (k, some v)) : lineShape (c :: t) = .kv k v := by
  rw [lineShape_data c t h1 h2 h3 hn, hk]

theorem load_valE (url : Option Str) : slLoad envEmpty url linesVal = .ok (treeVal, []) := by
  have hshape : lineShape "k $(E) x".toList = .kv "k".toList "$(E) x".toList :=
    lineShape_of_keyValue 'k' " $(E) x".toList _ _ (by decide) (by decide) (by decide) (by decide) (by decide)
  have hr : Runs envEmpty url (ess linesVal) st0 (setStack st0 [treeVal]) := by
    have e : ess linesVal = ["k $(E) x".toList] := by decide
    rw [e]
    apply runs_one
    intro n
    exact step_kv_raw n _ _ _ _ st0 [] none [] [] [] hshape (by decide) (replace_E_x url n) rfl
  exact slLoad_of_runs envEmpty url linesVal _ treeVal hr rfl rfl

theorem reload_valE (getenv : Str → Option Str) (url : Option Str) :
    slLoad getenv url (linesOf (slStr treeVal [])) = .ok (treeVal', []) := by
  have hshape : lineShape "k  x".toList = .kv "k".toList "x".toList :=
    lineShape_of_keyValue 'k' "  x".toList _ _ (by decide) (by decide) (by decide) (by decide) (by decide)
  have hr : Runs getenv url (ess (linesOf (slStr treeVal []))) st0 (setStack st0 [treeVal']) := by
    have e : ess (linesOf (slStr treeVal [])) = ["k  x".toList] := by decide
    rw [e]
    apply runs_one
    intro n
    exact step_kv_raw n _ _ _ _ st0 [] none [] [] [] hshape (by decide) (replace_esc _ _ _ _ "x".toList) rfl
  exact slLoad_of_runs getenv url _ _ treeVal' hr rfl rfl

theorem treeVal_ne : treeVal' ≠ treeVal := by
  intro h
  have := congrArg Sec.kvs h
  revert this
  decide

end ZCV.Roundtrip
