import ZCV.Lemmas.ElabExpandDerive
/-!
C11 (`extends` = written-out expansion), step 2: the handlers of `<key>`, `<multikey>`, `<section>`, `<multisection>`
look at the parser state only through the key type and the children of the container on top of the stack, the current
prefix, and the names of the type table.
-/
namespace ZCV.Elab
open ZCV ZCV.Cfg

/-! ### helpers that only read the prefix / the key type -/

theorem getClassname_congr {st st' : PSt} (hp : st.prefixes.head? = st'.prefixes.head?) (n : Str) :
    getClassname st n = getClassname st' n := by
  unfold getClassname
  cases h1 : st.prefixes <;> cases h2 : st'.prefixes <;> simp only [h1, h2, List.head?_cons, List.head?_nil] at hp ⊢
  · cases hp
  · cases hp
  · injection hp with hp; subst hp; rfl

theorem getDatatype_congr {env : Env} {st st' : PSt} (hp : st.prefixes.head? = st'.prefixes.head?) (a : Attrs)
    (key dflt : String) (base : Option Str) : getDatatype env st a key dflt base = getDatatype env st' a key dflt base := by
  unfold getDatatype
  split
  · rw [getClassname_congr hp]
  · rfl

theorem getSectTypeinfo_congr {env : Env} {st st' : PSt} (hp : st.prefixes.head? = st'.prefixes.head?) (a : Attrs)
    (base : Option (Str × Str)) : getSectTypeinfo env st a base = getSectTypeinfo env st' a base := by
  unfold getSectTypeinfo
  rw [getDatatype_congr hp a "keytype", getDatatype_congr hp a "valuetype", getDatatype_congr hp a "datatype"]

theorem nameTail_congr {env : Env} {st st' : PSt} (hk : topKeytype st = topKeytype st') (name : Str) (aname : Option Str) :
    nameTail env st name aname = nameTail env st' name aname := by
  unfold nameTail
  rw [hk]

theorem getNameInfo_congr {env : Env} {st st' : PSt} (hk : topKeytype st = topKeytype st') (a : Attrs) (dflt : Option Str) :
    getNameInfo env st a dflt = getNameInfo env st' a dflt := by
  unfold getNameInfo
  rw [hk]

theorem getKeyInfo_congr {env : Env} {st st' : PSt} (hk : topKeytype st = topKeytype st')
    (hp : st.prefixes.head? = st'.prefixes.head?) (a : Attrs) : getKeyInfo env st a = getKeyInfo env st' a := by
  unfold getKeyInfo
  rw [getNameInfo_congr hk, getDatatype_congr hp]

/-! ### the container on top of the stack -/

theorem topKeytype_eq (st : PSt) : topKeytype st = topKeytype { st with prefixes := [], baseKts := [], baseDts := [] } := rfl

/-- key type of the container on top of the stack, as a function of the two fields it reads -/
def ktOf (es : ES) (stack : List Frame) : EM Str :=
  match stack with
  | .schema :: _ => .ok es.top.keytype
  | .stype n :: _ =>
    match es.types.find? (·.1 == n) with
    | some (_, .concrete t) => .ok t.keytype
    | _ => .error (.internal "AttributeError")
  | [] => .error (.internal "IndexError")
  | _ => .error (.internal "AttributeError")

theorem topKeytype_ktOf (st : PSt) : topKeytype st = ktOf st.es st.stack := by
  unfold topKeytype ktOf; rfl

theorem ktOf_setTopOf (es : ES) (stack : List Frame) (ch : List (Option Str × EInfo)) :
    ktOf (setTopOf es stack ch) stack = ktOf es stack := by
  cases stack with
  | nil => rfl
  | cons f rest =>
    cases f with
    | schema => rfl
    | stype n =>
      unfold setTopOf ktOf ES.updType
      simp only
      rw [find_map_key _ _ (by intro ⟨k, e⟩; dsimp only; split <;> rfl)]
      cases hf : es.types.find? (·.1 == n) with
      | none => rfl
      | some q =>
        obtain ⟨k, e⟩ := q
        have hk : k = n := by simpa using List.find?_some hf
        subst hk
        cases e <;> simp
    | atype n => rfl
    | key k => rfl
    | sect a b => rfl

theorem names_updType (es : ES) (n : Str) (f : EType → EType) : (es.updType n f).types.map (·.1) = es.types.map (·.1) := by
  unfold ES.updType
  simp only [List.map_map]
  apply List.map_congr_left
  intro ⟨k, e⟩ _
  simp only [Function.comp]
  split <;> rfl

theorem setTopOf_setTopOf (es : ES) (stack : List Frame) (c1 c2 : List (Option Str × EInfo)) :
    setTopOf (setTopOf es stack c1) stack c2 = setTopOf es stack c2 := by
  cases stack with
  | nil => rfl
  | cons f rest =>
    cases f with
    | schema => rfl
    | stype n =>
      unfold setTopOf ES.updType
      simp only [List.map_map]
      congr 1
      apply List.map_congr_left
      intro ⟨k, e⟩ _
      simp only [Function.comp]
      by_cases hk : (k == n) = true
      · simp only [hk, ↓reduceIte]
        cases e <;> rfl
      · simp only [hk, Bool.false_eq_true, ↓reduceIte]
    | atype n => rfl
    | key k => rfl
    | sect a b => rfl

theorem names_setTopOf (es : ES) (stack : List Frame) (ch : List (Option Str × EInfo)) :
    (setTopOf es stack ch).types.map (·.1) = es.types.map (·.1) := by
  cases stack with
  | nil => rfl
  | cons f rest =>
    cases f with
    | schema => rfl
    | stype n => exact names_updType es n _
    | atype n => rfl
    | key k => rfl
    | sect a b => rfl

/-- `_add_child`, given the children of the container -/
theorem addChild_congr {st st' st1 : PSt} {ch : List (Option Str × EInfo)} {key : Option Str} {info : EInfo}
    (h1 : topOf st.es st.stack = .ok ch) (h2 : topOf st'.es st'.stack = .ok ch) (h : addChild st key info = .ok st1) :
    addChild st' key info = .ok { st' with es := setTopOf st'.es st'.stack (ch ++ [(key, info)]) } := by
  unfold addChild at h ⊢
  rw [topChildren_eq] at h ⊢
  rw [h1] at h
  rw [h2]
  simp only [bind, Except.bind, pure, Except.pure] at h ⊢
  split at h
  · cases h
  · rename_i hc1
    split at h
    · cases h
    · rename_i hc2
      simp only [hc1, hc2, Bool.false_eq_true, ↓reduceIte, setTopChildren_eq]

theorem replaceLastChild_congr {st' : PSt} {k : EKey} {ch : List (Option Str × EInfo)} {key : Option Str} {k0 : EKey}
    (h2 : topOf st'.es st'.stack = .ok (ch ++ [(key, EInfo.key k0)])) :
    replaceLastChild st' k = .ok { st' with es := setTopOf st'.es st'.stack (ch ++ [(key, EInfo.key k)]) } := by
  unfold replaceLastChild
  rw [topChildren_eq, h2]
  simp only [bind, Except.bind, List.reverse_append, List.reverse_cons, List.reverse_nil, List.nil_append,
    List.singleton_append, pure, Except.pure, List.reverse_reverse, setTopChildren_eq]

/-- a type name found in a type table is found, under the same key, in every table that extends it -/
theorem gettype_grows {a b : ES} (hg : Grows a b) {x : Str} {p : Str × EEntry} (h : a.gettype x = some p) :
    ∃ q, b.gettype x = some q ∧ q.1 = p.1 := by
  unfold ES.gettype at h ⊢
  obtain ⟨more, hm⟩ := hg
  have hp := find_key_mem h
  -- first index with that key
  have key : ∀ (l1 l2 : List (Str × EEntry)) (ks : List Str), l1.map (·.1) ++ ks = l2.map (·.1) →
      ∀ p, l1.find? (·.1 == lower x) = some p → ∃ q, l2.find? (·.1 == lower x) = some q ∧ q.1 = p.1 := by
    intro l1
    induction l1 with
    | nil => intro l2 ks _ p hp; cases hp
    | cons c l1 ih =>
      intro l2 ks hl p hfind
      cases l2 with
      | nil => simp at hl
      | cons c2 l2 =>
        simp only [List.map_cons, List.cons_append, List.cons.injEq] at hl
        rw [List.find?_cons] at hfind ⊢
        by_cases hc : (c.1 == lower x) = true
        · simp only [hc] at hfind
          have hc2 : (c2.1 == lower x) = true := by rw [← hl.1]; exact hc
          simp only [hc2]
          injection hfind with hfind
          exact ⟨c2, rfl, by rw [← hfind]; exact hl.1.symm⟩
        · have hcf : (c.1 == lower x) = false := by simpa using hc
          simp only [hcf] at hfind
          have hc2 : (c2.1 == lower x) = false := by rw [← hl.1]; exact hcf
          simp only [hc2]
          exact ih l2 ks hl.2 p hfind
  exact key _ _ more hm p h

theorem getSectiontype_grows {st st' : PSt} (hg : Grows st.es st'.es) {a : Attrs} {n : Str}
    (h : getSectiontype st a = .ok n) : getSectiontype st' a = .ok n := by
  unfold getSectiontype at h ⊢
  split at h
  · split at h
    · rename_i n' e hgt
      injection h with h
      subst h
      obtain ⟨q, hq, hq1⟩ := gettype_grows hg hgt
      obtain ⟨q1, q2⟩ := q
      simp only [hq]
      simp only at hq1
      rw [hq1]
    · cases h
  · cases h

end ZCV.Elab
