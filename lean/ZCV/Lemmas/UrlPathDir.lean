import ZCV.Lemmas.UrlPathNest
/-! References to directories: a relative reference whose last segment is empty, `.` or `..` (`"d/"`, `"."`, `"../.."`).
`urljoin` resolves them the same way and leaves a trailing slash. -/
namespace ZCV.UrlPath
open ZCV
open ZCV.UrlPathSpec (step normalize resolve isName render segments absDir relFileRef namesFile)

/-- the three last segments that make a reference name a directory -/
def DirLast (l : Str) : Prop := l = [] ∨ l = dot ∨ l = dotdot

theorem up_dirLast_iff (l : Str) : DirLast l ↔ isName l = false := by
  unfold DirLast isName dot dotdot
  rw [Bool.eq_false_iff]
  constructor
  · intro h hn
    simp only [Bool.and_eq_true, bne_iff_ne, ne_eq] at hn
    rcases h with h | h | h
    · exact hn.1.1 h
    · exact hn.1.2 h
    · exact hn.2 h
  · intro h
    by_cases h1 : l = []
    · exact Or.inl h1
    · by_cases h2 : l = ['.']
      · exact Or.inr (Or.inl h2)
      · by_cases h3 : l = ['.', '.']
        · exact Or.inr (Or.inr h3)
        · exfalso
          apply h
          simp only [Bool.and_eq_true, bne_iff_ne, ne_eq]
          exact ⟨⟨h1, h2⟩, h3⟩

theorem up_dirLast_segChar (l : Str) (h : DirLast l) : ∀ c ∈ l, segChar c = true := by
  rcases h with rfl | rfl | rfl <;> decide

theorem up_dirLast_good (l : Str) (h : DirLast l) : GoodSeg l :=
  up_goodSeg_raw l (up_dirLast_segChar l h) (by rcases h with rfl | rfl | rfl <;> decide)

theorem up_dirLast_quote (l : Str) (h : DirLast l) : quote l = l := by
  rcases h with rfl | rfl | rfl <;> decide

theorem up_dirLast_unquote (l : Str) (h : DirLast l) : unquote l = l :=
  up_unquote_raw l (by rcases h with rfl | rfl | rfl <;> decide)

/-- where the loop ends when the last segment of the reference is empty, `.` or `..` -/
theorem up_removeDots_rel_dir (bs rinit : List Str) (rlast : Str) (hl : DirLast rlast) :
    ∃ m, StackRel m (normalize (bs ++ rinit ++ [rlast])) ∧
      removeDots (filterMiddle (([] :: bs) ++ (rinit ++ [rlast]))) = m ++ [[]] := by
  have e1 : ([] :: bs) ++ (rinit ++ [rlast]) = [] :: ((bs ++ rinit) ++ [rlast]) := by simp
  rw [e1, up_filterMiddle]
  have hrel0 : StackRel (((bs ++ rinit).filter (· != [])).foldl dotStep [[]]) (normalize (bs ++ rinit)) := by
    have := up_stackRel_foldl [[]] [] ((bs ++ rinit).filter (· != []))
      (by intro x hx; simp only [List.mem_filter, bne_iff_ne, ne_eq] at hx; exact hx.2) (Or.inl rfl)
    rw [up_foldl_step_filter] at this
    exact this
  have hlast : ([] :: ((bs ++ rinit).filter (· != []) ++ [rlast])).getLast? = some rlast := by
    rw [← List.cons_append, List.getLast?_concat]
  have hn : normalize (bs ++ rinit ++ [rlast]) = step (normalize (bs ++ rinit)) rlast := by
    unfold normalize
    rw [List.foldl_append, List.foldl_cons, List.foldl_nil]
  unfold removeDots
  simp only [hlast]
  rw [List.foldl_cons, up_dotStep_nil_nil, List.foldl_append, List.foldl_cons, List.foldl_nil, hn]
  generalize List.foldl dotStep [[]] (List.filter (fun x => x != []) (bs ++ rinit)) = m0 at hrel0 ⊢
  rcases hl with rfl | rfl | rfl
  · refine ⟨m0, ?_, ?_⟩
    · rw [up_step_nil]; exact hrel0
    · rw [if_neg (by decide)]
      rfl
  · refine ⟨dotStep m0 dot, up_stackRel_step _ _ dot (by decide) hrel0, ?_⟩
    rw [if_pos (by decide)]
  · refine ⟨dotStep m0 dotdot, up_stackRel_step _ _ dotdot (by decide) hrel0, ?_⟩
    rw [if_pos (by decide)]

/-- the rendering of a final stack that ends with the directory marker `''` -/
theorem up_render_rel_dir (m s : List Str) (h : StackRel m s) (hs : ∀ x ∈ s, x ≠ [] ∧ '/' ∉ x) :
    urlunparse ⟨fileScheme, [], (let r := joinWith '/' (m ++ [[]]); if r == [] then ['/'] else r), [], [], []⟩ =
      fileSlashes ++ '/' :: joinWith '/' (s ++ [[]]) := by
  cases s with
  | nil =>
    rcases h with h | h
    · subst h; decide
    · subst h; decide
  | cons x l =>
    obtain ⟨hx1, hx2⟩ := hs x (by simp)
    obtain ⟨c, a, rfl⟩ : ∃ c a, x = c :: a := by
      cases x with
      | nil => exact absurd rfl hx1
      | cons c a => exact ⟨c, a, rfl⟩
    have hc : c ≠ '/' := fun e => hx2 (by simp [e])
    obtain ⟨w, hw⟩ := up_joinWith_head c a (l ++ [[]])
    rcases h with h | h
    · subst h
      rw [List.cons_append, up_joinWith_cons '/' [] _ (by simp), List.cons_append, hw]
      simp only [List.nil_append]
      rw [up_urlunparse_file _ (by simp [hc])]
      simp
    · subst h
      rw [List.cons_append, hw]
      simp only
      rw [up_urlunparse_file _ (by simp [hc])]
      simp [hc]

/-- **joining at URL level, directory reference**: as `up_join_segments`, the last segment of the reference being empty,
    `.` or `..`; the result ends with a slash -/
theorem up_join_segments_dir (bsegs : List Str) (file : Str) (rinit : List Str) (rlast : Str)
    (hb : ∀ s ∈ bsegs, ∀ c ∈ s, segChar c = true) (hf : ∀ c ∈ file, segChar c = true)
    (hr : ∀ s ∈ rinit, ∀ c ∈ s, segChar c = true)
    (hl : DirLast rlast)
    (hrne : joinWith '/' (rinit ++ [rlast]) ≠ [])
    (h0 : ∀ c, (joinWith '/' (rinit ++ [rlast])).head? = some c → c0OrSpace c = false ∧ c ≠ '/')
    (hns : ∀ c ∈ (joinWith '/' (rinit ++ [rlast])).takeWhile (· != '/'), c ≠ ':') :
    join (fileSlashes ++ joinWith '/' (([] :: bsegs) ++ [file])) (joinWith '/' (rinit ++ [rlast])) =
      fileSlashes ++ '/' :: joinWith '/' (resolve ([] :: bsegs) (rinit ++ [rlast]) ++ [[]]) := by
  have hr' : ∀ s ∈ rinit ++ [rlast], ∀ c ∈ s, segChar c = true := by
    intro s hs
    simp only [List.mem_append, List.mem_cons, List.not_mem_nil, or_false] at hs
    rcases hs with hs | rfl
    · exact hr s hs
    · exact up_dirLast_segChar _ hl
  have hrs : ∀ s ∈ rinit ++ [rlast], '/' ∉ s := fun s hs hm => up_segChar_ne_slash _ (hr' s hs _ hm) rfl
  have hrc := up_joinWith_clean _ hr'
  have hnl : (joinWith '/' (rinit ++ [rlast])).take 2 ≠ ['/', '/'] := by
    intro hh
    cases hj : joinWith '/' (rinit ++ [rlast]) with
    | nil => exact hrne hj
    | cons c w =>
      rw [hj] at hh
      have := (h0 c (by rw [hj]; rfl)).2
      cases w with
      | nil => simp at hh
      | cons d w => simp only [List.take_succ_cons, List.take_zero, List.cons.injEq, and_true] at hh; exact this hh.1
  have ht1 : (joinWith '/' (rinit ++ [rlast])).take 1 ≠ ['/'] := by
    intro hh
    cases hj : joinWith '/' (rinit ++ [rlast]) with
    | nil => exact hrne hj
    | cons c w =>
      rw [hj] at hh
      have := (h0 c (by rw [hj]; rfl)).2
      simp only [List.take_succ_cons, List.take_zero, List.cons.injEq, and_true] at hh
      exact this hh
  have hbp : joinWith '/' (([] :: bsegs) ++ [file]) = '/' :: joinWith '/' (bsegs ++ [file]) := by
    rw [List.cons_append, up_joinWith_cons '/' [] _ (by simp)]; rfl
  have hbs : ∀ s ∈ bsegs ++ [file], ∀ c ∈ s, segChar c = true := by
    intro s hs
    simp only [List.mem_append, List.mem_cons, List.not_mem_nil, or_false] at hs
    rcases hs with hs | rfl
    · exact hb s hs
    · exact hf
  rw [hbp, up_join_file_ref _ _ (up_joinWith_clean _ hbs) hrne (fun c hc => (h0 c hc).1) hrc hns hnl]
  have hbp' : '/' :: joinWith '/' (bsegs ++ [file]) = joinWith '/' (([] :: bsegs) ++ [file]) := hbp.symm
  have hbparts := up_baseParts ([] :: bsegs) file
    (by
      intro s hs
      simp only [List.mem_cons] at hs
      rcases hs with rfl | hs
      · simp
      · exact fun hm => up_segChar_ne_slash _ (hb s hs _ hm) rfl)
    (fun hm => up_segChar_ne_slash _ (hf _ hm) rfl)
  have hsplit : splitOn '/' (joinWith '/' (rinit ++ [rlast])) = rinit ++ [rlast] :=
    up_splitOn_joinWith '/' _ (by simp) hrs
  have hms : ∃ bs, mergeSegments ('/' :: joinWith '/' (bsegs ++ [file])) (joinWith '/' (rinit ++ [rlast])) =
      filterMiddle (([] :: bs) ++ (rinit ++ [rlast])) ∧
      normalize (bs ++ rinit ++ [rlast]) = normalize (([] :: bsegs) ++ (rinit ++ [rlast])) := by
    unfold mergeSegments
    rw [if_neg (by simpa using ht1), hbp', hbparts, hsplit]
    by_cases hfile : file = []
    · refine ⟨bsegs ++ [[]], by simp [hfile], ?_⟩
      simp only [normalize, List.foldl_append, List.foldl_cons, List.foldl_nil, up_step_nil, List.cons_append]
    · refine ⟨bsegs, by simp [hfile], ?_⟩
      simp only [normalize, List.cons_append, List.foldl_cons, up_step_nil, List.append_assoc]
  obtain ⟨bs, hms1, hms2⟩ := hms
  obtain ⟨m, hrel, hrd⟩ := up_removeDots_rel_dir bs rinit rlast hl
  have hres : resolve ([] :: bsegs) (rinit ++ [rlast]) = normalize (bs ++ rinit ++ [rlast]) := by
    rw [hms2]; rfl
  unfold mergePath
  rw [hms1, hrd, hres]
  apply up_render_rel_dir _ _ hrel
  intro x hx
  rw [hms2] at hx
  obtain ⟨hmem, hname⟩ := up_normalize_names _ x hx
  unfold isName at hname
  simp only [Bool.and_eq_true, bne_iff_ne, ne_eq] at hname
  refine ⟨hname.1.1, ?_⟩
  simp only [List.cons_append, List.mem_cons, List.mem_append] at hmem
  rcases hmem with rfl | hmem | hmem
  · exact absurd rfl hname.1.1
  · exact fun hm => up_segChar_ne_slash _ (hb x hmem _ hm) rfl
  · exact hrs x (by simpa using hmem)

/-- **joining at path level, directory reference** -/
theorem up_join_paths_dir (dus : List Str) (fu : Str) (rinit : List Str) (rlast : Str)
    (hd : ∀ u ∈ dus, GoodSeg u) (hf : ∀ c ∈ fu, segChar c = true)
    (hr : ∀ u ∈ rinit, GoodSeg u) (hl : DirLast rlast)
    (hrne : joinWith '/' (rinit ++ [rlast]) ≠ [])
    (h0 : ∀ c, (joinWith '/' (rinit ++ [rlast])).head? = some c → c0OrSpace c = false ∧ c ≠ '/')
    (hns : ∀ c ∈ (joinWith '/' (rinit ++ [rlast])).takeWhile (· != '/'), c ≠ ':') :
    urlToPath (join (fileSlashes ++ joinWith '/' (([] :: dus) ++ [fu])) (joinWith '/' (rinit ++ [rlast]))) =
      render (resolve (([] :: dus).map unquote) ((rinit ++ [rlast]).map unquote) ++ [[]]) := by
  have hall : ∀ u ∈ ([] :: dus) ++ (rinit ++ [rlast]), GoodSeg u := by
    intro u hu
    simp only [List.cons_append, List.mem_cons, List.mem_append, List.not_mem_nil, or_false] at hu
    rcases hu with rfl | hu | hu | rfl
    · exact up_goodSeg_nil
    · exact hd u hu
    · exact hr u hu
    · exact up_dirLast_good _ hl
  rw [up_join_segments_dir dus fu rinit rlast (fun s hs => (hd s hs).2.1) hf (fun s hs => (hr s hs).2.1) hl hrne h0 hns,
    up_urlToPath_file]
  have e1 : '/' :: joinWith '/' (resolve ([] :: dus) (rinit ++ [rlast]) ++ [[]]) =
      ['/'] ++ joinWith '/' (resolve ([] :: dus) (rinit ++ [rlast]) ++ [[]]) := rfl
  have hgood : ∀ u ∈ resolve ([] :: dus) (rinit ++ [rlast]) ++ [[]], GoodSeg u := by
    intro u hu
    simp only [List.mem_append, List.mem_cons, List.not_mem_nil, or_false] at hu
    rcases hu with hu | rfl
    · exact up_resolve_good _ _ hall u hu
    · exact up_goodSeg_nil
  rw [e1, up_unquote_of_enc (up_enc_append up_enc_slash (up_enc_joinWith _ hgood)), List.map_append,
    ← up_resolve_map unquote _ _ (fun x hx => (hall x hx).2.2)]
  unfold render
  rw [up_unsegments_eq]
  rfl

/-- a quoted relative reference to a directory -/
theorem up_join_eq_resolve_dir (dir file ref : Str) (hd : absDir dir) (hf : '/' ∉ file) (hne : ref ≠ [])
    (hrel : ref.head? ≠ some '/') (hfile : namesFile ref = false) :
    urlToPath (join (pathToUrl (dir ++ '/' :: file)) (quote ref)) =
      render (resolve (segments dir) (segments ref) ++ [[]]) := by
  obtain ⟨ds, hds, hdsl, hbase⟩ := up_pathToUrl_segments dir file hd hf
  -- the reference's segments
  obtain ⟨l, hl⟩ : ∃ l, (splitOn '/' ref).getLast? = some l := by
    cases h : (splitOn '/' ref).getLast? with
    | none => exact absurd (List.getLast?_eq_none_iff.1 h) (up_splitOn_ne_nil '/' ref)
    | some l => exact ⟨l, rfl⟩
  obtain ⟨rinit, hsp⟩ := List.getLast?_eq_some_iff.1 hl
  have hdl : DirLast l := by
    rw [up_dirLast_iff]
    unfold namesFile at hfile
    rw [up_segments_eq, hl] at hfile
    exact hfile
  have hq : quote ref = joinWith '/' (rinit.map quote ++ [l]) := by
    have e := up_joinWith_splitOn '/' ref
    rw [← e, up_quote_joinWith, hsp]
    simp [up_dirLast_quote l hdl]
  have hqne : quote ref ≠ [] := fun e => hne ((up_quote_eq_nil ref).1 e)
  have h0 := up_quote_head ref hrel
  have hns := up_quote_nocolon ref
  rw [hq] at h0 hns hqne
  rw [hbase, hq, up_join_paths_dir (ds.map quote) (quote file) (rinit.map quote) l
    (by intro u hu; simp only [List.mem_map] at hu; obtain ⟨p, hp, rfl⟩ := hu; exact up_goodSeg_quote p (hdsl p hp))
    (up_goodSeg_quote file hf).2.1
    (by
      intro u hu
      simp only [List.mem_map] at hu
      obtain ⟨p, hp, rfl⟩ := hu
      exact up_goodSeg_quote p (up_splitOn_pieces '/' ref p (by rw [hsp]; simp [hp])))
    hdl hqne h0 hns]
  rw [hds, up_segments_eq ref, hsp, List.map_cons, up_map_unquote_quote, List.map_append, up_map_unquote_quote,
    List.map_cons, List.map_nil, up_dirLast_unquote l hdl]
  rfl

/-- **joining = resolving, every non-empty relative reference**: a reference to a file gives the resolved path, a
    reference to a directory gives it with a trailing slash -/
theorem up_join_eq_resolve_any (dir file ref : Str) (hd : absDir dir) (hf : '/' ∉ file) (hne : ref ≠ [])
    (hrel : ref.head? ≠ some '/') :
    urlToPath (join (pathToUrl (dir ++ '/' :: file)) (quote ref)) =
      render (resolve (segments dir) (segments ref) ++ (if namesFile ref then [] else [[]])) := by
  by_cases hfile : namesFile ref = true
  · rw [if_pos hfile, List.append_nil]
    apply up_join_eq_resolve dir file ref hd hf
    refine ⟨hrel, ?_⟩
    unfold namesFile at hfile
    cases h : (segments ref).getLast? with
    | none => rw [h] at hfile; simp at hfile
    | some l => rw [h] at hfile; exact ⟨l, rfl, hfile⟩
  · rw [if_neg hfile]
    exact up_join_eq_resolve_dir dir file ref hd hf hne hrel (by simpa using hfile)

end ZCV.UrlPath
