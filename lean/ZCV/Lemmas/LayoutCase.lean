import ZCV.Lemmas.Grammar
import ZCV.Lemmas.DefinesSpec
/-!
C15: how a section header line is read depends on the spelling of its type and name only through `lower`.
Closed formulas for the classification of `<type name>`, `<type name/>`, `<type>`, `<type/>`, `</type>`.
-/
namespace ZCV.Grammar
open ZCV

/-- a non-empty run of key/type/name characters -/
def Word (w : Str) : Prop := w ≠ [] ∧ w.all isWord = true
instance (w : Str) : Decidable (Word w) := by unfold Word; infer_instance

/-- `<type ws name>` or `<type ws name/>` -/
def hdrLine (ty ws nm : Str) (e : Bool) : Str := '<' :: (ty ++ ws ++ nm ++ (if e then ['/', '>'] else ['>']))
/-- `<type>` or `<type/>` -/
def hdrLine1 (ty : Str) (e : Bool) : Str := '<' :: (ty ++ (if e then ['/', '>'] else ['>']))
/-- `</type>` -/
def closeLine (ty : Str) : Str := '<' :: '/' :: (ty ++ ['>'])

theorem dropLast_snoc (x : Str) (c : Char) : dropLast (x ++ [c]) = x := by
  unfold dropLast; simp

theorem rstrip_keep (x : Str) (h : ∀ c ∈ x.getLast?, pySpace c = false) : rstrip x = x := by
  unfold rstrip
  cases hx : x.reverse with
  | nil =>
    have : x = [] := by simpa using hx
    subst this; rfl
  | cons c r =>
    have hl : x.getLast? = some c := by rw [List.getLast?_eq_head?_reverse, hx]; rfl
    have hc := h c (by rw [hl]; rfl)
    rw [List.dropWhile_cons]
    simp only [hc, Bool.false_eq_true, ↓reduceIte]
    rw [← hx, List.reverse_reverse]

theorem strip_angle (x : Str) : strip ('<' :: (x ++ ['>'])) = '<' :: (x ++ ['>']) := by
  unfold strip lstrip
  rw [List.dropWhile_cons]
  have h1 : pySpace '<' = false := by decide
  simp only [h1, Bool.false_eq_true, ↓reduceIte]
  apply rstrip_keep
  intro c hc
  have : ('<' :: (x ++ ['>'])).getLast? = some '>' := by
    rw [← List.cons_append, List.getLast?_append]; rfl
  rw [this] at hc
  cases hc
  decide

theorem word_head {w : Str} (h : Word w) : ∃ c t, w = c :: t ∧ isWord c = true ∧ t.all isWord = true := by
  obtain ⟨hne, ha⟩ := h
  cases w with
  | nil => exact absurd rfl hne
  | cons c t =>
    simp only [List.all_cons, Bool.and_eq_true] at ha
    exact ⟨c, t, rfl, ha.1, ha.2⟩

theorem word_last_not_space {w : Str} (h : Word w) : ∀ c ∈ w.getLast?, pySpace c = false := by
  intro c hc
  have hm : c ∈ w := List.mem_of_getLast? hc
  have := (List.all_eq_true.mp h.2) c hm
  exact Cfg.isWord_not_space this

theorem isWord_space {c : Char} (h : pySpace c = true) : isWord c = false := by
  simp [isWord, h]

theorem header_one (ty : Str) (hty : Word ty) : header ty = some (ty, none) := by
  have h := SubstSpec.takeWhile_all' isWord ty hty.2 [] (by simp)
  simp only [List.append_nil] at h
  unfold header
  simp only [h.1, h.2, hty.1, ↓reduceIte]

theorem header_two (ty ws nm : Str) (hty : Word ty) (hnm : Word nm) (hws : ws ≠ []) (hsp : ws.all pySpace = true) :
    header (ty ++ ws ++ nm) = some (ty, some nm) := by
  obtain ⟨c, t, rfl, hc, ht⟩ := word_head hnm
  obtain ⟨s, ws', rfl⟩ := List.exists_cons_of_ne_nil hws
  simp only [List.all_cons, Bool.and_eq_true] at hsp
  have h1 := SubstSpec.takeWhile_all' isWord ty hty.2 ((s :: ws') ++ c :: t)
    (by intro x hx; simp at hx; subst hx; exact isWord_space hsp.1)
  have h2 := SubstSpec.takeWhile_all' pySpace (s :: ws') (by simp [hsp.1, hsp.2]) (c :: t)
    (by intro x hx; simp at hx; subst hx; exact Cfg.isWord_not_space hc)
  have h3 := SubstSpec.takeWhile_all' isWord (c :: t) (by simp [hc, ht]) [] (by simp)
  simp only [List.append_nil] at h3
  unfold header
  rw [List.append_assoc]
  simp only [h1.1, h1.2, h2.2, h3.1, h3.2, hty.1, ↓reduceIte]
  simp
  omega

/-- a line `<x>` whose `x` does not start with `/` is read as a section start -/
theorem classify_open (x : Str) (hx : x.head? ≠ some '/') :
    classify ('<' :: (x ++ ['>'])) =
      match header (rstrip (if x.getLast? = some '/' then dropLast x else x)) with
      | none => .bad
      | some (ty, nm) => .open_ (lower ty) (nm.map lower) (decide (x.getLast? = some '/')) := by
  unfold classify
  simp only [strip_angle]
  have hlast : (x ++ ['>']).getLast? = some '>' := by rw [List.getLast?_append]; rfl
  have hdl : dropLast (x ++ ['>']) = x := dropLast_snoc _ _
  cases x with
  | nil => simp [dropLast]; rfl
  | cons c t =>
    have hc : c ≠ '/' := by intro h; apply hx; simp [h]
    rw [List.cons_append]
    split
    next h => simp at h
    next h => simp at h
    next rest h =>
      injection h with _ h
      injection h with h _
      exact absurd h hc
    next rest hne h =>
      injection h with _ h
      subst h
      rw [← List.cons_append, hlast, hdl]
      simp only [ne_eq, not_true_eq_false, ↓reduceIte]
      rfl
    next h => simp at h
    next h1 h2 h3 h4 h5 => exact absurd rfl (h4 _)

theorem getLast_append_word (a w : Str) (hw : w ≠ []) : (a ++ w).getLast? = w.getLast? := by
  rw [List.getLast?_append]
  cases h : w.getLast? with
  | none => simp [List.getLast?_eq_none_iff] at h; exact absurd h hw
  | some c => rfl

/-- `<type name>` / `<type name/>`: the header with lower-cased type and name -/
theorem classify_hdrLine (ty ws nm : Str) (e : Bool) (hty : Word ty) (hnm : Word nm)
    (hws : ws ≠ []) (hsp : ws.all pySpace = true) (hslash : ty.head? ≠ some '/') (hlast : nm.getLast? ≠ some '/') :
    classify (hdrLine ty ws nm e) = .open_ (lower ty) (some (lower nm)) e := by
  obtain ⟨c, t, hty', _, _⟩ := word_head hty
  have hkeep : rstrip (ty ++ ws ++ nm) = ty ++ ws ++ nm :=
    rstrip_keep _ (by rw [getLast_append_word _ _ hnm.1]; exact word_last_not_space hnm)
  unfold hdrLine
  cases e with
  | false =>
    simp only [Bool.false_eq_true, ↓reduceIte]
    rw [classify_open _ (by rw [hty']; simpa [hty'] using hslash)]
    have hl : (ty ++ ws ++ nm).getLast? ≠ some '/' := by rw [getLast_append_word _ _ hnm.1]; exact hlast
    simp only [hl, ↓reduceIte, hkeep, header_two ty ws nm hty hnm hws hsp, Option.map_some, decide_false]
  | true =>
    simp only [↓reduceIte]
    rw [show ty ++ ws ++ nm ++ ['/', '>'] = (ty ++ ws ++ nm ++ ['/']) ++ ['>'] by simp]
    rw [classify_open _ (by rw [hty']; simpa [hty'] using hslash)]
    have hl : (ty ++ ws ++ nm ++ ['/']).getLast? = some '/' := by rw [List.getLast?_append]; rfl
    have hd : dropLast (ty ++ ws ++ nm ++ ['/']) = ty ++ ws ++ nm := dropLast_snoc _ _
    simp only [hl, ↓reduceIte, hd, hkeep, header_two ty ws nm hty hnm hws hsp, Option.map_some, decide_true]

/-- `<type>` / `<type/>` -/
theorem classify_hdrLine1 (ty : Str) (e : Bool) (hty : Word ty)
    (hslash : ty.head? ≠ some '/') (hlast : ty.getLast? ≠ some '/') :
    classify (hdrLine1 ty e) = .open_ (lower ty) none e := by
  obtain ⟨c, t, hty', _, _⟩ := word_head hty
  have hkeep : rstrip ty = ty := rstrip_keep _ (word_last_not_space hty)
  unfold hdrLine1
  cases e with
  | false =>
    simp only [Bool.false_eq_true, ↓reduceIte]
    rw [classify_open _ hslash]
    simp only [hlast, ↓reduceIte, hkeep, header_one ty hty, Option.map_none, decide_false]
  | true =>
    simp only [↓reduceIte]
    rw [show ty ++ ['/', '>'] = (ty ++ ['/']) ++ ['>'] by simp]
    rw [classify_open _ (by rw [hty']; simpa [hty'] using hslash)]
    have hl : (ty ++ ['/']).getLast? = some '/' := by rw [List.getLast?_append]; rfl
    have hd : dropLast (ty ++ ['/']) = ty := dropLast_snoc _ _
    simp only [hl, ↓reduceIte, hd, hkeep, header_one ty hty, Option.map_none, decide_true]

/-- `</type>` -/
theorem classify_closeLine (ty : Str) : classify (closeLine ty) = .close (lower (rstrip ty)) := by
  unfold closeLine classify
  have := strip_angle ('/' :: ty)
  rw [List.cons_append] at this
  simp only [this]
  have hlast : (ty ++ ['>']).getLast? = some '>' := by rw [List.getLast?_append]; rfl
  have hdl : dropLast (ty ++ ['>']) = ty := dropLast_snoc _ _
  simp only [hlast, hdl, ne_eq, not_true_eq_false, ↓reduceIte]

end ZCV.Grammar

namespace ZCV.Cfg
open ZCV ZCV.Grammar

theorem word_no_nl {w : Str} (h : Word w) : '\n' ∉ w := by
  intro hm
  have h1 := (List.all_eq_true.mp h.2) _ hm
  have h2 := isWord_not_space h1
  rw [pySpace_nl] at h2
  cases h2

theorem shape_of_classify_open {line a : Str} {b : Option Str} {e : Bool} (hn : '\n' ∉ line)
    (h : Grammar.classify line = .open_ a b e) : lineShape (strip line) = .open_ a b e := by
  have := lineShape_eq_classify line hn
  rw [h] at this
  cases hs : lineShape (strip line) <;> rw [hs] at this <;> simp [toSpec] at this
  rw [this.1, this.2.1, this.2.2]

theorem shape_of_classify_close {line a : Str} (hn : '\n' ∉ line)
    (h : Grammar.classify line = .close a) : lineShape (strip line) = .close a := by
  have := lineShape_eq_classify line hn
  rw [h] at this
  cases hs : lineShape (strip line) <;> rw [hs] at this <;> simp [toSpec] at this
  rw [this]

/-- the parser model on `<type name>` / `<type name/>` -/
theorem lineShape_hdrLine (ty ws nm : Str) (e : Bool) (hty : Word ty) (hnm : Word nm)
    (hws : ws ≠ []) (hsp : ws.all pySpace = true) (hnl : '\n' ∉ ws)
    (hslash : ty.head? ≠ some '/') (hlast : nm.getLast? ≠ some '/') :
    lineShape (strip (hdrLine ty ws nm e)) = .open_ (lower ty) (some (lower nm)) e := by
  apply shape_of_classify_open
  · unfold hdrLine
    have h1 := word_no_nl hty
    have h2 := word_no_nl hnm
    cases e <;> simp [h1, h2, hnl]
  · exact classify_hdrLine ty ws nm e hty hnm hws hsp hslash hlast

/-- the parser model on `<type>` / `<type/>` -/
theorem lineShape_hdrLine1 (ty : Str) (e : Bool) (hty : Word ty)
    (hslash : ty.head? ≠ some '/') (hlast : ty.getLast? ≠ some '/') :
    lineShape (strip (hdrLine1 ty e)) = .open_ (lower ty) none e := by
  apply shape_of_classify_open
  · unfold hdrLine1
    have h1 := word_no_nl hty
    cases e <;> simp [h1]
  · exact classify_hdrLine1 ty e hty hslash hlast

/-- the parser model on `</type>` -/
theorem lineShape_closeLine (ty : Str) (hty : Word ty) :
    lineShape (strip (closeLine ty)) = .close (lower ty) := by
  apply shape_of_classify_close
  · unfold closeLine
    have h1 := word_no_nl hty
    simp [h1]
  · rw [classify_closeLine, rstrip_keep ty (word_last_not_space hty)]

end ZCV.Cfg
