import ZCV.Lemmas.ElabRules
/-!
Document-level consequences of the per-handler rules: in a document that the schema loader accepts, every element, at
every depth, passed the nesting check and had its start handler succeed in some loader state.
-/
namespace ZCV.Elab
open ZCV ZCV.Cfg

/-- `Occurs p root q n`: the node `n` occurs in the tree `root` (whose parent tag is `p`), below the parent tag `q` -/
inductive Occurs : Option Str → Node → Option Str → Node → Prop
  | here {p n} : Occurs p n p n
  | child {p t a children c q n} : c ∈ children → Occurs (some t) c q n → Occurs p (.elem t a children) q n

theorem visitChildren_ok_mem {env : Env} {h : Hooks} {d : DocKind} {parent : Str} :
    ∀ {l : List Node} {st st' : PSt}, visitChildren env h d parent st l = .ok st' →
      ∀ t a c, Node.elem t a c ∈ l → ∃ sa sb, visitElem env h d (some parent) sa (.elem t a c) = .ok sb := by
  intro l
  induction l with
  | nil => intro st st' _ t a c hn; cases hn
  | cons x l ih =>
    intro st st' hv t a c hn
    cases x with
    | text s =>
      rw [visitChildren_text] at hv
      by_cases hb : (strip s).isEmpty = true
      · rw [if_pos hb] at hv
        rcases List.mem_cons.1 hn with h0 | hn
        · cases h0
        · exact ih hv t a c hn
      · rw [if_neg hb] at hv; cases hv
    | elem t0 a0 c0 =>
      rw [visitChildren_elem] at hv
      obtain ⟨st1, h1, h2⟩ := er_bind_ok hv
      rcases List.mem_cons.1 hn with h0 | hn
      · cases h0; exact ⟨st, st1, h1⟩
      · exact ih h2 t a c hn

theorem collectText_ok_text {parent : Str} : ∀ {l : List Node} {s : Str}, collectText parent l = .ok s →
    ∀ n ∈ l, ∃ x, n = .text x := by
  intro l
  induction l with
  | nil => intro s _ n hn; cases hn
  | cons x l ih =>
    intro s h n hn
    cases x with
    | text y =>
      rw [collectText] at h
      rcases List.mem_cons.1 hn with rfl | hn
      · exact ⟨y, rfl⟩
      · cases hc : collectText parent l with
        | error e => rw [hc] at h; cases h
        | ok r => exact ih hc n hn
    | elem t a c =>
      rw [collectText] at h
      split at h <;> cases h

/-- the element `t` may stand where it stands: below `par` the table allows it; at the root it is the document element -/
def PlaceOk (d : DocKind) (q : Option Str) (t : Str) : Prop :=
  match q with
  | some par => nestingCheck par t = .ok ()
  | none => t = d.topLevel

/-- character data in a component may repeat descriptions -/
def DocKind.isComponent : DocKind → Bool
  | .component => true
  | _ => false

theorem DocKind.isComponent_eq (d : DocKind) :
    (match d with | .component => true | _ => false) = d.isComponent := by cases d <;> rfl

/-- how an accepted element was processed, from the loader state before its start tag to the state after its end tag -/
inductive Processed (env : Env) (h : Hooks) (d : DocKind) (t : Str) (a : Attrs) (c : List Node) : PSt → PSt → Prop
  /-- the document element -/
  | top (st st1 st2 st' : PSt) : t = d.topLevel →
      (match d with
        | .schema ext => startSchema env h ext st a
        | .component => pushPrefix { st with stack := [] } a) = .ok st1 →
      visitChildren env h d t st1 c = .ok st2 →
      (match d with
        | .schema ext => endSchema ext.isSome st2
        | .component => .ok (popPrefix st2)) = .ok st' → Processed env h d t a c st st'
  /-- an element with a start and an end handler -/
  | handled (st st1 st2 st' : PSt) : t ≠ d.topLevel → d.handled.contains t = true →
      startHandled env h t a st = .ok st1 → visitChildren env h d t st1 c = .ok st2 →
      endHandled env t st2 = .ok st' → Processed env h d t a c st st'
  /-- a character-data element -/
  | cdata (st st' : PSt) (data : Str) : t ≠ d.topLevel → d.handled.contains t = false →
      Gen.cdataTags.contains t = true → collectText t c = .ok data →
      charactersTag d.isComponent t a (strip data) st = .ok st' →
      Processed env h d t a c st st'

theorem visitElem_ok_processed {env : Env} {h : Hooks} {d : DocKind} {p : Option Str} {st st' : PSt} {t : Str}
    {a : Attrs} {c : List Node} (hv : visitElem env h d p st (.elem t a c) = .ok st') :
    PlaceOk d p t ∧ Processed env h d t a c st st' := by
  unfold visitElem at hv
  simp only at hv
  constructor
  · unfold PlaceOk
    cases p with
    | none =>
      simp only at hv ⊢
      by_cases ht : t = d.topLevel
      · exact ht
      · simp only [bne_iff_ne, ne_eq, ht, not_false_eq_true, ↓reduceIte] at hv
        cases hv
    | some par =>
      simp only at hv ⊢
      cases hn : nestingCheck par t with
      | error e => rw [hn] at hv; cases hv
      | ok u => rfl
  · split at hv
    · cases hv
    · split at hv
      · rename_i ht
        have ht' : t = d.topLevel := by simpa using ht
        split at hv
        · cases hv
        · rename_i st1 hs
          split at hv
          · cases hv
          · rename_i st2 hc
            exact .top st st1 st2 st' ht' hs hc hv
      · rename_i ht
        have ht' : t ≠ d.topLevel := by simpa using ht
        split at hv
        · rename_i hh
          split at hv
          · cases hv
          · rename_i st1 hs
            split at hv
            · cases hv
            · rename_i st2 hc
              exact .handled st st1 st2 st' ht' hh hs hc hv
        · rename_i hh
          split at hv
          · rename_i hcd
            split at hv
            · cases hv
            · rename_i data hct
              have hv' : charactersTag d.isComponent t a (strip data) st = .ok st' := by
                cases d <;> exact hv
              exact .cdata st st' data ht' (by simpa using hh) hcd hct hv'
          · cases hv

/-- the children of a processed element were read as elements (after its start handler) or as character data -/
theorem Processed.children {env : Env} {h : Hooks} {d : DocKind} {t : Str} {a : Attrs} {c : List Node} {st st' : PSt}
    (hp : Processed env h d t a c st st') :
    (∃ s1 s2, visitChildren env h d t s1 c = .ok s2) ∨
    (Gen.cdataTags.contains t = true ∧ ∃ data, collectText t c = .ok data) := by
  cases hp
  · left; exact ⟨_, _, by assumption⟩
  · left; exact ⟨_, _, by assumption⟩
  · right; exact ⟨by assumption, _, by assumption⟩

/-- `Processed`, spelled out as a disjunction -/
theorem Processed.inv {env : Env} {h : Hooks} {d : DocKind} {t : Str} {a : Attrs} {c : List Node} {st st' : PSt}
    (hp : Processed env h d t a c st st') :
    (t = d.topLevel ∧ ∃ s1 s2,
        (match d with
          | .schema ext => startSchema env h ext st a
          | .component => pushPrefix { st with stack := [] } a) = .ok s1 ∧
        visitChildren env h d t s1 c = .ok s2 ∧
        (match d with
          | .schema ext => endSchema ext.isSome s2
          | .component => .ok (popPrefix s2)) = .ok st') ∨
    (t ≠ d.topLevel ∧ ∃ s1 s2, startHandled env h t a st = .ok s1 ∧ visitChildren env h d t s1 c = .ok s2 ∧
        endHandled env t s2 = .ok st') ∨
    (d.handled.contains t = false ∧ Gen.cdataTags.contains t = true ∧ ∃ data, collectText t c = .ok data ∧
        charactersTag d.isComponent t a (strip data) st = .ok st') := by
  cases hp
  · exact Or.inl ⟨by assumption, _, _, by assumption, by assumption, by assumption⟩
  · exact Or.inr (Or.inl ⟨by assumption, _, _, by assumption, by assumption, by assumption⟩)
  · exact Or.inr (Or.inr ⟨by assumption, by assumption, _, by assumption, by assumption⟩)

/-- every element of an accepted document, at any depth, passed the nesting check (the root: is the document element)
and was processed by its handlers successfully in some loader state -/
theorem accepted_elements {env : Env} {h : Hooks} {d : DocKind} :
    ∀ {p : Option Str} {root : Node} {q : Option Str} {n : Node}, Occurs p root q n →
      ∀ {st st' : PSt}, visitElem env h d p st root = .ok st' →
      ∀ t a c, n = .elem t a c →
        PlaceOk d q t ∧ ∃ s0 s3, Processed env h d t a c s0 s3 := by
  intro p root q n ho
  induction ho with
  | here =>
    intro st st' hv t a c hn
    subst hn
    exact ⟨(visitElem_ok_processed hv).1, st, st', (visitElem_ok_processed hv).2⟩
  | @child p t0 a0 children c0 q n hmem _ ih =>
    intro st st' hv t a c hn
    obtain ⟨_, hp⟩ := visitElem_ok_processed hv
    cases c0 with
    | text s =>
      rename_i hocc
      cases hocc with
      | here => cases hn
    | elem t1 a1 c1 =>
      rcases hp.children with ⟨s1, s2, hc⟩ | ⟨_, data, hct⟩
      · obtain ⟨sa, sb, hx⟩ := visitChildren_ok_mem hc t1 a1 c1 hmem
        exact ih hx t a c hn
      · obtain ⟨x, hx⟩ := collectText_ok_text hct _ hmem
        cases hx

/-- every text node of an accepted document is blank, unless it is the content of a character-data element
(or the tree is just that text node) -/
theorem accepted_text {env : Env} {h : Hooks} {d : DocKind} :
    ∀ {p : Option Str} {root : Node} {q : Option Str} {n : Node}, Occurs p root q n →
      ∀ {st st' : PSt}, visitElem env h d p st root = .ok st' →
      ∀ s par, n = .text s → q = some par →
        (p = q ∧ root = n) ∨ (strip s).isEmpty = true ∨ Gen.cdataTags.contains par = true := by
  intro p root q n ho
  induction ho with
  | here => intro st st' _ s par _ _; exact Or.inl ⟨rfl, rfl⟩
  | @child p t0 a0 children c0 q n hmem hocc ih =>
    intro st st' hv s par hn hq
    right
    obtain ⟨_, hp⟩ := visitElem_ok_processed hv
    cases c0 with
    | text s0 =>
      cases hocc with
      | here =>
        cases hn; cases hq
        rcases hp.children with ⟨s1, s2, hc⟩ | ⟨hcd, _⟩
        · exact Or.inl (visitChildren_ok_all hc _ hmem)
        · exact Or.inr hcd
    | elem t1 a1 c1 =>
      have hne : ¬ (some t0 = q ∧ Node.elem t1 a1 c1 = n) := by rw [hn]; rintro ⟨_, e⟩; cases e
      rcases hp.children with ⟨s1, s2, hc⟩ | ⟨_, data, hct⟩
      · obtain ⟨sa, sb, hx⟩ := visitChildren_ok_mem hc t1 a1 c1 hmem
        exact (ih hx s par hn hq).resolve_left hne
      · obtain ⟨x, hx⟩ := collectText_ok_text hct _ hmem
        cases hx

/-! ### the seven elements with handlers -/

theorem handledTag (d : DocKind) (t : Str) (ht : t ∈ Gen.handledTags) :
    t ≠ d.topLevel ∧ d.handled.contains t = true := by
  cases d with
  | schema ext =>
    have : ∀ t ∈ Gen.handledTags, t ≠ Gen.schemaTopLevel ∧ Gen.schemaHandledTags.contains t = true := by
      decide +kernel
    exact this t ht
  | component =>
    have : ∀ t ∈ Gen.handledTags, t ≠ Gen.componentTopLevel ∧ Gen.componentHandledTags.contains t = true := by
      decide +kernel
    exact this t ht

/-- an element with a handler, anywhere in an accepted document: its start handler succeeded in some loader state -/
theorem accepted_start {env : Env} {h : Hooks} {d : DocKind} {p q : Option Str} {root : Node} {t : Str} {a : Attrs}
    {c : List Node} {st st' : PSt} (ho : Occurs p root q (.elem t a c))
    (hv : visitElem env h d p st root = .ok st') (ht : t ∈ Gen.handledTags) :
    ∃ s0 s1, startHandled env h t a s0 = .ok s1 := by
  obtain ⟨h1, h2⟩ := handledTag d t ht
  obtain ⟨_, s0, s3, hp⟩ := accepted_elements ho hv t a c rfl
  cases hp
  · rename_i ht' _ _ _; exact absurd ht' h1
  · exact ⟨_, _, by assumption⟩
  · rename_i hh _ _ _; rw [h2] at hh; cases hh

theorem startHandled_key (env : Env) (h : Hooks) (a : Attrs) (st : PSt) :
    startHandled env h "key".toList a st = startKey env st a := rfl
theorem startHandled_multikey (env : Env) (h : Hooks) (a : Attrs) (st : PSt) :
    startHandled env h "multikey".toList a st = startMultikey env st a := rfl
theorem startHandled_section (env : Env) (h : Hooks) (a : Attrs) (st : PSt) :
    startHandled env h "section".toList a st = startSection env st a := rfl
theorem startHandled_multisection (env : Env) (h : Hooks) (a : Attrs) (st : PSt) :
    startHandled env h "multisection".toList a st = startMultisection env st a := rfl
theorem startHandled_sectiontype (env : Env) (h : Hooks) (a : Attrs) (st : PSt) :
    startHandled env h "sectiontype".toList a st = startSectiontype env st a := rfl
theorem startHandled_abstracttype (env : Env) (h : Hooks) (a : Attrs) (st : PSt) :
    startHandled env h "abstracttype".toList a st = startAbstracttype st a := rfl
theorem startHandled_import (env : Env) (h : Hooks) (a : Attrs) (st : PSt) :
    startHandled env h "import".toList a st = startImport env h st a := rfl

theorem startSection_ok_type {env : Env} {st st' : PSt} {attrs : Attrs} (h : startSection env st attrs = .ok st') :
    ∃ ty req, getSectiontype st attrs = .ok ty ∧ getRequired attrs = .ok req := by
  unfold startSection at h
  cases h1 : getSectiontype st attrs with
  | error e => simp only [h1, bind, Except.bind] at h; cases h
  | ok ty =>
    cases h2 : getHandler attrs with
    | error e => simp only [h1, h2, bind, Except.bind] at h; cases h
    | ok hd =>
      cases h3 : getRequired attrs with
      | error e => simp only [h1, h2, h3, bind, Except.bind] at h; cases h
      | ok req => exact ⟨ty, req, rfl, rfl⟩

theorem startMultisection_ok_type {env : Env} {st st' : PSt} {attrs : Attrs}
    (h : startMultisection env st attrs = .ok st') :
    ∃ ty req, getSectiontype st attrs = .ok ty ∧ getRequired attrs = .ok req := by
  unfold startMultisection at h
  obtain ⟨ty, h1, h⟩ := er_bind_ok h
  obtain ⟨req, h2, h⟩ := er_bind_ok h
  exact ⟨ty, req, h1, h2⟩

theorem elabES_ok {env : Env} {fuel : Nat} {tree : Node} {es : ES} (h : elabES env fuel tree = .ok es) :
    ∃ st', visitElem env (hooks env fuel) (.schema none) none { es := emptyES } tree = .ok st' ∧ st'.es = es := by
  unfold elabES at h
  cases hv : visitElem env (hooks env fuel) (.schema none) none { es := emptyES } tree with
  | error e => rw [hv] at h; cases h
  | ok st' => rw [hv] at h; cases h; exact ⟨st', rfl, rfl⟩

/-! ### a small accepted document (non-vacuity of the document-level statements) -/

theorem regGet_stock (env : Env) (name : Str) (h1 : name.contains '.' = false) (h2 : DTSpec.isBasicKey name = true)
    (h3 : Gen.stockNames.contains (asciiLower name) = true) : regGet env name = .ok (asciiLower name) := by
  unfold regGet
  rw [h1, if_neg (by simp), DT.basicKey_eq_spec]
  unfold DTSpec.basicKey
  rw [if_pos h2]
  simp only [h3, ↓reduceIte]

theorem attr_nil (k : String) : attr [] k = none := rfl

theorem getSectTypeinfo_defaults (env : Env) (st : PSt) :
    getSectTypeinfo env st [] none = .ok ("basic-key".toList, "null".toList) := by
  have hk : regGet env "basic-key".toList = .ok "basic-key".toList :=
    regGet_stock env _ (by decide) (by decide) (by decide +kernel)
  have hs : regGet env "string".toList = .ok "string".toList :=
    regGet_stock env _ (by decide) (by decide) (by decide +kernel)
  have hn : regGet env "null".toList = .ok "null".toList :=
    regGet_stock env _ (by decide) (by decide) (by decide +kernel)
  unfold getSectTypeinfo
  simp only [Option.map_none, getDatatype_default env st [] _ _ rfl, hk, hs, hn, bind, Except.bind, pure, Except.pure]

theorem startSchema_empty (env : Env) (h : Hooks) :
    startSchema env h none { es := emptyES } [] =
      .ok { es := { types := [], top := { name := none, keytype := "basic-key".toList, datatype := "null".toList },
                    handler := none, components := [] },
            prefixes := [[]], stack := [.schema] } := by
  unfold startSchema
  rw [pushPrefix_none _ [] rfl]
  simp only [bind, Except.bind, pure, Except.pure, getHandler, attr_nil, getSectTypeinfo_defaults]
  rfl

/-- `<schema><abstracttype name="a"/></schema>` -/
def exDoc : Node :=
  .elem "schema".toList [] [.elem "abstracttype".toList [("name".toList, "a".toList)] []]

theorem exDoc_accepted (env : Env) (fuel : Nat) : ∃ es, elabES env fuel exDoc = .ok es := by
  unfold elabES exDoc visitElem
  have h1 : ("schema".toList != (DocKind.schema none).topLevel) = false := by decide +kernel
  have h2 : ("schema".toList == (DocKind.schema none).topLevel) = true := by decide +kernel
  simp only [h1, h2, Bool.false_eq_true, ↓reduceIte, startSchema_empty]
  rw [visitChildren_elem]
  unfold visitElem
  have h3 : nestingCheck "schema".toList "abstracttype".toList = .ok () :=
    (nestingCheck_ok_iff _ _).2 ⟨["component".toList, "schema".toList], by decide +kernel, by decide +kernel⟩
  have h4 : ("abstracttype".toList == (DocKind.schema none).topLevel) = false := by decide +kernel
  have h5 : (DocKind.schema none).handled.contains "abstracttype".toList = true := by decide +kernel
  simp only [h3, h4, h5, Bool.false_eq_true, ↓reduceIte, startHandled_abstracttype]
  have h6 : attr [("name".toList, "a".toList)] "name" = some "a".toList := by decide +kernel
  have h7 : basicKeyE "a".toList = .ok "a".toList := by rw [basicKeyE_eq]; rfl
  rw [startAbstracttype_named _ _ _ _ h6 h7, addType_fresh _ _ _ (by simp [ES.typeNames])]
  simp only [Except.map, bind, Except.bind]
  rw [visitChildren]
  have h8 : endHandled env "abstracttype".toList = popFrame := by funext s; rfl
  simp only [h8, popFrame]
  rw [visitChildren]
  simp only [endSchema, popPrefix, List.drop_one, List.tail_cons, Option.isSome_none, Bool.false_eq_true, ↓reduceIte]
  exact ⟨_, rfl⟩

end ZCV.Elab
