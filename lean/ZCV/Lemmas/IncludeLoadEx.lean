import ZCV.Lemmas.IncludeLoad
import ZCV.Lemmas.IncludeGenEx
/-!
A concrete instance of the loader-level C06 theorems (non-vacuity): the three resources of `IncludeGenEx`

    d/top:   %define n f          d/f:   %define y 2          d/g:   j $y$n
             %include $n                 %include g
             i $y

loaded by `Cfg.load` under the URL `d/top` (so that `d/top` counts as being read), with a schema that accepts any key.
-/
namespace ZCV.Cfg.IncEx
open ZCV ZCV.Cfg ZCV.Conf

/-- a schema whose top level is one `<key name="+">`: every key is accepted -/
def anyKey : KeyInfo :=
  { name := "+".toList, attr := "m".toList, multi := false, minOccurs := 0, dt := "string".toList, dflt := .keyed [],
    handler := none }

def schema : Schema :=
  { types := [],
    top := { name := none, keytype := "basic-key".toList, datatype := "null".toList,
             children := [(some "+".toList, .key anyKey)] },
    handler := none, components := [] }

theorem schema_ok : schemaOK schema = true := by decide

/-- datatypes that convert nothing -/
def conv0 : Conv := { key := fun _ k => .ok k, val := fun _ v => .ok (.str v), sect := fun _ v => .ok v }

theorem active_ut : activeOf ut = ["d/top".toList] := by decide

/-- `parse_top` with any list of active resources that contains neither `d/f` nor `d/g` -/
theorem parse_top_act (fuel : Nat) (active : List Str) (hf : "d/f".toList ∉ active) (hg : "d/g".toList ∉ active) :
    parseLines (fuel + 2) env rec0 active ut (A ++ ["%include $n".toList] ++ B) 0 s0 =
      .ok { ctx := [.value "j".toList "2f".toList, .value "i".toList "2".toList], stack := [], defs := dny } := by
  rw [List.append_assoc, List.singleton_append,
    incgen_parse_at_include (fuel + 1) env rec0 active ut A B _ "$n".toList "f".toList "d/f".toList F 0 s0 s1 (run_A _ _ _)
      sh_inc_n rfl (replace_of_subst _ _ _ _ _ _ subst_n) (resolve_in_d _ _ (by decide)) res_f (.inr hf)]
  show parseLines (fuel + 1) env rec0 _ _ F 0 { ctx := [], stack := [], defs := dn } >>= _ = _
  rw [parse_F fuel _ _ (by
    intro h
    rcases List.mem_cons.1 h with h | h
    · exact absurd h (by decide)
    · exact hg h), ok_bind]
  have h : stepLine (fuel + 1 + 1) env rec0 active ut (0 + A.length + 1 + 1) (strip "i $y".toList)
      { ctx := [.value "j".toList "2f".toList], stack := [], defs := dny } =
      .ok { ctx := [.value "j".toList "2f".toList, .value "i".toList "2".toList], stack := [], defs := dny } :=
    step_kv (fuel + 1 + 1) env active ut (0 + A.length + 1 + 1) (strip "i $y".toList) "i".toList "$y".toList "2".toList
      { ctx := [.value "j".toList "2f".toList], stack := [], defs := dny } sh_i (by decide) subst_y
  unfold B
  show parseLines (fuel + 1 + 1) env rec0 active ut ["i $y".toList] (0 + A.length + 1)
    { ctx := [.value "j".toList "2f".toList], stack := [], defs := dny } = _
  rw [parse_cons (fuel + 1 + 1) env rec0 active ut "i $y".toList [] (0 + A.length + 1) _ _ h]
  exact parse_nil _ _ _ _ _ _ _ rfl

theorem noImport_A : ∀ l ∈ A, NoImportLine l := by
  intro l hl a
  simp only [A, List.mem_singleton] at hl
  subst hl
  rw [sh_def_n]
  exact fun h => by cases h

theorem noImport_B : ∀ l ∈ B, NoImportLine l := by
  intro l hl a
  simp only [B, List.mem_singleton] at hl
  subst hl
  rw [sh_i]
  exact fun h => by cases h

theorem noImport_res : ∀ u ls, env.res u = some ls → ∀ l ∈ ls, NoImportLine l := by
  intro u ls h l hl a
  change (if u = "d/f".toList then some F else if u = "d/g".toList then some G else none) = some ls at h
  split at h
  · cases h
    simp only [F, List.mem_cons, List.not_mem_nil, or_false] at hl
    rcases hl with hl | hl <;> subst hl
    · rw [sh_def_y]; exact fun h => by cases h
    · rw [sh_inc_g]; exact fun h => by cases h
  · split at h
    · cases h
      simp only [G, List.mem_singleton] at hl
      subst hl
      rw [sh_j]
      exact fun h => by cases h
    · cases h

/-- the hypotheses of `load_include_eq_inline_nested` hold for this text, any datatypes, any package table -/
theorem load_nested_instance (conv : Conv) (pkgs : Str → Pkg) :
    (load conv env pkgs schema ut (A ++ ["%include $n".toList] ++ B) []).toOption.map (·.value) =
      (load conv env pkgs schema ut (A ++ F ++ B) []).toOption.map (·.value) := by
  refine load_include_eq_inline_nested conv env pkgs schema ut A F B _ "$n".toList "d/f".toList schema_ok noImport_A
    noImport_B noImport_res sh_inc_n res_f ?_ (by rw [active_ut]; decide) balanced_F ?_ ?_
  · intro sA hA
    rw [show recSt0 = s0 from rfl, run_A] at hA
    cases hA
    exact ⟨"f".toList, replace_of_subst _ _ _ _ _ _ subst_n, resolve_in_d _ _ (by decide)⟩
  · intro l _ arg' _ a
    rw [resolve_in_d _ _ (by decide)]
    exact (resolve_in_d _ _ (by decide)).symm
  · rw [active_ut, show recSt0 = s0 from rfl, show (64 : Nat) = 62 + 2 from rfl,
      parse_top_act 62 _ (by decide) (by decide)]
    exact incgenNoLimit_ok _

/-- … and both texts are ACCEPTED (with datatypes that convert nothing), with the configuration `{i: 2, j: 2f}`:
    obtained for the inlined text from the theorem and the events of the text with the `%include` line -/
theorem load_inlined_value (pkgs : Str → Pkg) :
    (load conv0 env pkgs schema ut (A ++ F ++ B) []).toOption.map (·.value) =
      some (.sect [] none [("m".toList, .map [("j".toList, .str "2f".toList), ("i".toList, .str "2".toList)])]) := by
  rw [← load_nested_instance conv0 pkgs,
    load_value_events conv0 env pkgs schema ut _ schema_ok
      (noImport_include_text A B _ _ sh_inc_n noImport_A noImport_B) noImport_res]
  unfold recOutcome
  rw [active_ut, show recSt0 = s0 from rfl, show (64 : Nat) = 62 + 2 from rfl, parse_top_act 62 _ (by decide) (by decide)]
  rfl

end ZCV.Cfg.IncEx
