import ZCV.Gen.CodeCmdline
import ZCV.Model.Matcher
import ZCV.Lemmas.CodeEqDatatypes
/-!
# The generated code of `ZConfig/cmdline.py` equals the hand-written model

`Gen.Code.addOption` (the translation of `ExtendedConfigLoader.addOption`, rendered as the function returning the item
it appends to `self.clopts`), `Gen.Code.OptionBag_basic_key`, `Gen.Code.OptionBag_normalize_case` against `Cfg.addOption`
and the steps of `Cfg.bagSectionInfo` that use them.  `embedAddOption` re-tags: the model's item `(path, val)` gets the
default position the code supplies; the model's `ConfigurationSyntaxError` (kind, line, url; its `tag` stands for the
message) becomes the class with `(url, lineno, colno = -1)` and the attribute `specifier` the code sets.
-/
set_option linter.unusedSimpArgs false
namespace ZCV.CodeEq
open ZCV ZCV.Py ZCV.Gen.Code

/-- the position `addOption` supplies when none is given -/
def cmdlinePos : Str × Int × Int := ("<command-line option>".toList, -1, -1)

/-- the model's failure in the generated code's vocabulary (`spec` = the specifier the code attaches) -/
def embedFail (spec : Option Str) : Cfg.Fail → PyExc
  | .cfg e =>
    match e.kind with
    | .syntax => .ConfigurationSyntaxError e.url e.line (some (-1)) spec
    | _ => .Other "ConfigurationError".toList
  | .internal n => .Other n.toList
  | .dtExc n => .Other n

/-- outcome re-tagging for `addOption` -/
def embedAddOption (spec : Str) : Cfg.M Cfg.OptItem → Except PyExc (List Str × Str × (Str × Int × Int))
  | .ok it => .ok (it.path, it.val, cmdlinePos)
  | .error f => .error (embedFail (some spec) f)

/-- the re-tagging loses nothing on accepted specifiers -/
theorem embedAddOption_ok_injective (spec : Str) (a b : Cfg.OptItem)
    (h : embedAddOption spec (.ok a) = embedAddOption spec (.ok b)) : a.path = b.path ∧ a.val = b.val := by
  simp only [embedAddOption, Except.ok.injEq, Prod.mk.injEq] at h
  exact ⟨h.1, h.2.1⟩

theorem splitOn_eq (s : Str) (c : Char) : Py.splitOn s c = Cfg.addOption.splitOn s c := by
  induction s with
  | nil => rfl
  | cons x t ih =>
    simp only [Py.splitOn, Cfg.addOption.splitOn, ih]
    split
    · rfl
    · cases Cfg.addOption.splitOn t c <;> rfl

/-- `addOption(spec)` (no position given) -/
theorem code_addOption_eq (spec : Str) : Gen.Code.addOption spec none = embedAddOption spec (Cfg.addOption spec) := by
  unfold Gen.Code.addOption Cfg.addOption
  by_cases h : spec.contains '=' = true
  · simp only [h, Bool.not_true, Bool.false_eq_true, ↓reduceIte, Py.split1, splitOn_eq]
    split <;> rfl
  · simp only [h, Bool.not_false, ↓reduceIte, Bool.false_eq_true]
    rfl

/-- giving the default position explicitly changes nothing -/
theorem code_addOption_default_pos (spec : Str) : Gen.Code.addOption spec (some cmdlinePos) = Gen.Code.addOption spec none := by
  unfold Gen.Code.addOption
  rfl

/-- `OptionBag._normalize_case` -/
theorem code_normalize_case_eq (s : Str) : OptionBag_normalize_case s = .ok (lower s) := rfl

/-- `OptionBag.basic_key(s, pos)` with the registry's `basic-key` conversion: the key, or a syntax error at `pos`
    (the step `match DT.basicKey p0 with | .error _ => syntax error` of `Cfg.bagSectionInfo`) -/
theorem code_bag_basic_key_eq (s : Str) (pos : Str × Int × Int) :
    OptionBag_basic_key Gen.Code.basic_key s pos =
      match DT.basicKey s with
      | .ok k => .ok k
      | .error _ => .error (.ConfigurationSyntaxError (some pos.1) (some pos.2.1) (some pos.2.2) none) := by
  unfold OptionBag_basic_key
  rw [code_basicKey_eq]
  unfold DT.basicKey DT.regexConv
  by_cases hm : Rx.matchesWhole Gen.basicKeyRx s = true
  · simp only [hm, ↓reduceIte]; rfl
  · simp only [hm, Bool.false_eq_true, ↓reduceIte]; rfl

end ZCV.CodeEq
