import ZCV.Lemmas.LoadEval
/-!
Step 1 of `loadTree_eq_denote`: slot selection.  `getsectioninfo` (operational, first claiming child decides, error as
soon as it refuses) computes the spec's `slotOf`; `isAllowedName` is `nameOK`.  Plus what `stypeOK` says per child.
-/
namespace ZCV.Conf
open ZCV ZCV.Cfg

@[simp] theorem toOption_ok {ε α} (a : α) : (Except.ok a : Except ε α).toOption = some a := rfl
@[simp] theorem toOption_error {ε α} (e : ε) : (Except.error e : Except ε α).toOption = none := rfl
theorem toOption_ite {ε α} (c : Prop) [Decidable c] (a b : Except ε α) :
    (if c then a else b).toOption = if c then a.toOption else b.toOption := by
  split <;> rfl

/-! ### `nodupB` -/

theorem nodupB_iff (l : List Str) : nodupB l = true ↔ l.Nodup := by
  induction l with
  | nil => simp [nodupB]
  | cons a t ih => simp [nodupB, ih]

theorem nodup_map_inj {α β} [DecidableEq β] (f : α → β) : ∀ (l : List α), (l.map f).Nodup →
    ∀ a ∈ l, ∀ b ∈ l, f a = f b → a = b := by
  intro l
  induction l with
  | nil => intro _ a ha; cases ha
  | cons x t ih =>
    intro hn a ha b hb hab
    simp only [List.map_cons, List.nodup_cons, List.mem_map, not_exists, not_and] at hn
    simp only [List.mem_cons] at ha hb
    rcases ha with rfl | ha
    · rcases hb with rfl | hb
      · rfl
      · exact absurd hab.symm (hn.1 b hb)
    · rcases hb with rfl | hb
      · exact absurd hab (hn.1 a ha)
      · exact ih hn.2 a ha b hb hab

/-! ### what `stypeOK` says -/

/-- per-child shape: a stored key is never empty, a child without key is a section -/
def keyShapeOK (c : Option Str × Info) : Prop :=
  (∀ k, c.1 = some k → k ≠ []) ∧ (c.1 = none → ∃ si, c.2 = .sect si) ∧ (∀ ki, c.2 = .key ki → c.1 = some ki.name)

structure STypeOK (s : Schema) (t : SType) : Prop where
  attrs : (t.children.map (·.2.attr)).Nodup
  keys : (t.children.filterMap (·.1)).Nodup
  shape : ∀ c ∈ t.children, keyShapeOK c

theorem stypeOK_prop (s : Schema) (t : SType) (h : stypeOK s t = true) : STypeOK s t := by
  unfold stypeOK distinctB at h
  simp only [Bool.and_eq_true, nodupB_iff, List.all_eq_true] at h
  obtain ⟨⟨⟨h1, h2⟩, _⟩, h4⟩ := h
  refine ⟨h1, h2, ?_⟩
  intro c hc
  have := h4 c hc
  obtain ⟨k, info⟩ := c
  cases info with
  | key ki =>
    simp only [Bool.and_eq_true, beq_iff_eq, Bool.not_eq_true', List.isEmpty_eq_false_iff] at this
    obtain ⟨⟨hk, hne⟩, _⟩ := this
    subst hk
    refine ⟨?_, ?_, ?_⟩
    · intro k hk; cases hk; exact hne
    · intro h; cases h
    · intro ki' h; cases h; rfl
  | sect si =>
    simp only [Bool.and_eq_true] at this
    obtain ⟨⟨hk, _⟩, _⟩ := this
    refine ⟨?_, ?_, ?_⟩
    · intro k' hk'
      simp only at hk'
      subst hk'
      split at hk
      · simp at hk
      · simp only [Bool.and_eq_true, beq_iff_eq, Bool.not_eq_true', List.isEmpty_eq_false_iff, Option.some.injEq] at hk
        rw [hk.1]; exact hk.2
    · intro _; exact ⟨si, rfl⟩
    · intro ki h; cases h

/-! ### `getsectioninfo` = `slotOf` -/

theorem isAbstract_eq (s : Schema) (a : Str) : isAbstract s a = isAbs s a := rfl

theorem isSubtype_eq (s : Schema) (a ty : Str) : isSubtype s a ty = (implementers s a).contains ty := by
  unfold isSubtype implementers
  split <;> simp_all

theorem go_eq_slot (s : Schema) (ty : Str) (nm : Option Str) : ∀ (l : List (Option Str × Info)),
    (∀ c ∈ l, keyShapeOK c) →
    (getsectioninfo.go s ty nm l).toOption =
      match l.find? (claims s ty nm) with
      | some c => admits s ty nm c
      | none => none := by
  intro l
  induction l with
  | nil => intro _; simp [getsectioninfo.go]
  | cons c rest ih =>
    intro hsh
    have ihr := ih (fun c hc => hsh c (List.mem_cons_of_mem _ hc))
    have hc := hsh c List.mem_cons_self
    obtain ⟨key, info⟩ := c
    obtain ⟨hc1, hc2, _⟩ := hc
    have unk : ∀ si, info = .sect si →
        (getsectioninfo.goUnkeyed s ty nm info rest).toOption =
          if (si.ty == ty || (isAbs s si.ty && (implementers s si.ty).contains ty))
          then (if si.ty == ty then (if nm.isSome || si.name == ['*'] then some si else none) else some si)
          else (getsectioninfo.go s ty nm rest).toOption := by
      intro si hsi
      subst hsi
      unfold getsectioninfo.goUnkeyed
      simp only [isAbstract_eq, isSubtype_eq, allowUnnamed]
      by_cases h1 : (si.ty == ty) = true
      · simp only [h1, if_true, Bool.true_or]
        split <;> simp_all
      · simp only [h1, Bool.false_or, Bool.false_eq_true, if_false]
        by_cases h2 : isAbs s si.ty = true
        · simp only [h2, if_true, Bool.true_and, toOption_ite, toOption_ok]
        · simp only [h2, Bool.false_and, Bool.false_eq_true, if_false]
    rw [getsectioninfo.go.eq_def]
    simp only
    cases key with
    | none =>
      obtain ⟨si, hsi⟩ := hc2 rfl
      simp only
      rw [unk si hsi, ihr]
      subst hsi
      simp only [List.find?_cons, claims]
      split
      · rename_i hcl
        simp only [hcl, admits]
      · rename_i hcl
        simp only [hcl]
    | some k =>
      have hk : (k != []) = true := by simpa using hc1 k rfl
      simp only [hk, if_true]
      by_cases hn : (some k == nm) = true
      · simp only [hn, if_true, List.find?_cons, claims, hk, Bool.and_self]
        cases info with
        | key ki => rfl
        | sect si =>
          simp only [admits, isAbstract_eq, isSubtype_eq]
          by_cases h2 : isAbs s si.ty = true
          · simp only [h2, if_true, toOption_ite, toOption_ok, toOption_error]
          · simp only [h2, Bool.false_eq_true, if_false]
            by_cases h3 : (si.ty == ty) = true
            · have : si.ty = ty := by simpa using h3
              simp [this]
            · have : ¬ si.ty = ty := by simpa using h3
              simp [this]
      · simp only [hn, Bool.false_eq_true, if_false, List.find?_cons, claims, hk, Bool.and_false]
        exact ihr

theorem getsectioninfo_eq_slotOf (s : Schema) (t : SType) (ty : Str) (nm : Option Str) (ht : STypeOK s t) :
    (getsectioninfo s t ty nm).toOption = slotOf s t ty nm :=
  go_eq_slot s ty nm t.children ht.shape

/-- the slot of a header belongs to a section child of the type -/
theorem slotOf_mem (s : Schema) (t : SType) (ty : Str) (nm : Option Str) (si : SectInfo)
    (h : slotOf s t ty nm = some si) : ∃ k, (k, Info.sect si) ∈ t.children := by
  unfold slotOf at h
  split at h
  · rename_i c hc
    have hm := List.mem_of_find?_eq_some hc
    obtain ⟨k, info⟩ := c
    unfold admits at h
    cases info with
    | key ki => simp at h
    | sect si' =>
      have : si' = si := by
        simp only at h
        split_hyp h
        all_goals first | (cases h; rfl) | cases h
      subst this
      exact ⟨k, hm⟩
  · cases h

theorem isAllowedName_eq_nameOK (si : SectInfo) (nm : Option Str) : isAllowedName si nm = nameOK si nm := by
  unfold isAllowedName nameOK
  by_cases h1 : nm = some ['*']
  · simp [h1]
  · by_cases h2 : nm = some ['+']
    · simp [h2]
    · simp [h1, h2]

end ZCV.Conf
