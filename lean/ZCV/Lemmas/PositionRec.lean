import ZCV.Lemmas.Position
/-!
C08, parse level: positions recorded with values.  A context may keep the `(text, position)` pairs `addValue` hands it and
raise a conversion error about one of them later (when the enclosing section closes).  `Handed` says which pairs a parse hands
over, `Records` what it means for a context to keep nothing else, and `culprit_rec` that whatever the context holds at the
culprit line was there at the start or was handed over earlier in the same parse (at any `%include` depth).
-/
namespace ZCV.Cfg
open ZCV

/-- `Handed env c fuel active url lines lineno st key v p`: while reading `lines` from state `st` (as far as the parse gets),
    the parser reaches a key line and calls `addValue(key, v, p)`: `v` is the text after substitution, `p` the number of that
    line and the URL of the resource that contains it -/
inductive Handed {σ} (env : Env) (c : PCtx σ) :
    Nat → List Str → Option Str → List Str → Nat → PS σ → Str → Str → Pos → Prop
  | here (fuel active url l rest lineno st key raw v)
      (hs : lineShape (strip l) = .kv key raw)
      (hv : (if raw == [] then pure [] else replace env st.defs url (lineno + 1) raw) = .ok v) :
      Handed env c fuel active url (l :: rest) lineno st key v { line := ((lineno + 1 : Nat) : Int), url := url }
  | inner (fuel active url l rest lineno st fuel' u sub key v p)
      (hen : Enters fuel env c active url (lineno + 1) (strip l) st fuel' u sub)
      (h : Handed env c fuel' (u :: active) (some u) sub 0 (subState st) key v p) :
      Handed env c fuel active url (l :: rest) lineno st key v p
  | next (fuel active url l rest lineno st st1 key v p)
      (h1 : stepLine fuel env c active url (lineno + 1) (strip l) st = .ok st1)
      (h : Handed env c fuel active url rest (lineno + 1) st1 key v p) :
      Handed env c fuel active url (l :: rest) lineno st key v p

/-- `Rec s v p`: the context state `s` holds text `v` with position `p`.  The context only ever adds what `addValue` gives it. -/
structure Records {σ} (c : PCtx σ) (Rec : σ → Str → Pos → Prop) : Prop where
  start : ∀ s ty nm s' v p, c.start s ty nm = .ok s' → Rec s' v p → Rec s v p
  stop : ∀ s ty nm s' v p, c.stop s ty nm = .ok s' → Rec s' v p → Rec s v p
  imp : ∀ s pkg s' v p, c.imp s pkg = .ok s' → Rec s' v p → Rec s v p
  value : ∀ s k w q s' v p, c.value s k w q = .ok s' → Rec s' v p → Rec s v p ∨ (v = w ∧ p = q)

theorem stepLine_rec {σ} {c : PCtx σ} {Rec : σ → Str → Pos → Prop} (hR : Records c Rec) (env : Env) (fuel : Nat)
    (ih : ∀ f, fuel = f + 1 → ∀ (active : List Str) (url : Option Str) (lines : List Str) (n : Nat) (st st' : PS σ) v p,
      parseLines f env c active url lines n st = .ok st' → Rec st'.ctx v p →
      Rec st.ctx v p ∨ ∃ key, Handed env c f active url lines n st key v p)
    (active : List Str) (url : Option Str) (lineno : Nat) (l : Str) (rest : List Str) (st st1 : PS σ) (v : Str) (p : Pos)
    (h : stepLine fuel env c active url (lineno + 1) (strip l) st = .ok st1) (hr : Rec st1.ctx v p) :
    Rec st.ctx v p ∨ ∃ key, Handed env c fuel active url (l :: rest) lineno st key v p := by
  cases hs : lineShape (strip l) with
  | skip => rw [stepLine] at h; simp only [hs] at h; cases h; exact .inl hr
  | bad t => rw [stepLine] at h; simp only [hs] at h; cases h
  | internal t => rw [stepLine] at h; simp only [hs] at h; cases h
  | close ty =>
    rw [stepLine] at h; simp only [hs] at h
    unfold closeSection at h
    split at h
    · cases h
    · split at h
      · cases h
      · obtain ⟨c2, hc2, rfl⟩ := map_ok_inv h
        rw [closeFixup_ok_iff] at hc2
        exact .inl (hR.stop _ _ _ _ _ _ hc2 hr)
  | open_ ty nm e =>
    rw [stepLine] at h; simp only [hs] at h
    unfold openSection at h
    split at h
    · cases h
    · cases h
    · rename_i ctx1 h1
      split at h
      · obtain ⟨c2, hc2, rfl⟩ := map_ok_inv h
        rw [closeFixup_ok_iff] at hc2
        exact .inl (hR.start _ _ _ _ _ _ h1 (hR.stop _ _ _ _ _ _ hc2 hr))
      · cases h
        exact .inl (hR.start _ _ _ _ _ _ h1 hr)
  | kv k raw =>
    rw [stepLine] at h; simp only [hs] at h
    rw [keyValue_eq] at h
    obtain ⟨w, hw, h⟩ := bind_ok_inv h
    unfold kvCore at h
    split at h
    · rename_i ctx1 h1
      cases h
      rcases hR.value _ _ _ _ _ _ _ h1 hr with h2 | ⟨rfl, rfl⟩
      · exact .inl h2
      · exact .inr ⟨k, .here _ _ _ _ _ _ _ _ _ _ hs hw⟩
    · cases h
    · cases h
  | define a =>
    rw [stepLine_define _ _ _ _ _ _ _ _ _ hs] at h
    unfold defStep at h
    split at h
    · cases h
    · obtain ⟨d, _, rfl⟩ := map_ok_inv h
      exact .inl hr
  | import_ a =>
    rw [stepLine_import _ _ _ _ _ _ _ _ _ hs] at h
    unfold impStep at h
    obtain ⟨w, _, h⟩ := bind_ok_inv h
    obtain ⟨d, hd, rfl⟩ := map_ok_inv h
    exact .inl (hR.imp _ _ _ _ _ hd hr)
  | include_ a =>
    obtain ⟨fuel', u, sub, r, hen, hp, rfl⟩ := stepLine_include_ok _ _ _ _ _ _ _ _ _ _ hs h
    have hf : fuel = fuel' + 1 := by
      obtain ⟨_, _, _, _, _, _, _, _, hf⟩ := hen
      exact hf
    rcases ih fuel' hf _ _ _ _ _ _ _ _ hp hr with h2 | ⟨key, h2⟩
    · exact .inl h2
    · exact .inr ⟨key, .inner _ _ _ _ _ _ _ _ _ _ _ _ _ hen h2⟩

/-- what the context holds after a successful parse was there before or has been handed over by the parse -/
theorem parse_rec {σ} {c : PCtx σ} {Rec : σ → Str → Pos → Prop} (hR : Records c Rec) (env : Env) :
    ∀ (fuel : Nat) (active : List Str) (url : Option Str) (lines : List Str) (n : Nat) (st st' : PS σ) (v : Str) (p : Pos),
      parseLines fuel env c active url lines n st = .ok st' → Rec st'.ctx v p →
      Rec st.ctx v p ∨ ∃ key, Handed env c fuel active url lines n st key v p := by
  intro fuel
  induction fuel using Nat.strongRecOn with
  | _ fuel ihf =>
    have ih : ∀ f, fuel = f + 1 → ∀ (active : List Str) (url : Option Str) (lines : List Str) (n : Nat) (st st' : PS σ) v p,
        parseLines f env c active url lines n st = .ok st' → Rec st'.ctx v p →
        Rec st.ctx v p ∨ ∃ key, Handed env c f active url lines n st key v p :=
      fun f hf => ihf f (by omega)
    intro active url lines
    induction lines with
    | nil =>
      intro n st st' v p h hr
      rw [parseLines] at h
      split at h
      · cases h
      · cases h; exact .inl hr
    | cons l rest ihl =>
      intro n st st' v p h hr
      rw [parseLines] at h
      obtain ⟨s1, h1, h2⟩ := bind_ok_inv h
      rcases ihl _ _ _ _ _ h2 hr with h3 | ⟨key, h3⟩
      · exact stepLine_rec hR env fuel ih _ _ _ _ _ _ _ _ _ h1 h3
      · exact .inr ⟨key, .next _ _ _ _ _ _ _ _ _ _ _ h1 h3⟩

/-- what the context holds when the culprit line is read was there before or has been handed over earlier in the parse -/
theorem culprit_rec {σ} {c : PCtx σ} {Rec : σ → Str → Pos → Prop} (hR : Records c Rec) {env : Env} {fuel : Nat}
    {active : List Str} {url : Option Str} {lines : List Str} {lineno : Nat} {st : PS σ} {f : Fail} {u : Option Str} {n : Nat}
    {sF : PS σ} (h : Culprit env c fuel active url lines lineno st f u n sF) (v : Str) (p : Pos) (hr : Rec sF.ctx v p) :
    Rec st.ctx v p ∨ ∃ key, Handed env c fuel active url lines lineno st key v p := by
  induction h with
  | eof fuel active url lineno st h => exact .inl hr
  | here fuel active url l rest lineno st f hne h => exact .inl hr
  | inner fuel active url l rest lineno st fuel' u sub f u' n sF hen h ih =>
    rcases ih hr with h2 | ⟨key, h2⟩
    · exact .inl h2
    · exact .inr ⟨key, .inner _ _ _ _ _ _ _ _ _ _ _ _ _ hen h2⟩
  | next fuel active url l rest lineno st st1 f u n sF h1 h ih =>
    rcases ih hr with h2 | ⟨key, h2⟩
    · exact stepLine_rec hR env fuel (fun f _ => parse_rec hR env f) _ _ _ _ _ _ _ _ _ h1 h2
    · exact .inr ⟨key, .next _ _ _ _ _ _ _ _ _ _ _ h1 h2⟩

/-- a handed-over position is a line of the resource being read or of a resource reached from it by `%include`: its number is
    at least 1 and lies within that resource -/
theorem Handed.where_ {σ} {env : Env} {c : PCtx σ} {fuel : Nat} {active : List Str} {url : Option Str} {lines : List Str}
    {lineno : Nat} {st : PS σ} {key v : Str} {p : Pos}
    (h : Handed env c fuel active url lines lineno st key v p) :
    Reach env url p.url ∧ ∃ m : Nat, p.line = (m : Int) ∧
      ((p.url = url ∧ lineno < m ∧ m ≤ lineno + lines.length) ∨
       (∃ u' L, p.url = some u' ∧ env.res u' = some L ∧ 1 ≤ m ∧ m ≤ L.length)) := by
  induction h with
  | here fuel active url l rest lineno st key raw v hs hv =>
    exact ⟨.refl _, lineno + 1, rfl, .inl ⟨rfl, by omega, by simp only [List.length_cons]; omega⟩⟩
  | inner fuel active url l rest lineno st fuel' u sub key v p hen h ih =>
    obtain ⟨arg, a, _, _, _, hres, hsub, _, _⟩ := hen
    obtain ⟨hr, m, hm, hw⟩ := ih
    refine ⟨.step _ a u sub _ hres hsub hr, m, hm, .inr ?_⟩
    rcases hw with ⟨hu, h1, h2⟩ | hw
    · exact ⟨u, sub, hu, hsub, by omega, by simpa using h2⟩
    · exact hw
  | next fuel active url l rest lineno st st1 key v p h1 h ih =>
    obtain ⟨hr, m, hm, hw⟩ := ih
    refine ⟨hr, m, hm, ?_⟩
    rcases hw with ⟨hu, h1, h2⟩ | hw
    · exact .inl ⟨hu, by omega, by simp only [List.length_cons]; omega⟩
    · exact .inr hw

end ZCV.Cfg
