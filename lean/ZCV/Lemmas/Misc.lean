import ZCV.Model.Conv
import ZCV.Model.Schemaless
import ZCV.Spec.Grammar
import ZCV.Lemmas.Except
/-! Assorted lemmas about the parser / matcher / loader model, used by the property files C01, C08, C12, C13, C15. -/
namespace ZCV.Cfg
open ZCV

/-! ### C15: surrounding whitespace -/

theorem dropWhile_all_append {α} (p : α → Bool) (ws l : List α) (h : ws.all p = true) :
    (ws ++ l).dropWhile p = l.dropWhile p := by
  induction ws with
  | nil => rfl
  | cons a t ih =>
    simp only [List.all_cons, Bool.and_eq_true] at h
    simp [h.1, ih h.2]

theorem dropWhile_all_nil {α} (p : α → Bool) (ws : List α) (h : ws.all p = true) :
    ws.dropWhile p = [] := by
  have := dropWhile_all_append p ws [] h
  simpa using this

theorem lstrip_pad_left (ws l : Str) (h : ws.all pySpace = true) : lstrip (ws ++ l) = lstrip l :=
  dropWhile_all_append _ _ _ h

theorem rstrip_pad_right (l ws : Str) (h : ws.all pySpace = true) : rstrip (l ++ ws) = rstrip l := by
  unfold rstrip
  rw [List.reverse_append, dropWhile_all_append _ _ _ (by simpa using h)]

theorem strip_pad (ws l ws' : Str) (h1 : ws.all pySpace = true) (h2 : ws'.all pySpace = true) :
    strip (ws ++ l ++ ws') = strip l := by
  unfold strip
  rw [List.append_assoc, lstrip_pad_left _ _ h1]
  unfold lstrip
  rw [List.dropWhile_append]
  split
  · rename_i he
    rw [dropWhile_all_nil _ _ h2]
    simp at he
    simp [he]
  · exact rstrip_pad_right _ _ h2

theorem classify_pad (ws l ws' : Str) (h1 : ws.all pySpace = true) (h2 : ws'.all pySpace = true) :
    Grammar.classify (ws ++ l ++ ws') = Grammar.classify l := by
  unfold Grammar.classify
  rw [strip_pad ws l ws' h1 h2]

theorem closeFixup_ok_iff {σ} (url : Option Str) (line : Nat) (r : M σ) (s : σ) :
    closeFixup url line r = .ok s ↔ r = .ok s := by
  unfold closeFixup
  split
  · simp
  · split <;> simp
  · rename_i f hf
    cases f with
    | cfg e => exact absurd rfl (hf e)
    | internal x => simp
    | dtExc n => simp

/-- `<t/>` does what `<t>` followed by `</t>` does (successful case; line numbers only matter for errors) -/
theorem empty_form_equiv {σ} (c : PCtx σ) (url : Option Str) (line line2 : Nat) (ty : Str) (nm : Option Str) (st st' : PS σ) :
    openSection c url line ty nm true st = .ok st' ↔
      ∃ st1, openSection c url line ty nm false st = .ok st1 ∧ closeSection c url line2 ty st1 = .ok st' := by
  unfold openSection
  cases hs : c.start st.ctx ty nm with
  | error f =>
    cases f <;> simp
  | ok ctx1 =>
    simp only [if_true, Bool.false_eq_true, if_false, Except.ok.injEq, exists_eq_left']
    unfold closeSection
    simp only [bne_self_eq_false, Bool.false_eq_true, if_false]
    cases hstop : c.stop ctx1 ty nm with
    | ok ctx2 =>
      simp [closeFixup, Except.map]
    | error f =>
      have h1 : ∀ l, ∀ s, closeFixup url l (Except.error f : M σ) ≠ .ok s := by
        intro l s h
        rw [closeFixup_ok_iff] at h
        cases h
      constructor
      · intro h
        cases hc : closeFixup url line (Except.error f : M σ) with
        | ok s => exact absurd hc (h1 _ _)
        | error g => rw [hc] at h; simp [Except.map] at h
      · intro h
        cases hc : closeFixup url line2 (Except.error f : M σ) with
        | ok s => exact absurd hc (h1 _ _)
        | error g => rw [hc] at h; simp [Except.map] at h

/-! ### C08: positions -/

theorem replace_error_position (env : Env) (defs) (url : Option Str) (line : Nat) (raw : Str) (e : Err)
    (h : replace env defs url line raw = .error (.cfg e)) : e.line = some (line : Int) ∧ e.url = url := by
  unfold replace at h
  split at h
  · cases h
  · cases h; simp
  · cases h; simp

/-- the part of `keyValue` after the value has been computed -/
theorem keyValue_cases {σ} (env : Env) (c : PCtx σ) (url : Option Str) (line : Nat) (key raw : Str) (st : PS σ)
    (e : Err) (h : keyValue env c url line key raw st = .error (.cfg e)) :
    replace env st.defs url line raw = .error (.cfg e) ∨
    ∃ v e', c.value st.ctx key v { line := line, url := url } = .error (.cfg e') ∧
      e = { e' with line := (match e'.line with | some l => if l < 0 then some (line : Int) else some l | none => some (line : Int)),
                    url := (match e'.url with | some u => if u == [] then url else some u | none => url) } := by
  unfold keyValue at h
  simp only [bind, Except.bind, pure, Except.pure] at h
  have key : ∀ v, (match c.value st.ctx key v { line := line, url := url } with
      | .ok ctx1 => (.ok { st with ctx := ctx1 } : M (PS σ))
      | .error (.cfg e) =>
        .error (.cfg { e with line := (match e.line with | some l => if l < 0 then some (line : Int) else some l | none => some (line : Int)),
                              url := (match e.url with | some u => if u == [] then url else some u | none => url) })
      | .error f => .error f) = .error (.cfg e) →
      ∃ e', c.value st.ctx key v { line := line, url := url } = .error (.cfg e') ∧
      e = { e' with line := (match e'.line with | some l => if l < 0 then some (line : Int) else some l | none => some (line : Int)),
                    url := (match e'.url with | some u => if u == [] then url else some u | none => url) } := by
    intro v hv
    split at hv
    · cases hv
    · rename_i e' he'
      cases hv
      exact ⟨e', he', rfl⟩
    · rename_i f hf1 hf2
      cases hv
      exact absurd rfl (hf1 e)
  by_cases hr : (raw == []) = true
  · simp only [hr, if_true] at h
    exact .inr ⟨_, key _ h⟩
  · simp only [hr] at h
    cases hrep : replace env st.defs url line raw with
    | error f =>
      rw [hrep] at h
      simp only at h
      cases h
      exact .inl rfl
    | ok v =>
      rw [hrep] at h
      simp only at h
      exact .inr ⟨_, key _ h⟩

/-- whatever goes wrong while handling a key line, a configuration error leaves with a line number -/
theorem keyValue_error_has_line {σ} (env : Env) (c : PCtx σ) (url : Option Str) (line : Nat) (key raw : Str) (st : PS σ)
    (e : Err) (h : keyValue env c url line key raw st = .error (.cfg e)) : e.line ≠ none := by
  rcases keyValue_cases env c url line key raw st e h with h | ⟨v, e', _, rfl⟩
  · rw [(replace_error_position _ _ _ _ _ _ h).1]; simp
  · simp only
    split
    · split <;> simp
    · simp

/-- … and it is this line and this resource when the context's own error carries no position -/
theorem keyValue_error_position {σ} (env : Env) (c : PCtx σ) (url : Option Str) (line : Nat) (key raw : Str) (st : PS σ)
    (hc : ∀ v e', c.value st.ctx key v { line := line, url := url } = .error (.cfg e') → e'.line = none ∧ e'.url = none)
    (e : Err) (h : keyValue env c url line key raw st = .error (.cfg e)) :
    e.line = some (line : Int) ∧ e.url = url := by
  rcases keyValue_cases env c url line key raw st e h with h | ⟨v, e', he', rfl⟩
  · exact replace_error_position _ _ _ _ _ _ h
  · obtain ⟨h1, h2⟩ := hc _ _ he'
    simp [h1, h2]

/-- an error while closing a section (either spelling) leaves with a line number -/
theorem closeFixup_error_has_line {σ} (url : Option Str) (line : Nat) (r : M σ) (e : Err)
    (h : closeFixup url line r = .error (.cfg e)) : e.line ≠ none := by
  unfold closeFixup at h
  split at h
  · cases h
  · split at h
    · cases h
      simp only
      split
      · split <;> simp
      · simp
    · cases h; simp
  · rename_i f hf
    cases h
    exact absurd rfl (hf e)

/-! ### C12: abstract slots -/

theorem goUnkeyed_abstract (s : Schema) (ty : Str) (name : Option Str) (si : SectInfo)
    (hconc : isAbstract s ty = false) (ha : isAbstract s si.ty = true)
    (info : Info) (rest : List (Option Str × Info))
    (ih : getsectioninfo.go s ty name rest = .ok si → isSubtype s si.ty ty = true)
    (h : getsectioninfo.goUnkeyed s ty name info rest = .ok si) : isSubtype s si.ty ty = true := by
  unfold getsectioninfo.goUnkeyed at h
  split at h
  · cases h
  · rename_i si'
    split at h
    · rename_i heq
      split at h
      · cases h
        have : si.ty = ty := by simpa using heq
        rw [this, hconc] at ha
        cases ha
      · cases h
    · split at h
      · split at h
        · rename_i hsub
          cases h
          exact hsub
        · exact ih h
      · exact ih h

theorem go_abstract (s : Schema) (ty : Str) (name : Option Str) (si : SectInfo)
    (hconc : isAbstract s ty = false) (ha : isAbstract s si.ty = true) :
    ∀ (l : List (Option Str × Info)), getsectioninfo.go s ty name l = .ok si → isSubtype s si.ty ty = true := by
  intro l
  induction l with
  | nil => intro h; unfold getsectioninfo.go at h; cases h
  | cons c rest ih =>
    intro h
    obtain ⟨key, info⟩ := c
    unfold getsectioninfo.go at h
    split at h
    · rename_i k
      split at h
      · split at h
        · split at h
          · cases h
          · rename_i si'
            split at h
            · split at h
              · rename_i hsub
                cases h; exact hsub
              · cases h
            · rename_i hna
              split at h
              · cases h
              · cases h
                rw [ha] at hna
                exact absurd rfl hna
        · exact ih h
      · exact goUnkeyed_abstract s ty name si hconc ha _ _ ih h
    · exact goUnkeyed_abstract s ty name si hconc ha _ _ ih h

/-- a header naming a concrete type is admitted by an abstract slot only if the type implements the slot's abstract type -/
theorem getsectioninfo_abstract_implies_subtype (s : Schema) (t : SType) (ty : Str) (name : Option Str) (si : SectInfo)
    (hconc : isAbstract s ty = false)
    (h : getsectioninfo s t ty name = .ok si) (ha : isAbstract s si.ty = true) : isSubtype s si.ty ty = true :=
  go_abstract s ty name si hconc ha _ h

/-- a header naming an abstract type is refused before any slot is consulted -/
theorem lsStart_abstract_refused (st : LS) (ty : Str) (nm : Option Str) (p : Matcher) (below : List Matcher)
    (hs : st.stack = p :: below) (n : Str) (subs : List Str) (h : st.schema.gettype ty = some (.abstract_ n subs)) :
    ∃ e, lsStart st ty nm = .error (.cfg e) := by
  unfold lsStart
  rw [hs]
  simp only [h]
  exact ⟨_, rfl⟩

/-! ### C13: only `%import` touches the schema -/

theorem lsStart_schema (st st' : LS) (ty : Str) (nm : Option Str) (h : lsStart st ty nm = .ok st') : st'.schema = st.schema := by
  unfold lsStart at h
  split at h
  · cases h
  · split at h
    · cases h
    · cases h
    · simp only [bind, Except.bind, pure, Except.pure] at h
      split at h
      · cases h
      · split at h
        · cases h
        · split at h
          · cases h
          · split at h
            · cases h; rfl
            · split at h
              · cases h
              · cases h; rfl

theorem lsStop_schema (st st' : LS) (ty : Str) (nm : Option Str) (h : lsStop st ty nm = .ok st') : st'.schema = st.schema := by
  unfold lsStop at h
  split at h
  · simp only [bind, Except.bind, pure, Except.pure] at h
    split at h
    · cases h
    · split at h
      · cases h
      · cases h; rfl
  · cases h

theorem lsValue_schema (st st' : LS) (k v : Str) (p : Pos) (h : lsValue st k v p = .ok st') : st'.schema = st.schema := by
  unfold lsValue at h
  split at h
  · cases ha : addValue st.conv _ k v p with
    | error e => rw [ha] at h; cases h
    | ok m => rw [ha] at h; cases h; rfl
  · cases h

/-! ### C01: which child a key line goes to -/

/-- declarative routing: the child with exactly this key if there is one, else the last wildcard (`+`) key -/
def route (children : List (Option Str × Info)) (rk : Str) : Option (Option Str × Info) :=
  match children.find? (fun c => c.1 == some rk) with
  | some c => some c
  | none => (children.filter (fun c => c.2.name == ['+'] && !c.2.isSection)).getLast?

theorem search_gen (rk : Str) : ∀ (children : List (Option Str × Info)) (arb : Option (Option Str × Info)),
    addValueCore.search rk children arb =
      match children.find? (fun c => c.1 == some rk) with
      | some c => some c
      | none => ((children.filter (fun c => c.2.name == ['+'] && !c.2.isSection)).getLast?).or arb := by
  intro children
  induction children with
  | nil => intro arb; simp [addValueCore.search]
  | cons c rest ih =>
    intro arb
    obtain ⟨k, ci⟩ := c
    rw [addValueCore.search]
    by_cases hk : (k == some rk) = true
    · simp [hk]
    · simp only [hk, if_false, List.find?_cons, Bool.false_eq_true]
      by_cases hw : (ci.name == ['+'] && !ci.isSection) = true
      · simp only [hw, if_true, List.filter_cons]
        rw [ih]
        cases hf : List.find? (fun c => c.1 == some rk) rest with
        | some c => rfl
        | none =>
          simp only
          cases hl : (List.filter (fun c => c.2.name == ['+'] && !c.2.isSection) rest).getLast? with
          | none =>
            have : List.filter (fun c => c.2.name == ['+'] && !c.2.isSection) rest = [] := by
              simpa using hl
            simp [this]
          | some w =>
            simp only [Option.or_some]
            rw [List.getLast?_cons, hl]
            simp
      · simp only [hw, if_false, List.filter_cons, Bool.false_eq_true]
        rw [ih]

/-- the search loop of `addValue`, started with no wildcard seen, computes `route` provided no child *before* the exact match …
    (in general: exact match wins wherever it is) -/
theorem search_eq_route (children : List (Option Str × Info)) (rk : Str) :
    addValueCore.search rk children none = route children rk := by
  rw [search_gen, route]
  split <;> simp

/-- a key that routes nowhere is rejected with a configuration error -/
theorem addValueCore_unknown_rejected (m : Matcher) (key rk v : Str) (pos : Pos) (h : route m.ty.children rk = none) :
    ∃ e, addValueCore m key rk v pos = .error (.cfg e) ∧ e.kind = .plain := by
  unfold addValueCore
  rw [search_eq_route, h]
  exact ⟨_, rfl, rfl⟩

end ZCV.Cfg
