import ZCV.Lemmas.ElabExpandGlobal
import ZCV.Lemmas.ElabNoIntEx
/-!
C11, `extends` = written-out expansion: closed instances.
* the hypotheses of `C11_extends_partial` hold of a document with a chain of three section types, whose written-out
  form is computed;
* the hypothesis "a type with `extends` has no `keytype` of its own" cannot be dropped
  (finding C11-inherited-fixed-name): `inheritedFixedName`.
-/
namespace ZCV.Elab
open ZCV ZCV.Cfg

namespace ExpandExample

def dt3 : Attrs := [("valuetype".toList, "a.v".toList), ("datatype".toList, "a.d".toList)]
def rootAttrs : Attrs := ("keytype".toList, "k.id".toList) :: dt3

def keyK : Node :=
  .elem "key".toList [("name".toList, "K".toList), ("attribute".toList, "x".toList), ("datatype".toList, "a.d".toList)] []
def keyL : Node :=
  .elem "key".toList [("name".toList, "L".toList), ("attribute".toList, "y".toList), ("datatype".toList, "a.d".toList)] []

/-- three section types in a chain, none overriding the key type -/
def chain : Node :=
  .elem "schema".toList rootAttrs
    [.elem "sectiontype".toList (("name".toList, "a".toList) :: ("keytype".toList, "k.low".toList) :: dt3) [keyK],
     .elem "sectiontype".toList [("name".toList, "b".toList), ("extends".toList, "A".toList)] [keyL],
     .elem "sectiontype".toList [("name".toList, "c".toList), ("extends".toList, "b".toList), ("datatype".toList, "c.d".toList)] []]

example : expandableDoc chain = true := by decide +kernel

/-- its written-out form -/
def chainWritten : Node :=
  .elem "schema".toList rootAttrs
    [.elem "sectiontype".toList (("name".toList, "a".toList) :: ("keytype".toList, "k.low".toList) :: dt3) [keyK],
     .elem "sectiontype".toList [("name".toList, "b".toList), ("keytype".toList, "k.low".toList), ("datatype".toList, "a.d".toList)]
       [keyK, keyL],
     .elem "sectiontype".toList [("name".toList, "c".toList), ("datatype".toList, "c.d".toList), ("keytype".toList, "k.low".toList)]
       [keyK, keyL]]

example : expandExtends chain = chainWritten := rfl

/-- so the theorem applies to it, in every environment -/
example (env : Env) (fuel : Nat) : elabSchema env fuel chain = elabSchema env fuel chainWritten :=
  C11_extends_partial env fuel chain (by decide +kernel)

/-! #### the finding C11-inherited-fixed-name -/

/-- an environment with two key types: `k.low` lower-cases names, every other one leaves them alone -/
def envC : Env :=
  { conv := { stockConv with key := fun kt s => if kt == "k.low".toList then .ok (lower s) else .ok s },
    dotted := fun n => .found n, comps := fun _ _ => .noFile, bases := fun _ => none }

/-- `b` extends `a` but has its own key type -/
def overriding : Node :=
  .elem "schema".toList rootAttrs
    [.elem "sectiontype".toList (("name".toList, "a".toList) :: ("keytype".toList, "k.low".toList) :: dt3) [keyK],
     .elem "sectiontype".toList (("name".toList, "b".toList) :: ("extends".toList, "a".toList) :: rootAttrs) []]

/-- the names of the keys of a section type of a loaded schema -/
def keyNames (r : EM Cfg.Schema) (ty : String) : Option (List Str) :=
  match r with
  | .ok S =>
    match S.types.find? (·.1 == ty.toList) with
    | some (_, .concrete t) => some (t.children.map fun c => c.2.name)
    | _ => none
  | .error _ => none

set_option maxRecDepth 100000 in
/-- in the schema as loaded, `b` has the key `k` (copied from `a`, where the name was normalised under `k.low`) … -/
theorem overriding_orig : keyNames (elabSchema envC 0 overriding) "b" = some ["k".toList] := by
  unfold overriding keyK
  eval_elab

set_option maxRecDepth 100000 in
/-- … in the written-out schema, re-reading `<key name="K">` under `b`'s own key type gives `K` -/
theorem overriding_written : keyNames (elabSchema envC 0 (expandExtends overriding)) "b" = some ["K".toList] := by
  have : expandExtends overriding = .elem "schema".toList rootAttrs
      [.elem "sectiontype".toList (("name".toList, "a".toList) :: ("keytype".toList, "k.low".toList) :: dt3) [keyK],
       .elem "sectiontype".toList (("name".toList, "b".toList) :: rootAttrs) [keyK]] := rfl
  rw [this]
  unfold keyK
  eval_elab

/-- **C11-inherited-fixed-name**: without the hypothesis "a type with `extends` has no `keytype` of its own",
    `C11_extends_partial` fails — both documents are accepted, with different schemas -/
theorem inheritedFixedName : elabSchema envC 0 overriding ≠ elabSchema envC 0 (expandExtends overriding) := by
  intro h
  have h1 := overriding_orig
  rw [h, overriding_written] at h1
  exact absurd h1 (by decide)

/-- (the chain of the first example is accepted in this environment, so the theorem is not vacuous there) -/
example : (keyNames (elabSchema envC 0 chain) "c") = some ["k".toList, "l".toList] := by
  unfold chain keyK keyL
  eval_elab

end ExpandExample
end ZCV.Elab
